#!/usr/bin/env python3
"""Prints the markdown table of DESIGN.md section 9.4 from seeded/*/meta.json."""
import glob, json, os, re
rows = []
for d in sorted(glob.glob("/verif/seeded/*/meta.json")):
    m = json.load(open(d))
    sid = os.path.basename(os.path.dirname(d))
    cr = m.get("check_result", "")
    caught = re.sub(r"^detected:\s*", "", cr)
    caught = re.sub(r"\./check (C\d\d) quick -> VIOLATION", r"\1 quick", caught)
    rows.append("| %s | %s | %s | %s |" % (sid, m.get("needs_to_manifest", "").replace("|", "/"), caught.replace("|", "/"), m.get("note", "").replace("|", "/")))
print("| seeded | what it needs to manifest | caught by | note |\n|---|---|---|---|")
print("\n".join(rows))
