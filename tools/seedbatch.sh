#!/bin/bash
# Usage: [SEED_PREFIX=seed2] tools/seedbatch.sh <Cxx> <default demo dest | x> [check props...]
# Runs tools/seedtest.sh for /tmp/<prefix>-<Cxx>/out/{1,2,3}; prints the summary lines; full logs in /tmp/<prefix>-<Cxx>/log.N
# The demo destination of a change is taken from out/N/DEST, else from a "DEST: path" line of its README.md, else the default.
P=$1; DEST=$2; shift 2
PRE=${SEED_PREFIX:-seed}
B=/tmp/$PRE-$P
for n in 1 2 3; do
  [ -d $B/out/$n ] || continue
  d=$DEST
  if [ -f $B/out/$n/DEST ]; then d=$(cat $B/out/$n/DEST)
  elif grep -q '^[^A-Za-z]*DEST:' $B/out/$n/README.md 2>/dev/null; then d=$(grep -m1 -o 'DEST:.*' $B/out/$n/README.md | sed 's/DEST:[ `]*//; s/[` ].*$//'); fi
  /verif/tools/seedtest.sh $P $B/wt $B/out/$n $d "$@" > $B/log.$n 2>&1
  echo "=== $P-$n ($d): $(grep SUMMARY $B/log.$n)"
  grep -E "VIOLATION|KNOWN-FINDING|cases,|exit=|PATCH DOES NOT" $B/log.$n | cut -c1-220
done
