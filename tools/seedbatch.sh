#!/bin/bash
# Usage: tools/seedbatch.sh <Cxx> <demo dest relative path> [check props...]
# Runs tools/seedtest.sh for /tmp/seed-<Cxx>/out/{1,2,3}; prints the summary lines; full logs in /tmp/seed-<Cxx>/log.N
P=$1; DEST=$2; shift 2
for n in 1 2 3; do
  [ -d /tmp/seed-$P/out/$n ] || continue
  d=$DEST
  [ -f /tmp/seed-$P/out/$n/DEST ] && d=$(cat /tmp/seed-$P/out/$n/DEST)
  /verif/tools/seedtest.sh $P /tmp/seed-$P/wt /tmp/seed-$P/out/$n $d "$@" > /tmp/seed-$P/log.$n 2>&1
  echo "=== $P-$n: $(grep SUMMARY /tmp/seed-$P/log.$n)"
  grep -E "VIOLATION|KNOWN-FINDING|cases,|exit=|PATCH DOES NOT" /tmp/seed-$P/log.$n | cut -c1-220
done
