#!/bin/bash
# tools/accept5.sh <Cxx> <n>...: clean run on /repo, then the named round-6 seeds only
P=$1; shift
echo "##### $P clean: $(cd /verif && ./check $P 2>&1 | grep -E 'VIOLATION|cases,' | tr '\n' ' ')"
for n in "$@"; do
  B=/tmp/seed6-$P
  d=$(grep -m1 -o 'DEST:.*' $B/out/$n/README.md | sed 's/DEST:[ `]*//; s/[` ].*$//')
  /verif/tools/seedtest.sh $P $B/wt $B/out/$n $d > $B/log.$n.acc 2>&1
  echo "=== $P-$n: $(grep SUMMARY $B/log.$n.acc)"; grep -E "cases,|exit=|no-failing" $B/log.$n.acc | cut -c1-160
done
