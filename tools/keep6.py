import sys,re,subprocess,os
# usage: keep5.py P n detected|missed [note]
P,n,st=sys.argv[1:4]; note=sys.argv[4] if len(sys.argv)>4 else ''
d=f'/tmp/seed6-{P}/out/{n}'
rd=open(d+'/README.md').read()
m=re.search(r'DEST:[ `]*([^\s`]+)',rd); dest=m.group(1)
m=re.search(r'(?:Needed to manifest|Needs|Trigger|What it needs to manifest|Circumstances needed|Needed)[^:\n]*:\s*(.+?)(?:\n\s*\n|\Z)',rd,re.S|re.I)
needs=' '.join(m.group(1).split())[:400] if m else 'see README.md'
res={'detected':f'detected: ./check {P} quick -> VIOLATION with failing input (round 6, at arrival)','missed':'MISSED at arrival (round 6)'}.get(st,st)
subprocess.run(['python3','/verif/tools/seedkeep.py',f'{P}-r6-{n}',P,d,dest,needs,res,note],check=True)
