#!/bin/bash
# Usage: tools/seedtest.sh <Cxx> <worktree> <mutant dir with patch.diff + zz_demo_test.go> <demo dest relative path> [check props...]
# Confirms a seeded change (suite passes with it, demo fails with / passes without) and runs ./check against it.
set -u
P=$1; WT=$2; M=$3; DEST=$4; shift 4
CHECKS=${*:-$P}
export GOPROXY=off GOSUMDB=off GOTOOLCHAIN=local GOFLAGS=
cd $WT && git checkout -q -- . && git clean -fdq
suite() { (cd $WT/ociregistry && go test -count=1 ./... 2>&1 | grep -v '^ok\|no test files' ; cd $WT/ociregistry/internal/conformance && go test -count=1 ./... 2>&1 | grep -v '^ok\|no test files'; cd $WT/cmd/ocisrv && go test -count=1 ./... 2>&1 | grep -v '^ok\|no test files'); }
demo() { cp $M/zz_demo_test.go $WT/$DEST; (cd $WT/$(dirname $DEST) && go test -count=1 -run 'Demo' . 2>&1 | tail -3); rm -f $WT/$DEST; }
echo "== demo without mutant"; D0=$(demo); echo "$D0"
git apply $M/patch.diff || { echo "PATCH DOES NOT APPLY"; exit 2; }
echo "== suite with mutant (only failures shown)"; S=$(suite); echo "$S"
echo "== demo with mutant"; D1=$(demo); echo "$D1"
echo "SUMMARY demo_without=$(echo "$D0" | grep -q '^ok' && echo pass || echo FAIL) suite_with=$([ -z "$S" ] && echo pass || echo FAIL) demo_with=$(echo "$D1" | grep -q '^FAIL' && echo fail || echo PASS)"
[ -n "${SEED_NOCHECK:-}" ] && CHECKS=""
for c in $CHECKS; do
  echo "== ./check $c against mutant"
  (cd /verif && VERIF_REPO=$WT ./check $c 2>&1 | grep -E 'VIOLATION|KNOWN-FINDING|cases,' ; echo "exit=${PIPESTATUS[0]}")
done
cd $WT && git checkout -q -- . && git clean -fdq
