#!/usr/bin/env python3
"""tools/seedkeep.py <seed id> <property> <src dir> <demo dest> <needs> <detected: yes|no|...> [note]
Stores a confirmed seeded change under /verif/seeded/<seed id>/ (patch.diff, demo, README, meta.json)."""
import sys, os, shutil, json
sid, prop, src, dest, needs, detected = sys.argv[1:7]
note = sys.argv[7] if len(sys.argv) > 7 else ""
d = os.path.join("/verif/seeded", sid)
os.makedirs(d, exist_ok=True)
for f in ("patch.diff", "zz_demo_test.go", "README.md"):
    if os.path.exists(os.path.join(src, f)):
        shutil.copy(os.path.join(src, f), os.path.join(d, f))
meta = {
    "property": prop,
    "breaks": "see README.md",
    "needs_to_manifest": needs,
    "demo": {"file": "zz_demo_test.go", "place_at": dest, "run": "cd %s && go test -count=1 -run Demo ." % os.path.dirname(dest)},
    "confirmed": "tools/seedtest.sh %s <scratch worktree> seeded/%s %s : demo passes without the change, fails with it; "
                 "ociregistry, internal/conformance and cmd/ocisrv suites pass with it" % (prop, sid, dest),
    "check_result": detected,
    "note": note,
}
json.dump(meta, open(os.path.join(d, "meta.json"), "w"), indent=1)
print("kept", d)
