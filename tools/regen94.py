#!/usr/bin/env python3
"""Rewrites DESIGN.md section 9.4 (intro counts + table from tools/seedtable.py)."""
import subprocess, re, glob, os, json
s = open('/verif/DESIGN.md').read()
i = s.index('### 9.4 '); j = s.index('### 9.5 ')
table = subprocess.run(['python3', '/verif/tools/seedtable.py'], capture_output=True, text=True, check=True).stdout
metas = [json.load(open(m)) for m in glob.glob('/verif/seeded/C*/meta.json')]
n = len(metas)
intro = '''### 9.4 Seeded changes (independent sub-agents, property text only) and which check catches them

Every change below compiles, passes the three existing suites, has a demonstration that fails
with it and passes without it (re-confirmed with `tools/seedtest.sh` in a scratch worktree), and is kept
under `/verif/seeded/<id>/` (patch.diff, the demonstration, README.md, meta.json). The sub-agents were given the
property text and a scratch worktree, nothing from /verif; from the second round on they were also told what had
been taken already and asked for changes that are harder to notice (`<P>-r2-<n>` ... `<P>-r6-<n>`; round 6 covered the 12 properties with a miss in round 5; the later rounds
were pointed at shared helpers outside the anchored files, rarely used options, second uses, numeric edges, cleanup
paths and feature interactions). "Cxx quick" means the registered quick command printed a VIOLATION line with a
failing input when run against the changed tree (`VERIF_REPO=<worktree> ./check Cxx`; `tools/accept.sh`,
`tools/accept5.sh`, `tools/accept6.sh` = a clean run plus a round's seeds). The table is generated from the meta.json files by
`tools/seedtable.py` (`tools/regen94.py` rewrites this section). %d changes in six rounds (3 per property per
round); every one is detected by the quick tier of some registered check now, with a failing input. Missed by every
check when they arrived: 12, 18, 16, 25 and 13 of 60 in rounds 1-5 and 15 of 36 in round 6 (round 5 also had 4 that were reported only as
a correspondence break without a failing input): each miss led to a strengthening of a generator, a harness or a
specification, named in the note column and summarised in 9.5 - never to a special case for the seeded input. Two
of the strengthenings exposed defects of the unchanged library, which were repaired (9.2: f256ce5, 8088cf8). A change
is sometimes caught by another property's check than the one it was written against (the note says which); seeds of
rounds 1-4 that touch lines changed by a later `fix:` commit are kept as they were confirmed, against the tree of
their time (C11-r4-2 is kept rebased as well).

''' % n
open('/verif/DESIGN.md', 'w').write(s[:i] + intro + table + '\n' + s[j:])
print('9.4 regenerated:', n, 'changes')
