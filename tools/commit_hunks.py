#!/usr/bin/env python3
"""tools/commit_hunks.py <msg name under work/fixes> <file>:<regex or ALL> [<file>:<regex> ...]
Stages, from /repo's working tree, the hunks of each file whose text matches the regex, and commits
them with the message work/fixes/<name>.msg (its 'files:' line dropped)."""
import sys, subprocess, re
name = sys.argv[1]
for spec in sys.argv[2:]:
    f, rx = spec.split(":", 1)
    if rx == "ALL":
        subprocess.check_call(["git", "-C", "/repo", "add", f]); continue
    d = subprocess.check_output(["git", "-C", "/repo", "diff", "-U3", f]).decode()
    parts = re.split(r"(?m)^(?=@@ )", d)
    head, hunks = parts[0], parts[1:]
    sel = [h for h in hunks if re.search(rx, h)]
    if not sel:
        sys.exit("no hunk of %s matches %s" % (f, rx))
    patch = head + "".join(sel)
    p = subprocess.run(["git", "-C", "/repo", "apply", "--cached", "--recount", "-"], input=patch.encode())
    if p.returncode: sys.exit("apply failed for " + spec)
msg = "".join(l for l in open("/verif/work/fixes/%s.msg" % name) if not l.startswith("files:"))
msg = re.sub(r"(?m)^Property C\d\d\.\n\n?", "", msg)
subprocess.run(["git", "-C", "/repo", "commit", "-q", "-F", "-"], input=msg.encode(), check=True)
print(subprocess.check_output(["git", "-C", "/repo", "log", "--format=%h %s", "-1"]).decode().strip())
