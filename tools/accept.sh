#!/bin/bash
# tools/accept.sh <Cxx>...: clean run on /repo, then the round-2 seeds; summary lines only
for P in "$@"; do
  echo "##### $P clean: $(cd /verif && ./check $P 2>&1 | grep -E 'VIOLATION|cases,' | tr '\n' ' ')"
  SEED_PREFIX=${SEED_PREFIX:-seed2} /verif/tools/seedbatch.sh $P x 2>&1 | grep -E "^===|cases,|exit=|no-failing" | cut -c1-150
done
