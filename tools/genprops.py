#!/usr/bin/env python3
"""tools/genprops.py <Props/Out.v> <prefix> <names file> <header file>
Writes a Props file whose statements are the lemmas' types as Coq prints them (Check), each closed by
`exact @Module.lemma` and followed by Print Assumptions.  names file: lines `Proofs.Module lemma|comment`."""
import subprocess, re, sys, os
out, prefix, namesf, headerf = sys.argv[1:5]
rows = [l.rstrip('\n').split('|', 1) for l in open(namesf) if l.strip()]
names = [(r[0].split()[0], r[0].split()[1], r[1]) for r in rows]
mods = []
for m, _, _ in names:
    if m not in mods: mods.append(m)
src = 'From Coq Require Import String.\nFrom OCI Require ' + ' '.join(mods) + '.\nSet Printing Width 100.\nSet Printing Depth 100000.\n'
for m, n, c in names:
    q = m.split('.')[-1] + '.' + n
    src += 'Eval compute in ("MARK %s")%%string.\nCheck @%s.\n' % (q, q)
os.makedirs('/tmp/genprops', exist_ok=True)
open('/tmp/genprops/chk.v', 'w').write(src)
r = subprocess.run(['coqc', '-Q', '/verif/coq', 'OCI', 'chk.v'], capture_output=True, text=True, timeout=1800, cwd='/tmp/genprops')
if r.returncode != 0:
    print(r.stdout[-2000:], r.stderr[-2000:]); sys.exit(1)
types = {}; cur = None
for line in r.stdout.split('\n'):
    m = re.search(r'"MARK ([^"]+)"', line)
    if m: cur = m.group(1); types[cur] = []; continue
    if cur is None or line.strip() == ': string': continue
    types[cur].append(line)
blk = ''; seen = set()
for m, n, c in names:
    q = m.split('.')[-1] + '.' + n
    txt = '\n'.join(types[q])
    mm = re.match(r'\s*' + re.escape(q) + r'\s*\n?\s*:\s?', txt)
    lines = [l for l in txt[mm.end():].split('\n') if l.strip()]
    base = min(len(l) - len(l.lstrip()) for l in lines[1:]) if len(lines) > 1 else 0
    body = '\n'.join(['  ' + lines[0].strip()] + ['  ' + l[base:] for l in lines[1:]])
    base_n = n.split('.')[-1]
    tn = base_n if base_n.startswith(prefix) else prefix + base_n
    if tn in seen: tn = prefix + m.split('.')[-1] + '_' + n
    seen.add(tn)
    blk += '(* %s *)\nTheorem %s :\n%s.\nProof. exact @%s. Qed.\nPrint Assumptions %s.\n\n' % (c, tn, body, q, tn)
open(os.path.join('/verif/coq', out), 'w').write(open(headerf).read().rstrip('\n') + '\nFrom Coq Require Import String.\nFrom OCI Require ' + ' '.join(mods) + '.\n\n' + blk)
print('wrote', out, blk.count('\nTheorem ') + (1 if blk.startswith('(*') else 0), 'theorems')
