#!/bin/bash
# Builds the Coq development (full .vo build; this *is* the proof check).
# Usage: ./build.sh [clean]
set -e
cd "$(dirname "$0")/coq"
mkdir -p ../work
exec 9>../work/.build.flock
flock 9
if [ "$1" = clean ]; then
  [ -f Makefile.coq ] && make -f Makefile.coq clean >/dev/null 2>&1 || true
  find . -name '*.vo' -o -name '*.vok' -o -name '*.vos' -o -name '*.glob' -o -name '.*.aux' | xargs -r rm -f
  rm -f Makefile.coq Makefile.coq.conf .Makefile.coq.d
fi
{
  echo "-Q . OCI"
  echo "-arg -w -arg -notation-overridden,-deprecated-hint-without-locality,-non-recursive,-deprecated-instance-without-locality"
  find Base Model Proofs Props Obs Generated -name '*.v' 2>/dev/null | sort
} > _CoqProject.new
if ! cmp -s _CoqProject.new _CoqProject || [ ! -f Makefile.coq ]; then
  mv _CoqProject.new _CoqProject
  coq_makefile -f _CoqProject -o Makefile.coq >/dev/null
else
  rm -f _CoqProject.new
fi
timeout 3000 make -k -f Makefile.coq -j"${VERIF_JOBS:-16}" COQC="timeout ${VERIF_FILE_TIMEOUT:-900} coqc" 2>&1
