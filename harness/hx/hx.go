// Package hx holds what every property harness shares: the seeded PRNG, Coq term
// printers, the case-file writer (shards + JSON side-car + distribution).
package hx

import (
	"crypto/sha256"
	"encoding/hex"
	"encoding/json"
	"flag"
	"fmt"
	"math/rand"
	"os"
	"path/filepath"
	"sort"
	"strings"
)

// Config is the command line every harness binary accepts.
type Config struct {
	Seed   int64
	Tier   string
	Out    string
	Replay string
	Corpus string
}

func ParseFlags() *Config {
	c := &Config{}
	flag.Int64Var(&c.Seed, "seed", 1, "PRNG seed")
	flag.StringVar(&c.Tier, "tier", "quick", "quick|thorough")
	flag.StringVar(&c.Out, "out", "", "output directory")
	flag.StringVar(&c.Replay, "replay", "", "replay file (JSON case input)")
	flag.StringVar(&c.Corpus, "corpus", "", "corpus directory (JSON case inputs, run first)")
	flag.Parse()
	if c.Out == "" {
		fmt.Fprintln(os.Stderr, "missing -out")
		os.Exit(2)
	}
	return c
}

func (c *Config) Thorough() bool { return c.Tier == "thorough" }

func (c *Config) Rand() *rand.Rand { return rand.New(rand.NewSource(c.Seed)) }

// ---- Coq printers ----

// B renders a byte string as a Coq term of type bytes: (p n [w1%uint63; ...]), seven bytes
// per primitive integer (coq/Base/Pack.v) — about 13x cheaper for coqc to read than a hex
// string literal.
func B(s string) string {
	if s == "" {
		return "[]"
	}
	var sb strings.Builder
	fmt.Fprintf(&sb, "(p %d [", len(s))
	for i := 0; i < len(s); i += 7 {
		end := i + 7
		if end > len(s) {
			end = len(s)
		}
		var w uint64
		for j := i; j < end; j++ {
			w = w<<8 | uint64(s[j])
		}
		if i > 0 {
			sb.WriteString("; ")
		}
		fmt.Fprintf(&sb, "%d%%uint63", w)
	}
	sb.WriteString("])")
	return sb.String()
}

// Hex renders a byte string as the hex-literal form (x "..."), for hand-readable output.
func Hex(s string) string {
	if s == "" {
		return "[]"
	}
	return `(x "` + hex.EncodeToString([]byte(s)) + `")`
}

// BB renders a []byte.
func BB(b []byte) string { return B(string(b)) }

func Bool(b bool) string {
	if b {
		return "true"
	}
	return "false"
}

func N(n int) string { return fmt.Sprintf("%d", n) }

func Z(n int64) string {
	if n < 0 {
		return fmt.Sprintf("(%d)%%Z", n)
	}
	return fmt.Sprintf("%d%%Z", n)
}

func List(items []string) string { return "[" + strings.Join(items, "; ") + "]" }

func Bs(ss []string) string {
	out := make([]string, len(ss))
	for i, s := range ss {
		out[i] = B(s)
	}
	return List(out)
}

func Opt(present bool, v string) string {
	if !present {
		return "None"
	}
	return "(Some " + v + ")"
}

// ---- case output ----

type Case struct {
	Coq  string // a Coq term of the property's [case] type
	Desc any    // readable form for the side-car / replay
	Tags map[string]any
}

type Out struct {
	cfg      *Config
	Module   string // e.g. "Obs.C20"
	ShardMax int
	cases    []Case
	seen     map[[32]byte]bool
	Dups     int
	Stats    map[string]int
	Extra    map[string]any
	Preamble string // extra Coq vernacular before the cases (e.g. hash tables)
}

func NewOut(cfg *Config, module string) *Out {
	return &Out{cfg: cfg, Module: module, ShardMax: 800, seen: map[[32]byte]bool{}, Stats: map[string]int{}, Extra: map[string]any{}}
}

// Add records a case; exact duplicates (same Coq term) are dropped so that every case in
// the files is distinct.
func (o *Out) Add(c Case) bool {
	h := sha256.Sum256([]byte(c.Coq))
	if o.seen[h] {
		o.Dups++
		return false
	}
	o.seen[h] = true
	o.cases = append(o.cases, c)
	return true
}

func (o *Out) Count(key string) { o.Stats[key]++ }
func (o *Out) Len() int         { return len(o.cases) }

func (o *Out) Flush() error {
	if err := os.MkdirAll(o.cfg.Out, 0o755); err != nil {
		return err
	}
	type side struct {
		Shard int            `json:"shard"`
		Index int            `json:"index"`
		Desc  any            `json:"desc"`
		Tags  map[string]any `json:"tags,omitempty"`
	}
	var sides []side
	shard := 0
	for start := 0; start < len(o.cases) || (start == 0 && shard == 0); start += o.ShardMax {
		end := start + o.ShardMax
		if end > len(o.cases) {
			end = len(o.cases)
		}
		var sb strings.Builder
		sb.WriteString("From Coq Require Import String PrimInt63.\nFrom OCI Require Import Base.Outcome Base.Pack " + o.Module + ".\n")
		sb.WriteString("Set Printing Width 1000000.\nSet Printing Depth 1000000.\n")
		sb.WriteString(o.Preamble)
		sb.WriteString("Definition cases : list case := [\n")
		for i := start; i < end; i++ {
			sb.WriteString("  ")
			sb.WriteString(o.cases[i].Coq)
			if i+1 < end {
				sb.WriteString(";")
			}
			sb.WriteString("\n")
			sides = append(sides, side{shard, i - start, o.cases[i].Desc, o.cases[i].Tags})
		}
		sb.WriteString("].\n")
		sb.WriteString("Definition r_bad := Eval vm_compute in mismatches cases.\nPrint r_bad.\n")
		sb.WriteString("Definition r_badobs := Eval vm_compute in bad_obs cases.\nPrint r_badobs.\n")
		sb.WriteString("Definition r_nt := Eval vm_compute in countb nontrivial cases.\nPrint r_nt.\n")
		if err := os.WriteFile(filepath.Join(o.cfg.Out, fmt.Sprintf("cases_%d.v", shard)), []byte(sb.String()), 0o644); err != nil {
			return err
		}
		shard++
		if end >= len(o.cases) {
			break
		}
	}
	js, err := json.Marshal(sides)
	if err != nil {
		return err
	}
	if err := os.WriteFile(filepath.Join(o.cfg.Out, "cases.json"), js, 0o644); err != nil {
		return err
	}
	keys := make([]string, 0, len(o.Stats))
	for k := range o.Stats {
		keys = append(keys, k)
	}
	sort.Strings(keys)
	st := map[string]any{"cases": len(o.cases), "duplicates_dropped": o.Dups, "shards": shard, "distribution": o.Stats, "extra": o.Extra}
	js, _ = json.MarshalIndent(st, "", " ")
	return os.WriteFile(filepath.Join(o.cfg.Out, "stats.json"), js, 0o644)
}

// LoadCorpus reads every *.json file in dir into raw messages (sorted by name).
func LoadCorpus(dir string) []json.RawMessage {
	if dir == "" {
		return nil
	}
	ents, err := os.ReadDir(dir)
	if err != nil {
		return nil
	}
	var out []json.RawMessage
	for _, e := range ents {
		if !strings.HasSuffix(e.Name(), ".json") {
			continue
		}
		b, err := os.ReadFile(filepath.Join(dir, e.Name()))
		if err == nil {
			out = append(out, json.RawMessage(b))
		}
	}
	return out
}

// Recover runs f and reports whether it panicked (with the panic value rendered).
func Recover(f func()) (panicked bool, val string) {
	defer func() {
		if r := recover(); r != nil {
			panicked = true
			val = fmt.Sprint(r)
		}
	}()
	f()
	return
}
