// Command extract regenerates the lock-structure table of ociregistry/ocimem
// (DESIGN.md section 4, C08): for every exported method of *Registry and *Buffer the
// sequence of intervals with a constant set of held mutexes, and for each interval the
// classes of shared state read / written in it.
//
// It type-checks the package with go/packages, resolves every field selection and every
// (*sync.Mutex).Lock / Unlock / defer Unlock, inlines same-package callees and the closures
// stored in struct fields (the commit callback), and writes the table as a Coq file
// (-coq) and as JSON (-json).  What it cannot classify (a goroutine, a channel operation,
// a lock state that differs between the two arms of a branch, a call through a function
// field nobody assigns) is emitted as the lock `LOther "unknown: ..."`, which matches nothing.
//
// Conventions of the table (mirrored by coq/Model/ConcStruct.v):
//   - a lock is named after the struct field that holds it: "Registry.mu", "Buffer.mu", ...
//   - a state class is named after the struct type a selected field belongs to; fields that
//     are only ever set in composite literals (immutable after construction), mutex fields
//     and fields of objects freshly allocated in the same function are not shared state;
//   - intervals are listed in source order; adjacent intervals with the same lock set are
//     merged; intervals without locks and without accesses are dropped at both ends, and the
//     intervals that only exist on an early-return path (deferred unlocks) are dropped when
//     they contain no access.
package main

import (
	"encoding/json"
	"flag"
	"fmt"
	"go/ast"
	"go/token"
	"go/types"
	"os"
	"sort"
	"strings"

	"golang.org/x/tools/go/packages"
)

type seg struct {
	Locks     []string `json:"locks"`
	Acc       []string `json:"acc"` // "R:Type" / "W:Type", sorted
	acc       map[string]bool
	ephemeral bool
}

type entry struct {
	Name string `json:"name"`
	Segs []*seg `json:"segs"`
}

type frame struct {
	defers []ast.Node // *ast.CallExpr (deferred call), in registration order
	depth  int
	fresh  map[types.Object]bool
	resEsc bool // the results of this activation are returned to the method's caller
}

type walker struct {
	pkg       *packages.Package
	info      *types.Info
	decls     map[*types.Func]*ast.FuncDecl
	owner     map[*types.Var]string // field -> declaring struct type name
	mutable   map[*types.Var]bool
	closures  map[*types.Var][]*ast.FuncLit // func-typed field -> literals that flow into it
	paramFld  map[*types.Func]map[int]*types.Var
	held      []string
	segs      []*seg
	stack     []*types.Func
	litStack  []*ast.FuncLit
	ephemeral bool
	escaped   []*ast.FuncLit
	escNext   bool // the call being evaluated is the operand of an escaping return
	collect   bool // pre-pass: only collect writes
}

func main() {
	dir := flag.String("dir", "/repo/ociregistry", "module directory")
	pat := flag.String("pkg", "./ocimem", "package pattern")
	coqOut := flag.String("coq", "", "write the Coq table here")
	jsonOut := flag.String("json", "", "write the JSON table here")
	flag.Parse()
	cfg := &packages.Config{
		Mode: packages.NeedName | packages.NeedFiles | packages.NeedCompiledGoFiles | packages.NeedImports |
			packages.NeedTypes | packages.NeedSyntax | packages.NeedTypesInfo | packages.NeedTypesSizes,
		Dir: *dir,
		Env: append(os.Environ(), "GOWORK=off", "GOFLAGS=-mod=mod", "GOPROXY=off", "GOSUMDB=off", "GOTOOLCHAIN=local"),
	}
	pkgs, err := packages.Load(cfg, *pat)
	if err != nil || len(pkgs) != 1 {
		fmt.Fprintln(os.Stderr, "extract: load:", err, len(pkgs))
		os.Exit(2)
	}
	p := pkgs[0]
	if len(p.Errors) > 0 {
		for _, e := range p.Errors {
			fmt.Fprintln(os.Stderr, "extract:", e)
		}
		os.Exit(2)
	}
	entries := analyse(p)
	if *jsonOut != "" {
		b, _ := json.MarshalIndent(entries, "", " ")
		if err := os.WriteFile(*jsonOut, append(b, '\n'), 0o644); err != nil {
			fmt.Fprintln(os.Stderr, err)
			os.Exit(2)
		}
	}
	if *coqOut != "" {
		if err := os.WriteFile(*coqOut, []byte(CoqFile(entries)), 0o644); err != nil {
			fmt.Fprintln(os.Stderr, err)
			os.Exit(2)
		}
	}
	if *coqOut == "" && *jsonOut == "" {
		fmt.Print(CoqFile(entries))
	}
}

func analyse(p *packages.Package) []entry {
	w := &walker{pkg: p, info: p.TypesInfo, decls: map[*types.Func]*ast.FuncDecl{}, owner: map[*types.Var]string{},
		mutable: map[*types.Var]bool{}, closures: map[*types.Var][]*ast.FuncLit{}, paramFld: map[*types.Func]map[int]*types.Var{}}
	// struct fields -> owner
	scope := p.Types.Scope()
	for _, n := range scope.Names() {
		tn, ok := scope.Lookup(n).(*types.TypeName)
		if !ok {
			continue
		}
		st, ok := tn.Type().Underlying().(*types.Struct)
		if !ok {
			continue
		}
		for i := 0; i < st.NumFields(); i++ {
			w.owner[st.Field(i)] = tn.Name()
		}
	}
	for _, f := range p.Syntax {
		for _, d := range f.Decls {
			if fd, ok := d.(*ast.FuncDecl); ok && fd.Body != nil {
				if fn, ok := w.info.Defs[fd.Name].(*types.Func); ok {
					w.decls[fn] = fd
				}
			}
		}
	}
	w.prepass()
	// exported methods of Registry and Buffer
	var fns []*types.Func
	for fn := range w.decls {
		sig := fn.Type().(*types.Signature)
		if sig.Recv() == nil || !fn.Exported() {
			continue
		}
		rn := recvName(sig)
		if rn == "Registry" || rn == "Buffer" {
			fns = append(fns, fn)
		}
	}
	sort.Slice(fns, func(i, j int) bool { return qual(fns[i]) < qual(fns[j]) })
	var out []entry
	for _, fn := range fns {
		w.held, w.segs, w.stack, w.escaped, w.ephemeral = nil, nil, nil, nil, false
		w.newSeg()
		w.inlineDecl(fn, 0, true)
		for len(w.escaped) > 0 { // closures returned to the caller run after the method returned
			l := w.escaped[0]
			w.escaped = w.escaped[1:]
			w.walkLit(l, 1)
		}
		out = append(out, entry{Name: qual(fn), Segs: w.finish()})
	}
	return out
}

func recvName(sig *types.Signature) string {
	t := sig.Recv().Type()
	if pt, ok := t.(*types.Pointer); ok {
		t = pt.Elem()
	}
	if n, ok := t.(*types.Named); ok {
		return n.Obj().Name()
	}
	return ""
}

func qual(fn *types.Func) string {
	sig := fn.Type().(*types.Signature)
	if sig.Recv() != nil {
		return recvName(sig) + "." + fn.Name()
	}
	return fn.Name()
}

// ---------------------------------------------------------------- pre-pass

// prepass finds (1) which fields are mutated outside composite literals and
// (2) which function literals flow into func-typed struct fields.
func (w *walker) prepass() {
	w.collect = true
	for fn, fd := range w.decls {
		sig := fn.Type().(*types.Signature)
		params := map[types.Object]int{}
		for i := 0; i < sig.Params().Len(); i++ {
			params[sig.Params().At(i)] = i
		}
		ast.Inspect(fd.Body, func(n ast.Node) bool {
			switch n := n.(type) {
			case *ast.CompositeLit:
				for _, el := range n.Elts {
					kv, ok := el.(*ast.KeyValueExpr)
					if !ok {
						continue
					}
					k, ok := kv.Key.(*ast.Ident)
					if !ok {
						continue
					}
					fv, ok := w.info.Uses[k].(*types.Var)
					if !ok || !fv.IsField() {
						continue
					}
					if _, isFunc := fv.Type().Underlying().(*types.Signature); !isFunc {
						continue
					}
					switch v := kv.Value.(type) {
					case *ast.FuncLit:
						w.closures[fv] = append(w.closures[fv], v)
					case *ast.Ident:
						if i, ok := params[w.info.Uses[v]]; ok {
							if w.paramFld[fn] == nil {
								w.paramFld[fn] = map[int]*types.Var{}
							}
							w.paramFld[fn][i] = fv
						}
					}
				}
			case *ast.AssignStmt:
				for i, l := range n.Lhs {
					w.noteWrite(l)
					// x.f = param / x.f = func literal
					if sel, ok := l.(*ast.SelectorExpr); ok && i < len(n.Rhs) {
						if fv := w.fieldOf(sel); fv != nil {
							if _, isFunc := fv.Type().Underlying().(*types.Signature); isFunc {
								w.mutable[fv] = false // handled as a closure field
								switch v := n.Rhs[i].(type) {
								case *ast.FuncLit:
									w.closures[fv] = append(w.closures[fv], v)
								case *ast.Ident:
									if pi, ok := params[w.info.Uses[v]]; ok {
										if w.paramFld[fn] == nil {
											w.paramFld[fn] = map[int]*types.Var{}
										}
										w.paramFld[fn][pi] = fv
									}
								}
							}
						}
					}
				}
			case *ast.IncDecStmt:
				w.noteWrite(n.X)
			case *ast.UnaryExpr:
				if n.Op == token.AND {
					if _, isLit := n.X.(*ast.CompositeLit); !isLit {
						w.noteWrite(n.X)
					}
				}
			case *ast.CallExpr:
				if id, ok := n.Fun.(*ast.Ident); ok && len(n.Args) > 0 {
					if b, ok := w.info.Uses[id].(*types.Builtin); ok && (b.Name() == "delete" || b.Name() == "clear") {
						w.noteWrite(n.Args[0])
					}
				}
				if sel, ok := n.Fun.(*ast.SelectorExpr); ok && w.ptrMethodOnField(sel) {
					w.noteWrite(sel.X)
				}
			case *ast.RangeStmt:
				if n.Tok == token.ASSIGN {
					if n.Key != nil {
						w.noteWrite(n.Key)
					}
					if n.Value != nil {
						w.noteWrite(n.Value)
					}
				}
			}
			return true
		})
	}
	// calls that pass a function literal to a parameter stored in a field
	for _, fd := range w.decls {
		ast.Inspect(fd.Body, func(n ast.Node) bool {
			call, ok := n.(*ast.CallExpr)
			if !ok {
				return true
			}
			callee := w.callee(call)
			if callee == nil {
				return true
			}
			for i, a := range call.Args {
				if fl, ok := a.(*ast.FuncLit); ok {
					if fv := w.paramFld[callee][i]; fv != nil {
						w.closures[fv] = append(w.closures[fv], fl)
					}
				}
			}
			return true
		})
	}
	w.collect = false
}

// noteWrite marks the field written by an assignment to e (x.f, x.f[i], x.f.g ...).
func (w *walker) noteWrite(e ast.Expr) {
	switch e := e.(type) {
	case *ast.ParenExpr:
		w.noteWrite(e.X)
	case *ast.SelectorExpr:
		if fv := w.fieldOf(e); fv != nil {
			if _, done := w.mutable[fv]; !done || w.mutable[fv] {
				w.mutable[fv] = true
			}
		}
	case *ast.IndexExpr:
		w.noteWrite(e.X) // writing an element of a map / slice held in a field
	case *ast.StarExpr:
		w.noteWrite(e.X)
	}
}

func (w *walker) fieldOf(sel *ast.SelectorExpr) *types.Var {
	s := w.info.Selections[sel]
	if s == nil || s.Kind() != types.FieldVal {
		return nil
	}
	fv, _ := s.Obj().(*types.Var)
	return fv
}

// ptrMethodOnField: sel is x.f.M where f is a (non-pointer) field and M has a pointer receiver
// declared outside this package (e.g. bytes.Reader.Reset): the call may mutate the field.
func (w *walker) ptrMethodOnField(sel *ast.SelectorExpr) bool {
	s := w.info.Selections[sel]
	if s == nil || s.Kind() != types.MethodVal {
		return false
	}
	m, ok := s.Obj().(*types.Func)
	if !ok || m.Pkg() == w.pkg.Types {
		return false
	}
	if isMutex(s.Recv()) {
		return false
	}
	sig := m.Type().(*types.Signature)
	if sig.Recv() == nil {
		return false
	}
	if _, ptr := sig.Recv().Type().(*types.Pointer); !ptr {
		return false
	}
	inner, ok := sel.X.(*ast.SelectorExpr)
	if !ok {
		return false
	}
	fv := w.fieldOf(inner)
	if fv == nil {
		return false
	}
	_, isPtr := fv.Type().(*types.Pointer)
	return !isPtr
}

func isMutex(t types.Type) bool {
	if p, ok := t.(*types.Pointer); ok {
		t = p.Elem()
	}
	n, ok := t.(*types.Named)
	if !ok || n.Obj().Pkg() == nil {
		return false
	}
	return n.Obj().Pkg().Path() == "sync" && (n.Obj().Name() == "Mutex" || n.Obj().Name() == "RWMutex")
}

func (w *walker) callee(call *ast.CallExpr) *types.Func {
	var id *ast.Ident
	switch f := call.Fun.(type) {
	case *ast.Ident:
		id = f
	case *ast.SelectorExpr:
		id = f.Sel
	case *ast.IndexExpr: // explicit instantiation f[T](...)
		if i, ok := f.X.(*ast.Ident); ok {
			id = i
		}
	}
	if id == nil {
		return nil
	}
	fn, ok := w.info.Uses[id].(*types.Func)
	if !ok {
		return nil
	}
	return fn.Origin()
}

// ---------------------------------------------------------------- intervals

func (w *walker) newSeg() {
	l := append([]string(nil), w.held...)
	sort.Strings(l)
	w.segs = append(w.segs, &seg{Locks: l, acc: map[string]bool{}, ephemeral: w.ephemeral})
}

func (w *walker) access(class string, write bool) {
	k := "R:" + class
	if write {
		k = "W:" + class
	}
	w.segs[len(w.segs)-1].acc[k] = true
}

func (w *walker) unknown(what string) {
	w.held = append(w.held, "unknown: "+what)
	w.newSeg()
	w.held = w.held[:len(w.held)-1]
	w.newSeg()
}

func (w *walker) lock(name string) {
	for _, h := range w.held {
		if h == name {
			w.unknown("lock " + name + " acquired while held")
			return
		}
	}
	w.held = append(w.held, name)
	w.newSeg()
}

func (w *walker) unlock(name string) {
	for i, h := range w.held {
		if h == name {
			w.held = append(append([]string(nil), w.held[:i]...), w.held[i+1:]...)
			w.newSeg()
			return
		}
	}
	w.unknown("unlock of " + name + " which is not held")
}

func sameLocks(a, b []string) bool {
	if len(a) != len(b) {
		return false
	}
	for i := range a {
		if a[i] != b[i] {
			return false
		}
	}
	return true
}

func (w *walker) finish() []*seg {
	var out []*seg
	for _, s := range w.segs {
		if s.ephemeral && len(s.acc) == 0 {
			continue
		}
		if n := len(out); n > 0 && sameLocks(out[n-1].Locks, s.Locks) {
			for k := range s.acc {
				out[n-1].acc[k] = true
			}
			continue
		}
		out = append(out, s)
	}
	for len(out) > 0 && len(out[0].Locks) == 0 && len(out[0].acc) == 0 {
		out = out[1:]
	}
	for len(out) > 0 && len(out[len(out)-1].Locks) == 0 && len(out[len(out)-1].acc) == 0 {
		out = out[:len(out)-1]
	}
	for _, s := range out {
		s.Acc = nil
		for k := range s.acc {
			s.Acc = append(s.Acc, k)
		}
		sort.Strings(s.Acc)
		if s.Acc == nil {
			s.Acc = []string{}
		}
	}
	return out
}

// ---------------------------------------------------------------- walking code

func isCall(e ast.Expr) bool {
	for {
		p, ok := e.(*ast.ParenExpr)
		if !ok {
			break
		}
		e = p.X
	}
	_, ok := e.(*ast.CallExpr)
	return ok
}

func (w *walker) inlineDecl(fn *types.Func, depth int, resEsc bool) {
	for _, f := range w.stack {
		if f == fn {
			return // recursion: the accesses are those of the outer activation
		}
	}
	fd := w.decls[fn]
	if fd == nil {
		return
	}
	w.stack = append(w.stack, fn)
	fr := &frame{depth: depth, fresh: map[types.Object]bool{}, resEsc: resEsc}
	term := w.block(fd.Body.List, fr)
	if !term {
		w.runDefers(fr, false)
	}
	w.stack = w.stack[:len(w.stack)-1]
}

func (w *walker) walkLit(l *ast.FuncLit, depth int) {
	for _, x := range w.litStack {
		if x == l {
			return
		}
	}
	w.litStack = append(w.litStack, l)
	fr := &frame{depth: depth, fresh: map[types.Object]bool{}}
	term := w.block(l.Body.List, fr)
	if !term {
		w.runDefers(fr, false)
	}
	w.litStack = w.litStack[:len(w.litStack)-1]
}

// runDefers executes the deferred calls of a frame in LIFO order.  On an early-return path
// (early = true) the lock releases are not part of the fall-through path: the intervals they
// open are kept only if something is accessed in them.
func (w *walker) runDefers(fr *frame, early bool) {
	saved := w.ephemeral
	if early {
		w.ephemeral = true
		w.newSeg()
	}
	for i := len(fr.defers) - 1; i >= 0; i-- {
		w.call(fr.defers[i].(*ast.CallExpr), fr)
	}
	w.ephemeral = saved
}

// block walks statements; it reports whether the path ends (return / panic) in it.
func (w *walker) block(stmts []ast.Stmt, fr *frame) bool {
	for _, s := range stmts {
		if w.stmt(s, fr) {
			return true
		}
	}
	return false
}

// branch walks one arm of a conditional starting from the current lock state and restores that
// state afterwards when the arm ends the path; otherwise the arm must leave the locks as they were.
func (w *walker) branch(stmts []ast.Stmt, fr *frame) {
	saved := append([]string(nil), w.held...)
	nd := len(fr.defers)
	term := w.block(stmts, fr)
	if term {
		w.held = saved
		fr.defers = fr.defers[:nd]
		w.newSeg()
		return
	}
	a, b := append([]string(nil), w.held...), append([]string(nil), saved...)
	sort.Strings(a)
	sort.Strings(b)
	if !sameLocks(a, b) || len(fr.defers) != nd {
		w.unknown("lock state or deferred calls differ after a branch")
		w.held = saved
		fr.defers = fr.defers[:nd]
		w.newSeg()
	}
}

func (w *walker) stmt(s ast.Stmt, fr *frame) bool {
	switch s := s.(type) {
	case nil:
	case *ast.ExprStmt:
		w.expr(s.X, fr)
		if call, ok := s.X.(*ast.CallExpr); ok {
			if id, ok := call.Fun.(*ast.Ident); ok {
				if b, ok := w.info.Uses[id].(*types.Builtin); ok && b.Name() == "panic" {
					w.runDefers(fr, true)
					return true
				}
			}
		}
	case *ast.AssignStmt:
		for _, r := range s.Rhs {
			w.expr(r, fr)
		}
		for i, l := range s.Lhs {
			if s.Tok == token.DEFINE || s.Tok == token.ASSIGN {
				w.lhs(l, fr, false)
			} else {
				w.lhs(l, fr, true) // op=
			}
			// x := &T{...} / T{...} / new(T): fresh object
			if id, ok := l.(*ast.Ident); ok && s.Tok == token.DEFINE && i < len(s.Rhs) && len(s.Lhs) == len(s.Rhs) {
				if isFreshExpr(s.Rhs[i]) {
					if o := w.info.Defs[id]; o != nil {
						fr.fresh[o] = true
					}
				}
			}
		}
	case *ast.IncDecStmt:
		w.lhs(s.X, fr, true)
	case *ast.DeclStmt:
		if gd, ok := s.Decl.(*ast.GenDecl); ok {
			for _, sp := range gd.Specs {
				if vs, ok := sp.(*ast.ValueSpec); ok {
					for _, v := range vs.Values {
						w.expr(v, fr)
					}
				}
			}
		}
	case *ast.ReturnStmt:
		// a function literal that is returned by the method runs after the method returned; so does
		// one returned by an inlined callee whose result the method returns in turn
		// (return mapKeysIter(...)): its accesses are not covered by the locks held here.  A literal
		// returned by a callee to a caller that uses it on the spot stays attributed to the caller.
		for _, r := range s.Results {
			switch {
			case fr.depth != 0 && !fr.resEsc:
				w.expr(r, fr)
			case isCall(r):
				w.escNext = true
				w.expr(r, fr)
				w.escNext = false
			default:
				w.exprEsc(r, fr)
			}
		}
		// is this the last statement of the function body (fall-through end) or an early return?
		w.runDefers(fr, !w.isFinalReturn(s))
		return true
	case *ast.DeferStmt:
		// arguments are evaluated now, the call runs at return
		for _, a := range s.Call.Args {
			w.expr(a, fr)
		}
		fr.defers = append(fr.defers, s.Call)
	case *ast.GoStmt:
		w.unknown("goroutine")
	case *ast.SendStmt:
		w.unknown("channel send")
	case *ast.SelectStmt:
		w.unknown("select")
	case *ast.BlockStmt:
		return w.block(s.List, fr)
	case *ast.IfStmt:
		w.stmt(s.Init, fr)
		w.expr(s.Cond, fr)
		w.branch(s.Body.List, fr)
		switch e := s.Else.(type) {
		case *ast.BlockStmt:
			w.branch(e.List, fr)
		case *ast.IfStmt:
			w.branch([]ast.Stmt{e}, fr)
		}
	case *ast.ForStmt:
		w.stmt(s.Init, fr)
		if s.Cond != nil {
			w.expr(s.Cond, fr)
		}
		body := append([]ast.Stmt(nil), s.Body.List...)
		if s.Post != nil {
			body = append(body, s.Post)
		}
		w.branch(body, fr)
	case *ast.RangeStmt:
		w.expr(s.X, fr)
		if s.Tok == token.ASSIGN {
			if s.Key != nil {
				w.lhs(s.Key, fr, false)
			}
			if s.Value != nil {
				w.lhs(s.Value, fr, false)
			}
		}
		w.branch(s.Body.List, fr)
	case *ast.SwitchStmt:
		w.stmt(s.Init, fr)
		if s.Tag != nil {
			w.expr(s.Tag, fr)
		}
		for _, c := range s.Body.List {
			cc := c.(*ast.CaseClause)
			for _, e := range cc.List {
				w.expr(e, fr)
			}
			w.branch(cc.Body, fr)
		}
	case *ast.TypeSwitchStmt:
		w.stmt(s.Init, fr)
		w.stmt(s.Assign, fr)
		for _, c := range s.Body.List {
			w.branch(c.(*ast.CaseClause).Body, fr)
		}
	case *ast.LabeledStmt:
		return w.stmt(s.Stmt, fr)
	case *ast.BranchStmt, *ast.EmptyStmt:
	default:
		w.unknown(fmt.Sprintf("statement %T", s))
	}
	return false
}

// isFinalReturn: the return statement is the last statement of the body of the function
// (or function literal) being walked.
func (w *walker) isFinalReturn(r *ast.ReturnStmt) bool {
	var body *ast.BlockStmt
	if n := len(w.litStack); n > 0 && w.litStack[n-1].Body.Pos() <= r.Pos() && r.End() <= w.litStack[n-1].Body.End() {
		body = w.litStack[n-1].Body
		// a literal nested in the current declaration may be older than the declaration on the stack
		if m := len(w.stack); m > 0 {
			if fd := w.decls[w.stack[m-1]]; fd != nil && body.Pos() <= fd.Body.Pos() && fd.Body.End() <= body.End() {
				body = fd.Body
			}
		}
	} else if m := len(w.stack); m > 0 {
		body = w.decls[w.stack[m-1]].Body
	}
	if body == nil || len(body.List) == 0 {
		return false
	}
	return body.List[len(body.List)-1] == ast.Stmt(r)
}

func isFreshExpr(e ast.Expr) bool {
	switch e := e.(type) {
	case *ast.CompositeLit:
		return true
	case *ast.UnaryExpr:
		_, ok := e.X.(*ast.CompositeLit)
		return e.Op == token.AND && ok
	case *ast.CallExpr:
		if id, ok := e.Fun.(*ast.Ident); ok && id.Name == "new" {
			return true
		}
	}
	return false
}

// lhs records a write to the location denoted by e (and reads of what is needed to reach it).
func (w *walker) lhs(e ast.Expr, fr *frame, alsoRead bool) {
	switch e := e.(type) {
	case *ast.ParenExpr:
		w.lhs(e.X, fr, alsoRead)
	case *ast.Ident:
	case *ast.SelectorExpr:
		w.selector(e, fr, true)
		if alsoRead {
			w.selector(e, fr, false)
		}
		w.expr(e.X, fr)
	case *ast.IndexExpr:
		w.expr(e.Index, fr)
		w.lhs(e.X, fr, true) // element of a map / slice held in a field: the field's state class is written
	case *ast.StarExpr:
		w.lhs(e.X, fr, alsoRead)
	default:
		w.expr(e, fr)
	}
}

// selector records an access to a field selection.
func (w *walker) selector(e *ast.SelectorExpr, fr *frame, write bool) {
	fv := w.fieldOf(e)
	if fv == nil {
		return
	}
	own, ok := w.owner[fv]
	if !ok || isMutex(fv.Type()) || !w.mutable[fv] {
		return
	}
	if id, ok := e.X.(*ast.Ident); ok {
		if o := w.info.Uses[id]; o != nil && fr.fresh[o] {
			return
		}
	}
	w.access(own, write)
}

func (w *walker) exprEsc(e ast.Expr, fr *frame) {
	if fl, ok := e.(*ast.FuncLit); ok {
		w.escaped = append(w.escaped, fl)
		return
	}
	w.expr(e, fr)
}

func (w *walker) expr(e ast.Expr, fr *frame) {
	switch e := e.(type) {
	case nil:
	case *ast.Ident, *ast.BasicLit:
	case *ast.ParenExpr:
		w.expr(e.X, fr)
	case *ast.SelectorExpr:
		w.selector(e, fr, false)
		w.expr(e.X, fr)
	case *ast.IndexExpr:
		w.expr(e.X, fr)
		w.expr(e.Index, fr)
	case *ast.IndexListExpr:
		w.expr(e.X, fr)
	case *ast.SliceExpr:
		w.expr(e.X, fr)
		w.expr(e.Low, fr)
		w.expr(e.High, fr)
		w.expr(e.Max, fr)
	case *ast.StarExpr:
		w.expr(e.X, fr)
	case *ast.UnaryExpr:
		if e.Op == token.ARROW {
			w.unknown("channel receive")
		}
		if e.Op == token.AND {
			if _, isLit := e.X.(*ast.CompositeLit); !isLit {
				w.lhs(e.X, fr, true)
				return
			}
		}
		w.expr(e.X, fr)
	case *ast.BinaryExpr:
		w.expr(e.X, fr)
		w.expr(e.Y, fr)
	case *ast.KeyValueExpr:
		w.expr(e.Value, fr)
	case *ast.CompositeLit:
		for _, el := range e.Elts {
			if kv, ok := el.(*ast.KeyValueExpr); ok {
				if _, isLit := kv.Value.(*ast.FuncLit); isLit {
					if k, ok := kv.Key.(*ast.Ident); ok {
						if fv, ok := w.info.Uses[k].(*types.Var); ok && fv.IsField() {
							continue // closure stored in a field: walked where the field is called
						}
					}
				}
				w.expr(kv.Value, fr)
			} else {
				w.expr(el, fr)
			}
		}
	case *ast.TypeAssertExpr:
		w.expr(e.X, fr)
	case *ast.FuncLit:
		// a closure created here and used locally: its accesses are attributed to this point
		w.walkLit(e, fr.depth+1)
	case *ast.CallExpr:
		w.call(e, fr)
	case *ast.ArrayType, *ast.MapType, *ast.FuncType, *ast.StructType, *ast.InterfaceType, *ast.ChanType, *ast.Ellipsis:
	default:
		w.unknown(fmt.Sprintf("expression %T", e))
	}
}

func (w *walker) call(c *ast.CallExpr, fr *frame) {
	// does the value of this call flow straight into the method's own result?
	esc := w.escNext
	w.escNext = false
	// conversion?
	if tv, ok := w.info.Types[c.Fun]; ok && tv.IsType() {
		for _, a := range c.Args {
			w.expr(a, fr)
		}
		return
	}
	// immediately invoked literal: func(){...}()
	if fl, ok := c.Fun.(*ast.FuncLit); ok {
		for _, a := range c.Args {
			w.expr(a, fr)
		}
		w.walkLit(fl, fr.depth+1)
		return
	}
	// builtins
	if id, ok := c.Fun.(*ast.Ident); ok {
		if b, ok := w.info.Uses[id].(*types.Builtin); ok {
			switch b.Name() {
			case "delete", "clear":
				if len(c.Args) > 0 {
					w.lhs(c.Args[0], fr, true)
					for _, a := range c.Args[1:] {
						w.expr(a, fr)
					}
				}
				return
			case "close":
				w.unknown("channel close")
				return
			}
			for _, a := range c.Args {
				w.expr(a, fr)
			}
			return
		}
	}
	// mutex operations
	if sel, ok := c.Fun.(*ast.SelectorExpr); ok {
		if s := w.info.Selections[sel]; s != nil && s.Kind() == types.MethodVal && isMutex(s.Recv()) {
			name := w.lockName(sel.X)
			switch sel.Sel.Name {
			case "Lock":
				w.lock(name)
			case "Unlock":
				w.unlock(name)
			default:
				w.unknown("mutex operation " + sel.Sel.Name)
			}
			return
		}
	}
	callee := w.callee(c)
	// receiver / function expression
	switch f := c.Fun.(type) {
	case *ast.SelectorExpr:
		if s := w.info.Selections[f]; s != nil && s.Kind() == types.FieldVal {
			// call through a func-typed field: walk the literals that flow into it
			fv := w.fieldOf(f)
			w.expr(f.X, fr)
			for _, a := range c.Args {
				w.expr(a, fr)
			}
			lits := w.closures[fv]
			if len(lits) == 0 {
				w.unknown("call through field " + fv.Name() + " with no known function")
				return
			}
			for _, l := range lits {
				w.walkLit(l, fr.depth+1)
			}
			return
		}
		if w.ptrMethodOnField(f) {
			w.lhs(f.X, fr, true)
		} else {
			w.expr(f.X, fr)
		}
	case *ast.Ident, *ast.IndexExpr, *ast.IndexListExpr:
	default:
		w.expr(c.Fun, fr)
	}
	for i, a := range c.Args {
		if fl, ok := a.(*ast.FuncLit); ok {
			if callee != nil && w.paramFld[callee][i] != nil {
				continue // stored in a field by the callee; walked where the field is called
			}
			// a callback handed to the callee: assumed to run during the call
			w.walkLit(fl, fr.depth+1)
			continue
		}
		w.expr(a, fr)
	}
	if callee != nil && callee.Pkg() == w.pkg.Types {
		w.inlineDecl(callee, fr.depth+1, esc)
	}
}

func (w *walker) lockName(e ast.Expr) string {
	if p, ok := e.(*ast.ParenExpr); ok {
		return w.lockName(p.X)
	}
	if u, ok := e.(*ast.UnaryExpr); ok && u.Op == token.AND {
		return w.lockName(u.X)
	}
	if sel, ok := e.(*ast.SelectorExpr); ok {
		if fv := w.fieldOf(sel); fv != nil {
			if own, ok := w.owner[fv]; ok {
				return own + "." + fv.Name()
			}
			return "field " + fv.Name()
		}
	}
	if id, ok := e.(*ast.Ident); ok {
		return "variable " + id.Name
	}
	return "unknown: mutex expression"
}

// ---------------------------------------------------------------- Coq output

var lockCtor = map[string]string{"Registry.mu": "RegMu", "Buffer.mu": "BufMu", "Buffer.commitMu": "CommitMu"}
var classCtor = map[string]string{"Registry": "CReg", "repository": "CReg", "blob": "CReg", "Buffer": "CBuf"}

func coqLock(l string) string {
	if c, ok := lockCtor[l]; ok {
		return c
	}
	return fmt.Sprintf("LOther (s %q)", l)
}

func coqAcc(a string) string {
	kind, typ := a[:1], a[2:]
	c, ok := classCtor[typ]
	if !ok {
		c = fmt.Sprintf("(COther (s %q))", typ)
	}
	return map[string]string{"R": "Rd", "W": "Wr"}[kind] + " " + c
}

// CoqFile renders the table.  Accesses to types of one class are merged.
func CoqFile(es []entry) string {
	var b strings.Builder
	b.WriteString("(* Generated by /verif/harness/extract from ociregistry/ocimem/*.go on every run of ./check C08.\n")
	b.WriteString("   Do not edit: operation -> intervals of constant lock set, with the state classes read / written. *)\n")
	b.WriteString("From Coq Require Import String.\nFrom OCI Require Import Model.ConcStruct.\n\n")
	b.WriteString("Definition table : stable := [\n")
	for i, e := range es {
		fmt.Fprintf(&b, "  (s %q, [", e.Name)
		for j, sg := range e.Segs {
			if j > 0 {
				b.WriteString("; ")
			}
			var ls, as []string
			for _, l := range sg.Locks {
				ls = append(ls, coqLock(l))
			}
			seen := map[string]bool{}
			for _, a := range sg.Acc {
				c := coqAcc(a)
				if !seen[c] {
					seen[c] = true
					as = append(as, c)
				}
			}
			sort.Strings(as)
			fmt.Fprintf(&b, "seg [%s] [%s]", strings.Join(ls, "; "), strings.Join(as, "; "))
		}
		b.WriteString("])")
		if i < len(es)-1 {
			b.WriteString(";")
		}
		b.WriteString("\n")
	}
	b.WriteString("].\n")
	return b.String()
}
