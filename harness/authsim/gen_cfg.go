package authsim

import "math/rand"

// Conversations in which the configuration is slow (Step.HoldCfg): the first call to a host
// sits in Config.EntryForRegistry while other calls arrive - for the same host (they have to
// end up sharing the one per-host state that lookup initialises: its credentials, and later
// its cached tokens) or for another one (they must not be held up by it or mixed up with it).
// Two families:
//
//   - race: two (or three) first calls to one host overlap during the slow lookup and ask for
//     different scopes; once both have their tokens, the same requests are made again, in
//     either order: every one of them has to be answered from the cache;
//   - random: an interleaved batch whose first call finds the configuration slow, the gate
//     opening somewhere along the way.
func genCfg(r *rand.Rand, p *Profile) *CaseIn {
	if r.Intn(10) < 7 {
		return genCfgRace(r, p)
	}
	return genCfgRandom(r, p)
}

func genCfgRace(r *rand.Rand, p *Profile) *CaseIn {
	in := &CaseIn{Class: "cfg-race"}
	in.Hosts, in.Realms = genHosts(r, p, false)
	focus := r.Intn(2)
	h := &in.Hosts[focus]
	h.Mode = "bearer"
	h.Challenge = []string{bearer(realmURLs[focus], r.Intn(nBearer))}
	if h.Access != "" && r.Intn(4) != 0 {
		h.Access = "" // a configured token answers everything: keep only a few of those
	}
	rc := &in.Realms[focus]
	rc.Post = pick(r, []string{"ok", "ok", "404"})
	rc.Field = pick(r, []string{"token", "token", "access", "both"})
	rc.CheckCreds, rc.Allowed, rc.SameToken = false, "", false
	rc.GiveRefresh = r.Intn(6) == 0
	rc.Lifetimes = []int{pick(r, []int{0, 3600, 3}), pick(r, []int{0, 3600, 3}), pick(r, []int{0, 3600})}

	left := []string{"repository:foo:pull", "repository:foo:pull,push", "repository:foo:push", "repository:foo:push,pull"}
	right := []string{"repository:bar:pull", "registry:catalog:*", "repository:bar:pull,push", "repository:bar:push"}
	if r.Intn(2) == 0 {
		left, right = right, left
	}
	reqs := []*Req{parseReq(h.Host, pick(r, left)), parseReq(h.Host, pick(r, right))}
	if r.Intn(4) == 0 {
		reqs[r.Intn(2)].Want = genScope(r, p)
	}
	if r.Intn(4) == 0 {
		if r.Intn(2) == 0 {
			reqs = append(reqs, parseReq(h.Host, "repository:baz:pull"))
		} else {
			reqs = append(reqs, genReq(r, p, in.Hosts, 1-focus)) // mostly for another host
		}
	}
	add := func(st ...Step) { in.Steps = append(in.Steps, st...) }
	for id, q := range reqs {
		add(Step{Op: "start", ID: id, Req: q, HoldCfg: id == 0})
	}
	add(Step{Op: "sleep", Ms: pick(r, []int{40, 90, 160, 250})}, Step{Op: "cfgrelease"})
	// every call gets its challenge, its token and its answer, in some interleaving
	left2 := make([]int, len(reqs))
	for i := range left2 {
		left2[i] = 2
	}
	for n := 2 * len(reqs); n > 0; {
		id := r.Intn(len(reqs))
		if left2[id] == 0 {
			continue
		}
		left2[id]--
		n--
		add(Step{Op: "resume", ID: id})
	}
	// the same requests again: the tokens are there
	order := []int{0, 1}
	if r.Intn(2) == 0 {
		order = []int{1, 0}
	}
	if r.Intn(3) == 0 {
		order = append(order, r.Intn(2))
	}
	for i, k := range order {
		cp := *reqs[k]
		add(Step{Op: "start", ID: 10 + i, Req: &cp}, Step{Op: "resume", ID: 10 + i}, Step{Op: "resume", ID: 10 + i})
	}
	if r.Intn(100) < p.FaultPct/3 {
		genFaults(r, &Profile{FaultPct: 100}, in)
	}
	return in
}

func genCfgRandom(r *rand.Rand, p *Profile) *CaseIn {
	odd := r.Intn(100) < p.OddPct
	in := &CaseIn{Class: "cfg"}
	in.Hosts, in.Realms = genHosts(r, p, odd)
	focus := r.Intn(4) // also the host whose lookup fails, and the one without credentials
	type pend struct{ id, left int }
	var ps []*pend
	n := r.Intn(3) + 2
	for id := 0; id < n; id++ {
		ps = append(ps, &pend{id, 3})
	}
	closed, since, first := false, 0, true
	for len(ps) > 0 {
		i := r.Intn(len(ps))
		if first {
			i = 0
		}
		pd := ps[i]
		st := Step{Op: "resume", ID: pd.id}
		if pd.left == 3 {
			st = Step{Op: "start", ID: pd.id, Req: genReq(r, p, in.Hosts, focus)}
		}
		if first {
			st.HoldCfg, closed, first = true, true, false
		} else if closed {
			since++
		}
		in.Steps = append(in.Steps, st)
		pd.left--
		if pd.left == 0 {
			ps = append(ps[:i], ps[i+1:]...)
		}
		if closed && since >= 1+r.Intn(3) {
			in.Steps = append(in.Steps, Step{Op: "sleep", Ms: pick(r, []int{20, 60, 150})}, Step{Op: "cfgrelease"})
			closed = false
		}
	}
	if closed {
		in.Steps = append(in.Steps, Step{Op: "cfgrelease"})
	}
	// steps addressed to a call that was still waiting behind the gate were skipped: finish everything
	for i := 0; i < 2; i++ {
		for id := 0; id < n; id++ {
			in.Steps = append(in.Steps, Step{Op: "resume", ID: id})
		}
	}
	if odd {
		in.Class += "-odd"
	}
	genFaults(r, p, in)
	return in
}
