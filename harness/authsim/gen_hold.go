package authsim

import "math/rand"

// Conversations in which one call is kept waiting by its token server (Step.Hold) - it is then
// in the middle of a token acquisition and holds its host's lock - while other calls start or
// resume; they are released after a while (Step "release"). Two families:
//
//   - expiry: a short-lived token is in the cache, a call for something else is held at the
//     token server, calls that the cached token covers arrive before / around the moment the
//     token gets too old to be used and are let in before / after it; optionally the held
//     call's request is repeated around the end of life of the token it was (slowly) given;
//   - random: the interleaved batches of GenCase with holds and releases thrown in.
func genHold(r *rand.Rand, p *Profile) *CaseIn {
	if r.Intn(10) < 6 {
		return genHoldExpiry(r, p)
	}
	return genHoldRandom(r, p)
}

func parseReq(host, text string) *Req {
	return &Req{Host: host, Required: ScopeSpec{Kind: "parse", Text: text}, Want: ScopeSpec{Kind: "zero"},
		Need: text, Chal: text, Body: "none"}
}

func genHoldExpiry(r *rand.Rand, p *Profile) *CaseIn {
	in := &CaseIn{Class: "hold-expiry"}
	in.Hosts, in.Realms = genHosts(r, p, false)
	focus := r.Intn(2)
	h := &in.Hosts[focus]
	h.Mode = "bearer"
	h.Challenge = []string{bearer(realmURLs[focus], r.Intn(nBearer))}
	if h.Access != "" && r.Intn(4) != 0 {
		h.Access = "" // a configured token answers everything: keep only a few of those
	}
	l1 := pick(r, []int{2, 2, 2, 3, 3, 1, 0})
	l2 := pick(r, []int{2, 2, 3, 3, 0, 3600, 1, -1})
	rc := &in.Realms[focus]
	rc.Post = pick(r, []string{"ok", "ok", "404"})
	rc.Field = pick(r, []string{"token", "token", "access", "both"})
	rc.CheckCreds, rc.Allowed, rc.SameToken = false, "", false
	rc.GiveRefresh = r.Intn(6) == 0
	rc.Lifetimes = []int{l1, l2, pick(r, []int{0, 2, 3})}

	cached := pick(r, []string{"repository:foo:pull", "repository:foo:pull,push", "repository:bar:pull",
		"repository:foo:pull repository:bar:pull", "repository:foo:push,pull"})
	warm := parseReq(h.Host, cached)
	if r.Intn(5) == 0 {
		warm.Want = ScopeSpec{Kind: "parse", Text: pick(r, scopeTexts)}
	}
	slow := parseReq(h.Host, pick(r, []string{"repository:foo:push", "registry:catalog:*", "repository:foo:delete",
		"repository:bar:pull,push repository:foo:pull", "repository:bar:pull", "repository:bar:push"}))
	if r.Intn(4) == 0 {
		slow.Want = genScope(r, p)
	}
	follower := func() *Req {
		switch n := r.Intn(20); {
		case n < 13:
			cp := *warm
			return &cp
		case n < 16:
			return parseReq(h.Host, "repository:foo:pull")
		case n < 18:
			cp := *slow // wants what the held call is busy getting
			return &cp
		}
		return genReq(r, p, in.Hosts, focus)
	}

	// the cached token is dropped by a call that reads the clock later than (l1-1) s after it
	// was issued; x: how long before that moment the followers arrive, y: how long after it
	// they are let in
	x := pick(r, []int{200, 350, 500, 700})
	y := pick(r, []int{200, 400, 700})
	d0, d1 := (l1-1)*1000-x, x+y
	switch {
	case l1 < 2:
		d0, d1 = pick(r, []int{100, 300}), pick(r, []int{300, 600, 1200})
	case r.Intn(5) == 0: // arrive and get in before it
		d0, d1 = (l1-1)*1000-700, pick(r, []int{150, 300})
	case r.Intn(5) == 0: // arrive after it
		d0, d1 = (l1-1)*1000+200, pick(r, []int{150, 400})
	}
	add := func(st ...Step) { in.Steps = append(in.Steps, st...) }
	add(Step{Op: "start", ID: 100, Req: warm}, Step{Op: "resume", ID: 100}, Step{Op: "resume", ID: 100})
	add(Step{Op: "sleep", Ms: d0})
	// whichever phase of the slow call asks for a token is held (the second step is skipped when
	// the first one is)
	add(Step{Op: "start", ID: 0, Req: slow, Hold: true}, Step{Op: "resume", ID: 0, Hold: true})
	ids := []int{0, 1}
	add(Step{Op: "start", ID: 1, Req: follower()})
	if r.Intn(4) == 0 {
		add(Step{Op: "start", ID: 2, Req: follower()})
		ids = append(ids, 2)
	}
	add(Step{Op: "sleep", Ms: d1}, Step{Op: "release", ID: 0})
	for i := 0; i < 2; i++ {
		for _, id := range ids {
			add(Step{Op: "resume", ID: id})
		}
	}
	if r.Intn(3) == 0 {
		// the slow call's request again, around the end of life of the token it was given
		d2 := pick(r, []int{100, 400})
		if l2 >= 2 && l2 <= 3 {
			d2 = (l2-1)*1000 - pick(r, []int{150, 300, 500})
		}
		cp := *slow
		add(Step{Op: "sleep", Ms: d2}, Step{Op: "start", ID: 3, Req: &cp}, Step{Op: "resume", ID: 3}, Step{Op: "resume", ID: 3})
	}
	if r.Intn(100) < p.FaultPct/2 {
		genFaults(r, &Profile{FaultPct: 100}, in)
	}
	return in
}

func genHoldRandom(r *rand.Rand, p *Profile) *CaseIn {
	odd := r.Intn(100) < p.OddPct
	in := &CaseIn{Class: "hold"}
	in.Hosts, in.Realms = genHosts(r, p, odd)
	focus := r.Intn(2)
	timed := r.Intn(100) < p.TimedPct
	if r.Intn(2) == 0 {
		in.Steps = append(in.Steps, Step{Op: "start", ID: 100, Req: genReq(r, p, in.Hosts, focus)},
			Step{Op: "resume", ID: 100}, Step{Op: "resume", ID: 100})
	}
	type pend struct{ id, left int }
	var ps []*pend
	n := r.Intn(3) + 2
	for id := 0; id < n; id++ {
		ps = append(ps, &pend{id, 3})
	}
	held, since := -1, 0
	release := func() {
		if timed && r.Intn(2) == 0 {
			in.Steps = append(in.Steps, Step{Op: "sleep", Ms: pick(r, sleeps)})
		}
		in.Steps = append(in.Steps, Step{Op: "release", ID: held})
		held = -1
	}
	for len(ps) > 0 {
		i := r.Intn(len(ps))
		pd := ps[i]
		st := Step{Op: "resume", ID: pd.id}
		if pd.left == 3 {
			st = Step{Op: "start", ID: pd.id, Req: genReq(r, p, in.Hosts, focus)}
		}
		switch {
		case held < 0 && pd.left > 1 && r.Intn(3) == 0:
			st.Hold = true
			held, since = pd.id, 0
		case held >= 0:
			since++
		}
		in.Steps = append(in.Steps, st)
		pd.left--
		if pd.left == 0 {
			ps = append(ps[:i], ps[i+1:]...)
		}
		if held >= 0 && since >= 1+r.Intn(2) {
			release()
		}
		if timed && r.Intn(4) == 0 {
			in.Steps = append(in.Steps, Step{Op: "sleep", Ms: pick(r, sleeps)})
		}
	}
	if held >= 0 {
		release()
	}
	// steps addressed to a call that was still waiting behind a held one were skipped: finish everything
	for i := 0; i < 2; i++ {
		for id := 0; id < n; id++ {
			in.Steps = append(in.Steps, Step{Op: "resume", ID: id})
		}
	}
	if timed {
		in.Class += "-timed"
	}
	if odd {
		in.Class += "-odd"
	}
	genFaults(r, p, in)
	return in
}
