package authsim

import "math/rand"

// What a caller does around RoundTrip that a request built from scratch and sent once never
// shows, and what a token server does besides answering:
//
//   - second uses: the very same *http.Request sent again (a retry loop), several requests built
//     around one http.Header map, across calls and across hosts. Whatever the transport wrote
//     into the caller's request the first time is what the NEXT call sends;
//   - contexts that carry annotations already (an upload in progress keeps a context annotated
//     with push scope; the next request derived from it requires nothing): the innermost
//     annotation counts, also when it is the empty scope;
//   - contexts that are dead before the call (cancelled, deadline passed) or die during it;
//   - token servers that answer 301/302/303/307/308 with a Location on the same host, a
//     sub-domain, another port, another host (also: a host whose name merely ends in the
//     realm's), relative, unparsable, missing, chains of them, more than the client follows.

func nonZeroScope(r *rand.Rand, p *Profile) ScopeSpec {
	for {
		if s := genScope(r, p); s.Kind != "zero" && !(s.Kind == "parse" && s.Text == "") {
			return s
		}
	}
}

// addLayers puts the request's context on top of a context that is annotated already.
func addLayers(r *rand.Rand, p *Profile, q *Req) {
	for i := r.Intn(2) + 1; i > 0; i-- {
		q.Outer = append(q.Outer, Layer{Kind: pick(r, []string{"info", "info", "scope"}), Scope: nonZeroScope(r, p)})
	}
	q.ReqExplicit = r.Intn(4) != 0
	q.WantExplicit = r.Intn(2) == 0
}

var widerScopes = []string{"repository:foo:push", "repository:foo:pull,push", "registry:catalog:*",
	"repository:bar:pull,push", "repository:foo:delete", "repository:foo:pull repository:bar:pull"}

// nested derives from the previous call a request for the same thing, or for nothing at all,
// whose context sits on top of one that requires / desires more. The previous call's token
// covers it: the cache has to answer.
func nested(r *rand.Rand, p *Profile, last *Req) *Req {
	cp := *last
	cp.Reuse, cp.Of = "", 0
	cp.Outer = []Layer{{Kind: "info", Scope: ScopeSpec{Kind: "parse", Text: pick(r, widerScopes)}}}
	if r.Intn(3) == 0 {
		cp.Outer = append(cp.Outer, Layer{Kind: "scope", Scope: nonZeroScope(r, p)})
	}
	if r.Intn(4) == 0 {
		cp.Outer[0], cp.Outer[len(cp.Outer)-1] = cp.Outer[len(cp.Outer)-1], cp.Outer[0]
	}
	cp.Required, cp.Want = last.EffRequired(), last.EffWant()
	cp.ReqExplicit, cp.WantExplicit = true, true
	switch r.Intn(4) {
	case 0:
		cp.Required = ScopeSpec{Kind: "zero"} // requires nothing (ociclient: the base endpoint)
	case 1:
		cp.Required = ScopeSpec{Kind: "parse", Text: ""}
	}
	if r.Intn(2) == 0 {
		cp.Want = ScopeSpec{Kind: "zero"}
	}
	if r.Intn(5) == 0 {
		cp.ReqExplicit = false // no annotation of its own: the parent's counts
	}
	return &cp
}

// reuseOf makes q a second use of something an earlier call (made[k], call id k) used.
func reuseOf(r *rand.Rand, hosts []HostCfg, made []*Req, q *Req) *Req {
	k := r.Intn(len(made))
	if r.Intn(2) == 0 {
		cp := *made[k]
		cp.Reuse, cp.Of = "req", k
		return &cp
	}
	q.Reuse, q.Of, q.Auth = "hdr", k, made[k].Auth
	if r.Intn(2) == 0 {
		// the other registry
		for _, h := range hosts {
			if h.Host != made[k].Host {
				q.Host = h.Host
				break
			}
		}
	}
	return q
}

func genRedirect(r *rand.Rand) *Redirect {
	rd := &Redirect{Status: pick(r, []int{301, 302, 303, 307, 308}), Hops: pick(r, []int{1, 1, 1, 1, 2, 2, 3, 12})}
	switch r.Intn(12) {
	case 0:
		rd.To = []string{"other", "back"} // out of the site and in again
	case 1:
		rd.To = []string{"sub", "other"}
	case 2:
		rd.To = []string{"path", "sub", "port"}
	default:
		rd.To = []string{pick(r, []string{"path", "relative", "port", "sub", "sub", "other", "other", "other", "lookalike", "lookalike", "bad", "none"})}
	}
	if len(rd.To) > rd.Hops && rd.Hops < 12 {
		rd.Hops = len(rd.To)
	}
	// (a 307 / 308 of the POST form - refresh token inside - to another host is part of the stream:
	// the client must not follow it, corpus/C11/refresh-follows-307.json)
	rd.On = pick(r, []string{"", "", "", "get", "post"})
	return rd
}

func addRedirects(r *rand.Rand, realms []RealmCfg) {
	any := false
	for i := range realms {
		if r.Intn(3) != 0 {
			realms[i].Redirect = genRedirect(r)
			any = true
		}
	}
	if !any {
		realms[0].Redirect = genRedirect(r)
	}
}

func genDirected(r *rand.Rand, p *Profile) *CaseIn {
	fams := []struct {
		w   int
		gen func(*rand.Rand, *Profile) *CaseIn
	}{{p.ReusePct, genReuse}, {p.CtxPct, genNested}, {p.CancelPct, genCancel}, {p.RedirPct, genRedir}, {p.SweepPct, genSweep}, {p.SweepPct, genPicky}}
	total := 0
	for _, f := range fams {
		total += f.w
	}
	if total == 0 {
		return genReuse(r, p)
	}
	n := r.Intn(total)
	for _, f := range fams {
		if n < f.w {
			return f.gen(r, p)
		}
		n -= f.w
	}
	return genReuse(r, p)
}

// genSweep: several short-lived tokens for unrelated scopes are acquired back to back (they sit
// next to one another in the host's cache), they grow too old together - some of them, all of
// them, with long-lived ones in between - and then requests arrive for what the second, the
// third, ... of them covered: one sweep has to drop every one that is too old, wherever it sits.
func genSweep(r *rand.Rand, p *Profile) *CaseIn {
	in := &CaseIn{Class: "sweep"}
	in.Hosts, in.Realms = genHosts(r, p, false)
	focus := r.Intn(2)
	h, rc := plainBearer(r, in, focus)
	if r.Intn(3) != 0 {
		h.Refresh = ""
	}
	scopes := []string{"repository:foo:pull", "repository:bar:pull", "registry:catalog:*", "repository:foo:push",
		"repository:bar:push", "repository:foo:delete"}
	r.Shuffle(len(scopes), func(i, j int) { scopes[i], scopes[j] = scopes[j], scopes[i] })
	k := r.Intn(3) + 2
	short := pick(r, []int{2, 2, 3})
	rc.Lifetimes = nil
	for i := 0; i < k; i++ {
		rc.Lifetimes = append(rc.Lifetimes, pick(r, []int{short, short, short, short, 1, 3600, 0}))
	}
	rc.Lifetimes = append(rc.Lifetimes, 0, 0, 0, 0)
	id := 0
	for ; id < k; id++ {
		in.Steps = append(in.Steps, three(id, parseReq(h.Host, scopes[id]))...)
	}
	in.Steps = append(in.Steps, Step{Op: "sleep", Ms: (short-1)*1000 + pick(r, []int{300, 500, 900})})
	for n := r.Intn(3) + 1; n > 0; n-- {
		j := k - 1 - r.Intn(k)
		if r.Intn(3) == 0 {
			j = r.Intn(k)
		}
		in.Steps = append(in.Steps, three(id, parseReq(h.Host, scopes[j]))...)
		id++
	}
	if r.Intn(100) < p.FaultPct/4 {
		genFaults(r, &Profile{FaultPct: 100}, in)
	}
	return in
}

// plainBearer sets up the focus host as a registry that wants bearer tokens from a realm that
// hands them out without fuss.
func plainBearer(r *rand.Rand, in *CaseIn, focus int) (*HostCfg, *RealmCfg) {
	h := &in.Hosts[focus]
	h.Mode = "bearer"
	h.CfgErr = false
	h.Challenge = []string{bearer(realmURLs[focus], r.Intn(nBearer))}
	h.Access = ""
	rc := &in.Realms[focus]
	rc.Post = pick(r, []string{"ok", "ok", "404"})
	rc.Field = pick(r, []string{"token", "token", "access", "both"})
	rc.CheckCreds, rc.Allowed, rc.SameToken, rc.GiveRefresh = false, "", false, false
	rc.Lifetimes = []int{pick(r, []int{0, 3600})}
	return h, rc
}

func three(id int, q *Req) []Step {
	return []Step{{Op: "start", ID: id, Req: q}, {Op: "resume", ID: id}, {Op: "resume", ID: id}}
}

// genReuse: a call gets its token; then its request is sent again after the token has grown too
// old (or not), and a request for another registry is built around the same header map.
func genReuse(r *rand.Rand, p *Profile) *CaseIn {
	in := &CaseIn{Class: "reuse"}
	in.Hosts, in.Realms = genHosts(r, p, false)
	focus := r.Intn(2)
	h, rc := plainBearer(r, in, focus)
	if r.Intn(4) != 0 {
		h.Refresh = "" // with a refresh token a fresh access token is fetched before the first attempt
	}
	life := pick(r, []int{2, 2, 3, 1, 0})
	rc.Lifetimes = []int{life, pick(r, []int{2, 3, 0}), 0}
	first := parseReq(h.Host, pick(r, scopeTexts[:10]))
	if r.Intn(5) == 0 {
		first.Auth = pick(r, []string{"Bearer caller-token", "Custom zzz"})
	}
	if r.Intn(4) == 0 {
		first.Body = pick(r, []string{"plain", "get"})
	}
	add := func(st ...Step) { in.Steps = append(in.Steps, st...) }
	add(three(0, first)...)
	id := 1
	again := func() {
		cp := *first
		cp.Reuse, cp.Of = "req", 0
		add(three(id, &cp)...)
		id++
	}
	other := func() {
		o := in.Hosts[1-focus]
		if r.Intn(3) == 0 {
			o = in.Hosts[2+r.Intn(2)]
		}
		q := parseReq(o.Host, pick(r, scopeTexts[:10]))
		if r.Intn(3) == 0 {
			q = genReq(r, &Profile{BodyPct: p.BodyPct}, in.Hosts, 1-focus)
		}
		q.Reuse, q.Of, q.Auth = "hdr", 0, first.Auth
		add(three(id, q)...)
		id++
	}
	for i := r.Intn(3) + 1; i > 0; i-- {
		switch r.Intn(3) {
		case 0:
			other()
		default:
			if life >= 1 && life <= 3 && r.Intn(4) != 0 {
				// the token is dropped by a call that starts later than (life-1) s after it was issued
				add(Step{Op: "sleep", Ms: (life-1)*1000 + pick(r, []int{250, 500, 900})})
			} else if r.Intn(3) == 0 {
				add(Step{Op: "sleep", Ms: pick(r, []int{300, 600})})
			}
			again()
		}
	}
	if r.Intn(100) < p.FaultPct/3 {
		genFaults(r, &Profile{FaultPct: 100}, in)
	}
	return in
}

// genNested: a call gets a token for pulling; the following requests need what that token
// covers (or nothing), but come with contexts derived from one that is annotated for more.
func genNested(r *rand.Rand, p *Profile) *CaseIn {
	in := &CaseIn{Class: "nested"}
	in.Hosts, in.Realms = genHosts(r, p, false)
	focus := r.Intn(2)
	h, _ := plainBearer(r, in, focus)
	first := parseReq(h.Host, pick(r, []string{"repository:foo:pull", "repository:foo:pull", "repository:bar:pull",
		"repository:foo:pull repository:bar:pull", "repository:foo:pull,push"}))
	if r.Intn(4) == 0 {
		first.Want = ScopeSpec{Kind: "parse", Text: pick(r, scopeTexts)}
	}
	in.Steps = append(in.Steps, three(0, first)...)
	last := first
	for id := 1; id <= 1+r.Intn(3); id++ {
		q := nested(r, p, last)
		if r.Intn(3) == 0 {
			q = nested(r, p, first)
		}
		if q.Required.Kind == "parse" {
			q.Need, q.Chal = q.Required.Text, q.Required.Text
		} else if q.Required.Kind == "zero" {
			q.Need, q.Chal = "", ""
		}
		in.Steps = append(in.Steps, three(id, q)...)
		last = q
	}
	if r.Intn(100) < p.FaultPct/3 {
		genFaults(r, &Profile{FaultPct: 100}, in)
	}
	return in
}

// genCancel: requests with bodies whose context is dead from the start, or dies after the first
// or the second attempt went out, or while the call waits for a slow token server, among ordinary
// ones. Half of the time the registry wants Basic auth and the host has a password: the second
// attempt (with a fresh body from GetBody) then needs no token request in between.
func genCancel(r *rand.Rand, p *Profile) *CaseIn {
	in := &CaseIn{Class: "cancel"}
	in.Hosts, in.Realms = genHosts(r, p, false)
	focus := r.Intn(4)
	if r.Intn(2) == 0 {
		h := &in.Hosts[focus]
		tag := string(rune('a' + focus))
		h.Mode, h.CfgErr, h.Access = "basic", false, ""
		h.Challenge = []string{pick(r, []string{`Basic realm="reg"`, `Basic`, `BASIC realm=reg`})}
		h.User, h.Pass = "user-"+tag, "pw-"+tag
	}
	n := r.Intn(3) + 2
	for id := 0; id < n; id++ {
		q := genReq(r, &Profile{BodyPct: 75, Unlimited: p.Unlimited, HostPct: p.HostPct}, in.Hosts, focus)
		if r.Intn(3) == 0 {
			q.Body = "get"
		}
		st := three(id, q)
		switch r.Intn(8) {
		case 0, 1:
			q.Cancel = "pre"
		case 2:
			q.Cancel = "deadline"
		case 3, 4, 5:
			k := 1 + r.Intn(2)
			st = append(st[:k], append([]Step{{Op: "cancel", ID: id}}, st[k:]...)...)
		case 6:
			// given up while the token server takes its time (in whichever phase asks for a token)
			st = []Step{{Op: "start", ID: id, Req: q, Hold: true}, {Op: "resume", ID: id, Hold: true},
				{Op: "cancel", ID: id}, {Op: "release", ID: id}, {Op: "resume", ID: id}, {Op: "resume", ID: id}}
		}
		in.Steps = append(in.Steps, st...)
	}
	if r.Intn(100) < p.FaultPct/2 {
		genFaults(r, &Profile{FaultPct: 100}, in)
	}
	return in
}

// genRedir: a registry whose token realm redirects; the host has a password (sent as Basic auth
// with the GET form of the token request), a refresh token (POST form), both or neither.
func genRedir(r *rand.Rand, p *Profile) *CaseIn {
	in := &CaseIn{Class: "redir"}
	in.Hosts, in.Realms = genHosts(r, p, false)
	focus := r.Intn(2)
	h, rc := plainBearer(r, in, focus)
	tag := string(rune('a' + focus))
	h.User, h.Pass, h.Refresh = "", "", ""
	switch n := r.Intn(20); {
	case n < 10:
		h.User, h.Pass = "user-"+tag, "pw-"+tag
	case n < 15:
		h.User, h.Pass, h.Refresh = "user-"+tag, "pw-"+tag, "rt-"+tag
	case n < 18:
		h.Refresh = "rt-" + tag
	}
	rc.CheckCreds = r.Intn(3) == 0
	rc.GiveRefresh = r.Intn(6) == 0
	rc.Redirect = genRedirect(r)
	if r.Intn(4) == 0 {
		// the other registry's realm as well (or the same one, when the realm is shared)
		in.Realms[1-focus].Redirect = genRedirect(r)
	}
	n := r.Intn(3) + 1
	for id := 0; id < n; id++ {
		q := parseReq(h.Host, pick(r, scopeTexts[:10]))
		if r.Intn(4) == 0 {
			q = genReq(r, &Profile{BodyPct: p.BodyPct}, in.Hosts, focus)
		}
		in.Steps = append(in.Steps, three(id, q)...)
	}
	if r.Intn(100) < p.FaultPct/2 {
		genFaults(r, &Profile{FaultPct: 100}, in)
	}
	return in
}

// genPicky: a token server that refuses (401) requests for more than it is willing to grant; a
// call that requires something it grants and desires more gets a token after the narrow retry;
// later calls require what was desired but not granted (the cached token must not be taken for
// them), or what was granted (it must).
func genPicky(r *rand.Rand, p *Profile) *CaseIn {
	in := &CaseIn{Class: "picky"}
	in.Hosts, in.Realms = genHosts(r, p, false)
	focus := r.Intn(2)
	h, rc := plainBearer(r, in, focus)
	if r.Intn(2) == 0 {
		h.Refresh = ""
	}
	type shape struct{ allowed, first, want, later string }
	sh := pick(r, []shape{
		{"repository:foo:pull", "repository:foo:pull", "repository:foo:pull repository:bar:pull", "repository:bar:pull"},
		{"repository:foo:pull", "repository:foo:pull", "repository:bar:pull", "repository:bar:pull"},
		{"repository:foo:pull", "repository:foo:pull", "repository:foo:pull,push", "repository:foo:push"},
		{"repository:foo:pull,push", "repository:foo:pull", "repository:foo:pull,push repository:bar:pull", "repository:bar:pull"},
		{"repository:foo:pull repository:bar:pull", "repository:bar:pull", "registry:catalog:*", "registry:catalog:*"},
		{"repository:foo:pull", "repository:foo:pull", "repository:foo:delete", "repository:foo:delete"},
	})
	rc.Allowed = sh.allowed
	rc.Lifetimes = []int{pick(r, []int{0, 3600, 3})}
	first := parseReq(h.Host, sh.first)
	first.Want = ScopeSpec{Kind: "parse", Text: sh.want}
	if r.Intn(4) == 0 {
		first.Chal = pick(r, []string{"", sh.first + " repository:bar:pull"})
	}
	in.Steps = append(in.Steps, three(0, first)...)
	for id := 1; id <= 1+r.Intn(3); id++ {
		q := parseReq(h.Host, sh.later)
		switch r.Intn(4) {
		case 0:
			q = parseReq(h.Host, sh.first) // what the token was granted for
		case 1:
			q = parseReq(h.Host, sh.want)
		}
		in.Steps = append(in.Steps, three(id, q)...)
	}
	if r.Intn(100) < p.FaultPct/4 {
		genFaults(r, &Profile{FaultPct: 100}, in)
	}
	return in
}
