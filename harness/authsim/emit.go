package authsim

import (
	"fmt"
	"sort"
	"strings"

	"cuelabs.dev/go/oci/ociregistry/ociauth"
	"verif/harness/hx"
)

func (s ScopeSpec) Coq() string {
	switch s.Kind {
	case "parse":
		return "(ParseScope " + hx.B(s.Text) + ")"
	case "new":
		items := make([]string, len(s.Items))
		for i, it := range s.Items {
			items[i] = fmt.Sprintf("RS %s %s %s", hx.B(it[0]), hx.B(it[1]), hx.B(it[2]))
		}
		return "(NewScope " + hx.List(items) + ")"
	case "unlimited":
		return "UnlimitedScope"
	}
	return "zero_scope"
}

// Sexp renders how the scope was built, as a term of Model.Scope.sexp.
func (s ScopeSpec) Sexp() string {
	switch s.Kind {
	case "parse":
		return "(EParse " + hx.B(s.Text) + ")"
	case "new":
		items := make([]string, len(s.Items))
		for i, it := range s.Items {
			items[i] = fmt.Sprintf("RS %s %s %s", hx.B(it[0]), hx.B(it[1]), hx.B(it[2]))
		}
		return "(ENew " + hx.List(items) + ")"
	case "unlimited":
		return "EUnlimited"
	}
	return "(ENew [])"
}

func (a Authz) Coq() string {
	switch a.Kind {
	case "bearer":
		return "(ABearer " + hx.B(a.A) + ")"
	case "basic":
		return "(ABasic " + hx.B(a.A) + " " + hx.B(a.B) + ")"
	case "other":
		return "(AOther " + hx.B(a.A) + ")"
	}
	return "ANone"
}

func presetAuthz(raw string) Authz {
	if raw == "" {
		return Authz{Kind: "none"}
	}
	return decodeAuthz(map[string][]string{"Authorization": {raw}})
}

func bodyCoq(k string) string {
	switch k {
	case "plain":
		return "BPlain"
	case "get":
		return "BGet"
	case "getfail":
		return "BGetFail"
	}
	return "BNone"
}

func (r *Req) Coq() string {
	return fmt.Sprintf("{| q_host := %s; q_required := %s; q_want := %s; q_body := %s; q_auth := %s |}",
		hx.B(r.Host), r.EffRequired().Coq(), r.EffWant().Coq(), bodyCoq(r.Body), presetAuthz(r.Auth).Coq())
}

func kvsCoq(q []KV) string {
	items := make([]string, len(q))
	for i, kv := range q {
		items[i] = "(" + hx.B(kv.K) + ", " + hx.Bs(kv.V) + ")"
	}
	return hx.List(items)
}

func (m *Msg) Coq() string {
	switch m.Kind {
	case "post":
		items := make([]string, len(m.Form))
		for i, kv := range m.Form {
			items[i] = "(" + hx.B(kv[0]) + ", " + hx.B(kv[1]) + ")"
		}
		return "(MPost " + hx.B(m.Realm) + " " + hx.List(items) + " " + m.Auth.Coq() + ")"
	case "get":
		return "(MGet " + hx.B(m.Base) + " " + kvsCoq(m.Query) + " " + m.Auth.Coq() + ")"
	}
	return "(MReg " + hx.B(m.Host) + " " + m.Auth.Coq() + ")"
}

func (r *Resp) Coq() string {
	if r.Fail {
		return "RFail"
	}
	body := "TBBadJSON"
	switch r.Body {
	case "readerr":
		body = "TBReadErr"
	case "json":
		body = fmt.Sprintf("(TBJSON {| wt_token := %s; wt_access := %s; wt_refresh := %s; wt_expires := %s |})",
			hx.B(r.Token), hx.B(r.Access), hx.B(r.Refresh), hx.Z(int64(r.ExpiresIn)))
	}
	return fmt.Sprintf("(RHttp %d %s %s)", r.Status, hx.Bs(r.WWW), body)
}

// locCoq renders the Location of a token server's answer (Obs.AuthObs.loc).
func locCoq(l *Loc) string {
	switch {
	case l == nil:
		return "LNone"
	case l.Bad:
		return "LBad"
	}
	return fmt.Sprintf("(LTo {| t_url := %s; t_base := %s; t_query := %s; t_host := %s; t_hostport := %s |})",
		hx.B(l.URL), hx.B(l.Base), kvsCoq(l.Query), hx.B(l.Host), hx.B(l.HostPort))
}

func isRedirect(status int) bool {
	switch status {
	case 301, 302, 303, 307, 308:
		return true
	}
	return false
}

// foldHops turns the events as they happened into the trace the model of RoundTrip speaks about:
// a token request and the requests by which http.Client followed redirects are ONE exchange with
// the token service (what doTokenRequest sees: the last answer, or an error when the client
// gave up); the hops themselves are listed per exchange (index of the exchange in the folded
// trace -> the chain, first request included) and are compared with the model of the client's
// redirect policy.
func foldHops(evs []Ev) (main []Ev, chains map[int][]Ev) {
	chains = map[int][]Ev{}
	for _, e := range evs {
		if e.Kind == "hop" && len(main) > 0 {
			j := len(main) - 1
			if p := main[j]; p.Kind == "send" && p.ID == e.ID && p.Msg.Kind != "reg" {
				if chains[j] == nil {
					chains[j] = []Ev{p}
				}
				chains[j] = append(chains[j], e)
				continue
			}
		}
		if e.Kind == "hop" {
			e.Kind = "send" // a hop out of place: shown as it is
		}
		main = append(main, e)
		if e.Kind == "send" && e.Msg.Kind != "reg" && e.Resp != nil && e.Resp.Loc != nil {
			chains[len(main)-1] = []Ev{e}
		}
	}
	for j, ch := range chains {
		last := ch[len(ch)-1]
		fin := *last.Resp
		if !fin.Fail && isRedirect(fin.Status) && fin.Loc != nil {
			// a redirect the client did not follow
			if (fin.Status == 307 || fin.Status == 308) && last.Msg.Kind == "post" && !fin.Loc.Bad && len(ch) < 10 &&
				fin.Loc.HostPort != ch[0].Msg.HostPort {
				// the POST would have gone to another host: doTokenRequest's CheckRedirect hook says
				// http.ErrUseLastResponse, the redirect itself is the answer
			} else {
				// the Location does not parse, or the client had followed enough of them
				// ("stopped after 10 redirects"): Do returns an error
				fin = Resp{Fail: true}
			}
		}
		fin.Loc = nil
		f := main[j]
		f.Resp, f.T = &fin, last.T
		main[j] = f
	}
	return main, chains
}

func hopCoq(e *Ev) string {
	return fmt.Sprintf("{| hp_msg := %s; hp_host := %s; hp_hostport := %s; hp_resp := %s; hp_loc := %s |}",
		e.Msg.Coq(), hx.B(e.Msg.HostName), hx.B(e.Msg.HostPort), e.Resp.Coq(), locCoq(e.Resp.Loc))
}

func (r *Result) Coq() string {
	if r.Panic != "" {
		return "(RetErr (Some 99999%N))" // no model outcome looks like this
	}
	if r.Err {
		if r.HTTP != 0 {
			return fmt.Sprintf("(RetErr (Some %d%%N))", r.HTTP)
		}
		return "(RetErr None)"
	}
	return fmt.Sprintf("(RetResp %d %s)", r.Status, hx.Bool(r.Denied))
}

func (e *Ev) Coq() string {
	switch e.Kind {
	case "start":
		return fmt.Sprintf("EStart %d %s", e.ID, e.Req.Coq())
	case "resume":
		return fmt.Sprintf("EResume %d", e.ID)
	case "send":
		return fmt.Sprintf("ESend %d %s %s", e.ID, e.Msg.Coq(), e.Resp.Coq())
	case "selfclose":
		return fmt.Sprintf("ESelfClose %d", e.ID)
	case "respclose":
		return fmt.Sprintf("ERespClose %d", e.ID)
	case "getbody":
		return fmt.Sprintf("EGetBody %d", e.ID)
	}
	return fmt.Sprintf("EReturn %d %s", e.ID, e.Res.Coq())
}

// CoqCase renders a run as a term of type Obs.AuthObs.case.
func CoqCase(in *CaseIn, obs *Observed) string {
	var cfg []string
	for _, h := range in.Hosts {
		if h.CfgErr {
			cfg = append(cfg, "("+hx.B(h.Host)+", None)")
			continue
		}
		cfg = append(cfg, fmt.Sprintf("(%s, Some {| ce_refresh := %s; ce_access := %s; ce_user := %s; ce_pass := %s |})",
			hx.B(h.Host), hx.B(h.Refresh), hx.B(h.Access), hx.B(h.User), hx.B(h.Pass)))
	}
	var purl []string
	for _, realm := range obs.Realms {
		base, q, ok := SplitURL(realm)
		if !ok {
			purl = append(purl, "("+hx.B(realm)+", None)")
		} else {
			purl = append(purl, "("+hx.B(realm)+", Some ("+hx.B(base)+", "+kvsCoq(q)+"))")
		}
	}
	var sched, reqs []string
	held := false
	for _, st := range in.Steps {
		held = held || st.Hold || st.Op == "release" || st.HoldCfg || st.Op == "cfgrelease"
	}
	for _, st := range in.Steps {
		switch st.Op {
		case "start":
			if st.Req != nil {
				if !held {
					sched = append(sched, fmt.Sprintf("Start %d %s", st.ID, st.Req.Coq()))
				}
				reqs = append(reqs, fmt.Sprintf("(%d%%nat, (%s, %s))", st.ID, st.Req.EffRequired().Sexp(), st.Req.EffWant().Sexp()))
			}
		case "resume":
			if !held {
				sched = append(sched, fmt.Sprintf("Resume %d", st.ID))
			}
		}
	}
	if held {
		// with a token-server gate in play the order in which the phases took the host's lock is
		// an outcome of the run: the schedule is the sequence of phases as they were observed
		for _, e := range obs.Events {
			switch e.Kind {
			case "start":
				sched = append(sched, fmt.Sprintf("Start %d %s", e.ID, e.Req.Coq()))
			case "resume":
				sched = append(sched, fmt.Sprintf("Resume %d", e.ID))
			}
		}
	}
	main, chains := foldHops(obs.Events)
	times := make([]string, len(main))
	evs := make([]string, len(main))
	for i := range main {
		times[i] = hx.Z(main[i].T)
		evs[i] = main[i].Coq()
	}
	var idx []int
	for j := range chains {
		idx = append(idx, j)
	}
	sort.Ints(idx)
	var hops []string
	for _, j := range idx {
		items := make([]string, len(chains[j]))
		for k := range chains[j] {
			items[k] = hopCoq(&chains[j][k])
		}
		hops = append(hops, fmt.Sprintf("(%d%%nat, %s)", j, hx.List(items)))
	}
	return fmt.Sprintf("(CRun {| c_cfg := %s; c_purl := %s;\n    c_sched := %s;\n    c_times := %s;\n    c_trace := %s;\n    c_untouched := %s;\n    c_reqs := %s;\n    c_hops := %s |})",
		hx.List(cfg), hx.List(purl), hx.List(sched), hx.List(times), hx.List(evs), hx.Bool(obs.Untouched && !obs.Hung), hx.List(reqs), hx.List(hops))
}

// ParseObserved is what the real parseWWWAuthenticate did with one header.
type ParseObserved struct {
	Header string            `json:"header"`
	Panic  string            `json:"panic,omitempty"`
	OK     bool              `json:"ok"`
	Scheme string            `json:"scheme,omitempty"`
	Params map[string]string `json:"params,omitempty"`
}

func RunParse(hdr string) *ParseObserved {
	o := &ParseObserved{Header: hdr}
	p, pv := recoverCall(func() { o.Scheme, o.Params, o.OK = ociauth.ParseWWWAuthenticateForVerif(hdr) })
	if p {
		o.Panic = pv
	}
	return o
}

func (o *ParseObserved) Coq() string {
	res := "None"
	if o.OK {
		keys := make([]string, 0, len(o.Params))
		for k := range o.Params {
			keys = append(keys, k)
		}
		sort.Strings(keys)
		items := make([]string, len(keys))
		for i, k := range keys {
			items[i] = "(" + hx.B(k) + ", " + hx.B(o.Params[k]) + ")"
		}
		res = "(Some (" + hx.B(o.Scheme) + ", " + hx.List(items) + "))"
	}
	return "(CParse " + hx.B(o.Header) + " " + hx.Bool(o.Panic != "") + " " + res + ")"
}

func short(s string) string { return strings.ReplaceAll(s, "\n", " ") }
