package authsim

import (
	"fmt"
	"sort"
	"strings"

	"cuelabs.dev/go/oci/ociregistry/ociauth"
	"verif/harness/hx"
)

func (s ScopeSpec) Coq() string {
	switch s.Kind {
	case "parse":
		return "(ParseScope " + hx.B(s.Text) + ")"
	case "new":
		items := make([]string, len(s.Items))
		for i, it := range s.Items {
			items[i] = fmt.Sprintf("RS %s %s %s", hx.B(it[0]), hx.B(it[1]), hx.B(it[2]))
		}
		return "(NewScope " + hx.List(items) + ")"
	case "unlimited":
		return "UnlimitedScope"
	}
	return "zero_scope"
}

// Sexp renders how the scope was built, as a term of Model.Scope.sexp.
func (s ScopeSpec) Sexp() string {
	switch s.Kind {
	case "parse":
		return "(EParse " + hx.B(s.Text) + ")"
	case "new":
		items := make([]string, len(s.Items))
		for i, it := range s.Items {
			items[i] = fmt.Sprintf("RS %s %s %s", hx.B(it[0]), hx.B(it[1]), hx.B(it[2]))
		}
		return "(ENew " + hx.List(items) + ")"
	case "unlimited":
		return "EUnlimited"
	}
	return "(ENew [])"
}

func (a Authz) Coq() string {
	switch a.Kind {
	case "bearer":
		return "(ABearer " + hx.B(a.A) + ")"
	case "basic":
		return "(ABasic " + hx.B(a.A) + " " + hx.B(a.B) + ")"
	case "other":
		return "(AOther " + hx.B(a.A) + ")"
	}
	return "ANone"
}

func presetAuthz(raw string) Authz {
	if raw == "" {
		return Authz{Kind: "none"}
	}
	return decodeAuthz(map[string][]string{"Authorization": {raw}})
}

func bodyCoq(k string) string {
	switch k {
	case "plain":
		return "BPlain"
	case "get":
		return "BGet"
	case "getfail":
		return "BGetFail"
	}
	return "BNone"
}

func (r *Req) Coq() string {
	return fmt.Sprintf("{| q_host := %s; q_required := %s; q_want := %s; q_body := %s; q_auth := %s |}",
		hx.B(r.Host), r.Required.Coq(), r.Want.Coq(), bodyCoq(r.Body), presetAuthz(r.Auth).Coq())
}

func kvsCoq(q []KV) string {
	items := make([]string, len(q))
	for i, kv := range q {
		items[i] = "(" + hx.B(kv.K) + ", " + hx.Bs(kv.V) + ")"
	}
	return hx.List(items)
}

func (m *Msg) Coq() string {
	switch m.Kind {
	case "post":
		items := make([]string, len(m.Form))
		for i, kv := range m.Form {
			items[i] = "(" + hx.B(kv[0]) + ", " + hx.B(kv[1]) + ")"
		}
		return "(MPost " + hx.B(m.Realm) + " " + hx.List(items) + " " + m.Auth.Coq() + ")"
	case "get":
		return "(MGet " + hx.B(m.Base) + " " + kvsCoq(m.Query) + " " + m.Auth.Coq() + ")"
	}
	return "(MReg " + hx.B(m.Host) + " " + m.Auth.Coq() + ")"
}

func (r *Resp) Coq() string {
	if r.Fail {
		return "RFail"
	}
	body := "TBBadJSON"
	switch r.Body {
	case "readerr":
		body = "TBReadErr"
	case "json":
		body = fmt.Sprintf("(TBJSON {| wt_token := %s; wt_access := %s; wt_refresh := %s; wt_expires := %s |})",
			hx.B(r.Token), hx.B(r.Access), hx.B(r.Refresh), hx.Z(int64(r.ExpiresIn)))
	}
	return fmt.Sprintf("(RHttp %d %s %s)", r.Status, hx.Bs(r.WWW), body)
}

func (r *Result) Coq() string {
	if r.Panic != "" {
		return "(RetErr (Some 99999%N))" // no model outcome looks like this
	}
	if r.Err {
		if r.HTTP != 0 {
			return fmt.Sprintf("(RetErr (Some %d%%N))", r.HTTP)
		}
		return "(RetErr None)"
	}
	return fmt.Sprintf("(RetResp %d %s)", r.Status, hx.Bool(r.Denied))
}

func (e *Ev) Coq() string {
	switch e.Kind {
	case "start":
		return fmt.Sprintf("EStart %d %s", e.ID, e.Req.Coq())
	case "resume":
		return fmt.Sprintf("EResume %d", e.ID)
	case "send":
		return fmt.Sprintf("ESend %d %s %s", e.ID, e.Msg.Coq(), e.Resp.Coq())
	case "selfclose":
		return fmt.Sprintf("ESelfClose %d", e.ID)
	case "respclose":
		return fmt.Sprintf("ERespClose %d", e.ID)
	case "getbody":
		return fmt.Sprintf("EGetBody %d", e.ID)
	}
	return fmt.Sprintf("EReturn %d %s", e.ID, e.Res.Coq())
}

// CoqCase renders a run as a term of type Obs.AuthObs.case.
func CoqCase(in *CaseIn, obs *Observed) string {
	var cfg []string
	for _, h := range in.Hosts {
		if h.CfgErr {
			cfg = append(cfg, "("+hx.B(h.Host)+", None)")
			continue
		}
		cfg = append(cfg, fmt.Sprintf("(%s, Some {| ce_refresh := %s; ce_access := %s; ce_user := %s; ce_pass := %s |})",
			hx.B(h.Host), hx.B(h.Refresh), hx.B(h.Access), hx.B(h.User), hx.B(h.Pass)))
	}
	var purl []string
	for _, realm := range obs.Realms {
		base, q, ok := SplitURL(realm)
		if !ok {
			purl = append(purl, "("+hx.B(realm)+", None)")
		} else {
			purl = append(purl, "("+hx.B(realm)+", Some ("+hx.B(base)+", "+kvsCoq(q)+"))")
		}
	}
	var sched, reqs []string
	held := false
	for _, st := range in.Steps {
		held = held || st.Hold || st.Op == "release" || st.HoldCfg || st.Op == "cfgrelease"
	}
	for _, st := range in.Steps {
		switch st.Op {
		case "start":
			if st.Req != nil {
				if !held {
					sched = append(sched, fmt.Sprintf("Start %d %s", st.ID, st.Req.Coq()))
				}
				reqs = append(reqs, fmt.Sprintf("(%d%%nat, (%s, %s))", st.ID, st.Req.Required.Sexp(), st.Req.Want.Sexp()))
			}
		case "resume":
			if !held {
				sched = append(sched, fmt.Sprintf("Resume %d", st.ID))
			}
		}
	}
	if held {
		// with a token-server gate in play the order in which the phases took the host's lock is
		// an outcome of the run: the schedule is the sequence of phases as they were observed
		for _, e := range obs.Events {
			switch e.Kind {
			case "start":
				sched = append(sched, fmt.Sprintf("Start %d %s", e.ID, e.Req.Coq()))
			case "resume":
				sched = append(sched, fmt.Sprintf("Resume %d", e.ID))
			}
		}
	}
	times := make([]string, len(obs.Events))
	evs := make([]string, len(obs.Events))
	for i := range obs.Events {
		times[i] = hx.Z(obs.Events[i].T)
		evs[i] = obs.Events[i].Coq()
	}
	return fmt.Sprintf("(CRun {| c_cfg := %s; c_purl := %s;\n    c_sched := %s;\n    c_times := %s;\n    c_trace := %s;\n    c_untouched := %s;\n    c_reqs := %s |})",
		hx.List(cfg), hx.List(purl), hx.List(sched), hx.List(times), hx.List(evs), hx.Bool(obs.Untouched && !obs.Hung), hx.List(reqs))
}

// ParseObserved is what the real parseWWWAuthenticate did with one header.
type ParseObserved struct {
	Header string            `json:"header"`
	Panic  string            `json:"panic,omitempty"`
	OK     bool              `json:"ok"`
	Scheme string            `json:"scheme,omitempty"`
	Params map[string]string `json:"params,omitempty"`
}

func RunParse(hdr string) *ParseObserved {
	o := &ParseObserved{Header: hdr}
	p, pv := recoverCall(func() { o.Scheme, o.Params, o.OK = ociauth.ParseWWWAuthenticateForVerif(hdr) })
	if p {
		o.Panic = pv
	}
	return o
}

func (o *ParseObserved) Coq() string {
	res := "None"
	if o.OK {
		keys := make([]string, 0, len(o.Params))
		for k := range o.Params {
			keys = append(keys, k)
		}
		sort.Strings(keys)
		items := make([]string, len(keys))
		for i, k := range keys {
			items[i] = "(" + hx.B(k) + ", " + hx.B(o.Params[k]) + ")"
		}
		res = "(Some (" + hx.B(o.Scheme) + ", " + hx.List(items) + "))"
	}
	return "(CParse " + hx.B(o.Header) + " " + hx.Bool(o.Panic != "") + " " + res + ")"
}

func short(s string) string { return strings.ReplaceAll(s, "\n", " ") }
