package authsim

import (
	"encoding/json"
	"fmt"
	"math/rand"
	"os"
	"strconv"
	"strings"
	"sync"

	"verif/harness/hx"
)

// Profile selects the mix of a property's generator.
type Profile struct {
	Module   string // Obs.C10 / Obs.C11
	Runs     int    // generated conversations (quick tier)
	Parses   int    // generated parser-only cases (quick tier)
	TimedPct int    // conversations with real sleeps
	FaultPct int    // conversations with injected network faults
	OddPct   int    // conversations whose registry sends odd / malformed challenges
	ConcPct  int    // conversations played as an interleaved batch
	HoldPct  int    // conversations in which a token server keeps a call waiting while others arrive (gen_hold.go)
	CfgPct   int    // conversations in which a config lookup is slow while other calls arrive (gen_cfg.go)
	HostPct  int    // requests whose Host field differs from URL.Host (a caller-supplied Host header)
	BodyPct  int    // requests that carry a body
	// second uses, contexts, redirects (gen_reuse.go)
	ReusePct    int  // calls that send an earlier call's *http.Request again, or share its http.Header map
	CtxPct      int  // requests whose context already carries (outer) annotations / annotates the empty scope explicitly
	CancelPct   int  // requests whose context is dead (cancelled, past its deadline) or is cancelled mid-call
	RedirPct    int  // conversations in which token servers answer with 3xx redirects
	SweepPct    int  // weight of the family "several short-lived tokens expire together" among the directed ones
	DirectedPct int  // conversations from the directed families for the five above
	Unlimited   bool // allow the unlimited scope as required / desired scope
}

var scopeTexts = []string{
	"repository:foo:pull", "repository:foo:pull,push", "repository:foo:push", "repository:bar:pull",
	"registry:catalog:*", "repository:foo:pull repository:bar:pull", "repository:foo:push,pull",
	"repository:bar:pull,push repository:foo:pull", "other", "repository:foo:delete", "",
}

func pick[T any](r *rand.Rand, xs []T) T { return xs[r.Intn(len(xs))] }

func genScope(r *rand.Rand, p *Profile) ScopeSpec {
	switch n := r.Intn(20); {
	case n < 11:
		return ScopeSpec{Kind: "parse", Text: pick(r, scopeTexts)}
	case n < 15:
		var items [][3]string
		for i := r.Intn(3) + 1; i > 0; i-- {
			items = append(items, [3]string{pick(r, []string{"repository", "repository", "registry", "x"}),
				pick(r, []string{"foo", "bar", "catalog"}), pick(r, []string{"pull", "push", "*", "delete"})})
		}
		return ScopeSpec{Kind: "new", Items: items}
	case n < 19 || !p.Unlimited:
		return ScopeSpec{Kind: "zero"}
	}
	return ScopeSpec{Kind: "unlimited"}
}

var realmURLs = []string{"https://auth-a.example/token", "https://auth-b.example/t?k=v", "https://auth.shared.example/token"}

func bearer(realm string, variant int) string {
	switch variant {
	case 0:
		return `Bearer realm="` + realm + `",service="svc",scope="%S"`
	case 1:
		return `Bearer realm="` + realm + `",scope="%S"`
	case 2:
		return `Bearer realm="` + realm + `",service="svc"`
	case 3:
		return `BEARER  Realm="` + realm + `" , Scope="%S" , Service=svc`
	case 4:
		return `Bearer scope="%S",service=svc,realm="` + realm + `"`
	// parameter names are case-insensitive one by one (RFC 7235 2.1)
	case 5:
		return `Bearer realm="` + realm + `",service="svc",Scope="%S"`
	case 6:
		return `Bearer REALM="` + realm + `",scope="%S"`
	case 7:
		return `bearer realm="` + realm + `",SCOPE="%S",Service="svc"`
	default:
		return `Bearer Realm="` + realm + `",SERVICE=svc,sCoPe="%S"`
	}
}

// nBearer is the number of bearer challenge spellings.
const nBearer = 9

// odd challenge sets: every RFC 7235 shape the parser distinguishes, and broken ones
func oddChallenge(r *rand.Rand, realm string) []string {
	esc := strings.Replace(realm, "token", `to\ken`, 1)
	sets := [][]string{
		{`Basic realm="reg"`, bearer(realm, 0)},
		{bearer(realm, 0), `Basic realm="reg"`},
		{`Negotiate`, bearer(realm, 1)},
		{`Negotiate`},
		{`Digest realm="x", nonce="y"`},
		{`Bearer realm="` + realm},
		{`Bearer realm=`},
		{`=foo`},
		{``},
		{},
		{`Bearer realm="` + esc + `",scope="%S"`},
		{`Bearer realm="` + realm + `",scope="%S",x="a\"b\\c"`},
		{`Bearer service="svc",scope="%S"`},
		{`Bearer realm="%zz",scope="%S"`},
		{`Bearer realm="http://[::1",scope="%S"`},
		{bearer(realm, 0), bearer("https://auth.shared.example/token", 1)},
		{`Bearer realm="` + realm + `",scope="%S" junk`},
		{`Bearer realm="` + realm + `",scope="%S",`},
		{`Basic`},
		{`basic realm=reg`, `Bearer realm="` + realm + `"`},
		{`Bearer realm="` + realm + `",realm="https://auth.shared.example/token",scope="%S"`},
		{`Bearer`},
	}
	return pick(r, sets)
}

func genHosts(r *rand.Rand, p *Profile, odd bool) ([]HostCfg, []RealmCfg) {
	names := []string{"a.example", "b.example:5000", "c.example", "b.example:5001"}
	var hosts []HostCfg
	shared := r.Intn(4) == 0
	for i, n := range names {
		tag := string(rune('a' + i))
		h := HostCfg{Host: n}
		switch r.Intn(8) {
		case 0: // none
		case 1, 2:
			h.User, h.Pass = "user-"+tag, "pw-"+tag
		case 3:
			h.Refresh = "rt-" + tag
		case 4:
			h.Access = "at-" + tag
		case 5:
			h.User, h.Pass, h.Refresh = "user-"+tag, "pw-"+tag, "rt-"+tag
		case 6:
			h.User = "user-" + tag
		case 7:
			h.User, h.Pass, h.Refresh, h.Access = "user-"+tag, "pw-"+tag, "rt-"+tag, "at-"+tag
		}
		if i == 2 && r.Intn(2) == 0 {
			h.CfgErr = true
		}
		realm := realmURLs[i%2]
		if shared {
			realm = realmURLs[2]
		}
		switch n := r.Intn(10); {
		case n < 7:
			h.Mode = "bearer"
			h.Challenge = []string{bearer(realm, r.Intn(nBearer))}
		case n < 9:
			h.Mode = "basic"
			h.Challenge = []string{pick(r, []string{`Basic realm="reg"`, `Basic`, `BASIC realm=reg`})}
		default:
			h.Mode = "open"
		}
		if odd && r.Intn(2) == 0 {
			h.Challenge = oddChallenge(r, realm)
			if r.Intn(3) == 0 {
				h.Mode = "deny"
			}
		}
		hosts = append(hosts, h)
	}
	var realms []RealmCfg
	for _, u := range realmURLs {
		rc := RealmCfg{URL: u, Post: pick(r, []string{"ok", "ok", "ok", "404", "404", "500", "401"}),
			Field: pick(r, []string{"token", "token", "token", "access", "both", "none"})}
		rc.CheckCreds = r.Intn(6) == 0
		if r.Intn(5) == 0 {
			rc.Allowed = pick(r, []string{"repository:foo:pull", "repository:foo:pull,push", "repository:foo:pull repository:bar:pull"})
		}
		rc.GiveRefresh = r.Intn(5) == 0
		rc.SameToken = r.Intn(12) == 0
		for i := r.Intn(4) + 1; i > 0; i-- {
			rc.Lifetimes = append(rc.Lifetimes, pick(r, []int{0, 0, 1, 2, 2, 3, 3, 3600, -1}))
		}
		if odd && r.Intn(6) == 0 {
			rc.Field = "none"
		}
		realms = append(realms, rc)
	}
	return hosts, realms
}

func genReq(r *rand.Rand, p *Profile, hosts []HostCfg, focus int) *Req {
	h := hosts[focus]
	if r.Intn(4) == 0 {
		h = pick(r, hosts)
	}
	q := &Req{Host: h.Host, Required: genScope(r, p), Want: ScopeSpec{Kind: "zero"}, Body: "none"}
	if r.Intn(3) == 0 {
		q.Want = genScope(r, p)
	}
	switch {
	case q.Required.Kind == "parse" && r.Intn(5) != 0:
		q.Need = q.Required.Text
	default:
		q.Need = pick(r, scopeTexts)
	}
	q.Chal = q.Need
	switch r.Intn(10) {
	case 0:
		q.Chal = pick(r, scopeTexts)
	case 1:
		q.Chal = q.Need + " repository:bar:pull"
	case 2:
		q.Chal = ""
	}
	if r.Intn(100) < p.BodyPct {
		q.Body = pick(r, []string{"plain", "get", "get", "getfail"})
	}
	if r.Intn(25) == 0 {
		q.Auth = pick(r, []string{"Bearer caller-token", "Basic Y2FsbGVyOnB3", "Custom zzz"})
	}
	if p.HostPct > 0 && r.Intn(100) < p.HostPct {
		// the caller overrides the Host header: with another registry's name (one the transport
		// holds credentials for, mostly), an unknown name, or nothing at all
		switch r.Intn(8) {
		case 0:
			q.HostHdr = "-"
		case 1:
			q.HostHdr = "elsewhere.example"
		default:
			if o := pick(r, hosts).Host; o != q.Host {
				q.HostHdr = o
			} else {
				q.HostHdr = hosts[(focus+1)%len(hosts)].Host
			}
		}
	}
	if p.CtxPct > 0 && r.Intn(100) < p.CtxPct {
		addLayers(r, p, q)
	}
	if p.CancelPct > 0 && r.Intn(100) < p.CancelPct {
		q.Cancel = pick(r, []string{"pre", "pre", "deadline"})
		if q.Body == "none" && r.Intn(2) == 0 {
			q.Body = pick(r, []string{"plain", "get", "getfail"})
		}
	}
	return q
}

// narrower derives from a call whose required or desired scope was built from several resource
// scopes a call that requires just one of them (the last ones in the list as often as the first:
// whatever order the token's scope keeps them in, each has to be found).
func narrower(r *rand.Rand, last *Req) *Req {
	if last == nil {
		return nil
	}
	var items [][3]string
	for _, sp := range []ScopeSpec{last.Required, last.Want} {
		if sp.Kind == "new" {
			items = append(items, sp.Items...)
		}
	}
	if len(items) < 2 {
		return nil
	}
	it := pick(r, items)
	text := it[0] + ":" + it[1] + ":" + it[2]
	return &Req{Host: last.Host, Required: ScopeSpec{Kind: "new", Items: [][3]string{it}}, Want: ScopeSpec{Kind: "zero"},
		Need: text, Chal: text, Body: "none"}
}

var sleeps = []int{300, 600, 900, 1200, 2100}

// GenCase builds one conversation.
func GenCase(r *rand.Rand, p *Profile) *CaseIn {
	if p.CfgPct > 0 && r.Intn(100) < p.CfgPct {
		return genCfg(r, p)
	}
	if p.HoldPct > 0 && r.Intn(100) < p.HoldPct {
		return genHold(r, p)
	}
	if p.DirectedPct > 0 && r.Intn(100) < p.DirectedPct {
		return genDirected(r, p)
	}
	odd := r.Intn(100) < p.OddPct
	in := &CaseIn{Class: "seq"}
	in.Hosts, in.Realms = genHosts(r, p, odd)
	focus := r.Intn(2)
	timed := r.Intn(100) < p.TimedPct
	conc := r.Intn(100) < p.ConcPct
	redir := p.RedirPct > 0 && r.Intn(100) < p.RedirPct
	if redir {
		addRedirects(r, in.Realms)
	}
	n := r.Intn(6) + 2
	if conc {
		in.Class = "conc"
		n = r.Intn(3) + 2
		// a warm-up call first, so that the batch meets a registry with a challenge on record
		id := 0
		var warm *Req
		if r.Intn(2) == 0 {
			warm = genReq(r, p, in.Hosts, focus)
			in.Steps = append(in.Steps, Step{Op: "start", ID: 100, Req: warm},
				Step{Op: "resume", ID: 100}, Step{Op: "resume", ID: 100})
		}
		type pend struct{ id, left int }
		var ps []*pend
		for ; id < n; id++ {
			ps = append(ps, &pend{id, 3})
		}
		for len(ps) > 0 {
			i := r.Intn(len(ps))
			pd := ps[i]
			if pd.left == 3 {
				q := genReq(r, p, in.Hosts, focus)
				if warm != nil && p.ReusePct > 0 && r.Intn(100) < p.ReusePct {
					// built around the header map of the warm-up call's request (one call of the batch only:
					// the caller itself writes to that map when it prepares a request)
					q.Reuse, q.Of, q.Auth = "hdr", 100, warm.Auth
					warm = nil
				}
				in.Steps = append(in.Steps, Step{Op: "start", ID: pd.id, Req: q})
			} else {
				in.Steps = append(in.Steps, Step{Op: "resume", ID: pd.id})
			}
			pd.left--
			if pd.left == 0 {
				ps = append(ps[:i], ps[i+1:]...)
			} else if p.CancelPct > 0 && r.Intn(200) < p.CancelPct {
				in.Steps = append(in.Steps, Step{Op: "cancel", ID: pd.id}) // the caller gives up mid-call
			}
			if timed && r.Intn(4) == 0 {
				in.Steps = append(in.Steps, Step{Op: "sleep", Ms: pick(r, sleeps)})
			}
		}
	} else {
		var last *Req
		var made []*Req
		for id := 0; id < n; id++ {
			q := genReq(r, p, in.Hosts, focus)
			if last != nil && r.Intn(3) == 0 {
				// the same again: the cache should answer
				cp := *last
				cp.Reuse = ""
				q = &cp
			} else if nq := narrower(r, last); nq != nil && r.Intn(3) == 0 {
				// one piece of what the previous call asked for: the cache should answer as well
				q = nq
			}
			if last != nil && p.CtxPct > 0 && r.Intn(100) < p.CtxPct {
				// (a part of) what the previous call asked for, under a context that carries other annotations already
				q = nested(r, p, last)
			}
			if id > 0 && p.ReusePct > 0 && r.Intn(100) < p.ReusePct {
				q = reuseOf(r, in.Hosts, made, q)
			}
			last = q
			made = append(made, q)
			in.Steps = append(in.Steps, Step{Op: "start", ID: id, Req: q}, Step{Op: "resume", ID: id}, Step{Op: "resume", ID: id})
			if p.CancelPct > 0 && r.Intn(100) < p.CancelPct {
				// the caller gives up mid-call: after the first or after the second attempt went out
				k := len(in.Steps) - 2 + r.Intn(2)
				in.Steps = append(in.Steps[:k], append([]Step{{Op: "cancel", ID: id}}, in.Steps[k:]...)...)
			}
			if timed && r.Intn(2) == 0 {
				in.Steps = append(in.Steps, Step{Op: "sleep", Ms: pick(r, sleeps)})
			}
		}
	}
	if timed {
		in.Class += "-timed"
	}
	if odd {
		in.Class += "-odd"
	}
	if redir {
		in.Class += "-redir"
	}
	genFaults(r, p, in)
	return in
}

func genFaults(r *rand.Rand, p *Profile, in *CaseIn) {
	if r.Intn(100) < p.FaultPct {
		in.Class += "-fault"
		in.Faults = map[string]Fault{}
		for i := r.Intn(3) + 1; i > 0; i-- {
			var f Fault
			switch r.Intn(8) {
			case 0:
				f = Fault{Kind: "fail"}
			case 1:
				f = Fault{Kind: "badjson"}
			case 2:
				f = Fault{Kind: "readerr"}
			case 3:
				f = Fault{Kind: "status", Status: 401} // a 401 without any challenge
			case 4:
				f = Fault{Kind: "status", Status: 401, WWW: oddChallenge(r, pick(r, realmURLs))}
			default:
				f = Fault{Kind: "status", Status: pick(r, []int{200, 400, 401, 403, 404, 404, 429, 500, 503})}
			}
			in.Faults[strconv.Itoa(r.Intn(10))] = f
		}
	}
}

var parseSeeds = []string{
	`Bearer realm="https://auth.example/token",service="svc",scope="repository:foo:pull"`,
	`Basic realm="x"`, `Basic`, `bearer realm=abc`, `Bearer realm="a\"b\\c" , x=y`, `Bearer realm="a\`,
	`Bearer realm="abc`, `Bearer realm=""`, `Bearer realm="a",`, `Bearer realm="a",,`, `Bearer realm = "a"`,
	`Bearer  realm="a"  ,  scope="b"  `, `Bearer realm="a" scope="b"`, `=`, ``, ` Bearer realm="a"`, `Bearer,`,
	"Bearer\trealm=\"a\"", "Bearer realm=\"a\x00b\"", "Bearer realm=\"\\", "Bearer realm=\"\\\"", `Bearer a=b,A=c,a=d`,
	"B\xc3\xa9arer realm=a", "Bearer r\xff=a", `Bearer realm="\a\b\c"`, `Bearer realm="x\\"`, `Bearer realm="x\\\"`,
}

// genValue renders a parameter value as a token or as a quoted string with escapes.
func genValue(r *rand.Rand) string {
	words := []string{"abc", "https://auth.example/token", "repository:foo:pull,push", "a b", "x\"y", "back\\slash", "svc", "", "q,=;"}
	w := pick(r, words)
	if r.Intn(4) == 0 && w != "" && !strings.ContainsAny(w, " \"\\,=;:/") {
		return w // token form
	}
	var sb strings.Builder
	sb.WriteByte('"')
	for i := 0; i < len(w); i++ {
		c := w[i]
		if c == '"' || c == '\\' || r.Intn(9) == 0 {
			sb.WriteByte('\\')
		}
		sb.WriteByte(c)
	}
	sb.WriteByte('"')
	return sb.String()
}

// genChallenge renders a mostly well-formed challenge from the grammar.
func genChallenge(r *rand.Rand) string {
	var sb strings.Builder
	sb.WriteString(pick(r, []string{"Bearer", "Basic", "bearer", "BEARER", "Digest", "Negotiate", "X-Custom"}))
	n := r.Intn(4)
	sp := func() string { return pick(r, []string{"", "", " ", "  ", "\t"}) }
	for i := 0; i < n; i++ {
		if i == 0 {
			sb.WriteString(" ")
		} else {
			sb.WriteString(sp() + "," + sp())
		}
		sb.WriteString(pick(r, []string{"realm", "scope", "service", "Realm", "error", "x-y", "realm"}))
		sb.WriteString("=")
		sb.WriteString(genValue(r))
	}
	if r.Intn(6) == 0 {
		sb.WriteString(pick(r, []string{",", " ", " ,", ", ", " junk"}))
	}
	return sb.String()
}

// GenParse builds one header for the parser-only stream: grammar-directed (mostly valid), a
// seed, a mutation of either, or noise over the parser's own alphabet.
func GenParse(r *rand.Rand) string {
	alphabet := []string{"Bearer", "Basic", "realm", "scope", "=", ",", "\"", "\\", " ", "\t", "a", "b", "/", ":", "\x00", "\xff", "\r\n"}
	mutate := func(s0 string) string {
		s := []byte(s0)
		for i := r.Intn(3) + 1; i > 0 && len(s) > 0; i-- {
			j := r.Intn(len(s))
			switch r.Intn(3) {
			case 0:
				s = append(s[:j], s[j+1:]...)
			case 1:
				s[j] = pick(r, []byte{'"', '\\', ',', '=', ' ', 'x', 0, 200})
			default:
				s = append(s[:j], append([]byte{pick(r, []byte{'"', '\\', ',', '=', ' ', 'x'})}, s[j:]...)...)
			}
		}
		return string(s)
	}
	switch n := r.Intn(10); {
	case n < 5:
		return genChallenge(r)
	case n < 6:
		return pick(r, parseSeeds)
	case n < 8:
		return mutate(genChallenge(r))
	case n < 9:
		return mutate(pick(r, parseSeeds))
	}
	var sb strings.Builder
	for i := r.Intn(9); i > 0; i-- {
		sb.WriteString(pick(r, alphabet))
	}
	return sb.String()
}

type desc struct {
	In    *CaseIn        `json:"in,omitempty"`
	Obs   *Observed      `json:"obs,omitempty"`
	Parse *ParseObserved `json:"parse_obs,omitempty"`
}

func emitRun(out *hx.Out, in *CaseIn, obs *Observed) {
	if obs.Ambiguous {
		out.Count("discarded:timing-ambiguous")
		return
	}
	out.Count("class:" + in.Class)
	out.Count(fmt.Sprintf("events:%d0s", len(obs.Events)/10))
	if obs.CfgWaited > 0 {
		out.Count(fmt.Sprintf("cfg-lookups-waited:%d", obs.CfgWaited))
	}
	for _, e := range obs.Events {
		if e.Kind == "start" && e.Req.HostHdr != "" {
			out.Count("req:host-override")
		}
		if e.Kind == "start" && e.Req.Body == "get" {
			out.Count("req:body-with-getbody")
		}
		if e.Kind == "start" {
			if e.Req.Reuse != "" {
				out.Count("req:reuse-" + e.Req.Reuse)
			}
			if len(e.Req.Outer) > 0 {
				out.Count("req:nested-context")
			}
			if e.Req.Cancel != "" {
				out.Count("req:context-dead-" + e.Req.Cancel)
			}
		}
		if e.Kind == "hop" {
			out.Count("hop:" + e.Msg.Kind + ":" + e.Msg.Auth.Kind)
		}
		if (e.Kind == "send" || e.Kind == "hop") && e.Resp.Loc != nil {
			out.Count("tokresp:redirect-" + strconv.Itoa(e.Resp.Status))
		}
		if e.Kind == "send" {
			out.Count("msg:" + e.Msg.Kind + ":" + e.Msg.Auth.Kind)
			if e.Msg.Kind != "reg" {
				if e.Resp.Fail {
					out.Count("tokresp:fail")
				} else {
					out.Count("tokresp:" + strconv.Itoa(e.Resp.Status) + e.Resp.Body)
				}
			}
		}
		if e.Kind == "return" {
			switch {
			case e.Res.Panic != "":
				out.Count("result:panic")
			case e.Res.Err:
				out.Count("result:error")
			default:
				out.Count("result:" + strconv.Itoa(e.Res.Status))
			}
		}
	}
	out.Add(hx.Case{Coq: CoqCase(in, obs), Desc: desc{In: in, Obs: obs}, Tags: map[string]any{"class": in.Class}})
}

func emitParse(out *hx.Out, hdr string) {
	o := RunParse(hdr)
	if out.Add(hx.Case{Coq: o.Coq(), Desc: desc{In: &CaseIn{Class: "parse", Parse: &hdr}, Parse: o}, Tags: map[string]any{"class": "parse"}}) {
		switch {
		case o.Panic != "":
			out.Count("parse:panic")
		case o.OK:
			out.Count("parse:ok")
		default:
			out.Count("parse:rejected")
		}
	}
}

// Main is the whole harness binary.
func Main(p *Profile) {
	cfg := hx.ParseFlags()
	out := hx.NewOut(cfg, p.Module)
	out.ShardMax = 100
	var inputs []*CaseIn
	load := func(raw []byte) {
		var d desc
		if err := json.Unmarshal(raw, &d); err == nil && d.In != nil {
			inputs = append(inputs, d.In)
		}
	}
	if cfg.Replay != "" {
		raw, err := os.ReadFile(cfg.Replay)
		if err != nil {
			fmt.Fprintln(os.Stderr, err)
			os.Exit(2)
		}
		load(raw)
	} else {
		for _, raw := range hx.LoadCorpus(cfg.Corpus) {
			load(raw)
		}
		r := cfg.Rand()
		runs, parses := p.Runs, p.Parses
		if cfg.Thorough() {
			runs, parses = runs*8, parses*8
		}
		for i := 0; i < runs; i++ {
			inputs = append(inputs, GenCase(r, p))
		}
		for _, s := range parseSeeds {
			h := s
			inputs = append(inputs, &CaseIn{Class: "parse", Parse: &h})
		}
		for i := 0; i < parses; i++ {
			h := GenParse(r)
			inputs = append(inputs, &CaseIn{Class: "parse", Parse: &h})
		}
	}
	results := make([]*Observed, len(inputs))
	var wg sync.WaitGroup
	sem := make(chan struct{}, 24)
	for i, in := range inputs {
		if in.Parse != nil {
			continue
		}
		wg.Add(1)
		sem <- struct{}{}
		go func(i int, in *CaseIn) {
			defer wg.Done()
			defer func() { <-sem }()
			results[i] = Run(in)
		}(i, in)
	}
	wg.Wait()
	for i, in := range inputs {
		if in.Parse != nil {
			emitParse(out, *in.Parse)
		} else {
			emitRun(out, in, results[i])
		}
	}
	if err := out.Flush(); err != nil {
		fmt.Fprintln(os.Stderr, err)
		os.Exit(1)
	}
}
