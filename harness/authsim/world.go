// Package authsim drives the real ociauth transport against a scripted fake network (registries
// and token servers installed as the underlying http.RoundTripper) under a schedule of atomic
// phases, and records everything that reaches the network. Shared by cmd/c10 and cmd/c11.
package authsim

import (
	"context"
	"encoding/base64"
	"encoding/json"
	"errors"
	"fmt"
	"io"
	"net/http"
	"net/url"
	"reflect"
	"sort"
	"strconv"
	"strings"
	"sync"
	"time"

	"cuelabs.dev/go/oci/ociregistry"
	"cuelabs.dev/go/oci/ociregistry/ociauth"
)

// ---------- input (JSON, replayable) ----------

type ScopeSpec struct {
	Kind  string      `json:"kind"` // zero | parse | new | unlimited
	Text  string      `json:"text,omitempty"`
	Items [][3]string `json:"items,omitempty"`
}

func (s ScopeSpec) Scope() ociauth.Scope {
	switch s.Kind {
	case "parse":
		return ociauth.ParseScope(s.Text)
	case "new":
		var rs []ociauth.ResourceScope
		for _, it := range s.Items {
			rs = append(rs, ociauth.ResourceScope{ResourceType: it[0], Resource: it[1], Action: it[2]})
		}
		return ociauth.NewScope(rs...)
	case "unlimited":
		return ociauth.UnlimitedScope()
	}
	return ociauth.Scope{}
}

type HostCfg struct {
	Host    string `json:"host"`
	User    string `json:"user,omitempty"`
	Pass    string `json:"pass,omitempty"`
	Refresh string `json:"refresh,omitempty"`
	Access  string `json:"access,omitempty"`
	CfgErr  bool   `json:"cfg_err,omitempty"`
	// registry behaviour
	Mode      string   `json:"mode"`      // bearer | basic | open | deny
	Challenge []string `json:"challenge"` // Www-Authenticate values; %S = the request's challenge scope
}

type RealmCfg struct {
	URL         string `json:"url"`
	Post        string `json:"post"` // ok | 404 | 500 | 401
	CheckCreds  bool   `json:"check_creds,omitempty"`
	Allowed     string `json:"allowed,omitempty"` // refuse (401) requests for more than this; empty = grant all
	Lifetimes   []int  `json:"lifetimes"`
	Field       string `json:"field"` // token | access | both | none
	GiveRefresh bool   `json:"give_refresh,omitempty"`
	SameToken   bool   `json:"same_token,omitempty"` // always hand out the same token string
	// Redirect: the realm's server does not answer token requests itself but sends the client
	// elsewhere with a 3xx (see Redirect)
	Redirect *Redirect `json:"redirect,omitempty"`
}

// Redirect describes a token server that answers with 3xx redirects before some server answers
// for real (the one at the end of the chain behaves as the realm is configured to).
type Redirect struct {
	Status int `json:"status"` // 301 | 302 | 303 | 307 | 308
	// To: where the Location header points, per redirect of one chain:
	//   path      same host, another path
	//   relative  a relative reference (same host)
	//   port      same host name, another port
	//   sub       a sub-domain of the realm's host
	//   other     a different host
	//   lookalike a host whose name merely ends in the realm's host name (no dot before it)
	//   back      the realm's own host again (of interest after a hop elsewhere)
	//   bad       a Location that does not parse
	//   none      no Location header at all
	To []string `json:"to"`
	// Hops: redirects before the answer (the To list is cycled); above 9 the client gives up first
	Hops int `json:"hops"`
	// On: which token requests are redirected: "" (all), "get", "post"
	On string `json:"on,omitempty"`
}

type Fault struct {
	Kind   string   `json:"kind"` // fail | status | badjson | readerr
	Status int      `json:"status,omitempty"`
	WWW    []string `json:"www,omitempty"`
}

type Req struct {
	Host     string    `json:"host"`
	Required ScopeSpec `json:"required"`
	Want     ScopeSpec `json:"want"`
	Need     string    `json:"need"` // what the registry demands for this request
	Chal     string    `json:"chal"` // the scope its challenge names
	Body     string    `json:"body"` // none | plain | get | getfail
	Auth     string    `json:"auth,omitempty"`
	// HostHdr: the request's Host field (http.Request.Host, the Host header a client request
	// sends) when the caller overrides it: another host's name, or "-" for the empty string.
	// Empty: left as http.NewRequest sets it (= URL.Host). The request is sent to URL.Host either way.
	HostHdr string `json:"host_hdr,omitempty"`
	// Outer: annotations (ContextWithRequestInfo / ContextWithScope) already on the context the
	// caller derives this request's context from, outermost first. The request's own
	// annotations (Required, Want) are applied on top, each when its scope is not the zero
	// scope or when the Explicit flag says so (an annotation with the empty scope: "this
	// request requires nothing", which has to override whatever the parent context says).
	Outer        []Layer `json:"outer,omitempty"`
	ReqExplicit  bool    `json:"req_explicit,omitempty"`
	WantExplicit bool    `json:"want_explicit,omitempty"`
	// Cancel: the request's context is already dead when RoundTrip is called: "pre" (cancelled),
	// "deadline" (its deadline has passed). A live context can be cancelled mid-call by a
	// "cancel" step. The fake network, like a real one, fails every request whose context is dead.
	Cancel string `json:"cancel,omitempty"`
	// Reuse: the caller does not build this request from scratch. "req": it sends the very same
	// *http.Request as call Of once more (every field of this Req but Need/Chal/Body repeats that
	// call's); "hdr": it builds a new request around the http.Header map of call Of's request
	// (Auth repeats that call's). Only when call Of has returned; else the request is built afresh.
	Reuse string `json:"reuse,omitempty"`
	Of    int    `json:"of,omitempty"`
}

// Layer is one context annotation.
type Layer struct {
	Kind  string    `json:"kind"` // info (ContextWithRequestInfo) | scope (ContextWithScope)
	Scope ScopeSpec `json:"scope"`
}

// EffRequired is the required scope the request's context carries: that of the innermost
// ContextWithRequestInfo annotation.
func (r *Req) EffRequired() ScopeSpec {
	if r.Required.Kind != "zero" || r.ReqExplicit {
		return r.Required
	}
	for i := len(r.Outer) - 1; i >= 0; i-- {
		if r.Outer[i].Kind == "info" {
			return r.Outer[i].Scope
		}
	}
	return ScopeSpec{Kind: "zero"}
}

// EffWant is the desired scope the request's context carries (innermost ContextWithScope).
func (r *Req) EffWant() ScopeSpec {
	if r.Want.Kind != "zero" || r.WantExplicit {
		return r.Want
	}
	for i := len(r.Outer) - 1; i >= 0; i-- {
		if r.Outer[i].Kind == "scope" {
			return r.Outer[i].Scope
		}
	}
	return ScopeSpec{Kind: "zero"}
}

type Step struct {
	Op  string `json:"op"` // start | resume | sleep | release | cfgrelease | cancel (call ID's context)
	ID  int    `json:"id,omitempty"`
	Req *Req   `json:"req,omitempty"`
	Ms  int    `json:"ms,omitempty"`
	// Hold (start / resume): the token server keeps the first token request of this phase waiting
	// (the call is then inside a token acquisition, holding its host's lock) until a "release"
	// step for the same call. Calls started or resumed meanwhile are not waited for: they run
	// freely (and queue on the lock when they are for the same host); what they do is observed
	// after the held phase is over, one call at a time.
	Hold bool `json:"hold,omitempty"`
	// HoldCfg (start): the configuration is slow for this call's host: every
	// Config.EntryForRegistry lookup for that host waits until a "cfgrelease" step. The call and
	// all calls started or resumed meanwhile are not waited for (a call for the same host queues
	// behind the lookup, or makes its own); after the release they run on together, and what
	// they do is observed one call at a time, each phase marked at its first observable action.
	HoldCfg bool `json:"hold_cfg,omitempty"`
}

type CaseIn struct {
	Class  string           `json:"class"`
	Hosts  []HostCfg        `json:"hosts"`
	Realms []RealmCfg       `json:"realms"`
	Faults map[string]Fault `json:"faults,omitempty"` // by global message index
	Steps  []Step           `json:"steps"`
	Parse  *string          `json:"parse,omitempty"` // a parser-only case
}

// ---------- observation ----------

type Authz struct {
	Kind string `json:"kind"` // none | bearer | basic | other
	A    string `json:"a,omitempty"`
	B    string `json:"b,omitempty"`
}

type KV struct {
	K string   `json:"k"`
	V []string `json:"v"`
}

type Msg struct {
	Kind  string      `json:"kind"` // reg | post | get
	Host  string      `json:"host,omitempty"`
	Auth  Authz       `json:"auth"`
	Realm string      `json:"realm,omitempty"`
	Form  [][2]string `json:"form,omitempty"`
	Base  string      `json:"base,omitempty"`
	Query []KV        `json:"query,omitempty"`
	// token requests: URL.Hostname() of the request (what net/http compares when it decides
	// whether a redirected request keeps its Authorization header)
	HostName string `json:"hostname,omitempty"`
	// and its URL.Host (what doTokenRequest's CheckRedirect hook compares before a POST is sent again)
	HostPort string `json:"hostport,omitempty"`
}

// Loc is the Location header of a token server's answer, resolved against the request's URL the
// way http.Client does (req.URL.Parse): the oracle for net/url on the redirect hop.
type Loc struct {
	Raw      string `json:"raw"`
	Bad      bool   `json:"bad,omitempty"` // does not parse
	URL      string `json:"url,omitempty"` // the resolved URL
	Base     string `json:"base,omitempty"`
	Query    []KV   `json:"query,omitempty"`
	Host     string `json:"host,omitempty"`     // its Hostname()
	HostPort string `json:"hostport,omitempty"` // its Host
}

type Resp struct {
	Fail      bool     `json:"fail,omitempty"`
	Status    int      `json:"status,omitempty"`
	WWW       []string `json:"www,omitempty"`
	Body      string   `json:"body,omitempty"` // "" (irrelevant) | readerr | badjson | json
	Token     string   `json:"token,omitempty"`
	Access    string   `json:"access,omitempty"`
	Refresh   string   `json:"refresh,omitempty"`
	ExpiresIn int      `json:"expires_in,omitempty"`
	Loc       *Loc     `json:"loc,omitempty"` // token servers: the Location header sent along
}

type Result struct {
	Err    bool   `json:"err,omitempty"`
	HTTP   int    `json:"http,omitempty"` // errors.As found an HTTPError with this status (0 = none)
	Status int    `json:"status,omitempty"`
	Denied bool   `json:"denied,omitempty"`
	Panic  string `json:"panic,omitempty"`
}

type Ev struct {
	// start | resume | send | hop | selfclose | respclose | getbody | return
	// (hop: a token request that follows the redirect the call's previous token request was answered with)
	Kind string  `json:"kind"`
	ID   int     `json:"id"`
	Req  *Req    `json:"req,omitempty"`
	Msg  *Msg    `json:"msg,omitempty"`
	Resp *Resp   `json:"resp,omitempty"`
	Res  *Result `json:"res,omitempty"`
	T    int64   `json:"t"`
	// W (markers of calls that ran while another call was held at the token server): the earliest
	// moment the phase can have begun (the release of the held call when this call showed no sign
	// of life before it, else its launch); T lies within the phase, at its first action observed.
	W int64 `json:"w,omitempty"`
}

type Observed struct {
	Events    []Ev     `json:"events"`
	Untouched bool     `json:"untouched"`
	Hung      bool     `json:"hung,omitempty"`
	Ambiguous bool     `json:"ambiguous,omitempty"`
	Realms    []string `json:"realms,omitempty"`     // every realm named by a challenge sent
	CfgWaited int      `json:"cfg_waited,omitempty"` // config lookups that waited at a closed gate
}

// ---------- the world ----------

type callKey struct{}

type issue struct {
	scope   string
	expires time.Time
}

type thr struct {
	id     int
	gate   chan struct{}
	sig    chan struct{}
	parked bool
	done   bool
	// token-server gate
	hold      bool          // armed for the current phase
	tokParked bool          // waiting at the token server
	tokGate   chan struct{} //
	relT      int64         // when it was last released (us)
	followers []*thr        // calls launched while it was held
	// a call launched while another was held
	behind  *thr
	pending *Ev   // its marker, logged at its first observable action
	launchT int64 // us
	arrT    int64 // its first observable action reached the harness (us)
	// the caller's side
	req    *http.Request
	rq     *Req
	cell   *callCell
	cancel context.CancelFunc
	// the token server's side: the call's last token request was answered with a redirect
	inChain bool
	redirN  int // redirects handed out in the current chain
}

// callCell is what the request context carries (under callKey): the id of the call the request
// belongs to at the moment; a request that is sent a second time belongs to a new call.
type callCell struct{ id int }

type world struct {
	in      *CaseIn
	mu      sync.Mutex
	evs     []Ev
	t0      time.Time
	msgN    int
	tokN    int
	lifeN   map[string]int
	issued  map[string]*issue
	refresh map[string]bool
	threads map[int]*thr
	cond    *sync.Cond // on mu: a phase ended / a gate opened
	turn    *thr       // the late-observed call whose phase is being recorded
	// the configuration gate (Step.HoldCfg): a stand-in "holder" that the calls launched while
	// the gate is closed are observed behind, the host whose lookups wait, and what they wait on
	cfg     *thr
	cfgHost string
	cfgCh   chan struct{}
	cfgN    int // lookups that had to wait
	quiet   bool
	inFake  map[int]bool
	touched bool
	hung    bool
	realms  map[string]bool
	alias   map[string]*RealmCfg // redirect targets: base URL -> the realm whose server redirected there
}

func (w *world) log(e Ev) {
	w.admit(e.ID)
	w.mu.Lock()
	defer w.mu.Unlock()
	if w.quiet {
		return
	}
	e.T = time.Since(w.t0).Microseconds()
	w.evs = append(w.evs, e)
}

func (w *world) nowUs() int64 {
	if us := time.Since(w.t0).Microseconds(); us > 0 {
		return us
	}
	return 1
}

// admit is called at every observable action of call id. For a call launched while another
// call was held at the token server it waits until the held phase is over (that call is parked
// at the registry or has returned) and no other such call is being recorded, then logs the
// call's marker; the recording turn is given up when the call parks or returns.
func (w *world) admit(id int) {
	w.mu.Lock()
	defer w.mu.Unlock()
	t := w.threads[id]
	if t == nil || t.pending == nil {
		return
	}
	if t.arrT == 0 {
		t.arrT = w.nowUs()
	}
	over := func(a *thr) bool { return !a.tokParked && (a.parked || a.done) }
	for !w.quiet && !(over(t.behind) && (w.turn == nil || w.turn == t)) {
		w.cond.Wait()
	}
	if t.pending == nil {
		return
	}
	e := *t.pending
	t.pending = nil
	if w.quiet {
		return
	}
	w.turn = t
	e.T = w.nowUs()
	e.W = t.launchT
	if t.behind.relT != 0 && t.arrT >= t.behind.relT {
		e.W = t.behind.relT
	}
	w.evs = append(w.evs, e)
}

// phaseEnd: call t has parked at the registry or returned (w.mu held).
func (w *world) phaseEnd(t *thr) {
	t.hold = false
	if w.turn == t {
		w.turn = nil
	}
	w.cond.Broadcast()
}

// holder is the call held at the token server, if any (w.mu held).
func (w *world) holder() *thr {
	if w.cfg != nil && w.cfg.tokParked {
		return w.cfg
	}
	for _, t := range w.threads {
		if t.tokParked {
			return t
		}
	}
	return nil
}

type reqBody struct {
	w    *world
	id   int
	orig bool // the body the caller supplied (else: one returned by GetBody)
	r    *strings.Reader
}

func (b *reqBody) Read(p []byte) (int, error) { return b.r.Read(p) }

// Close: a close by the transport itself is an observation, of the caller's body and of every
// copy GetBody returned alike (the fake network closes what it is handed: that is the hand-over,
// seen as the attempt).
func (b *reqBody) Close() error {
	b.w.mu.Lock()
	inFake := b.w.inFake[b.id] // the fake network is consuming this call's body: the close is the network's
	b.w.mu.Unlock()
	if !inFake {
		b.w.log(Ev{Kind: "selfclose", ID: b.id})
	}
	return nil
}

type respBody struct {
	w       *world
	id      int
	harness bool
	r       io.Reader
}

func (b *respBody) Read(p []byte) (int, error) { return b.r.Read(p) }
func (b *respBody) Close() error {
	if !b.harness {
		b.w.log(Ev{Kind: "respclose", ID: b.id})
	}
	return nil
}

type errReader struct{}

func (errReader) Read([]byte) (int, error) { return 0, errors.New("fake: body read error") }

func decodeAuthz(h http.Header) Authz {
	vs, ok := h["Authorization"]
	if !ok || len(vs) == 0 {
		return Authz{Kind: "none"}
	}
	v := vs[0]
	if strings.HasPrefix(v, "Bearer ") {
		return Authz{Kind: "bearer", A: v[len("Bearer "):]}
	}
	if strings.HasPrefix(v, "Basic ") {
		if raw, err := base64.StdEncoding.DecodeString(v[len("Basic "):]); err == nil {
			if u, p, ok := strings.Cut(string(raw), ":"); ok {
				return Authz{Kind: "basic", A: u, B: p}
			}
		}
	}
	return Authz{Kind: "other", A: v}
}

func sortedValues(v url.Values) []KV {
	keys := make([]string, 0, len(v))
	for k := range v {
		keys = append(keys, k)
	}
	sort.Strings(keys)
	out := make([]KV, 0, len(keys))
	for _, k := range keys {
		out = append(out, KV{k, append([]string{}, v[k]...)})
	}
	return out
}

// SplitURL is the oracle for url.Parse on a realm: the URL without its query, and the query.
func SplitURL(realm string) (base string, q []KV, ok bool) {
	u, err := url.Parse(realm)
	if err != nil {
		return "", nil, false
	}
	vals := u.Query()
	u2 := *u
	u2.RawQuery = ""
	u2.ForceQuery = false
	return u2.String(), sortedValues(vals), true
}

func (w *world) host(name string) *HostCfg {
	for i := range w.in.Hosts {
		if w.in.Hosts[i].Host == name {
			return &w.in.Hosts[i]
		}
	}
	return nil
}

func (w *world) fault() (Fault, bool) {
	f, ok := w.in.Faults[strconv.Itoa(w.msgN)]
	return f, ok
}

func (w *world) noteRealms(www []string) {
	for _, h := range www {
		recoverCall(func() {
			if _, params, ok := ociauth.ParseWWWAuthenticateForVerif(h); ok {
				if r, ok := params["realm"]; ok {
					w.realms[r] = true
				}
			}
		})
	}
}

// the registry's answer
func (w *world) regRespond(host string, a Authz, need, chal string) Resp {
	if f, ok := w.fault(); ok {
		switch f.Kind {
		case "fail":
			return Resp{Fail: true}
		case "status":
			return Resp{Status: f.Status, WWW: f.WWW}
		}
	}
	h := w.host(host)
	if h == nil {
		return Resp{Status: 404}
	}
	challenge := func() Resp {
		var www []string
		for _, c := range h.Challenge {
			www = append(www, strings.ReplaceAll(c, "%S", chal))
		}
		return Resp{Status: 401, WWW: www}
	}
	switch h.Mode {
	case "open":
		return Resp{Status: 200}
	case "deny":
		return challenge()
	case "basic":
		if a.Kind == "basic" && a.A == h.User && a.B == h.Pass && h.User != "" {
			return Resp{Status: 200}
		}
		return challenge()
	default: // bearer
		if a.Kind == "bearer" {
			if h.Access != "" && a.A == h.Access {
				return Resp{Status: 200}
			}
			if is := w.issued[a.A]; is != nil && time.Now().Before(is.expires) &&
				ociauth.ParseScope(is.scope).Contains(ociauth.ParseScope(need)) {
				return Resp{Status: 200}
			}
		}
		return challenge()
	}
}

// the token server's answer
func (w *world) tokRespond(m *Msg) Resp {
	if f, ok := w.fault(); ok {
		switch f.Kind {
		case "fail":
			return Resp{Fail: true}
		case "status":
			return Resp{Status: f.Status, WWW: f.WWW}
		case "badjson":
			return Resp{Status: 200, Body: "badjson"}
		case "readerr":
			return Resp{Status: 200, Body: "readerr"}
		}
	}
	base := m.Base
	if m.Kind == "post" {
		base, _, _ = SplitURL(m.Realm)
	}
	rc := w.realmAt(base)
	if rc == nil {
		return Resp{Status: 404}
	}
	var scope string
	credOK := false
	if m.Kind == "post" {
		switch rc.Post {
		case "404":
			return Resp{Status: 404}
		case "500":
			return Resp{Status: 500}
		case "401":
			return Resp{Status: 401}
		}
		for _, kv := range m.Form {
			switch kv[0] {
			case "scope":
				scope = kv[1]
			case "refresh_token":
				credOK = w.refresh[kv[1]]
			}
		}
	} else {
		for _, kv := range m.Query {
			if kv.K == "scope" {
				scope = strings.Join(kv.V, " ")
			}
		}
		if m.Auth.Kind == "basic" {
			for _, h := range w.in.Hosts {
				if h.User == m.Auth.A && h.Pass == m.Auth.B {
					credOK = true
				}
			}
		}
	}
	if rc.CheckCreds && !credOK {
		return Resp{Status: 401}
	}
	if rc.Allowed != "" && !ociauth.ParseScope(rc.Allowed).Contains(ociauth.ParseScope(scope)) {
		return Resp{Status: 401}
	}
	life := 0
	if len(rc.Lifetimes) > 0 {
		life = rc.Lifetimes[w.lifeN[rc.URL]%len(rc.Lifetimes)]
		w.lifeN[rc.URL]++
	}
	w.tokN++
	tok := fmt.Sprintf("tok%d", w.tokN)
	if rc.SameToken {
		tok = "tok-same"
	}
	r := Resp{Status: 200, Body: "json", ExpiresIn: life}
	switch rc.Field {
	case "token":
		r.Token = tok
	case "access":
		r.Access = tok
	case "both":
		r.Token = tok
		r.Access = tok + "-alt"
	}
	if rc.GiveRefresh {
		r.Refresh = fmt.Sprintf("refresh%d", w.tokN)
		w.refresh[r.Refresh] = true
	}
	if r.Token != "" || r.Access != "" {
		d := time.Duration(life) * time.Second
		if life == 0 {
			d = 60 * time.Second
		}
		w.issued[tok] = &issue{scope: scope, expires: time.Now().Add(d)}
	}
	return r
}

// realmAt: the realm configuration that governs the token server at base URL base (the realm
// itself, or a place its server has redirected to).
func (w *world) realmAt(base string) *RealmCfg {
	var rc *RealmCfg
	for i := range w.in.Realms {
		if b, _, ok := SplitURL(w.in.Realms[i].URL); ok && b == base {
			rc = &w.in.Realms[i]
		}
	}
	if rc == nil {
		rc = w.alias[base]
	}
	return rc
}

// redirectTarget builds the Location header for the k-th redirect of a chain.
func redirectTarget(rd *Redirect, k int, realm *url.URL, req *http.Request) (loc string, has bool) {
	if len(rd.To) == 0 {
		return "", false
	}
	hostname := realm.Hostname()
	withQuery := func(u string) string {
		if req.URL.RawQuery != "" {
			return u + "?" + req.URL.RawQuery
		}
		return u
	}
	n := strconv.Itoa(k)
	switch rd.To[k%len(rd.To)] {
	case "path":
		return withQuery(realm.Scheme + "://" + realm.Host + "/moved" + n + realm.Path), true
	case "relative":
		return withQuery("/rel" + n + realm.Path), true
	case "port":
		return withQuery(realm.Scheme + "://" + hostname + ":84" + strconv.Itoa(43+k%50) + realm.Path), true
	case "sub":
		return withQuery(realm.Scheme + "://login" + n + "." + realm.Host + realm.Path), true
	case "other":
		return withQuery(realm.Scheme + "://tokens" + n + ".elsewhere.example/issue"), true
	case "lookalike":
		return withQuery(realm.Scheme + "://not" + realm.Host + realm.Path), true
	case "back":
		return withQuery(realm.Scheme + "://" + realm.Host + "/back" + n + realm.Path), true
	case "bad":
		return "http://[::1", true
	}
	return "", false // none
}

// tokAnswer: what the token server at the request's URL says: a redirect when the realm is set
// up that way and the chain has not reached its end, else the answer proper.
func (w *world) tokAnswer(m *Msg, req *http.Request, t *thr) Resp {
	endChain := func() {
		if t != nil {
			t.inChain, t.redirN = false, 0
		}
	}
	if _, ok := w.fault(); ok || t == nil {
		endChain()
		return w.tokRespond(m)
	}
	base := m.Base
	if m.Kind == "post" {
		base, _, _ = SplitURL(m.Realm)
	}
	rc := w.realmAt(base)
	if rc == nil || rc.Redirect == nil || t.redirN >= rc.Redirect.Hops ||
		(rc.Redirect.On != "" && rc.Redirect.On != m.Kind) {
		endChain()
		return w.tokRespond(m)
	}
	realm, err := url.Parse(rc.URL)
	if err != nil {
		endChain()
		return w.tokRespond(m)
	}
	r := Resp{Status: rc.Redirect.Status}
	raw, has := redirectTarget(rc.Redirect, t.redirN, realm, req)
	if !has {
		endChain() // a 3xx without Location is handed to the caller as it is
		return r
	}
	r.Loc = &Loc{Raw: raw}
	u, err := req.URL.Parse(raw)
	if err != nil {
		r.Loc.Bad = true
		endChain()
		return r
	}
	r.Loc.URL, r.Loc.Host, r.Loc.HostPort = u.String(), u.Hostname(), u.Host
	r.Loc.Base, r.Loc.Query, _ = SplitURL(u.String())
	w.alias[r.Loc.Base] = rc
	t.inChain = true
	t.redirN++
	return r
}

func (w *world) httpResponse(req *http.Request, id int, r Resp) (*http.Response, error) {
	if r.Fail {
		return nil, errors.New("fake: transport failure")
	}
	hdr := http.Header{}
	for _, v := range r.WWW {
		hdr.Add("Www-Authenticate", v)
	}
	if r.Loc != nil {
		hdr.Set("Location", r.Loc.Raw)
	}
	var rd io.Reader = strings.NewReader("")
	switch r.Body {
	case "readerr":
		rd = errReader{}
	case "badjson":
		rd = strings.NewReader("{\"token\": ")
	case "json":
		m := map[string]any{}
		if r.Token != "" {
			m["token"] = r.Token
		}
		if r.Access != "" {
			m["access_token"] = r.Access
		}
		if r.Refresh != "" {
			m["refresh_token"] = r.Refresh
		}
		if r.ExpiresIn != 0 {
			m["expires_in"] = r.ExpiresIn
		}
		data, _ := json.Marshal(m)
		rd = strings.NewReader(string(data))
	}
	return &http.Response{
		Status:        strconv.Itoa(r.Status) + " " + http.StatusText(r.Status),
		StatusCode:    r.Status,
		Proto:         "HTTP/1.1",
		ProtoMajor:    1,
		ProtoMinor:    1,
		Header:        hdr,
		Body:          &respBody{w: w, id: id, r: rd, harness: req.Header.Get("X-Verif-Call") == ""},
		ContentLength: -1,
		Request:       req,
	}, nil
}

// RoundTrip is the fake network.
func (w *world) RoundTrip(req *http.Request) (*http.Response, error) {
	if idStr := req.Header.Get("X-Verif-Call"); idStr != "" {
		id, _ := strconv.Atoi(idStr)
		w.admit(id)
		if req.Body != nil {
			// (per call, not per world: other calls may be closing bodies of their own meanwhile)
			w.mu.Lock()
			w.inFake[id] = true
			w.mu.Unlock()
			io.Copy(io.Discard, req.Body)
			req.Body.Close()
			w.mu.Lock()
			delete(w.inFake, id)
			w.mu.Unlock()
		}
		m := &Msg{Kind: "reg", Host: req.URL.Host, Auth: decodeAuthz(req.Header)}
		w.mu.Lock()
		var r Resp
		if req.Context().Err() != nil {
			// the caller has given up (context cancelled / past its deadline): a transport fails
			// such a request (having closed its body)
			r = Resp{Fail: true}
		} else {
			r = w.regRespond(req.URL.Host, m.Auth, req.Header.Get("X-Verif-Need"), req.Header.Get("X-Verif-Chal"))
		}
		w.noteRealms(r.WWW)
		w.msgN++
		t := w.threads[id]
		if t != nil {
			t.inChain, t.redirN = false, 0
		}
		w.mu.Unlock()
		w.log(Ev{Kind: "send", ID: id, Msg: m, Resp: &r})
		if t != nil {
			w.mu.Lock()
			quiet := w.quiet
			t.parked = true
			w.phaseEnd(t)
			w.mu.Unlock()
			if !quiet {
				t.sig <- struct{}{}
				<-t.gate
			}
		}
		return w.httpResponse(req, id, r)
	}
	id := 0
	if cell, ok := req.Context().Value(callKey{}).(*callCell); ok {
		id = cell.id
	}
	w.admit(id)
	m := &Msg{Auth: decodeAuthz(req.Header), HostName: req.URL.Hostname(), HostPort: req.URL.Host}
	if req.Method == "POST" {
		m.Kind = "post"
		m.Realm = req.URL.String()
		var data []byte
		if req.Body != nil {
			data, _ = io.ReadAll(req.Body)
			req.Body.Close()
		}
		vals, _ := url.ParseQuery(string(data))
		for _, kv := range sortedValues(vals) {
			for _, v := range kv.V {
				m.Form = append(m.Form, [2]string{kv.K, v})
			}
		}
	} else {
		m.Kind = "get"
		u := *req.URL
		u.RawQuery = ""
		u.ForceQuery = false
		m.Base = u.String()
		m.Query = sortedValues(req.URL.Query())
	}
	w.mu.Lock()
	if t := w.threads[id]; t != nil && t.hold && !w.quiet {
		// the token server takes its time: the answer (and the token's life) starts at the release
		t.hold = false
		t.tokParked = true
		w.mu.Unlock()
		t.sig <- struct{}{}
		<-t.tokGate
		w.mu.Lock()
	}
	t := w.threads[id]
	kind := "send"
	if t != nil && t.inChain {
		kind = "hop" // the client follows the redirect its previous token request was answered with
	}
	var r Resp
	if req.Context().Err() != nil {
		r = Resp{Fail: true} // the caller has given up: see above
		if t != nil {
			t.inChain, t.redirN = false, 0
		}
	} else {
		r = w.tokAnswer(m, req, t)
	}
	w.msgN++
	w.mu.Unlock()
	w.log(Ev{Kind: kind, ID: id, Msg: m, Resp: &r})
	return w.httpResponse(req, id, r)
}

type configFunc func(host string) (ociauth.ConfigEntry, error)

func (f configFunc) EntryForRegistry(host string) (ociauth.ConfigEntry, error) { return f(host) }

func bodyFor(w *world, id int, kind string, req *http.Request) {
	mk := func(orig bool) *reqBody { return &reqBody{w: w, id: id, orig: orig, r: strings.NewReader("payload")} }
	req.Body, req.GetBody = nil, nil
	switch kind {
	case "plain":
		req.Body = mk(true)
	case "get":
		req.Body = mk(true)
		req.GetBody = func() (io.ReadCloser, error) {
			w.log(Ev{Kind: "getbody", ID: id})
			return mk(false), nil
		}
	case "getfail":
		req.Body = mk(true)
		req.GetBody = func() (io.ReadCloser, error) {
			w.log(Ev{Kind: "getbody", ID: id})
			return nil, errors.New("fake: GetBody failure")
		}
	}
}

// sameCaller: rq describes the same request as old (everything the caller fixes when it builds
// the request and its context).
func sameCaller(rq, old *Req) bool {
	return rq.Host == old.Host && rq.Auth == old.Auth && rq.HostHdr == old.HostHdr && rq.Cancel == old.Cancel &&
		rq.ReqExplicit == old.ReqExplicit && rq.WantExplicit == old.WantExplicit &&
		reflect.DeepEqual(rq.Required, old.Required) && reflect.DeepEqual(rq.Want, old.Want) &&
		reflect.DeepEqual(rq.Outer, old.Outer)
}

// buildRequest is the caller: it builds the call's request and context, or takes up a request
// (or a header map) it has used before.
func (w *world) buildRequest(t *thr, rq *Req) (*http.Request, context.Context) {
	var old *thr
	if rq.Reuse != "" {
		w.mu.Lock()
		if o := w.threads[rq.Of]; o != nil && o != t && o.done && o.req != nil && o.rq != nil {
			switch {
			case rq.Reuse == "req" && sameCaller(rq, o.rq):
				old = o
			case rq.Reuse == "hdr" && rq.Auth == o.rq.Auth:
				old = o
			}
		}
		w.mu.Unlock()
	}
	var req *http.Request
	cell := &callCell{id: t.id}
	cancel := context.CancelFunc(nil)
	if old != nil && rq.Reuse == "req" {
		// the very same request once more
		req, cell, cancel = old.req, old.cell, old.cancel
		cell.id = t.id
	} else {
		ctx := context.WithValue(context.Background(), callKey{}, cell)
		for _, l := range rq.Outer {
			switch l.Kind {
			case "info":
				ctx = ociauth.ContextWithRequestInfo(ctx, ociauth.RequestInfo{RequiredScope: l.Scope.Scope()})
			case "scope":
				ctx = ociauth.ContextWithScope(ctx, l.Scope.Scope())
			}
		}
		if rq.Required.Kind != "zero" || rq.ReqExplicit {
			ctx = ociauth.ContextWithRequestInfo(ctx, ociauth.RequestInfo{RequiredScope: rq.Required.Scope()})
		}
		if rq.Want.Kind != "zero" || rq.WantExplicit {
			ctx = ociauth.ContextWithScope(ctx, rq.Want.Scope())
		}
		switch rq.Cancel {
		case "deadline":
			ctx, cancel = context.WithDeadline(ctx, time.Now().Add(-time.Second))
		case "pre":
			ctx, cancel = context.WithCancel(ctx)
			cancel()
		default:
			ctx, cancel = context.WithCancel(ctx)
		}
		req, _ = http.NewRequestWithContext(ctx, "GET", "https://"+rq.Host+"/v2/x", nil)
		if old != nil {
			req.Header = old.req.Header // one header map, several requests
		} else if rq.Auth != "" {
			req.Header.Set("Authorization", rq.Auth)
		}
		switch rq.HostHdr {
		case "":
		case "-":
			req.Host = ""
		default:
			req.Host = rq.HostHdr
		}
	}
	req.Header.Set("X-Verif-Call", strconv.Itoa(t.id))
	req.Header.Set("X-Verif-Need", rq.Need)
	req.Header.Set("X-Verif-Chal", rq.Chal)
	w.mu.Lock()
	t.req, t.rq, t.cell, t.cancel = req, rq, cell, cancel
	w.mu.Unlock()
	return req, req.Context()
}

func (w *world) call(tr http.RoundTripper, t *thr, rq *Req) {
	req, ctx := w.buildRequest(t, rq)
	bodyFor(w, t.id, rq.Body, req)
	beforeHdr := req.Header.Clone()
	beforeHost := req.Host
	beforeURL := req.URL.String()
	beforeBody := req.Body
	beforeGet := req.GetBody != nil
	var res Result
	var resp *http.Response
	var err error
	panicked, pv := recoverCall(func() { resp, err = tr.RoundTrip(req) })
	switch {
	case panicked:
		res = Result{Err: true, Panic: pv}
	case err != nil:
		res = Result{Err: true}
		var he ociregistry.HTTPError
		if errors.As(err, &he) {
			res.HTTP = he.StatusCode()
		}
	default:
		res = Result{Status: resp.StatusCode}
		if rb, ok := resp.Body.(*respBody); ok {
			rb.harness = true
		}
		data, _ := io.ReadAll(resp.Body)
		resp.Body.Close()
		res.Denied = strings.Contains(string(data), "DENIED")
	}
	if !reflect.DeepEqual(beforeHdr, req.Header) || beforeURL != req.URL.String() || beforeHost != req.Host ||
		beforeBody != req.Body || beforeGet != (req.GetBody != nil) || req.Context() != ctx {
		w.mu.Lock()
		w.touched = true
		w.mu.Unlock()
	}
	w.log(Ev{Kind: "return", ID: t.id, Res: &res})
	w.mu.Lock()
	t.done = true
	t.parked = false
	t.inChain, t.redirN = false, 0
	w.phaseEnd(t)
	w.mu.Unlock()
	t.sig <- struct{}{}
}

// launchGrace is how long the harness lets a call that is not waited for run on its own before
// the next step (it reaches its host's lock, or its first round trip, well within this).
const launchGrace = 30 * time.Millisecond

func recoverCall(f func()) (panicked bool, val string) {
	defer func() {
		if r := recover(); r != nil {
			panicked = true
			val = fmt.Sprint(r)
		}
	}()
	f()
	return
}

func (w *world) wait(t *thr) {
	select {
	case <-t.sig:
	case <-time.After(20 * time.Second):
		w.mu.Lock()
		w.hung = true
		w.mu.Unlock()
	}
}

// Run plays the case against a fresh transport.
func Run(in *CaseIn) *Observed {
	w := &world{in: in, t0: time.Now(), lifeN: map[string]int{}, issued: map[string]*issue{},
		refresh: map[string]bool{}, threads: map[int]*thr{}, realms: map[string]bool{}, alias: map[string]*RealmCfg{}, inFake: map[int]bool{}}
	w.cond = sync.NewCond(&w.mu)
	for _, h := range in.Hosts {
		if h.Refresh != "" {
			w.refresh[h.Refresh] = true
		}
	}
	tr := ociauth.NewStdTransport(ociauth.StdTransportParams{
		Config: configFunc(func(host string) (ociauth.ConfigEntry, error) {
			w.mu.Lock()
			var gate chan struct{}
			if w.cfg != nil && w.cfg.tokParked && host == w.cfgHost && !w.quiet {
				gate = w.cfgCh
				w.cfgN++
			}
			w.mu.Unlock()
			if gate != nil {
				<-gate // a slow lookup (a credential helper, say)
			}
			h := w.host(host)
			if h == nil {
				return ociauth.ConfigEntry{}, nil
			}
			if h.CfgErr {
				return ociauth.ConfigEntry{}, errors.New("fake: config lookup failure")
			}
			return ociauth.ConfigEntry{RefreshToken: h.Refresh, AccessToken: h.Access, Username: h.User, Password: h.Pass}, nil
		}),
		Transport: w,
	})
	for _, st := range in.Steps {
		if w.hung {
			break
		}
		switch st.Op {
		case "sleep":
			time.Sleep(time.Duration(st.Ms) * time.Millisecond)
		case "cancel":
			// the caller gives up on call ID (wherever that call is: parked at the registry, waiting
			// at a slow token server, queueing): from now on the network fails its requests
			w.mu.Lock()
			var cancel context.CancelFunc
			if t := w.threads[st.ID]; t != nil && !t.done {
				cancel = t.cancel
			}
			w.mu.Unlock()
			if cancel != nil {
				cancel()
			}
		case "start":
			if w.threads[st.ID] != nil || st.Req == nil {
				continue
			}
			t := &thr{id: st.ID, gate: make(chan struct{}), sig: make(chan struct{}, 2), tokGate: make(chan struct{})}
			w.mu.Lock()
			if st.HoldCfg && w.holder() == nil {
				// the gate closes; this call and the ones that follow are observed behind it
				w.cfg = &thr{id: -1, done: true, tokParked: true}
				w.cfgHost, w.cfgCh = st.Req.Host, make(chan struct{})
			}
			h := w.holder()
			if h != nil {
				// launched while h is held at the token server: observed later (see admit)
				t.behind, t.launchT = h, w.nowUs()
				t.pending = &Ev{Kind: "start", ID: st.ID, Req: st.Req}
				h.followers = append(h.followers, t)
			} else {
				t.hold = st.Hold
			}
			w.threads[st.ID] = t
			w.mu.Unlock()
			if h != nil {
				go w.call(tr, t, st.Req)
				time.Sleep(launchGrace)
				continue
			}
			w.log(Ev{Kind: "start", ID: st.ID, Req: st.Req})
			go w.call(tr, t, st.Req)
			w.wait(t)
		case "resume":
			w.mu.Lock()
			t := w.threads[st.ID]
			ok := t != nil && t.parked && !t.done
			var h *thr
			if ok {
				t.parked = false
				if h = w.holder(); h != nil {
					t.behind, t.launchT = h, w.nowUs()
					t.arrT = 0
					t.pending = &Ev{Kind: "resume", ID: st.ID}
					h.followers = append(h.followers, t)
				} else {
					t.hold = st.Hold
				}
			}
			w.mu.Unlock()
			if !ok {
				continue
			}
			if h != nil {
				t.gate <- struct{}{}
				time.Sleep(launchGrace)
				continue
			}
			w.log(Ev{Kind: "resume", ID: st.ID})
			t.gate <- struct{}{}
			w.wait(t)
		case "cfgrelease":
			w.mu.Lock()
			g := w.cfg
			ok := g != nil && g.tokParked
			var fs []*thr
			if ok {
				g.tokParked = false
				g.relT = w.nowUs()
				fs, g.followers = g.followers, nil
				close(w.cfgCh)
				w.cfg = nil
				w.cond.Broadcast()
			}
			w.mu.Unlock()
			for _, f := range fs {
				if !w.hung {
					w.wait(f)
				}
			}
		case "release":
			w.mu.Lock()
			t := w.threads[st.ID]
			ok := t != nil && t.tokParked
			var fs []*thr
			if ok {
				t.tokParked = false
				t.relT = w.nowUs()
				fs, t.followers = t.followers, nil
			}
			w.mu.Unlock()
			if !ok {
				continue
			}
			t.tokGate <- struct{}{}
			w.wait(t)
			for _, f := range fs {
				if !w.hung {
					w.wait(f)
				}
			}
		}
	}
	// let whatever is still in flight finish, unobserved
	w.mu.Lock()
	w.quiet = true
	if w.cfg != nil && w.cfg.tokParked {
		w.cfg.tokParked = false
		close(w.cfgCh)
		w.cfg = nil
	}
	w.cond.Broadcast()
	var parked, held []*thr
	for _, t := range w.threads {
		if t.parked && !t.done {
			parked = append(parked, t)
		}
		if t.tokParked {
			t.tokParked = false
			held = append(held, t)
		}
	}
	w.mu.Unlock()
	for _, t := range held {
		select {
		case t.tokGate <- struct{}{}:
		case <-time.After(2 * time.Second):
		}
	}
	for _, t := range parked {
		select {
		case t.gate <- struct{}{}:
		case <-time.After(2 * time.Second):
		}
	}
	for _, t := range parked {
		for i := 0; i < 2; i++ {
			w.mu.Lock()
			done := t.done
			w.mu.Unlock()
			if done {
				break
			}
			select {
			case <-t.sig:
			case <-time.After(2 * time.Second):
			}
		}
	}
	w.mu.Lock()
	defer w.mu.Unlock()
	obs := &Observed{Events: w.evs, Untouched: !w.touched, Hung: w.hung, CfgWaited: w.cfgN}
	for r := range w.realms {
		obs.Realms = append(obs.Realms, r)
	}
	sort.Strings(obs.Realms)
	obs.Ambiguous = ambiguous(in, w.evs)
	return obs
}

// ambiguous reports whether some expiry comparison the transport may have made falls within
// 50 ms of its boundary: every call start against every token issued earlier to a call on the
// same host.
func ambiguous(in *CaseIn, evs []Ev) bool {
	hostOf := map[int]string{}
	type iss struct {
		host string
		exp  int64
		life int64
	}
	var issues []iss
	for _, e := range evs {
		switch e.Kind {
		case "start":
			hostOf[e.ID] = e.Req.Host
			for _, is := range issues {
				if is.host != e.Req.Host {
					continue
				}
				// the clock was read between lo and e.T (lo = e.T unless the call ran while
				// another was held at the token server)
				lo := e.T
				if e.W != 0 && e.W < lo {
					lo = e.W
				}
				// a one-second token is expired at every later start whatever the clock says
				if lo+1_000_000-is.exp < 50_000 && is.exp-(e.T+1_000_000) < 50_000 && is.life != 1 {
					return true
				}
			}
		case "send", "hop":
			if e.Msg.Kind != "reg" && e.Resp != nil && !e.Resp.Fail && e.Resp.Status == 200 && e.Resp.Body == "json" &&
				(e.Resp.Token != "" || e.Resp.Access != "") {
				life := int64(e.Resp.ExpiresIn)
				if life == 0 {
					life = 60
				}
				issues = append(issues, iss{hostOf[e.ID], e.T + life*1_000_000, life})
			}
		}
	}
	return false
}
