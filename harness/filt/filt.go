// Package filt holds what the harnesses of the ocifilter properties (C12, C13) share: a
// JSON-able form of the operations and results of ociregistry.Interface (the Iface.v
// vocabulary), their Coq printers, a recording backend built on ociregistry.Funcs with
// every field set, and an invoker that performs an operation on any Interface value and
// reports what the caller sees.
package filt

import (
	"context"
	"encoding/hex"
	"encoding/json"
	"errors"
	"fmt"
	"io"
	"strings"

	"cuelabs.dev/go/oci/ociregistry"
	"cuelabs.dev/go/oci/ociregistry/ociauth"
	"cuelabs.dev/go/oci/ociregistry/ocimem"

	"verif/harness/hx"
)

// S is a byte string that survives JSON: printable ASCII is written as is, anything else
// as "hex:<hex>".
type S string

func (s S) MarshalJSON() ([]byte, error) {
	plain := !strings.HasPrefix(string(s), "hex:")
	for i := 0; i < len(s) && plain; i++ {
		if s[i] < 0x20 || s[i] > 0x7e {
			plain = false
		}
	}
	if plain {
		return json.Marshal(string(s))
	}
	return json.Marshal("hex:" + hex.EncodeToString([]byte(s)))
}

func (s *S) UnmarshalJSON(b []byte) error {
	var t string
	if err := json.Unmarshal(b, &t); err != nil {
		return err
	}
	if strings.HasPrefix(t, "hex:") {
		d, err := hex.DecodeString(t[4:])
		if err != nil {
			return err
		}
		*s = S(d)
		return nil
	}
	*s = S(t)
	return nil
}

func SS(xs []string) []S {
	out := make([]S, len(xs))
	for i, x := range xs {
		out[i] = S(x)
	}
	return out
}

func B(s S) string { return hx.B(string(s)) }

func Bs(ss []S) string {
	out := make([]string, len(ss))
	for i, s := range ss {
		out[i] = B(s)
	}
	return hx.List(out)
}

// ---- descriptors, errors ----

type Desc struct {
	Media    S     `json:"media,omitempty"`
	Digest   S     `json:"digest,omitempty"`
	Size     int64 `json:"size,omitempty"`
	Artifact S     `json:"artifact,omitempty"`
}

func DescOf(d ociregistry.Descriptor) Desc {
	return Desc{S(d.MediaType), S(d.Digest), d.Size, S(d.ArtifactType)}
}

func (d Desc) Go() ociregistry.Descriptor {
	return ociregistry.Descriptor{MediaType: string(d.Media), Digest: ociregistry.Digest(d.Digest), Size: d.Size, ArtifactType: string(d.Artifact)}
}

func (d Desc) Coq() string {
	return fmt.Sprintf("{| d_media := %s; d_digest := %s; d_size := %s; d_artifact := %s |}", B(d.Media), B(d.Digest), hx.Z(d.Size), B(d.Artifact))
}

// Err is an error value as the model sees it: OCI code ("" = none) and an opaque tag that
// identifies the error object.
type Err struct {
	Code string `json:"code,omitempty"`
	Tag  S      `json:"tag"`
}

var codes = map[string]bool{"BLOB_UNKNOWN": true, "BLOB_UPLOAD_INVALID": true, "BLOB_UPLOAD_UNKNOWN": true, "DIGEST_INVALID": true,
	"MANIFEST_BLOB_UNKNOWN": true, "MANIFEST_INVALID": true, "MANIFEST_UNKNOWN": true, "NAME_INVALID": true, "NAME_UNKNOWN": true,
	"SIZE_INVALID": true, "UNAUTHORIZED": true, "DENIED": true, "UNSUPPORTED": true, "TOOMANYREQUESTS": true, "RANGE_INVALID": true}

func (e Err) Coq() string {
	c := "ENone"
	switch {
	case codes[e.Code]:
		c = e.Code
	case e.Code != "":
		c = "(ECustom " + hx.B(e.Code) + ")"
	}
	return fmt.Sprintf("(E %s %s)", c, B(e.Tag))
}

func OptErr(e *Err) string {
	if e == nil {
		return "None"
	}
	return "(Some " + e.Coq() + ")"
}

// TagErr is the error type of every error the harness itself creates (policy and backend
// errors); the pointer is the identity.
type TagErr struct {
	Code_ string
	Tag   string
}

func (e *TagErr) Error() string { return "tagged error " + e.Code_ + " " + e.Tag }

// ErrOf classifies an error met by a caller.
func ErrOf(err error) *Err {
	if err == nil {
		return nil
	}
	if te, ok := err.(*TagErr); ok {
		return &Err{te.Code_, S(te.Tag)}
	}
	if err == ociregistry.ErrDenied {
		return &Err{"DENIED", "ErrDenied"}
	}
	if err == ociregistry.ErrNameUnknown {
		return &Err{"NAME_UNKNOWN", "ErrNameUnknown"}
	}
	var te *TagErr
	if errors.As(err, &te) {
		return &Err{te.Code_, S("wrapped:" + te.Tag)}
	}
	suffix := ": " + ociregistry.ErrUnsupported.Error()
	if errors.Is(err, ociregistry.ErrUnsupported) && strings.HasSuffix(err.Error(), suffix) {
		return &Err{"UNSUPPORTED", S(strings.TrimSuffix(err.Error(), suffix))}
	}
	var oe ociregistry.Error
	if errors.As(err, &oe) {
		return &Err{oe.Code(), S("msg:" + err.Error())}
	}
	return &Err{"", S("msg:" + err.Error())}
}

func (e *Err) Go() error {
	if e == nil {
		return nil
	}
	return &TagErr{e.Code, string(e.Tag)}
}

// ---- operations ----

var Methods = []string{"GetBlob", "GetBlobRange", "GetManifest", "GetTag", "ResolveBlob", "ResolveManifest", "ResolveTag",
	"PushBlob", "PushBlobChunked", "PushBlobChunkedResume", "MountBlob", "PushManifest",
	"DeleteBlob", "DeleteManifest", "DeleteTag", "Repositories", "Tags", "Referrers"}

var WriterOps = []string{"WWrite", "WClose", "WSize", "WChunkSize", "WID", "WCommit", "WCancel"}

// Op is one operation of Iface.v's [op] type. Repo is the (first) repository, Repo2 the
// target of a mount; the other fields are used as the operation needs them.
type Op struct {
	M       string `json:"m"`
	Repo    S      `json:"repo,omitempty"`
	Repo2   S      `json:"repo2,omitempty"`
	Digest  S      `json:"digest,omitempty"`
	Tag     S      `json:"tag,omitempty"`
	ID      S      `json:"id,omitempty"`
	Start   S      `json:"start,omitempty"`
	Art     S      `json:"art,omitempty"`
	Media   S      `json:"media,omitempty"`
	Content S      `json:"content,omitempty"`
	O0      int64  `json:"o0,omitempty"`
	O1      int64  `json:"o1,omitempty"`
	Off     int64  `json:"off,omitempty"`
	Hint    int64  `json:"hint,omitempty"`
	Desc    *Desc  `json:"desc,omitempty"`
	W       int    `json:"w,omitempty"`
	Data    S      `json:"data,omitempty"`
}

func (o Op) IsWriterOp() bool { return strings.HasPrefix(o.M, "W") }

// Repos lists the repository arguments (Iface.op_repos).
func (o Op) Repos() []S {
	switch {
	case o.M == "MountBlob":
		return []S{o.Repo, o.Repo2}
	case o.M == "Repositories" || o.IsWriterOp():
		return nil
	}
	return []S{o.Repo}
}

func (o Op) Coq() string {
	d := Desc{}
	if o.Desc != nil {
		d = *o.Desc
	}
	switch o.M {
	case "GetBlob", "GetManifest", "ResolveBlob", "ResolveManifest", "DeleteBlob", "DeleteManifest":
		return fmt.Sprintf("(%s %s %s)", o.M, B(o.Repo), B(o.Digest))
	case "GetBlobRange":
		return fmt.Sprintf("(GetBlobRange %s %s %s %s)", B(o.Repo), B(o.Digest), hx.Z(o.O0), hx.Z(o.O1))
	case "GetTag", "ResolveTag", "DeleteTag":
		return fmt.Sprintf("(%s %s %s)", o.M, B(o.Repo), B(o.Tag))
	case "PushBlob":
		return fmt.Sprintf("(PushBlob %s %s %s)", B(o.Repo), d.Coq(), B(o.Content))
	case "PushBlobChunked":
		return fmt.Sprintf("(PushBlobChunked %s %s)", B(o.Repo), hx.Z(o.Hint))
	case "PushBlobChunkedResume":
		return fmt.Sprintf("(PushBlobChunkedResume %s %s %s %s)", B(o.Repo), B(o.ID), hx.Z(o.Off), hx.Z(o.Hint))
	case "MountBlob":
		return fmt.Sprintf("(MountBlob %s %s %s)", B(o.Repo), B(o.Repo2), B(o.Digest))
	case "PushManifest":
		return fmt.Sprintf("(PushManifest %s %s %s %s)", B(o.Repo), B(o.Tag), B(o.Content), B(o.Media))
	case "Repositories":
		return fmt.Sprintf("(Repositories %s)", B(o.Start))
	case "Tags":
		return fmt.Sprintf("(Tags %s %s)", B(o.Repo), B(o.Start))
	case "Referrers":
		return fmt.Sprintf("(Referrers %s %s %s)", B(o.Repo), B(o.Digest), B(o.Art))
	case "WWrite":
		return fmt.Sprintf("(WWrite %d %s)", o.W, B(o.Data))
	case "WClose", "WSize", "WChunkSize", "WID", "WCancel":
		return fmt.Sprintf("(%s %d)", o.M, o.W)
	case "WCommit":
		return fmt.Sprintf("(WCommit %d %s)", o.W, B(o.Digest))
	}
	panic("unknown op " + o.M)
}

func OpsCoq(ops []Op) string {
	out := make([]string, len(ops))
	for i, o := range ops {
		out[i] = o.Coq()
	}
	return hx.List(out)
}

// ---- results ----

// Res is a value of Iface.v's [result] type.
type Res struct {
	Kind   string `json:"kind"` // desc read list descs writer n str unit err panic
	Desc   *Desc  `json:"desc,omitempty"`
	Data   S      `json:"data,omitempty"`
	List   []S    `json:"list,omitempty"`
	Descs  []Desc `json:"descs,omitempty"`
	SeqErr *Err   `json:"seq_err,omitempty"` // the error that ended an iteration
	W      int    `json:"w,omitempty"`
	N      int64  `json:"n,omitempty"`
	Str    S      `json:"str,omitempty"`
	Err    *Err   `json:"err,omitempty"`
	Panic  string `json:"panic,omitempty"`
}

func (r Res) Coq() string {
	switch r.Kind {
	case "desc":
		return "(Ok (RDesc " + r.Desc.Coq() + "))"
	case "read":
		return "(Ok (RRead " + r.Desc.Coq() + " " + B(r.Data) + "))"
	case "list":
		return "(Ok (RList " + Bs(r.List) + " " + OptErr(r.SeqErr) + "))"
	case "descs":
		ds := make([]string, len(r.Descs))
		for i, d := range r.Descs {
			ds[i] = d.Coq()
		}
		return "(Ok (RDescs " + hx.List(ds) + " " + OptErr(r.SeqErr) + "))"
	case "writer":
		return fmt.Sprintf("(Ok (RWriter %d))", r.W)
	case "n":
		return "(Ok (RN " + hx.Z(r.N) + "))"
	case "str":
		return "(Ok (RStr " + B(r.Str) + "))"
	case "unit":
		return "(Ok RUnit)"
	case "err":
		return "(Err " + r.Err.Coq() + ")"
	case "panic":
		return "Panic"
	}
	panic("unknown result kind " + r.Kind)
}

// Failed reports whether the result carries an error in either way.
func (r Res) Failed() bool { return r.Kind == "err" || r.Kind == "panic" || r.SeqErr != nil }

func errRes(err error) Res { return Res{Kind: "err", Err: ErrOf(err)} }

// ---- performing an operation on an Interface value ----

// Writers is the table of writers a caller (or a backend) has obtained, by index. Same
// answers whether a given writer object is already in the table.
type Writers struct {
	W []ociregistry.BlobWriter
	// Index, when set, decides the index reported for a new writer (used by callers to
	// name a writer by the index the backend gave it when it is the very same object).
	Index func(w ociregistry.BlobWriter) (int, bool)
}

func (ws *Writers) add(w ociregistry.BlobWriter) int {
	if ws.Index != nil {
		if i, ok := ws.Index(w); ok {
			for len(ws.W) <= i {
				ws.W = append(ws.W, nil)
			}
			ws.W[i] = w
			return i
		}
		// not a backend writer: some other object was handed out
		ws.W = append(ws.W, w)
		return 1000 + len(ws.W) - 1
	}
	ws.W = append(ws.W, w)
	return len(ws.W) - 1
}

func (ws *Writers) get(i int) ociregistry.BlobWriter {
	if i >= 1000 {
		i -= 1000
	}
	if i < 0 || i >= len(ws.W) || ws.W[i] == nil {
		panic(fmt.Sprintf("harness: no writer %d", i))
	}
	return ws.W[i]
}

func readAll(rd ociregistry.BlobReader, err error) Res {
	if err != nil {
		return errRes(err)
	}
	if rd == nil {
		return Res{Kind: "err", Err: &Err{"", "nil reader without error"}}
	}
	defer rd.Close()
	data, rerr := io.ReadAll(rd)
	if rerr != nil {
		return Res{Kind: "err", Err: &Err{"", S("read error: " + rerr.Error())}}
	}
	d := DescOf(rd.Descriptor())
	return Res{Kind: "read", Desc: &d, Data: S(data)}
}

func descRes(d ociregistry.Descriptor, err error) Res {
	if err != nil {
		return errRes(err)
	}
	dd := DescOf(d)
	return Res{Kind: "desc", Desc: &dd}
}

func unitRes(err error) Res {
	if err != nil {
		return errRes(err)
	}
	return Res{Kind: "unit"}
}

func drainStrings(seq ociregistry.Seq[string]) Res {
	r := Res{Kind: "list", List: []S{}}
	seq(func(x string, err error) bool {
		if err != nil {
			r.SeqErr = ErrOf(err)
			return false
		}
		r.List = append(r.List, S(x))
		return true
	})
	return r
}

func drainDescs(seq ociregistry.Seq[ociregistry.Descriptor]) Res {
	r := Res{Kind: "descs", Descs: []Desc{}}
	seq(func(x ociregistry.Descriptor, err error) bool {
		if err != nil {
			r.SeqErr = ErrOf(err)
			return false
		}
		r.Descs = append(r.Descs, DescOf(x))
		return true
	})
	return r
}

// Invoke performs op on r as a caller would (readers are read to the end and closed,
// iterators drained up to their first error) and reports the result; a panic is a result.
func Invoke(ctx context.Context, r ociregistry.Interface, op Op, ws *Writers) (res Res) {
	panicked, pv := hx.Recover(func() { res = invoke(ctx, r, op, ws) })
	if panicked {
		return Res{Kind: "panic", Panic: pv}
	}
	return res
}

func invoke(ctx context.Context, r ociregistry.Interface, op Op, ws *Writers) Res {
	repo, dg := string(op.Repo), ociregistry.Digest(op.Digest)
	switch op.M {
	case "GetBlob":
		return readAll(r.GetBlob(ctx, repo, dg))
	case "GetBlobRange":
		return readAll(r.GetBlobRange(ctx, repo, dg, op.O0, op.O1))
	case "GetManifest":
		return readAll(r.GetManifest(ctx, repo, dg))
	case "GetTag":
		return readAll(r.GetTag(ctx, repo, string(op.Tag)))
	case "ResolveBlob":
		return descRes(r.ResolveBlob(ctx, repo, dg))
	case "ResolveManifest":
		return descRes(r.ResolveManifest(ctx, repo, dg))
	case "ResolveTag":
		return descRes(r.ResolveTag(ctx, repo, string(op.Tag)))
	case "PushBlob":
		d := Desc{}
		if op.Desc != nil {
			d = *op.Desc
		}
		return descRes(r.PushBlob(ctx, repo, d.Go(), strings.NewReader(string(op.Content))))
	case "PushBlobChunked", "PushBlobChunkedResume":
		var w ociregistry.BlobWriter
		var err error
		if op.M == "PushBlobChunked" {
			w, err = r.PushBlobChunked(ctx, repo, int(op.Hint))
		} else {
			w, err = r.PushBlobChunkedResume(ctx, repo, string(op.ID), op.Off, int(op.Hint))
		}
		if err != nil {
			return errRes(err)
		}
		if w == nil {
			return Res{Kind: "err", Err: &Err{"", "nil writer without error"}}
		}
		return Res{Kind: "writer", W: ws.add(w)}
	case "MountBlob":
		return descRes(r.MountBlob(ctx, repo, string(op.Repo2), dg))
	case "PushManifest":
		return descRes(r.PushManifest(ctx, repo, string(op.Tag), []byte(op.Content), string(op.Media)))
	case "DeleteBlob":
		return unitRes(r.DeleteBlob(ctx, repo, dg))
	case "DeleteManifest":
		return unitRes(r.DeleteManifest(ctx, repo, dg))
	case "DeleteTag":
		return unitRes(r.DeleteTag(ctx, repo, string(op.Tag)))
	case "Repositories":
		return drainStrings(r.Repositories(ctx, string(op.Start)))
	case "Tags":
		return drainStrings(r.Tags(ctx, repo, string(op.Start)))
	case "Referrers":
		return drainDescs(r.Referrers(ctx, repo, dg, string(op.Art)))
	case "WWrite":
		n, err := ws.get(op.W).Write([]byte(op.Data))
		if err != nil {
			return errRes(err)
		}
		return Res{Kind: "n", N: int64(n)}
	case "WClose":
		return unitRes(ws.get(op.W).Close())
	case "WSize":
		return Res{Kind: "n", N: ws.get(op.W).Size()}
	case "WChunkSize":
		return Res{Kind: "n", N: int64(ws.get(op.W).ChunkSize())}
	case "WID":
		return Res{Kind: "str", Str: S(ws.get(op.W).ID())}
	case "WCommit":
		return descRes(ws.get(op.W).Commit(dg))
	case "WCancel":
		return unitRes(ws.get(op.W).Cancel())
	}
	panic("unknown op " + op.M)
}

// ---- scopes ----

type RS struct {
	Type     S `json:"type"`
	Resource S `json:"resource,omitempty"`
	Action   S `json:"action,omitempty"`
}

// Scope is an ociauth.Scope as sub.go can observe it: unlimited, or what Iter yields.
type Scope struct {
	Unlimited bool `json:"unlimited,omitempty"`
	Items     []RS `json:"items,omitempty"`
}

func ScopeOf(s ociauth.Scope) Scope {
	if s.IsUnlimited() {
		return Scope{Unlimited: true}
	}
	out := Scope{}
	s.Iter()(func(rs ociauth.ResourceScope) bool {
		out.Items = append(out.Items, RS{S(rs.ResourceType), S(rs.Resource), S(rs.Action)})
		return true
	})
	return out
}

func ScopeOfContext(ctx context.Context) Scope { return ScopeOf(ociauth.ScopeFromContext(ctx)) }

func (s Scope) Go() ociauth.Scope {
	if s.Unlimited {
		return ociauth.UnlimitedScope()
	}
	rss := make([]ociauth.ResourceScope, len(s.Items))
	for i, x := range s.Items {
		rss[i] = ociauth.ResourceScope{ResourceType: string(x.Type), Resource: string(x.Resource), Action: string(x.Action)}
	}
	return ociauth.NewScope(rss...)
}

func (s Scope) Coq() string {
	if s.Unlimited {
		return "ScUnlimited"
	}
	out := make([]string, len(s.Items))
	for i, x := range s.Items {
		out[i] = fmt.Sprintf("RS %s %s %s", B(x.Type), B(x.Resource), B(x.Action))
	}
	return "(ScSet " + hx.List(out) + ")"
}

// ---- the recording backend ----

type Call struct {
	Op    Op    `json:"op"`
	Res   Res   `json:"res"`
	Scope Scope `json:"scope"`
}

// Yield is one call of an iterator's yield function.
type Yield struct {
	Item S    `json:"item,omitempty"`
	Err  *Err `json:"err,omitempty"`
}

func (y Yield) Coq() string { return "(" + B(y.Item) + ", " + OptErr(y.Err) + ")" }

func YieldsCoq(ys []Yield) string {
	out := make([]string, len(ys))
	for i, y := range ys {
		out[i] = y.Coq()
	}
	return hx.List(out)
}

// Backend implements ociregistry.Interface through an ociregistry.Funcs with every field
// set. Every call (including calls on writers it handed out) is recorded with its
// arguments, the scope found in its context and its answer. The answer comes from Inner
// when set (the call is forwarded), else from Answer.
type Backend struct {
	Calls  []Call
	Answer func(op Op) Res
	Inner  ociregistry.Interface
	// RawRepos, when non-nil, is what the Repositories iterator hands to its callback
	// for as long as the callback answers true; Delivered counts the yields made.
	RawRepos  []Yield
	Delivered int

	inner   Writers // writers of Inner, by index
	handed  []ociregistry.BlobWriter
	funcs   *ociregistry.Funcs
	lastCtx context.Context
}

// WriterIndex reports the index of a writer this backend handed out.
func (b *Backend) WriterIndex(w ociregistry.BlobWriter) (int, bool) {
	for i, x := range b.handed {
		if x == w {
			return i, true
		}
	}
	return 0, false
}

func (b *Backend) do(ctx context.Context, op Op) Res {
	var res Res
	if b.Inner != nil {
		res = Invoke(ctx, b.Inner, op, &b.inner)
	} else {
		res = b.Answer(op)
	}
	sc := Scope{}
	if ctx != nil {
		sc = ScopeOfContext(ctx)
	}
	b.Calls = append(b.Calls, Call{Op: op, Res: res, Scope: sc})
	if res.Kind == "panic" {
		panic("backend panic: " + res.Panic)
	}
	return res
}

func (r Res) reader() (ociregistry.BlobReader, error) {
	if r.Kind == "err" {
		return nil, r.Err.Go()
	}
	return ocimem.NewBytesReader([]byte(r.Data), r.Desc.Go()), nil
}

func (r Res) desc() (ociregistry.Descriptor, error) {
	if r.Kind == "err" {
		return ociregistry.Descriptor{}, r.Err.Go()
	}
	return r.Desc.Go(), nil
}

func (r Res) unit() error {
	if r.Kind == "err" {
		return r.Err.Go()
	}
	return nil
}

type recWriter struct {
	b   *Backend
	idx int
	ctx context.Context
}

func (w *recWriter) Write(p []byte) (int, error) {
	r := w.b.do(w.ctx, Op{M: "WWrite", W: w.idx, Data: S(p)})
	if r.Kind == "err" {
		return 0, r.Err.Go()
	}
	return int(r.N), nil
}
func (w *recWriter) Close() error   { return w.b.do(w.ctx, Op{M: "WClose", W: w.idx}).unit() }
func (w *recWriter) Size() int64    { return w.b.do(w.ctx, Op{M: "WSize", W: w.idx}).N }
func (w *recWriter) ChunkSize() int { return int(w.b.do(w.ctx, Op{M: "WChunkSize", W: w.idx}).N) }
func (w *recWriter) ID() string     { return string(w.b.do(w.ctx, Op{M: "WID", W: w.idx}).Str) }
func (w *recWriter) Commit(d ociregistry.Digest) (ociregistry.Descriptor, error) {
	return w.b.do(w.ctx, Op{M: "WCommit", W: w.idx, Digest: S(d)}).desc()
}
func (w *recWriter) Cancel() error { return w.b.do(w.ctx, Op{M: "WCancel", W: w.idx}).unit() }

func (b *Backend) writer(ctx context.Context, r Res) (ociregistry.BlobWriter, error) {
	if r.Kind == "err" {
		return nil, r.Err.Go()
	}
	// the index in the answer is the index of the writer in this backend's table
	for len(b.handed) <= r.W {
		b.handed = append(b.handed, nil)
	}
	w := &recWriter{b: b, idx: r.W, ctx: ctx}
	b.handed[r.W] = w
	return w, nil
}

// NextWriter is the index the next writer created by a scripted Answer should carry.
func (b *Backend) NextWriter() int { return len(b.handed) }

func (b *Backend) Interface() ociregistry.Interface {
	if b.funcs != nil {
		return b.funcs
	}
	b.funcs = &ociregistry.Funcs{
		GetBlob_: func(ctx context.Context, repo string, digest ociregistry.Digest) (ociregistry.BlobReader, error) {
			return b.do(ctx, Op{M: "GetBlob", Repo: S(repo), Digest: S(digest)}).reader()
		},
		GetBlobRange_: func(ctx context.Context, repo string, digest ociregistry.Digest, o0, o1 int64) (ociregistry.BlobReader, error) {
			return b.do(ctx, Op{M: "GetBlobRange", Repo: S(repo), Digest: S(digest), O0: o0, O1: o1}).reader()
		},
		GetManifest_: func(ctx context.Context, repo string, digest ociregistry.Digest) (ociregistry.BlobReader, error) {
			return b.do(ctx, Op{M: "GetManifest", Repo: S(repo), Digest: S(digest)}).reader()
		},
		GetTag_: func(ctx context.Context, repo string, tagName string) (ociregistry.BlobReader, error) {
			return b.do(ctx, Op{M: "GetTag", Repo: S(repo), Tag: S(tagName)}).reader()
		},
		ResolveBlob_: func(ctx context.Context, repo string, digest ociregistry.Digest) (ociregistry.Descriptor, error) {
			return b.do(ctx, Op{M: "ResolveBlob", Repo: S(repo), Digest: S(digest)}).desc()
		},
		ResolveManifest_: func(ctx context.Context, repo string, digest ociregistry.Digest) (ociregistry.Descriptor, error) {
			return b.do(ctx, Op{M: "ResolveManifest", Repo: S(repo), Digest: S(digest)}).desc()
		},
		ResolveTag_: func(ctx context.Context, repo string, tagName string) (ociregistry.Descriptor, error) {
			return b.do(ctx, Op{M: "ResolveTag", Repo: S(repo), Tag: S(tagName)}).desc()
		},
		PushBlob_: func(ctx context.Context, repo string, desc ociregistry.Descriptor, r io.Reader) (ociregistry.Descriptor, error) {
			data, err := io.ReadAll(r)
			if err != nil {
				panic(err)
			}
			d := DescOf(desc)
			return b.do(ctx, Op{M: "PushBlob", Repo: S(repo), Desc: &d, Content: S(data)}).desc()
		},
		PushBlobChunked_: func(ctx context.Context, repo string, chunkSize int) (ociregistry.BlobWriter, error) {
			return b.writer(ctx, b.do(ctx, Op{M: "PushBlobChunked", Repo: S(repo), Hint: int64(chunkSize)}))
		},
		PushBlobChunkedResume_: func(ctx context.Context, repo, id string, offset int64, chunkSize int) (ociregistry.BlobWriter, error) {
			return b.writer(ctx, b.do(ctx, Op{M: "PushBlobChunkedResume", Repo: S(repo), ID: S(id), Off: offset, Hint: int64(chunkSize)}))
		},
		MountBlob_: func(ctx context.Context, fromRepo, toRepo string, digest ociregistry.Digest) (ociregistry.Descriptor, error) {
			return b.do(ctx, Op{M: "MountBlob", Repo: S(fromRepo), Repo2: S(toRepo), Digest: S(digest)}).desc()
		},
		PushManifest_: func(ctx context.Context, repo string, tag string, contents []byte, mediaType string) (ociregistry.Descriptor, error) {
			return b.do(ctx, Op{M: "PushManifest", Repo: S(repo), Tag: S(tag), Content: S(contents), Media: S(mediaType)}).desc()
		},
		DeleteBlob_: func(ctx context.Context, repo string, digest ociregistry.Digest) error {
			return b.do(ctx, Op{M: "DeleteBlob", Repo: S(repo), Digest: S(digest)}).unit()
		},
		DeleteManifest_: func(ctx context.Context, repo string, digest ociregistry.Digest) error {
			return b.do(ctx, Op{M: "DeleteManifest", Repo: S(repo), Digest: S(digest)}).unit()
		},
		DeleteTag_: func(ctx context.Context, repo string, name string) error {
			return b.do(ctx, Op{M: "DeleteTag", Repo: S(repo), Tag: S(name)}).unit()
		},
		Repositories_: func(ctx context.Context, startAfter string) ociregistry.Seq[string] {
			op := Op{M: "Repositories", Start: S(startAfter)}
			if b.RawRepos != nil {
				b.Calls = append(b.Calls, Call{Op: op, Res: Res{Kind: "list"}, Scope: ScopeOfContext(ctx)})
				return func(yield func(string, error) bool) {
					for _, y := range b.RawRepos {
						b.Delivered++
						if !yield(string(y.Item), y.Err.Go()) {
							return
						}
					}
				}
			}
			return stringSeq(b.do(ctx, op))
		},
		Tags_: func(ctx context.Context, repo string, startAfter string) ociregistry.Seq[string] {
			return stringSeq(b.do(ctx, Op{M: "Tags", Repo: S(repo), Start: S(startAfter)}))
		},
		Referrers_: func(ctx context.Context, repo string, digest ociregistry.Digest, artifactType string) ociregistry.Seq[ociregistry.Descriptor] {
			r := b.do(ctx, Op{M: "Referrers", Repo: S(repo), Digest: S(digest), Art: S(artifactType)})
			return func(yield func(ociregistry.Descriptor, error) bool) {
				if r.Kind == "err" {
					yield(ociregistry.Descriptor{}, r.Err.Go())
					return
				}
				for _, d := range r.Descs {
					if !yield(d.Go(), nil) {
						return
					}
				}
				if r.SeqErr != nil {
					yield(ociregistry.Descriptor{}, r.SeqErr.Go())
				}
			}
		},
	}
	return b.funcs
}

func stringSeq(r Res) ociregistry.Seq[string] {
	return func(yield func(string, error) bool) {
		if r.Kind == "err" {
			yield("", r.Err.Go())
			return
		}
		for _, x := range r.List {
			if !yield(string(x), nil) {
				return
			}
		}
		if r.SeqErr != nil {
			yield("", r.SeqErr.Go())
		}
	}
}

// Mark returns the number of calls recorded so far; Since returns those made after it.
func (b *Backend) Mark() int             { return len(b.Calls) }
func (b *Backend) Since(mark int) []Call { return append([]Call{}, b.Calls[mark:]...) }
