// Harness for C11 (credential confinement, bounded and non-intrusive flow): see package authsim.
package main

import "verif/harness/authsim"

func main() {
	authsim.Main(&authsim.Profile{Module: "Obs.C11", Runs: 420, Parses: 2500, TimedPct: 8, FaultPct: 45,
		OddPct: 45, ConcPct: 35, CfgPct: 5, HostPct: 10, BodyPct: 50, Unlimited: true,
		ReusePct: 8, CtxPct: 6, CancelPct: 8, RedirPct: 12, DirectedPct: 14})
}
