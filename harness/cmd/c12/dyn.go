package main

import (
	"context"
	"io"

	"cuelabs.dev/go/oci/ociregistry"

	"verif/harness/filt"
	"verif/harness/hx"
)

// The dynamic types under which a registry value is handed to AccessChecker / Select.
//
//	"" (plain): the value as it is (the recording *ociregistry.Funcs at the bottom of a
//	            stack, the wrapper underneath elsewhere)
//	"embed":    inside a struct that embeds the Interface (methods promoted)
//	"named":    behind a named type that declares the eighteen methods itself (over an embedded
//	            nil *Funcs, as the library's own wrapper types are built)
//
// All three have exactly the behaviour of the value inside.
var dynKinds = []string{"", "embed", "named"}

func dynCoq(d string) string {
	switch d {
	case "":
		return "DPlain"
	case "embed":
		return "DEmbed"
	case "named":
		return "DNamed"
	}
	panic("unknown dynamic type " + d)
}

type embedRegistry struct {
	ociregistry.Interface
}

// (Interface has an unexported method: a type outside the package can only implement it by
// embedding; like the library's own wrappers this one embeds a nil *Funcs and declares every
// method itself.)
type namedRegistry struct {
	*ociregistry.Funcs
	in ociregistry.Interface
}

func present(r ociregistry.Interface, d string) ociregistry.Interface {
	switch d {
	case "":
		return r
	case "embed":
		return embedRegistry{r}
	case "named":
		return &namedRegistry{in: r}
	}
	panic("unknown dynamic type " + d)
}

func (r *namedRegistry) GetBlob(ctx context.Context, repo string, digest ociregistry.Digest) (ociregistry.BlobReader, error) {
	return r.in.GetBlob(ctx, repo, digest)
}
func (r *namedRegistry) GetBlobRange(ctx context.Context, repo string, digest ociregistry.Digest, offset0, offset1 int64) (ociregistry.BlobReader, error) {
	return r.in.GetBlobRange(ctx, repo, digest, offset0, offset1)
}
func (r *namedRegistry) GetManifest(ctx context.Context, repo string, digest ociregistry.Digest) (ociregistry.BlobReader, error) {
	return r.in.GetManifest(ctx, repo, digest)
}
func (r *namedRegistry) GetTag(ctx context.Context, repo string, tagName string) (ociregistry.BlobReader, error) {
	return r.in.GetTag(ctx, repo, tagName)
}
func (r *namedRegistry) ResolveBlob(ctx context.Context, repo string, digest ociregistry.Digest) (ociregistry.Descriptor, error) {
	return r.in.ResolveBlob(ctx, repo, digest)
}
func (r *namedRegistry) ResolveManifest(ctx context.Context, repo string, digest ociregistry.Digest) (ociregistry.Descriptor, error) {
	return r.in.ResolveManifest(ctx, repo, digest)
}
func (r *namedRegistry) ResolveTag(ctx context.Context, repo string, tagName string) (ociregistry.Descriptor, error) {
	return r.in.ResolveTag(ctx, repo, tagName)
}
func (r *namedRegistry) PushBlob(ctx context.Context, repo string, desc ociregistry.Descriptor, rd io.Reader) (ociregistry.Descriptor, error) {
	return r.in.PushBlob(ctx, repo, desc, rd)
}
func (r *namedRegistry) PushBlobChunked(ctx context.Context, repo string, chunkSize int) (ociregistry.BlobWriter, error) {
	return r.in.PushBlobChunked(ctx, repo, chunkSize)
}
func (r *namedRegistry) PushBlobChunkedResume(ctx context.Context, repo, id string, offset int64, chunkSize int) (ociregistry.BlobWriter, error) {
	return r.in.PushBlobChunkedResume(ctx, repo, id, offset, chunkSize)
}
func (r *namedRegistry) MountBlob(ctx context.Context, fromRepo, toRepo string, digest ociregistry.Digest) (ociregistry.Descriptor, error) {
	return r.in.MountBlob(ctx, fromRepo, toRepo, digest)
}
func (r *namedRegistry) PushManifest(ctx context.Context, repo string, tag string, contents []byte, mediaType string) (ociregistry.Descriptor, error) {
	return r.in.PushManifest(ctx, repo, tag, contents, mediaType)
}
func (r *namedRegistry) DeleteBlob(ctx context.Context, repo string, digest ociregistry.Digest) error {
	return r.in.DeleteBlob(ctx, repo, digest)
}
func (r *namedRegistry) DeleteManifest(ctx context.Context, repo string, digest ociregistry.Digest) error {
	return r.in.DeleteManifest(ctx, repo, digest)
}
func (r *namedRegistry) DeleteTag(ctx context.Context, repo string, name string) error {
	return r.in.DeleteTag(ctx, repo, name)
}
func (r *namedRegistry) Repositories(ctx context.Context, startAfter string) ociregistry.Seq[string] {
	return r.in.Repositories(ctx, startAfter)
}
func (r *namedRegistry) Tags(ctx context.Context, repo, startAfter string) ociregistry.Seq[string] {
	return r.in.Tags(ctx, repo, startAfter)
}
func (r *namedRegistry) Referrers(ctx context.Context, repo string, digest ociregistry.Digest, artifactType string) ociregistry.Seq[ociregistry.Descriptor] {
	return r.in.Referrers(ctx, repo, digest, artifactType)
}

// under is one wrapper below the outermost one.
type under struct {
	Policy policy `json:"policy"`
	Dyn    string `json:"dyn,omitempty"`
}

// layers lists the wrappers of a configuration, outermost first.
func (in input) layers() []under {
	return append([]under{{in.Policy, in.Dyn}}, in.Under...)
}

// shape names a configuration by its constructors, outermost first: "check", "check>select", ...
func (in input) shape() string {
	s := ""
	for i, l := range in.layers() {
		if i > 0 {
			s += ">"
		}
		s += l.Policy.Wrapper
	}
	return s
}

// build applies the wrappers to the recording backend, innermost first, each to the value
// the one below returned, presented under the dynamic type asked for.
func (in input) build(r ociregistry.Interface, policyCalls *int) ociregistry.Interface {
	ls := in.layers()
	for i := len(ls) - 1; i >= 0; i-- {
		r = ls[i].Policy.wrap(present(r, ls[i].Dyn), policyCalls)
	}
	return r
}

func (in input) coq() string {
	us := make([]string, len(in.Under))
	for i, u := range in.Under {
		us[i] = "(" + u.Policy.coq() + ", " + dynCoq(u.Dyn) + ")"
	}
	return "(" + in.Policy.coq() + ", " + dynCoq(in.Dyn) + ") " + hx.List(us)
}

// refuses: does some wrapper's policy refuse an access op needs (labels outcomes only).
func (in input) refuses(op filt.Op) bool {
	for _, l := range in.layers() {
		if l.Policy.refuses(op) {
			return true
		}
	}
	return false
}
