package main

import (
	"context"
	"fmt"
	"math/rand"
	"strconv"

	"cuelabs.dev/go/oci/ociregistry"

	"verif/harness/filt"
	"verif/harness/hx"
)

// The iterator methods (Repositories, Tags, Referrers) as a caller can use them: the method
// is called once; the Seq it returns is then iterated by zero or more consumers, one after
// the other, each answering its yields in its own way. The recording backend notes the calls
// made on it while the method call runs and during each iteration separately.

// consumer is the yield callback of one iteration: its answer to its i-th call (from 0) is
// Answers[i], Default beyond; when OnErr is set it is the answer to every call that carries
// an error (false: the well-behaved "stop on error", true: carry on regardless).
type consumer struct {
	Answers []bool `json:"answers,omitempty"`
	Default bool   `json:"default,omitempty"`
	OnErr   *bool  `json:"on_err,omitempty"`
}

func (c consumer) answer(i int, isErr bool) bool {
	if c.OnErr != nil && isErr {
		return *c.OnErr
	}
	if i < len(c.Answers) {
		return c.Answers[i]
	}
	return c.Default
}

func (c consumer) coq() string {
	as := make([]string, len(c.Answers))
	for i, a := range c.Answers {
		as[i] = hx.Bool(a)
	}
	oe := "None"
	if c.OnErr != nil {
		oe = "(Some " + hx.Bool(*c.OnErr) + ")"
	}
	return fmt.Sprintf("(Cons %s %s %s)", hx.List(as), hx.Bool(c.Default), oe)
}

// iterObs is what one iteration showed.
type iterObs struct {
	Yields    []filt.Yield `json:"yields"`
	Delivered int          `json:"delivered"`
	Calls     []filt.Op    `json:"calls"`
}

// A descriptor stands for the item it was made from (and the zero descriptor for the empty
// item); a descriptor that is not one of ours is rendered by its fields.
func itemDesc(x string) ociregistry.Descriptor {
	if x == "" {
		return ociregistry.Descriptor{}
	}
	return ociregistry.Descriptor{MediaType: "m/" + x, Digest: ociregistry.Digest(x), Size: int64(len(x)), ArtifactType: "a/" + x}
}

func descItem(d ociregistry.Descriptor) string {
	x := string(d.Digest)
	want := itemDesc(x)
	if d.MediaType == want.MediaType && d.Size == want.Size && d.ArtifactType == want.ArtifactType &&
		len(d.URLs) == 0 && len(d.Annotations) == 0 && len(d.Data) == 0 && d.Platform == nil {
		return x
	}
	return "ALTERED:" + d.MediaType + "|" + x + "|" + strconv.FormatInt(d.Size, 10) + "|" + d.ArtifactType
}

// iterBackend is the recording backend with iterators that hand out evs raw: a call of
// Repositories / Tags / Referrers is recorded when it is made; every iteration of the
// returned Seq delivers evs from the start for as long as the callback answers true
// (b.Delivered counts the yields made).
func iterBackend(evs []filt.Yield) (*filt.Backend, ociregistry.Interface) {
	b := &filt.Backend{}
	b.Answer = func(op filt.Op) filt.Res {
		return filt.Res{Kind: "err", Err: &filt.Err{Tag: "not an iterator method"}}
	}
	f := *(b.Interface().(*ociregistry.Funcs))
	record := func(ctx context.Context, op filt.Op) {
		b.Calls = append(b.Calls, filt.Call{Op: op, Res: filt.Res{Kind: "list"}, Scope: filt.ScopeOfContext(ctx)})
	}
	strings := func(yield func(string, error) bool) {
		for _, y := range evs {
			b.Delivered++
			if !yield(string(y.Item), y.Err.Go()) {
				return
			}
		}
	}
	f.Repositories_ = func(ctx context.Context, startAfter string) ociregistry.Seq[string] {
		record(ctx, filt.Op{M: "Repositories", Start: S(startAfter)})
		return strings
	}
	f.Tags_ = func(ctx context.Context, repo, startAfter string) ociregistry.Seq[string] {
		record(ctx, filt.Op{M: "Tags", Repo: S(repo), Start: S(startAfter)})
		return strings
	}
	f.Referrers_ = func(ctx context.Context, repo string, digest ociregistry.Digest, artifactType string) ociregistry.Seq[ociregistry.Descriptor] {
		record(ctx, filt.Op{M: "Referrers", Repo: S(repo), Digest: S(digest), Art: S(artifactType)})
		return func(yield func(ociregistry.Descriptor, error) bool) {
			for _, y := range evs {
				b.Delivered++
				if !yield(itemDesc(string(y.Item)), y.Err.Go()) {
					return
				}
			}
		}
	}
	return b, &f
}

// more yields than any well-behaved iterator over the events can make: a consumer that has
// received this many stops the iteration whatever its answers are
const yieldCap = 64

func callOps(cs []filt.Call) []filt.Op {
	out := make([]filt.Op, len(cs))
	for i, c := range cs {
		out[i] = c.Op
	}
	return out
}

func runIter(in input) (string, observed) {
	ctx := context.Background()
	op := in.Hist[0]
	b, reg := iterBackend(in.Events)
	var pc int
	w := in.build(reg, &pc)
	// the method call
	var iterate func(yield func(string, error) bool)
	panicked, pv := hx.Recover(func() {
		switch op.M {
		case "Repositories":
			iterate = w.Repositories(ctx, string(op.Start))
		case "Tags":
			iterate = w.Tags(ctx, string(op.Repo), string(op.Start))
		case "Referrers":
			seq := w.Referrers(ctx, string(op.Repo), ociregistry.Digest(op.Digest), string(op.Art))
			iterate = func(yield func(string, error) bool) {
				seq(func(d ociregistry.Descriptor, err error) bool { return yield(descItem(d), err) })
			}
		default:
			panic("not an iterator method: " + op.M)
		}
	})
	var obs observed
	obs.Pre = callOps(b.Since(0))
	if panicked {
		obs.Pre = append(obs.Pre, filt.Op{M: "Tags", Repo: "PANIC", Start: S(pv)})
	}
	// the iterations
	obs.Iters = []iterObs{}
	for _, c := range in.Consumers {
		mark, d0 := b.Mark(), b.Delivered
		it := iterObs{Yields: []filt.Yield{}}
		panicked, pv := hx.Recover(func() {
			iterate(func(item string, err error) bool {
				i := len(it.Yields)
				it.Yields = append(it.Yields, filt.Yield{Item: S(item), Err: filt.ErrOf(err)})
				if len(it.Yields) >= yieldCap {
					return false
				}
				return c.answer(i, err != nil)
			})
		})
		if panicked {
			it.Yields = append(it.Yields, filt.Yield{Item: "PANIC", Err: &filt.Err{Tag: S(pv)}})
		}
		it.Delivered = b.Delivered - d0
		it.Calls = callOps(b.Since(mark))
		obs.Iters = append(obs.Iters, it)
	}
	obs.PolicyCalls, obs.BackendCalls = pc, len(b.Calls)
	cs := make([]string, len(in.Consumers))
	for i, c := range in.Consumers {
		cs[i] = c.coq()
	}
	its := make([]string, len(obs.Iters))
	for i, it := range obs.Iters {
		its[i] = fmt.Sprintf("(%s, %d%%N, %s)", filt.YieldsCoq(it.Yields), it.Delivered, filt.OpsCoq(it.Calls))
	}
	return fmt.Sprintf("CIter %s %s %s %s %s %s", in.coq(), op.Coq(), filt.YieldsCoq(in.Events), hx.List(cs),
		filt.OpsCoq(obs.Pre), hx.List(its)), obs
}

// iterOutcome labels an iterator case for grouping the replays (the verdict is Coq's).
func iterOutcome(in input, obs observed) string {
	if in.refuses(in.Hist[0]) {
		if obs.BackendCalls > 0 {
			return "reached-backend-though-refused"
		}
		return "stopped"
	}
	return "passed"
}

// ---- consumers ----

func bp(b bool) *bool { return &b }

// the ways a consumer may behave, by name
var consumerKinds = []struct {
	name string
	c    consumer
}{
	{"all", consumer{Default: true}},                                            // never stops, not even when handed an error
	{"stop-on-error", consumer{Default: true, OnErr: bp(false)}},                // what ociregistry.All does
	{"stop-at-0", consumer{}},                                                   // stops at once, error or not
	{"stop-at-1", consumer{Answers: []bool{true}}},                              // takes one, stops at the second
	{"stop-at-2", consumer{Answers: []bool{true, true}, OnErr: bp(false)}},      // takes two or stops on the error
	{"on-past-error-only", consumer{OnErr: bp(true)}},                           // stops at any item, carries on after an error
	{"on-past-error-then-stop", consumer{Answers: []bool{true}, OnErr: bp(true)}}, // carries on after errors, stops at the second item
	{"wavering", consumer{Answers: []bool{true, false, true, true}, Default: true}}, // says stop once: an iterator that carries on shows
}

func randConsumer(rnd *rand.Rand, nev int) consumer {
	if rnd.Intn(3) == 0 {
		return consumerKinds[rnd.Intn(len(consumerKinds))].c
	}
	c := consumer{Default: rnd.Intn(3) > 0}
	for n := rnd.Intn(nev + 2); n > 0; n-- {
		c.Answers = append(c.Answers, rnd.Intn(4) > 0)
	}
	switch rnd.Intn(3) {
	case 0:
		c.OnErr = bp(false)
	case 1:
		c.OnErr = bp(true)
	}
	return c
}

// the recording backend's raw yields: nothing, items only, an error at each position (alone,
// first, in the middle with items behind it, last), an error that carries an item, two errors
var iterEvents = [][]filt.Yield{
	{},
	{{Item: "a/one"}, {Item: "v1"}, {Item: "foo/r"}, {Item: "v2"}},
	{{Err: &filt.Err{Code: "TOOMANYREQUESTS", Tag: "iteration-error-0"}}},
	{{Err: &filt.Err{Code: "UNAUTHORIZED", Tag: "iteration-error-0"}}, {Item: "v1"}, {Item: "v2"}},
	{{Item: "v1"}, {Item: "a/one", Err: &filt.Err{Code: "DENIED", Tag: "iteration-error-1"}}, {Item: "a/one"}, {Item: "foo/r"}},
	{{Item: "foo/r"}, {Item: "v1"}, {Err: &filt.Err{Tag: "iteration-error-2"}}},
	{{Item: "v1"}, {Err: &filt.Err{Code: "NAME_UNKNOWN", Tag: "iteration-error-1"}}, {Item: "v2"}, {Err: &filt.Err{Code: "MY_CODE", Tag: "iteration-error-3"}}, {Item: "v3"}},
}

var iterMethods = []string{"Repositories", "Tags", "Referrers"}

// iterEnum: every iterator method x every shape of one to three wrappers x {every wrapper
// allows, each single wrapper rejects, only other accesses rejected} x raw yields x
// consumers: the Seq never iterated, iterated once by every kind of consumer, iterated again
// and again (pairs of kinds rotating through all ordered pairs, and a triple). Allowed calls
// meet every raw yield sequence; rejected calls (where the raw yields must never show) two of
// them. Tags and Referrers also on the repository named "*".
func iterEnum(add func(in input, origin string)) {
	shapes := append([][]string{{"check"}, {"select"}}, stackShapes...)
	nth := 0
	consumerSets := func(again bool) [][]consumer {
		css := [][]consumer{nil} // the Seq is obtained and never iterated
		for _, k := range consumerKinds {
			css = append(css, []consumer{k.c})
		}
		if !again {
			return css
		}
		for j := 0; j < 6; j++ {
			a := consumerKinds[nth%len(consumerKinds)].c
			b := consumerKinds[(nth/len(consumerKinds))%len(consumerKinds)].c
			nth++
			css = append(css, []consumer{a, b})
		}
		return append(css, []consumer{consumerKinds[nth%len(consumerKinds)].c, consumerKinds[0].c, consumerKinds[1].c})
	}
	for _, m := range iterMethods {
		for _, repo := range []string{"foo/r", "*"} {
			if m == "Repositories" && repo == "*" {
				continue
			}
			op := sampleOp(m, repo, "")
			for _, shape := range shapes {
				n := len(shape)
				if repo == "*" && n > 1 {
					continue
				}
				// which wrapper rejects: none (-1), wrapper i, or none with only other accesses rejected (n)
				for rejecting := -1; rejecting <= n; rejecting++ {
					if m == "Repositories" && rejecting >= 0 && rejecting < n && shape[rejecting] == "select" {
						// Select never refuses the listing itself: that assignment is the allowed one again
						continue
					}
					ps := make([]policy, n)
					for i := range ps {
						mode := modeAllow
						switch {
						case i == rejecting:
							mode = modeReject
						case rejecting == n:
							mode = modeOthers
						}
						ps[i] = layerPolicy(i, shape[i], op, mode)
					}
					evss := iterEvents
					again := true
					switch {
					case rejecting >= 0 && rejecting < n:
						evss = [][]filt.Yield{iterEvents[1], iterEvents[4]}
						again = n < 3
					case rejecting == n || repo == "*":
						evss = [][]filt.Yield{iterEvents[1], iterEvents[4]}
						again = false
					default:
						again = n == 1
					}
					for _, evs := range evss {
						for _, cs := range consumerSets(again) {
							in := input{Kind: "iter", Hist: []filt.Op{op}, Events: evs, Consumers: cs}
							add(stackInput(ps, make([]string, n), in), "iter-enum")
						}
					}
				}
			}
		}
	}
}

// iterRandom: random iterator calls over the names of the random histories, through one to
// three wrappers with independent random policies and random dynamic types, random raw
// yields (errors anywhere, items behind them), zero to three random consumers.
func iterRandom(add func(in input, origin string), rnd *rand.Rand, randPolicy func() policy, names []string, n int) {
	pool := []string{"foo/r", "bar", "a/b/c", "zed", "Foo/R", "m", "n/o", "p", "q/r/s", "t", "", "*", "../etc"}
	for i := 0; i < n; i++ {
		m := iterMethods[rnd.Intn(len(iterMethods))]
		op := randOp(rnd, m, S(names[rnd.Intn(len(names))]), "")
		var evs []filt.Yield
		for k := rnd.Intn(7); k > 0; k-- {
			y := filt.Yield{Item: S(pool[rnd.Intn(len(pool))])}
			if rnd.Intn(5) == 0 {
				y.Err = &filt.Err{Code: errCodes[rnd.Intn(len(errCodes))], Tag: S(fmt.Sprintf("iteration-error-%d", len(evs)))}
				if rnd.Intn(2) == 0 {
					y.Item = ""
				}
			}
			evs = append(evs, y)
		}
		nl := 1 + rnd.Intn(3)
		ps := make([]policy, nl)
		dyns := make([]string, nl)
		for j := range ps {
			ps[j] = retag(randPolicy(), j)
			dyns[j] = randDyn(rnd)
			// random policies over seven names and four kinds refuse most calls through three
			// wrappers: two times out of three make the wrapper permissive by default
			if rnd.Intn(3) > 0 {
				if ps[j].Wrapper == "select" {
					ps[j].AllowDefault = true
				} else {
					ps[j].Default = nil
				}
			}
			if m == "Repositories" {
				// per-item rules on names of the pool
				for _, nm := range pool {
					if rnd.Intn(5) == 0 {
						if ps[j].Wrapper == "select" {
							ps[j].Names = append(ps[j].Names, nameRule{S(nm), rnd.Intn(3) > 0})
						} else {
							ps[j].Rules = append(ps[j].Rules, rule{S(nm), 0, layerErr(j, nm, 0)})
						}
					}
				}
			}
		}
		var cs []consumer
		for k := rnd.Intn(4); k > 0; k-- {
			cs = append(cs, randConsumer(rnd, len(evs)))
		}
		in := input{Kind: "iter", Hist: []filt.Op{op}, Events: evs, Consumers: cs}
		add(stackInput(ps, dyns, in), "random-iter")
	}
}
