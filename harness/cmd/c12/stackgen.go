package main

import (
	"fmt"
	"math/rand"

	"verif/harness/filt"
)

// Wrappers applied to each other, and wrappers over registries of other dynamic types.
//
// AccessChecker and Select accept any ociregistry.Interface, so the registry they wrap may be
// the result of AccessChecker or Select itself. Every wrapper of such a stack has its own
// policy; the errors of different wrappers are different objects (tags "L<i>:..."), so that
// which wrapper's rejection the caller received is observable.

// retag makes the error objects of p distinguishable from those of every other wrapper.
func retag(p policy, layer int) policy {
	pre := fmt.Sprintf("L%d:", layer)
	q := p
	q.Rules = make([]rule, len(p.Rules))
	for i, r := range p.Rules {
		q.Rules[i] = r
		if r.Err != nil {
			q.Rules[i].Err = &filt.Err{Code: r.Err.Code, Tag: filt.S(pre) + r.Err.Tag}
		}
	}
	if p.Default != nil {
		q.Default = &filt.Err{Code: p.Default.Code, Tag: filt.S(pre) + p.Default.Tag}
	}
	return q
}

func layerErr(layer int, repo string, k int) *filt.Err {
	return &filt.Err{Code: errCodes[(k+len(repo)+3*layer)%len(errCodes)], Tag: S(fmt.Sprintf("L%d:policy-error:%s:%s", layer, repo, kindNames[k]))}
}

// layerRules: for repo, the kinds in the bitmask are rejected by wrapper number layer (each
// with its own error), the others explicitly allowed.
func layerRules(layer int, repo string, mask int) []rule {
	var rs []rule
	for k := 0; k < 4; k++ {
		r := rule{Repo: S(repo), Kind: k}
		if mask&(1<<k) != 0 {
			r.Err = layerErr(layer, repo, k)
		}
		rs = append(rs, r)
	}
	return rs
}

var stackShapes = [][]string{
	{"check", "select"}, {"select", "check"}, {"check", "check"}, {"select", "select"},
	{"check", "check", "select"}, {"check", "select", "check"}, {"select", "check", "check"}, {"select", "select", "check"},
}

var stackListing = []S{"a/one", "foo/r", "b/two", "zed", "c/three"}

// What one wrapper of a stack says about the access an operation needs.
const (
	modeAllow  = iota // every pair the operation needs is explicitly allowed
	modeReject        // a pair the operation needs is rejected
	modeOthers        // only accesses the operation does not need are rejected
)

// need is one (repository, kind) pair an operation needs.
type need struct {
	repo string
	kind int
}

func needsOf(op filt.Op) []need {
	switch op.M {
	case "MountBlob":
		return []need{{string(op.Repo), 0}, {string(op.Repo2), 1}}
	case "Repositories":
		return []need{{"*", 3}}
	}
	return []need{{string(op.Repo), kindOf(op.M)}}
}

// layerPolicy builds the policy of wrapper number layer of the given constructor for op in
// the given mode. For a mount the rejected pair alternates between the source (even
// wrappers) and the target (odd wrappers). Every wrapper hides one name of its own from
// repository listings, whatever its mode.
func layerPolicy(layer int, wrapper string, op filt.Op, mode int) policy {
	needs := needsOf(op)
	hidden := string(stackListing[layer%len(stackListing)])
	if wrapper == "select" {
		p := policy{Wrapper: "select"}
		switch mode {
		case modeAllow:
			for _, n := range needs {
				p.Names = append(p.Names, nameRule{S(n.repo), true})
			}
			p.AllowDefault = op.M == "Repositories"
		case modeReject:
			rej := needs[layer%len(needs)]
			for _, n := range needs {
				p.Names = append(p.Names, nameRule{S(n.repo), n.repo != rej.repo})
			}
			p.AllowDefault = true
		case modeOthers:
			p.Names = append(p.Names, nameRule{"other/r", false})
			p.AllowDefault = true
		}
		if op.M == "Repositories" {
			p.Names = append(p.Names, nameRule{S(hidden), false})
		}
		return p
	}
	p := policy{Wrapper: "check"}
	switch mode {
	case modeAllow:
		for _, n := range needs {
			p.Rules = append(p.Rules, rule{Repo: S(n.repo), Kind: n.kind})
		}
	case modeReject:
		rej := needs[layer%len(needs)]
		for _, n := range needs {
			r := rule{Repo: S(n.repo), Kind: n.kind}
			if n == rej {
				r.Err = layerErr(layer, n.repo, n.kind)
			}
			p.Rules = append(p.Rules, r)
		}
	case modeOthers:
		for _, n := range needs {
			p.Rules = append(p.Rules, rule{Repo: S(n.repo), Kind: n.kind})
		}
		for _, n := range needs {
			for k := 0; k < 4; k++ {
				if k != n.kind {
					p.Rules = append(p.Rules, rule{Repo: S(n.repo), Kind: k, Err: layerErr(layer, n.repo, k)})
				}
			}
		}
	}
	if op.M == "Repositories" {
		p.Rules = append(p.Rules, rule{Repo: S(hidden), Kind: 0, Err: layerErr(layer, hidden, 0)})
		// rejecting the listing of a name is not rejecting its appearance in the listing
		p.Rules = append(p.Rules, rule{Repo: "zed", Kind: 3, Err: layerErr(layer, "zed", 3)})
	}
	return p
}

// stackInput assembles a configuration from per-wrapper policies and dynamic types.
func stackInput(ps []policy, dyns []string, in input) input {
	in.Policy, in.Dyn = ps[0], dyns[0]
	in.Under = nil
	for i := 1; i < len(ps); i++ {
		in.Under = append(in.Under, under{ps[i], dyns[i]})
	}
	return in
}

// stackEnum: every method through every shape of stack, with every assignment of
// {allows, rejects what is needed, rejects only what is not needed} to the wrappers (two
// wrappers: all nine; three: the eight of {allows, rejects} and all-others), all wrappers
// handed their registry as it is and under the other dynamic types; the backend succeeding,
// and failing when every wrapper allows. Then single wrappers over the other dynamic types,
// writer use through stacks, and the promoted methods of a stack's outermost wrapper.
func stackEnum(add func(in input, origin string), polsOf func(op filt.Op) []policy, writerUse func(variant int) []filt.Op) {
	nth := 0
	for _, shape := range stackShapes {
		n := len(shape)
		var assignments [][]int
		if n == 2 {
			for a := 0; a < 3; a++ {
				for b := 0; b < 3; b++ {
					assignments = append(assignments, []int{a, b})
				}
			}
		} else {
			for bits := 0; bits < 1<<n; bits++ {
				as := make([]int, n)
				for i := range as {
					as[i] = (bits >> i) & 1
				}
				assignments = append(assignments, as)
			}
			others := make([]int, n)
			for i := range others {
				others[i] = modeOthers
			}
			assignments = append(assignments, others)
		}
		for _, m := range filt.Methods {
			op := sampleOp(m, "foo/r", "dst/r")
			for _, as := range assignments {
				ps := make([]policy, n)
				allAllow := true
				for i := range ps {
					ps[i] = layerPolicy(i, shape[i], op, as[i])
					allAllow = allAllow && as[i] != modeReject
				}
				plain := make([]string, n)
				varied := make([]string, n)
				for i := range varied {
					varied[i] = dynKinds[(nth+i)%len(dynKinds)]
				}
				if varied[0] == "" && varied[n-1] == "" && n == 2 {
					varied[1] = "named"
				}
				nth++
				for _, dyns := range [][]string{plain, varied} {
					for _, fail := range []bool{false, true} {
						if fail && !allAllow {
							continue
						}
						in := input{Kind: "hist", Hist: []filt.Op{op}, Backend: backendCfg{Fail: fail, List: stackListing}}
						add(stackInput(ps, dyns, in), "stack")
					}
				}
			}
		}
		// a mount within one repository, and every method on the repository named "*"
		for _, op := range []filt.Op{sampleOp("MountBlob", "same/r", "same/r"), sampleOp("Tags", "*", ""), sampleOp("Referrers", "*", ""), sampleOp("GetTag", "*", "")} {
			for rejecting := -1; rejecting < n; rejecting++ {
				ps := make([]policy, n)
				for i := range ps {
					mode := modeAllow
					if i == rejecting {
						mode = modeReject
					}
					ps[i] = layerPolicy(i, shape[i], op, mode)
				}
				in := input{Kind: "hist", Hist: []filt.Op{op}, Backend: backendCfg{List: stackListing}}
				add(stackInput(ps, make([]string, n), in), "stack")
			}
		}
		// BlobWriter use after a chunked upload started through the stack
		for _, m := range []string{"PushBlobChunked", "PushBlobChunkedResume"} {
			op := sampleOp(m, "foo/r", "")
			for variant := 0; variant < 4; variant++ {
				ps := make([]policy, n)
				for i := range ps {
					ps[i] = layerPolicy(i, shape[i], op, modeOthers)
				}
				h := append([]filt.Op{op}, writerUse(variant)...)
				in := input{Kind: "hist", Hist: h, Backend: backendCfg{List: stackListing}, CtxDone: variant == 3}
				add(stackInput(ps, make([]string, n), in), "stack-writer")
			}
		}
		// the promoted methods of the outermost wrapper
		for _, m := range filt.Methods {
			ps := make([]policy, n)
			for i := range ps {
				ps[i] = policy{Wrapper: shape[i], AllowDefault: true}
			}
			add(stackInput(ps, make([]string, n), input{Kind: "promoted", Method: m}), "promoted")
		}
	}
	// one wrapper over a registry of another dynamic type: every method, sample and all-zero
	// arguments, the policies of the argument enumeration
	for _, d := range dynKinds[1:] {
		for _, m := range filt.Methods {
			ops := []filt.Op{sampleOp(m, "foo/r", "dst/r")}
			if m != "Repositories" {
				ops = append(ops, filt.Op{M: m, Repo: "foo/r", Repo2: "dst/r"})
			}
			for _, op := range ops {
				if m != "MountBlob" {
					op.Repo2 = ""
				}
				for _, p := range polsOf(op) {
					for _, fail := range []bool{false, true} {
						add(input{Kind: "hist", Policy: p, Dyn: d, Hist: []filt.Op{op}, Backend: backendCfg{Fail: fail, List: stackListing}}, "dyn")
					}
				}
			}
		}
	}
}

func randDyn(rnd *rand.Rand) string {
	if rnd.Intn(5) < 3 {
		return ""
	}
	return dynKinds[1+rnd.Intn(len(dynKinds)-1)]
}

// stackRandom: random histories and random yield-by-yield listings through stacks of two or
// three wrappers with independent random policies (and single wrappers over other dynamic
// types). In listings the policies are free to reject the listing itself.
func stackRandom(add func(in input, origin string), rnd *rand.Rand, randPolicy func() policy, names []string, nh, nseq int) {
	seqErr := &filt.Err{Code: "TOOMANYREQUESTS", Tag: "backend-iteration-error"}
	randStack := func() ([]policy, []string) {
		n := 2 + rnd.Intn(2)
		if rnd.Intn(6) == 0 {
			n = 1
		}
		ps := make([]policy, n)
		dyns := make([]string, n)
		for i := range ps {
			ps[i] = retag(randPolicy(), i)
			dyns[i] = randDyn(rnd)
		}
		if n == 1 && dyns[0] == "" {
			dyns[0] = "embed"
		}
		return ps, dyns
	}
	for i := 0; i < nh; i++ {
		var h []filt.Op
		for n := 1 + rnd.Intn(5); n > 0; n-- {
			m := filt.Methods[rnd.Intn(len(filt.Methods))]
			if rnd.Intn(5) == 0 {
				m = "Repositories"
			}
			h = append(h, randOp(rnd, m, S(names[rnd.Intn(len(names))]), S(names[rnd.Intn(len(names))])))
		}
		var l []S
		for _, n := range names {
			if rnd.Intn(3) > 0 {
				l = append(l, S(n))
			}
		}
		bc := backendCfg{Fail: rnd.Intn(5) == 0, List: l}
		if rnd.Intn(3) == 0 {
			bc.ListErr = seqErr
		}
		ps, dyns := randStack()
		// sparse random policies rarely let a call through three wrappers: half of the
		// time make the wrappers permissive by default
		if rnd.Intn(2) == 0 {
			for j := range ps {
				if ps[j].Wrapper == "select" {
					ps[j].AllowDefault = true
				} else {
					ps[j].Default = nil
				}
			}
		}
		add(stackInput(ps, dyns, input{Kind: "hist", Hist: h, Backend: bc, CtxDone: rnd.Intn(6) == 0}), "random-stack")
	}
	pool := []string{"foo/r", "bar", "a/b/c", "zed", "Foo/R", "m", "n/o", "p", "q/r/s", "t", "", "*", "../etc"}
	for i := 0; i < nseq; i++ {
		var evs []filt.Yield
		for n := rnd.Intn(9); n > 0; n-- {
			y := filt.Yield{Item: S(pool[rnd.Intn(len(pool))])}
			if rnd.Intn(8) == 0 {
				y.Err = &filt.Err{Code: errCodes[rnd.Intn(len(errCodes))], Tag: S(fmt.Sprintf("iteration-error-%d", len(evs)))}
				if rnd.Intn(2) == 0 {
					y.Item = ""
				}
			}
			evs = append(evs, y)
		}
		ps, dyns := randStack()
		for j := range ps {
			p := &ps[j]
			if p.Wrapper == "check" {
				p.Default = nil
				// ("*", list): mostly allowed so that the iteration happens
				var rs []rule
				for _, r := range p.Rules {
					if !(r.Repo == "*" && r.Kind == 3) {
						rs = append(rs, r)
					}
				}
				star := rule{Repo: "*", Kind: 3}
				if rnd.Intn(7) == 0 {
					star.Err = layerErr(j, "*", 3)
				}
				p.Rules = append([]rule{star}, rs...)
				for _, n := range pool {
					if rnd.Intn(5) == 0 {
						p.Rules = append(p.Rules, rule{S(n), 0, layerErr(j, n, 0)})
					}
				}
			} else {
				p.AllowDefault = rnd.Intn(4) > 0
				for _, n := range pool {
					if rnd.Intn(4) == 0 {
						p.Names = append(p.Names, nameRule{S(n), rnd.Intn(3) > 0})
					}
				}
			}
		}
		in := input{Kind: "seq", Events: evs, Start: startPool[rnd.Intn(len(startPool))]}
		if rnd.Intn(3) > 0 {
			k := rnd.Intn(len(evs) + 2)
			in.Stop = &k
		}
		add(stackInput(ps, dyns, in), "random-stack-seq")
	}
}
