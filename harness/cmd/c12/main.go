// Harness for C12: drives ocifilter.AccessChecker and ocifilter.Select - one wrapper, or several
// applied to each other with independent policies - over a recording backend
// (ociregistry.Funcs with every field set), handed to the constructors as it is or under
// another dynamic type (dyn.go, stackgen.go).
package main

import (
	"context"
	"encoding/json"
	"fmt"
	"math"
	"math/rand"
	"os"
	"reflect"
	"strings"

	"cuelabs.dev/go/oci/ociregistry"
	"cuelabs.dev/go/oci/ociregistry/ocifilter"

	"verif/harness/filt"
	"verif/harness/hx"
)

type S = filt.S

var kindNames = []string{"AccessRead", "AccessWrite", "AccessDelete", "AccessList"}

// rule: the AccessChecker policy's answer for (Repo, Kind): Err == nil means allowed.
type rule struct {
	Repo S         `json:"repo"`
	Kind int       `json:"kind"`
	Err  *filt.Err `json:"err,omitempty"`
}

type nameRule struct {
	Repo  S    `json:"repo"`
	Allow bool `json:"allow"`
}

type policy struct {
	Wrapper      string     `json:"wrapper"` // "check" | "select"
	Rules        []rule     `json:"rules,omitempty"`
	Default      *filt.Err  `json:"default,omitempty"`
	Names        []nameRule `json:"names,omitempty"`
	AllowDefault bool       `json:"allow_default,omitempty"`
}

// backendCfg decides the recording backend's answers.
type backendCfg struct {
	Fail    bool      `json:"fail,omitempty"`     // every call is answered with an error
	List    []S       `json:"list,omitempty"`     // items of Repositories / Tags
	ListErr *filt.Err `json:"list_err,omitempty"` // the error the iteration ends with
}

type input struct {
	Kind    string       `json:"kind"` // hist | seq | promoted | iter
	Policy  policy       `json:"policy"`
	Hist    []filt.Op    `json:"hist,omitempty"`
	Backend backendCfg   `json:"backend"`
	Events  []filt.Yield `json:"events,omitempty"`
	Stop    *int         `json:"stop,omitempty"`
	Start   S            `json:"start,omitempty"`
	Method  string       `json:"method,omitempty"`
	// CtxDone: every call of the history is made with a context that is already cancelled
	CtxDone bool `json:"ctx_done,omitempty"`
	// Policy is the policy of the outermost wrapper; Dyn the dynamic type under which the
	// registry it wraps is handed to it; Under the wrappers between it and the recording
	// backend, outermost first (see dyn.go)
	Dyn   string  `json:"dyn,omitempty"`
	Under []under `json:"under,omitempty"`
	// iter: Hist[0] is the iterator method called, Events the recording backend's raw yields,
	// Consumers the callbacks that iterate the returned Seq one after the other (iter.go)
	Consumers []consumer `json:"consumers,omitempty"`
}

func (p policy) coq() string {
	if p.Wrapper == "select" {
		ns := make([]string, len(p.Names))
		for i, n := range p.Names {
			ns[i] = fmt.Sprintf("(%s, %s)", filt.B(n.Repo), hx.Bool(n.Allow))
		}
		return fmt.Sprintf("(PAllow %s %s)", hx.List(ns), hx.Bool(p.AllowDefault))
	}
	rs := make([]string, len(p.Rules))
	for i, r := range p.Rules {
		rs[i] = fmt.Sprintf("(%s, %s, %s)", filt.B(r.Repo), kindNames[r.Kind], filt.OptErr(r.Err))
	}
	return fmt.Sprintf("(PCheck %s %s)", hx.List(rs), filt.OptErr(p.Default))
}

// wrap builds the real wrapper; policyCalls counts the calls made to the policy.
func (p policy) wrap(r ociregistry.Interface, policyCalls *int) ociregistry.Interface {
	if p.Wrapper == "select" {
		return ocifilter.Select(r, func(repo string) bool {
			*policyCalls++
			for _, n := range p.Names {
				if string(n.Repo) == repo {
					return n.Allow
				}
			}
			return p.AllowDefault
		})
	}
	// one error object per rule, so that identity is observable
	errs := make([]error, len(p.Rules))
	for i, r := range p.Rules {
		errs[i] = r.Err.Go()
	}
	def := p.Default.Go()
	return ocifilter.AccessChecker(r, func(repo string, access ocifilter.AccessKind) error {
		*policyCalls++
		for i, r := range p.Rules {
			if string(r.Repo) == repo && r.Kind == int(access) {
				return errs[i]
			}
		}
		return def
	})
}

// answer is the policy's answer for (repo, kind): refused or not.
func (p policy) answer(repo S, kind int) bool {
	if p.Wrapper == "select" {
		for _, n := range p.Names {
			if n.Repo == repo {
				return !n.Allow
			}
		}
		return !p.AllowDefault
	}
	for _, r := range p.Rules {
		if r.Repo == repo && r.Kind == kind {
			return r.Err != nil
		}
	}
	return p.Default != nil
}

// refuses: does the policy refuse an access op needs (used to label outcomes only).
func (p policy) refuses(op filt.Op) bool {
	switch {
	case op.IsWriterOp():
		return false
	case op.M == "MountBlob":
		return p.answer(op.Repo, 0) || p.answer(op.Repo2, 1)
	case op.M == "Repositories":
		return p.Wrapper == "check" && p.answer("*", 3)
	}
	return p.answer(op.Repo, kindOf(op.M))
}

var errCodes = []string{"BLOB_UNKNOWN", "MANIFEST_UNKNOWN", "NAME_UNKNOWN", "DENIED", "UNAUTHORIZED", "", "TOOMANYREQUESTS", "MY_CODE"}

func (cfg backendCfg) answer(b *filt.Backend) func(op filt.Op) filt.Res {
	return func(op filt.Op) filt.Res {
		tag := op.M + ":" + string(op.Repo)
		if op.M == "MountBlob" {
			tag += ">" + string(op.Repo2)
		}
		berr := &filt.Err{Code: errCodes[len(tag)%len(errCodes)], Tag: S("backend-error:" + tag)}
		desc := &filt.Desc{Media: S("result/" + op.M), Digest: S("sha256:" + fmt.Sprintf("%064x", len(tag)*7919)), Size: int64(100 + len(tag)), Artifact: S("art/" + op.M)}
		switch op.M {
		case "Repositories", "Tags":
			if cfg.Fail {
				return filt.Res{Kind: "list", List: []S{}, SeqErr: berr}
			}
			l := cfg.List
			if l == nil {
				l = []S{}
			}
			return filt.Res{Kind: "list", List: l, SeqErr: cfg.ListErr}
		case "Referrers":
			if cfg.Fail {
				return filt.Res{Kind: "descs", Descs: []filt.Desc{}, SeqErr: berr}
			}
			return filt.Res{Kind: "descs", Descs: []filt.Desc{*desc, {Media: "second"}}, SeqErr: cfg.ListErr}
		case "WSize":
			return filt.Res{Kind: "n", N: 4242}
		case "WChunkSize":
			return filt.Res{Kind: "n", N: 777}
		case "WID":
			return filt.Res{Kind: "str", Str: S(fmt.Sprintf("upload-id-%d", op.W))}
		}
		if cfg.Fail {
			return filt.Res{Kind: "err", Err: berr}
		}
		switch op.M {
		case "GetBlob", "GetBlobRange", "GetManifest", "GetTag":
			return filt.Res{Kind: "read", Desc: desc, Data: S("content-of:" + tag)}
		case "ResolveBlob", "ResolveManifest", "ResolveTag", "PushBlob", "MountBlob", "PushManifest", "WCommit":
			return filt.Res{Kind: "desc", Desc: desc}
		case "PushBlobChunked", "PushBlobChunkedResume":
			return filt.Res{Kind: "writer", W: b.NextWriter()}
		case "DeleteBlob", "DeleteManifest", "DeleteTag", "WClose", "WCancel":
			return filt.Res{Kind: "unit"}
		case "WWrite":
			return filt.Res{Kind: "n", N: int64(len(op.Data))}
		}
		panic("unhandled " + op.M)
	}
}

type obsOp struct {
	Res   filt.Res    `json:"res"`
	Calls []filt.Call `json:"calls"`
}

type observed struct {
	Ops          []obsOp      `json:"ops,omitempty"`
	Yields       []filt.Yield `json:"yields,omitempty"`
	Delivered    int          `json:"delivered,omitempty"`
	EmbeddedNil  bool         `json:"embedded_nil,omitempty"`
	Res          *filt.Res    `json:"res,omitempty"`
	PolicyCalls  int          `json:"policy_calls"`
	BackendCalls int          `json:"backend_calls"`
	// iter: the backend calls made while the method call ran, and what each iteration showed
	Pre   []filt.Op `json:"pre,omitempty"`
	Iters []iterObs `json:"iters,omitempty"`
}

func runHist(in input) (string, observed) {
	ctx := context.Background()
	if in.CtxDone {
		c, cancel := context.WithCancel(ctx)
		cancel()
		ctx = c
	}
	b := &filt.Backend{}
	b.Answer = in.Backend.answer(b)
	var pc int
	w := in.build(b.Interface(), &pc)
	ws := &filt.Writers{Index: b.WriterIndex}
	var obs observed
	var terms []string
	for _, op := range in.Hist {
		mark := b.Mark()
		res := filt.Invoke(ctx, w, op, ws)
		calls := b.Since(mark)
		obs.Ops = append(obs.Ops, obsOp{res, calls})
		cs := make([]string, len(calls))
		for i, c := range calls {
			cs[i] = "(" + c.Op.Coq() + ", " + c.Res.Coq() + ")"
		}
		terms = append(terms, "("+res.Coq()+", "+hx.List(cs)+")")
	}
	obs.PolicyCalls, obs.BackendCalls = pc, len(b.Calls)
	return fmt.Sprintf("CHist %s %s %s %s", hx.Bool(in.CtxDone), in.coq(), filt.OpsCoq(in.Hist), hx.List(terms)), obs
}

func runSeq(in input) (string, observed) {
	ctx := context.Background()
	b := &filt.Backend{RawRepos: in.Events}
	if b.RawRepos == nil {
		b.RawRepos = []filt.Yield{}
	}
	b.Answer = in.Backend.answer(b)
	var pc int
	w := in.build(b.Interface(), &pc)
	var obs observed
	obs.Yields = []filt.Yield{}
	panicked, pv := hx.Recover(func() {
		w.Repositories(ctx, string(in.Start))(func(item string, err error) bool {
			obs.Yields = append(obs.Yields, filt.Yield{Item: S(item), Err: filt.ErrOf(err)})
			return in.Stop == nil || len(obs.Yields)-1 != *in.Stop
		})
	})
	if panicked {
		obs.Yields = append(obs.Yields, filt.Yield{Item: "PANIC", Err: &filt.Err{Tag: S(pv)}})
	}
	obs.Delivered = b.Delivered
	obs.PolicyCalls, obs.BackendCalls = pc, len(b.Calls)
	stop := "None"
	if in.Stop != nil {
		stop = fmt.Sprintf("(Some %d)", *in.Stop)
	}
	return fmt.Sprintf("CSeq %s %s %s %s %s %d", in.coq(), filt.B(in.Start), filt.YieldsCoq(in.Events), stop,
		filt.YieldsCoq(obs.Yields), obs.Delivered), obs
}

// runPromoted calls method in.Method of the *ociregistry.Funcs embedded in the wrapper
// value: that is the method Go would promote if the wrapper type did not declare it.
func runPromoted(in input) (string, observed) {
	b := &filt.Backend{}
	b.Answer = in.Backend.answer(b)
	var pc int
	w := in.build(b.Interface(), &pc)
	var obs observed
	fld := reflect.ValueOf(w).Elem().FieldByName("Funcs")
	res := filt.Res{Kind: "err", Err: &filt.Err{Tag: "no embedded Funcs field"}}
	if fld.IsValid() && fld.Type() == reflect.TypeOf((*ociregistry.Funcs)(nil)) {
		obs.EmbeddedNil = fld.IsNil()
		// the embedded pointer is used as Go uses it: as the receiver of the promoted method
		f := fld.Interface().(*ociregistry.Funcs)
		op := sampleOp(in.Method, "some/repo", "other/repo")
		res = filt.Invoke(context.Background(), f, op, &filt.Writers{})
	}
	obs.Res = &res
	obs.PolicyCalls, obs.BackendCalls = pc, len(b.Calls)
	return fmt.Sprintf("CPromoted %s M%s %s %s %d", in.coq(), in.Method, hx.Bool(obs.EmbeddedNil), res.Coq(), pc+len(b.Calls)), obs
}

func sampleOp(m string, repo, repo2 string) filt.Op {
	op := filt.Op{M: m, Repo: S(repo)}
	dg := S("sha256:ffffffffffffffffffffffffffffffffffffffffffffffffffffffffffffffff")
	switch m {
	case "GetBlob", "GetManifest", "ResolveBlob", "ResolveManifest", "DeleteBlob", "DeleteManifest":
		op.Digest = dg
	case "GetBlobRange":
		op.Digest, op.O0, op.O1 = dg, 3, 17
	case "GetTag", "ResolveTag", "DeleteTag":
		op.Tag = "sometag"
	case "PushBlob":
		op.Desc = &filt.Desc{Media: "application/json", Digest: dg, Size: 3}
		op.Content = "foo"
	case "PushBlobChunked":
		op.Hint = 11
	case "PushBlobChunkedResume":
		op.ID, op.Off, op.Hint = "/someid", 3, 5
	case "MountBlob":
		op.Repo2, op.Digest = S(repo2), dg
	case "PushManifest":
		op.Tag, op.Content, op.Media = "sometag", "something", "application/json"
	case "Repositories":
		op.Repo, op.Start = "", "start/after"
	case "Tags":
		op.Start = "starttag"
	case "Referrers":
		op.Digest, op.Art = dg, "some/artifact"
	}
	return op
}

// ---- argument pools: the values of the non-repository parameters ----
//
// Every parameter of every method has a pool: the value of sampleOp, Go's zero value, and
// the boundary / odd values a caller can legitimately or illegitimately pass. variants
// returns the complete product of the pools of a method's parameters.

const sampleDigest = S("sha256:ffffffffffffffffffffffffffffffffffffffffffffffffffffffffffffffff")

var (
	digestPool = []S{sampleDigest, "", "sha256:", S("sha512:" + strings.Repeat("0", 128)), "not-a-digest",
		S("SHA256:" + strings.Repeat("F", 64))}
	tagPool   = []S{"sometag", "", "latest", sampleDigest, S(strings.Repeat("t", 129)), "a tag\n"}
	idPool    = []S{"/someid", "", "0", "../../other/r/upload", S(strings.Repeat("i", 200))}
	offPool   = []int64{3, 0, -1, 1, math.MaxInt64, math.MinInt64}
	rangePool = []int64{3, 17, 0, -1, 1, math.MaxInt64}
	hintPool  = []int64{5, 0, -1, 1, math.MaxInt32, math.MaxInt64}
	startPool = []S{"start/after", "", "*", "foo/r", S(strings.Repeat("z", 300))}
	artPool   = []S{"some/artifact", "", "*"}
	mediaPool = []S{"application/json", "", "application/vnd.oci.image.manifest.v1+json"}
	bodyPool  = []S{"something", "", "{}"}
	// PushBlob: descriptor and content together (sizes that agree, disagree, are zero,
	// negative, huge; missing digest / media type; the zero descriptor)
	blobPool = []struct {
		d *filt.Desc
		c S
	}{
		{&filt.Desc{Media: "application/json", Digest: sampleDigest, Size: 3}, "foo"},
		{nil, ""},
		{nil, "foo"},
		{&filt.Desc{Media: "application/json", Digest: sampleDigest, Size: 0}, ""},
		{&filt.Desc{Media: "application/json", Digest: sampleDigest, Size: -1}, "foo"},
		{&filt.Desc{Media: "application/json", Digest: sampleDigest, Size: 100}, "foo"},
		{&filt.Desc{Media: "application/json", Digest: sampleDigest, Size: math.MaxInt64}, ""},
		{&filt.Desc{Media: "application/json", Size: 3}, "foo"},
		{&filt.Desc{Digest: sampleDigest, Size: 3}, "foo"},
		{&filt.Desc{Media: "application/json", Digest: sampleDigest, Size: 3, Artifact: "some/artifact"}, "foo"},
	}
	// repository names: valid, the literal star, and names no registry would accept (a
	// rejection is the policy's business whatever the name looks like)
	repoPool = []S{"foo/r", "", "*", "Foo/R", "foo/r/", "/foo/r", "foo//r", "../etc", "foo/r\x00", "foo r",
		S(strings.Repeat("n", 300)), sampleDigest}
	mountPool = []S{"src/r", "dst/r", "", "*", "Foo/R", "../etc", S(strings.Repeat("n", 300))}
)

// variants lists m on (repo, repo2) with every combination of the pool values of its other
// parameters; the first one is sampleOp's.
func variants(m string, repo, repo2 S) []filt.Op {
	base := filt.Op{M: m, Repo: repo}
	var out []filt.Op
	switch m {
	case "GetBlob", "GetManifest", "ResolveBlob", "ResolveManifest", "DeleteBlob", "DeleteManifest":
		for _, dg := range digestPool {
			o := base
			o.Digest = dg
			out = append(out, o)
		}
	case "GetBlobRange":
		for _, dg := range digestPool {
			for _, o0 := range rangePool {
				for _, o1 := range rangePool {
					o := base
					o.Digest, o.O0, o.O1 = dg, o0, o1
					out = append(out, o)
				}
			}
		}
		// sampleOp's first
		out[0], out[1] = out[1], out[0]
	case "GetTag", "ResolveTag", "DeleteTag":
		for _, tg := range tagPool {
			o := base
			o.Tag = tg
			out = append(out, o)
		}
	case "PushBlob":
		for _, b := range blobPool {
			o := base
			o.Desc, o.Content = b.d, b.c
			out = append(out, o)
		}
	case "PushBlobChunked":
		for _, h := range hintPool {
			o := base
			o.Hint = h
			out = append(out, o)
		}
		o := base
		o.Hint = 11
		out = append([]filt.Op{o}, out...)
	case "PushBlobChunkedResume":
		for _, id := range idPool {
			for _, off := range offPool {
				for _, h := range hintPool {
					o := base
					o.ID, o.Off, o.Hint = id, off, h
					out = append(out, o)
				}
			}
		}
	case "MountBlob":
		for _, dg := range digestPool {
			o := base
			o.Repo2, o.Digest = repo2, dg
			out = append(out, o)
		}
	case "PushManifest":
		for _, tg := range tagPool {
			for _, c := range bodyPool {
				for _, mt := range mediaPool {
					o := base
					o.Tag, o.Content, o.Media = tg, c, mt
					out = append(out, o)
				}
			}
		}
	case "Repositories":
		for _, st := range startPool {
			out = append(out, filt.Op{M: m, Start: st})
		}
	case "Tags":
		for _, st := range startPool {
			o := base
			o.Start = st
			out = append(out, o)
		}
		out[0].Start = "starttag"
	case "Referrers":
		for _, dg := range digestPool {
			for _, a := range artPool {
				o := base
				o.Digest, o.Art = dg, a
				out = append(out, o)
			}
		}
	default:
		panic("variants: " + m)
	}
	return out
}

// kindOf is the access kind the method needs on its repository (MountBlob: on its target).
func kindOf(m string) int {
	switch m {
	case "GetBlob", "GetBlobRange", "GetManifest", "GetTag", "ResolveBlob", "ResolveManifest", "ResolveTag":
		return 0
	case "PushBlob", "PushBlobChunked", "PushBlobChunkedResume", "MountBlob", "PushManifest":
		return 1
	case "DeleteBlob", "DeleteManifest", "DeleteTag":
		return 2
	}
	return 3
}

func randOp(rnd *rand.Rand, m string, repo, repo2 S) filt.Op {
	if rnd.Intn(3) == 0 {
		return sampleOp(m, string(repo), string(repo2))
	}
	vs := variants(m, repo, repo2)
	return vs[rnd.Intn(len(vs))]
}

func runCase(in input) (string, observed) {
	switch in.Kind {
	case "hist":
		return runHist(in)
	case "seq":
		return runSeq(in)
	case "promoted":
		return runPromoted(in)
	case "iter":
		return runIter(in)
	}
	panic("unknown case kind " + in.Kind)
}

func outcomeKind(in input, obs observed) string {
	switch in.Kind {
	case "seq":
		return "seq"
	case "promoted":
		return "promoted"
	case "iter":
		return iterOutcome(in, obs)
	}
	k := "passed"
	for i, o := range obs.Ops {
		if o.Res.Kind == "panic" {
			return "panic"
		}
		if i < len(in.Hist) && len(o.Calls) > 0 && in.refuses(in.Hist[i]) {
			// only a label for grouping the replays; the verdict is Coq's
			return "reached-backend-though-refused"
		}
		if len(o.Calls) == 0 {
			k = "stopped"
		}
	}
	return k
}

func main() {
	cfg := hx.ParseFlags()
	out := hx.NewOut(cfg, "Obs.C12")
	add := func(in input, origin string) {
		coq, obs := runCase(in)
		m := in.Method
		if len(in.Hist) > 0 {
			m = in.Hist[0].M
		}
		if in.Kind == "seq" {
			m = "Repositories"
		}
		kind := outcomeKind(in, obs)
		if out.Add(hx.Case{Coq: coq, Desc: map[string]any{"input": in, "observed": obs, "origin": origin},
			Tags: map[string]any{"class": in.shape() + "/" + in.Kind + "/" + m + "/" + kind, "method": m, "wrapper": in.shape(), "observed_kind": kind}}) {
			out.Count("kind:" + in.Kind)
			out.Count("wrapper:" + in.shape())
			for _, l := range in.layers() {
				if l.Dyn != "" {
					out.Count("dyn:" + l.Dyn)
				}
			}
			out.Count("method:" + m)
			out.Count("origin:" + origin)
			out.Count("outcome:" + kind)
		}
	}
	if cfg.Replay != "" {
		data, err := os.ReadFile(cfg.Replay)
		if err != nil {
			panic(err)
		}
		var r struct {
			Input input `json:"input"`
		}
		if err := json.Unmarshal(data, &r); err != nil {
			panic(err)
		}
		add(r.Input, "replay")
		if err := out.Flush(); err != nil {
			panic(err)
		}
		return
	}
	for _, raw := range hx.LoadCorpus(cfg.Corpus) {
		var r struct {
			Input input `json:"input"`
		}
		if json.Unmarshal(raw, &r) == nil && r.Input.Kind != "" {
			add(r.Input, "corpus")
		}
	}
	rnd := cfg.Rand()
	perr := func(repo string, k int) *filt.Err {
		return &filt.Err{Code: errCodes[(k+len(repo))%len(errCodes)], Tag: S(fmt.Sprintf("policy-error:%s:%s", repo, kindNames[k]))}
	}
	// rules for repo: kinds in the bitmask are rejected (each with its own error), the
	// others explicitly allowed
	rulesFor := func(repo string, mask int) []rule {
		var rs []rule
		for k := 0; k < 4; k++ {
			r := rule{Repo: S(repo), Kind: k}
			if mask&(1<<k) != 0 {
				r.Err = perr(repo, k)
			}
			rs = append(rs, r)
		}
		return rs
	}
	single := []string{"GetBlob", "GetBlobRange", "GetManifest", "GetTag", "ResolveBlob", "ResolveManifest", "ResolveTag",
		"PushBlob", "PushBlobChunked", "PushBlobChunkedResume", "PushManifest", "DeleteBlob", "DeleteManifest", "DeleteTag", "Tags", "Referrers"}
	listing := []S{"a/one", "foo/r", "b/two", "zed"}
	seqErr := &filt.Err{Code: "TOOMANYREQUESTS", Tag: "backend-iteration-error"}
	// the operations a caller makes on a writer it was given
	writerUse := func(variant int) []filt.Op {
		ops := []filt.Op{{M: "WID"}, {M: "WWrite", Data: "some data"}, {M: "WSize"}, {M: "WChunkSize"}}
		switch variant {
		case 0:
			ops = append(ops, filt.Op{M: "WCommit", Digest: "sha256:0000000000000000000000000000000000000000000000000000000000000000"})
		case 3:
			// nothing written, committed without a digest
			ops = []filt.Op{{M: "WWrite"}, {M: "WSize"}, {M: "WCommit"}}
		case 1:
			ops = append(ops, filt.Op{M: "WClose"})
		default:
			ops = append(ops, filt.Op{M: "WCancel"}, filt.Op{M: "WCancel"})
		}
		return ops
	}
	histFor := func(m, repo, repo2 string, variant int) []filt.Op {
		h := []filt.Op{sampleOp(m, repo, repo2)}
		return h
	}
	withWriterUse := func(h []filt.Op, variant int) []filt.Op {
		return append(append([]filt.Op{}, h...), writerUse(variant)...)
	}

	// ---- complete enumeration: method x allow/deny assignment x wrapper x backend answer ----
	for _, fail := range []bool{false, true} {
		bc := backendCfg{Fail: fail, List: listing}
		// AccessChecker, one repository: every subset of the four kinds rejected
		for _, m := range single {
			for mask := 0; mask < 16; mask++ {
				for _, def := range []*filt.Err{nil, {Code: "DENIED", Tag: "policy-default"}} {
					if def != nil && mask != 0 && mask != 15 && mask != 5 {
						continue
					}
					in := input{Kind: "hist", Policy: policy{Wrapper: "check", Rules: rulesFor("foo/r", mask), Default: def},
						Hist: histFor(m, "foo/r", "", 0), Backend: bc}
					add(in, "enum")
				}
			}
		}
		// AccessChecker, mount: every subset of {read, write} on each side, with and
		// without the other two kinds rejected; and the same repository on both sides
		for mf := 0; mf < 4; mf++ {
			for mt := 0; mt < 4; mt++ {
				for _, other := range []int{0, 12} {
					rs := append(rulesFor("src/r", mf|other), rulesFor("dst/r", mt|other)...)
					add(input{Kind: "hist", Policy: policy{Wrapper: "check", Rules: rs}, Hist: histFor("MountBlob", "src/r", "dst/r", 0), Backend: bc}, "enum")
				}
			}
		}
		for mask := 0; mask < 16; mask++ {
			add(input{Kind: "hist", Policy: policy{Wrapper: "check", Rules: rulesFor("same/r", mask)}, Hist: histFor("MountBlob", "same/r", "same/r", 0), Backend: bc}, "enum")
		}
		// AccessChecker, Repositories: every subset of kinds rejected for "*", items filtered
		for mask := 0; mask < 16; mask++ {
			for _, le := range []*filt.Err{nil, seqErr} {
				bc2 := bc
				bc2.ListErr = le
				rs := append(rulesFor("*", mask), rule{Repo: "foo/r", Kind: 0, Err: perr("foo/r", 0)}, rule{Repo: "zed", Kind: 3, Err: perr("zed", 3)})
				add(input{Kind: "hist", Policy: policy{Wrapper: "check", Rules: rs}, Hist: histFor("Repositories", "", "", 0), Backend: bc2}, "enum")
			}
		}
		// Select, one repository (including the name "*")
		for _, m := range single {
			for _, repo := range []string{"foo/r", "*"} {
				for _, allow := range []bool{false, true} {
					for _, def := range []bool{false, true} {
						in := input{Kind: "hist", Policy: policy{Wrapper: "select", Names: []nameRule{{S(repo), allow}}, AllowDefault: def},
							Hist: histFor(m, repo, "", 0), Backend: bc}
						add(in, "enum")
					}
				}
			}
		}
		// Select, mount
		for _, af := range []bool{false, true} {
			for _, at := range []bool{false, true} {
				add(input{Kind: "hist", Policy: policy{Wrapper: "select", Names: []nameRule{{"src/r", af}, {"dst/r", at}}, AllowDefault: !af},
					Hist: histFor("MountBlob", "src/r", "dst/r", 0), Backend: bc}, "enum")
			}
			add(input{Kind: "hist", Policy: policy{Wrapper: "select", Names: []nameRule{{"same/r", af}}, AllowDefault: !af},
				Hist: histFor("MountBlob", "same/r", "same/r", 0), Backend: bc}, "enum")
		}
		// Select, Repositories: whatever allow says about "*", listing is permitted and filtered
		for _, star := range []bool{false, true} {
			for _, def := range []bool{false, true} {
				for _, le := range []*filt.Err{nil, seqErr} {
					bc2 := bc
					bc2.ListErr = le
					add(input{Kind: "hist", Policy: policy{Wrapper: "select", Names: []nameRule{{"*", star}, {"foo/r", false}, {"a/one", true}}, AllowDefault: def},
						Hist: histFor("Repositories", "", "", 0), Backend: bc2}, "enum")
				}
			}
		}
		// BlobWriter use after PushBlobChunked / PushBlobChunkedResume, both wrappers
		for _, m := range []string{"PushBlobChunked", "PushBlobChunkedResume"} {
			for variant := 0; variant < 3; variant++ {
				if fail {
					continue // no writer is handed out when the backend fails
				}
				h := withWriterUse(histFor(m, "foo/r", "", 0), variant)
				for _, mask := range []int{0, 1, 4, 8, 13} {
					add(input{Kind: "hist", Policy: policy{Wrapper: "check", Rules: rulesFor("foo/r", mask)}, Hist: h, Backend: bc}, "writer")
				}
				add(input{Kind: "hist", Policy: policy{Wrapper: "select", Names: []nameRule{{"foo/r", true}}}, Hist: h, Backend: bc}, "writer")
			}
		}
	}
	// ---- argument values: every method with every combination of the pool values of its
	// non-repository parameters (the zero values among them), the repository rejected for
	// exactly the kind the method needs / for every other kind / for all / for none, and
	// through Select rejected / allowed. What the wrapper does must depend on the policy's
	// answer alone, whatever the other arguments are. ----
	polsFor := func(repo string, k int) []policy {
		var ps []policy
		for _, mask := range []int{1 << k, 0, 15 ^ (1 << k), 15} {
			ps = append(ps, policy{Wrapper: "check", Rules: rulesFor(repo, mask)})
		}
		for _, allow := range []bool{false, true} {
			ps = append(ps, policy{Wrapper: "select", Names: []nameRule{{S(repo), allow}}, AllowDefault: !allow})
		}
		return ps
	}
	mountPols := func(src, dst string) []policy {
		var ps []policy
		for _, mf := range []int{1, 0} {
			for _, mt := range []int{2, 0} {
				rs := append(rulesFor(src, mf), rulesFor(dst, mt)...)
				if src == dst {
					rs = rulesFor(src, mf|mt)
				}
				ps = append(ps, policy{Wrapper: "check", Rules: rs})
			}
		}
		for _, af := range []bool{false, true} {
			for _, at := range []bool{false, true} {
				if src == dst && af != at {
					continue
				}
				ps = append(ps, policy{Wrapper: "select", Names: []nameRule{{S(src), af}, {S(dst), at}}, AllowDefault: !af})
			}
		}
		return ps
	}
	// the policies for op: those of its repository (of "*" for Repositories), or of a mount
	polsOf := func(op filt.Op) []policy {
		switch op.M {
		case "MountBlob":
			return mountPols(string(op.Repo), string(op.Repo2))
		case "Repositories":
			return polsFor("*", 3)
		}
		return polsFor(string(op.Repo), kindOf(op.M))
	}
	zeroOp := func(m string, repo, repo2 S) filt.Op {
		switch m {
		case "Repositories":
			return filt.Op{M: m}
		case "MountBlob":
			return filt.Op{M: m, Repo: repo, Repo2: repo2}
		}
		return filt.Op{M: m, Repo: repo}
	}
	for _, m := range filt.Methods {
		for i, op := range variants(m, "foo/r", "dst/r") {
			for _, p := range polsOf(op) {
				for _, fail := range []bool{false, true} {
					if fail && i >= 8 {
						continue
					}
					add(input{Kind: "hist", Policy: p, Hist: []filt.Op{op}, Backend: backendCfg{Fail: fail, List: listing}}, "args")
				}
			}
		}
	}
	// ---- repository names: every method on every name of the pool (the empty name, the
	// star, names no registry accepts), with the sample arguments and with all-zero
	// arguments; a mount between every two names of its pool ----
	for _, m := range filt.Methods {
		var ops []filt.Op
		switch m {
		case "Repositories":
			continue
		case "MountBlob":
			for _, src := range mountPool {
				for _, dst := range mountPool {
					ops = append(ops, sampleOp(m, string(src), string(dst)), zeroOp(m, src, dst))
				}
			}
		default:
			for _, repo := range repoPool {
				ops = append(ops, sampleOp(m, string(repo), ""), zeroOp(m, repo, ""))
			}
		}
		for _, op := range ops {
			for _, p := range polsOf(op) {
				add(input{Kind: "hist", Policy: p, Hist: []filt.Op{op}, Backend: backendCfg{List: listing}}, "names")
			}
		}
	}
	// ---- a context that is already cancelled: the policy still decides, an allowed call
	// still reaches the wrapped registry (which answers it as it answers any other) ----
	for _, m := range filt.Methods {
		for _, op := range []filt.Op{sampleOp(m, "foo/r", "dst/r"), zeroOp(m, "foo/r", "dst/r")} {
			for _, p := range polsOf(op) {
				for _, fail := range []bool{false, true} {
					add(input{Kind: "hist", Policy: p, Hist: []filt.Op{op}, Backend: backendCfg{Fail: fail, List: listing}, CtxDone: true}, "ctx")
				}
			}
		}
	}
	// ---- BlobWriter use after a chunked upload started with boundary arguments (one
	// parameter away from the sample, and all zero) ----
	for _, m := range []string{"PushBlobChunked", "PushBlobChunkedResume"} {
		s0 := sampleOp(m, "foo/r", "")
		ops := []filt.Op{zeroOp(m, "foo/r", "")}
		for _, op := range variants(m, "foo/r", "") {
			diff := 0
			if op.ID != s0.ID {
				diff++
			}
			if op.Off != s0.Off {
				diff++
			}
			if op.Hint != s0.Hint {
				diff++
			}
			if diff == 1 {
				ops = append(ops, op)
			}
		}
		for _, op := range ops {
			for variant := 0; variant < 4; variant++ {
				h := withWriterUse([]filt.Op{op}, variant)
				for _, cd := range []bool{false, true} {
					if cd && variant != 0 {
						continue
					}
					add(input{Kind: "hist", Policy: policy{Wrapper: "check", Rules: rulesFor("foo/r", 13)}, Hist: h, Backend: backendCfg{List: listing}, CtxDone: cd}, "writer")
					add(input{Kind: "hist", Policy: policy{Wrapper: "select", Names: []nameRule{{"foo/r", true}}}, Hist: h, Backend: backendCfg{List: listing}, CtxDone: cd}, "writer")
				}
			}
		}
	}
	// promoted methods of the embedded Funcs
	for _, m := range filt.Methods {
		add(input{Kind: "promoted", Policy: policy{Wrapper: "check"}, Method: m}, "promoted")
		add(input{Kind: "promoted", Policy: policy{Wrapper: "select", AllowDefault: true}, Method: m}, "promoted")
	}
	// ---- wrappers applied to each other, wrappers over registries of other dynamic types ----
	stackEnum(add, polsOf, writerUse)

	// ---- random histories over a few names with random policies ----
	names := []string{"foo/r", "bar", "a/b/c", "*", "zed", "Foo/R", ""}
	randPolicy := func() policy {
		if rnd.Intn(2) == 0 {
			p := policy{Wrapper: "select", AllowDefault: rnd.Intn(2) == 0}
			for _, n := range names {
				if rnd.Intn(3) > 0 {
					p.Names = append(p.Names, nameRule{S(n), rnd.Intn(2) == 0})
				}
			}
			return p
		}
		p := policy{Wrapper: "check"}
		if rnd.Intn(4) == 0 {
			p.Default = &filt.Err{Code: "UNAUTHORIZED", Tag: "policy-default"}
		}
		for _, n := range names {
			for k := 0; k < 4; k++ {
				switch rnd.Intn(4) {
				case 0:
					p.Rules = append(p.Rules, rule{S(n), k, perr(n, k)})
				case 1:
					p.Rules = append(p.Rules, rule{S(n), k, nil})
				}
			}
		}
		return p
	}
	nh := 400
	nseq := 300
	if cfg.Thorough() {
		nh, nseq = 6000, 12000
	}
	for i := 0; i < nh; i++ {
		var h []filt.Op
		writers := 0
		for n := 1 + rnd.Intn(5); n > 0; n-- {
			m := filt.Methods[rnd.Intn(len(filt.Methods))]
			h = append(h, randOp(rnd, m, S(names[rnd.Intn(len(names))]), S(names[rnd.Intn(len(names))])))
		}
		_ = writers
		var l []S
		for _, n := range names {
			if rnd.Intn(2) == 0 {
				l = append(l, S(n))
			}
		}
		bc := backendCfg{Fail: rnd.Intn(4) == 0, List: l}
		if rnd.Intn(3) == 0 {
			bc.ListErr = seqErr
		}
		// a PushBlobChunked* in a random history hands out a writer only when allowed; its use
		// is covered by the enumeration above, so here the writers are left alone
		add(input{Kind: "hist", Policy: randPolicy(), Hist: h, Backend: bc, CtxDone: rnd.Intn(5) == 0}, "random")
	}
	// ---- listings yield by yield: random contents, random policies, errors anywhere,
	// consumers that stop anywhere ----
	pool := []string{"foo/r", "bar", "a/b/c", "zed", "Foo/R", "m", "n/o", "p", "q/r/s", "t", "", "*", "../etc"}
	for i := 0; i < nseq; i++ {
		var evs []filt.Yield
		for n := rnd.Intn(9); n > 0; n-- {
			y := filt.Yield{Item: S(pool[rnd.Intn(len(pool))])}
			if rnd.Intn(7) == 0 {
				y.Err = &filt.Err{Code: errCodes[rnd.Intn(len(errCodes))], Tag: S(fmt.Sprintf("iteration-error-%d", len(evs)))}
				if rnd.Intn(2) == 0 {
					y.Item = ""
				}
			}
			evs = append(evs, y)
		}
		p := randPolicy()
		if p.Wrapper == "check" {
			// keep ("*", list) allowed so that the iteration happens
			var rs []rule
			for _, r := range p.Rules {
				if !(r.Repo == "*" && r.Kind == 3) {
					rs = append(rs, r)
				}
			}
			p.Rules = append([]rule{{Repo: "*", Kind: 3}}, rs...)
			// per-item rules on names of the pool
			for _, n := range pool {
				if rnd.Intn(3) == 0 {
					p.Rules = append(p.Rules, rule{S(n), 0, perr(n, 0)})
				}
			}
		} else {
			for _, n := range pool {
				if rnd.Intn(3) == 0 {
					p.Names = append(p.Names, nameRule{S(n), rnd.Intn(2) == 0})
				}
			}
		}
		in := input{Kind: "seq", Policy: p, Events: evs, Start: startPool[rnd.Intn(len(startPool))]}
		if rnd.Intn(3) > 0 {
			k := rnd.Intn(len(evs) + 2)
			in.Stop = &k
		}
		add(in, "random-seq")
	}
	// ---- the same through stacks of wrappers with independent policies ----
	nhs, nseqs := 350, 250
	if cfg.Thorough() {
		nhs, nseqs = 5000, 8000
	}
	stackRandom(add, rnd, randPolicy, names, nhs, nseqs)
	// ---- the iterator methods under every kind of consumer: stops anywhere, stops on the
	// error, carries on after the error, iterates again, never iterates (iter.go) ----
	niter := 400
	if cfg.Thorough() {
		niter = 10000
	}
	iterEnum(add)
	iterRandom(add, rnd, randPolicy, names, niter)
	if err := out.Flush(); err != nil {
		panic(err)
	}
}
