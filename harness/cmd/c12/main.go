// Harness for C12: drives ocifilter.AccessChecker and ocifilter.Select over a recording
// backend (ociregistry.Funcs with every field set).
package main

import (
	"context"
	"encoding/json"
	"fmt"
	"os"
	"reflect"
	"strings"

	"cuelabs.dev/go/oci/ociregistry"
	"cuelabs.dev/go/oci/ociregistry/ocifilter"

	"verif/harness/filt"
	"verif/harness/hx"
)

type S = filt.S

var kindNames = []string{"AccessRead", "AccessWrite", "AccessDelete", "AccessList"}

// rule: the AccessChecker policy's answer for (Repo, Kind): Err == nil means allowed.
type rule struct {
	Repo S         `json:"repo"`
	Kind int       `json:"kind"`
	Err  *filt.Err `json:"err,omitempty"`
}

type nameRule struct {
	Repo  S    `json:"repo"`
	Allow bool `json:"allow"`
}

type policy struct {
	Wrapper      string     `json:"wrapper"` // "check" | "select"
	Rules        []rule     `json:"rules,omitempty"`
	Default      *filt.Err  `json:"default,omitempty"`
	Names        []nameRule `json:"names,omitempty"`
	AllowDefault bool       `json:"allow_default,omitempty"`
}

// backendCfg decides the recording backend's answers.
type backendCfg struct {
	Fail    bool      `json:"fail,omitempty"`     // every call is answered with an error
	List    []S       `json:"list,omitempty"`     // items of Repositories / Tags
	ListErr *filt.Err `json:"list_err,omitempty"` // the error the iteration ends with
}

type input struct {
	Kind    string       `json:"kind"` // hist | seq | promoted
	Policy  policy       `json:"policy"`
	Hist    []filt.Op    `json:"hist,omitempty"`
	Backend backendCfg   `json:"backend"`
	Events  []filt.Yield `json:"events,omitempty"`
	Stop    *int         `json:"stop,omitempty"`
	Start   S            `json:"start,omitempty"`
	Method  string       `json:"method,omitempty"`
}

func (p policy) coq() string {
	if p.Wrapper == "select" {
		ns := make([]string, len(p.Names))
		for i, n := range p.Names {
			ns[i] = fmt.Sprintf("(%s, %s)", filt.B(n.Repo), hx.Bool(n.Allow))
		}
		return fmt.Sprintf("(PAllow %s %s)", hx.List(ns), hx.Bool(p.AllowDefault))
	}
	rs := make([]string, len(p.Rules))
	for i, r := range p.Rules {
		rs[i] = fmt.Sprintf("(%s, %s, %s)", filt.B(r.Repo), kindNames[r.Kind], filt.OptErr(r.Err))
	}
	return fmt.Sprintf("(PCheck %s %s)", hx.List(rs), filt.OptErr(p.Default))
}

// wrap builds the real wrapper; policyCalls counts the calls made to the policy.
func (p policy) wrap(r ociregistry.Interface, policyCalls *int) ociregistry.Interface {
	if p.Wrapper == "select" {
		return ocifilter.Select(r, func(repo string) bool {
			*policyCalls++
			for _, n := range p.Names {
				if string(n.Repo) == repo {
					return n.Allow
				}
			}
			return p.AllowDefault
		})
	}
	// one error object per rule, so that identity is observable
	errs := make([]error, len(p.Rules))
	for i, r := range p.Rules {
		errs[i] = r.Err.Go()
	}
	def := p.Default.Go()
	return ocifilter.AccessChecker(r, func(repo string, access ocifilter.AccessKind) error {
		*policyCalls++
		for i, r := range p.Rules {
			if string(r.Repo) == repo && r.Kind == int(access) {
				return errs[i]
			}
		}
		return def
	})
}

var errCodes = []string{"BLOB_UNKNOWN", "MANIFEST_UNKNOWN", "NAME_UNKNOWN", "DENIED", "UNAUTHORIZED", "", "TOOMANYREQUESTS", "MY_CODE"}

func (cfg backendCfg) answer(b *filt.Backend) func(op filt.Op) filt.Res {
	return func(op filt.Op) filt.Res {
		tag := op.M + ":" + string(op.Repo)
		if op.M == "MountBlob" {
			tag += ">" + string(op.Repo2)
		}
		berr := &filt.Err{Code: errCodes[len(tag)%len(errCodes)], Tag: S("backend-error:" + tag)}
		desc := &filt.Desc{Media: S("result/" + op.M), Digest: S("sha256:" + fmt.Sprintf("%064x", len(tag)*7919)), Size: int64(100 + len(tag)), Artifact: S("art/" + op.M)}
		switch op.M {
		case "Repositories", "Tags":
			if cfg.Fail {
				return filt.Res{Kind: "list", List: []S{}, SeqErr: berr}
			}
			l := cfg.List
			if l == nil {
				l = []S{}
			}
			return filt.Res{Kind: "list", List: l, SeqErr: cfg.ListErr}
		case "Referrers":
			if cfg.Fail {
				return filt.Res{Kind: "descs", Descs: []filt.Desc{}, SeqErr: berr}
			}
			return filt.Res{Kind: "descs", Descs: []filt.Desc{*desc, {Media: "second"}}, SeqErr: cfg.ListErr}
		case "WSize":
			return filt.Res{Kind: "n", N: 4242}
		case "WChunkSize":
			return filt.Res{Kind: "n", N: 777}
		case "WID":
			return filt.Res{Kind: "str", Str: S(fmt.Sprintf("upload-id-%d", op.W))}
		}
		if cfg.Fail {
			return filt.Res{Kind: "err", Err: berr}
		}
		switch op.M {
		case "GetBlob", "GetBlobRange", "GetManifest", "GetTag":
			return filt.Res{Kind: "read", Desc: desc, Data: S("content-of:" + tag)}
		case "ResolveBlob", "ResolveManifest", "ResolveTag", "PushBlob", "MountBlob", "PushManifest", "WCommit":
			return filt.Res{Kind: "desc", Desc: desc}
		case "PushBlobChunked", "PushBlobChunkedResume":
			return filt.Res{Kind: "writer", W: b.NextWriter()}
		case "DeleteBlob", "DeleteManifest", "DeleteTag", "WClose", "WCancel":
			return filt.Res{Kind: "unit"}
		case "WWrite":
			return filt.Res{Kind: "n", N: int64(len(op.Data))}
		}
		panic("unhandled " + op.M)
	}
}

type obsOp struct {
	Res   filt.Res    `json:"res"`
	Calls []filt.Call `json:"calls"`
}

type observed struct {
	Ops          []obsOp      `json:"ops,omitempty"`
	Yields       []filt.Yield `json:"yields,omitempty"`
	Delivered    int          `json:"delivered,omitempty"`
	EmbeddedNil  bool         `json:"embedded_nil,omitempty"`
	Res          *filt.Res    `json:"res,omitempty"`
	PolicyCalls  int          `json:"policy_calls"`
	BackendCalls int          `json:"backend_calls"`
}

func runHist(in input) (string, observed) {
	ctx := context.Background()
	b := &filt.Backend{}
	b.Answer = in.Backend.answer(b)
	var pc int
	w := in.Policy.wrap(b.Interface(), &pc)
	ws := &filt.Writers{Index: b.WriterIndex}
	var obs observed
	var terms []string
	for _, op := range in.Hist {
		mark := b.Mark()
		res := filt.Invoke(ctx, w, op, ws)
		calls := b.Since(mark)
		obs.Ops = append(obs.Ops, obsOp{res, calls})
		cs := make([]string, len(calls))
		for i, c := range calls {
			cs[i] = "(" + c.Op.Coq() + ", " + c.Res.Coq() + ")"
		}
		terms = append(terms, "("+res.Coq()+", "+hx.List(cs)+")")
	}
	obs.PolicyCalls, obs.BackendCalls = pc, len(b.Calls)
	return fmt.Sprintf("CHist %s %s %s", in.Policy.coq(), filt.OpsCoq(in.Hist), hx.List(terms)), obs
}

func runSeq(in input) (string, observed) {
	ctx := context.Background()
	b := &filt.Backend{RawRepos: in.Events}
	if b.RawRepos == nil {
		b.RawRepos = []filt.Yield{}
	}
	b.Answer = in.Backend.answer(b)
	var pc int
	w := in.Policy.wrap(b.Interface(), &pc)
	var obs observed
	obs.Yields = []filt.Yield{}
	panicked, pv := hx.Recover(func() {
		w.Repositories(ctx, string(in.Start))(func(item string, err error) bool {
			obs.Yields = append(obs.Yields, filt.Yield{Item: S(item), Err: filt.ErrOf(err)})
			return in.Stop == nil || len(obs.Yields)-1 != *in.Stop
		})
	})
	if panicked {
		obs.Yields = append(obs.Yields, filt.Yield{Item: "PANIC", Err: &filt.Err{Tag: S(pv)}})
	}
	obs.Delivered = b.Delivered
	obs.PolicyCalls, obs.BackendCalls = pc, len(b.Calls)
	stop := "None"
	if in.Stop != nil {
		stop = fmt.Sprintf("(Some %d)", *in.Stop)
	}
	return fmt.Sprintf("CSeq %s %s %s %s %s %d", in.Policy.coq(), filt.B(in.Start), filt.YieldsCoq(in.Events), stop,
		filt.YieldsCoq(obs.Yields), obs.Delivered), obs
}

// runPromoted calls method in.Method of the *ociregistry.Funcs embedded in the wrapper
// value: that is the method Go would promote if the wrapper type did not declare it.
func runPromoted(in input) (string, observed) {
	b := &filt.Backend{}
	b.Answer = in.Backend.answer(b)
	var pc int
	w := in.Policy.wrap(b.Interface(), &pc)
	var obs observed
	fld := reflect.ValueOf(w).Elem().FieldByName("Funcs")
	res := filt.Res{Kind: "err", Err: &filt.Err{Tag: "no embedded Funcs field"}}
	if fld.IsValid() && fld.Type() == reflect.TypeOf((*ociregistry.Funcs)(nil)) {
		obs.EmbeddedNil = fld.IsNil()
		// the embedded pointer is used as Go uses it: as the receiver of the promoted method
		f := fld.Interface().(*ociregistry.Funcs)
		op := sampleOp(in.Method, "some/repo", "other/repo")
		res = filt.Invoke(context.Background(), f, op, &filt.Writers{})
	}
	obs.Res = &res
	obs.PolicyCalls, obs.BackendCalls = pc, len(b.Calls)
	return fmt.Sprintf("CPromoted %s M%s %s %s %d", in.Policy.coq(), in.Method, hx.Bool(obs.EmbeddedNil), res.Coq(), pc+len(b.Calls)), obs
}

func sampleOp(m string, repo, repo2 string) filt.Op {
	op := filt.Op{M: m, Repo: S(repo)}
	dg := S("sha256:ffffffffffffffffffffffffffffffffffffffffffffffffffffffffffffffff")
	switch m {
	case "GetBlob", "GetManifest", "ResolveBlob", "ResolveManifest", "DeleteBlob", "DeleteManifest":
		op.Digest = dg
	case "GetBlobRange":
		op.Digest, op.O0, op.O1 = dg, 3, 17
	case "GetTag", "ResolveTag", "DeleteTag":
		op.Tag = "sometag"
	case "PushBlob":
		op.Desc = &filt.Desc{Media: "application/json", Digest: dg, Size: 3}
		op.Content = "foo"
	case "PushBlobChunked":
		op.Hint = 11
	case "PushBlobChunkedResume":
		op.ID, op.Off, op.Hint = "/someid", 3, 5
	case "MountBlob":
		op.Repo2, op.Digest = S(repo2), dg
	case "PushManifest":
		op.Tag, op.Content, op.Media = "sometag", "something", "application/json"
	case "Repositories":
		op.Repo, op.Start = "", "start/after"
	case "Tags":
		op.Start = "starttag"
	case "Referrers":
		op.Digest, op.Art = dg, "some/artifact"
	}
	return op
}

func runCase(in input) (string, observed) {
	switch in.Kind {
	case "hist":
		return runHist(in)
	case "seq":
		return runSeq(in)
	case "promoted":
		return runPromoted(in)
	}
	panic("unknown case kind " + in.Kind)
}

func outcomeKind(in input, obs observed) string {
	switch in.Kind {
	case "seq":
		return "seq"
	case "promoted":
		return "promoted"
	}
	k := "passed"
	for _, o := range obs.Ops {
		if o.Res.Kind == "panic" {
			return "panic"
		}
		if len(o.Calls) == 0 {
			k = "stopped"
		}
	}
	return k
}

func main() {
	cfg := hx.ParseFlags()
	out := hx.NewOut(cfg, "Obs.C12")
	add := func(in input, origin string) {
		coq, obs := runCase(in)
		m := in.Method
		if len(in.Hist) > 0 {
			m = in.Hist[0].M
		}
		if in.Kind == "seq" {
			m = "Repositories"
		}
		kind := outcomeKind(in, obs)
		if out.Add(hx.Case{Coq: coq, Desc: map[string]any{"input": in, "observed": obs, "origin": origin},
			Tags: map[string]any{"class": in.Policy.Wrapper + "/" + in.Kind + "/" + m + "/" + kind, "method": m, "wrapper": in.Policy.Wrapper, "observed_kind": kind}}) {
			out.Count("kind:" + in.Kind)
			out.Count("wrapper:" + in.Policy.Wrapper)
			out.Count("method:" + m)
			out.Count("origin:" + origin)
			out.Count("outcome:" + kind)
		}
	}
	if cfg.Replay != "" {
		data, err := os.ReadFile(cfg.Replay)
		if err != nil {
			panic(err)
		}
		var r struct {
			Input input `json:"input"`
		}
		if err := json.Unmarshal(data, &r); err != nil {
			panic(err)
		}
		add(r.Input, "replay")
		if err := out.Flush(); err != nil {
			panic(err)
		}
		return
	}
	for _, raw := range hx.LoadCorpus(cfg.Corpus) {
		var r struct {
			Input input `json:"input"`
		}
		if json.Unmarshal(raw, &r) == nil && r.Input.Kind != "" {
			add(r.Input, "corpus")
		}
	}
	rnd := cfg.Rand()
	perr := func(repo string, k int) *filt.Err {
		return &filt.Err{Code: errCodes[(k+len(repo))%len(errCodes)], Tag: S(fmt.Sprintf("policy-error:%s:%s", repo, kindNames[k]))}
	}
	// rules for repo: kinds in the bitmask are rejected (each with its own error), the
	// others explicitly allowed
	rulesFor := func(repo string, mask int) []rule {
		var rs []rule
		for k := 0; k < 4; k++ {
			r := rule{Repo: S(repo), Kind: k}
			if mask&(1<<k) != 0 {
				r.Err = perr(repo, k)
			}
			rs = append(rs, r)
		}
		return rs
	}
	single := []string{"GetBlob", "GetBlobRange", "GetManifest", "GetTag", "ResolveBlob", "ResolveManifest", "ResolveTag",
		"PushBlob", "PushBlobChunked", "PushBlobChunkedResume", "PushManifest", "DeleteBlob", "DeleteManifest", "DeleteTag", "Tags", "Referrers"}
	listing := []S{"a/one", "foo/r", "b/two", "zed"}
	seqErr := &filt.Err{Code: "TOOMANYREQUESTS", Tag: "backend-iteration-error"}
	// the operations a caller makes on a writer it was given
	writerUse := func(variant int) []filt.Op {
		ops := []filt.Op{{M: "WID"}, {M: "WWrite", Data: "some data"}, {M: "WSize"}, {M: "WChunkSize"}}
		switch variant {
		case 0:
			ops = append(ops, filt.Op{M: "WCommit", Digest: "sha256:0000000000000000000000000000000000000000000000000000000000000000"})
		case 1:
			ops = append(ops, filt.Op{M: "WClose"})
		default:
			ops = append(ops, filt.Op{M: "WCancel"}, filt.Op{M: "WCancel"})
		}
		return ops
	}
	histFor := func(m, repo, repo2 string, variant int) []filt.Op {
		h := []filt.Op{sampleOp(m, repo, repo2)}
		return h
	}
	withWriterUse := func(h []filt.Op, variant int) []filt.Op {
		return append(append([]filt.Op{}, h...), writerUse(variant)...)
	}

	// ---- complete enumeration: method x allow/deny assignment x wrapper x backend answer ----
	for _, fail := range []bool{false, true} {
		bc := backendCfg{Fail: fail, List: listing}
		// AccessChecker, one repository: every subset of the four kinds rejected
		for _, m := range single {
			for mask := 0; mask < 16; mask++ {
				for _, def := range []*filt.Err{nil, {Code: "DENIED", Tag: "policy-default"}} {
					if def != nil && mask != 0 && mask != 15 && mask != 5 {
						continue
					}
					in := input{Kind: "hist", Policy: policy{Wrapper: "check", Rules: rulesFor("foo/r", mask), Default: def},
						Hist: histFor(m, "foo/r", "", 0), Backend: bc}
					add(in, "enum")
				}
			}
		}
		// AccessChecker, mount: every subset of {read, write} on each side, with and
		// without the other two kinds rejected; and the same repository on both sides
		for mf := 0; mf < 4; mf++ {
			for mt := 0; mt < 4; mt++ {
				for _, other := range []int{0, 12} {
					rs := append(rulesFor("src/r", mf|other), rulesFor("dst/r", mt|other)...)
					add(input{Kind: "hist", Policy: policy{Wrapper: "check", Rules: rs}, Hist: histFor("MountBlob", "src/r", "dst/r", 0), Backend: bc}, "enum")
				}
			}
		}
		for mask := 0; mask < 16; mask++ {
			add(input{Kind: "hist", Policy: policy{Wrapper: "check", Rules: rulesFor("same/r", mask)}, Hist: histFor("MountBlob", "same/r", "same/r", 0), Backend: bc}, "enum")
		}
		// AccessChecker, Repositories: every subset of kinds rejected for "*", items filtered
		for mask := 0; mask < 16; mask++ {
			for _, le := range []*filt.Err{nil, seqErr} {
				bc2 := bc
				bc2.ListErr = le
				rs := append(rulesFor("*", mask), rule{Repo: "foo/r", Kind: 0, Err: perr("foo/r", 0)}, rule{Repo: "zed", Kind: 3, Err: perr("zed", 3)})
				add(input{Kind: "hist", Policy: policy{Wrapper: "check", Rules: rs}, Hist: histFor("Repositories", "", "", 0), Backend: bc2}, "enum")
			}
		}
		// Select, one repository (including the name "*")
		for _, m := range single {
			for _, repo := range []string{"foo/r", "*"} {
				for _, allow := range []bool{false, true} {
					for _, def := range []bool{false, true} {
						in := input{Kind: "hist", Policy: policy{Wrapper: "select", Names: []nameRule{{S(repo), allow}}, AllowDefault: def},
							Hist: histFor(m, repo, "", 0), Backend: bc}
						add(in, "enum")
					}
				}
			}
		}
		// Select, mount
		for _, af := range []bool{false, true} {
			for _, at := range []bool{false, true} {
				add(input{Kind: "hist", Policy: policy{Wrapper: "select", Names: []nameRule{{"src/r", af}, {"dst/r", at}}, AllowDefault: !af},
					Hist: histFor("MountBlob", "src/r", "dst/r", 0), Backend: bc}, "enum")
			}
			add(input{Kind: "hist", Policy: policy{Wrapper: "select", Names: []nameRule{{"same/r", af}}, AllowDefault: !af},
				Hist: histFor("MountBlob", "same/r", "same/r", 0), Backend: bc}, "enum")
		}
		// Select, Repositories: whatever allow says about "*", listing is permitted and filtered
		for _, star := range []bool{false, true} {
			for _, def := range []bool{false, true} {
				for _, le := range []*filt.Err{nil, seqErr} {
					bc2 := bc
					bc2.ListErr = le
					add(input{Kind: "hist", Policy: policy{Wrapper: "select", Names: []nameRule{{"*", star}, {"foo/r", false}, {"a/one", true}}, AllowDefault: def},
						Hist: histFor("Repositories", "", "", 0), Backend: bc2}, "enum")
				}
			}
		}
		// BlobWriter use after PushBlobChunked / PushBlobChunkedResume, both wrappers
		for _, m := range []string{"PushBlobChunked", "PushBlobChunkedResume"} {
			for variant := 0; variant < 3; variant++ {
				if fail {
					continue // no writer is handed out when the backend fails
				}
				h := withWriterUse(histFor(m, "foo/r", "", 0), variant)
				for _, mask := range []int{0, 1, 4, 8, 13} {
					add(input{Kind: "hist", Policy: policy{Wrapper: "check", Rules: rulesFor("foo/r", mask)}, Hist: h, Backend: bc}, "writer")
				}
				add(input{Kind: "hist", Policy: policy{Wrapper: "select", Names: []nameRule{{"foo/r", true}}}, Hist: h, Backend: bc}, "writer")
			}
		}
	}
	// promoted methods of the embedded Funcs
	for _, m := range filt.Methods {
		add(input{Kind: "promoted", Policy: policy{Wrapper: "check"}, Method: m}, "promoted")
		add(input{Kind: "promoted", Policy: policy{Wrapper: "select", AllowDefault: true}, Method: m}, "promoted")
	}

	// ---- random histories over a few names with random policies ----
	names := []string{"foo/r", "bar", "a/b/c", "*", "zed", "Foo/R"}
	randPolicy := func() policy {
		if rnd.Intn(2) == 0 {
			p := policy{Wrapper: "select", AllowDefault: rnd.Intn(2) == 0}
			for _, n := range names {
				if rnd.Intn(3) > 0 {
					p.Names = append(p.Names, nameRule{S(n), rnd.Intn(2) == 0})
				}
			}
			return p
		}
		p := policy{Wrapper: "check"}
		if rnd.Intn(4) == 0 {
			p.Default = &filt.Err{Code: "UNAUTHORIZED", Tag: "policy-default"}
		}
		for _, n := range names {
			for k := 0; k < 4; k++ {
				switch rnd.Intn(4) {
				case 0:
					p.Rules = append(p.Rules, rule{S(n), k, perr(n, k)})
				case 1:
					p.Rules = append(p.Rules, rule{S(n), k, nil})
				}
			}
		}
		return p
	}
	nh := 150
	nseq := 300
	if cfg.Thorough() {
		nh, nseq = 6000, 12000
	}
	for i := 0; i < nh; i++ {
		var h []filt.Op
		writers := 0
		for n := 1 + rnd.Intn(5); n > 0; n-- {
			m := filt.Methods[rnd.Intn(len(filt.Methods))]
			h = append(h, sampleOp(m, names[rnd.Intn(len(names))], names[rnd.Intn(len(names))]))
		}
		_ = writers
		var l []S
		for _, n := range names {
			if rnd.Intn(2) == 0 {
				l = append(l, S(n))
			}
		}
		bc := backendCfg{Fail: rnd.Intn(4) == 0, List: l}
		if rnd.Intn(3) == 0 {
			bc.ListErr = seqErr
		}
		// a PushBlobChunked* in a random history hands out a writer only when allowed; its use
		// is covered by the enumeration above, so here the writers are left alone
		add(input{Kind: "hist", Policy: randPolicy(), Hist: h, Backend: bc}, "random")
	}
	// ---- listings yield by yield: random contents, random policies, errors anywhere,
	// consumers that stop anywhere ----
	pool := []string{"foo/r", "bar", "a/b/c", "zed", "Foo/R", "m", "n/o", "p", "q/r/s", "t"}
	for i := 0; i < nseq; i++ {
		var evs []filt.Yield
		for n := rnd.Intn(9); n > 0; n-- {
			y := filt.Yield{Item: S(pool[rnd.Intn(len(pool))])}
			if rnd.Intn(7) == 0 {
				y.Err = &filt.Err{Code: errCodes[rnd.Intn(len(errCodes))], Tag: S(fmt.Sprintf("iteration-error-%d", len(evs)))}
				if rnd.Intn(2) == 0 {
					y.Item = ""
				}
			}
			evs = append(evs, y)
		}
		p := randPolicy()
		if p.Wrapper == "check" {
			// keep ("*", list) allowed so that the iteration happens
			var rs []rule
			for _, r := range p.Rules {
				if !(r.Repo == "*" && r.Kind == 3) {
					rs = append(rs, r)
				}
			}
			p.Rules = append([]rule{{Repo: "*", Kind: 3}}, rs...)
			// per-item rules on names of the pool
			for _, n := range pool {
				if rnd.Intn(3) == 0 {
					p.Rules = append(p.Rules, rule{S(n), 0, perr(n, 0)})
				}
			}
		} else {
			for _, n := range pool {
				if rnd.Intn(3) == 0 {
					p.Names = append(p.Names, nameRule{S(n), rnd.Intn(2) == 0})
				}
			}
		}
		in := input{Kind: "seq", Policy: p, Events: evs, Start: S(strings.Repeat("s", rnd.Intn(2)))}
		if rnd.Intn(3) > 0 {
			k := rnd.Intn(len(evs) + 2)
			in.Stop = &k
		}
		add(in, "random-seq")
	}
	if err := out.Flush(); err != nil {
		panic(err)
	}
}
