package main

import (
	"context"
	"fmt"

	"cuelabs.dev/go/oci/ociregistry/ocidebug"
	"cuelabs.dev/go/oci/ociregistry/ocimem"
	"cuelabs.dev/go/oci/ociregistry/ociunify"
)

func main() {
	defer func() {
		if r := recover(); r != nil {
			fmt.Println("PANIC:", r)
		}
	}()
	mem := ocimem.New()
	u := ociunify.New(ocidebug.New(mem, func(string, ...any) {}), mem, nil)
	w, err := u.PushBlobChunked(context.Background(), "BAD NAME", 0)
	fmt.Println(w, err)
}
