package main

// Coq term printers for the Iface vocabulary, and the classification of errors.

import (
	"encoding/base64"
	"encoding/json"
	"errors"
	"fmt"
	"strings"

	"cuelabs.dev/go/oci/ociregistry"
	"verif/harness/hx"
)

func bterm(s string) string { return hx.B(s) }
func zterm(n int64) string  { return hx.Z(n) }
func bsterm(ss []string) string {
	return hx.Bs(ss)
}

func descTerm(d ociregistry.Descriptor) string {
	return fmt.Sprintf("{| d_media := %s; d_digest := %s; d_size := %s; d_artifact := %s |}",
		bterm(d.MediaType), bterm(string(d.Digest)), zterm(d.Size), bterm(d.ArtifactType))
}

func descsTerm(ds []ociregistry.Descriptor) string {
	out := make([]string, len(ds))
	for i, d := range ds {
		out[i] = descTerm(d)
	}
	return hx.List(out)
}

var knownCodes = map[string]string{
	"BLOB_UNKNOWN": "BLOB_UNKNOWN", "BLOB_UPLOAD_INVALID": "BLOB_UPLOAD_INVALID", "BLOB_UPLOAD_UNKNOWN": "BLOB_UPLOAD_UNKNOWN",
	"DIGEST_INVALID": "DIGEST_INVALID", "MANIFEST_BLOB_UNKNOWN": "MANIFEST_BLOB_UNKNOWN", "MANIFEST_INVALID": "MANIFEST_INVALID",
	"MANIFEST_UNKNOWN": "MANIFEST_UNKNOWN", "NAME_INVALID": "NAME_INVALID", "NAME_UNKNOWN": "NAME_UNKNOWN",
	"SIZE_INVALID": "SIZE_INVALID", "UNAUTHORIZED": "UNAUTHORIZED", "DENIED": "DENIED", "UNSUPPORTED": "UNSUPPORTED",
	"TOOMANYREQUESTS": "TOOMANYREQUESTS", "RANGE_INVALID": "RANGE_INVALID",
}

// codeTerm: the OCI code errors.As finds in err, as an ecode term.
func codeTerm(err error) string {
	var oe ociregistry.Error
	if errors.As(err, &oe) {
		c := oe.Code()
		if k, ok := knownCodes[c]; ok {
			return k
		}
		if c != "" {
			return "(ECustom " + bterm(c) + ")"
		}
	}
	return "ENone"
}

func codeName(err error) string {
	var oe ociregistry.Error
	if errors.As(err, &oe) {
		return oe.Code()
	}
	return ""
}

// shape: which member errors err is or wraps, as the model's tag: a member's own error is
// its name; a wrapper is w(...) of what it wraps; an error with no member error inside is
// "unifier".
func shape(err error) string {
	if t, ok := err.(*tagged); ok {
		return t.tag
	}
	switch x := err.(type) {
	case interface{ Unwrap() []error }:
		var parts []string
		for _, e := range x.Unwrap() {
			if e == nil {
				continue
			}
			if s := shape(e); s != "unifier" {
				parts = append(parts, s)
			}
		}
		if len(parts) == 0 {
			return "unifier"
		}
		return "w(" + strings.Join(parts, ";") + ")"
	case interface{ Unwrap() error }:
		inner := x.Unwrap()
		if inner == nil {
			return "unifier"
		}
		s := shape(inner)
		if s == "unifier" {
			return "unifier"
		}
		return "w(" + s + ")"
	}
	return "unifier"
}

// errTerm of an error returned by the unifier
func uErrTerm(err error) string {
	return fmt.Sprintf("Err (E %s %s)", codeTerm(err), bterm(shape(err)))
}

func optErrTerm(err error) string {
	if err == nil {
		return "None"
	}
	return fmt.Sprintf("(Some (E %s %s))", codeTerm(err), bterm(shape(err)))
}

// ---- op terms ----

func opGetBlob(r, d string) string         { return fmt.Sprintf("GetBlob %s %s", bterm(r), bterm(d)) }
func opGetManifest(r, d string) string     { return fmt.Sprintf("GetManifest %s %s", bterm(r), bterm(d)) }
func opGetTag(r, t string) string          { return fmt.Sprintf("GetTag %s %s", bterm(r), bterm(t)) }
func opResolveBlob(r, d string) string     { return fmt.Sprintf("ResolveBlob %s %s", bterm(r), bterm(d)) }
func opResolveManifest(r, d string) string { return fmt.Sprintf("ResolveManifest %s %s", bterm(r), bterm(d)) }
func opResolveTag(r, t string) string      { return fmt.Sprintf("ResolveTag %s %s", bterm(r), bterm(t)) }
func opGetBlobRange(r, d string, o0, o1 int64) string {
	return fmt.Sprintf("GetBlobRange %s %s %s %s", bterm(r), bterm(d), zterm(o0), zterm(o1))
}
func opPushBlob(r string, d ociregistry.Descriptor, content string) string {
	return fmt.Sprintf("PushBlob %s %s %s", bterm(r), descTerm(d), bterm(content))
}
func opPushBlobChunked(r string, hint int) string {
	return fmt.Sprintf("PushBlobChunked %s %s", bterm(r), zterm(int64(hint)))
}
func opResume(r, id string, off int64, hint int) string {
	return fmt.Sprintf("PushBlobChunkedResume %s %s %s %s", bterm(r), bterm(id), zterm(off), zterm(int64(hint)))
}
func opMountBlob(f, t, d string) string {
	return fmt.Sprintf("MountBlob %s %s %s", bterm(f), bterm(t), bterm(d))
}
func opPushManifest(r, t, c, m string) string {
	return fmt.Sprintf("PushManifest %s %s %s %s", bterm(r), bterm(t), bterm(c), bterm(m))
}
func opDeleteBlob(r, d string) string     { return fmt.Sprintf("DeleteBlob %s %s", bterm(r), bterm(d)) }
func opDeleteManifest(r, d string) string { return fmt.Sprintf("DeleteManifest %s %s", bterm(r), bterm(d)) }
func opDeleteTag(r, t string) string      { return fmt.Sprintf("DeleteTag %s %s", bterm(r), bterm(t)) }
func opRepositories(a string) string      { return fmt.Sprintf("Repositories %s", bterm(a)) }
func opTags(r, a string) string           { return fmt.Sprintf("Tags %s %s", bterm(r), bterm(a)) }
func opReferrers(r, d, a string) string {
	return fmt.Sprintf("Referrers %s %s %s", bterm(r), bterm(d), bterm(a))
}

func callsTerm(cs []call) string {
	out := make([]string, len(cs))
	for i, c := range cs {
		out[i] = "(" + c.Op + ", " + c.Res + ")"
	}
	return hx.List(out)
}

// ---- the reference codec for composite upload IDs (the harness's own) ----

func refEncode(id0, id1 string) string {
	data, _ := json.Marshal([]string{id0, id1})
	return base64.RawURLEncoding.EncodeToString(data)
}

// refDecode: nil, false = malformed
func refDecode(id string) ([]string, bool) {
	data, err := base64.RawURLEncoding.DecodeString(id)
	if err != nil {
		return nil, false
	}
	var ids []string
	if err := json.Unmarshal(data, &ids); err != nil {
		return nil, false
	}
	return ids, true
}

type codecTabs struct {
	enc  []string
	dec  []string
	seen map[string]bool
}

func (t *codecTabs) addEnc(a, b string) {
	k := "e\x00" + a + "\x00" + b
	if t.seen[k] {
		return
	}
	t.seen[k] = true
	t.enc = append(t.enc, fmt.Sprintf("(%s, %s, %s)", bterm(a), bterm(b), bterm(refEncode(a, b))))
}

func (t *codecTabs) addDec(id string) {
	k := "d\x00" + id
	if t.seen[k] {
		return
	}
	t.seen[k] = true
	ids, ok := refDecode(id)
	v := "None"
	if ok {
		v = "(Some " + bsterm(ids) + ")"
	}
	t.dec = append(t.dec, fmt.Sprintf("(%s, %s)", bterm(id), v))
}
