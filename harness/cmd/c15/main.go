// Harness for C15: drives ociunify.New(m0, m1, opts) over recording members (rec.go).
//
// Two kinds of case (coq/Obs/C15.v):
//
//	read   one read / listing call on a unifier over two members in given states (real
//	       ocimem registries populated differently, or scripted fakes that answer every
//	       call with a fixed result), both read policies, both arrival orders;
//	hist   a history of calls through a unifier over two ocimem registries that start
//	       equal, with chunked uploads, resume by composite ID, optional injected member
//	       failures; every member call is recorded, both members are snapshotted
//	       around every step.
package main

import (
	"context"
	"encoding/base64"
	"encoding/json"
	"errors"
	"fmt"
	"io"
	"math/rand"
	"net/http"
	"net/http/httptest"
	"net/url"
	"os"
	"sort"
	"strings"
	"time"

	"cuelabs.dev/go/oci/ociregistry"
	"cuelabs.dev/go/oci/ociregistry/ociclient"
	"cuelabs.dev/go/oci/ociregistry/ocidebug"
	"cuelabs.dev/go/oci/ociregistry/ocimem"
	"cuelabs.dev/go/oci/ociregistry/ociserver"
	"cuelabs.dev/go/oci/ociregistry/ociunify"
	"github.com/opencontainers/go-digest"

	"verif/harness/hx"
)

// ---------------------------------------------------------------- inputs

type descJ struct {
	Media  string `json:"media,omitempty"`
	Digest string `json:"digest,omitempty"`
	Size   int64  `json:"size,omitempty"`
	Art    string `json:"art,omitempty"`
}

func (d descJ) desc() ociregistry.Descriptor {
	return ociregistry.Descriptor{MediaType: d.Media, Digest: ociregistry.Digest(d.Digest), Size: d.Size, ArtifactType: d.Art}
}

// Op is one call of the Interface (or of a BlobWriter obtained earlier, W = its number in
// creation order on the unifier).
type Op struct {
	M       string `json:"m"`
	Repo    string `json:"repo,omitempty"`
	To      string `json:"to,omitempty"`
	Digest  string `json:"digest,omitempty"`
	Tag     string `json:"tag,omitempty"`
	Start   string `json:"start,omitempty"`
	Art     string `json:"art,omitempty"`
	O0      int64  `json:"o0,omitempty"`
	O1      int64  `json:"o1,omitempty"`
	Desc    descJ  `json:"desc,omitempty"`
	Content string `json:"content,omitempty"`
	Media   string `json:"media,omitempty"`
	ID      string `json:"id,omitempty"`
	Off     int64  `json:"off,omitempty"`
	Chunk   int    `json:"chunk,omitempty"`
	W       int    `json:"w,omitempty"`
	Data    string `json:"data,omitempty"`
	// Late: 0 = no delay; 1 = member 0 answers late; 2 = member 1 answers late
	Late int `json:"late,omitempty"`
	// Forged: the upload ID was not obtained from this unifier's writer for one upload
	Forged bool `json:"forged,omitempty"`
}

type fakeErr struct {
	Code string `json:"code"` // "" = plain error
}

// fakeRes: what a scripted member answers to every call.
type fakeRes struct {
	Err      *fakeErr `json:"err,omitempty"`
	Desc     descJ    `json:"desc,omitempty"`
	Data     string   `json:"data,omitempty"`
	Items    []string `json:"items,omitempty"`
	Descs    []descJ  `json:"descs,omitempty"`
	ItemsErr *fakeErr `json:"items_err,omitempty"`
}

type memberSpec struct {
	// mem | debug (ocidebug over ocimem) | fake | remote (ociclient -> HTTP -> ociserver over
	// ocimem: answers, errors and content streams are what a registry across the network gives)
	Kind  string   `json:"kind"`
	Setup []Op     `json:"setup,omitempty"`
	Fake  *fakeRes `json:"fake,omitempty"`
}

type input struct {
	Kind     string     `json:"kind"`   // read | hist
	Policy   string     `json:"policy"` // seq | conc
	Scenario string     `json:"scenario,omitempty"`
	M0       memberSpec `json:"m0"`
	M1       memberSpec `json:"m1"`
	Op       *Op        `json:"op,omitempty"`    // read
	Steps    []Op       `json:"steps,omitempty"` // hist
	Fault0   *fault     `json:"fault0,omitempty"`
	Fault1   *fault     `json:"fault1,omitempty"`
}

// ---------------------------------------------------------------- op terms

func (o Op) term() string {
	switch o.M {
	case "GetBlob":
		return opGetBlob(o.Repo, o.Digest)
	case "GetBlobRange":
		return opGetBlobRange(o.Repo, o.Digest, o.O0, o.O1)
	case "GetManifest":
		return opGetManifest(o.Repo, o.Digest)
	case "GetTag":
		return opGetTag(o.Repo, o.Tag)
	case "ResolveBlob":
		return opResolveBlob(o.Repo, o.Digest)
	case "ResolveManifest":
		return opResolveManifest(o.Repo, o.Digest)
	case "ResolveTag":
		return opResolveTag(o.Repo, o.Tag)
	case "PushBlob":
		return opPushBlob(o.Repo, o.Desc.desc(), o.Content)
	case "PushBlobChunked":
		return opPushBlobChunked(o.Repo, o.Chunk)
	case "PushBlobChunkedResume":
		return opResume(o.Repo, o.ID, o.Off, o.Chunk)
	case "MountBlob":
		return opMountBlob(o.Repo, o.To, o.Digest)
	case "PushManifest":
		return opPushManifest(o.Repo, o.Tag, o.Content, o.Media)
	case "DeleteBlob":
		return opDeleteBlob(o.Repo, o.Digest)
	case "DeleteManifest":
		return opDeleteManifest(o.Repo, o.Digest)
	case "DeleteTag":
		return opDeleteTag(o.Repo, o.Tag)
	case "Repositories":
		return opRepositories(o.Start)
	case "Tags":
		return opTags(o.Repo, o.Start)
	case "Referrers":
		return opReferrers(o.Repo, o.Digest, o.Art)
	case "WWrite":
		return fmt.Sprintf("WWrite %d %s", o.W, bterm(o.Data))
	case "WClose":
		return fmt.Sprintf("WClose %d", o.W)
	case "WCancel":
		return fmt.Sprintf("WCancel %d", o.W)
	case "WSize":
		return fmt.Sprintf("WSize %d", o.W)
	case "WChunkSize":
		return fmt.Sprintf("WChunkSize %d", o.W)
	case "WID":
		return fmt.Sprintf("WID %d", o.W)
	case "WCommit":
		return fmt.Sprintf("WCommit %d %s", o.W, bterm(o.Digest))
	}
	panic("unknown method " + o.M)
}

func isDigestRead(m string) bool {
	switch m {
	case "GetBlob", "GetBlobRange", "GetManifest", "ResolveBlob", "ResolveManifest":
		return true
	}
	return false
}

func isRead(m string) bool {
	switch m {
	case "GetTag", "ResolveTag", "Repositories", "Tags", "Referrers":
		return true
	}
	return isDigestRead(m)
}

// ---------------------------------------------------------------- performing a call

type outcome struct {
	term     string // Coq term of type result
	short    string // readable
	ok       bool
	panicked bool
	// a reader was returned without error and its content could not be read to the end
	unreadable bool
	writer     ociregistry.BlobWriter
	str        string
}

// perform does op on reg as a caller would and renders what the caller sees.
// nw = the Coq number the writer gets when one is returned.
func perform(ctx context.Context, reg ociregistry.Interface, o Op, ws []ociregistry.BlobWriter, nw int) (out outcome) {
	fail := func(err error) {
		out.term = uErrTerm(err)
		out.short = "error[" + codeName(err) + "|" + shape(err) + "]"
	}
	descRes := func(d ociregistry.Descriptor, err error) {
		if err != nil {
			fail(err)
			return
		}
		out.ok = true
		out.term = "Ok (RDesc " + descTerm(d) + ")"
		out.short = "desc " + string(d.Digest)
	}
	readRes := func(rd ociregistry.BlobReader, err error) {
		if err != nil {
			fail(err)
			return
		}
		if rd == nil {
			out.term = "Panic"
			out.short = "nil reader without error"
			return
		}
		d := rd.Descriptor()
		data, rerr := io.ReadAll(rd)
		cerr := rd.Close()
		if rerr != nil || cerr != nil {
			// The call said "here is the content" and the content cannot be read to its
			// end: neither a value nor an error.  Rendered like the other improper answers
			// (nil reader without error), never as an ordinary error - "the tag fails" and
			// "the tag resolves to something unreadable" must not look alike.
			out.term = "Panic"
			out.short = fmt.Sprintf("reader returned without error but unreadable after %d bytes: %v [%s]",
				len(data), errors.Join(rerr, cerr), shape(errors.Join(rerr, cerr)))
			out.unreadable = true
			return
		}
		out.ok = true
		out.term = fmt.Sprintf("Ok (RRead %s %s)", descTerm(d), bterm(string(data)))
		out.short = fmt.Sprintf("read %s %q", d.Digest, data)
	}
	unitRes := func(err error) {
		if err != nil {
			fail(err)
			return
		}
		out.ok = true
		out.term = "Ok RUnit"
		out.short = "ok"
	}
	writerRes := func(w ociregistry.BlobWriter, err error) {
		if err != nil {
			fail(err)
			return
		}
		if w == nil {
			out.term = "Panic"
			out.short = "nil writer without error"
			return
		}
		out.ok = true
		out.writer = w
		out.term = fmt.Sprintf("Ok (RWriter %d)", nw)
		out.short = fmt.Sprintf("writer %d", nw)
	}
	wr := func() ociregistry.BlobWriter { return ws[o.W] }
	panicked, pv := hx.Recover(func() {
		switch o.M {
		case "GetBlob":
			readRes(reg.GetBlob(ctx, o.Repo, ociregistry.Digest(o.Digest)))
		case "GetBlobRange":
			readRes(reg.GetBlobRange(ctx, o.Repo, ociregistry.Digest(o.Digest), o.O0, o.O1))
		case "GetManifest":
			readRes(reg.GetManifest(ctx, o.Repo, ociregistry.Digest(o.Digest)))
		case "GetTag":
			readRes(reg.GetTag(ctx, o.Repo, o.Tag))
		case "ResolveBlob":
			descRes(reg.ResolveBlob(ctx, o.Repo, ociregistry.Digest(o.Digest)))
		case "ResolveManifest":
			descRes(reg.ResolveManifest(ctx, o.Repo, ociregistry.Digest(o.Digest)))
		case "ResolveTag":
			descRes(reg.ResolveTag(ctx, o.Repo, o.Tag))
		case "PushBlob":
			c := context.WithValue(ctx, fullContentKey{}, o.Content)
			descRes(reg.PushBlob(c, o.Repo, o.Desc.desc(), strings.NewReader(o.Content)))
		case "PushBlobChunked":
			writerRes(reg.PushBlobChunked(ctx, o.Repo, o.Chunk))
		case "PushBlobChunkedResume":
			writerRes(reg.PushBlobChunkedResume(ctx, o.Repo, o.ID, o.Off, o.Chunk))
		case "MountBlob":
			descRes(reg.MountBlob(ctx, o.Repo, o.To, ociregistry.Digest(o.Digest)))
		case "PushManifest":
			descRes(reg.PushManifest(ctx, o.Repo, o.Tag, []byte(o.Content), o.Media))
		case "DeleteBlob":
			unitRes(reg.DeleteBlob(ctx, o.Repo, ociregistry.Digest(o.Digest)))
		case "DeleteManifest":
			unitRes(reg.DeleteManifest(ctx, o.Repo, ociregistry.Digest(o.Digest)))
		case "DeleteTag":
			unitRes(reg.DeleteTag(ctx, o.Repo, o.Tag))
		case "Repositories", "Tags":
			var seq ociregistry.Seq[string]
			if o.M == "Tags" {
				seq = reg.Tags(ctx, o.Repo, o.Start)
			} else {
				seq = reg.Repositories(ctx, o.Start)
			}
			var items []string
			var lerr error
			seq(func(x string, err error) bool {
				if err != nil {
					lerr = err
					return false
				}
				items = append(items, x)
				return true
			})
			out.ok = true
			out.term = "Ok (RList " + bsterm(items) + " " + optErrTerm(lerr) + ")"
			out.short = fmt.Sprintf("list %q", items)
			if lerr != nil {
				out.short += " then error[" + codeName(lerr) + "|" + shape(lerr) + "]"
			}
		case "Referrers":
			var items []ociregistry.Descriptor
			var lerr error
			reg.Referrers(ctx, o.Repo, ociregistry.Digest(o.Digest), o.Art)(func(x ociregistry.Descriptor, err error) bool {
				if err != nil {
					lerr = err
					return false
				}
				items = append(items, x)
				return true
			})
			out.ok = true
			out.term = "Ok (RDescs " + descsTerm(items) + " " + optErrTerm(lerr) + ")"
			ds := make([]string, len(items))
			for i, d := range items {
				ds[i] = string(d.Digest)
			}
			out.short = fmt.Sprintf("descs %q", ds)
			if lerr != nil {
				out.short += " then error[" + codeName(lerr) + "|" + shape(lerr) + "]"
			}
		case "WWrite":
			n, err := wr().Write([]byte(o.Data))
			if err != nil {
				fail(err)
				return
			}
			out.ok = true
			out.term = fmt.Sprintf("Ok (RN %s)", zterm(int64(n)))
			out.short = fmt.Sprintf("wrote %d", n)
		case "WClose":
			unitRes(wr().Close())
		case "WCancel":
			unitRes(wr().Cancel())
		case "WSize":
			n := wr().Size()
			out.ok = true
			out.term = fmt.Sprintf("Ok (RN %s)", zterm(n))
			out.short = fmt.Sprintf("size %d", n)
		case "WChunkSize":
			n := wr().ChunkSize()
			out.ok = true
			out.term = fmt.Sprintf("Ok (RN %s)", zterm(int64(n)))
			out.short = fmt.Sprintf("chunksize %d", n)
		case "WID":
			id := wr().ID()
			out.ok = true
			out.str = id
			out.term = "Ok (RStr " + bterm(id) + ")"
			out.short = "id " + id
		case "WCommit":
			descRes(wr().Commit(ociregistry.Digest(o.Digest)))
		default:
			panic("unknown method " + o.M)
		}
	})
	if panicked {
		out = outcome{term: "Panic", short: "panic: " + pv, panicked: true}
	}
	return out
}

// ---------------------------------------------------------------- members

func mkFakeErr(e *fakeErr) error {
	if e.Code == "" {
		return errors.New("fake failure")
	}
	return ociregistry.NewError("fake failure", e.Code, nil)
}

func fakeMember(f *fakeRes) ociregistry.Interface {
	rd := func() (ociregistry.BlobReader, error) {
		if f.Err != nil {
			return nil, mkFakeErr(f.Err)
		}
		return ocimem.NewBytesReader([]byte(f.Data), f.Desc.desc()), nil
	}
	ds := func() (ociregistry.Descriptor, error) {
		if f.Err != nil {
			return ociregistry.Descriptor{}, mkFakeErr(f.Err)
		}
		return f.Desc.desc(), nil
	}
	strs := func() ociregistry.Seq[string] {
		return func(yield func(string, error) bool) {
			for _, x := range f.Items {
				if !yield(x, nil) {
					return
				}
			}
			if f.ItemsErr != nil {
				yield("", mkFakeErr(f.ItemsErr))
			}
		}
	}
	return &ociregistry.Funcs{
		GetBlob_: func(context.Context, string, ociregistry.Digest) (ociregistry.BlobReader, error) { return rd() },
		GetBlobRange_: func(context.Context, string, ociregistry.Digest, int64, int64) (ociregistry.BlobReader, error) {
			return rd()
		},
		GetManifest_:     func(context.Context, string, ociregistry.Digest) (ociregistry.BlobReader, error) { return rd() },
		GetTag_:          func(context.Context, string, string) (ociregistry.BlobReader, error) { return rd() },
		ResolveBlob_:     func(context.Context, string, ociregistry.Digest) (ociregistry.Descriptor, error) { return ds() },
		ResolveManifest_: func(context.Context, string, ociregistry.Digest) (ociregistry.Descriptor, error) { return ds() },
		ResolveTag_:      func(context.Context, string, string) (ociregistry.Descriptor, error) { return ds() },
		Repositories_:    func(context.Context, string) ociregistry.Seq[string] { return strs() },
		Tags_:            func(context.Context, string, string) ociregistry.Seq[string] { return strs() },
		Referrers_: func(context.Context, string, ociregistry.Digest, string) ociregistry.Seq[ociregistry.Descriptor] {
			return func(yield func(ociregistry.Descriptor, error) bool) {
				for _, x := range f.Descs {
					if !yield(x.desc(), nil) {
						return
					}
				}
				if f.ItemsErr != nil {
					yield(ociregistry.Descriptor{}, mkFakeErr(f.ItemsErr))
				}
			}
		},
	}
}

type member struct {
	rec   *recorder
	base  ociregistry.Interface // what snapshots look at (nil for fakes)
	close func()                // releases what the member holds (HTTP server, connections)
}

func (m *member) done() {
	if m != nil && m.close != nil {
		m.close()
	}
}

// remoteOver: an ociclient talking HTTP to an ociserver over reg.
func remoteOver(reg ociregistry.Interface) (ociregistry.Interface, func(), error) {
	srv := httptest.NewServer(ociserver.New(reg, nil))
	tr := &http.Transport{}
	stop := func() {
		tr.CloseIdleConnections()
		srv.Close()
	}
	u, err := url.Parse(srv.URL)
	if err != nil {
		stop()
		return nil, nil, err
	}
	c, err := ociclient.New(u.Host, &ociclient.Options{Insecure: true, Transport: tr})
	if err != nil {
		stop()
		return nil, nil, err
	}
	return c, stop, nil
}

func buildMember(spec memberSpec, name, idPrefix string) (*member, error) {
	switch spec.Kind {
	case "fake":
		if spec.Fake == nil {
			return nil, errors.New("fake member without script")
		}
		return &member{rec: newRecorder(name, fakeMember(spec.Fake), idPrefix)}, nil
	case "mem", "debug", "remote":
		reg := ocimem.New()
		for _, o := range spec.Setup {
			if out := perform(context.Background(), reg, o, nil, 0); out.panicked {
				return nil, fmt.Errorf("setup %s panicked: %s", o.M, out.short)
			}
		}
		var inner ociregistry.Interface = reg
		switch spec.Kind {
		case "debug":
			inner = ocidebug.New(reg, func(string, ...any) {})
		case "remote":
			c, stop, err := remoteOver(reg)
			if err != nil {
				return nil, err
			}
			rec := newRecorder(name, c, idPrefix)
			rec.live = true
			return &member{rec: rec, base: reg, close: stop}, nil
		}
		return &member{rec: newRecorder(name, inner, idPrefix), base: reg}, nil
	}
	return nil, fmt.Errorf("unknown member kind %q", spec.Kind)
}

func policyOf(s string) (ociunify.ReadPolicy, string) {
	if s == "conc" {
		return ociunify.ReadConcurrent, "ReadConcurrent"
	}
	return ociunify.ReadSequential, "ReadSequential"
}

// gate makes the late member wait until the other one has completed a call (or the
// timeout has passed, for situations in which the other one is waiting for us).
func gate(other *recorder, timeout time.Duration) func() {
	base := other.completed()
	return func() {
		deadline := time.Now().Add(timeout)
		for other.completed() == base && time.Now().Before(deadline) {
			time.Sleep(10 * time.Microsecond)
		}
	}
}

func setLate(late int, m0, m1 *recorder, timeout time.Duration) {
	m0.delay, m1.delay = nil, nil
	switch late {
	case 1:
		m0.delay = gate(m1, timeout)
	case 2:
		m1.delay = gate(m0, timeout)
	}
}

// settle waits until neither member has a call in flight and each has received at least
// the given number of calls.
func settle(m0, m1 *recorder, want0, want1 int) {
	deadline := time.Now().Add(200 * time.Millisecond)
	for !(m0.quiescent(want0) && m1.quiescent(want1)) && time.Now().Before(deadline) {
		time.Sleep(10 * time.Microsecond)
	}
}

// ---------------------------------------------------------------- read cases

func runRead(in input) (hx.Case, error) {
	m0, err := buildMember(in.M0, "m0", "a")
	if err != nil {
		return hx.Case{}, err
	}
	defer m0.done()
	m1, err := buildMember(in.M1, "m1", "b")
	if err != nil {
		return hx.Case{}, err
	}
	defer m1.done()
	o := *in.Op
	if !isRead(o.M) {
		return hx.Case{}, fmt.Errorf("not a read: %s", o.M)
	}
	ctx := context.Background()
	memberPanicked := false
	ask := func(m *member) string {
		if perform(ctx, m.rec, o, nil, 0).panicked {
			memberPanicked = true
		}
		cs := m.rec.take()
		if len(cs) != 1 {
			return "Panic"
		}
		return cs[0].Res
	}
	a0, a1 := ask(m0), ask(m1)
	if memberPanicked {
		// outside the property's assumptions (and it would take the harness down with it
		// when it happens on one of the unifier's goroutines)
		return hx.Case{}, fmt.Errorf("a member panics on %s when asked directly", o.M)
	}
	pol, polTerm := policyOf(in.Policy)
	u := ociunify.New(m0.rec, m1.rec, &ociunify.Options{ReadPolicy: pol})
	b0, b1 := m0.rec.received(), m1.rec.received()
	setLate(o.Late, m0.rec, m1.rec, 20*time.Millisecond)
	out := perform(ctx, u, o, nil, 0)
	w0, w1 := b0+1, b1+1
	if pol == ociunify.ReadSequential && isDigestRead(o.M) {
		w1 = b1
	}
	settle(m0.rec, m1.rec, w0, w1)
	setLate(0, m0.rec, m1.rec, 0)
	n0, n1 := m0.rec.received()-b0, m1.rec.received()-b1
	// a member that answers differently when asked again is not a state-like member
	for _, c := range m0.rec.take() {
		if c.Res != a0 {
			a0 = "Panic"
		}
	}
	for _, c := range m1.rec.take() {
		if c.Res != a1 {
			a1 = "Panic"
		}
	}
	coq := fmt.Sprintf("CRead %s (%s) (%s) (%s) (%s) %d %d", polTerm, o.term(), a0, a1, out.term, n0, n1)
	kind := "err"
	if out.ok {
		kind = "ok"
	}
	if out.panicked {
		kind = "panic"
	}
	if out.unreadable {
		kind = "unreadable"
	}
	return hx.Case{Coq: coq,
		Desc: map[string]any{"input": in, "observed": map[string]any{"unifier": out.short, "calls_m0": n0, "calls_m1": n1}},
		Tags: map[string]any{"class": "read/" + o.M + "/" + in.Policy, "kind": "read", "method": o.M, "policy": in.Policy,
			"scenario": in.Scenario, "result": kind}}, nil
}

// ---------------------------------------------------------------- histories

type hist struct {
	in       input
	m0, m1   *member
	u        ociregistry.Interface
	pol      ociunify.ReadPolicy
	polTerm  string
	ws       []ociregistry.BlobWriter
	steps    []string
	observed []string
	tabs     codecTabs
	repos    map[string]bool
	digests  map[string]bool
	tags     map[string]bool
	excused  bool
	snap0    string
	snap1    string
	mutating int
	faulted  bool
	counts   map[string]int
}

func newHist(in input) (*hist, error) {
	m0, err := buildMember(in.M0, "m0", "a")
	if err != nil {
		return nil, err
	}
	m1, err := buildMember(in.M1, "m1", "b")
	if err != nil {
		return nil, err
	}
	if m0.base == nil || m1.base == nil {
		return nil, errors.New("histories need real members")
	}
	h := &hist{in: in, m0: m0, m1: m1, repos: map[string]bool{}, digests: map[string]bool{}, tags: map[string]bool{}, counts: map[string]int{}}
	h.in.Steps = nil
	h.tabs.seen = map[string]bool{}
	h.pol, h.polTerm = policyOf(in.Policy)
	m0.rec.fault, m1.rec.fault = in.Fault0, in.Fault1
	h.u = ociunify.New(m0.rec, m1.rec, &ociunify.Options{ReadPolicy: h.pol})
	for _, o := range append(append([]Op{}, in.M0.Setup...), in.M1.Setup...) {
		h.note(o)
	}
	h.snap0, h.snap1 = h.snapshot(m0), h.snapshot(m1)
	return h, nil
}

func (h *hist) note(o Op) {
	for _, r := range []string{o.Repo, o.To} {
		if r != "" {
			h.repos[r] = true
		}
	}
	for _, d := range []string{o.Digest, o.Desc.Digest} {
		if d != "" {
			h.digests[d] = true
		}
	}
	if o.M == "PushManifest" {
		h.digests[string(digest.FromString(o.Content))] = true
	}
	if o.Tag != "" {
		h.tags[o.Tag] = true
	}
}

func sortedKeys(m map[string]bool) []string {
	ks := make([]string, 0, len(m))
	for k := range m {
		ks = append(ks, k)
	}
	sort.Strings(ks)
	return ks
}

// snapshot: everything observable of a member through the Interface over the names the
// history has mentioned (plus what its listings reveal), and the sizes of its upload
// writers.  Upload IDs are left out (they are the member's private names).
func (h *hist) snapshot(m *member) string {
	ctx := context.Background()
	var sb strings.Builder
	repos := map[string]bool{}
	for r := range h.repos {
		repos[r] = true
	}
	listed, lerr := ociregistry.All(m.base.Repositories(ctx, ""))
	fmt.Fprintf(&sb, "repositories %q %v\n", listed, lerr != nil)
	for _, r := range listed {
		repos[r] = true
	}
	for _, r := range sortedKeys(repos) {
		tags, terr := ociregistry.All(m.base.Tags(ctx, r, ""))
		fmt.Fprintf(&sb, "repo %q tags %q %s\n", r, tags, codeName(terr))
		seen := map[string]bool{}
		for _, t := range append(tags, sortedKeys(h.tags)...) {
			if seen[t] {
				continue
			}
			seen[t] = true
			d, err := m.base.ResolveTag(ctx, r, t)
			if err == nil {
				fmt.Fprintf(&sb, " tag %q -> %s %s %d\n", t, d.Digest, d.MediaType, d.Size)
			}
		}
		for _, dg := range sortedKeys(h.digests) {
			if rd, err := m.base.GetBlob(ctx, r, ociregistry.Digest(dg)); err == nil {
				data, _ := io.ReadAll(rd)
				rd.Close()
				fmt.Fprintf(&sb, " blob %s %s %q\n", dg, rd.Descriptor().MediaType, data)
			}
			if rd, err := m.base.GetManifest(ctx, r, ociregistry.Digest(dg)); err == nil {
				data, _ := io.ReadAll(rd)
				rd.Close()
				fmt.Fprintf(&sb, " manifest %s %s %q\n", dg, rd.Descriptor().MediaType, data)
			}
			refs, rerr := ociregistry.All(m.base.Referrers(ctx, r, ociregistry.Digest(dg), ""))
			if len(refs) > 0 || (rerr != nil && codeName(rerr) != "NAME_UNKNOWN") {
				fmt.Fprintf(&sb, " referrers %s:", dg)
				for _, d := range refs {
					fmt.Fprintf(&sb, " %s", d.Digest)
				}
				fmt.Fprintf(&sb, " %v\n", rerr != nil)
			}
		}
	}
	m.rec.mu.Lock()
	writers := append([]ociregistry.BlobWriter{}, m.rec.writers...)
	m.rec.mu.Unlock()
	for i, w := range writers {
		fmt.Fprintf(&sb, "writer %d size %d\n", i, w.Size())
	}
	return sb.String()
}

// counts of the history finished last (merged into the distribution when the case is kept)
var lastCounts map[string]int

func (h *hist) step(o Op) outcome {
	h.note(o)
	if o.M == "PushBlobChunkedResume" {
		h.tabs.addDec(o.ID)
		if o.Forged {
			h.excused = true
		}
	}
	ctx := context.Background()
	b0, b1 := h.m0.rec.received(), h.m1.rec.received()
	w0, w1 := b0, b1
	if h.pol == ociunify.ReadConcurrent && isDigestRead(o.M) {
		w0, w1 = b0+1, b1+1
	}
	timeout := 20 * time.Millisecond
	if o.M == "PushBlob" {
		timeout = 300 * time.Microsecond
	}
	setLate(o.Late, h.m0.rec, h.m1.rec, timeout)
	eqBefore := h.snap0 == h.snap1
	out := perform(ctx, h.u, o, h.ws, len(h.ws))
	settle(h.m0.rec, h.m1.rec, w0, w1)
	setLate(0, h.m0.rec, h.m1.rec, 0)
	if out.writer != nil {
		h.ws = append(h.ws, out.writer)
	}
	c0, c1 := h.m0.rec.take(), h.m1.rec.take()
	cut0, cut1 := h.m0.rec.takeCut(), h.m1.rec.takeCut()
	if h.m0.rec.hasFired() || h.m1.rec.hasFired() {
		h.excused = true
		h.faulted = true
	}
	if o.M == "WID" {
		if len(c0) == 1 && len(c1) == 1 {
			h.tabs.addEnc(c0[0].Raw, c1[0].Raw)
			h.tabs.addDec(refEncode(c0[0].Raw, c1[0].Raw))
		}
		if out.ok {
			h.tabs.addDec(out.str)
		}
	}
	h.snap0, h.snap1 = h.snapshot(h.m0), h.snapshot(h.m1)
	eqAfter := h.snap0 == h.snap1
	if !isRead(o.M) && len(c0) > 0 && len(c1) > 0 {
		h.mutating++
	}
	opt := func(s string) string {
		if s == "" {
			return "None"
		}
		return "(Some " + s + ")"
	}
	h.steps = append(h.steps, fmt.Sprintf(
		"{| h_op := %s; h_res := %s; h_calls0 := %s; h_calls1 := %s; h_cut0 := %s; h_cut1 := %s; h_excused := %s; h_eq_before := %s; h_eq_after := %s |}",
		o.term(), out.term, callsTerm(c0), callsTerm(c1), opt(cut0), opt(cut1), hx.Bool(h.excused), hx.Bool(eqBefore), hx.Bool(eqAfter)))
	obs := fmt.Sprintf("%s -> %s; m0 got %d calls, m1 got %d", o.M, out.short, len(c0), len(c1))
	if cut0 != "" || cut1 != "" {
		obs += fmt.Sprintf("; stream cut m0=%v m1=%v", cut0 != "", cut1 != "")
	}
	if eqBefore && !eqAfter {
		obs += "; MEMBERS DIVERGED"
	}
	h.observed = append(h.observed, obs)
	h.in.Steps = append(h.in.Steps, o)
	res := "err"
	if out.ok {
		res = "ok"
	} else if out.panicked {
		res = "panic"
	} else if out.unreadable {
		res = "unreadable"
	}
	h.counts["step:"+o.M+":"+res]++
	if cut0 != "" || cut1 != "" {
		h.counts["step-stream-cut"]++
	}
	if eqBefore && !eqAfter {
		h.counts["step-members-diverged(excused)"]++
	}
	if eqBefore && eqAfter && !isRead(o.M) && len(c0) > 0 && len(c1) > 0 {
		h.counts["step-write-kept-members-equal"]++
	}
	return out
}

func (h *hist) finish() hx.Case {
	h.m0.done()
	h.m1.done()
	if h.faulted {
		h.counts["hist-fault-fired"]++
	}
	lastCounts = h.counts
	coq := fmt.Sprintf("CHist %s %s %s %s", h.polTerm, hx.List(h.tabs.enc), hx.List(h.tabs.dec), hx.List(h.steps))
	fk := "nofault"
	if h.in.Fault0 != nil || h.in.Fault1 != nil {
		fk = "fault"
	}
	return hx.Case{Coq: coq,
		Desc: map[string]any{"input": h.in, "observed": h.observed},
		Tags: map[string]any{"class": "hist/" + h.in.Policy + "/" + fk, "kind": "hist", "policy": h.in.Policy, "fault": fk,
			"scenario": h.in.Scenario}}
}

func runHist(in input) (hx.Case, error) {
	h, err := newHist(in)
	if err != nil {
		return hx.Case{}, err
	}
	for _, o := range in.Steps {
		if strings.HasPrefix(o.M, "W") && (o.W < 0 || o.W >= len(h.ws)) {
			continue // no such writer on this tree (the creating call failed): nothing a caller could do
		}
		h.step(o)
	}
	return h.finish(), nil
}

func runCase(in input) (hx.Case, error) {
	switch in.Kind {
	case "read":
		if in.Op == nil {
			return hx.Case{}, errors.New("read case without op")
		}
		return runRead(in)
	case "hist":
		return runHist(in)
	}
	return hx.Case{}, fmt.Errorf("unknown case kind %q", in.Kind)
}

// ---------------------------------------------------------------- the universe of names

const mtManifest = "application/vnd.oci.image.manifest.v1+json"

var (
	repoNames = []string{"foo", "foo/bar", "x/y/z"}
	oddRepos  = []string{"nosuch", "BAD NAME", ""}
	tagNames  = []string{"latest", "v1", "v2"}
	blobData  = []string{"", "a", "hello", "chunk-one|chunk-two", strings.Repeat("0123456789", 5)}
)

func dig(s string) string { return string(digest.FromString(s)) }

func blobDesc(content string) descJ {
	return descJ{Media: "application/octet-stream", Digest: dig(content), Size: int64(len(content))}
}

// manifestJSON: an image manifest whose config is the blob cfg, with the given layers,
// optionally a subject and an artifact type.
func manifestJSON(cfg string, layers []string, subject string, art string, note string) string {
	d := func(c string, media string) map[string]any {
		return map[string]any{"mediaType": media, "digest": dig(c), "size": len(c)}
	}
	m := map[string]any{"schemaVersion": 2, "mediaType": mtManifest, "config": d(cfg, "application/vnd.oci.image.config.v1+json")}
	ls := []any{}
	for _, l := range layers {
		ls = append(ls, d(l, "application/vnd.oci.image.layer.v1.tar"))
	}
	m["layers"] = ls
	if subject != "" {
		m["subject"] = d(subject, mtManifest)
	}
	if art != "" {
		m["artifactType"] = art
	}
	if note != "" {
		m["annotations"] = map[string]string{"note": note}
	}
	b, _ := json.Marshal(m)
	return string(b)
}

type manifestDef struct {
	content string
	needs   []string // blob contents that have to be present
}

func manifests() []manifestDef {
	m0 := manifestDef{manifestJSON("a", nil, "", "", "base"), []string{"a"}}
	m1 := manifestDef{manifestJSON("a", []string{"hello"}, "", "", "layered"), []string{"a", "hello"}}
	m2 := manifestDef{manifestJSON("", nil, m0.content, "application/x-sig", "ref1"), []string{""}}
	m3 := manifestDef{manifestJSON("a", nil, m0.content, "application/x-sbom", "ref2"), []string{"a"}}
	return []manifestDef{m0, m1, m2, m3}
}

func opPushBlobOf(repo, content string) Op {
	return Op{M: "PushBlob", Repo: repo, Desc: blobDesc(content), Content: content}
}

func opPushManifestOf(repo, tag string, m manifestDef) Op {
	return Op{M: "PushManifest", Repo: repo, Tag: tag, Content: m.content, Media: mtManifest}
}

// populate: a setup (list of direct pushes) for one member.
type population struct {
	ops   []Op
	blobs map[string]bool // repo + "\x00" + content
}

func (p *population) blob(repo, content string) {
	k := repo + "\x00" + content
	if p.blobs == nil {
		p.blobs = map[string]bool{}
	}
	if p.blobs[k] {
		return
	}
	p.blobs[k] = true
	p.ops = append(p.ops, opPushBlobOf(repo, content))
}

func (p *population) manifest(repo, tag string, m manifestDef) {
	for _, b := range m.needs {
		p.blob(repo, b)
	}
	p.ops = append(p.ops, opPushManifestOf(repo, tag, m))
}

func randomPopulation(rnd *rand.Rand, repos []string, density float64) *population {
	p := &population{}
	ms := manifests()
	for _, r := range repos {
		for _, b := range blobData {
			if rnd.Float64() < density {
				p.blob(r, b)
			}
		}
		for _, m := range ms {
			if rnd.Float64() < density {
				tag := ""
				if rnd.Intn(2) == 0 {
					tag = tagNames[rnd.Intn(len(tagNames))]
				}
				p.manifest(r, tag, m)
			}
		}
	}
	return p
}

// memberPair: the two setups of one scenario.
func memberPair(rnd *rand.Rand, scenario string) (memberSpec, memberSpec) {
	ms := manifests()
	mem := func(p *population) memberSpec { return memberSpec{Kind: "mem", Setup: p.ops} }
	switch scenario {
	case "empty":
		return memberSpec{Kind: "mem"}, memberSpec{Kind: "mem"}
	case "equal":
		p := randomPopulation(rnd, repoNames, 0.6)
		return mem(p), mem(p)
	case "disjoint":
		i := 1 + rnd.Intn(len(repoNames)-1)
		return mem(randomPopulation(rnd, repoNames[:i], 0.7)), mem(randomPopulation(rnd, repoNames[i:], 0.7))
	case "oneside":
		p := randomPopulation(rnd, repoNames, 0.6)
		if rnd.Intn(2) == 0 {
			return mem(p), memberSpec{Kind: "mem"}
		}
		return memberSpec{Kind: "mem"}, mem(p)
	case "conflict":
		// the same tags name different manifests on the two members
		p0, p1 := &population{}, &population{}
		for _, r := range repoNames[:1+rnd.Intn(len(repoNames))] {
			for _, t := range tagNames {
				i, j := rnd.Intn(len(ms)), rnd.Intn(len(ms))
				switch rnd.Intn(4) {
				case 0:
					p0.manifest(r, t, ms[i])
				case 1:
					p1.manifest(r, t, ms[j])
				default:
					p0.manifest(r, t, ms[i])
					p1.manifest(r, t, ms[j])
				}
			}
		}
		return mem(p0), mem(p1)
	}
	// overlap: independent random populations over the same names
	return mem(randomPopulation(rnd, repoNames, 0.5)), mem(randomPopulation(rnd, repoNames, 0.5))
}

func allDigests() []string {
	var ds []string
	for _, b := range blobData {
		ds = append(ds, dig(b))
	}
	for _, m := range manifests() {
		ds = append(ds, dig(m.content))
	}
	ds = append(ds, dig("never pushed"), "sha256:zz", "")
	return ds
}

func randomReadOp(rnd *rand.Rand) Op {
	repos := append(append([]string{}, repoNames...), oddRepos...)
	repo := repos[rnd.Intn(len(repos))]
	if rnd.Intn(4) != 0 {
		repo = repoNames[rnd.Intn(len(repoNames))]
	}
	ds := allDigests()
	d := ds[rnd.Intn(len(ds))]
	if rnd.Intn(5) != 0 {
		d = ds[rnd.Intn(len(blobData)+4)]
	}
	tags := append(append([]string{}, tagNames...), "nosuchtag", "")
	switch rnd.Intn(12) {
	case 0:
		return Op{M: "GetBlob", Repo: repo, Digest: d}
	case 1:
		rs := [][2]int64{{0, -1}, {0, 0}, {1, 3}, {2, 1}, {0, 1000}, {-1, 2}, {5, 5}}
		x := rs[rnd.Intn(len(rs))]
		return Op{M: "GetBlobRange", Repo: repo, Digest: d, O0: x[0], O1: x[1]}
	case 2:
		return Op{M: "GetManifest", Repo: repo, Digest: d}
	case 3:
		return Op{M: "ResolveBlob", Repo: repo, Digest: d}
	case 4:
		return Op{M: "ResolveManifest", Repo: repo, Digest: d}
	case 5, 6:
		return Op{M: "GetTag", Repo: repo, Tag: tags[rnd.Intn(len(tags))]}
	case 7, 8:
		return Op{M: "ResolveTag", Repo: repo, Tag: tags[rnd.Intn(len(tags))]}
	case 9:
		starts := []string{"", "", "foo", "foo/bar", "g", "zzz"}
		return Op{M: "Repositories", Start: starts[rnd.Intn(len(starts))]}
	case 10:
		starts := []string{"", "", "latest", "v1", "a", "zzz"}
		return Op{M: "Tags", Repo: repo, Start: starts[rnd.Intn(len(starts))]}
	}
	arts := []string{"", "", "application/x-sig"}
	return Op{M: "Referrers", Repo: repo, Digest: ds[len(blobData)+rnd.Intn(2)*rnd.Intn(4)], Art: arts[rnd.Intn(len(arts))]}
}

// tagStateCases: see main, section 2b.
func tagStateCases() []input {
	ms := manifests()
	held := func(m manifestDef, tag string) []Op {
		p := &population{}
		p.manifest("foo", tag, m)
		return p.ops
	}
	latest0, latest1, other := held(ms[0], "latest"), held(ms[1], "latest"), held(ms[1], "v1")
	states := []struct {
		name   string
		s0, s1 []Op
	}{
		{"tag-in-m0-only", latest0, nil}, {"tag-in-m0-only-m1-knows-repo", latest0, other},
		{"tag-in-m1-only", nil, latest0}, {"tag-in-m1-only-m0-knows-repo", other, latest0},
		{"tag-agrees", latest0, latest0}, {"tag-conflicts", latest0, latest1}, {"tag-absent", other, other},
	}
	ops := []Op{
		{M: "GetTag", Repo: "foo", Tag: "latest"}, {M: "ResolveTag", Repo: "foo", Tag: "latest"},
		{M: "GetManifest", Repo: "foo", Digest: dig(ms[0].content)},
		{M: "GetBlob", Repo: "foo", Digest: dig("a")},
		{M: "GetBlobRange", Repo: "foo", Digest: dig("a"), O0: 0, O1: 1},
	}
	var out []input
	for _, st := range states {
		for _, kp := range [][2]string{{"remote", "remote"}, {"mem", "remote"}, {"remote", "mem"}, {"mem", "mem"}} {
			for _, o := range ops {
				for _, pol := range []string{"seq", "conc"} {
					lates := []int{0}
					if pol == "conc" && isDigestRead(o.M) {
						lates = []int{1, 2}
					}
					for _, late := range lates {
						op := o
						op.Late = late
						out = append(out, input{Kind: "read", Policy: pol, Scenario: st.name,
							M0: memberSpec{Kind: kp[0], Setup: st.s0}, M1: memberSpec{Kind: kp[1], Setup: st.s1}, Op: &op})
					}
				}
			}
		}
	}
	return out
}

// ---------------------------------------------------------------- scripted members for reads

func fakeValues(kind string) []fakeRes {
	e := func(code string) *fakeErr { return &fakeErr{Code: code} }
	d1 := descJ{Media: "application/octet-stream", Digest: dig("one"), Size: 3}
	d1b := descJ{Media: "text/plain", Digest: dig("one"), Size: 3}
	d2 := descJ{Media: "application/octet-stream", Digest: dig("two!"), Size: 4}
	switch kind {
	case "digest":
		return []fakeRes{
			{Desc: d1, Data: "one"}, {Desc: d2, Data: "two!"},
			{Err: e("BLOB_UNKNOWN")}, {Err: e("NAME_UNKNOWN")}, {Err: e("")}, {Err: e("DENIED")},
		}
	case "tag":
		return []fakeRes{
			{Desc: d1, Data: "one"}, {Desc: d1b, Data: "one"}, {Desc: d2, Data: "two!"},
			{Err: e("MANIFEST_UNKNOWN")}, {Err: e("NAME_UNKNOWN")}, {Err: e("")},
		}
	case "strings":
		return []fakeRes{
			{}, {Items: []string{"a", "b"}}, {Items: []string{"b", "c"}}, {Items: []string{"c", "a"}}, {Items: []string{"a", "a", "b"}},
			{Items: []string{"a"}, ItemsErr: e("NAME_UNKNOWN")}, {ItemsErr: e("NAME_UNKNOWN")},
			{Items: []string{"b", "d"}, ItemsErr: e("DENIED")}, {ItemsErr: e("")}, {Items: []string{"", "B", "b/c"}},
		}
	case "descs":
		x := descJ{Media: mtManifest, Digest: dig("x"), Size: 1}
		xb := descJ{Media: "other/type", Digest: dig("x"), Size: 1, Art: "application/x-sig"}
		y := descJ{Media: mtManifest, Digest: dig("y"), Size: 1}
		z := descJ{Media: mtManifest, Digest: dig("z"), Size: 1}
		return []fakeRes{
			{}, {Descs: []descJ{x, y}}, {Descs: []descJ{y, z}}, {Descs: []descJ{xb}}, {Descs: []descJ{z, x}},
			{Descs: []descJ{x}, ItemsErr: e("NAME_UNKNOWN")}, {ItemsErr: e("NAME_UNKNOWN")},
			{Descs: []descJ{y}, ItemsErr: e("UNAUTHORIZED")}, {ItemsErr: e("")},
		}
	}
	return nil
}

// ---------------------------------------------------------------- history generation

type genUpload struct {
	data string
	repo string
}

type genWriter struct {
	upload int
	dead   bool
}

type histGen struct {
	rnd     *rand.Rand
	h       *hist
	uploads []*genUpload
	writers []genWriter // by unifier writer number
	ids     []struct {
		id     string
		upload int
	}
	pushedBlobs map[string][]string // repo -> contents
	pushedMans  map[string][]string // repo -> manifest contents
}

func (g *histGen) repo() string {
	if g.rnd.Intn(12) == 0 {
		return oddRepos[g.rnd.Intn(len(oddRepos))]
	}
	return repoNames[g.rnd.Intn(len(repoNames))]
}

func (g *histGen) late(o Op) Op {
	if o.M == "PushBlob" || (g.h.pol == ociunify.ReadConcurrent && isDigestRead(o.M)) {
		o.Late = 1 + g.rnd.Intn(2)
		if o.M == "PushBlob" && g.rnd.Intn(2) == 0 {
			o.Late = 0
		}
	}
	return o
}

func forgeID(rnd *rand.Rand, known []string) (string, bool) {
	raw := func(s string) string { return base64.RawURLEncoding.EncodeToString([]byte(s)) }
	switch rnd.Intn(9) {
	case 0:
		return "!!!not base64!!!", false
	case 1:
		return raw("not json"), false
	case 2:
		return raw(`["only-one"]`), false
	case 3:
		return raw(`["a","b","c"]`), false
	case 4:
		return raw(`[1,2]`), false
	case 5:
		return "", false
	case 6:
		return refEncode("fresh", "fresh"), false // unknown to both members alike
	case 7:
		return base64.StdEncoding.EncodeToString([]byte(`["a?~","b?~"]`)), false // padded / other alphabet
	}
	if len(known) >= 2 {
		a, oka := refDecode(known[rnd.Intn(len(known))])
		b, okb := refDecode(known[rnd.Intn(len(known))])
		if oka && okb && len(a) == 2 && len(b) == 2 {
			return refEncode(a[0], b[1]), a[0][1:] != b[1][1:] // halves of two different uploads
		}
	}
	return refEncode("left", "right"), true
}

func (g *histGen) next() Op {
	rnd := g.rnd
	var live []int
	for k, w := range g.writers {
		if !w.dead {
			live = append(live, k)
		}
	}
	ms := manifests()
	for {
		switch c := rnd.Intn(100); {
		case c < 12: // PushBlob
			repo := g.repo()
			content := blobData[rnd.Intn(len(blobData))]
			o := opPushBlobOf(repo, content)
			switch rnd.Intn(10) {
			case 0:
				o.Desc.Digest = dig("something else")
			case 1:
				o.Desc.Size++
			case 2:
				o.Desc.Digest = "sha256:bad"
			case 3:
				o.Desc.Media = ""
			default:
				g.pushedBlobs[repo] = append(g.pushedBlobs[repo], content)
			}
			return g.late(o)
		case c < 24: // PushManifest
			repo := g.repo()
			m := ms[rnd.Intn(len(ms))]
			tag := ""
			if rnd.Intn(3) != 0 {
				tag = tagNames[rnd.Intn(len(tagNames))]
			}
			if rnd.Intn(15) == 0 {
				tag = "bad tag!"
			}
			if rnd.Intn(3) != 0 {
				// make it likely to be acceptable: push what it needs first
				for _, b := range m.needs {
					has := false
					for _, x := range g.pushedBlobs[repo] {
						has = has || x == b
					}
					if !has {
						g.pushedBlobs[repo] = append(g.pushedBlobs[repo], b)
						return g.late(opPushBlobOf(repo, b))
					}
				}
			}
			g.pushedMans[repo] = append(g.pushedMans[repo], m.content)
			o := opPushManifestOf(repo, tag, m)
			if rnd.Intn(12) == 0 {
				o.Content = "{not json"
			}
			return o
		case c < 30: // MountBlob
			from, to := g.repo(), g.repo()
			d := dig(blobData[rnd.Intn(len(blobData))])
			if bs := g.pushedBlobs[from]; len(bs) > 0 && rnd.Intn(4) != 0 {
				d = dig(bs[rnd.Intn(len(bs))])
			}
			return Op{M: "MountBlob", Repo: from, To: to, Digest: d}
		case c < 38: // deletes
			repo := g.repo()
			switch rnd.Intn(3) {
			case 0:
				d := dig(blobData[rnd.Intn(len(blobData))])
				return Op{M: "DeleteBlob", Repo: repo, Digest: d}
			case 1:
				return Op{M: "DeleteManifest", Repo: repo, Digest: dig(ms[rnd.Intn(len(ms))].content)}
			}
			return Op{M: "DeleteTag", Repo: repo, Tag: tagNames[rnd.Intn(len(tagNames))]}
		case c < 48: // start an upload
			return Op{M: "PushBlobChunked", Repo: g.repo(), Chunk: []int{0, 0, 1, 4096, -1}[rnd.Intn(5)]}
		case c < 78: // use a writer
			if len(live) == 0 {
				continue
			}
			k := live[rnd.Intn(len(live))]
			up := g.uploads[g.writers[k].upload]
			switch w := rnd.Intn(20); {
			case w < 7:
				return Op{M: "WWrite", W: k, Data: []string{"chunk-one|", "chunk-two", "a", "", "hello"}[rnd.Intn(5)]}
			case w < 9:
				return Op{M: "WSize", W: k}
			case w < 10:
				return Op{M: "WChunkSize", W: k}
			case w < 14:
				return Op{M: "WID", W: k}
			case w < 15:
				return Op{M: "WClose", W: k}
			case w < 16:
				return Op{M: "WCancel", W: k}
			default:
				d := dig(up.data)
				if rnd.Intn(6) == 0 {
					d = dig("not what was written")
				}
				return Op{M: "WCommit", W: k, Digest: d}
			}
		case c < 88: // resume
			if len(g.ids) > 0 && rnd.Intn(5) != 0 {
				x := g.ids[rnd.Intn(len(g.ids))]
				up := g.uploads[x.upload]
				off := int64(len(up.data))
				switch rnd.Intn(6) {
				case 0:
					off = -1
				case 1:
					off++
				}
				repo := up.repo
				if rnd.Intn(10) == 0 {
					repo = g.repo()
				}
				return Op{M: "PushBlobChunkedResume", Repo: repo, ID: x.id, Off: off, Chunk: 0}
			}
			var known []string
			for _, x := range g.ids {
				known = append(known, x.id)
			}
			id, forged := forgeID(rnd, known)
			return Op{M: "PushBlobChunkedResume", Repo: g.repo(), ID: id, Off: []int64{0, 0, -1, 3}[rnd.Intn(4)], Forged: forged}
		default: // reads through the unifier in between, mostly of what has been pushed
			o := randomReadOp(rnd)
			if rnd.Intn(10) < 7 {
				repo := repoNames[rnd.Intn(len(repoNames))]
				o.Repo = repo
				if bs := g.pushedBlobs[repo]; len(bs) > 0 && (o.M == "GetBlob" || o.M == "GetBlobRange" || o.M == "ResolveBlob") {
					o.Digest = dig(bs[rnd.Intn(len(bs))])
				}
				if ms := g.pushedMans[repo]; len(ms) > 0 && (o.M == "GetManifest" || o.M == "ResolveManifest") {
					o.Digest = dig(ms[rnd.Intn(len(ms))])
				}
			}
			return g.late(o)
		}
	}
}

// feedback: keep the generator's picture of uploads in step with what happened
func (g *histGen) feedback(o Op, out outcome) {
	switch o.M {
	case "PushBlobChunked":
		if out.ok {
			g.uploads = append(g.uploads, &genUpload{repo: o.Repo})
			g.writers = append(g.writers, genWriter{upload: len(g.uploads) - 1})
		}
	case "PushBlobChunkedResume":
		if out.ok {
			up := -1
			for _, x := range g.ids {
				if x.id == o.ID {
					up = x.upload
				}
			}
			if up < 0 {
				g.uploads = append(g.uploads, &genUpload{repo: o.Repo})
				up = len(g.uploads) - 1
			}
			g.writers = append(g.writers, genWriter{upload: up})
		}
	case "WWrite":
		if out.ok {
			g.uploads[g.writers[o.W].upload].data += o.Data
		}
	case "WID":
		if out.ok {
			g.ids = append(g.ids, struct {
				id     string
				upload int
			}{out.str, g.writers[o.W].upload})
		}
	case "WCommit", "WCancel":
		if out.ok && g.rnd.Intn(3) != 0 {
			g.writers[o.W].dead = true
		}
	}
}

func genHist(rnd *rand.Rand, nsteps int) (hx.Case, error) {
	in := input{Kind: "hist", Policy: []string{"seq", "conc"}[rnd.Intn(2)]}
	switch rnd.Intn(4) {
	case 0:
		in.Scenario = "empty"
		in.M0, in.M1 = memberSpec{Kind: "mem"}, memberSpec{Kind: "mem"}
	default:
		in.Scenario = "equal"
		p := randomPopulation(rnd, repoNames, 0.4)
		in.M0, in.M1 = memberSpec{Kind: "mem", Setup: p.ops}, memberSpec{Kind: "mem", Setup: p.ops}
	}
	if rnd.Intn(5) < 2 {
		codes := []string{"", "DENIED", "NAME_UNKNOWN", "BLOB_UNKNOWN", "BLOB_UPLOAD_UNKNOWN", "TOOMANYREQUESTS"}
		f := &fault{At: rnd.Intn(nsteps + 4), Before: rnd.Intn(2) == 0, Code: codes[rnd.Intn(len(codes))]}
		switch rnd.Intn(5) {
		case 0:
			in.Fault0 = f
			in.Fault1 = &fault{At: f.At, Before: rnd.Intn(2) == 0, Code: codes[rnd.Intn(len(codes))]}
		case 1, 2:
			in.Fault0 = f
		default:
			in.Fault1 = f
		}
	}
	h, err := newHist(in)
	if err != nil {
		return hx.Case{}, err
	}
	g := &histGen{rnd: rnd, h: h, pushedBlobs: map[string][]string{}, pushedMans: map[string][]string{}}
	for _, o := range in.M0.Setup {
		if o.M == "PushBlob" {
			g.pushedBlobs[o.Repo] = append(g.pushedBlobs[o.Repo], o.Content)
		}
	}
	for i := 0; i < nsteps; i++ {
		o := g.next()
		g.feedback(o, h.step(o))
	}
	return h.finish(), nil
}

// uploadStory: the canonical chunked upload with resume, deterministic.
func uploadStory(policy string, variant int) input {
	in := input{Kind: "hist", Policy: policy, Scenario: "story", M0: memberSpec{Kind: "mem"}, M1: memberSpec{Kind: "mem"}}
	id1 := refEncode("a1", "b1")
	whole := "chunk-one|chunk-two"
	in.Steps = []Op{
		{M: "PushBlobChunked", Repo: "foo", Chunk: 0},
		{M: "WWrite", W: 0, Data: "chunk-one|"},
		{M: "WSize", W: 0},
		{M: "WChunkSize", W: 0},
		{M: "WID", W: 0},
		{M: "WClose", W: 0},
		{M: "PushBlobChunkedResume", Repo: "foo", ID: id1, Off: 10},
		{M: "WSize", W: 1},
		{M: "WWrite", W: 1, Data: "chunk-two"},
		{M: "WID", W: 1},
		{M: "WCommit", W: 1, Digest: dig(whole)},
		{M: "GetBlob", Repo: "foo", Digest: dig(whole), Late: 1},
		{M: "ResolveBlob", Repo: "foo", Digest: dig(whole), Late: 2},
	}
	switch variant {
	case 1: // wrong offset on resume: the write is refused by both
		in.Steps[6].Off = 3
	case 2: // commit with the wrong digest
		in.Steps[10].Digest = dig("other")
	case 3: // cancel, then commit
		in.Steps = append(in.Steps[:10:10], Op{M: "WCancel", W: 1}, Op{M: "WCommit", W: 1, Digest: dig(whole)})
	case 4: // second upload in parallel, IDs of both, resume each
		in.Steps = []Op{
			{M: "PushBlobChunked", Repo: "foo"}, {M: "PushBlobChunked", Repo: "foo/bar"},
			{M: "WWrite", W: 0, Data: "hello"}, {M: "WWrite", W: 1, Data: "a"},
			{M: "WID", W: 1}, {M: "WID", W: 0},
			{M: "PushBlobChunkedResume", Repo: "foo/bar", ID: refEncode("a1", "b1"), Off: 1},
			{M: "PushBlobChunkedResume", Repo: "foo", ID: refEncode("a2", "b2"), Off: 5},
			{M: "WCommit", W: 2, Digest: dig("a")}, {M: "WCommit", W: 3, Digest: dig("hello")},
			{M: "ResolveBlob", Repo: "foo", Digest: dig("hello"), Late: 1},
		}
	case 5: // halves of two uploads glued together
		in.Steps = []Op{
			{M: "PushBlobChunked", Repo: "foo"}, {M: "PushBlobChunked", Repo: "foo"},
			{M: "WWrite", W: 0, Data: "hello"}, {M: "WID", W: 0}, {M: "WID", W: 1},
			{M: "PushBlobChunkedResume", Repo: "foo", ID: refEncode("a1", "b2"), Off: -1, Forged: true},
			{M: "WWrite", W: 2, Data: "a"},
		}
	}
	return in
}

// faultStory: one write of each kind with a failure injected into one member, before or
// after it did the work.
func faultStories() []input {
	var out []input
	whole := "hello"
	base := []Op{
		opPushBlobOf("foo", "a"),
		opPushManifestOf("foo", "v1", manifests()[0]),
		{M: "MountBlob", Repo: "foo", To: "foo/bar", Digest: dig("a")},
		{M: "PushBlobChunked", Repo: "foo"},
		{M: "WWrite", W: 0, Data: whole},
		{M: "WID", W: 0},
		{M: "PushBlobChunkedResume", Repo: "foo", ID: refEncode("a1", "b1"), Off: 5},
		{M: "WCommit", W: 1, Digest: dig(whole)},
		{M: "DeleteTag", Repo: "foo", Tag: "v1"},
		{M: "DeleteManifest", Repo: "foo", Digest: dig(manifests()[0].content)},
		{M: "DeleteBlob", Repo: "foo", Digest: dig("a")},
		{M: "PushBlobChunked", Repo: "foo/bar"},
		{M: "WCancel", W: 2},
		{M: "WClose", W: 2},
	}
	for at := 0; at < 18; at++ {
		for _, before := range []bool{true, false} {
			for member := 0; member < 2; member++ {
				in := input{Kind: "hist", Policy: "seq", Scenario: "faultstory", M0: memberSpec{Kind: "mem"}, M1: memberSpec{Kind: "mem"}}
				in.Steps = append([]Op{}, base...)
				if at%2 == 1 {
					in.Steps[0].Late = 1 + member
				}
				f := &fault{At: at, Before: before, Code: []string{"", "DENIED", "BLOB_UNKNOWN"}[at%3]}
				if member == 0 {
					in.Fault0 = f
				} else {
					in.Fault1 = f
				}
				out = append(out, in)
			}
		}
	}
	return out
}

// cutStories: pushes of contents of several sizes while one member refuses without reading
// (the other member's content stream is cut by the pipe), every position, both members,
// every arrival order.
func cutStories() []input {
	var out []input
	contents := []string{"hello", "", strings.Repeat("0123456789", 5), "a"}
	for at := 0; at < len(contents); at++ {
		for member := 0; member < 2; member++ {
			for late := 0; late < 3; late++ {
				for _, pol := range []string{"seq", "conc"} {
					if pol == "conc" && late != 1 {
						continue
					}
					in := input{Kind: "hist", Policy: pol, Scenario: "cutstory", M0: memberSpec{Kind: "mem"}, M1: memberSpec{Kind: "mem"}}
					for _, c := range contents {
						o := opPushBlobOf("foo", c)
						o.Late = late
						in.Steps = append(in.Steps, o)
					}
					in.Steps = append(in.Steps, Op{M: "ResolveBlob", Repo: "foo", Digest: dig(contents[at]), Late: 1})
					f := &fault{At: at, Before: true, Code: []string{"", "DENIED"}[at%2]}
					if member == 0 {
						in.Fault0 = f
					} else {
						in.Fault1 = f
					}
					out = append(out, in)
				}
			}
		}
	}
	return out
}

// ---------------------------------------------------------------- main

func main() {
	cfg := hx.ParseFlags()
	out := hx.NewOut(cfg, "Obs.C15")
	out.ShardMax = 160
	// cases are buffered so that the (heavy) histories can be spread evenly over the shards
	type pending struct {
		c      hx.Case
		counts []string
		hc     map[string]int
	}
	var light, heavy []pending
	keep := func(c hx.Case, kind, origin string, extra ...string) {
		p := pending{c: c, counts: append([]string{"origin:" + origin, "kind:" + kind, "policy:" + fmt.Sprint(c.Tags["policy"])}, extra...)}
		if s := fmt.Sprint(c.Tags["scenario"]); s != "" {
			p.counts = append(p.counts, "scenario:"+s)
		}
		if kind == "hist" {
			p.counts = append(p.counts, "hist:"+fmt.Sprint(c.Tags["fault"]))
			p.hc = lastCounts
			heavy = append(heavy, p)
		} else {
			light = append(light, p)
		}
	}
	add := func(in input, origin string) {
		c, err := runCase(in)
		if err != nil {
			fmt.Fprintln(os.Stderr, "c15: case not run:", err)
			out.Count("skipped:" + origin)
			return
		}
		if in.Kind == "read" {
			keep(c, in.Kind, origin, "read:"+in.Op.M, "read-result:"+fmt.Sprint(c.Tags["result"]), "members:"+in.M0.Kind+"/"+in.M1.Kind)
		} else {
			keep(c, in.Kind, origin)
		}
	}
	addCase := func(c hx.Case, in input, origin string) { keep(c, in.Kind, origin) }
	flush := func() {
		total := len(light) + len(heavy)
		li, hi := 0, 0
		for pos := 0; pos < total; pos++ {
			var p pending
			if hi < len(heavy) && (li >= len(light) || hi*total <= pos*len(heavy)) {
				p = heavy[hi]
				hi++
			} else {
				p = light[li]
				li++
			}
			if !out.Add(p.c) {
				continue
			}
			for _, k := range p.counts {
				out.Count(k)
			}
			for k, n := range p.hc {
				out.Stats[k] += n
			}
		}
		if err := out.Flush(); err != nil {
			panic(err)
		}
	}
	parse := func(raw []byte) (input, bool) {
		var r struct {
			Input input `json:"input"`
		}
		if err := json.Unmarshal(raw, &r); err != nil || r.Input.Kind == "" {
			return input{}, false
		}
		return r.Input, true
	}
	if cfg.Replay != "" {
		b, err := os.ReadFile(cfg.Replay)
		if err != nil {
			panic(err)
		}
		in, ok := parse(b)
		if !ok {
			panic("replay file has no input")
		}
		add(in, "replay")
		flush()
		return
	}
	for _, raw := range hx.LoadCorpus(cfg.Corpus) {
		if in, ok := parse(raw); ok {
			add(in, "corpus")
		}
	}
	rnd := cfg.Rand()

	// 1. scripted members: every pair of answers x every read method x both policies x
	//    both arrival orders
	fakeOps := map[string][]Op{
		"digest": {{M: "GetBlob", Repo: "foo", Digest: dig("one")}, {M: "GetBlobRange", Repo: "foo", Digest: dig("one"), O0: 0, O1: 2},
			{M: "GetManifest", Repo: "foo", Digest: dig("one")}, {M: "ResolveBlob", Repo: "foo", Digest: dig("one")},
			{M: "ResolveManifest", Repo: "foo", Digest: dig("one")}},
		"tag":     {{M: "GetTag", Repo: "foo", Tag: "latest"}, {M: "ResolveTag", Repo: "foo", Tag: "latest"}},
		"strings": {{M: "Repositories"}, {M: "Tags", Repo: "foo"}},
		"descs":   {{M: "Referrers", Repo: "foo", Digest: dig("x")}},
	}
	for _, kind := range []string{"digest", "tag", "strings", "descs"} {
		vals := fakeValues(kind)
		for _, o := range fakeOps[kind] {
			for i := range vals {
				for j := range vals {
					for _, pol := range []string{"seq", "conc"} {
						lates := []int{0}
						if pol == "conc" && kind == "digest" {
							lates = []int{1, 2}
						}
						if kind != "digest" && pol == "conc" && (i+j)%3 != 0 {
							continue // the policy plays no part in tag reads and listings: a sample
						}
						for _, late := range lates {
							op := o
							op.Late = late
							add(input{Kind: "read", Policy: pol, Scenario: "scripted",
								M0: memberSpec{Kind: "fake", Fake: &vals[i]}, M1: memberSpec{Kind: "fake", Fake: &vals[j]}, Op: &op}, "scripted")
						}
					}
				}
			}
		}
	}

	// 2. real in-memory registries in the member states the property names
	scenarios := []string{"empty", "equal", "disjoint", "overlap", "overlap", "conflict", "conflict", "oneside"}
	pairs, perPair := 48, 24
	if cfg.Thorough() {
		pairs, perPair = 400, 40
	}
	// ... as in-memory registries, as registries across HTTP, and one of each (the cache in
	// front of a remote registry): every scenario meets every combination
	kindPairs := [][2]string{{"mem", "mem"}, {"remote", "remote"}, {"mem", "remote"}, {"remote", "mem"}}
	for p := 0; p < pairs; p++ {
		sc := scenarios[p%len(scenarios)]
		s0, s1 := memberPair(rnd, sc)
		kp := kindPairs[(p/len(scenarios)+p)%len(kindPairs)]
		s0.Kind, s1.Kind = kp[0], kp[1]
		for k := 0; k < perPair; k++ {
			o := randomReadOp(rnd)
			for _, pol := range []string{"seq", "conc"} {
				op := o
				if pol == "conc" && isDigestRead(o.M) {
					op.Late = 1 + rnd.Intn(2)
				}
				add(input{Kind: "read", Policy: pol, Scenario: sc, M0: s0, M1: s1, Op: &op}, "registries")
			}
		}
	}

	// 2b. the tag states the property names (held by one member only - the other knowing the
	//     repository or not -, agreeing, conflicting, absent) x member kinds x tag reads and
	//     the digest reads of the tagged content x policies x arrival orders
	for _, in := range tagStateCases() {
		add(in, "tagstates")
	}

	// 3. write histories over members that start equal
	for _, pol := range []string{"seq", "conc"} {
		for v := 0; v <= 5; v++ {
			add(uploadStory(pol, v), "story")
		}
	}
	for _, in := range faultStories() {
		add(in, "faultstory")
	}
	for _, in := range cutStories() {
		add(in, "cutstory")
	}
	nh, steps := 150, 14
	if cfg.Thorough() {
		nh, steps = 2500, 20
	}
	for i := 0; i < nh; i++ {
		c, err := genHist(rnd, steps+rnd.Intn(8))
		if err != nil {
			panic(err)
		}
		addCase(c, input{Kind: "hist"}, "random-history")
	}
	flush()
}
