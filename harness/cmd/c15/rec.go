package main

// The recording member: an ociregistry.Interface that delegates to an inner registry and
// records every call it receives (as a Coq term of type op) with its answer (a Coq term of
// type result).  It also
//   - tags every error it returns so that the error can be recognised inside whatever the
//     unifier returns (errors.As / errors.Is still see the inner error),
//   - presents upload IDs in a canonical form (creation order) and translates them back,
//   - can inject one failure (before or after delegating),
//   - notices when the content stream of PushBlob fails (the io.Pipe was cut).

import (
	"bytes"
	"context"
	"errors"
	"fmt"
	"io"
	"sync"

	"cuelabs.dev/go/oci/ociregistry"
)

type tagged struct {
	tag string
	err error
}

func (t *tagged) Error() string { return t.err.Error() }
func (t *tagged) Unwrap() error { return t.err }

type call struct {
	Op  string `json:"op"`
	Res string `json:"res"`
	Raw string `json:"-"` // ID: the string returned
}

type fault struct {
	At     int    `json:"at"`     // index (from 0) of the call of this member that fails
	Before bool   `json:"before"` // fail without delegating (and, for PushBlob, without reading)
	Code   string `json:"code"`   // "" = plain error
}

type recorder struct {
	*ociregistry.Funcs
	name     string
	inner    ociregistry.Interface
	mu       sync.Mutex
	calls    []call
	ncalls   int // all calls received, recorded or not (fault index, quiescence)
	inflight int
	writers  []ociregistry.BlobWriter
	idPrefix string
	canon    map[string]string // real upload id -> canonical
	real     map[string]string // canonical -> real
	fault    *fault
	fired    bool
	cut      string // Coq err term when PushBlob saw its stream fail during the current step
	delay    func()
	// live: the readers handed out are the inner member's own (asked a second time), not
	// replays of the recorded bytes - for members whose readers are real streams (ociclient)
	live bool
}

func newRecorder(name string, inner ociregistry.Interface, idPrefix string) *recorder {
	return &recorder{name: name, inner: inner, idPrefix: idPrefix, canon: map[string]string{}, real: map[string]string{}}
}

func (r *recorder) wrapErr(err error) error {
	if err == nil {
		return nil
	}
	return &tagged{r.name, err}
}

func (r *recorder) errTerm(err error) string {
	return fmt.Sprintf("Err (E %s %s)", codeTerm(err), bterm(r.name))
}

// begin registers the call and says whether the injected failure fires on it.
func (r *recorder) begin() (fire *fault) {
	if r.delay != nil {
		r.delay()
	}
	r.mu.Lock()
	defer r.mu.Unlock()
	i := r.ncalls
	r.ncalls++
	r.inflight++
	if r.fault != nil && !r.fired && r.fault.At == i {
		r.fired = true
		return r.fault
	}
	return nil
}

func (r *recorder) end(op, res string) {
	r.mu.Lock()
	defer r.mu.Unlock()
	r.inflight--
	if op != "" {
		r.calls = append(r.calls, call{op, res, ""})
	}
}

func injected(f *fault) error {
	if f.Code == "" {
		return errors.New("injected failure")
	}
	return ociregistry.NewError("injected failure", f.Code, nil)
}

func (r *recorder) take() []call {
	r.mu.Lock()
	defer r.mu.Unlock()
	c := r.calls
	r.calls = nil
	return c
}

func (r *recorder) takeCut() string {
	r.mu.Lock()
	defer r.mu.Unlock()
	c := r.cut
	r.cut = ""
	return c
}

func (r *recorder) quiescent(min int) bool {
	r.mu.Lock()
	defer r.mu.Unlock()
	return r.inflight == 0 && r.ncalls >= min
}

func (r *recorder) received() int {
	r.mu.Lock()
	defer r.mu.Unlock()
	return r.ncalls
}

// completed: calls that have returned
func (r *recorder) completed() int {
	r.mu.Lock()
	defer r.mu.Unlock()
	return r.ncalls - r.inflight
}

func (r *recorder) hasFired() bool {
	r.mu.Lock()
	defer r.mu.Unlock()
	return r.fired
}

// ---- value-returning methods ----

func (r *recorder) descCall(op string, f func() (ociregistry.Descriptor, error)) (ociregistry.Descriptor, error) {
	fl := r.begin()
	if fl != nil && fl.Before {
		err := r.wrapErr(injected(fl))
		r.end(op, r.errTerm(err))
		return ociregistry.Descriptor{}, err
	}
	d, err := f()
	if fl != nil {
		err = injected(fl)
	}
	if err != nil {
		err = r.wrapErr(err)
		r.end(op, r.errTerm(err))
		return ociregistry.Descriptor{}, err
	}
	r.end(op, "Ok (RDesc "+descTerm(d)+")")
	return d, nil
}

func (r *recorder) unitCall(op string, f func() error) error {
	fl := r.begin()
	if fl != nil && fl.Before {
		err := r.wrapErr(injected(fl))
		r.end(op, r.errTerm(err))
		return err
	}
	err := f()
	if fl != nil {
		err = injected(fl)
	}
	if err != nil {
		err = r.wrapErr(err)
		r.end(op, r.errTerm(err))
		return err
	}
	r.end(op, "Ok RUnit")
	return nil
}

func (r *recorder) readCall(ctx context.Context, op string, f func() (ociregistry.BlobReader, error)) (ociregistry.BlobReader, error) {
	fl := r.begin()
	if fl != nil && fl.Before {
		err := r.wrapErr(injected(fl))
		r.end(op, r.errTerm(err))
		return nil, err
	}
	rd, err := f()
	var data []byte
	var desc ociregistry.Descriptor
	if err == nil {
		desc = rd.Descriptor()
		data, err = io.ReadAll(rd)
		rd.Close()
	}
	if fl != nil {
		err = injected(fl)
	}
	if err != nil {
		err = r.wrapErr(err)
		r.end(op, r.errTerm(err))
		return nil, err
	}
	r.end(op, fmt.Sprintf("Ok (RRead %s %s)", descTerm(desc), bterm(string(data))))
	if r.live {
		// the recording is made; what is handed out is the member's own stream
		if rd2, err2 := f(); err2 == nil && rd2 != nil {
			return &liveReader{rec: r, rd: rd2}, nil
		}
	}
	return r.newStreamReader(ctx, data, desc), nil
}

// liveReader passes the inner member's reader through, tagging its errors.
type liveReader struct {
	rec *recorder
	rd  ociregistry.BlobReader
}

func (l *liveReader) Descriptor() ociregistry.Descriptor { return l.rd.Descriptor() }
func (l *liveReader) Close() error                       { return l.rec.wrapErr(l.rd.Close()) }
func (l *liveReader) Read(p []byte) (int, error) {
	n, err := l.rd.Read(p)
	if err != nil && err != io.EOF {
		err = &tagged{l.rec.name, err}
	}
	return n, err
}

// streamReader is what a recording member hands out: the content as a STREAM, like the
// response body an ociclient member returns - it delivers the bytes a few at a time, it
// cannot be read once it has been closed, and it cannot be read once the context of the
// call that produced it has been cancelled.  (ocimem readers ignore Close and contexts
// altogether, which would hide a unifier that hands its caller a reader it has closed, or
// whose context it has cancelled.)
type streamReader struct {
	rec    *recorder
	ctx    context.Context
	desc   ociregistry.Descriptor
	mu     sync.Mutex
	data   []byte
	closed bool
}

var (
	errReadClosed   = errors.New("read on closed member reader")
	errReadCanceled = errors.New("read on member reader whose call context was cancelled")
)

func (r *recorder) newStreamReader(ctx context.Context, data []byte, desc ociregistry.Descriptor) *streamReader {
	return &streamReader{rec: r, ctx: ctx, desc: desc, data: data}
}

func (s *streamReader) Descriptor() ociregistry.Descriptor { return s.desc }

func (s *streamReader) Read(p []byte) (int, error) {
	s.mu.Lock()
	defer s.mu.Unlock()
	if s.closed {
		return 0, &tagged{s.rec.name, errReadClosed}
	}
	if s.ctx.Err() != nil {
		return 0, &tagged{s.rec.name, errReadCanceled}
	}
	if len(s.data) == 0 {
		return 0, io.EOF
	}
	n := len(p)
	if n > 7 {
		n = 7 // several Reads per content: a caller that stops after the first one is seen
	}
	n = copy(p[:n], s.data)
	s.data = s.data[n:]
	return n, nil
}

func (s *streamReader) Close() error {
	s.mu.Lock()
	defer s.mu.Unlock()
	s.closed = true
	return nil
}

func (r *recorder) GetBlob(ctx context.Context, repo string, dig ociregistry.Digest) (ociregistry.BlobReader, error) {
	return r.readCall(ctx, opGetBlob(repo, string(dig)), func() (ociregistry.BlobReader, error) { return r.inner.GetBlob(ctx, repo, dig) })
}
func (r *recorder) GetBlobRange(ctx context.Context, repo string, dig ociregistry.Digest, o0, o1 int64) (ociregistry.BlobReader, error) {
	return r.readCall(ctx, opGetBlobRange(repo, string(dig), o0, o1), func() (ociregistry.BlobReader, error) { return r.inner.GetBlobRange(ctx, repo, dig, o0, o1) })
}
func (r *recorder) GetManifest(ctx context.Context, repo string, dig ociregistry.Digest) (ociregistry.BlobReader, error) {
	return r.readCall(ctx, opGetManifest(repo, string(dig)), func() (ociregistry.BlobReader, error) { return r.inner.GetManifest(ctx, repo, dig) })
}
func (r *recorder) GetTag(ctx context.Context, repo string, tag string) (ociregistry.BlobReader, error) {
	return r.readCall(ctx, opGetTag(repo, tag), func() (ociregistry.BlobReader, error) { return r.inner.GetTag(ctx, repo, tag) })
}
func (r *recorder) ResolveBlob(ctx context.Context, repo string, dig ociregistry.Digest) (ociregistry.Descriptor, error) {
	return r.descCall(opResolveBlob(repo, string(dig)), func() (ociregistry.Descriptor, error) { return r.inner.ResolveBlob(ctx, repo, dig) })
}
func (r *recorder) ResolveManifest(ctx context.Context, repo string, dig ociregistry.Digest) (ociregistry.Descriptor, error) {
	return r.descCall(opResolveManifest(repo, string(dig)), func() (ociregistry.Descriptor, error) { return r.inner.ResolveManifest(ctx, repo, dig) })
}
func (r *recorder) ResolveTag(ctx context.Context, repo string, tag string) (ociregistry.Descriptor, error) {
	return r.descCall(opResolveTag(repo, tag), func() (ociregistry.Descriptor, error) { return r.inner.ResolveTag(ctx, repo, tag) })
}
func (r *recorder) MountBlob(ctx context.Context, from, to string, dig ociregistry.Digest) (ociregistry.Descriptor, error) {
	return r.descCall(opMountBlob(from, to, string(dig)), func() (ociregistry.Descriptor, error) { return r.inner.MountBlob(ctx, from, to, dig) })
}
func (r *recorder) PushManifest(ctx context.Context, repo, tag string, contents []byte, mediaType string) (ociregistry.Descriptor, error) {
	return r.descCall(opPushManifest(repo, tag, string(contents), mediaType), func() (ociregistry.Descriptor, error) {
		return r.inner.PushManifest(ctx, repo, tag, contents, mediaType)
	})
}
func (r *recorder) DeleteBlob(ctx context.Context, repo string, dig ociregistry.Digest) error {
	return r.unitCall(opDeleteBlob(repo, string(dig)), func() error { return r.inner.DeleteBlob(ctx, repo, dig) })
}
func (r *recorder) DeleteManifest(ctx context.Context, repo string, dig ociregistry.Digest) error {
	return r.unitCall(opDeleteManifest(repo, string(dig)), func() error { return r.inner.DeleteManifest(ctx, repo, dig) })
}
func (r *recorder) DeleteTag(ctx context.Context, repo string, tag string) error {
	return r.unitCall(opDeleteTag(repo, tag), func() error { return r.inner.DeleteTag(ctx, repo, tag) })
}

// streamSpy remembers how the content stream ended.
type streamSpy struct {
	r      io.Reader
	n      int
	sawEOF bool
	sawErr error
}

func (s *streamSpy) Read(p []byte) (int, error) {
	n, err := s.r.Read(p)
	s.n += n
	if err == io.EOF {
		s.sawEOF = true
	} else if err != nil {
		s.sawErr = err
	}
	return n, err
}

// PushBlob.  The op recorded carries the FULL content the caller handed to the unifier
// (told to the recorder through ctx) since a member that fails early does not read it.
type fullContentKey struct{}

func (r *recorder) PushBlob(ctx context.Context, repo string, desc ociregistry.Descriptor, content io.Reader) (ociregistry.Descriptor, error) {
	full, _ := ctx.Value(fullContentKey{}).(string)
	op := opPushBlob(repo, desc, full)
	fl := r.begin()
	if fl != nil && fl.Before {
		err := r.wrapErr(injected(fl))
		r.end(op, r.errTerm(err))
		return ociregistry.Descriptor{}, err
	}
	spy := &streamSpy{r: content}
	d, err := r.inner.PushBlob(ctx, repo, desc, spy)
	if fl != nil {
		err = injected(fl)
	}
	if spy.sawErr != nil {
		// the stream was cut: in the model this member is not called at all
		if err == nil {
			err = errors.New("member succeeded on a cut stream")
			op = "WCancel 999999" // poison: the model cannot agree
		}
		err = r.wrapErr(err)
		r.mu.Lock()
		r.cut = fmt.Sprintf("(E %s %s)", codeTerm(err), bterm(r.name))
		r.mu.Unlock()
		r.end("", "")
		return ociregistry.Descriptor{}, err
	}
	if err == nil && spy.n != len(full) {
		op = opPushBlob(repo, desc, "CONTENT-NOT-FULLY-READ") // poison
	}
	if err != nil {
		err = r.wrapErr(err)
		r.end(op, r.errTerm(err))
		return ociregistry.Descriptor{}, err
	}
	r.end(op, "Ok (RDesc "+descTerm(d)+")")
	return d, nil
}

// ---- iterators ----

func (r *recorder) Repositories(ctx context.Context, startAfter string) ociregistry.Seq[string] {
	return recSeq(r, opRepositories(startAfter), func() ociregistry.Seq[string] { return r.inner.Repositories(ctx, startAfter) },
		func(items []string, e string) string { return "Ok (RList " + bsterm(items) + " " + e + ")" })
}
func (r *recorder) Tags(ctx context.Context, repo, startAfter string) ociregistry.Seq[string] {
	return recSeq(r, opTags(repo, startAfter), func() ociregistry.Seq[string] { return r.inner.Tags(ctx, repo, startAfter) },
		func(items []string, e string) string { return "Ok (RList " + bsterm(items) + " " + e + ")" })
}
func (r *recorder) Referrers(ctx context.Context, repo string, dig ociregistry.Digest, artifactType string) ociregistry.Seq[ociregistry.Descriptor] {
	return recSeq(r, opReferrers(repo, string(dig), artifactType), func() ociregistry.Seq[ociregistry.Descriptor] {
		return r.inner.Referrers(ctx, repo, dig, artifactType)
	}, func(items []ociregistry.Descriptor, e string) string { return "Ok (RDescs " + descsTerm(items) + " " + e + ")" })
}

func recSeq[T any](r *recorder, op string, f func() ociregistry.Seq[T], render func([]T, string) string) ociregistry.Seq[T] {
	fl := r.begin()
	var items []T
	var err error
	if fl != nil && fl.Before {
		err = injected(fl)
	} else {
		items, err = ociregistry.All(f())
		if fl != nil {
			err = injected(fl)
		}
	}
	e := "None"
	if err != nil {
		err = r.wrapErr(err)
		e = fmt.Sprintf("(Some (E %s %s))", codeTerm(err), bterm(r.name))
	}
	r.end(op, render(items, e))
	return func(yield func(T, error) bool) {
		for _, x := range items {
			if !yield(x, nil) {
				return
			}
		}
		if err != nil {
			yield(*new(T), err)
		}
	}
}

// ---- chunked uploads ----

type recWriter struct {
	r *recorder
	h int
	w ociregistry.BlobWriter
}

func (r *recorder) canonID(realID string) string {
	r.mu.Lock()
	defer r.mu.Unlock()
	if c, ok := r.canon[realID]; ok {
		return c
	}
	c := fmt.Sprintf("%s%d", r.idPrefix, len(r.canon)+1)
	r.canon[realID] = c
	r.real[c] = realID
	return c
}

func (r *recorder) realID(canon string) string {
	r.mu.Lock()
	defer r.mu.Unlock()
	if x, ok := r.real[canon]; ok {
		return x
	}
	return canon
}

func (r *recorder) writerCall(op string, f func() (ociregistry.BlobWriter, error)) (ociregistry.BlobWriter, error) {
	fl := r.begin()
	if fl != nil && fl.Before {
		err := r.wrapErr(injected(fl))
		r.end(op, r.errTerm(err))
		return nil, err
	}
	w, err := f()
	if fl != nil {
		if err == nil {
			w.Close()
		}
		w = nil
		err = injected(fl)
	}
	if err != nil {
		err = r.wrapErr(err)
		r.end(op, r.errTerm(err))
		if w != nil {
			// a member that hands out a writer TOGETHER with an error: pass it on as it is
			// (the unifier closes whatever non-nil writer it is handed)
			return &recWriter{r, 999999, w}, err
		}
		return nil, err
	}
	r.mu.Lock()
	h := len(r.writers)
	r.writers = append(r.writers, w)
	r.mu.Unlock()
	r.end(op, fmt.Sprintf("Ok (RWriter %d)", h))
	return &recWriter{r, h, w}, nil
}

func (r *recorder) PushBlobChunked(ctx context.Context, repo string, chunkSize int) (ociregistry.BlobWriter, error) {
	return r.writerCall(opPushBlobChunked(repo, chunkSize), func() (ociregistry.BlobWriter, error) {
		return r.inner.PushBlobChunked(ctx, repo, chunkSize)
	})
}

func (r *recorder) PushBlobChunkedResume(ctx context.Context, repo, id string, offset int64, chunkSize int) (ociregistry.BlobWriter, error) {
	return r.writerCall(opResume(repo, id, offset, chunkSize), func() (ociregistry.BlobWriter, error) {
		return r.inner.PushBlobChunkedResume(ctx, repo, r.realID(id), offset, chunkSize)
	})
}

func (w *recWriter) Write(buf []byte) (int, error) {
	op := fmt.Sprintf("WWrite %d %s", w.h, bterm(string(buf)))
	fl := w.r.begin()
	if fl != nil && fl.Before {
		err := w.r.wrapErr(injected(fl))
		w.r.end(op, w.r.errTerm(err))
		return 0, err
	}
	n, err := w.w.Write(bytes.Clone(buf))
	if fl != nil {
		err = injected(fl)
	}
	if err != nil {
		err = w.r.wrapErr(err)
		w.r.end(op, w.r.errTerm(err))
		return n, err
	}
	w.r.end(op, fmt.Sprintf("Ok (RN %s)", zterm(int64(n))))
	return n, nil
}

func (w *recWriter) Close() error {
	return w.r.unitCall(fmt.Sprintf("WClose %d", w.h), w.w.Close)
}
func (w *recWriter) Cancel() error {
	return w.r.unitCall(fmt.Sprintf("WCancel %d", w.h), w.w.Cancel)
}
func (w *recWriter) Size() int64 {
	w.r.begin()
	n := w.w.Size()
	w.r.end(fmt.Sprintf("WSize %d", w.h), fmt.Sprintf("Ok (RN %s)", zterm(n)))
	return n
}
func (w *recWriter) ChunkSize() int {
	w.r.begin()
	n := w.w.ChunkSize()
	w.r.end(fmt.Sprintf("WChunkSize %d", w.h), fmt.Sprintf("Ok (RN %s)", zterm(int64(n))))
	return n
}
func (w *recWriter) ID() string {
	w.r.begin()
	id := w.r.canonID(w.w.ID())
	w.r.mu.Lock()
	w.r.inflight--
	w.r.calls = append(w.r.calls, call{fmt.Sprintf("WID %d", w.h), "Ok (RStr " + bterm(id) + ")", id})
	w.r.mu.Unlock()
	return id
}
func (w *recWriter) Commit(dig ociregistry.Digest) (ociregistry.Descriptor, error) {
	return w.r.descCall(fmt.Sprintf("WCommit %d %s", w.h, bterm(string(dig))), func() (ociregistry.Descriptor, error) { return w.w.Commit(dig) })
}
