// Long hosts for C17. The grammar puts no bound on the host part (number of labels, length of a
// label, digits of the port, bytes between the brackets), and neither ParseRelative nor IsValidHost
// has a length check for it, so the partition must hold for hosts of every length: a check added to
// one side only (a DNS-style 255 / 253 / 63 limit, a 5-digit or 65535 port limit, a 39-byte IPv6
// limit, a limit on the whole reference string) breaks "valid parts print to a string that parses
// back" or "the parts of a parsed string are valid". This file builds hosts of an exact length in
// every shape of the grammar and sweeps the lengths around the limits such a check would use.
package main

import (
	"math/rand"
	"strings"
)

const (
	hsOneLetter   = iota // a.b.c.d ... (as many labels as fit), optional port
	hsDNSLabels          // labels of 1..63 bytes with inner hyphens and upper case, optional port
	hsGiantLabel         // one label takes (almost) all the length, then ".io"
	hsLabelPort          // single label + port (no dot), the label takes the length
	hsLongPort           // short domain, the port's digits take the length
	hsIPv6               // [hex and colons], the bracket's content takes the length
	hsIPv6Port           // the same with a port
	hsIPv4ish            // digits-only labels
	nHostShapes
)

var hostShapeNames = [nHostShapes]string{"one-letter-labels", "dns-labels", "giant-label", "label+port", "long-port", "ipv6", "ipv6+port", "digit-labels"}

// a domain-name component of exactly n bytes (n >= 1): alphanumeric ends, hyphens allowed inside
func labelOfLen(r *rand.Rand, n int, alphabet string) string {
	if n <= 2 {
		return randFrom(r, alphabet, n)
	}
	inner := alphabet
	if r.Intn(2) == 0 {
		inner += "--"
	}
	return randFrom(r, alphabet, 1) + randFrom(r, inner, n-2) + randFrom(r, alphabet, 1)
}

// labels joined by dots, exactly n bytes (n >= 3), at least two labels, each label <= maxLabel bytes
func domainOfLen(r *rand.Rand, n, maxLabel int, alphabet string) string {
	var sb strings.Builder
	labels := 0
	for {
		rest := n - sb.Len()
		l := 1 + r.Intn(maxLabel)
		if labels == 0 && l > rest-2 {
			l = rest - 2 // leave room for ".x"
		}
		if l >= rest {
			l = rest
		} else if rest-l == 1 { // a dot with nothing after it
			if l > 1 {
				l--
			} else {
				l = rest
			}
		}
		if l < 1 {
			l = 1
		}
		sb.WriteString(labelOfLen(r, l, alphabet))
		labels++
		if sb.Len() >= n {
			return sb.String()
		}
		sb.WriteString(".")
	}
}

func portDigits(r *rand.Rand) string {
	switch r.Intn(6) {
	case 0:
		return "0"
	case 1:
		return pick(r, "65535", "65536", "99999", "00080", "100000")
	case 2:
		return randFrom(r, "0123456789", 6+r.Intn(15))
	}
	return randFrom(r, "0123456789", 1+r.Intn(5))
}

// hostOfLen returns a host of exactly n bytes that the grammar accepts, in the given shape
// (n is raised to the shape's minimum when it is smaller).
func hostOfLen(r *rand.Rand, n, shape int) string {
	if n < 10 {
		n = 10
	}
	port := ""
	if r.Intn(2) == 0 {
		port = ":" + portDigits(r)
		if len(port) > n-3 {
			port = port[:2]
		}
	}
	switch shape {
	case hsOneLetter:
		m := n - len(port)
		var sb strings.Builder
		if m%2 == 0 { // an even length needs one two-letter label
			sb.WriteString(randFrom(r, alnum, 1))
		}
		for sb.Len() < m {
			sb.WriteString(randFrom(r, alnum, 1))
			if sb.Len() < m {
				sb.WriteString(".")
			}
		}
		return sb.String() + port
	case hsDNSLabels:
		return domainOfLen(r, n-len(port), 63, alnum) + port
	case hsGiantLabel:
		tld := pick(r, ".io", ".a", ".example.com")
		if n-len(port)-len(tld) < 1 {
			tld = ".a"
		}
		if r.Intn(2) == 0 { // the giant label last
			return strings.TrimPrefix(tld, ".") + "." + labelOfLen(r, n-len(port)-len(tld), alnum) + port
		}
		return labelOfLen(r, n-len(port)-len(tld), alnum) + tld + port
	case hsLabelPort:
		port = ":" + randFrom(r, "0123456789", 1+r.Intn(5))
		return labelOfLen(r, n-len(port), alnum) + port
	case hsLongPort:
		dom := pick(r, "reg.io", "localhost", "10.0.0.1", "[::1]", "a.b")
		if n-len(dom)-1 < 1 {
			dom = "a.b"
		}
		return dom + ":" + randFrom(r, "0123456789", n-len(dom)-1)
	case hsIPv6:
		return "[" + randFrom(r, "0123456789abcdefABCDEF::", n-2) + "]"
	case hsIPv6Port:
		port = ":" + randFrom(r, "0123456789", 1+r.Intn(5))
		return "[" + randFrom(r, "0123456789abcdefABCDEF::", n-2-len(port)) + "]" + port
	}
	return domainOfLen(r, n-len(port), 3, "0123456789") + port
}

// one byte of a long host replaced / inserted so that the grammar rejects it (mostly)
func spoilHost(r *rand.Rand, h string) string {
	i := r.Intn(len(h))
	switch r.Intn(5) {
	case 0:
		return h[:i] + "_" + h[i+1:]
	case 1:
		return h[:i] + ".." + h[i+1:]
	case 2:
		return h + pick(r, ".", "-", ":", ":x")
	case 3:
		return pick(r, ".", "-", ":") + h
	}
	return h[:i] + pick(r, "/", "@", " ", "\n", "\xff", "+") + h[i:]
}

// the lengths swept: around the limits a hand-written check would plausibly use (label 63, IPv6
// text 39 / 45, DNS name 253 / 255, 256, 512, 1024, 2048, 4096) and, in the thorough tier, beyond
func hostLengths(thorough bool) []int {
	var ns []int
	add := func(lo, hi int) {
		for n := lo; n <= hi; n++ {
			ns = append(ns, n)
		}
	}
	add(38, 47)
	add(62, 66)
	add(126, 130)
	add(252, 258)
	ns = append(ns, 300, 400, 511, 512, 513, 700, 1023, 1024, 1025, 2049, 4097)
	if thorough {
		add(8, 37)
		add(48, 61)
		add(67, 125)
		add(131, 251)
		add(259, 299)
		ns = append(ns, 2047, 2048, 4095, 4096, 8192, 16384)
	}
	return ns
}
