// Harness for C17: drives ociref.Parse / ParseRelative / Reference.String and the four
// validity predicates (plus the deprecated wrappers in ociregistry/valid.go and
// Digest.Validate) on enumerated, grammar-directed, mutated and unstructured strings.
// Only the public API is used.
package main

import (
	_ "crypto/sha256" // go-digest's Algorithm.Available asks the crypto registry:
	_ "crypto/sha512" // the model's [linked] is "all three" for this binary
	"encoding/hex"
	"encoding/json"
	"errors"
	"fmt"
	"math/rand"
	"os"
	"strings"

	"cuelabs.dev/go/oci/ociregistry"
	"cuelabs.dev/go/oci/ociregistry/ociref"
	"github.com/opencontainers/go-digest"
	"verif/harness/hx"
)

// ---------------------------------------------------------------- observation

type input struct {
	Kind string `json:"kind"` // "str" | "parts" | "route"
	EP   int    `json:"endpoint,omitempty"` // index into endpoints (route)
	Hex  string `json:"hex,omitempty"`
	Raw  *string `json:"raw,omitempty"` // route: the percent-encoded spelling put on the request line (absent: canonical encoding)
	Opts string  `json:"opts,omitempty"` // route: name of the server option configuration (absent: default options)
	H    string `json:"h,omitempty"` // hex
	R    string `json:"r,omitempty"`
	T    string `json:"t,omitempty"`
	D    string `json:"d,omitempty"`
}

type pres struct {
	State string   `json:"state"` // ok | err | panic
	Parts []string `json:"parts,omitempty"`
	Note  string   `json:"note,omitempty"`
}

func (p pres) coq(base string) string {
	switch p.State {
	case "ok":
		return fmt.Sprintf("(EOk %s %s %s %s)", enc(base, p.Parts[0]), enc(base, p.Parts[1]), enc(base, p.Parts[2]), enc(base, p.Parts[3]))
	case "err":
		return "EErr"
	}
	return "EPanic"
}

// lit renders a byte string as a Coq term of type bytes: (s "ascii") when it is short and every
// byte is printable ASCII other than the double quote, the packed form hx.B otherwise (a long
// string literal is several times dearer for coqc to read than the packed integers).
func lit(v string) string {
	if v == "" {
		return "[]"
	}
	if len(v) > 16 {
		return hx.B(v)
	}
	for i := 0; i < len(v); i++ {
		if v[i] < 0x20 || v[i] > 0x7e || v[i] == '"' {
			return hx.B(v)
		}
	}
	return `(s "` + v + `")`
}

// enc renders an observed byte string relative to a base string the case already carries
// (Obs/C17.v [enc]): the whole base, a substring of it, or a literal.
func enc(base, v string) string {
	if v == base {
		return "W"
	}
	if v == "" {
		return "(E [])"
	}
	if i := strings.Index(base, v); i >= 0 {
		return fmt.Sprintf("(Sub %d %d)", i, len(v))
	}
	return "(E " + lit(v) + ")"
}

func observeParse(f func(string) (ociref.Reference, error), s string) (p pres, ref ociref.Reference) {
	var err error
	panicked, pv := hx.Recover(func() { ref, err = f(s) })
	switch {
	case panicked:
		return pres{State: "panic", Note: pv}, ref
	case err != nil:
		return pres{State: "err", Note: err.Error()}, ref
	}
	return pres{State: "ok", Parts: []string{ref.Host, ref.Repository, ref.Tag, string(ref.Digest)}}, ref
}

func ob(f func(string) bool, s string) string {
	var r bool
	if panicked, _ := hx.Recover(func() { r = f(s) }); panicked {
		return "OP"
	}
	if r {
		return "OT"
	}
	return "OF"
}

func preds(h, r, t, d string) [4]string {
	return [4]string{ob(ociref.IsValidHost, h), ob(ociref.IsValidRepository, r), ob(ociref.IsValidTag, t), ob(ociref.IsValidDigest, d)}
}

func mkp(p [4]string) string { return fmt.Sprintf("(mkp %s %s %s %s)", p[0], p[1], p[2], p[3]) }

func validateCode(s string) int {
	var err error
	if panicked, _ := hx.Recover(func() { err = ociref.Digest(s).Validate() }); panicked {
		return -1
	}
	switch {
	case err == nil:
		return 0
	case errors.Is(err, digest.ErrDigestInvalidFormat):
		return 1
	case errors.Is(err, digest.ErrDigestInvalidLength):
		return 2
	case errors.Is(err, digest.ErrDigestUnsupported):
		return 3
	}
	return -1
}

func optN(n int) string {
	if n < 0 {
		return "None"
	}
	return fmt.Sprintf("(Some %d)", n)
}

type strObs struct {
	Rel    pres       `json:"parse_relative"`
	Abs    pres       `json:"parse"`
	Str    *string    `json:"string,omitempty"`
	PV     *[4]string `json:"preds_on_parts,omitempty"`
	SV     [4]string  `json:"preds_on_input"`
	WV     [4]string  `json:"root_wrappers_on_input"`
	Digest int        `json:"digest_validate"`
}

func runStr(s string) (string, strObs) {
	var o strObs
	var ref ociref.Reference
	o.Rel, ref = observeParse(ociref.ParseRelative, s)
	o.Abs, _ = observeParse(ociref.Parse, s)
	str, pv := "None", "None"
	if o.Rel.State == "ok" {
		var out string
		if panicked, _ := hx.Recover(func() { out = ref.String() }); !panicked {
			o.Str = &out
			str = "(Some " + enc(s, out) + ")"
		}
		p := preds(ref.Host, ref.Repository, ref.Tag, string(ref.Digest))
		o.PV = &p
		pv = "(Some " + mkp(p) + ")"
	}
	o.SV = preds(s, s, s, s)
	o.WV = [4]string{"OF", ob(ociregistry.IsValidRepoName, s), ob(ociregistry.IsValidTag, s), ob(ociregistry.IsValidDigest, s)}
	o.Digest = validateCode(s)
	coq := fmt.Sprintf("ES %s %s %s %s %s %s %s %s", lit(s), o.Rel.coq(s), o.Abs.coq(s), str, pv, mkp(o.SV), mkp(o.WV), optN(o.Digest))
	return coq, o
}

type partsObs struct {
	PV  [4]string `json:"preds"`
	Str *string   `json:"string,omitempty"`
	Rel pres      `json:"parse_relative"`
	Abs pres      `json:"parse"`
}

func runParts(h, r, t, d string) (string, partsObs) {
	var o partsObs
	o.PV = preds(h, r, t, d)
	ref := ociref.Reference{Host: h, Repository: r, Tag: t, Digest: ociref.Digest(d)}
	var out string
	str := "None"
	base := h + r + t + d // what the strings of the case are written relative to
	if panicked, _ := hx.Recover(func() { out = ref.String() }); !panicked {
		o.Str = &out
		base = out
		str = "(Some W)"
	}
	o.Rel, _ = observeParse(ociref.ParseRelative, out)
	o.Abs, _ = observeParse(ociref.Parse, out)
	coq := fmt.Sprintf("EP %s %s %s %s %s %s %s %s %s", lit(base), enc(base, h), enc(base, r), enc(base, t), enc(base, d), mkp(o.PV), str, o.Rel.coq(base), o.Abs.coq(base))
	return coq, o
}

// ---------------------------------------------------------------- generators

const hexd = "0123456789abcdef"

func pick(r *rand.Rand, xs ...string) string { return xs[r.Intn(len(xs))] }

func randFrom(r *rand.Rand, alphabet string, n int) string {
	b := make([]byte, n)
	for i := range b {
		b[i] = alphabet[r.Intn(len(alphabet))]
	}
	return string(b)
}

const lowerDigit = "abcdefghijklmnopqrstuvwxyz0123456789"
const alnum = lowerDigit + "ABCDEFGHIJKLMNOPQRSTUVWXYZ"

func genDNC(r *rand.Rand) string {
	switch r.Intn(4) {
	case 0:
		return randFrom(r, alnum, 1)
	case 1:
		return randFrom(r, alnum, 1) + randFrom(r, alnum+"--", r.Intn(5)) + randFrom(r, alnum, 1)
	}
	return randFrom(r, lowerDigit, 1+r.Intn(6))
}

func genHost(r *rand.Rand) string {
	var h string
	switch r.Intn(10) {
	case 0, 1, 2, 3, 4: // domain name with dots
		n := 2 + r.Intn(3)
		parts := make([]string, n)
		for i := range parts {
			parts[i] = genDNC(r)
		}
		h = strings.Join(parts, ".")
		if r.Intn(2) == 0 {
			h += ":" + randFrom(r, "0123456789", 1+r.Intn(5))
		}
	case 5, 6: // single component needs a port
		h = genDNC(r) + ":" + randFrom(r, "0123456789", 1+r.Intn(5))
	case 7: // IPv4
		h = fmt.Sprintf("%d.%d.%d.%d", r.Intn(256), r.Intn(256), r.Intn(256), r.Intn(256))
		if r.Intn(2) == 0 {
			h += ":" + randFrom(r, "0123456789", 1+r.Intn(5))
		}
	default: // IPv6 in brackets
		h = "[" + randFrom(r, "0123456789abcdefABCDEF::", 1+r.Intn(20)) + "]"
		if r.Intn(2) == 0 {
			h += ":" + randFrom(r, "0123456789", 1+r.Intn(5))
		}
	}
	return h
}

var seps = []string{".", "_", "__", "-", "--", "---"}
var badSeps = []string{"..", "___", "_.", "._", "-.", ".-", "_-", "-_", "+", "~", "//", " ", ":"}

func genPathComponent(r *rand.Rand, okOnly bool) string {
	var sb strings.Builder
	sb.WriteString(randFrom(r, lowerDigit, 1+r.Intn(5)))
	for n := r.Intn(4); n > 0; n-- {
		if !okOnly && r.Intn(12) == 0 {
			sb.WriteString(badSeps[r.Intn(len(badSeps))])
		} else {
			sb.WriteString(seps[r.Intn(len(seps))])
		}
		sb.WriteString(randFrom(r, lowerDigit, 1+r.Intn(5)))
	}
	return sb.String()
}

func genRepo(r *rand.Rand, okOnly bool) string {
	n := 1 + r.Intn(4)
	parts := make([]string, n)
	for i := range parts {
		parts[i] = genPathComponent(r, okOnly)
	}
	s := strings.Join(parts, "/")
	if !okOnly {
		switch r.Intn(30) {
		case 0:
			s = strings.ToUpper(s[:1]) + s[1:]
		case 1:
			s += "/"
		case 2:
			s = "/" + s
		case 3:
			s += pick(r, ".", "_", "-")
		case 4:
			s = pick(r, ".", "_", "-") + s
		}
	}
	return s
}

// a repository name of exactly n bytes using every separator form
func repoOfLen(r *rand.Rand, n int) string {
	var sb strings.Builder
	sb.WriteString("a")
	for sb.Len() < n {
		rest := n - sb.Len()
		var piece string
		switch r.Intn(8) {
		case 0:
			piece = "/b"
		case 1:
			piece = ".c"
		case 2:
			piece = "_d"
		case 3:
			piece = "__e"
		case 4:
			piece = "-f"
		case 5:
			piece = "--g"
		default:
			piece = randFrom(r, lowerDigit, 1)
		}
		if len(piece) > rest {
			piece = randFrom(r, lowerDigit, rest)
		}
		sb.WriteString(piece)
	}
	return sb.String()
}

const tagFirst = "abcxyzABCXYZ0189_"
const tagRest = tagFirst + ".-"

func genTag(r *rand.Rand, okOnly bool) string {
	n := 1 + r.Intn(12)
	switch r.Intn(10) {
	case 0:
		n = 126 + r.Intn(3) // 126..128
	case 1:
		if !okOnly {
			n = 129 + r.Intn(3)
		}
	}
	t := randFrom(r, tagFirst, 1) + randFrom(r, tagRest, n-1)
	if !okOnly {
		switch r.Intn(15) {
		case 0:
			t = pick(r, ".", "-", "+", "/", ":", " ", "\x00", "\xc3\xa9") + t[1:]
		case 1:
			i := r.Intn(len(t))
			t = t[:i] + pick(r, "+", "/", ":", " ", "!", "\n", "\xff", "\xc3\xa9", "~", "@") + t[i+1:]
		}
	}
	return t
}

func genDigest(r *rand.Rand, okOnly bool) string {
	algs := []struct {
		name string
		n    int
	}{{"sha256", 64}, {"sha384", 96}, {"sha512", 128}}
	a := algs[r.Intn(3)]
	d := a.name + ":" + randFrom(r, hexd, a.n)
	if okOnly || r.Intn(3) > 0 {
		return d
	}
	switch r.Intn(16) {
	case 0:
		return a.name + ":" + randFrom(r, hexd, a.n-1)
	case 1:
		return a.name + ":" + randFrom(r, hexd, a.n+1)
	case 2:
		return a.name + ":" + strings.ToUpper(randFrom(r, hexd, a.n))
	case 3:
		i := len(a.name) + 1 + r.Intn(a.n)
		return d[:i] + pick(r, "g", "A", "F", "-", "=", "_", ":", "\n", " ", "\xff") + d[i+1:]
	case 4:
		return a.name + ":"
	case 5:
		return ":" + randFrom(r, hexd, a.n)
	case 6:
		return a.name + randFrom(r, hexd, a.n)
	case 7:
		return pick(r, "md5", "sha1", "sha224", "blake3", "sha256+b64", "sha512.x", "multihash+base58", "SHA256", "sha_256", "sha256-", "sha--1") +
			":" + randFrom(r, hexd+"ABCXYZ=_-", 1+r.Intn(70))
	case 8:
		return pick(r, "md5", "sha1", "a+b", "a..b", "a+", "+a", "9") + ":" + pick(r, "", "!", "a b", "a:b", "zz==", "a/b")
	case 9:
		return algs[(r.Intn(2)+1+indexOf(a.name))%3].name + ":" + randFrom(r, hexd, a.n) // right hex, wrong algorithm
	case 10:
		return a.name + "::" + randFrom(r, hexd, a.n-1)
	case 11:
		return a.name + ":" + randFrom(r, hexd, a.n) + pick(r, "\n", " ", "@", "/")
	case 12:
		return strings.ToUpper(a.name) + ":" + randFrom(r, hexd, a.n)
	case 13:
		return " " + d
	case 14:
		return a.name + ":" + randFrom(r, hexd, a.n/2)
	}
	return a.name + ":" + randFrom(r, hexd, 2*a.n)
}

func indexOf(name string) int {
	switch name {
	case "sha256":
		return 0
	case "sha384":
		return 1
	}
	return 2
}

func join(h, r, t, d string) string {
	s := r
	if h != "" {
		s = h + "/" + r
	}
	if t != "" {
		s += ":" + t
	}
	if d != "" {
		s += "@" + d
	}
	return s
}

const mutAlphabet = "az09A./:@-_[]\n+= \x00\xff"

func mutate(r *rand.Rand, s string) string {
	if s == "" {
		return randFrom(r, mutAlphabet, 1)
	}
	i := r.Intn(len(s))
	c := randFrom(r, mutAlphabet, 1)
	switch r.Intn(3) {
	case 0:
		return s[:i] + c + s[i:]
	case 1:
		return s[:i] + s[i+1:]
	}
	return s[:i] + c + s[i+1:]
}

// hand-picked strings: ambiguous splits, boundaries of each rule
var fixed = []string{
	"", "a", "a/b", "a.b/c", "a.b/c/d", "a:1/b", "a:b", "a:b/c", "a:1", "a:1/b:2", "a.b:1/c:d@e",
	"localhost/foo", "localhost:5000/foo", "LOCALHOST:5000/foo", "Localhost/foo", "a.B/c", "A.b/c", "a.b/C",
	"[::1]/foo", "[::1]:80/foo", "[::1]:/foo", "[]/foo", "[::g]/foo", "[::1]x/foo", "[::1]", "[a]:1/b:c",
	"127.0.0.1/foo", "127.0.0.1:5000/foo:tag", "a-b.c/d", "-a.b/c", "a-.b/c", "a.-b/c", "a..b/c", "a.b./c", ".a.b/c",
	"a.b:/c", "a.b:x/c", "a.b:80x/c", "a.b:80/", "a.b:80//c", "a.b//c", "a.b/", "/a", "a/", "a//b",
	"foo:tag", "foo:tag:more", "foo:t/g", "foo:", "foo:@x", "foo@", "foo:tag@", "foo@@", "foo:a@b@c",
	"foo:.tag", "foo:-tag", "foo:_tag", "foo:tag.", "foo:tag-", "foo:t+g", "foo:t g", "foo:\n", "foo:a\nb", "foo@a\nb", "foo\n", "\nfoo",
	"foo@sha256:0123456789abcdef0123456789abcdef0123456789abcdef0123456789abcdef",
	"foo:tag@sha256:0123456789abcdef0123456789abcdef0123456789abcdef0123456789abcdef",
	"a.b/foo:tag@sha256:0123456789abcdef0123456789abcdef0123456789abcdef0123456789abcdef",
	"a.b/foo@sha256:0123456789abcdef0123456789abcdef0123456789abcdef0123456789abcdeF",
	"a.b/foo@sha256:0123456789abcdef0123456789abcdef0123456789abcdef0123456789abcde",
	"a.b/foo@sha256:0123456789abcdef0123456789abcdef0123456789abcdef0123456789abcdef0",
	"a.b/foo@md5:abc", "a.b/foo@sha256:", "a.b/foo@:abc", "a.b/foo@sha256", "a.b/foo@sha256:abc@def",
	"foo__bar", "foo___bar", "foo_bar", "foo_.bar", "foo--bar", "foo---------bar", "foo-_bar", "foo.bar", "foo..bar", "foo._bar",
	"foo-", "-foo", "foo_", "_foo", "foo.", ".foo", "Foo", "fOo", "foo/Bar", "f", "0", "0/0", "0.0/0", "0:0/0:0@0",
	"a.b/c:" + strings.Repeat("t", 127), "a.b/c:" + strings.Repeat("t", 128), "a.b/c:" + strings.Repeat("t", 129),
	strings.Repeat("t", 127), strings.Repeat("t", 128), strings.Repeat("t", 129), strings.Repeat("T", 128) + ".",
	"a.b/" + strings.Repeat("r", 254), "a.b/" + strings.Repeat("r", 255), "a.b/" + strings.Repeat("r", 256),
	strings.Repeat("r", 255), strings.Repeat("r", 256), strings.Repeat("r/", 127) + "r", strings.Repeat("r/", 127) + "rr", strings.Repeat("r/", 128) + "r",
	"sha256:0123456789abcdef0123456789abcdef0123456789abcdef0123456789abcdef",
	"sha384:0123456789abcdef0123456789abcdef0123456789abcdef0123456789abcdef0123456789abcdef0123456789abcdef",
	"sha512:0123456789abcdef0123456789abcdef0123456789abcdef0123456789abcdef0123456789abcdef0123456789abcdef0123456789abcdef0123456789abcdef",
	"sha512:0123456789abcdef0123456789abcdef0123456789abcdef0123456789abcdef",
	"sha256:0123456789abcdef0123456789abcdef0123456789abcdef0123456789abcdef0123456789abcdef0123456789abcdef",
	"\xff", "a\xffb", "caf\xc3\xa9", "a.b/caf\xc3\xa9", "a.b/c:caf\xc3\xa9", "a.b/c:\xff\xfe", "a.b/c@\xff", "a.b/c:x@\xc3\xa9", "\x00", "a\x00", "a.b/c:\x00",
	"a.b/c:t@x", "a.b/c:t@\n", "a.b/c:t@x\n", "a.b/c:t\n@sha256:00", "a.b/c@x@y", "a.b/c:t:u@v", "a.b/c:t/u", "a:1/b:t/u",
}

// the path elements and query keys the distribution protocol itself uses
var routeKeywords = []string{"referrers", "blobs", "manifests", "tags", "uploads", "list", "_catalog", "v2", "mount", "from", "digest"}

// decorations that other tools write around a reference (URL-ish schemes, slashes, white space,
// userinfo, fragments, queries, a trailing dot): none of them belongs to any part, so a decorated
// valid reference must be rejected by both entry points, or parse and print back exactly
var decoPrefixes = []string{"oci://", "OCI://", "Oci://", "oci:/", "oci:", "docker://", "http://", "https://", "HTTPS://", "registry://", "tcp://", "ssh://", "file:///", "//", "/", "./", " ", "\t", "\n", "\r\n", "\x00", "\ufeff", "user@", "user:pw@", "@", ":", "-", ".", "_"}
var decoSuffixes = []string{"/", "//", " ", "\t", "\n", "\r\n", "\x00", ".", ":", "@", "#frag", "#", "?q=1", "?", "/.", "/..", ":latest", "@sha256:", "-", "_"}

// decorate calls f on s wrapped in every decoration (each prefix, each suffix, a few pairs), on
// its upper-cased / lower-cased / title-cased spellings and on s with a scheme before the
// repository instead of the host.
func decorate(r *rand.Rand, s string, f func(string)) {
	f(s)
	for _, p := range decoPrefixes {
		f(p + s)
	}
	for _, q := range decoSuffixes {
		f(s + q)
	}
	for k := 0; k < 4; k++ {
		f(decoPrefixes[r.Intn(len(decoPrefixes))] + s + decoSuffixes[r.Intn(len(decoSuffixes))])
	}
	f(decoPrefixes[r.Intn(8)] + decoPrefixes[r.Intn(8)] + s) // a scheme twice: stripping once leaves one
	f(strings.ToUpper(s))
	f(strings.ToLower(s))
	f(strings.ToUpper(s[:1]) + s[1:])
	if i := strings.IndexByte(s, '/'); i > 0 {
		f(strings.ToUpper(s[:i]) + s[i:]) // the host alone in upper case
		f(s[:i+1] + "oci://" + s[i+1:])
		f(s[:i] + "//" + s[i+1:])
	}
}

const enumAlphabet = "ab./:@-_1A[]"

func enumerate(maxLen int, f func(string)) {
	var rec func(prefix []byte)
	rec = func(prefix []byte) {
		f(string(prefix))
		if len(prefix) == maxLen {
			return
		}
		for i := 0; i < len(enumAlphabet); i++ {
			rec(append(prefix, enumAlphabet[i]))
		}
	}
	rec(nil)
}

// ---------------------------------------------------------------- main

func printable(s string) string {
	if len(s) > 160 {
		return fmt.Sprintf("%q...(%d bytes)", s[:160], len(s))
	}
	return fmt.Sprintf("%q", s)
}

func lenBucket(n int) string {
	switch {
	case n == 0:
		return "0"
	case n <= 5:
		return "1-5"
	case n <= 40:
		return "6-40"
	case n <= 126:
		return "41-126"
	case n <= 130:
		return "127-130"
	case n <= 253:
		return "131-253"
	case n <= 257:
		return "254-257"
	}
	return "258+"
}

func main() {
	cfg := hx.ParseFlags()
	out := hx.NewOut(cfg, "Obs.C17")
	out.ShardMax = 1500
	rng := cfg.Rand()

	// Cases are buffered and (after the corpus) written in a seeded random order, so that the
	// long grammar-directed cases are spread evenly over the shards Coq evaluates in parallel.
	type pend struct {
		c      hx.Case
		counts []string
	}
	var pending []pend
	seen := map[string]bool{}
	dups := 0
	optRuns := map[string]int{} // routed requests per server option configuration (before duplicates are dropped)
	emit := func(c hx.Case, counts []string) {
		if seen[c.Coq] {
			dups++
			return
		}
		seen[c.Coq] = true
		pending = append(pending, pend{c, counts})
	}
	flush := func(keepFirst int) {
		rest := pending[keepFirst:]
		rand.New(rand.NewSource(cfg.Seed*7919+17)).Shuffle(len(rest), func(i, j int) { rest[i], rest[j] = rest[j], rest[i] })
		for _, p := range pending {
			if out.Add(p.c) {
				for _, k := range p.counts {
					out.Count(k)
				}
			}
		}
		out.Extra["duplicates_dropped_by_harness"] = dups
		out.Extra["route_requests_by_server_options"] = optRuns
		if err := out.Flush(); err != nil {
			panic(err)
		}
	}

	addStr := func(s, origin string) {
		coq, o := runStr(s)
		outcome := o.Rel.State
		if o.Rel.State == "panic" || o.Abs.State == "panic" || strings.Contains(coq, "OP") || o.Digest < 0 {
			outcome = "panic"
		}
		in := input{Kind: "str", Hex: hex.EncodeToString([]byte(s))}
		counts := []string{"kind:str", "origin:" + origin, "parse_relative:" + o.Rel.State, "len:" + lenBucket(len(s))}
		names := []string{"host", "repository", "tag", "digest"}
		for i, v := range o.SV {
			if v == "OT" {
				counts = append(counts, "accepted_as:"+names[i])
			}
		}
		if o.Rel.State == "ok" {
			shape := "repo"
			if o.Rel.Parts[0] != "" {
				shape = "host/" + shape
			}
			if o.Rel.Parts[2] != "" {
				shape += ":tag"
			}
			if o.Rel.Parts[3] != "" {
				shape += "@digest"
			}
			counts = append(counts, "parsed_shape:"+shape)
		}
		emit(hx.Case{Coq: coq, Desc: map[string]any{"input": in, "text": printable(s), "observed": o, "origin": origin},
			Tags: map[string]any{"class": "str/" + origin + "/" + outcome, "origin": origin, "outcome": outcome}}, counts)
	}
	addParts := func(h, r, t, d, origin string) {
		coq, o := runParts(h, r, t, d)
		allValid := h != "" && o.PV[0] == "OT" && o.PV[1] == "OT" && len(r) <= 255 && (t == "" || o.PV[2] == "OT") && (d == "" || o.PV[3] == "OT")
		outcome := "invalid-parts"
		if allValid {
			outcome = "valid-parts"
		}
		if o.Rel.State == "panic" || o.Abs.State == "panic" || strings.Contains(coq, "OP") || o.Str == nil {
			outcome = "panic"
		}
		in := input{Kind: "parts", H: hex.EncodeToString([]byte(h)), R: hex.EncodeToString([]byte(r)),
			T: hex.EncodeToString([]byte(t)), D: hex.EncodeToString([]byte(d))}
		emit(hx.Case{Coq: coq, Desc: map[string]any{"input": in,
			"text":     map[string]string{"host": printable(h), "repository": printable(r), "tag": printable(t), "digest": printable(d)},
			"observed": o, "origin": origin},
			Tags: map[string]any{"class": "parts/" + origin + "/" + outcome, "origin": origin, "outcome": outcome}},
			[]string{"kind:parts", "origin:" + origin, "parts:" + outcome, "parts_reparse:" + o.Rel.State})
	}
	addRouteOpt := func(ep int, w string, raw *string, mode, origin, opts string) {
		if _, applies := expectation(endpoints[ep], opts, w); !applies {
			return // the option switches this endpoint off
		}
		coq, o := runRoute(ep, w, raw, opts)
		optRuns[optLabel(opts)]++
		in := input{Kind: "route", Hex: hex.EncodeToString([]byte(w)), EP: ep, Raw: raw, Opts: opts}
		spelling := "canonical"
		if raw != nil {
			spelling = "respelled"
		}
		if opts != "" {
			spelling += "/" + opts
		}
		emit(hx.Case{Coq: coq, Desc: map[string]any{"input": in, "text": printable(w), "observed": o, "origin": origin, "spelling": mode},
			Tags: map[string]any{"class": "route/" + endpoints[ep].Pos + "/" + endpoints[ep].Name + "/" + spelling + "/" + o.Accepted, "origin": origin, "outcome": o.Accepted, "spelling": mode}},
			[]string{"kind:route", "route_pos:" + endpoints[ep].Pos, "route_accepted:" + endpoints[ep].Pos + ":" + o.Accepted, "origin:" + origin,
				"route_spelling:" + mode, "route_accepted_spelling:" + spelling + ":" + o.Accepted, "route_options:" + optLabel(opts)})
	}
	addRouteEP := func(ep int, w string, raw *string, mode, origin string) {
		addRouteOpt(ep, w, raw, mode, origin, "")
	}
	// one respelling of w for endpoint ep in the given mode; false when it is the canonical one
	respell := func(ep int, w, mode string) (string, bool) {
		inq := endpoints[ep].WKey != ""
		raw := spell(rng, mode, w, inq)
		return raw, raw != canonicalSpelling(w, inq)
	}
	// canonical encoding at every endpoint, plus - at every second endpoint on average - one
	// other spelling (mode drawn at random)
	addRoute := func(w, origin string) {
		for ep := range endpoints {
			addRouteEP(ep, w, nil, "canonical", origin)
			for try := 0; try < 4 && (try > 0 || rng.Intn(2) == 0); try++ {
				mode := spellModes[rng.Intn(len(spellModes))]
				if raw, ok := respell(ep, w, mode); ok {
					addRouteEP(ep, w, &raw, mode, origin)
					break
				}
			}
			// the same request under every other server option configuration: the canonical
			// encoding always, one other spelling at every twelfth endpoint on average
			for _, oc := range optConfigs[1:] {
				addRouteOpt(ep, w, nil, "canonical", origin, oc.Name)
				if rng.Intn(12) == 0 {
					mode := spellModes[rng.Intn(len(spellModes))]
					if raw, ok := respell(ep, w, mode); ok {
						addRouteOpt(ep, w, &raw, mode, origin, oc.Name)
					}
				}
			}
		}
	}
	// every spelling mode at every endpoint
	addRouteAllSpellings := func(w, origin string) {
		for ep := range endpoints {
			addRouteEP(ep, w, nil, "canonical", origin)
			for _, mode := range spellModes {
				if raw, ok := respell(ep, w, mode); ok {
					addRouteEP(ep, w, &raw, mode, origin)
				}
			}
		}
	}
	runInput := func(in input, origin string) {
		dec := func(h string) string {
			b, err := hex.DecodeString(h)
			if err != nil {
				panic(err)
			}
			return string(b)
		}
		switch in.Kind {
		case "route":
			mode := "canonical"
			if in.Raw != nil {
				mode = "given"
			}
			addRouteOpt(in.EP, dec(in.Hex), in.Raw, mode, origin, in.Opts)
		case "parts":
			addParts(dec(in.H), dec(in.R), dec(in.T), dec(in.D), origin)
		default:
			addStr(dec(in.Hex), origin)
		}
	}

	if cfg.Replay != "" {
		b, err := os.ReadFile(cfg.Replay)
		if err != nil {
			panic(err)
		}
		var r struct {
			Input input `json:"input"`
		}
		if err := json.Unmarshal(b, &r); err != nil {
			panic(err)
		}
		runInput(r.Input, "replay")
		flush(len(pending))
		return
	}
	for _, raw := range hx.LoadCorpus(cfg.Corpus) {
		var r struct {
			Input input `json:"input"`
		}
		if json.Unmarshal(raw, &r) == nil && r.Input.Kind != "" {
			runInput(r.Input, "corpus")
		}
	}
	nCorpus := len(pending)

	// 1. hand-picked strings, and each one cut at every ':' '@' '/' into parts
	for _, s := range fixed {
		addStr(s, "fixed")
	}

	// 2. complete enumeration of short strings over the 12-symbol alphabet
	maxLen := 4
	if cfg.Thorough() {
		maxLen = 5
	}
	enumerate(maxLen, func(s string) { addStr(s, "enum") })
	out.Extra["enumeration"] = fmt.Sprintf("all strings of length <= %d over %q", maxLen, enumAlphabet)

	// 3. boundaries of the hand-written checks
	for n := 125; n <= 131; n++ {
		for _, first := range []string{"a", "Z", "0", "_", ".", "-"} {
			t := first + randFrom(rng, tagRest, n-1)
			addStr(t, "boundary-tag")
			addStr("reg.io/r:"+t, "boundary-tag")
			addParts("reg.io", "r", t, "", "boundary-tag")
		}
	}
	for n := 252; n <= 258; n++ {
		for k := 0; k < 3; k++ {
			r := repoOfLen(rng, n)
			addStr(r, "boundary-repo")
			addStr("reg.io:5000/"+r+":t", "boundary-repo")
			addParts("reg.io:5000", r, "", "", "boundary-repo")
			addParts("", r, "t", "", "boundary-repo")
		}
	}
	for _, c := range []byte(alnum + "_.-+/:@ ~!\x00\n\x7f\x80\xff") { // every class of first / inner tag byte
		addStr(string(c), "tag-bytes")
		addStr("a"+string(c), "tag-bytes")
		addStr("r:"+string(c)+"x", "tag-bytes")
		addStr("r:x"+string(c), "tag-bytes")
		addStr("x"+string(c)+"y", "tag-bytes")
	}
	// every byte value 0x80..0xff (alone, so not valid UTF-8) and every rune U+0080..U+00FF plus
	// samples of longer sequences (valid UTF-8), at the first / an inner / the last position of a
	// tag, a repository name and a digest (algorithm and hex part): a scan that classifies bytes
	// or runes with the unicode package accepts some of them (0xaa 0xb5 0xba 0xc0.. are Latin-1
	// letters, 0xb2 0xb3 0xb9 digits in some tables)
	var hiPieces []string
	for c := 0x80; c <= 0xff; c++ {
		hiPieces = append(hiPieces, string([]byte{byte(c)}), string(rune(c)))
	}
	for _, ru := range []rune{0x100, 0x17f, 0x3b1, 0x430, 0x435, 0x43a, 0x5d0, 0x660, 0x7ff, 0x800, 0x966, 0x3042, 0x65e5, 0xff10, 0xff21, 0xff41, 0xfffd, 0x10000, 0x1d7d8, 0x10ffff} {
		hiPieces = append(hiPieces, string(ru))
	}
	hex64 := okDigest[len("sha256:"):]
	for i, c := range hiPieces {
		for _, t := range []string{c + "x", "x" + c + "y", "x" + c, c} {
			addStr(t, "high-bytes")
		}
		addStr("r.io/x:v"+c+"1", "high-bytes")
		addStr("r.io/x"+c+"y", "high-bytes")
		addStr("r"+c+".io/x", "high-bytes")
		addStr("sha256:"+c+hex64[len(c):], "high-bytes")
		addStr("sha256:"+hex64[:30]+c+hex64[30+len(c):], "high-bytes")
		addStr("sha256:"+hex64[:64-len(c)]+c, "high-bytes")
		addStr("sha"+c+"256:"+hex64, "high-bytes")
		addStr("r.io/x@sha256:"+hex64[:30]+c+hex64[30+len(c):], "high-bytes")
		addParts("r.io", "x"+c+"y", "v"+c, "", "high-bytes")
		for _, ep := range []int{0, 10 + i%4, 17} { // a repository, a tag and a digest position of the router
			switch endpoints[ep].Pos {
			case "PRepo":
				addRouteEP(ep, "x"+c+"y", nil, "canonical", "high-bytes")
			case "PTagRef":
				addRouteEP(ep, "v"+c+"1", nil, "canonical", "high-bytes")
				addRouteEP(ep, c, nil, "canonical", "high-bytes")
			case "PDigest":
				addRouteEP(ep, "sha256:"+hex64[:30]+c+hex64[30+len(c):], nil, "canonical", "high-bytes")
			default:
				panic("endpoint table changed: " + endpoints[ep].Pos)
			}
		}
	}
	for _, sep := range append(append([]string{}, seps...), badSeps...) { // every separator form
		addStr("a"+sep+"b", "separators")
		addStr("x/a"+sep+"b/y", "separators")
		addStr("h.io/a"+sep+"b:t", "separators")
		addParts("h.io", "a"+sep+"b", "t", "", "separators")
	}

	// 3b. long hosts: every shape of the host grammar at lengths around and far beyond the limits a
	// length check would use (long.go). The host alone (predicates), in a short reference, as parts,
	// with every other part at its own limit, and spoiled by one byte.
	longHosts := 0
	hostLens := hostLengths(cfg.Thorough())
	for _, n := range hostLens {
		for shape := 0; shape < nHostShapes; shape++ {
			if n > 1100 && shape != hsOneLetter && shape != hsDNSLabels && shape != hsIPv6Port {
				continue // the very long ones in three shapes only (time)
			}
			h := hostOfLen(rng, n, shape)
			longHosts++
			addStr(h, "long-host")
			r, t, d := pick(rng, "r", "foo/bar", genRepo(rng, true)), "", ""
			if rng.Intn(2) == 0 {
				t = genTag(rng, true)
			}
			if rng.Intn(3) == 0 {
				d = genDigest(rng, true)
			}
			addStr(join(h, r, t, d), "long-host")
			addParts(h, r, t, d, "long-host")
			if (n+shape)%4 == 0 { // every part at its limit
				r, t, d = repoOfLen(rng, 255), randFrom(rng, tagFirst, 1)+randFrom(rng, tagRest, 127), "sha512:"+randFrom(rng, hexd, 128)
				addStr(join(h, r, t, d), "long-host")
				addParts(h, r, t, d, "long-host")
			}
			if (n+shape)%3 == 0 {
				bad := spoilHost(rng, h)
				addStr(bad, "long-host-spoiled")
				addStr(bad+"/r:t", "long-host-spoiled")
				addParts(bad, "r", "t", "", "long-host-spoiled")
			}
		}
	}
	out.Extra["long_hosts"] = map[string]any{"lengths": hostLens, "shapes": hostShapeNames, "hosts": longHosts}
	// a host length for the grammar-directed stream: mostly near a limit, sometimes anywhere up to 600
	longHostLen := func() int {
		if rng.Intn(3) == 0 {
			return 10 + rng.Intn(590)
		}
		return hostLens[rng.Intn(len(hostLens))]
	}

	// 4. grammar-directed references, their parts, and their components alone
	n := 1500
	if cfg.Thorough() {
		n = 12000
	}
	for i := 0; i < n; i++ {
		okOnly := rng.Intn(4) > 0
		h, r, t, d := "", genRepo(rng, okOnly), "", ""
		if rng.Intn(5) > 0 {
			h = genHost(rng)
			if rng.Intn(16) == 0 {
				h = hostOfLen(rng, longHostLen(), rng.Intn(nHostShapes))
			}
			if !okOnly && rng.Intn(6) == 0 {
				h = mutate(rng, h)
			}
		}
		if rng.Intn(2) == 0 {
			t = genTag(rng, okOnly)
		}
		if rng.Intn(2) == 0 {
			d = genDigest(rng, okOnly)
		}
		s := join(h, r, t, d)
		addStr(s, "grammar")
		addParts(h, r, t, d, "grammar")
		switch i % 4 { // the components alone, for the predicates' accepting paths
		case 0:
			addStr(h, "component")
		case 1:
			addStr(r, "component")
		case 2:
			addStr(t, "component")
		default:
			addStr(d, "component")
		}
		// 5. mutation of the (mostly valid) reference
		m := s
		for k := 1 + rng.Intn(2); k > 0; k-- {
			m = mutate(rng, m)
		}
		addStr(m, "mutation")
		if i%3 == 0 { // mutated parts: a part that is invalid, or that contains a delimiter
			switch rng.Intn(4) {
			case 0:
				addParts(mutate(rng, h), r, t, d, "mutated-part")
			case 1:
				addParts(h, mutate(rng, r), t, d, "mutated-part")
			case 2:
				addParts(h, r, mutate(rng, t), d, "mutated-part")
			default:
				addParts(h, r, t, mutate(rng, d), "mutated-part")
			}
		}
	}
	// digests alone, every algorithm and malformed
	nd := 400
	if cfg.Thorough() {
		nd = 3000
	}
	for i := 0; i < nd; i++ {
		d := genDigest(rng, false)
		addStr(d, "digest")
		if i%4 == 0 {
			addStr("r.io/x@"+d, "digest")
		}
	}
	// hosts alone
	for i := 0; i < nd; i++ {
		h := genHost(rng)
		if i%10 == 9 {
			h = hostOfLen(rng, longHostLen(), rng.Intn(nHostShapes))
		}
		if i%3 == 0 {
			h = mutate(rng, h)
		}
		addStr(h, "host")
		addStr(h+"/r", "host")
	}

	// 5b. decorated spellings of valid references that have a host (and of host-less ones): both
	// entry points see each, so "Parse = ParseRelative restricted to references with a host" and
	// "what parses prints back exactly" are checked on every one
	decoBases := []string{"foo.com/bar:v1", "foo.com/bar", "localhost:5000/a/b@" + okDigest, "reg.example.io/x/y:t@" + okDigest, "[::1]:80/r:t", "127.0.0.1/r", "bar:v1", "a/b"}
	nDeco := 12
	if cfg.Thorough() {
		nDeco = 200
	}
	for i := 0; i < nDeco; i++ {
		t, d := "", ""
		if rng.Intn(2) == 0 {
			t = genTag(rng, true)
		}
		if rng.Intn(3) == 0 {
			d = genDigest(rng, true)
		}
		decoBases = append(decoBases, join(genHost(rng), genRepo(rng, true), t, d))
	}
	for _, b := range decoBases {
		decorate(rng, b, func(s string) { addStr(s, "decorated") })
	}
	for _, b := range decoBases[:4] { // a decoration inside a part: the printer must not hide it either
		for _, p := range decoPrefixes[:8] {
			addParts(p+"foo.com", "bar", "v1", "", "decorated")
			addParts("foo.com", p+"bar", "v1", "", "decorated")
			addStr(p+b+"\n", "decorated")
		}
	}

	// 6. unstructured bytes
	nu := 600
	if cfg.Thorough() {
		nu = 5000
	}
	for i := 0; i < nu; i++ {
		l := rng.Intn(12)
		if i%10 == 0 {
			l = rng.Intn(300)
		}
		var s string
		switch i % 3 {
		case 0:
			b := make([]byte, l)
			rng.Read(b)
			s = string(b)
		case 1:
			s = randFrom(rng, mutAlphabet+"abc012", l)
		default:
			s = randFrom(rng, "ab1./:@", l)
		}
		addStr(s, "unstructured")
		if i%5 == 0 {
			k := 0
			if len(s) > 0 {
				k = rng.Intn(len(s) + 1)
			}
			addParts(pick(rng, "", "h.io", s), pick(rng, "r", s[:k]), pick(rng, "", s[k:], "t"), pick(rng, "", s), "unstructured")
		}
	}
	// 7. non-ASCII runes whose code point, truncated to a byte, is a letter / digit / '_' / '.' / '-':
	// a byte-wise scan rejects them, a rune-wise scan that narrows the rune would not
	for _, lowb := range []byte("azAZ09_.-") {
		for _, hi := range []rune{0x100, 0x200, 0x2000, 0x10000} {
			ru := string(hi + rune(lowb))
			for _, t := range []string{"v1" + ru, ru + "v1", "v" + ru + "1", ru} {
				addStr(t, "unicode")
				addStr("reg.io/r:"+t, "unicode")
				addStr("reg.io/"+t, "unicode")
				addStr(t+".io/r", "unicode")
				addParts("reg.io", "r", t, "", "unicode")
				addParts("reg.io", t, "", "", "unicode")
				addRoute(t, "unicode")
			}
		}
	}

	// 8. routing: strings in every URL position where the router applies a predicate
	for _, s := range fixed {
		addRoute(s, "fixed")
	}
	for _, s := range []string{okRepo, okRepo2, okDigest, "sometag", "a/blobs/uploads", "a/manifests/b", "a/tags/list", "a/referrers/x",
		"blobs", "manifests", "uploads", "tags", "referrers", "v2", "_catalog", "a/b/", "/a/b", "a//b", "../a", "a/../b", ".", "..", "%2e", "a%2fb", "a?b", "a#b", "a b", "A/b", "a/B"} {
		addRoute(s, "routing-words")
	}
	// repository names (and tags) built from the protocol's own path keywords: as the only element,
	// first, inner, last, doubled, and in the combinations the router cuts paths at
	var kwNames []string
	for _, kw := range routeKeywords {
		kwNames = append(kwNames, kw, "acme/"+kw, kw+"/api", "acme/"+kw+"/api", kw+"/"+kw, "my-"+kw, kw+"-x/y", kw+"/"+okDigest, "x/"+kw+"/"+okUploadID64)
		for _, kw2 := range routeKeywords {
			if kw != kw2 && rng.Intn(3) == 0 {
				kwNames = append(kwNames, kw+"/"+kw2, "a/"+kw+"/"+kw2+"/b")
			}
		}
	}
	kwNames = append(kwNames, "blobs/uploads", "a/blobs/uploads/b", "v2/a", "v2/v2/v2", "tags/list", "a/tags/list/b", "manifests/latest", "referrers/blobs/uploads", "uploads/blobs")
	for _, s := range kwNames {
		addRoute(s, "routing-keywords")
	}
	// names, tags and digests the predicates accept (and near misses), in every spelling mode
	for _, s := range []string{okRepo, "foo", "a.b/c_d/e--f", "r0/r1/r2__x", "Foo", "foo/.bar", "sometag", "v1.2.3-rc.1", "_x", "-bad", "bad+tag", "a b",
		okDigest, "sha512:" + strings.Repeat("b", 128), "sha384:" + strings.Repeat("0c", 48), "sha256:" + strings.Repeat("a", 63), "sha256+b64:abc", "md5:abc"} {
		addRouteAllSpellings(s, "route-spellings")
	}
	nr := 250
	if cfg.Thorough() {
		nr = 3000
	}
	for i := 0; i < nr; i++ {
		okOnly := rng.Intn(3) > 0
		var w string
		switch i % 4 {
		case 0:
			w = genRepo(rng, okOnly)
		case 1:
			w = genTag(rng, okOnly)
		case 2:
			w = genDigest(rng, okOnly)
		default:
			w = mutate(rng, pick(rng, genRepo(rng, true), genTag(rng, true), genDigest(rng, true)))
		}
		addRoute(w, "route-grammar")
	}
	flush(nCorpus)
}
