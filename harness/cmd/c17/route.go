// Routing stream of the C17 harness: a string is placed at every position of a URL where
// the HTTP routing layer applies one of the validity predicates, the request is handled by
// ociserver.New over a recording backend, and the observation is whether the backend
// received exactly that string in that position ("the predicates agree with what the HTTP
// routing layer accepts as repository names, tags and digests in URLs").
//
// Every string is sent in the canonical encoding net/url produces from the decoded form
// (url.URL{Path: ...}, no RawPath) and in other, equivalent percent-encoded spellings of the same
// URL (unnecessary escapes, lower-case hex digits, sub-delimiters left literal, escaped slashes,
// '+' for a space in a query). The latter are written into a request line and read back by
// http.ReadRequest, exactly as a server reads them, so URL.RawPath / URL.RawQuery hold the
// spelling and URL.Path the decoded form.
package main

import (
	"bufio"
	"context"
	"fmt"
	"io"
	"math/rand"
	"net/http"
	"net/http/httptest"
	"net/url"
	"reflect"
	"strings"

	"cuelabs.dev/go/oci/ociregistry"
	"cuelabs.dev/go/oci/ociregistry/ociref"
	"cuelabs.dev/go/oci/ociregistry/ociserver"
	"verif/harness/hx"
)

type bcall struct {
	Method string   `json:"method"`
	Args   []string `json:"args"`
}

// recordingBackend returns a Funcs whose every method records its string-like arguments
// and fails with an error (so no handler goes on to use a reader or writer).
func recordingBackend(log *[]bcall) *ociregistry.Funcs {
	f := &ociregistry.Funcs{}
	rv := reflect.ValueOf(f).Elem()
	rt := rv.Type()
	errT := reflect.TypeOf((*error)(nil)).Elem()
	seqS := reflect.TypeOf(ociregistry.Seq[string](nil))
	seqD := reflect.TypeOf(ociregistry.Seq[ociregistry.Descriptor](nil))
	for i := 0; i < rt.NumField(); i++ {
		fld := rt.Field(i)
		if fld.Type.Kind() != reflect.Func || fld.Name == "NewError" {
			continue
		}
		name := strings.TrimSuffix(fld.Name, "_")
		ft := fld.Type
		rv.Field(i).Set(reflect.MakeFunc(ft, func(args []reflect.Value) []reflect.Value {
			c := bcall{Method: name}
			for _, a := range args[1:] {
				switch {
				case a.Kind() == reflect.String:
					c.Args = append(c.Args, a.String())
				case a.Type() == reflect.TypeOf(ociregistry.Descriptor{}):
					c.Args = append(c.Args, string(a.Interface().(ociregistry.Descriptor).Digest))
				default:
					c.Args = append(c.Args, "")
				}
			}
			*log = append(*log, c)
			var res []reflect.Value
			for j := 0; j < ft.NumOut(); j++ {
				ot := ft.Out(j)
				switch ot {
				case errT:
					res = append(res, reflect.ValueOf(fmt.Errorf("recorded: %w", ociregistry.ErrBlobUnknown)).Convert(errT))
				case seqS:
					res = append(res, reflect.ValueOf(ociregistry.ErrorSeq[string](ociregistry.ErrNameUnknown)))
				case seqD:
					res = append(res, reflect.ValueOf(ociregistry.ErrorSeq[ociregistry.Descriptor](ociregistry.ErrNameUnknown)))
				default:
					res = append(res, reflect.Zero(ot))
				}
			}
			return res
		}))
	}
	return f
}

const (
	okRepo   = "okrepo/x"
	okRepo2  = "other/repo"
	okDigest = "sha256:0123456789abcdef0123456789abcdef0123456789abcdef0123456789abcdef"
	// an upload ID as it appears in a URL (base64.RawURLEncoding) and as the backend receives it
	okUploadID64 = "c29tZS11cGxvYWQ"
	okUploadID   = "some-upload"
)

type endpoint struct {
	Pos    string // Coq constructor of rpos
	Name   string
	Method string
	Path   func(w string) string
	Query  func(w string) url.Values
	WKey   string // the query key whose value is w ("" when w is in the path)
	// where the backend must have received w: method name and argument index (after ctx);
	// Arg < 0: no argument carries w at the point where the recording backend fails, the call
	// itself (with Others as sent) is the evidence that the router accepted w
	Backend string
	Arg     int
	// other arguments that must have arrived as sent (index -> value), so that a request routed
	// to the same method with different pieces does not count
	Others map[int]string
}

var endpoints = []endpoint{
	{Pos: "PRepo", Name: "GET tags/list", Method: "GET", Path: func(w string) string { return "/v2/" + w + "/tags/list" }, Backend: "Tags", Arg: 0},
	{Pos: "PRepo", Name: "GET blobs/<d>", Method: "GET", Path: func(w string) string { return "/v2/" + w + "/blobs/" + okDigest }, Backend: "GetBlob", Arg: 0, Others: map[int]string{1: okDigest}},
	{Pos: "PRepo", Name: "HEAD manifests/<d>", Method: "HEAD", Path: func(w string) string { return "/v2/" + w + "/manifests/" + okDigest }, Backend: "ResolveManifest", Arg: 0, Others: map[int]string{1: okDigest}},
	{Pos: "PRepo", Name: "DELETE manifests/<tag>", Method: "DELETE", Path: func(w string) string { return "/v2/" + w + "/manifests/sometag" }, Backend: "DeleteTag", Arg: 0, Others: map[int]string{1: "sometag"}},
	{Pos: "PRepo", Name: "POST blobs/uploads/", Method: "POST", Path: func(w string) string { return "/v2/" + w + "/blobs/uploads/" }, Backend: "PushBlobChunked", Arg: 0},
	{Pos: "PRepo", Name: "GET referrers/<d>", Method: "GET", Path: func(w string) string { return "/v2/" + w + "/referrers/" + okDigest }, Backend: "Referrers", Arg: 0, Others: map[int]string{1: okDigest}},
	{Pos: "PRepo", Name: "POST mount (to)", Method: "POST", Path: func(w string) string { return "/v2/" + w + "/blobs/uploads/" },
		Query: func(w string) url.Values { return url.Values{"mount": {okDigest}, "from": {okRepo2}} }, Backend: "MountBlob", Arg: 1, Others: map[int]string{0: okRepo2, 2: okDigest}},

	{Pos: "PRepo", Name: "POST blobs/uploads/?digest=", Method: "POST", Path: func(w string) string { return "/v2/" + w + "/blobs/uploads/" },
		Query: func(w string) url.Values { return url.Values{"digest": {okDigest}} }, Backend: "PushBlob", Arg: 0, Others: map[int]string{1: okDigest}},
	{Pos: "PRepo", Name: "GET blobs/uploads/<id>", Method: "GET", Path: func(w string) string { return "/v2/" + w + "/blobs/uploads/" + okUploadID64 }, Backend: "PushBlobChunkedResume", Arg: 0, Others: map[int]string{1: okUploadID}},
	{Pos: "PRepo", Name: "PUT blobs/uploads/<id>?digest=", Method: "PUT", Path: func(w string) string { return "/v2/" + w + "/blobs/uploads/" + okUploadID64 },
		Query: func(w string) url.Values { return url.Values{"digest": {okDigest}} }, Backend: "PushBlobChunkedResume", Arg: 0, Others: map[int]string{1: okUploadID}},

	{Pos: "PTagRef", Name: "GET manifests/<ref>", Method: "GET", Path: func(w string) string { return "/v2/" + okRepo + "/manifests/" + w }, Backend: "GetTag", Arg: 1, Others: map[int]string{0: okRepo}},
	{Pos: "PTagRef", Name: "HEAD manifests/<ref>", Method: "HEAD", Path: func(w string) string { return "/v2/" + okRepo + "/manifests/" + w }, Backend: "ResolveTag", Arg: 1, Others: map[int]string{0: okRepo}},
	{Pos: "PTagRef", Name: "DELETE manifests/<ref>", Method: "DELETE", Path: func(w string) string { return "/v2/" + okRepo + "/manifests/" + w }, Backend: "DeleteTag", Arg: 1, Others: map[int]string{0: okRepo}},
	{Pos: "PTagRef", Name: "PUT manifests/<ref>", Method: "PUT", Path: func(w string) string { return "/v2/" + okRepo + "/manifests/" + w }, Backend: "PushManifest", Arg: 1, Others: map[int]string{0: okRepo}},

	{Pos: "PDigestRef", Name: "GET manifests/<ref>", Method: "GET", Path: func(w string) string { return "/v2/" + okRepo + "/manifests/" + w }, Backend: "GetManifest", Arg: 1, Others: map[int]string{0: okRepo}},
	{Pos: "PDigestRef", Name: "HEAD manifests/<ref>", Method: "HEAD", Path: func(w string) string { return "/v2/" + okRepo + "/manifests/" + w }, Backend: "ResolveManifest", Arg: 1, Others: map[int]string{0: okRepo}},
	{Pos: "PDigestRef", Name: "DELETE manifests/<ref>", Method: "DELETE", Path: func(w string) string { return "/v2/" + okRepo + "/manifests/" + w }, Backend: "DeleteManifest", Arg: 1, Others: map[int]string{0: okRepo}},

	{Pos: "PDigest", Name: "GET blobs/<d>", Method: "GET", Path: func(w string) string { return "/v2/" + okRepo + "/blobs/" + w }, Backend: "GetBlob", Arg: 1, Others: map[int]string{0: okRepo}},
	{Pos: "PDigest", Name: "HEAD blobs/<d>", Method: "HEAD", Path: func(w string) string { return "/v2/" + okRepo + "/blobs/" + w }, Backend: "ResolveBlob", Arg: 1, Others: map[int]string{0: okRepo}},
	{Pos: "PDigest", Name: "DELETE blobs/<d>", Method: "DELETE", Path: func(w string) string { return "/v2/" + okRepo + "/blobs/" + w }, Backend: "DeleteBlob", Arg: 1, Others: map[int]string{0: okRepo}},
	{Pos: "PDigest", Name: "GET referrers/<d>", Method: "GET", Path: func(w string) string { return "/v2/" + okRepo + "/referrers/" + w }, Backend: "Referrers", Arg: 1, Others: map[int]string{0: okRepo}},
	{Pos: "PDigest", Name: "POST mount=<d>", Method: "POST", Path: func(w string) string { return "/v2/" + okRepo + "/blobs/uploads/" },
		Query: func(w string) url.Values { return url.Values{"mount": {w}, "from": {okRepo2}} }, WKey: "mount", Backend: "MountBlob", Arg: 2, Others: map[int]string{0: okRepo2, 1: okRepo}},
	{Pos: "PDigest", Name: "POST blobs/uploads/?digest=<d>", Method: "POST", Path: func(w string) string { return "/v2/" + okRepo + "/blobs/uploads/" },
		Query: func(w string) url.Values { return url.Values{"digest": {w}} }, WKey: "digest", Backend: "PushBlob", Arg: 1, Others: map[int]string{0: okRepo}},
	{Pos: "PDigest", Name: "PUT blobs/uploads/<id>?digest=<d>", Method: "PUT", Path: func(w string) string { return "/v2/" + okRepo + "/blobs/uploads/" + okUploadID64 },
		Query: func(w string) url.Values { return url.Values{"digest": {w}} }, WKey: "digest", Backend: "PushBlobChunkedResume", Arg: -1, Others: map[int]string{0: okRepo, 1: okUploadID}},

	{Pos: "PFrom", Name: "POST mount from=<w>", Method: "POST", Path: func(w string) string { return "/v2/" + okRepo + "/blobs/uploads/" },
		Query: func(w string) url.Values { return url.Values{"mount": {okDigest}, "from": {w}} }, WKey: "from", Backend: "MountBlob", Arg: 0, Others: map[int]string{1: okRepo, 2: okDigest}},

	// APPEND ONLY below this line: corpus files and main.go refer to endpoints by index.
	//
	// The same query parameters with their sibling parameters absent, empty or extra. The router
	// reads ?mount= first, then ?from=, then ?digest=: a digest that is looked at must be valid
	// whatever the siblings are (a mount without a from falls back to "start upload" - the
	// backend call is then the evidence, the digest is not handed on).
	{Pos: "PDigest", Name: "POST mount=<d> (no from)", Method: "POST", Path: func(w string) string { return "/v2/" + okRepo + "/blobs/uploads/" },
		Query: func(w string) url.Values { return url.Values{"mount": {w}} }, WKey: "mount", Backend: "PushBlobChunked", Arg: -1, Others: map[int]string{0: okRepo}},
	{Pos: "PDigest", Name: "POST mount=<d>&from= (empty from)", Method: "POST", Path: func(w string) string { return "/v2/" + okRepo + "/blobs/uploads/" },
		Query: func(w string) url.Values { return url.Values{"mount": {w}, "from": {""}} }, WKey: "mount", Backend: "PushBlobChunked", Arg: -1, Others: map[int]string{0: okRepo}},
	{Pos: "PDigest", Name: "POST mount=<d>&digest=<ok> (no from)", Method: "POST", Path: func(w string) string { return "/v2/" + okRepo + "/blobs/uploads/" },
		Query: func(w string) url.Values { return url.Values{"mount": {w}, "digest": {okDigest}} }, WKey: "mount", Backend: "PushBlobChunked", Arg: -1, Others: map[int]string{0: okRepo}},
	{Pos: "PDigest", Name: "POST mount=<d>&from=<r>&digest=<ok>", Method: "POST", Path: func(w string) string { return "/v2/" + okRepo + "/blobs/uploads/" },
		Query: func(w string) url.Values { return url.Values{"mount": {w}, "from": {okRepo2}, "digest": {okDigest}} }, WKey: "mount", Backend: "MountBlob", Arg: 2, Others: map[int]string{0: okRepo2, 1: okRepo}},
	{Pos: "PDigest", Name: "POST digest=<d>&mount= (empty mount)&from=<r>", Method: "POST", Path: func(w string) string { return "/v2/" + okRepo + "/blobs/uploads/" },
		Query: func(w string) url.Values { return url.Values{"digest": {w}, "mount": {""}, "from": {okRepo2}} }, WKey: "digest", Backend: "PushBlob", Arg: 1, Others: map[int]string{0: okRepo}},
	{Pos: "PDigest", Name: "POST digest=<d>&from=<r> (no mount)", Method: "POST", Path: func(w string) string { return "/v2/" + okRepo + "/blobs/uploads/" },
		Query: func(w string) url.Values { return url.Values{"digest": {w}, "from": {okRepo2}} }, WKey: "digest", Backend: "PushBlob", Arg: 1, Others: map[int]string{0: okRepo}},
	{Pos: "PDigest", Name: "PUT blobs/uploads/<id>?digest=<d>&mount=<ok>&from=<r>", Method: "PUT", Path: func(w string) string { return "/v2/" + okRepo + "/blobs/uploads/" + okUploadID64 },
		Query: func(w string) url.Values { return url.Values{"digest": {w}, "mount": {okDigest}, "from": {okRepo2}} }, WKey: "digest", Backend: "PushBlobChunkedResume", Arg: -1, Others: map[int]string{0: okRepo, 1: okUploadID}},
	{Pos: "PRepo", Name: "POST mount (to), no from", Method: "POST", Path: func(w string) string { return "/v2/" + w + "/blobs/uploads/" },
		Query: func(w string) url.Values { return url.Values{"mount": {okDigest}} }, Backend: "PushBlobChunked", Arg: 0},
	{Pos: "PRepo", Name: "POST mount (to), empty from", Method: "POST", Path: func(w string) string { return "/v2/" + w + "/blobs/uploads/" },
		Query: func(w string) url.Values { return url.Values{"mount": {okDigest}, "from": {""}} }, Backend: "PushBlobChunked", Arg: 0},
	{Pos: "PRepo", Name: "POST blobs/uploads (no trailing slash)", Method: "POST", Path: func(w string) string { return "/v2/" + w + "/blobs/uploads" }, Backend: "PushBlobChunked", Arg: 0},
	{Pos: "PRepo", Name: "PUT manifests/<tag>", Method: "PUT", Path: func(w string) string { return "/v2/" + w + "/manifests/sometag" }, Backend: "PushManifest", Arg: 0, Others: map[int]string{1: "sometag"}},
	{Pos: "PRepo", Name: "DELETE blobs/<d>", Method: "DELETE", Path: func(w string) string { return "/v2/" + w + "/blobs/" + okDigest }, Backend: "DeleteBlob", Arg: 0, Others: map[int]string{1: okDigest}},
	{Pos: "PRepo", Name: "PATCH blobs/uploads/<id>", Method: "PATCH", Path: func(w string) string { return "/v2/" + w + "/blobs/uploads/" + okUploadID64 }, Backend: "PushBlobChunkedResume", Arg: 0, Others: map[int]string{1: okUploadID}},
}

// ---------------------------------------------------------------- server options

// optConfig is one configuration of ociserver.Options. The routing decision for a string in a
// URL position must be the same under every one of them (the options change what is sent back,
// or switch a whole endpoint off - never which names, tags and digests are accepted).
type optConfig struct {
	Name string
	Opts func() *ociserver.Options
}

func noLocations(bool, ociregistry.Descriptor) ([]string, error) { return nil, nil }
func noUploadLocation(string) (string, error)                    { return "", nil }

var optConfigs = []optConfig{
	{"", func() *ociserver.Options { return nil }},
	{"DisableReferrersAPI", func() *ociserver.Options { return &ociserver.Options{DisableReferrersAPI: true} }},
	{"DisableSinglePostUpload", func() *ociserver.Options { return &ociserver.Options{DisableSinglePostUpload: true} }},
	{"MaxListPageSize", func() *ociserver.Options { return &ociserver.Options{MaxListPageSize: 1} }},
	{"OmitDigestFromTagGetResponse", func() *ociserver.Options { return &ociserver.Options{OmitDigestFromTagGetResponse: true} }},
	{"OmitLinkHeaderFromResponses", func() *ociserver.Options { return &ociserver.Options{OmitLinkHeaderFromResponses: true} }},
	{"Locations", func() *ociserver.Options {
		return &ociserver.Options{LocationsForDescriptor: noLocations, LocationForUploadID: noUploadLocation}
	}},
	{"all", func() *ociserver.Options {
		return &ociserver.Options{DisableReferrersAPI: true, DisableSinglePostUpload: true, MaxListPageSize: 1,
			OmitDigestFromTagGetResponse: true, OmitLinkHeaderFromResponses: true,
			LocationsForDescriptor: noLocations, LocationForUploadID: noUploadLocation,
			WriteError: func(w http.ResponseWriter, _ *http.Request, err error) { ociregistry.WriteError(w, err) },
			DebugID:    "c17"}
	}},
}

func optLabel(name string) string {
	if name == "" {
		return "default"
	}
	return name
}

func optConfigByName(name string) optConfig {
	for _, oc := range optConfigs {
		if oc.Name == name {
			return oc
		}
	}
	panic("harness: unknown server option configuration " + name)
}

// expectation is the backend call that is the evidence of acceptance for endpoint ep under
// the named option configuration - as documented for the options: DisableReferrersAPI switches
// the referrers endpoint off (applies = false: nothing to observe there), DisableSinglePostUpload
// turns POST ?digest= into "start upload" (the digest is still validated by the router but
// not handed on), a LocationsForDescriptor function makes GET blobs resolve the blob first.
//
// An empty query value is an absent parameter (url.Values.Get): where the evidence of acceptance
// is the "start upload" call that an absent parameter leads to as well, the empty string cannot
// be observed (applies = false).
func expectation(ep endpoint, opts string, w string) (endpoint, bool) {
	is := func(o string) bool { return opts == o || opts == "all" }
	if is("DisableReferrersAPI") && ep.Backend == "Referrers" {
		return ep, false
	}
	if is("DisableSinglePostUpload") && ep.Backend == "PushBlob" {
		ep.Backend = "PushBlobChunked"
		if ep.Arg != 0 {
			ep.Arg = -1
		}
		others := map[int]string{}
		if v, ok := ep.Others[0]; ok {
			others[0] = v
		}
		ep.Others = others
	}
	if is("Locations") && ep.Backend == "GetBlob" {
		ep.Backend = "ResolveBlob"
	}
	if w == "" && ep.WKey != "" && ep.Arg < 0 && ep.Backend == "PushBlobChunked" {
		return ep, false
	}
	return ep, true
}

// ---------------------------------------------------------------- spellings

const unreserved = "ABCDEFGHIJKLMNOPQRSTUVWXYZabcdefghijklmnopqrstuvwxyz0123456789-._~"

// bytes that may stand literally in a path segment / in a query value of a request target that
// Go's server side parses without loss (RFC 3986 pchar minus what net/url treats specially)
const literalInPath = unreserved + "!$&'()*+,;=:@"
const literalInQuery = unreserved + "!$'()*,:@/?"

var spellModes = []string{"minimal", "punctuation", "all", "all+slash", "first", "last", "random", "alnum"}

// spell writes w as a percent-encoded spelling: bytes that cannot stand literally are always
// escaped, the mode chooses which of the others are escaped although they need not be.
func spell(r *rand.Rand, mode string, w string, inQuery bool) string {
	literal := literalInPath
	if inQuery {
		literal = literalInQuery
	}
	hexCase := r.Intn(3) // 0 upper, 1 lower, 2 mixed
	var sb strings.Builder
	for i := 0; i < len(w); i++ {
		c := w[i]
		isAlnum := c < 0x80 && strings.IndexByte(alnum, c) >= 0
		var esc bool
		switch mode {
		case "minimal":
		case "punctuation":
			esc = !isAlnum && c != '/'
		case "all":
			esc = c != '/'
		case "all+slash":
			esc = true
		case "first":
			esc = i == 0
		case "last":
			esc = i == len(w)-1
		case "random":
			esc = r.Intn(3) == 0
		case "alnum":
			esc = isAlnum
		}
		switch {
		case c == '/' && !inQuery && mode != "all+slash" && !(mode == "random" && esc):
			sb.WriteByte(c) // a separator of the path
		case !esc && strings.IndexByte(literal, c) >= 0:
			sb.WriteByte(c)
		case !esc && c == ' ' && inQuery:
			sb.WriteByte('+')
		default:
			digits := "0123456789ABCDEF"
			if hexCase == 1 || (hexCase == 2 && r.Intn(2) == 0) {
				digits = "0123456789abcdef"
			}
			sb.WriteByte('%')
			sb.WriteByte(digits[c>>4])
			sb.WriteByte(digits[c&15])
		}
	}
	return sb.String()
}

// canonicalSpelling is the spelling net/url itself produces for w in that place.
func canonicalSpelling(w string, inQuery bool) string {
	if inQuery {
		return url.QueryEscape(w)
	}
	return (&url.URL{Path: "/" + w}).EscapedPath()[1:]
}

type routeObs struct {
	Endpoint string    `json:"endpoint"`
	Options  string    `json:"server_options"`
	Path     string    `json:"path"`
	Query    string    `json:"query,omitempty"`
	Target   string    `json:"request_target,omitempty"` // the request line's target, when a spelling was given
	Status   int       `json:"status"`
	Panic    string    `json:"panic,omitempty"`
	Calls    []bcall   `json:"backend_calls"`
	Accepted string    `json:"accepted"` // OT | OF | OP
	PV       [3]string `json:"predicates_repo_tag_digest"`
}

// buildRequest makes the server-side request for endpoint ep and string w. raw == nil: from the
// decoded form (url.URL{Path}); otherwise *raw is the spelling of w to put on the request line.
func buildRequest(ep endpoint, w string, raw *string) (*http.Request, string) {
	body := ""
	if ep.Method == "PUT" {
		body = "{}"
	}
	if raw == nil {
		u := &url.URL{Path: ep.Path(w)}
		if ep.Query != nil {
			u.RawQuery = ep.Query(w).Encode()
		}
		req := &http.Request{Method: ep.Method, URL: u, Proto: "HTTP/1.1", ProtoMajor: 1, ProtoMinor: 1,
			Header: http.Header{}, Body: io.NopCloser(strings.NewReader(body)), Host: "example.test", RequestURI: u.RequestURI()}
		if ep.Method == "PUT" {
			req.Header.Set("Content-Type", "application/vnd.oci.image.manifest.v1+json")
			req.ContentLength = int64(len(body))
		}
		return req, ""
	}
	var target string
	if ep.WKey == "" {
		const mark = "\x00"
		pre, post, _ := strings.Cut(ep.Path(mark), mark)
		target = pre + *raw + post
		if ep.Query != nil {
			target += "?" + ep.Query(w).Encode()
		}
	} else {
		q := ep.Query(w)
		q.Del(ep.WKey)
		target = ep.Path(w) + "?"
		if len(q) > 0 {
			target += q.Encode() + "&"
		}
		target += ep.WKey + "=" + *raw
	}
	text := ep.Method + " " + target + " HTTP/1.1\r\nHost: example.test\r\n"
	if ep.Method == "PUT" {
		text += fmt.Sprintf("Content-Type: application/vnd.oci.image.manifest.v1+json\r\nContent-Length: %d\r\n", len(body))
	}
	text += "\r\n" + body
	req, err := http.ReadRequest(bufio.NewReader(strings.NewReader(text)))
	if err != nil {
		panic(fmt.Sprintf("harness: request line %q does not parse: %v", target, err))
	}
	// the spelling must denote the same URL (this is re-checked in Coq on the string itself)
	if req.URL.Path != ep.Path(w) {
		panic(fmt.Sprintf("harness: target %q decodes to path %q, want %q", target, req.URL.Path, ep.Path(w)))
	}
	if ep.WKey != "" && req.URL.Query().Get(ep.WKey) != w {
		panic(fmt.Sprintf("harness: target %q decodes to %s=%q, want %q", target, ep.WKey, req.URL.Query().Get(ep.WKey), w))
	}
	return req, target
}

func runRoute(epIdx int, w string, raw *string, opts string) (string, routeObs) {
	ep, _ := expectation(endpoints[epIdx], opts, w)
	var log []bcall
	h := ociserver.New(recordingBackend(&log), optConfigByName(opts).Opts())
	req, target := buildRequest(ep, w, raw)
	req = req.WithContext(context.Background())
	rec := httptest.NewRecorder()
	o := routeObs{Endpoint: ep.Name, Options: optLabel(opts), Path: printable(req.URL.Path), Query: req.URL.RawQuery, Target: target}
	panicked, pv := hx.Recover(func() { h.ServeHTTP(rec, req) })
	o.Status = rec.Code
	o.Calls = log
	o.Accepted = "OF"
	if panicked {
		o.Panic = pv
		o.Accepted = "OP"
	} else {
		for _, c := range log {
			if c.Method != ep.Backend {
				continue
			}
			if ep.Arg >= 0 && (len(c.Args) <= ep.Arg || c.Args[ep.Arg] != w) {
				continue
			}
			ok := true
			for i, v := range ep.Others {
				if len(c.Args) <= i || c.Args[i] != v {
					ok = false
				}
			}
			if ok {
				o.Accepted = "OT"
			}
		}
	}
	o.PV = [3]string{ob(ociref.IsValidRepository, w), ob(ociref.IsValidTag, w), ob(ociref.IsValidDigest, w)}
	sp := "Canon"
	if raw != nil {
		inq := "false"
		if ep.WKey != "" {
			inq = "true"
		}
		sp = fmt.Sprintf("(Raw %s %s)", inq, lit(*raw))
	}
	coq := fmt.Sprintf("ER %s %s %s (mkp OF %s %s %s) %s", ep.Pos, lit(w), sp, o.PV[0], o.PV[1], o.PV[2], o.Accepted)
	return coq, o
}
