// Routing stream of the C17 harness: a string is placed at every position of a URL where
// the HTTP routing layer applies one of the validity predicates, the request is handled by
// ociserver.New over a recording backend, and the observation is whether the backend
// received exactly that string in that position ("the predicates agree with what the HTTP
// routing layer accepts as repository names, tags and digests in URLs").
package main

import (
	"context"
	"fmt"
	"io"
	"net/http"
	"net/http/httptest"
	"net/url"
	"reflect"
	"strings"

	"cuelabs.dev/go/oci/ociregistry"
	"cuelabs.dev/go/oci/ociregistry/ociref"
	"cuelabs.dev/go/oci/ociregistry/ociserver"
	"verif/harness/hx"
)

type bcall struct {
	Method string   `json:"method"`
	Args   []string `json:"args"`
}

// recordingBackend returns a Funcs whose every method records its string-like arguments
// and fails with an error (so no handler goes on to use a reader or writer).
func recordingBackend(log *[]bcall) *ociregistry.Funcs {
	f := &ociregistry.Funcs{}
	rv := reflect.ValueOf(f).Elem()
	rt := rv.Type()
	errT := reflect.TypeOf((*error)(nil)).Elem()
	seqS := reflect.TypeOf(ociregistry.Seq[string](nil))
	seqD := reflect.TypeOf(ociregistry.Seq[ociregistry.Descriptor](nil))
	for i := 0; i < rt.NumField(); i++ {
		fld := rt.Field(i)
		if fld.Type.Kind() != reflect.Func || fld.Name == "NewError" {
			continue
		}
		name := strings.TrimSuffix(fld.Name, "_")
		ft := fld.Type
		rv.Field(i).Set(reflect.MakeFunc(ft, func(args []reflect.Value) []reflect.Value {
			c := bcall{Method: name}
			for _, a := range args[1:] {
				switch {
				case a.Kind() == reflect.String:
					c.Args = append(c.Args, a.String())
				case a.Type() == reflect.TypeOf(ociregistry.Descriptor{}):
					c.Args = append(c.Args, string(a.Interface().(ociregistry.Descriptor).Digest))
				default:
					c.Args = append(c.Args, "")
				}
			}
			*log = append(*log, c)
			var res []reflect.Value
			for j := 0; j < ft.NumOut(); j++ {
				ot := ft.Out(j)
				switch ot {
				case errT:
					res = append(res, reflect.ValueOf(fmt.Errorf("recorded: %w", ociregistry.ErrBlobUnknown)).Convert(errT))
				case seqS:
					res = append(res, reflect.ValueOf(ociregistry.ErrorSeq[string](ociregistry.ErrNameUnknown)))
				case seqD:
					res = append(res, reflect.ValueOf(ociregistry.ErrorSeq[ociregistry.Descriptor](ociregistry.ErrNameUnknown)))
				default:
					res = append(res, reflect.Zero(ot))
				}
			}
			return res
		}))
	}
	return f
}

const (
	okRepo   = "okrepo/x"
	okRepo2  = "other/repo"
	okDigest = "sha256:0123456789abcdef0123456789abcdef0123456789abcdef0123456789abcdef"
)

type endpoint struct {
	Pos    string // Coq constructor of rpos
	Name   string
	Method string
	Path   func(w string) string
	Query  func(w string) url.Values
	// where the backend must have received w: method name and argument index (after ctx)
	Backend string
	Arg     int
	// other arguments that must have arrived as sent (index -> value), so that a request routed
	// to the same method with different pieces does not count
	Others map[int]string
}

var endpoints = []endpoint{
	{Pos: "PRepo", Name: "GET tags/list", Method: "GET", Path: func(w string) string { return "/v2/" + w + "/tags/list" }, Backend: "Tags", Arg: 0},
	{Pos: "PRepo", Name: "GET blobs/<d>", Method: "GET", Path: func(w string) string { return "/v2/" + w + "/blobs/" + okDigest }, Backend: "GetBlob", Arg: 0, Others: map[int]string{1: okDigest}},
	{Pos: "PRepo", Name: "HEAD manifests/<d>", Method: "HEAD", Path: func(w string) string { return "/v2/" + w + "/manifests/" + okDigest }, Backend: "ResolveManifest", Arg: 0, Others: map[int]string{1: okDigest}},
	{Pos: "PRepo", Name: "DELETE manifests/<tag>", Method: "DELETE", Path: func(w string) string { return "/v2/" + w + "/manifests/sometag" }, Backend: "DeleteTag", Arg: 0, Others: map[int]string{1: "sometag"}},
	{Pos: "PRepo", Name: "POST blobs/uploads/", Method: "POST", Path: func(w string) string { return "/v2/" + w + "/blobs/uploads/" }, Backend: "PushBlobChunked", Arg: 0},
	{Pos: "PRepo", Name: "GET referrers/<d>", Method: "GET", Path: func(w string) string { return "/v2/" + w + "/referrers/" + okDigest }, Backend: "Referrers", Arg: 0, Others: map[int]string{1: okDigest}},
	{Pos: "PRepo", Name: "POST mount (to)", Method: "POST", Path: func(w string) string { return "/v2/" + w + "/blobs/uploads/" },
		Query: func(w string) url.Values { return url.Values{"mount": {okDigest}, "from": {okRepo2}} }, Backend: "MountBlob", Arg: 1, Others: map[int]string{0: okRepo2, 2: okDigest}},

	{Pos: "PTagRef", Name: "GET manifests/<ref>", Method: "GET", Path: func(w string) string { return "/v2/" + okRepo + "/manifests/" + w }, Backend: "GetTag", Arg: 1, Others: map[int]string{0: okRepo}},
	{Pos: "PTagRef", Name: "HEAD manifests/<ref>", Method: "HEAD", Path: func(w string) string { return "/v2/" + okRepo + "/manifests/" + w }, Backend: "ResolveTag", Arg: 1, Others: map[int]string{0: okRepo}},
	{Pos: "PTagRef", Name: "DELETE manifests/<ref>", Method: "DELETE", Path: func(w string) string { return "/v2/" + okRepo + "/manifests/" + w }, Backend: "DeleteTag", Arg: 1, Others: map[int]string{0: okRepo}},
	{Pos: "PTagRef", Name: "PUT manifests/<ref>", Method: "PUT", Path: func(w string) string { return "/v2/" + okRepo + "/manifests/" + w }, Backend: "PushManifest", Arg: 1, Others: map[int]string{0: okRepo}},

	{Pos: "PDigestRef", Name: "GET manifests/<ref>", Method: "GET", Path: func(w string) string { return "/v2/" + okRepo + "/manifests/" + w }, Backend: "GetManifest", Arg: 1, Others: map[int]string{0: okRepo}},
	{Pos: "PDigestRef", Name: "HEAD manifests/<ref>", Method: "HEAD", Path: func(w string) string { return "/v2/" + okRepo + "/manifests/" + w }, Backend: "ResolveManifest", Arg: 1, Others: map[int]string{0: okRepo}},
	{Pos: "PDigestRef", Name: "DELETE manifests/<ref>", Method: "DELETE", Path: func(w string) string { return "/v2/" + okRepo + "/manifests/" + w }, Backend: "DeleteManifest", Arg: 1, Others: map[int]string{0: okRepo}},

	{Pos: "PDigest", Name: "GET blobs/<d>", Method: "GET", Path: func(w string) string { return "/v2/" + okRepo + "/blobs/" + w }, Backend: "GetBlob", Arg: 1, Others: map[int]string{0: okRepo}},
	{Pos: "PDigest", Name: "HEAD blobs/<d>", Method: "HEAD", Path: func(w string) string { return "/v2/" + okRepo + "/blobs/" + w }, Backend: "ResolveBlob", Arg: 1, Others: map[int]string{0: okRepo}},
	{Pos: "PDigest", Name: "DELETE blobs/<d>", Method: "DELETE", Path: func(w string) string { return "/v2/" + okRepo + "/blobs/" + w }, Backend: "DeleteBlob", Arg: 1, Others: map[int]string{0: okRepo}},
	{Pos: "PDigest", Name: "GET referrers/<d>", Method: "GET", Path: func(w string) string { return "/v2/" + okRepo + "/referrers/" + w }, Backend: "Referrers", Arg: 1, Others: map[int]string{0: okRepo}},
	{Pos: "PDigest", Name: "POST mount=<d>", Method: "POST", Path: func(w string) string { return "/v2/" + okRepo + "/blobs/uploads/" },
		Query: func(w string) url.Values { return url.Values{"mount": {w}, "from": {okRepo2}} }, Backend: "MountBlob", Arg: 2, Others: map[int]string{0: okRepo2, 1: okRepo}},

	{Pos: "PFrom", Name: "POST mount from=<w>", Method: "POST", Path: func(w string) string { return "/v2/" + okRepo + "/blobs/uploads/" },
		Query: func(w string) url.Values { return url.Values{"mount": {okDigest}, "from": {w}} }, Backend: "MountBlob", Arg: 0, Others: map[int]string{1: okRepo, 2: okDigest}},
}

type routeObs struct {
	Endpoint string  `json:"endpoint"`
	Path     string  `json:"path"`
	Query    string  `json:"query,omitempty"`
	Status   int     `json:"status"`
	Panic    string  `json:"panic,omitempty"`
	Calls    []bcall `json:"backend_calls"`
	Accepted string  `json:"accepted"` // OT | OF | OP
	PV       [3]string `json:"predicates_repo_tag_digest"`
}

func runRoute(epIdx int, w string) (string, routeObs) {
	ep := endpoints[epIdx]
	var log []bcall
	h := ociserver.New(recordingBackend(&log), nil)
	u := &url.URL{Path: ep.Path(w)}
	if ep.Query != nil {
		u.RawQuery = ep.Query(w).Encode()
	}
	req := &http.Request{Method: ep.Method, URL: u, Proto: "HTTP/1.1", ProtoMajor: 1, ProtoMinor: 1,
		Header: http.Header{}, Body: io.NopCloser(strings.NewReader("")), Host: "example.test", RequestURI: u.RequestURI()}
	if ep.Method == "PUT" {
		req.Header.Set("Content-Type", "application/vnd.oci.image.manifest.v1+json")
		req.Body = io.NopCloser(strings.NewReader("{}"))
		req.ContentLength = 2
	}
	req = req.WithContext(context.Background())
	rec := httptest.NewRecorder()
	o := routeObs{Endpoint: ep.Name, Path: printable(u.Path), Query: u.RawQuery}
	panicked, pv := hx.Recover(func() { h.ServeHTTP(rec, req) })
	o.Status = rec.Code
	o.Calls = log
	o.Accepted = "OF"
	if panicked {
		o.Panic = pv
		o.Accepted = "OP"
	} else {
		for _, c := range log {
			if c.Method != ep.Backend || len(c.Args) <= ep.Arg || c.Args[ep.Arg] != w {
				continue
			}
			ok := true
			for i, v := range ep.Others {
				if len(c.Args) <= i || c.Args[i] != v {
					ok = false
				}
			}
			if ok {
				o.Accepted = "OT"
			}
		}
	}
	o.PV = [3]string{ob(ociref.IsValidRepository, w), ob(ociref.IsValidTag, w), ob(ociref.IsValidDigest, w)}
	coq := fmt.Sprintf("ER %s %s (mkp OF %s %s %s) %s", ep.Pos, lit(w), o.PV[0], o.PV[1], o.PV[2], o.Accepted)
	return coq, o
}
