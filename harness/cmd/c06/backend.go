package main

import (
	"bytes"
	"context"
	"fmt"
	"io"
	"math/rand"
	"strings"

	"cuelabs.dev/go/oci/ociregistry"
	"verif/harness/hx"
)

// DescSpec is an ociregistry.Descriptor as far as the server looks at it.
type DescSpec struct {
	Media    string `json:"media"`
	Digest   string `json:"digest"`
	Size     int64  `json:"size"`
	Artifact string `json:"artifact,omitempty"`
}

func (d DescSpec) desc() ociregistry.Descriptor {
	return ociregistry.Descriptor{MediaType: d.Media, Digest: ociregistry.Digest(d.Digest), Size: d.Size, ArtifactType: d.Artifact}
}
func specOf(d ociregistry.Descriptor) DescSpec {
	return DescSpec{Media: d.MediaType, Digest: string(d.Digest), Size: d.Size, Artifact: d.ArtifactType}
}
func (d DescSpec) coq() string {
	return fmt.Sprintf("{| d_media := %s; d_digest := %s; d_size := %s; d_artifact := %s |}",
		hx.B(d.Media), hx.B(d.Digest), hx.Z(d.Size), hx.B(d.Artifact))
}

// ResSpec is what the backend answered to one call (bres of coq/Model/Server.v).
type ResSpec struct {
	Kind    string     `json:"kind"` // err | desc | read | list | descs | writer | n | str | unit
	Err     *ErrSpec   `json:"err,omitempty"`
	Desc    *DescSpec  `json:"desc,omitempty"`
	Data    []byte     `json:"data,omitempty"`
	Items   []string   `json:"items,omitempty"`
	Descs   []DescSpec `json:"descs,omitempty"`
	IterErr *ErrSpec   `json:"iter_err,omitempty"`
	W       int        `json:"w,omitempty"`
	N       int64      `json:"n,omitempty"`
	Str     string     `json:"str,omitempty"`
	// a BlobReader (kind read) that does not simply deliver Data and then io.EOF:
	Fail     *ReadFail `json:"fail,omitempty"`      // its Read fails part-way
	CloseErr *ErrSpec  `json:"close_err,omitempty"` // its Close returns this error
	Chunk    int       `json:"chunk,omitempty"`     // a Read call delivers at most this many bytes (0 = all there is)
}

// ReadFail: the reader delivers Data[:At] and then its Read returns Err instead of io.EOF
// (a digest-verifying or network-backed reader that finds out late).  Data stays the content
// the reader promised.
type ReadFail struct {
	At   int      `json:"at"`
	Err  *ErrSpec `json:"err"`
	Tail bool     `json:"tail,omitempty"` // the error comes with the last bytes (n > 0, err) rather than on the next call
}

// delivered is what io.Copy reads from the reader before Read reports io.EOF or fails.
func (r *ResSpec) delivered() []byte {
	if r.Fail == nil || r.Fail.At >= len(r.Data) {
		return r.Data
	}
	if r.Fail.At < 0 {
		return nil
	}
	return r.Data[:r.Fail.At]
}

// streamed: the reader differs from the plain one of the model's VRead (see Obs/C06.v, CStream).
func (r *ResSpec) streamed() bool { return r.Kind == "read" && (r.Fail != nil || r.CloseErr != nil) }

// rstream renders what the reader had promised beyond what it delivered, the error of its
// Read and the error of its Close (rstream of coq/Model/ServerStream.v).
func (r *ResSpec) rstream() string {
	rest, rerr := "[]", "None"
	if r.Fail != nil {
		rest, rerr = hx.BB(r.Data[len(r.delivered()):]), "(Some "+r.Fail.Err.coq()+")"
	}
	return "(mkrs " + rest + " " + rerr + " " + optErr(r.CloseErr) + ")"
}

func optErr(e *ErrSpec) string {
	if e == nil {
		return "None"
	}
	return "(Some " + e.coq() + ")"
}

func (r ResSpec) coq() string {
	switch r.Kind {
	case "err":
		return "(Err " + r.Err.coq() + ")"
	case "desc":
		return "(Ok (VDesc " + r.Desc.coq() + "))"
	case "read":
		return "(Ok (VRead " + r.Desc.coq() + " " + hx.BB(r.delivered()) + "))"
	case "list":
		return "(Ok (VList " + hx.Bs(r.Items) + " " + optErr(r.IterErr) + "))"
	case "descs":
		ds := make([]string, len(r.Descs))
		for i, d := range r.Descs {
			ds[i] = d.coq()
		}
		return "(Ok (VDescs " + hx.List(ds) + " " + optErr(r.IterErr) + "))"
	case "writer":
		return fmt.Sprintf("(Ok (VWriter %d%%N))", r.W)
	case "n":
		return "(Ok (VN " + hx.Z(r.N) + "))"
	case "str":
		return "(Ok (VStr " + hx.B(r.Str) + "))"
	case "unit":
		return "(Ok VUnit)"
	}
	return "Panic"
}

// Event is one entry of the trace.
type Event struct {
	Kind string    `json:"kind"` // call | closeR | locs
	Op   string    `json:"op,omitempty"`
	Strs []string  `json:"strs,omitempty"` // string arguments in order
	Ints []int64   `json:"ints,omitempty"` // integer arguments in order
	Desc *DescSpec `json:"desc,omitempty"` // PushBlob descriptor / ELocs descriptor
	Data []byte    `json:"data,omitempty"` // PushBlob / PushManifest / Write content
	W    int       `json:"w,omitempty"`
	Man  bool      `json:"is_manifest,omitempty"`
	Res  *ResSpec  `json:"res,omitempty"`
}

func (e Event) coq() string {
	switch e.Kind {
	case "closeR":
		return "ECloseR"
	case "locs":
		return "(ELocs " + hx.Bool(e.Man) + " " + e.Desc.coq() + ")"
	}
	var op string
	sarg := func(i int) string { return hx.B(e.Strs[i]) }
	iarg := func(i int) string { return hx.Z(e.Ints[i]) }
	w := fmt.Sprintf("%d%%N", e.W)
	switch e.Op {
	case "GetBlob", "GetManifest", "GetTag", "ResolveBlob", "ResolveManifest", "ResolveTag",
		"DeleteBlob", "DeleteManifest", "DeleteTag", "Tags":
		op = e.Op + " " + sarg(0) + " " + sarg(1)
	case "GetBlobRange":
		op = "GetBlobRange " + sarg(0) + " " + sarg(1) + " " + iarg(0) + " " + iarg(1)
	case "PushBlob":
		op = "PushBlob " + sarg(0) + " " + e.Desc.coq() + " " + hx.BB(e.Data)
	case "PushBlobChunked":
		op = "PushBlobChunked " + sarg(0) + " " + iarg(0)
	case "PushBlobChunkedResume":
		op = "PushBlobChunkedResume " + sarg(0) + " " + sarg(1) + " " + iarg(0) + " " + iarg(1)
	case "MountBlob", "Referrers":
		op = e.Op + " " + sarg(0) + " " + sarg(1) + " " + sarg(2)
	case "PushManifest":
		op = "PushManifest " + sarg(0) + " " + sarg(1) + " " + hx.BB(e.Data) + " " + sarg(2)
	case "Repositories":
		op = "Repositories " + sarg(0)
	case "WWrite":
		op = "WWrite " + w + " " + hx.BB(e.Data)
	case "WClose", "WSize", "WChunkSize", "WID", "WCancel":
		op = e.Op + " " + w
	case "WCommit":
		op = "WCommit " + w + " " + sarg(0)
	default:
		op = "Repositories []"
	}
	return "(ECall (" + op + ") " + e.Res.coq() + ")"
}

// source decides what the backend answers: generated from the PRNG, or replayed.
type source struct {
	rnd    *rand.Rand
	replay []ResSpec // when non-nil: answers in order
	pos    int
	errP   int  // per-mille probability of an error answer
	ill    bool // allow answers outside the Interface conventions
	body   []byte
	nextW  int
	wlen   int // length of the Write being answered
	curOp  string
}

var mediaTypes = []string{"application/octet-stream", "application/vnd.oci.image.manifest.v1+json",
	"application/vnd.oci.image.index.v1+json", "application/json", "", "text/plain"}

func (s *source) genDesc(digest string, size int64) DescSpec {
	d := DescSpec{Media: mediaTypes[s.rnd.Intn(len(mediaTypes))], Digest: digest, Size: size}
	switch s.rnd.Intn(12) {
	case 0:
		d.Digest = digestOf([]byte("other"))
	case 1:
		d.Digest = ""
	}
	if s.rnd.Intn(10) == 0 {
		d.Artifact = "application/vnd.example+type"
	}
	return d
}

func (s *source) genData() []byte {
	switch s.rnd.Intn(6) {
	case 0:
		return nil
	case 1:
		return []byte("x")
	case 2:
		return bytes.Repeat([]byte("ab"), 10+s.rnd.Intn(100))
	default:
		b := make([]byte, 1+s.rnd.Intn(24))
		for i := range b {
			b[i] = byte(s.rnd.Intn(256))
		}
		return b
	}
}

var listItems = []string{"a", "b", "latest", "v1.0", "foo/bar", "x y", "tag<&>", "é", "z\"q", "0", "v2", "~tilde", "50%", "a+b"}

// next answers a call of the given result type; digestHint is the digest the call named.
func (s *source) next(typ string, digestHint string) ResSpec {
	if s.replay != nil {
		if s.pos < len(s.replay) {
			r := s.replay[s.pos]
			s.pos++
			if r.Kind == typ || r.Kind == "err" && typ != "n" && typ != "str" || typ == "write" && r.Kind == "n" {
				return r
			}
		}
		// script exhausted or of the wrong shape: a neutral answer of the right type
		switch typ {
		case "n":
			return ResSpec{Kind: "n"}
		case "write":
			return ResSpec{Kind: "n", N: int64(s.wlen)}
		case "str":
			return ResSpec{Kind: "str", Str: "id"}
		}
		return ResSpec{Kind: "err", Err: &ErrSpec{Kind: "plain", Msg: "script exhausted"}}
	}
	// the server wraps the errors of Write and (in the PATCH handler) Close with %w: see errs.go
	ill := s.ill && s.curOp != "WWrite" && s.curOp != "WClose"
	if typ == "write" {
		switch k := s.rnd.Intn(20); {
		case k == 0 && s.wlen > 0:
			return ResSpec{Kind: "n", N: int64(s.wlen - 1)} // short write
		case k <= 2:
			return ResSpec{Kind: "err", Err: randErr(s.rnd, s.rnd.Intn(2), ill)}
		}
		return ResSpec{Kind: "n", N: int64(s.wlen)}
	}
	if typ != "n" && typ != "str" && s.rnd.Intn(1000) < s.errP {
		return ResSpec{Kind: "err", Err: randErr(s.rnd, s.rnd.Intn(3), ill)}
	}
	var iterErr *ErrSpec
	switch typ {
	case "desc":
		size := int64(s.rnd.Intn(5000))
		if s.rnd.Intn(20) == 0 {
			size = -1
		}
		d := s.genDesc(digestHint, size)
		return ResSpec{Kind: "desc", Desc: &d}
	case "read":
		data := s.genData()
		size := int64(len(data))
		switch s.rnd.Intn(10) {
		case 0:
			size += int64(1 + s.rnd.Intn(5)) // a reader that delivers less than promised
		case 1:
			size = int64(s.rnd.Intn(4)) // or something else
		}
		d := s.genDesc(digestHint, size)
		r := ResSpec{Kind: "read", Desc: &d, Data: data}
		// (drawn last, so that the content and the descriptor are those of the same seed without it)
		if s.rnd.Intn(4) == 0 {
			r.Fail = &ReadFail{At: failPoint(s.rnd, len(data)), Err: randErr(s.rnd, s.rnd.Intn(2), false), Tail: s.rnd.Intn(3) == 0}
		}
		if s.rnd.Intn(8) == 0 {
			r.CloseErr = randErr(s.rnd, s.rnd.Intn(2), false)
		}
		if s.rnd.Intn(3) == 0 {
			r.Chunk = 1 + s.rnd.Intn(7)
		}
		return r
	case "list", "descs":
		n := s.rnd.Intn(7)
		if s.rnd.Intn(8) == 0 {
			n = 0
		}
		if s.rnd.Intn(6) == 0 {
			iterErr = randErr(s.rnd, s.rnd.Intn(2), ill)
		}
		if typ == "list" {
			items := make([]string, n)
			for i := range items {
				items[i] = listItems[s.rnd.Intn(len(listItems))]
			}
			return ResSpec{Kind: "list", Items: items, IterErr: iterErr}
		}
		ds := make([]DescSpec, n)
		for i := range ds {
			ds[i] = s.genDesc(digestOf([]byte{byte(i)}), int64(s.rnd.Intn(1000)))
		}
		return ResSpec{Kind: "descs", Descs: ds, IterErr: iterErr}
	case "writer":
		s.nextW++
		return ResSpec{Kind: "writer", W: s.nextW + s.rnd.Intn(3)}
	case "n":
		switch s.rnd.Intn(8) {
		case 0:
			return ResSpec{Kind: "n", N: 0}
		case 1:
			return ResSpec{Kind: "n", N: 1}
		case 2:
			return ResSpec{Kind: "n", N: -3}
		}
		return ResSpec{Kind: "n", N: int64(s.rnd.Intn(100000))}
	case "str":
		ids := []string{"id1", "upload-42", "a/b?c=d&e", "ü-id", "x", strings.Repeat("long", 20), "with space", "%2F", "#frag"}
		if s.ill && s.rnd.Intn(3) == 0 {
			return ResSpec{Kind: "str", Str: []string{"", "\xff\xfe", "bad\xc3"}[s.rnd.Intn(3)]}
		}
		return ResSpec{Kind: "str", Str: ids[s.rnd.Intn(len(ids))]}
	case "unit":
		return ResSpec{Kind: "unit"}
	}
	return ResSpec{Kind: "unit"}
}

// backend is the recording backend: an ociregistry.Interface whose every answer comes
// from the source and whose every call is logged.
type backend struct {
	*ociregistry.Funcs // only for the unexported marker method of ociregistry.Interface; every method is overridden
	src *source
	log []Event
}

func (b *backend) call(op string, typ string, strs []string, ints []int64, desc *DescSpec, data []byte, w int, hint string) ResSpec {
	b.src.curOp = op
	r := b.src.next(typ, hint)
	b.log = append(b.log, Event{Kind: "call", Op: op, Strs: strs, Ints: ints, Desc: desc, Data: data, W: w, Res: &r})
	return r
}

// failPoint: after how many of n bytes the Read fails: at once, after one byte, in the middle,
// one byte short, or after everything (an error in place of io.EOF).
func failPoint(rnd *rand.Rand, n int) int {
	switch rnd.Intn(6) {
	case 0:
		return 0
	case 1:
		return min(1, n)
	case 2:
		return max(n-1, 0)
	case 3:
		return n
	}
	return rnd.Intn(n + 1)
}

// reader is the BlobReader the recording backend hands out.  It has no WriteTo: io.Copy
// goes through Read.
type reader struct {
	b        *backend
	desc     ociregistry.Descriptor
	data     []byte // what it delivers
	off      int
	fail     error // what Read returns once data is exhausted (nil: io.EOF)
	tail     bool
	chunk    int
	closeErr error
}

func (r *reader) Read(p []byte) (int, error) {
	if len(p) == 0 {
		return 0, nil
	}
	rest := r.data[r.off:]
	if len(rest) == 0 {
		if r.fail != nil {
			return 0, r.fail
		}
		return 0, io.EOF
	}
	n := min(len(rest), len(p))
	if r.chunk > 0 {
		n = min(n, r.chunk)
	}
	copy(p, rest[:n])
	r.off += n
	if r.off == len(r.data) && r.fail != nil && r.tail {
		return n, r.fail
	}
	return n, nil
}
func (r *reader) Descriptor() ociregistry.Descriptor { return r.desc }
func (r *reader) Close() error {
	r.b.log = append(r.b.log, Event{Kind: "closeR"})
	return r.closeErr
}

func (b *backend) read(op string, strs []string, ints []int64, hint string) (ociregistry.BlobReader, error) {
	r := b.call(op, "read", strs, ints, nil, nil, 0, hint)
	if r.Kind == "err" {
		return nil, r.Err.build()
	}
	rd := &reader{b: b, desc: r.Desc.desc(), data: r.delivered(), chunk: r.Chunk}
	if r.Fail != nil {
		rd.fail, rd.tail = r.Fail.Err.build(), r.Fail.Tail
	}
	if r.CloseErr != nil {
		rd.closeErr = r.CloseErr.build()
	}
	return rd, nil
}

func (b *backend) descRes(op string, strs []string, desc *DescSpec, data []byte, w int, hint string) (ociregistry.Descriptor, error) {
	r := b.call(op, "desc", strs, nil, desc, data, w, hint)
	if r.Kind == "err" {
		return ociregistry.Descriptor{}, r.Err.build()
	}
	return r.Desc.desc(), nil
}

func (b *backend) unit(op string, strs []string) error {
	r := b.call(op, "unit", strs, nil, nil, nil, 0, "")
	if r.Kind == "err" {
		return r.Err.build()
	}
	return nil
}

func (b *backend) GetBlob(ctx context.Context, repo string, digest ociregistry.Digest) (ociregistry.BlobReader, error) {
	return b.read("GetBlob", []string{repo, string(digest)}, nil, string(digest))
}
func (b *backend) GetBlobRange(ctx context.Context, repo string, digest ociregistry.Digest, o0, o1 int64) (ociregistry.BlobReader, error) {
	return b.read("GetBlobRange", []string{repo, string(digest)}, []int64{o0, o1}, string(digest))
}
func (b *backend) GetManifest(ctx context.Context, repo string, digest ociregistry.Digest) (ociregistry.BlobReader, error) {
	return b.read("GetManifest", []string{repo, string(digest)}, nil, string(digest))
}
func (b *backend) GetTag(ctx context.Context, repo string, tag string) (ociregistry.BlobReader, error) {
	return b.read("GetTag", []string{repo, tag}, nil, digestOf([]byte(tag)))
}
func (b *backend) ResolveBlob(ctx context.Context, repo string, digest ociregistry.Digest) (ociregistry.Descriptor, error) {
	return b.descRes("ResolveBlob", []string{repo, string(digest)}, nil, nil, 0, string(digest))
}
func (b *backend) ResolveManifest(ctx context.Context, repo string, digest ociregistry.Digest) (ociregistry.Descriptor, error) {
	return b.descRes("ResolveManifest", []string{repo, string(digest)}, nil, nil, 0, string(digest))
}
func (b *backend) ResolveTag(ctx context.Context, repo string, tag string) (ociregistry.Descriptor, error) {
	return b.descRes("ResolveTag", []string{repo, tag}, nil, nil, 0, digestOf([]byte(tag)))
}
func (b *backend) PushBlob(ctx context.Context, repo string, desc ociregistry.Descriptor, r io.Reader) (ociregistry.Descriptor, error) {
	data, _ := io.ReadAll(r)
	ds := specOf(desc)
	return b.descRes("PushBlob", []string{repo}, &ds, data, 0, string(desc.Digest))
}
func (b *backend) PushManifest(ctx context.Context, repo string, tag string, contents []byte, mediaType string) (ociregistry.Descriptor, error) {
	return b.descRes("PushManifest", []string{repo, tag, mediaType}, nil, append([]byte(nil), contents...), 0, digestOf(contents))
}
func (b *backend) MountBlob(ctx context.Context, fromRepo, toRepo string, digest ociregistry.Digest) (ociregistry.Descriptor, error) {
	return b.descRes("MountBlob", []string{fromRepo, toRepo, string(digest)}, nil, nil, 0, string(digest))
}
func (b *backend) DeleteBlob(ctx context.Context, repo string, digest ociregistry.Digest) error {
	return b.unit("DeleteBlob", []string{repo, string(digest)})
}
func (b *backend) DeleteManifest(ctx context.Context, repo string, digest ociregistry.Digest) error {
	return b.unit("DeleteManifest", []string{repo, string(digest)})
}
func (b *backend) DeleteTag(ctx context.Context, repo string, name string) error {
	return b.unit("DeleteTag", []string{repo, name})
}

func (b *backend) strSeq(op string, strs []string) ociregistry.Seq[string] {
	r := b.call(op, "list", strs, nil, nil, nil, 0, "")
	return func(yield func(string, error) bool) {
		if r.Kind == "err" {
			yield("", r.Err.build())
			return
		}
		for _, it := range r.Items {
			if !yield(it, nil) {
				return
			}
		}
		if r.IterErr != nil {
			yield("", r.IterErr.build())
		}
	}
}
func (b *backend) Repositories(ctx context.Context, startAfter string) ociregistry.Seq[string] {
	return b.strSeq("Repositories", []string{startAfter})
}
func (b *backend) Tags(ctx context.Context, repo string, startAfter string) ociregistry.Seq[string] {
	return b.strSeq("Tags", []string{repo, startAfter})
}
func (b *backend) Referrers(ctx context.Context, repo string, digest ociregistry.Digest, artifactType string) ociregistry.Seq[ociregistry.Descriptor] {
	r := b.call("Referrers", "descs", []string{repo, string(digest), artifactType}, nil, nil, nil, 0, "")
	return func(yield func(ociregistry.Descriptor, error) bool) {
		if r.Kind == "err" {
			yield(ociregistry.Descriptor{}, r.Err.build())
			return
		}
		for _, d := range r.Descs {
			if !yield(d.desc(), nil) {
				return
			}
		}
		if r.IterErr != nil {
			yield(ociregistry.Descriptor{}, r.IterErr.build())
		}
	}
}

type writer struct {
	b *backend
	w int
}

func (b *backend) writerRes(op string, strs []string, ints []int64) (ociregistry.BlobWriter, error) {
	r := b.call(op, "writer", strs, ints, nil, nil, 0, "")
	if r.Kind == "err" {
		return nil, r.Err.build()
	}
	return &writer{b: b, w: r.W}, nil
}
func (b *backend) PushBlobChunked(ctx context.Context, repo string, chunkSize int) (ociregistry.BlobWriter, error) {
	return b.writerRes("PushBlobChunked", []string{repo}, []int64{int64(chunkSize)})
}
func (b *backend) PushBlobChunkedResume(ctx context.Context, repo, id string, offset int64, chunkSize int) (ociregistry.BlobWriter, error) {
	return b.writerRes("PushBlobChunkedResume", []string{repo, id}, []int64{offset, int64(chunkSize)})
}

func (w *writer) Write(p []byte) (int, error) {
	w.b.src.wlen = len(p)
	r := w.b.call("WWrite", "write", nil, nil, nil, append([]byte(nil), p...), w.w, "")
	if r.Kind == "err" {
		return 0, r.Err.build()
	}
	return int(r.N), nil
}
func (w *writer) Close() error {
	r := w.b.call("WClose", "unit", nil, nil, nil, nil, w.w, "")
	if r.Kind == "err" {
		return r.Err.build()
	}
	return nil
}
func (w *writer) Size() int64 {
	return w.b.call("WSize", "n", nil, nil, nil, nil, w.w, "").N
}
func (w *writer) ChunkSize() int {
	return int(w.b.call("WChunkSize", "n", nil, nil, nil, nil, w.w, "").N)
}
func (w *writer) ID() string {
	return w.b.call("WID", "str", nil, nil, nil, nil, w.w, "").Str
}
func (w *writer) Commit(digest ociregistry.Digest) (ociregistry.Descriptor, error) {
	return w.b.descRes("WCommit", []string{string(digest)}, nil, nil, w.w, string(digest))
}
func (w *writer) Cancel() error {
	r := w.b.call("WCancel", "unit", nil, nil, nil, nil, w.w, "")
	if r.Kind == "err" {
		return r.Err.build()
	}
	return nil
}

var _ ociregistry.Interface = (*backend)(nil)
