package main

import (
	"crypto/sha256"
	"crypto/sha512"
	"encoding/base64"
	"encoding/hex"
	"math/rand"
	"strings"
)

func digestOf(b []byte) string {
	h := sha256.Sum256(b)
	return "sha256:" + hex.EncodeToString(h[:])
}

func pick(rnd *rand.Rand, xs []string) string { return xs[rnd.Intn(len(xs))] }

var goodRepos = []string{"foo", "foo/bar", "a/b/c", "x-y.z_w", "blobs", "uploads", "manifests", "tags", "referrers",
	"v2", "foo/blobs", "blobs/uploads", "tags/list", "a", "0", "foo/blobs/uploads", "library/ubuntu", "a__b", "a--b", "foo/v2/bar",
	strings.Repeat("a", 256), "n/" + strings.Repeat("b", 40)}
var badRepos = []string{"Foo", "foo//bar", "", "foo/", "-foo", "foo bar", "föö", "foo/../bar", ".", "foo.", "a___b", "foo/Bar", "foo:bar", "foo@bar",
	"_catalog", "foo/_catalog", "a/", "/a", "foo\x00", "%66oo", "foo?x", "foo#x"}

func sha512Digest(b []byte) string {
	h := sha512.Sum512(b)
	return "sha512:" + hex.EncodeToString(h[:])
}

var someBodies = [][]byte{nil, []byte("x"), []byte("hello world"),
	[]byte(`{"schemaVersion":2,"mediaType":"application/vnd.oci.image.manifest.v1+json","config":{"mediaType":"application/vnd.oci.image.config.v1+json","digest":"sha256:e3b0c44298fc1c149afbf4c8996fb92427ae41e4649b934ca495991b7852b855","size":0},"layers":[]}`),
	[]byte(`{"schemaVersion":2,"subject":{"mediaType":"application/vnd.oci.image.manifest.v1+json","digest":"sha256:e3b0c44298fc1c149afbf4c8996fb92427ae41e4649b934ca495991b7852b855","size":3}}`),
	[]byte(`{"subject":null}`), []byte(`{"subject":{"digest":""}}`), []byte(`{"subject":5}`), []byte(`{`), []byte(`[]`), []byte("\x00\xff\xfe binary"),
	[]byte(strings.Repeat("0123456789", 30))}

func goodDigests() []string {
	return []string{digestOf(nil), digestOf([]byte("x")), digestOf([]byte("hello world")), sha512Digest([]byte("x")),
		"sha384:" + strings.Repeat("0a", 48)}
}

var badDigests = []string{"sha256:abc", "sha256:" + strings.Repeat("AB", 32), "md5:d41d8cd98f00b204e9800998ecf8427e", "sha256", "",
	"sha256:", ":abc", "sha256:" + strings.Repeat("a", 63), "sha256:" + strings.Repeat("a", 65), "foo:bar", "sha256:" + strings.Repeat("g", 64),
	"sha256+b64:abc", "SHA256:" + strings.Repeat("a", 64), "sha512:" + strings.Repeat("a", 64), "sha256:" + strings.Repeat("a", 64) + "\n",
	"sha256 :" + strings.Repeat("a", 64), "list", "latest"}

var goodTags = []string{"latest", "v1.0", "a", "_x", "UPPER_case-1.2", strings.Repeat("t", 128), "0", "list", "uploads", "sha256", "a.b-c_d"}
var badTags = []string{"", ".bad", "-bad", "bad!", "sha256:xyz", strings.Repeat("t", 129), "a b", "a/b", "é", "a@b", "tag\n"}

func b64(s string) string { return base64.RawURLEncoding.EncodeToString([]byte(s)) }

var goodUploadIDs = []string{b64("id1"), b64("upload-42"), b64("a"), b64("ab"), b64("a/b?c=d"), b64("ü-id"), b64("with space"), b64(strings.Repeat("x", 50)),
	"QQ", "QUI", "QU\nJD", "_-_-", b64("[\"a\",\"b\"]")}
var badUploadIDs = []string{"", "Q", "QQ==", "QQ=", "****", "a b", b64("\xff\xfe"), b64("bad\xc3"), "QUJD=", "QUJDR", "+/+/", "Q\x00"}

var methods = []string{"GET", "GET", "GET", "HEAD", "PUT", "POST", "PATCH", "DELETE"}
var oddMethods = []string{"OPTIONS", "get", "", "CONNECT", "TRACE", "Get", "POST ", "PROPFIND"}

var rangeHeaders = []string{"", "", "", "bytes=0-4", "bytes=2-", "bytes=-5", "bytes=5-2", "bytes=0-0", "bytes=0-4,6-8", "bytes= 1 - 3 ", "bytes=a-b",
	"items=0-4", "bytes=0-9223372036854775807", "bytes=9223372036854775807-", "bytes=,", "bytes=, 0-1", "bytes=", "bytes=3-3", "bytes=10-20",
	"bytes=0-99999", "bytes=1-", "bytes=0-", "bytes=-", "bytes=--1", "bytes=+1-+3", "bytes=1", "bytes=1-2-3", "Bytes=0-1", "bytes=0-1,", "bytes=5000-",
	"bytes=9223372036854775808-", "bytes=-0", "bytes=\t2-\t3", "bytes=4-2147483648"}
var contentRanges = []string{"", "", "", "0-4", "0-0", "1-0", "5-9", "a-b", "0-", "-5", "0-9223372036854775807", "3-2", "bytes 0-4/10", "0-10", "1-1",
	"2-1", "0--1", "+0-+4", "9223372036854775807-9223372036854775807", "00-04", " 0-4", "0-4 ", "5", "-", "0-9223372036854775806", "-1-3"}
var contentTypes = []string{"", "", "application/vnd.oci.image.manifest.v1+json", "application/vnd.oci.image.index.v1+json", "application/json",
	"application/octet-stream", "application/vnd.docker.distribution.manifest.v2+json", "text/plain; charset=utf-8"}

var listQueries = []string{"", "", "n=5", "n=0", "n=-1", "n=abc", "n=99999999999999999999", "last=x", "last=", "n=2&last=b", "n=1", "n=3&last=a%20b",
	"n=1&n=2", "last=a&last=b", "n=+2", "n=2;last=a", "%zz", "a;b", "&&", "n=2&x=%", "n=2&=v", "N=2", "n=2&last=%C3%A9", "n=10001", "n=1000", "last=a+b&n=1",
	"n=9223372036854775807", "n=9223372036854775808", "n=-9223372036854775808", "n= 2", "n=2&n=x", "n=1&%41=b", "x=1&n=2&z=%2F"}

// reqSpec fields are filled by the callers
func listQuery(rnd *rand.Rand) string { return pick(rnd, listQueries) }

func repoName(rnd *rand.Rand, pBad int) string {
	if rnd.Intn(100) < pBad {
		if rnd.Intn(3) == 0 {
			return byteMutant(rnd, pick(rnd, goodRepos))
		}
		return pick(rnd, badRepos)
	}
	return pick(rnd, goodRepos)
}
func digestName(rnd *rand.Rand, pBad int) string {
	if rnd.Intn(100) < pBad {
		if rnd.Intn(3) == 0 {
			return byteMutant(rnd, pick(rnd, goodDigests()))
		}
		return pick(rnd, badDigests)
	}
	return pick(rnd, goodDigests())
}
func tagName(rnd *rand.Rand, pBad int) string {
	if rnd.Intn(100) < pBad {
		if rnd.Intn(3) == 0 {
			return byteMutant(rnd, pick(rnd, goodTags))
		}
		return pick(rnd, badTags)
	}
	return pick(rnd, goodTags)
}

// byteMutant: a valid word with one byte replaced by any byte value (mostly an invalid word)
func byteMutant(rnd *rand.Rand, w string) string {
	if w == "" {
		return w
	}
	return withByte(w, rnd.Intn(len(w)), byte(rnd.Intn(256)))
}

func uploadID(rnd *rand.Rand, pBad int) string {
	if rnd.Intn(100) < pBad {
		return pick(rnd, badUploadIDs)
	}
	return pick(rnd, goodUploadIDs)
}

func queryEscapeLoose(s string) string {
	// enough escaping to get the value through url.ParseQuery unchanged
	r := strings.NewReplacer("%", "%25", "&", "%26", ";", "%3B", "+", "%2B", "=", "%3D", "#", "%23", " ", "+")
	return r.Replace(s)
}

// grammarRequest: a request line of one of the 17 kinds, names mostly valid.
// pBad is the per-cent chance that a given name is drawn from the invalid list.
func grammarRequest(rnd *rand.Rand, kind int, pBad int) (method, path, query string) {
	repo := repoName(rnd, pBad)
	dig := digestName(rnd, pBad)
	switch kind {
	case 0:
		return "GET", pick(rnd, []string{"/v2/", "/v2"}), ""
	case 1:
		return "GET", "/v2/" + repo + "/blobs/" + dig, ""
	case 2:
		return "HEAD", "/v2/" + repo + "/blobs/" + dig, ""
	case 3:
		return "DELETE", "/v2/" + repo + "/blobs/" + dig, ""
	case 4:
		q := pick(rnd, []string{"", "", "digest=", "mount=" + queryEscapeLoose(dig), "from=foo", "mount=&from=foo", "x=y"})
		return "POST", "/v2/" + repo + pick(rnd, []string{"/blobs/uploads/", "/blobs/uploads"}), q
	case 5:
		q := "digest=" + queryEscapeLoose(dig)
		if rnd.Intn(6) == 0 {
			q = "digest=" + dig
		}
		return "POST", "/v2/" + repo + "/blobs/uploads/", q
	case 6:
		from := repoName(rnd, pBad)
		q := "mount=" + queryEscapeLoose(dig) + "&from=" + queryEscapeLoose(from)
		if rnd.Intn(5) == 0 {
			q = "from=" + queryEscapeLoose(from) + "&mount=" + dig + "&digest=" + digestName(rnd, 50)
		}
		return "POST", "/v2/" + repo + "/blobs/uploads/", q
	case 7:
		return "GET", "/v2/" + repo + "/blobs/uploads/" + uploadID(rnd, pBad), ""
	case 8:
		return "PATCH", "/v2/" + repo + "/blobs/uploads/" + uploadID(rnd, pBad), ""
	case 9:
		q := "digest=" + queryEscapeLoose(dig)
		if rnd.Intn(8) == 0 {
			q = pick(rnd, []string{"", "digest=", "x=1"})
		}
		return "PUT", "/v2/" + repo + "/blobs/uploads/" + uploadID(rnd, pBad), q
	case 10, 11, 12, 13:
		ref := dig
		if rnd.Intn(2) == 0 {
			ref = tagName(rnd, pBad)
		}
		return []string{"GET", "HEAD", "PUT", "DELETE"}[kind-10], "/v2/" + repo + "/manifests/" + ref, ""
	case 14:
		return "GET", "/v2/" + repo + "/tags/list", listQuery(rnd)
	case 15:
		return "GET", "/v2/" + repo + "/referrers/" + dig, pick(rnd, []string{"", "artifactType=x", "n=2"})
	default:
		return "GET", "/v2/_catalog", listQuery(rnd)
	}
}

// mutate a request line
func mutateLine(rnd *rand.Rand, method, path, query string) (string, string, string) {
	switch rnd.Intn(16) {
	case 0:
		method = pick(rnd, methods)
	case 1:
		method = pick(rnd, oddMethods)
	case 2:
		// drop the last segment
		if i := strings.LastIndex(path, "/"); i >= 0 {
			path = path[:i]
		}
	case 3:
		path += "/"
	case 4:
		path = strings.Replace(path, "/", "//", 1+rnd.Intn(2))
	case 5:
		path = strings.Replace(path, "/v2/", pick(rnd, []string{"/v1/", "/V2/", "v2/", "/v2", "//v2/", "/v2/v2/", "/"}), 1)
	case 6:
		// empty last segment
		if i := strings.LastIndex(path, "/"); i >= 0 {
			path = path[:i+1]
		}
	case 7:
		if len(path) > 0 {
			i := rnd.Intn(len(path))
			path = path[:i] + string(rune(rnd.Intn(128))) + path[i:]
		}
	case 8:
		if len(path) > 1 {
			i := rnd.Intn(len(path))
			path = path[:i] + path[i+1:]
		}
	case 9:
		query = pick(rnd, listQueries)
	case 10:
		if query != "" {
			i := rnd.Intn(len(query))
			query = query[:i] + pick(rnd, []string{"%", ";", "&", "=", "+", "%2", "%zz"}) + query[i:]
		}
	case 11:
		// swap the routing word
		for _, w := range []string{"/blobs/", "/manifests/", "/tags/", "/referrers/", "/uploads/"} {
			if strings.Contains(path, w) {
				path = strings.Replace(path, w, pick(rnd, []string{"/blobs/", "/manifests/", "/tags/", "/referrers/", "/uploads/", "/blob/", "/"}), 1)
				break
			}
		}
	case 12:
		path = ""
	case 13:
		path = path + pick(rnd, []string{"/list", "/blobs", "/uploads", "/manifests", "/tags", "/blobs/uploads", "/blobs/uploads/"})
	case 14:
		query = query + pick(rnd, []string{"&digest=" + digestOf(nil), "&mount=x", "&from=", "&n=1", "&last=z"})
	case 15:
		path = strings.ToUpper(path)
	}
	return method, path, query
}

var segVocab = []string{"v2", "blobs", "uploads", "manifests", "tags", "list", "referrers", "_catalog", "foo", "bar", "", "a", "Foo", "latest",
	"sha256:" + strings.Repeat("a", 64), "QQ", ".", "..", "x y", "%2F"}

// randomLine: a request line from the segment vocabulary
func randomLine(rnd *rand.Rand) (string, string, string) {
	n := rnd.Intn(7)
	segs := make([]string, n)
	for i := range segs {
		segs[i] = pick(rnd, segVocab)
	}
	path := strings.Join(segs, "/")
	switch rnd.Intn(4) {
	case 0, 1:
		path = "/v2/" + path
	case 2:
		path = "/" + path
	}
	m := pick(rnd, methods)
	if rnd.Intn(10) == 0 {
		m = pick(rnd, oddMethods)
	}
	q := ""
	if rnd.Intn(3) == 0 {
		q = pick(rnd, listQueries)
	}
	return m, path, q
}

// ---------------------------------------------------------------- character-class sweeps
//
// The validators of names (repository, tag, digest) classify single bytes.  A valid word with one
// byte replaced by each of the 256 byte values, at every kind of position the grammar
// distinguishes (first, second, interior, around a separator, last, at the length limit), shows
// every byte the validator lets through or refuses at that position; the same with multi-byte
// UTF-8 letters and digits spliced in, for a validator that classifies runes.

func withByte(word string, i int, b byte) string {
	return word[:i] + string([]byte{b}) + word[i+1:]
}

type sweepWord struct {
	word string
	pos  []int
}

var tagSweep = []sweepWord{
	{"latest", []int{0, 1, 3, 5}},
	{"a", []int{0}},
	{"v1.0-rc_1", []int{2, 4, 8}},
	{strings.Repeat("t", 128), []int{127}},
}
var repoSweep = []sweepWord{
	{"foo/bar", []int{0, 1, 2, 3, 4, 6}},
	{"a", []int{0}},
	{"a-b.c__d", []int{1, 2, 5, 7}},
}

func digestSweep() []sweepWord {
	return []sweepWord{
		{digestOf([]byte("x")), []int{0, 3, 5, 6, 7, 40, 70}},
		{sha512Digest([]byte("x")), []int{5, 7, 134}},
		{"sha384:" + strings.Repeat("0a", 48), []int{0, 102}},
	}
}

// letters and digits outside ASCII (one to three bytes of UTF-8 each), and some non-letters
var utf8Splices = []string{"é", "ê", "ü", "ú", "µ", "ª", "º", "ß", "ÿ", "к", "е", "Ж", "λ", "日", "٣", "３", "ǅ", "ⅷ", "²", "‿", " ", "​", "·", "×"}

func spliced(word string, i int, ins string) []string {
	// replacing the byte at i, and inserted before it
	return []string{word[:i] + ins + word[i+1:], word[:i] + ins + word[i:]}
}
