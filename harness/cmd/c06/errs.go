package main

import (
	"encoding/json"
	"errors"
	"fmt"
	"math/rand"

	"cuelabs.dev/go/oci/ociregistry"
	"verif/harness/hx"
)

// ErrSpec is a Go error value as a tree, the same shape as gerr in coq/Model/Errors.v.
type ErrSpec struct {
	Kind   string   `json:"kind"` // std | wire | plain | wrap | http | wires0
	Std    string   `json:"std,omitempty"`
	Code   string   `json:"code,omitempty"`
	Msg    string   `json:"msg,omitempty"`
	Detail *string  `json:"detail,omitempty"`
	Prefix string   `json:"prefix,omitempty"`
	Status int      `json:"status,omitempty"`
	Inner  *ErrSpec `json:"inner,omitempty"`
}

var stdErrs = []struct {
	Name string
	Err  ociregistry.Error
}{
	{"BlobUnknown", ociregistry.ErrBlobUnknown},
	{"BlobUploadInvalid", ociregistry.ErrBlobUploadInvalid},
	{"BlobUploadUnknown", ociregistry.ErrBlobUploadUnknown},
	{"DigestInvalid", ociregistry.ErrDigestInvalid},
	{"ManifestBlobUnknown", ociregistry.ErrManifestBlobUnknown},
	{"ManifestInvalid", ociregistry.ErrManifestInvalid},
	{"ManifestUnknown", ociregistry.ErrManifestUnknown},
	{"NameInvalid", ociregistry.ErrNameInvalid},
	{"NameUnknown", ociregistry.ErrNameUnknown},
	{"SizeInvalid", ociregistry.ErrSizeInvalid},
	{"Unauthorized", ociregistry.ErrUnauthorized},
	{"Denied", ociregistry.ErrDenied},
	{"Unsupported", ociregistry.ErrUnsupported},
	{"TooManyRequests", ociregistry.ErrTooManyRequests},
	{"RangeInvalid", ociregistry.ErrRangeInvalid},
}

func stdByName(n string) ociregistry.Error {
	for _, s := range stdErrs {
		if s.Name == n {
			return s.Err
		}
	}
	return nil
}

// build makes the Go error.
func (e *ErrSpec) build() error {
	switch e.Kind {
	case "std":
		if s := stdByName(e.Std); s != nil {
			return s
		}
		return errors.New("unknown std " + e.Std)
	case "wire":
		var d json.RawMessage
		if e.Detail != nil {
			d = json.RawMessage(*e.Detail)
		}
		return ociregistry.NewError(e.Msg, e.Code, d)
	case "plain":
		return errors.New(e.Msg)
	case "wrap":
		return fmt.Errorf(e.Prefix+"%w", e.Inner.build())
	case "http":
		var in error
		if e.Inner != nil {
			in = e.Inner.build()
		}
		return ociregistry.NewHTTPError(in, e.Status, nil, nil)
	case "wires0":
		return &ociregistry.WireErrors{}
	}
	return errors.New("bad spec")
}

func werrCoq(code, msg string, detail *string) string {
	d := "None"
	if detail != nil {
		d = "(Some " + hx.B(*detail) + ")"
	}
	return "(W " + hx.B(code) + " " + hx.B(msg) + " " + d + ")"
}

// coq renders the gerr term.
func (e *ErrSpec) coq() string {
	switch e.Kind {
	case "std":
		s := stdByName(e.Std)
		return "(Wire " + werrCoq(s.Code(), s.(*ociregistry.WireError).Message, nil) + ")"
	case "wire":
		return "(Wire " + werrCoq(e.Code, e.Msg, e.Detail) + ")"
	case "plain":
		return "(Plain " + hx.B(e.Msg) + ")"
	case "wrap":
		return "(Wrap " + hx.B(e.Prefix) + " " + e.Inner.coq() + ")"
	case "http":
		in := "None"
		if e.Inner != nil {
			in = "(Some " + e.Inner.coq() + ")"
		}
		return "(Http " + hx.Z(int64(e.Status)) + " " + in + " false)"
	case "wires0":
		return "(Wires [])"
	}
	return "(Plain [])"
}

// illBehaved: an error value no ociregistry.Interface implementation may return if the
// server is to answer (WriteHeader rejects the status / Error() panics).
func (e *ErrSpec) illBehaved() bool {
	switch e.Kind {
	case "wires0":
		return true
	case "http":
		if e.Status < 100 || e.Status > 999 {
			return true
		}
		return e.Inner != nil && e.Inner.illBehaved()
	case "wrap":
		return e.Inner.illBehaved()
	}
	return false
}

var customCodes = []string{"SOMECODE", "MY_CUSTOM_CODE", "X", "", "UNKNOWN", "lower_case", "NOT_FOUND", "RANGE_INVALID_X", "A B"}
var okStatuses = []int{400, 401, 403, 404, 405, 409, 416, 418, 429, 451, 499, 500, 501, 502, 503, 599, 200, 204, 302, 100, 999}
var badStatuses = []int{0, 42, 99, 1000, -1}
var someDetails = []string{`{"a":1}`, `[1,2,{"b":null}]`, `"str"`, `null`, ``}
var wrapPrefixes = []string{"context: ", "", "cannot do it: ", "404 Not Found: ", "blob unknown: "}
var someMsgs = []string{"something failed", "", "x", "blob unknown", "not found", "with \"quotes\"", "line1\nline2", "<html>&amp;"}

func strp(s string) *string { return &s }

func randLeaf(rnd *rand.Rand) *ErrSpec {
	switch rnd.Intn(10) {
	case 0, 1, 2, 3:
		return &ErrSpec{Kind: "std", Std: stdErrs[rnd.Intn(len(stdErrs))].Name}
	case 4, 5:
		return &ErrSpec{Kind: "plain", Msg: someMsgs[rnd.Intn(len(someMsgs))]}
	default:
		e := &ErrSpec{Kind: "wire", Msg: someMsgs[rnd.Intn(len(someMsgs))]}
		if rnd.Intn(2) == 0 {
			e.Code = stdErrs[rnd.Intn(len(stdErrs))].Err.Code()
		} else {
			e.Code = customCodes[rnd.Intn(len(customCodes))]
		}
		if rnd.Intn(3) == 0 {
			e.Detail = strp(someDetails[rnd.Intn(len(someDetails))])
		}
		return e
	}
}

// randErr: a random error tree; ill = allow values outside the Interface conventions.
func randErr(rnd *rand.Rand, depth int, ill bool) *ErrSpec {
	if ill && rnd.Intn(3) == 0 {
		if rnd.Intn(2) == 0 {
			return &ErrSpec{Kind: "wires0"}
		}
		return &ErrSpec{Kind: "http", Status: badStatuses[rnd.Intn(len(badStatuses))], Inner: randLeaf(rnd)}
	}
	if depth == 0 {
		return randLeaf(rnd)
	}
	switch rnd.Intn(6) {
	case 0:
		// nothing ill-behaved under %w: fmt.Errorf renders the inner text when the wrapper is
		// built (and recovers from a panicking Error method), which Model/Errors.v does not follow
		return &ErrSpec{Kind: "wrap", Prefix: wrapPrefixes[rnd.Intn(len(wrapPrefixes))], Inner: randErr(rnd, depth-1, false)}
	case 1, 2:
		st := okStatuses[rnd.Intn(len(okStatuses))]
		if rnd.Intn(8) == 0 {
			return &ErrSpec{Kind: "http", Status: st}
		}
		return &ErrSpec{Kind: "http", Status: st, Inner: randErr(rnd, depth-1, ill)}
	}
	return randLeaf(rnd)
}
