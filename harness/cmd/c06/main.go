// Harness for C06: drives ociserver.New(recordingBackend, opts).ServeHTTP in process with
// requests built the way net/http's server builds them (non-nil Body, explicit
// ContentLength, canonical header keys; a share of them parsed from raw request text by
// http.ReadRequest), records status / headers / body / backend-call and Close log, and drives
// internal/ocirequest (Parse, Construct, ParseRange, RangeString) through the ociverif hook.
package main

import (
	"bufio"
	"bytes"
	"context"
	"encoding/json"
	"errors"
	"fmt"
	"io"
	"math/rand"
	"net/http"
	"net/http/httptest"
	"net/url"
	"os"
	"sort"
	"strings"
	"unicode/utf8"

	"cuelabs.dev/go/oci/ociregistry"
	"cuelabs.dev/go/oci/ociregistry/ociserver"
	"cuelabs.dev/go/oci/ociregistry/ociverif"
	"verif/harness/hx"
)

// ---------------------------------------------------------------- inputs

type ReqSpec struct {
	Method   string `json:"method"`
	Path     string `json:"path"`
	RawQuery string `json:"raw_query"`
	Range    string `json:"range,omitempty"`
	CRange   string `json:"content_range,omitempty"`
	CType    string `json:"content_type,omitempty"`
	CLen     int64  `json:"content_length"`
	Body     []byte `json:"body,omitempty"`
	Raw      []byte `json:"raw,omitempty"` // when set: the request is http.ReadRequest of this text
	// the exact bytes of Path / RawQuery when they are not valid UTF-8 (a JSON string cannot carry them)
	PathRaw  []byte `json:"path_raw,omitempty"`
	QueryRaw []byte `json:"raw_query_raw,omitempty"`
}

// exactBytes returns s as bytes when a JSON string would not round-trip it.
func exactBytes(s string) []byte {
	if utf8.ValidString(s) {
		return nil
	}
	return []byte(s)
}

type LocsSpec struct {
	Err  *ErrSpec `json:"err,omitempty"`
	Locs []string `json:"locs"`
}

type OptSpec struct {
	DisableReferrers  bool      `json:"disable_referrers,omitempty"`
	DisableSinglePost bool      `json:"disable_single_post,omitempty"`
	MaxList           int       `json:"max_list,omitempty"`
	OmitDigest        bool      `json:"omit_digest,omitempty"`
	OmitLink          bool      `json:"omit_link,omitempty"`
	Locs              *LocsSpec `json:"locs,omitempty"`
	WrapWriteError    bool      `json:"wrap_write_error,omitempty"` // Options.WriteError = a function that calls ociregistry.WriteError
	NilOpts           bool      `json:"nil_opts,omitempty"`         // ociserver.New(backend, nil)
}

type JDoc struct {
	Kind    string     `json:"kind"` // tags | catalog | index | err
	Name    string     `json:"name,omitempty"`
	Items   []string   `json:"items,omitempty"`
	Descs   []DescSpec `json:"descs,omitempty"`
	Code    string     `json:"code,omitempty"`
	Detail  bool       `json:"detail,omitempty"`
	Message string     `json:"message,omitempty"`
}

type Observed struct {
	Panicked bool              `json:"panicked"`
	PanicVal string            `json:"panic_value,omitempty"`
	Status   int               `json:"status,omitempty"`
	Headers  map[string]string `json:"headers,omitempty"`
	Body     []byte            `json:"body,omitempty"`
	Doc      *JDoc             `json:"doc,omitempty"`
	Trace    []Event           `json:"trace"`
}

type ServeCase struct {
	Kind   string    `json:"kind"` // "serve"
	Req    ReqSpec   `json:"req"`
	Opts   OptSpec   `json:"opts"`
	Script []ResSpec `json:"script"` // what the backend answers, in call order (replay)
	Obs    *Observed `json:"observed,omitempty"`
	Origin string    `json:"origin,omitempty"`
}

// ---------------------------------------------------------------- running one request

func buildRequest(r *ReqSpec) (*http.Request, error) {
	if r.Raw != nil {
		req, err := http.ReadRequest(bufio.NewReader(bytes.NewReader(r.Raw)))
		if err != nil {
			return nil, err
		}
		body, err := io.ReadAll(req.Body)
		if err != nil {
			return nil, err
		}
		// what the handler will see
		r.Method, r.Path, r.RawQuery = req.Method, req.URL.Path, req.URL.RawQuery
		r.Range, r.CRange, r.CType = req.Header.Get("Range"), req.Header.Get("Content-Range"), req.Header.Get("Content-Type")
		r.CLen, r.Body = req.ContentLength, body
		req.Body = io.NopCloser(bytes.NewReader(body))
		return req.WithContext(context.Background()), nil
	}
	h := http.Header{}
	if r.Range != "" {
		h.Set("Range", r.Range)
	}
	if r.CRange != "" {
		h.Set("Content-Range", r.CRange)
	}
	if r.CType != "" {
		h.Set("Content-Type", r.CType)
	}
	req := &http.Request{
		Method: r.Method, URL: &url.URL{Path: r.Path, RawQuery: r.RawQuery},
		Proto: "HTTP/1.1", ProtoMajor: 1, ProtoMinor: 1, Header: h, Host: "registry.example",
		Body: io.NopCloser(bytes.NewReader(r.Body)), ContentLength: r.CLen, RemoteAddr: "192.0.2.1:1234",
	}
	return req.WithContext(context.Background()), nil
}

func decodeDoc(status int, hdr http.Header, body []byte, trace []Event) *JDoc {
	lister := ""
	for _, e := range trace {
		if e.Kind == "call" && (e.Op == "Tags" || e.Op == "Repositories" || e.Op == "Referrers") {
			lister = e.Op
		}
	}
	if hdr.Get("Content-Type") == "application/json" {
		var w struct {
			Errors []struct {
				Code    string          `json:"code"`
				Message string          `json:"message"`
				Detail  json.RawMessage `json:"detail"`
			} `json:"errors"`
		}
		dec := json.NewDecoder(bytes.NewReader(body))
		dec.DisallowUnknownFields()
		if err := dec.Decode(&w); err == nil && len(w.Errors) == 1 {
			return &JDoc{Kind: "err", Code: w.Errors[0].Code, Detail: len(w.Errors[0].Detail) > 0, Message: w.Errors[0].Message}
		}
	}
	if status != 200 {
		return nil
	}
	switch lister {
	case "Tags":
		var t struct {
			Name string   `json:"name"`
			Tags []string `json:"tags"`
		}
		if json.Unmarshal(body, &t) == nil {
			return &JDoc{Kind: "tags", Name: t.Name, Items: t.Tags}
		}
	case "Repositories":
		var t struct {
			Repos []string `json:"repositories"`
		}
		if json.Unmarshal(body, &t) == nil {
			return &JDoc{Kind: "catalog", Items: t.Repos}
		}
	case "Referrers":
		var t struct {
			Manifests []ociregistry.Descriptor `json:"manifests"`
		}
		if json.Unmarshal(body, &t) == nil {
			d := &JDoc{Kind: "index"}
			for _, m := range t.Manifests {
				d.Descs = append(d.Descs, specOf(m))
			}
			return d
		}
	}
	return nil
}

func (d *JDoc) coq() string {
	if d == nil {
		return "None"
	}
	switch d.Kind {
	case "tags":
		return "(Some (JTags " + hx.B(d.Name) + " " + hx.Bs(d.Items) + "))"
	case "catalog":
		return "(Some (JCatalog " + hx.Bs(d.Items) + "))"
	case "index":
		ds := make([]string, len(d.Descs))
		for i, x := range d.Descs {
			ds[i] = x.coq()
		}
		return "(Some (JIndex " + hx.List(ds) + "))"
	case "err":
		det := "None"
		if d.Detail {
			det = "(Some [])"
		}
		return "(Some (JErr (W " + hx.B(d.Code) + " [] " + det + ")))"
	}
	return "None"
}

func runServe(c *ServeCase, src *source) (skip bool) {
	req, err := buildRequest(&c.Req)
	if err != nil {
		return true
	}
	be := &backend{src: src}
	src.body = c.Req.Body
	var opts *ociserver.Options
	if !c.Opts.NilOpts {
		opts = &ociserver.Options{
			DisableReferrersAPI: c.Opts.DisableReferrers, DisableSinglePostUpload: c.Opts.DisableSinglePost,
			MaxListPageSize: c.Opts.MaxList, OmitDigestFromTagGetResponse: c.Opts.OmitDigest,
			OmitLinkHeaderFromResponses: c.Opts.OmitLink,
		}
		if l := c.Opts.Locs; l != nil {
			opts.LocationsForDescriptor = func(isManifest bool, desc ociregistry.Descriptor) ([]string, error) {
				ds := specOf(desc)
				be.log = append(be.log, Event{Kind: "locs", Man: isManifest, Desc: &ds})
				if l.Err != nil {
					return nil, l.Err.build()
				}
				return l.Locs, nil
			}
		}
		if c.Opts.WrapWriteError {
			opts.WriteError = func(w http.ResponseWriter, _ *http.Request, err error) { ociregistry.WriteError(w, err) }
		}
	}
	h := ociserver.New(be, opts)
	rec := httptest.NewRecorder()
	ob := &Observed{}
	ob.Panicked, ob.PanicVal = hx.Recover(func() { h.ServeHTTP(rec, req) })
	ob.Trace = be.log
	if ob.Trace == nil {
		ob.Trace = []Event{}
	}
	if !ob.Panicked {
		res := rec.Result()
		ob.Status = res.StatusCode
		ob.Headers = map[string]string{}
		for k, v := range res.Header {
			ob.Headers[k] = strings.Join(v, "\x00")
		}
		ob.Body = rec.Body.Bytes()
		ob.Doc = decodeDoc(ob.Status, res.Header, ob.Body, ob.Trace)
	}
	c.Obs = ob
	c.Script = nil
	for _, e := range ob.Trace {
		if e.Kind == "call" {
			c.Script = append(c.Script, *e.Res)
		}
	}
	return false
}

func subjectCoq(body []byte) string {
	var m struct {
		Subject *ociregistry.Descriptor `json:"subject"`
	}
	if err := json.Unmarshal(body, &m); err != nil {
		return "None"
	}
	if m.Subject == nil {
		return "(Some None)"
	}
	return "(Some (Some " + hx.B(string(m.Subject.Digest)) + "))"
}

func (c *ServeCase) coq() string {
	o := c.Opts
	locs := "None"
	if !o.NilOpts && o.Locs != nil {
		if o.Locs.Err != nil {
			locs = "(Some (Err " + o.Locs.Err.coq() + "))"
		} else {
			locs = "(Some (Ok " + hx.Bs(o.Locs.Locs) + "))"
		}
	}
	var co string
	if o.NilOpts {
		co = "(mkcopts false false 0%Z false false None)"
	} else {
		co = fmt.Sprintf("(mkcopts %s %s %s %s %s %s)", hx.Bool(o.DisableReferrers), hx.Bool(o.DisableSinglePost),
			hx.Z(int64(o.MaxList)), hx.Bool(o.OmitDigest), hx.Bool(o.OmitLink), locs)
	}
	r := c.Req
	rq := fmt.Sprintf("(mkhreq %s %s %s %s %s %s %s %s)", hx.B(r.Method), hx.B(r.Path), hx.B(r.RawQuery), hx.B(r.Range),
		hx.B(r.CRange), hx.B(r.CType), hx.Z(r.CLen), hx.BB(r.Body))
	evs := make([]string, len(c.Obs.Trace))
	for i, e := range c.Obs.Trace {
		evs[i] = e.coq()
	}
	var ob string
	if c.Obs.Panicked {
		ob = "(OPanic " + hx.List(evs) + ")"
	} else {
		keys := make([]string, 0, len(c.Obs.Headers))
		for k := range c.Obs.Headers {
			keys = append(keys, k)
		}
		sort.Strings(keys)
		hs := make([]string, len(keys))
		for i, k := range keys {
			hs[i] = "(" + hx.B(k) + ", " + hx.B(c.Obs.Headers[k]) + ")"
		}
		ob = fmt.Sprintf("(OResp %s %s %s %s %s)", hx.Z(int64(c.Obs.Status)), hx.List(hs), hx.BB(c.Obs.Body), c.Obs.Doc.coq(), hx.List(evs))
	}
	if rs := c.streams(); rs != nil {
		// a reader that failed part-way or whose Close failed: the trace carries what it delivered,
		// the extra list what it had promised beyond that and the errors
		return fmt.Sprintf("(CStream %s %s %s %s %s %s)", co, rq, hx.B(digestOf(r.Body)), subjectCoq(r.Body), ob, hx.List(rs))
	}
	return fmt.Sprintf("(CServe %s %s %s %s %s)", co, rq, hx.B(digestOf(r.Body)), subjectCoq(r.Body), ob)
}

// streams: one rstream per reader the backend handed out, in order; nil when every reader was
// the plain one (delivers its content, io.EOF, Close succeeds).
func (c *ServeCase) streams() []string {
	var rs []string
	any := false
	for _, e := range c.Obs.Trace {
		if e.Kind == "call" && e.Res.Kind == "read" {
			rs = append(rs, e.Res.rstream())
			any = any || e.Res.streamed()
		}
	}
	if !any {
		return nil
	}
	return rs
}

// streamKind names how the readers of the exchange misbehaved (for the distribution).
func (c *ServeCase) streamKind() string {
	k := ""
	for _, e := range c.Obs.Trace {
		if e.Kind != "call" || e.Res.Kind != "read" {
			continue
		}
		if f := e.Res.Fail; f != nil {
			switch n := len(e.Res.Data); {
			case f.At >= n:
				k += "+read-fails-at-end"
			case f.At <= 0:
				k += "+read-fails-at-0"
			default:
				k += "+read-fails-inside"
			}
		}
		if e.Res.CloseErr != nil {
			k += "+close-fails"
		}
	}
	return k
}

func illScript(c *ServeCase) bool {
	for _, e := range c.Obs.Trace {
		if e.Kind != "call" {
			continue
		}
		r := e.Res
		if r.Err != nil && r.Err.illBehaved() || r.IterErr != nil && r.IterErr.illBehaved() {
			return true
		}
		if r.Fail != nil && r.Fail.Err.illBehaved() || r.CloseErr != nil && r.CloseErr.illBehaved() {
			return true
		}
		if e.Op == "WID" && (r.Str == "" || !validUTF8(r.Str)) {
			return true
		}
	}
	if l := c.Opts.Locs; l != nil && l.Err != nil && l.Err.illBehaved() {
		return true
	}
	return false
}

func validUTF8(s string) bool { return strings.ToValidUTF8(s, "") == s }

func (c *ServeCase) class() string {
	if c.Obs.Panicked {
		return "panic"
	}
	op := "none"
	for _, e := range c.Obs.Trace {
		if e.Kind == "call" && !strings.HasPrefix(e.Op, "W") {
			op = e.Op
		}
	}
	if c.streams() != nil {
		return fmt.Sprintf("%s/%d/stream", op, c.Obs.Status)
	}
	return fmt.Sprintf("%s/%d", op, c.Obs.Status)
}

// ---------------------------------------------------------------- parse / range cases

type ParseCase struct {
	Kind     string `json:"kind"` // "parse"
	Method   string `json:"method"`
	Path     string `json:"path"`
	RawQuery string `json:"raw_query"`
	Obs      any    `json:"observed,omitempty"`
	PathRaw  []byte `json:"path_raw,omitempty"`
	QueryRaw []byte `json:"raw_query_raw,omitempty"`
}

func runParse(p *ParseCase) string {
	var rreq *ociverif.Request
	var perr error
	panicked, _ := hx.Recover(func() {
		rreq, perr = ociverif.Parse(p.Method, &url.URL{Path: p.Path, RawQuery: p.RawQuery})
	})
	res := "PPanic"
	cons := "CNone"
	obs := map[string]any{"panicked": panicked}
	switch {
	case panicked:
	case perr != nil:
		class := 4
		var pe *ociverif.ParseError
		if errors.As(perr, &pe) {
			switch pe.Err {
			case ociverif.ErrNotFound:
				class = 0
			case ociverif.ErrBadlyFormedDigest:
				class = 1
			case ociverif.ErrMethodNotAllowed:
				class = 2
			case ociverif.ErrBadRequest:
				class = 3
			}
		}
		code := ""
		var oe ociregistry.Error
		if errors.As(perr, &oe) {
			code = oe.Code()
		}
		res = fmt.Sprintf("(PFail %d %s)", class, hx.B(code))
		obs["class"], obs["code"], obs["error"] = class, code, perr.Error()
	default:
		res = fmt.Sprintf("(PGood (mkreq %s %s %s %s %s %s %s %s))", kindNames[int(rreq.Kind)], hx.B(rreq.Repo), hx.B(rreq.Digest),
			hx.B(rreq.Tag), hx.B(rreq.FromRepo), hx.B(rreq.UploadID), hx.Z(int64(rreq.ListN)), hx.B(rreq.ListLast))
		obs["request"] = rreq
		var m, u string
		var cerr error
		cp, _ := hx.Recover(func() { m, u, cerr = rreq.Construct() })
		switch {
		case cp:
			cons = "CPanic"
		case cerr != nil:
			cons = "CFail"
			obs["construct_error"] = cerr.Error()
		default:
			cons = "(CGood " + hx.B(m) + " " + hx.B(u) + ")"
			obs["construct"] = []string{m, u}
		}
	}
	p.Obs = obs
	return fmt.Sprintf("(CParse %s %s %s %s %s)", hx.B(p.Method), hx.B(p.Path), hx.B(p.RawQuery), res, cons)
}

var kindNames = []string{"ReqPing", "ReqBlobGet", "ReqBlobHead", "ReqBlobDelete", "ReqBlobStartUpload", "ReqBlobUploadBlob", "ReqBlobMount",
	"ReqBlobUploadInfo", "ReqBlobUploadChunk", "ReqBlobCompleteUpload", "ReqManifestGet", "ReqManifestHead", "ReqManifestPut",
	"ReqManifestDelete", "ReqTagsList", "ReqReferrersList", "ReqCatalogList"}

// ---------------------------------------------------------------- main

type anyCase struct {
	Kind string `json:"kind"`
}

func main() {
	cfg := hx.ParseFlags()
	out := hx.NewOut(cfg, "Obs.C06")
	out.ShardMax = 400
	rnd := cfg.Rand()

	addServe := func(c *ServeCase, src *source, origin string) {
		c.Kind, c.Origin = "serve", origin
		if runServe(c, src) {
			out.Count("serve:rejected-by-net/http")
			return
		}
		c.Req.PathRaw, c.Req.QueryRaw = exactBytes(c.Req.Path), exactBytes(c.Req.RawQuery)
		ill := illScript(c)
		tags := map[string]any{"class": c.class(), "ill_backend": ill}
		if out.Add(hx.Case{Coq: c.coq(), Desc: c, Tags: tags}) {
			out.Count("serve:origin:" + origin)
			out.Count(fmt.Sprintf("serve:status:%d", c.Obs.Status))
			out.Count("serve:class:" + c.class())
			out.Count("serve:method:" + c.Req.Method)
			if ill {
				out.Count("serve:ill-behaved-backend")
			}
			if c.Req.Raw != nil {
				out.Count("serve:via-http.ReadRequest")
			}
			if k := c.streamKind(); k != "" {
				out.Count("serve:stream:" + k[1:])
			}
			out.Count(fmt.Sprintf("serve:backend-calls:%d", len(c.Script)))
		}
	}
	addParse := func(p *ParseCase, origin string) {
		p.Kind = "parse"
		p.PathRaw, p.QueryRaw = exactBytes(p.Path), exactBytes(p.RawQuery)
		coq := runParse(p)
		cl := "parse/err"
		if strings.Contains(coq, "PGood") {
			cl = "parse/ok"
		} else if strings.Contains(coq, "PPanic") {
			cl = "parse/panic"
		}
		if out.Add(hx.Case{Coq: coq, Desc: p, Tags: map[string]any{"class": cl}}) {
			out.Count("parse:origin:" + origin)
			out.Count("parse:" + cl)
		}
	}
	addRange := func(s string) {
		a, b, ok := ociverif.ParseRange(s)
		res := "None"
		if ok {
			res = "(Some (" + hx.Z(a) + ", " + hx.Z(b) + "))"
		}
		if out.Add(hx.Case{Coq: "(CRange " + hx.B(s) + " " + res + ")",
			Desc: map[string]any{"kind": "range", "s": s, "observed": []any{a, b, ok}}, Tags: map[string]any{"class": "range"}}) {
			out.Count("range:ParseRange")
		}
	}
	addRangeStr := func(a, b int64) {
		s := ociverif.RangeString(a, b)
		if out.Add(hx.Case{Coq: "(CRangeStr " + hx.Z(a) + " " + hx.Z(b) + " " + hx.B(s) + ")",
			Desc: map[string]any{"kind": "rangestr", "a": a, "b": b, "observed": s}, Tags: map[string]any{"class": "rangestr"}}) {
			out.Count("range:RangeString")
		}
	}
	runDesc := func(raw []byte, origin string) {
		var k anyCase
		if json.Unmarshal(raw, &k) != nil {
			return
		}
		switch k.Kind {
		case "serve":
			var c ServeCase
			if json.Unmarshal(raw, &c) == nil {
				if c.Req.PathRaw != nil {
					c.Req.Path = string(c.Req.PathRaw)
				}
				if c.Req.QueryRaw != nil {
					c.Req.RawQuery = string(c.Req.QueryRaw)
				}
				script := c.Script
				if script == nil {
					script = []ResSpec{}
				}
				addServe(&c, &source{replay: script}, origin)
			}
		case "parse":
			var p ParseCase
			if json.Unmarshal(raw, &p) == nil {
				if p.PathRaw != nil {
					p.Path = string(p.PathRaw)
				}
				if p.QueryRaw != nil {
					p.RawQuery = string(p.QueryRaw)
				}
				addParse(&p, origin)
			}
		case "range":
			var r struct {
				S string `json:"s"`
			}
			if json.Unmarshal(raw, &r) == nil {
				addRange(r.S)
			}
		case "rangestr":
			var r struct {
				A, B int64
			}
			if json.Unmarshal(raw, &r) == nil {
				addRangeStr(r.A, r.B)
			}
		}
	}

	if cfg.Replay != "" {
		b, err := os.ReadFile(cfg.Replay)
		if err != nil {
			panic(err)
		}
		runDesc(b, "replay")
		if err := out.Flush(); err != nil {
			panic(err)
		}
		return
	}
	for _, raw := range hx.LoadCorpus(cfg.Corpus) {
		runDesc(raw, "corpus")
	}
	generate(cfg, rnd, addServe, addParse, addRange, addRangeStr)
	if err := out.Flush(); err != nil {
		panic(err)
	}
}

// ---------------------------------------------------------------- generation

func randOpts(rnd *rand.Rand, ill bool) OptSpec {
	var o OptSpec
	if rnd.Intn(3) != 0 {
		// the default option set most of the time
		if rnd.Intn(10) == 0 {
			o.NilOpts = true
		}
		o.WrapWriteError = rnd.Intn(4) == 0
		return o
	}
	o.DisableReferrers = rnd.Intn(3) == 0
	o.DisableSinglePost = rnd.Intn(3) == 0
	o.MaxList = []int{0, 0, 1, 3, 1000, -1}[rnd.Intn(6)]
	o.OmitDigest = rnd.Intn(3) == 0
	o.OmitLink = rnd.Intn(3) == 0
	o.WrapWriteError = rnd.Intn(4) == 0
	if rnd.Intn(2) == 0 {
		l := &LocsSpec{Locs: []string{}}
		switch rnd.Intn(5) {
		case 0:
			l.Err = randErr(rnd, rnd.Intn(2), ill)
		case 1:
		case 2:
			l.Locs = []string{"https://cdn.example/blob", "https://other.example/x"}
		default:
			l.Locs = []string{pick(rnd, []string{"https://cdn.example/some/where?sig=1&x=<y>", "/relative/path", "relative", "http://h/é"})}
		}
		o.Locs = l
	}
	return o
}

func fillHeaders(rnd *rand.Rand, r *ReqSpec, kind int) {
	r.Body = someBodies[rnd.Intn(len(someBodies))]
	switch kind {
	case 1: // blob GET
		switch rnd.Intn(4) {
		case 0:
		case 1:
			r.Range = pick(rnd, rangeHeaders)
		default:
			a := rnd.Intn(12)
			switch rnd.Intn(4) {
			case 0:
				r.Range = fmt.Sprintf("bytes=%d-", a)
			default:
				r.Range = fmt.Sprintf("bytes=%d-%d", a, a+rnd.Intn(30))
			}
		}
	case 8, 9: // PATCH / PUT upload
		if rnd.Intn(3) != 0 {
			r.CRange = pick(rnd, contentRanges)
		}
		if rnd.Intn(3) == 0 {
			// a Content-Range that agrees with the body
			if rnd.Intn(2) == 0 || len(r.Body) == 0 {
				off := int64(rnd.Intn(3) * 5)
				r.CRange = ociverif.RangeString(off, off+int64(len(r.Body)))
			}
		}
	case 12:
		r.CType = pick(rnd, contentTypes)
	default:
		if rnd.Intn(6) == 0 {
			r.Range = pick(rnd, rangeHeaders)
		}
		if rnd.Intn(6) == 0 {
			r.CRange = pick(rnd, contentRanges)
		}
		if rnd.Intn(6) == 0 {
			r.CType = pick(rnd, contentTypes)
		}
	}
	switch rnd.Intn(10) {
	case 0:
		r.CLen = -1
	case 1:
		r.CLen = int64(rnd.Intn(8))
	default:
		r.CLen = int64(len(r.Body))
	}
	if kind == 12 && rnd.Intn(3) != 0 {
		// a manifest PUT by digest only gets past the handler's own check with the body's digest
		if i := strings.LastIndex(r.Path, "/manifests/sha256:"); i >= 0 {
			r.Path = r.Path[:i] + "/manifests/" + digestOf(r.Body)
		}
	}
}

// rawRequest renders the request as HTTP/1.1 text for http.ReadRequest.
func rawRequest(r *ReqSpec) []byte {
	target := (&url.URL{Path: r.Path}).EscapedPath()
	if target == "" {
		target = "/"
	}
	if r.RawQuery != "" {
		target += "?" + r.RawQuery
	}
	var b bytes.Buffer
	fmt.Fprintf(&b, "%s %s HTTP/1.1\r\nHost: registry.example\r\n", r.Method, target)
	if r.Range != "" {
		fmt.Fprintf(&b, "Range: %s\r\n", r.Range)
	}
	if r.CRange != "" {
		fmt.Fprintf(&b, "Content-Range: %s\r\n", r.CRange)
	}
	if r.CType != "" {
		fmt.Fprintf(&b, "Content-Type: %s\r\n", r.CType)
	}
	if r.CLen < 0 {
		fmt.Fprintf(&b, "Transfer-Encoding: chunked\r\n\r\n")
		if len(r.Body) > 0 {
			fmt.Fprintf(&b, "%x\r\n%s\r\n", len(r.Body), r.Body)
		}
		b.WriteString("0\r\n\r\n")
	} else {
		fmt.Fprintf(&b, "Content-Length: %d\r\n\r\n%s", len(r.Body), r.Body)
	}
	return b.Bytes()
}

func generate(cfg *hx.Config, rnd *rand.Rand,
	addServe func(*ServeCase, *source, string), addParse func(*ParseCase, string),
	addRange func(string), addRangeStr func(int64, int64)) {

	nServe, nParse := 4000, 900
	if cfg.Thorough() {
		nServe, nParse = 40000, 20000
	}
	newSource := func(errP int, ill bool) *source {
		return &source{rnd: rand.New(rand.NewSource(rnd.Int63())), errP: errP, ill: ill}
	}
	serve := func(m, p, q string, kind int, origin string) {
		c := &ServeCase{Req: ReqSpec{Method: m, Path: p, RawQuery: q}}
		fillHeaders(rnd, &c.Req, kind)
		ill := rnd.Intn(14) == 0
		c.Opts = randOpts(rnd, ill)
		if rnd.Intn(4) == 0 {
			c.Req.Raw = rawRequest(&c.Req)
			origin += "+wire"
		}
		errP := []int{0, 150, 150, 400, 1000}[rnd.Intn(5)]
		addServe(c, newSource(errP, ill), origin)
	}

	// 1. every kind with valid names against an agreeable backend, every option flag alone
	for kind := 0; kind < 17; kind++ {
		for rep := 0; rep < 6; rep++ {
			m, p, q := grammarRequest(rnd, kind, 0)
			c := &ServeCase{Req: ReqSpec{Method: m, Path: p, RawQuery: q}}
			fillHeaders(rnd, &c.Req, kind)
			c.Req.CLen = int64(len(c.Req.Body))
			switch rep {
			case 1:
				c.Opts.DisableSinglePost = true
			case 2:
				c.Opts.OmitDigest = true
			case 3:
				c.Opts.Locs = &LocsSpec{Locs: []string{"https://cdn.example/blob"}}
			case 4:
				c.Opts.DisableReferrers, c.Opts.OmitLink, c.Opts.MaxList = true, true, 2
			case 5:
				c.Opts.Locs = &LocsSpec{Locs: []string{}}
			}
			addServe(c, newSource(0, false), "each-kind")
		}
	}
	// 1b. every boundary value of the list query, Range and Content-Range vocabularies against
	// a backend that agrees (a non-empty listing without an error, a blob of 20 bytes, a writer
	// that takes the chunk), under the option sets that matter for the handler
	listing := []string{"a", "b", "c", "d", "e"}
	for _, q := range listQueries {
		for _, path := range []string{"/v2/foo/tags/list", "/v2/_catalog"} {
			for _, o := range []OptSpec{{}, {OmitLink: true}, {MaxList: 3}, {MaxList: 1000, OmitLink: true}} {
				c := &ServeCase{Req: ReqSpec{Method: "GET", Path: path, RawQuery: q}, Opts: o}
				addServe(c, &source{replay: []ResSpec{{Kind: "list", Items: listing}}}, "boundary-grid")
			}
		}
	}
	blob20 := []byte("0123456789abcdefghij")
	for _, rg := range rangeHeaders {
		for _, o := range []OptSpec{{}, {Locs: &LocsSpec{Locs: []string{}}}} {
			c := &ServeCase{Req: ReqSpec{Method: "GET", Path: "/v2/foo/blobs/" + digestOf(blob20), Range: rg}, Opts: o}
			d := DescSpec{Media: "application/octet-stream", Digest: digestOf(blob20), Size: 20}
			script := []ResSpec{{Kind: "read", Desc: &d, Data: blob20}}
			if o.Locs != nil {
				script = append([]ResSpec{{Kind: "desc", Desc: &d}}, script...)
			}
			addServe(c, &source{replay: script}, "boundary-grid")
		}
	}
	// 1c. every route that streams a backend reader (blob GET, ranged blob GET, both again after the
	// ResolveBlob / LocationsForDescriptor prelude, manifest GET by tag and by digest) against a reader
	// whose Read fails after k bytes, k = 0, 1, the middle, one short, all of them (an error in place
	// of io.EOF), with each shape of error, the error on its own or together with the last bytes;
	// and against a reader whose Close fails
	streamGrid(blob20, addServe)
	for _, cr := range contentRanges {
		for _, body := range [][]byte{nil, []byte("x"), []byte("hello")} {
			for _, clen := range []int64{int64(len(body)), -1} {
				for _, put := range []bool{false, true} {
					c := &ServeCase{Req: ReqSpec{Method: "PATCH", Path: "/v2/foo/blobs/uploads/" + b64("id1"), CRange: cr, CLen: clen, Body: body}}
					d := DescSpec{Media: "application/octet-stream", Digest: digestOf(body), Size: int64(len(body))}
					script := []ResSpec{{Kind: "writer", W: 1}}
					if len(body) > 0 {
						script = append(script, ResSpec{Kind: "n", N: int64(len(body))})
					}
					if put {
						c.Req.Method, c.Req.RawQuery = "PUT", "digest="+digestOf(body)
						script = append(script, ResSpec{Kind: "desc", Desc: &d}, ResSpec{Kind: "unit"})
					} else {
						script = append(script, ResSpec{Kind: "unit"}, ResSpec{Kind: "str", Str: "id1"}, ResSpec{Kind: "n", N: 40 + int64(len(body))})
					}
					addServe(c, &source{replay: script}, "boundary-grid")
				}
			}
		}
	}
	// 2. grammar-directed, mutated and random request lines
	for i := 0; i < nServe; i++ {
		kind := rnd.Intn(17)
		switch k := rnd.Intn(100); {
		case k < 62:
			m, p, q := grammarRequest(rnd, kind, 3)
			serve(m, p, q, kind, "grammar")
		case k < 71:
			m, p, q := grammarRequest(rnd, kind, 45)
			serve(m, p, q, kind, "grammar-bad-names")
		case k < 90:
			m, p, q := grammarRequest(rnd, kind, 4)
			for n := 1 + rnd.Intn(2); n > 0; n-- {
				m, p, q = mutateLine(rnd, m, p, q)
			}
			serve(m, p, q, kind, "mutated")
		default:
			m, p, q := randomLine(rnd)
			serve(m, p, q, rnd.Intn(17), "random")
		}
	}
	// 3. the parser on its own: every vocabulary word in every position of every route
	for _, repo := range append(append([]string{}, goodRepos...), badRepos...) {
		for _, last := range []string{digestOf(nil), "latest", "", "list", b64("id1")} {
			for _, word := range []string{"blobs", "manifests", "tags", "referrers", "blobs/uploads", "uploads"} {
				m := []string{"GET", "PUT", "POST", "DELETE", "HEAD", "PATCH"}[(len(repo)+len(last)+len(word))%6]
				addParse(&ParseCase{Method: m, Path: "/v2/" + repo + "/" + word + "/" + last}, "grid")
			}
		}
	}
	for _, d := range append(goodDigests(), badDigests...) {
		for _, m := range []string{"GET", "HEAD", "DELETE", "PUT", "PATCH"} {
			addParse(&ParseCase{Method: m, Path: "/v2/foo/blobs/" + d}, "grid")
			addParse(&ParseCase{Method: m, Path: "/v2/foo/manifests/" + d}, "grid")
			addParse(&ParseCase{Method: m, Path: "/v2/foo/referrers/" + d}, "grid")
			addParse(&ParseCase{Method: m, Path: "/v2/foo/blobs/uploads/" + b64("u"), RawQuery: "digest=" + queryEscapeLoose(d)}, "grid")
		}
		addParse(&ParseCase{Method: "POST", Path: "/v2/foo/blobs/uploads/", RawQuery: "digest=" + queryEscapeLoose(d)}, "grid")
		addParse(&ParseCase{Method: "POST", Path: "/v2/foo/blobs/uploads/", RawQuery: "mount=" + queryEscapeLoose(d) + "&from=bar"}, "grid")
		addParse(&ParseCase{Method: "POST", Path: "/v2/foo/blobs/uploads/", RawQuery: "mount=" + queryEscapeLoose(d)}, "grid")
	}
	for _, t := range append(append([]string{}, goodTags...), badTags...) {
		for _, m := range []string{"GET", "HEAD", "DELETE", "PUT", "POST"} {
			addParse(&ParseCase{Method: m, Path: "/v2/foo/manifests/" + t}, "grid")
		}
	}
	for _, id := range append(append([]string{}, goodUploadIDs...), badUploadIDs...) {
		for _, m := range []string{"GET", "PATCH", "PUT", "POST", "DELETE"} {
			addParse(&ParseCase{Method: m, Path: "/v2/foo/blobs/uploads/" + id, RawQuery: "digest=" + digestOf(nil)}, "grid")
		}
	}
	for _, q := range listQueries {
		for _, m := range []string{"GET", "POST"} {
			addParse(&ParseCase{Method: m, Path: "/v2/foo/tags/list", RawQuery: q}, "grid")
			addParse(&ParseCase{Method: m, Path: "/v2/_catalog", RawQuery: q}, "grid")
			addParse(&ParseCase{Method: m, Path: "/v2/Foo/tags/list", RawQuery: q}, "grid")
		}
	}
	// 3b. character classes of the validators: every byte value (and non-ASCII letters / digits in
	// UTF-8) at every kind of position of a repository, tag and digest, through the routes that
	// carry the name in the path and in the query
	mods := []string{"GET", "HEAD", "PUT", "DELETE"}
	variants := func(ws []sweepWord, f func(v string, k int)) {
		k := 0
		for _, w := range ws {
			for _, i := range w.pos {
				for b := 0; b < 256; b++ {
					f(withByte(w.word, i, byte(b)), k)
					k++
				}
				for _, u := range utf8Splices {
					for _, v := range spliced(w.word, i, u) {
						f(v, k)
						k++
					}
				}
			}
		}
	}
	okDigest := digestOf([]byte("x"))
	variants(tagSweep, func(v string, k int) {
		addParse(&ParseCase{Method: mods[k%4], Path: "/v2/foo/manifests/" + v}, "class-sweep:tag")
	})
	variants(repoSweep, func(v string, k int) {
		switch k % 6 {
		case 0:
			addParse(&ParseCase{Method: "GET", Path: "/v2/" + v + "/tags/list"}, "class-sweep:repo")
		case 1:
			addParse(&ParseCase{Method: mods[(k/6)%4], Path: "/v2/" + v + "/manifests/latest"}, "class-sweep:repo")
		case 2:
			addParse(&ParseCase{Method: []string{"GET", "HEAD", "DELETE"}[(k/6)%3], Path: "/v2/" + v + "/blobs/" + okDigest}, "class-sweep:repo")
		case 3:
			addParse(&ParseCase{Method: "POST", Path: "/v2/" + v + "/blobs/uploads/"}, "class-sweep:repo")
		case 4:
			addParse(&ParseCase{Method: []string{"GET", "PATCH"}[(k/6)%2], Path: "/v2/" + v + "/blobs/uploads/" + b64("id1")}, "class-sweep:repo")
		default:
			addParse(&ParseCase{Method: "POST", Path: "/v2/foo/blobs/uploads/", RawQuery: "mount=" + okDigest + "&from=" + url.QueryEscape(v)}, "class-sweep:repo")
		}
	})
	variants(digestSweep(), func(v string, k int) {
		switch k % 6 {
		case 0:
			addParse(&ParseCase{Method: []string{"GET", "HEAD", "DELETE"}[(k/6)%3], Path: "/v2/foo/blobs/" + v}, "class-sweep:digest")
		case 1:
			addParse(&ParseCase{Method: mods[(k/6)%4], Path: "/v2/foo/manifests/" + v}, "class-sweep:digest")
		case 2:
			addParse(&ParseCase{Method: "GET", Path: "/v2/foo/referrers/" + v}, "class-sweep:digest")
		case 3:
			addParse(&ParseCase{Method: "PUT", Path: "/v2/foo/blobs/uploads/" + b64("id1"), RawQuery: "digest=" + url.QueryEscape(v)}, "class-sweep:digest")
		case 4:
			addParse(&ParseCase{Method: "POST", Path: "/v2/foo/blobs/uploads/", RawQuery: "digest=" + url.QueryEscape(v)}, "class-sweep:digest")
		default:
			addParse(&ParseCase{Method: "POST", Path: "/v2/foo/blobs/uploads/", RawQuery: "mount=" + url.QueryEscape(v) + "&from=bar"}, "class-sweep:digest")
		}
	})
	// ... and through the server, so that what reaches the backend is seen: one position per word
	serveSweep := func(ws []sweepWord, line func(v string, k int) (string, string, string, int)) {
		for b := 0; b < 256; b++ {
			w := ws[rnd.Intn(len(ws))]
			i := w.pos[rnd.Intn(len(w.pos))]
			m, p, q, kind := line(withByte(w.word, i, byte(b)), b)
			serve(m, p, q, kind, "class-sweep")
		}
		for k, u := range utf8Splices {
			w := ws[rnd.Intn(len(ws))]
			i := w.pos[rnd.Intn(len(w.pos))]
			for _, v := range spliced(w.word, i, u) {
				m, p, q, kind := line(v, k)
				serve(m, p, q, kind, "class-sweep")
			}
		}
	}
	serveSweep(tagSweep, func(v string, k int) (string, string, string, int) {
		return mods[k%4], "/v2/foo/manifests/" + v, "", 10 + k%4
	})
	serveSweep(repoSweep, func(v string, k int) (string, string, string, int) {
		switch k % 4 {
		case 0:
			return "GET", "/v2/" + v + "/tags/list", "", 14
		case 1:
			return "POST", "/v2/foo/blobs/uploads/", "mount=" + okDigest + "&from=" + url.QueryEscape(v), 6
		case 2:
			return "PATCH", "/v2/" + v + "/blobs/uploads/" + b64("id1"), "", 8
		}
		return "HEAD", "/v2/" + v + "/blobs/" + okDigest, "", 2
	})
	serveSweep(digestSweep(), func(v string, k int) (string, string, string, int) {
		switch k % 4 {
		case 0:
			return "GET", "/v2/foo/blobs/" + v, "", 1
		case 1:
			return "DELETE", "/v2/foo/manifests/" + v, "", 13
		case 2:
			return "PUT", "/v2/foo/blobs/uploads/" + b64("id1"), "digest=" + url.QueryEscape(v), 9
		}
		return "POST", "/v2/foo/blobs/uploads/", "mount=" + url.QueryEscape(v) + "&from=bar", 6
	})
	for i := 0; i < nParse; i++ {
		kind := rnd.Intn(17)
		m, p, q := grammarRequest(rnd, kind, 20)
		switch rnd.Intn(3) {
		case 0:
			m, p, q = mutateLine(rnd, m, p, q)
		case 1:
			if rnd.Intn(2) == 0 {
				m, p, q = randomLine(rnd)
			}
		}
		addParse(&ParseCase{Method: m, Path: p, RawQuery: q}, "random")
	}
	// 4. ParseRange / RangeString
	for _, s := range contentRanges {
		addRange(s)
	}
	nums := []int64{0, 1, 2, 5, 9, 10, 99, -1, -5, 9223372036854775807, 9223372036854775806, -9223372036854775808}
	for _, a := range nums {
		for _, b := range nums {
			addRangeStr(a, b)
			addRange(fmt.Sprintf("%d-%d", a, b))
		}
	}
	for i := 0; i < 200; i++ {
		a, b := int64(rnd.Intn(1000)), int64(rnd.Intn(1000))
		addRange(ociverif.RangeString(a, b))
	}
}

// streamGrid: see 1c in generate.
func streamGrid(blob []byte, addServe func(*ServeCase, *source, string)) {
	dg := digestOf(blob)
	errs := []*ErrSpec{
		{Kind: "plain", Msg: "connection reset while reading"},
		{Kind: "std", Std: "BlobUnknown"},
		{Kind: "std", Std: "ManifestUnknown"},
		{Kind: "wire", Code: "MY_CUSTOM_CODE", Msg: "late"},
		{Kind: "wrap", Prefix: "digest mismatch: ", Inner: &ErrSpec{Kind: "std", Std: "DigestInvalid"}},
		{Kind: "http", Status: 503, Inner: &ErrSpec{Kind: "plain", Msg: "upstream gone"}},
		{Kind: "http", Status: 200, Inner: &ErrSpec{Kind: "wire", Code: "X", Msg: "odd"}},
	}
	type route struct {
		path, rng string
		opts      OptSpec
		media     string
		lo, hi    int // the part of the blob the reader carries
	}
	mt := "application/vnd.oci.image.manifest.v1+json"
	routes := []route{
		{"/v2/foo/blobs/" + dg, "", OptSpec{}, "application/octet-stream", 0, len(blob)},
		{"/v2/foo/blobs/" + dg, "", OptSpec{Locs: &LocsSpec{Locs: []string{}}}, "application/octet-stream", 0, len(blob)},
		{"/v2/foo/blobs/" + dg, "bytes=2-9", OptSpec{}, "application/octet-stream", 2, 10},
		{"/v2/foo/blobs/" + dg, "bytes=5-", OptSpec{Locs: &LocsSpec{Locs: []string{}}}, "", 5, len(blob)},
		{"/v2/foo/blobs/" + dg, "bytes=0-0", OptSpec{}, "application/json", 0, 1},
		{"/v2/foo/manifests/latest", "", OptSpec{}, mt, 0, len(blob)},
		{"/v2/foo/manifests/latest", "", OptSpec{OmitDigest: true}, "application/json", 0, len(blob)},
		{"/v2/foo/manifests/" + dg, "", OptSpec{}, mt, 0, len(blob)},
		{"/v2/foo/manifests/" + dg, "", OptSpec{OmitDigest: true, WrapWriteError: true}, "", 0, len(blob)},
	}
	for ri, rt := range routes {
		data := blob[rt.lo:rt.hi]
		d := DescSpec{Media: rt.media, Digest: dg, Size: int64(len(blob))}
		run := func(r ResSpec) {
			c := &ServeCase{Req: ReqSpec{Method: "GET", Path: rt.path, Range: rt.rng}, Opts: rt.opts}
			r.Kind, r.Desc, r.Data = "read", &d, data
			script := []ResSpec{r}
			if rt.opts.Locs != nil {
				script = append([]ResSpec{{Kind: "desc", Desc: &d}}, script...)
			}
			addServe(c, &source{replay: script}, "stream-grid")
		}
		ats := []int{0, 1, len(data) / 2, len(data) - 1, len(data)}
		for ei, e := range errs {
			for ai, at := range ats {
				if ai > 0 && at <= ats[ai-1] {
					continue
				}
				run(ResSpec{Fail: &ReadFail{At: at, Err: e}})
				if at > 0 && (ei+ai+ri)%2 == 0 {
					run(ResSpec{Fail: &ReadFail{At: at, Err: e, Tail: true}, Chunk: 1 + (ei+ai)%4})
				}
			}
			run(ResSpec{CloseErr: e})
			run(ResSpec{Fail: &ReadFail{At: len(data) / 2, Err: errs[(ei+1)%len(errs)]}, CloseErr: e, Chunk: 3})
		}
	}
	// an empty blob whose reader fails at once
	d0 := DescSpec{Media: "application/octet-stream", Digest: digestOf(nil), Size: 0}
	for _, e := range errs {
		for _, path := range []string{"/v2/foo/blobs/" + digestOf(nil), "/v2/foo/manifests/v1", "/v2/foo/manifests/" + digestOf(nil)} {
			c := &ServeCase{Req: ReqSpec{Method: "GET", Path: path}}
			addServe(c, &source{replay: []ResSpec{{Kind: "read", Desc: &d0, Fail: &ReadFail{At: 0, Err: e}}}}, "stream-grid")
		}
	}
}
