package main

import (
	"bytes"
	"context"
	"encoding/json"
	"fmt"
	"io"
	"math/rand"
	"net/http"
	"net/http/httptest"
	"net/url"
	"strings"

	"cuelabs.dev/go/oci/ociregistry"
	"cuelabs.dev/go/oci/ociregistry/ociclient"
	"cuelabs.dev/go/oci/ociregistry/ocidebug"
	"cuelabs.dev/go/oci/ociregistry/ocifilter"
	"cuelabs.dev/go/oci/ociregistry/ocimem"
	"cuelabs.dev/go/oci/ociregistry/ociserver"
	"cuelabs.dev/go/oci/ociregistry/ociunify"
	ocispec "github.com/opencontainers/image-spec/specs-go/v1"
	"verif/harness/hx"
	"verif/harness/memsim"
)

// ---- stacks ----

const (
	stMem     = 0
	stHTTP    = 1
	stHTTPDbg = 2
	stSelect  = 3
	stSub     = 4
	stUnify   = 5
	stTwoHops = 6
	nStacks   = 7
)

var stackNames = []string{"mem", "http", "http+debug", "select", "sub", "unify", "two-hops"}

func isHTTP(stack int) bool { return stack == stHTTP || stack == stHTTPDbg || stack == stTwoHops }

type stackT struct {
	reg     ociregistry.Interface
	url     string // outermost server, "" for direct stacks
	cleanup []func()
}

func (s *stackT) Close() {
	for i := len(s.cleanup) - 1; i >= 0; i-- {
		s.cleanup[i]()
	}
}

func clientFor(srvURL string, tr http.RoundTripper) ociregistry.Interface {
	u, err := url.Parse(srvURL)
	if err != nil {
		panic(err)
	}
	c, err := ociclient.New(u.Host, &ociclient.Options{Insecure: true, Transport: tr})
	if err != nil {
		panic(err)
	}
	return c
}

func newStack(stack int, imm bool) *stackT {
	mem := func() ociregistry.Interface { return ocimem.NewWithConfig(&ocimem.Config{ImmutableTags: imm}) }
	s := &stackT{}
	serve := func(backend ociregistry.Interface) string {
		srv := httptest.NewServer(ociserver.New(backend, nil))
		s.cleanup = append(s.cleanup, srv.Close)
		return srv.URL
	}
	nolog := func(string, ...any) {}
	switch stack {
	case stMem:
		s.reg = mem()
	case stHTTP:
		s.url = serve(mem())
		s.reg = clientFor(s.url, nil)
	case stHTTPDbg:
		s.url = serve(ocidebug.New(mem(), nolog))
		s.reg = ocidebug.New(clientFor(s.url, nil), nolog)
	case stSelect:
		s.reg = ocifilter.Select(mem(), func(string) bool { return true })
	case stSub:
		s.reg = ocifilter.Sub(mem(), "deep/prefix")
	case stUnify:
		s.reg = ociunify.New(mem(), mem(), nil)
	case stTwoHops:
		inner := serve(mem())
		s.url = serve(clientFor(inner, nil))
		s.reg = clientFor(s.url, nil)
	default:
		panic("unknown stack")
	}
	return s
}

// ---- histories ----

// An op is a memsim.Op; two extra kinds exist only on HTTP stacks:
//
//	XPutManifest  PUT /v2/<repo>/manifests/<digest> with body Content and Content-Type Media
//	XPostBlob     POST /v2/<repo>/blobs/uploads/?digest=<digest> with body Content (the
//	              single-POST push the client never uses); modelled as PushBlob with the
//	              descriptor the server builds (octet-stream, Content-Length, digest)
type history struct {
	Stack     int         `json:"stack"`
	Immutable bool        `json:"immutable"`
	Ops       []memsim.Op `json:"ops"`
	// Drains: how the reader of the i-th read operation (GetBlob, GetBlobRange, GetManifest,
	// GetTag, in order) is drained (drain.go); none: io.ReadAll.  Not part of the Coq case.
	Drains []drainSpec `json:"drains,omitempty"`
}

func opCoq(o memsim.Op) string {
	switch o.Kind {
	case "XPutManifest":
		return fmt.Sprintf("XPutManifest %s %s %s %s", hx.B(o.Repo), hx.B(o.Digest), hx.BB(o.Content), hx.B(o.Media))
	case "XPostBlob":
		d := memsim.Desc{Media: "application/octet-stream", Digest: o.Digest, Size: int64(len(o.Content))}
		p := memsim.Op{Kind: "PushBlob", Repo: o.Repo, Desc: &d, Content: o.Content}
		return "XO (" + p.Coq() + ")"
	}
	return "XO (" + o.Coq() + ")"
}

func wireError(resp *http.Response) memsim.Result {
	body, _ := io.ReadAll(io.LimitReader(resp.Body, 1<<16))
	var e struct {
		Errors []struct {
			Code string `json:"code"`
		} `json:"errors"`
	}
	code := ""
	if json.Unmarshal(body, &e) == nil && len(e.Errors) > 0 {
		code = e.Errors[0].Code
	}
	return memsim.Result{Kind: "err", Code: code, Msg: fmt.Sprintf("status %d: %s", resp.StatusCode, strings.TrimSpace(string(body)))}
}

// rawPush performs one of the two wire-only pushes against the outermost server.
func rawPush(base string, o memsim.Op) memsim.Result {
	var req *http.Request
	var err error
	switch o.Kind {
	case "XPutManifest":
		req, err = http.NewRequest("PUT", base+"/v2/"+o.Repo+"/manifests/"+o.Digest, bytes.NewReader(o.Content))
		if err == nil && o.Media != "" {
			req.Header.Set("Content-Type", o.Media)
		}
	case "XPostBlob":
		req, err = http.NewRequest("POST", base+"/v2/"+o.Repo+"/blobs/uploads/?digest="+url.QueryEscape(o.Digest), bytes.NewReader(o.Content))
		if err == nil {
			req.Header.Set("Content-Type", "application/octet-stream")
		}
	}
	if err != nil {
		return memsim.Result{Kind: "err", Msg: "harness: " + err.Error()}
	}
	resp, err := http.DefaultClient.Do(req)
	if err != nil {
		return memsim.Result{Kind: "err", Msg: "transport: " + err.Error()}
	}
	defer resp.Body.Close()
	if resp.StatusCode != http.StatusCreated {
		return wireError(resp)
	}
	dg := resp.Header.Get("Docker-Content-Digest")
	return memsim.Result{Kind: "desc", Desc: &memsim.Desc{Media: o.Media, Digest: dg, Size: int64(len(o.Content))}}
}

func subjectJSONOK(media string, data []byte) bool {
	switch media {
	case ocispec.MediaTypeImageManifest, ocispec.MediaTypeImageIndex:
	default:
		return true
	}
	var m struct {
		Subject *ociregistry.Descriptor `json:"subject"`
	}
	return json.Unmarshal(data, &m) == nil
}

type histRun struct {
	results []memsim.Result
	coq     string
	drains  []string // how each reader was drained, in order
	oneByte bool     // a 1-byte flush at offset 0 over HTTP happened (known defect of the range codec)
}

func execHistory(h history) histRun {
	st := newStack(h.Stack, h.Immutable)
	defer st.Close()
	dreg := &drainReg{Interface: st.reg, specs: h.Drains}
	ex := memsim.NewExec(dreg, h.Stack == stMem)
	ex.Ctx = context.Background()
	or := memsim.NewOracles()
	written := map[int][]byte{}
	var subj []string
	var run histRun
	var opsCoq, resCoq []string
	for _, o := range h.Ops {
		var r memsim.Result
		switch o.Kind {
		case "XPutManifest", "XPostBlob":
			or.Repo(o.Repo)
			or.Digest(o.Digest)
			or.Content(o.Content)
			if o.Kind == "XPutManifest" {
				or.Manifest(o.Content)
				if subjectJSONOK(o.Media, o.Content) {
					subj = append(subj, fmt.Sprintf("(%s, %s)", hx.B(o.Media), hx.BB(o.Content)))
				}
			}
			if st.url == "" {
				r = memsim.Result{Kind: "err", Msg: "harness: wire-only operation on a direct stack"}
			} else {
				panicked, pv := hx.Recover(func() { r = rawPush(st.url, o) })
				if panicked {
					r = memsim.Result{Kind: "panic", Msg: pv}
				}
			}
			if o.Kind == "XPostBlob" && len(o.Content) == 1 && h.Stack == stTwoHops {
				run.oneByte = true
			}
		default:
			or.Observe(o)
			if o.Kind == "WCommit" {
				or.Content(written[o.W])
				if isHTTP(h.Stack) && len(written[o.W]) == 1 {
					run.oneByte = true
				}
			}
			if o.Kind == "PushBlob" && isHTTP(h.Stack) && len(o.Content) == 1 && o.Desc.Size == 1 {
				run.oneByte = true
			}
			r = ex.Run(o)
			if o.Kind == "WWrite" && r.Kind == "n" {
				written[o.W] = append(append([]byte{}, written[o.W]...), o.Content[:r.N]...)
			}
			if r.Kind == "read" {
				or.Content(r.Data)
			}
		}
		run.results = append(run.results, r)
		opsCoq = append(opsCoq, opCoq(o))
		resCoq = append(resCoq, r.Coq())
	}
	run.drains = dreg.used
	run.coq = fmt.Sprintf("CHist %d %s %s %s %s %s", h.Stack, hx.Bool(h.Immutable), or.Coq(), hx.List(subj), hx.List(opsCoq), hx.List(resCoq))
	return run
}

func runHistory(out *hx.Out, h history, origin string) []memsim.Result {
	if h.Drains == nil && origin != "corpus" && origin != "replay" {
		h.Drains = drawDrains(h.Ops)
	}
	run := execHistory(h)
	type step struct {
		Op  memsim.Op     `json:"op"`
		Res memsim.Result `json:"res"`
	}
	steps := make([]step, len(h.Ops))
	for i := range h.Ops {
		steps[i] = step{h.Ops[i], run.results[i]}
	}
	class := "hist-" + stackNames[h.Stack]
	if run.oneByte {
		class = "http-one-byte-flush"
	}
	if out.Add(hx.Case{Coq: run.coq,
		Desc: map[string]any{"input": caseInput{Kind: "hist", Hist: &h}, "trace": steps, "drained": run.drains, "origin": origin},
		Tags: map[string]any{"class": class, "stack": stackNames[h.Stack], "immutable": h.Immutable}}) {
		out.Count("hist:stack:" + stackNames[h.Stack])
		out.Count("hist:origin:" + origin)
		if run.oneByte {
			out.Count("hist:one-byte-flush")
		}
		nread := 0
		for i, o := range h.Ops {
			r := run.results[i]
			out.Count("hist:op:" + o.Kind)
			switch o.Kind {
			case "GetBlob", "GetBlobRange", "GetManifest", "GetTag":
				out.Count("hist:read:" + r.Kind)
				if r.Kind == "read" {
					out.Count(fmt.Sprintf("hist:readlen:%s", lenClass(len(r.Data))))
				}
				if nread < len(h.Drains) && r.Kind != "err" {
					out.Count("hist:drain:" + drainModeNames[h.Drains[nread].Mode%nDrainModes])
				}
				nread++
			case "PushBlob", "WCommit", "XPutManifest", "XPostBlob", "PushManifest":
				out.Count("hist:push:" + o.Kind + ":" + r.Kind)
			}
		}
	}
	return run.results
}

func lenClass(n int) string {
	switch {
	case n == 0:
		return "0"
	case n == 1:
		return "1"
	case n == 2:
		return "2"
	case n < 64:
		return "3-63"
	case n < 8191:
		return "64-8190"
	case n <= 8193:
		return "8191-8193"
	default:
		return ">8193"
	}
}

// ---- generation ----

type pendingUpload struct {
	w      int
	repo   string
	pieces [][]byte
	all    []byte
	wrong  int // 0: commit with the content's digest; k > 0: with wrongDigest(k-1, all)
}

type hgen struct {
	r        *rand.Rand
	stack    int
	repos    []string
	tags     []string
	contents [][]byte
	blobs    map[string][]string        // repo -> digests believed present
	data     map[string][]byte          // digest -> content
	mans     map[string][]memsim.ManRef // repo -> manifests
	tagged   map[string][]string
	pending  []*pendingUpload
	queue    []memsim.Op // reads that follow a disagreeing push (disagree.go), issued soon after it
	nWriters int
	ops      []memsim.Op
	ex       *memsim.Exec // scratch executor used to learn what succeeds
	st       *stackT
}

func randBytes(r *rand.Rand, n int) []byte {
	b := make([]byte, n)
	r.Read(b)
	return b
}

func newHgen(r *rand.Rand, stack int, imm bool, big bool) *hgen {
	g := &hgen{r: r, stack: stack, blobs: map[string][]string{}, data: map[string][]byte{}, mans: map[string][]memsim.ManRef{}, tagged: map[string][]string{}}
	g.repos = []string{"r1", "r2", "a/b"}
	g.tags = []string{"t1", "latest", "v1.0"}
	g.contents = [][]byte{{}, []byte("a"), {0}, []byte("ab"), {0, 255, 0, 128}, []byte("h\xc3\xa9llo\xe2\x82"), []byte("hello world")}
	for i := 0; i < 3; i++ {
		g.contents = append(g.contents, randBytes(r, 1+r.Intn(40)))
	}
	g.contents = append(g.contents, randBytes(r, 200+r.Intn(200)))
	if big {
		sizes := []int{8191, 8192, 8193, 8200, 16384, 16385, 9000}
		g.contents = append(g.contents, randBytes(r, sizes[r.Intn(len(sizes))]))
		g.contents = append(g.contents, randBytes(r, sizes[r.Intn(len(sizes))]))
	}
	g.st = newStack(stack, imm)
	g.ex = memsim.NewExec(g.st.reg, stack == stMem)
	return g
}

func (g *hgen) pick(ss []string) string { return ss[g.r.Intn(len(ss))] }
func (g *hgen) content() []byte         { return g.contents[g.r.Intn(len(g.contents))] }

func (g *hgen) repo() string {
	switch g.r.Intn(50) {
	case 0:
		return "BAD"
	case 1:
		return "unknown/repo"
	}
	return g.pick(g.repos)
}

func (g *hgen) liveRepo() string {
	var live []string
	for _, r := range g.repos {
		if len(g.blobs[r])+len(g.mans[r]) > 0 {
			live = append(live, r)
		}
	}
	if len(live) > 0 && g.r.Intn(10) < 9 {
		return g.pick(live)
	}
	return g.repo()
}

func (g *hgen) blobDigest(repo string) string {
	p := g.r.Intn(20)
	if bl := g.blobs[repo]; len(bl) > 0 && p < 16 {
		return g.pick(bl)
	}
	switch {
	case p < 18:
		return memsim.Sha(g.content())
	case p == 18:
		return "sha256:zz"
	}
	return memsim.Sha([]byte("nothing"))
}

func (g *hgen) manDigest(repo string) string {
	if ml := g.mans[repo]; len(ml) > 0 && g.r.Intn(20) < 16 {
		return ml[g.r.Intn(len(ml))].Digest
	}
	return memsim.Sha(g.content())
}

// manifest content: opaque bytes under an opaque media type, or an image manifest whose
// config / layers are (mostly) present in the repository
func (g *hgen) manifest(repo string) ([]byte, string) {
	switch p := g.r.Intn(10); {
	case p < 4:
		return g.content(), []string{"application/vnd.foo", "text/plain"}[g.r.Intn(2)]
	case p < 9:
		m := ocispec.Manifest{MediaType: ocispec.MediaTypeImageManifest}
		m.SchemaVersion = 2
		mk := func(media string) ocispec.Descriptor {
			if bl := g.blobs[repo]; len(bl) > 0 && g.r.Intn(8) != 0 {
				d := g.pick(bl)
				return ocispec.Descriptor{MediaType: media, Digest: ociregistry.Digest(d), Size: int64(len(g.data[d])) + 1}
			}
			c := g.content()
			return ocispec.Descriptor{MediaType: media, Digest: ociregistry.Digest(memsim.Sha(c)), Size: int64(len(c))}
		}
		m.Config = mk(ocispec.MediaTypeImageConfig)
		for i := g.r.Intn(3); i > 0; i-- {
			m.Layers = append(m.Layers, mk("application/layer"))
		}
		b, _ := json.Marshal(m)
		return b, ocispec.MediaTypeImageManifest
	default:
		return []byte(`{"layers": 5`), ocispec.MediaTypeImageManifest
	}
}

func split(r *rand.Rand, c []byte) [][]byte {
	if len(c) == 0 {
		if r.Intn(2) == 0 {
			return nil
		}
		return [][]byte{{}}
	}
	var out [][]byte
	for len(c) > 0 {
		var n int
		switch r.Intn(5) {
		case 0:
			n = 1
		case 1:
			n = len(c)
		case 2:
			n = 1 + r.Intn(len(c))
		case 3:
			n = 5000
		default:
			n = 1 + len(c)/2
		}
		if n > len(c) {
			n = len(c)
		}
		out = append(out, c[:n])
		c = c[n:]
	}
	return out
}

func (g *hgen) rangePair(n int64) (int64, int64) {
	grid0 := []int64{0, 1, n - 1, n, n + 1, -1, n / 2}
	grid1 := []int64{-1, 0, 1, n - 1, n, n + 1, n / 2, -2}
	o0, o1 := grid0[g.r.Intn(len(grid0))], grid1[g.r.Intn(len(grid1))]
	if g.r.Intn(5) == 0 {
		o0 = g.r.Int63n(n+3) - 1
		o1 = g.r.Int63n(n+4) - 2
	}
	return o0, o1
}

// next chooses the next operation.
func (g *hgen) next() memsim.Op {
	// read what a disagreeing push declared (mostly at once, sometimes with other operations between)
	if len(g.queue) > 0 && g.r.Intn(4) != 0 {
		o := g.queue[0]
		g.queue = g.queue[1:]
		return o
	}
	// advance a pending chunked upload
	if len(g.pending) > 0 && g.r.Intn(10) < 6 {
		i := g.r.Intn(len(g.pending))
		p := g.pending[i]
		if len(p.pieces) > 0 {
			piece := p.pieces[0]
			p.pieces = p.pieces[1:]
			return memsim.Op{Kind: "WWrite", W: p.w, Content: piece}
		}
		g.pending = append(g.pending[:i], g.pending[i+1:]...)
		d := memsim.Sha(p.all)
		if p.wrong > 0 {
			if wd, ok := wrongDigest(p.wrong-1, p.all); ok {
				d = wd
				g.queue = append(g.queue, blobFollowUps(g.r, p.repo, d, p.all)...)
			} else {
				p.wrong = 0
			}
		}
		return memsim.Op{Kind: "WCommit", W: p.w, Digest: d}
	}
	http := isHTTP(g.stack)
	repo := g.liveRepo()
	for {
		p := g.r.Intn(100)
		if len(g.ops) < 5 && g.r.Intn(3) != 0 {
			p = g.r.Intn(40)
		}
		switch {
		case p < 14:
			c := g.content()
			d := &memsim.Desc{Media: "application/octet-stream", Digest: memsim.Sha(c), Size: int64(len(c))}
			switch g.r.Intn(16) {
			case 0:
				d.Digest = memsim.Sha(g.content())
			case 1:
				d.Size++
			case 2:
				if d.Size > 0 {
					d.Size--
				}
			case 3:
				d.Digest = "sha256:beef"
			case 4:
				d.Media = "application/vnd.custom"
			case 5:
				if !http { // over HTTP the media type of a blob is not carried (C03)
					d.Media = ""
				}
			case 6:
				d.Digest = "sha512:" + strings.Repeat("ab", 64)
			}
			return memsim.Op{Kind: "PushBlob", Repo: repo, Desc: d, Content: c}
		case p < 22:
			return memsim.Op{Kind: "PushBlobChunked", Repo: repo, Hint: int64(g.r.Intn(2))}
		case p < 26:
			from := g.liveRepo()
			return memsim.Op{Kind: "MountBlob", From: from, Repo: repo, Digest: g.blobDigest(from)}
		case p < 34:
			c, media := g.manifest(repo)
			tag := ""
			if g.r.Intn(3) != 0 {
				tag = g.pick(g.tags)
			}
			return memsim.Op{Kind: "PushManifest", Repo: repo, Tag: tag, Content: c, Media: media}
		case p < 38:
			if !http {
				continue
			}
			c, media := g.manifest(repo)
			d := memsim.Sha(c)
			if g.r.Intn(3) == 0 {
				d = memsim.Sha(g.content())
			}
			if g.r.Intn(6) == 0 {
				media = ""
			}
			return memsim.Op{Kind: "XPutManifest", Repo: repo, Digest: d, Content: c, Media: media}
		case p < 41:
			if !http {
				continue
			}
			c := g.content()
			d := memsim.Sha(c)
			if g.r.Intn(3) == 0 {
				d = memsim.Sha(g.content())
			}
			return memsim.Op{Kind: "XPostBlob", Repo: repo, Digest: d, Content: c}
		case p < 51:
			return memsim.Op{Kind: "GetBlob", Repo: repo, Digest: g.blobDigest(repo)}
		case p < 68:
			d := g.blobDigest(repo)
			o0, o1 := g.rangePair(int64(len(g.data[d])))
			return memsim.Op{Kind: "GetBlobRange", Repo: repo, Digest: d, O0: o0, O1: o1}
		case p < 74:
			return memsim.Op{Kind: "GetManifest", Repo: repo, Digest: g.manDigest(repo)}
		case p < 80:
			t := g.pick(g.tags)
			if ts := g.tagged[repo]; len(ts) > 0 && g.r.Intn(4) != 0 {
				t = g.pick(ts)
			}
			return memsim.Op{Kind: "GetTag", Repo: repo, Tag: t}
		case p < 82:
			return memsim.Op{Kind: "ResolveBlob", Repo: repo, Digest: g.blobDigest(repo)}
		case p < 84:
			return memsim.Op{Kind: "ResolveManifest", Repo: repo, Digest: g.manDigest(repo)}
		case p < 86:
			return memsim.Op{Kind: "ResolveTag", Repo: repo, Tag: g.pick(g.tags)}
		case p < 90:
			return memsim.Op{Kind: "DeleteBlob", Repo: repo, Digest: g.blobDigest(repo)}
		case p < 93:
			return memsim.Op{Kind: "DeleteManifest", Repo: repo, Digest: g.manDigest(repo)}
		case p < 95:
			return memsim.Op{Kind: "DeleteTag", Repo: repo, Tag: g.pick(g.tags)}
		case p < 96:
			return memsim.Op{Kind: "Repositories"}
		case p < 97:
			return memsim.Op{Kind: "Tags", Repo: repo}
		default:
			// a GetBlob of something a rejected push declared
			return memsim.Op{Kind: "GetBlob", Repo: repo, Digest: memsim.Sha(g.content())}
		}
	}
}

func (g *hgen) apply(o memsim.Op) { g.applyR(o) }

// one upload in five is committed under a digest that is not its content's (disagree.go)
func (g *hgen) wrongKind() int {
	if g.r.Intn(5) != 0 {
		return 0
	}
	return 1 + g.r.Intn(nWrongDigests)
}

func (g *hgen) applyR(o memsim.Op) memsim.Result {
	g.ops = append(g.ops, o)
	var r memsim.Result
	switch o.Kind {
	case "XPutManifest", "XPostBlob":
		r = rawPush(g.st.url, o)
	default:
		r = g.ex.Run(o)
	}
	switch o.Kind {
	case "PushBlob":
		if r.Kind == "desc" {
			g.blobs[o.Repo] = append(g.blobs[o.Repo], r.Desc.Digest)
			g.data[r.Desc.Digest] = o.Content
		}
	case "XPostBlob":
		if r.Kind == "desc" {
			g.blobs[o.Repo] = append(g.blobs[o.Repo], o.Digest)
			g.data[o.Digest] = o.Content
		}
	case "MountBlob":
		if r.Kind == "desc" {
			g.blobs[o.Repo] = append(g.blobs[o.Repo], o.Digest)
		}
	case "PushManifest", "XPutManifest":
		if r.Kind == "desc" {
			g.mans[o.Repo] = append(g.mans[o.Repo], memsim.ManRef{Digest: memsim.Sha(o.Content), Media: o.Media, Size: int64(len(o.Content))})
			if o.Tag != "" {
				g.tagged[o.Repo] = append(g.tagged[o.Repo], o.Tag)
			}
		}
	case "PushBlobChunked":
		if r.Kind == "writer" {
			c := g.content()
			g.pending = append(g.pending, &pendingUpload{w: r.W, repo: o.Repo, pieces: split(g.r, c), all: c, wrong: g.wrongKind()})
		}
	}
	return r
}

func (g *hgen) reuseAfterCommit(w int, repo, dig string, n int) {
	switch g.r.Intn(4) {
	case 0, 1:
		g.apply(memsim.Op{Kind: "WCancel", W: w})
	case 2:
		g.apply(memsim.Op{Kind: "WClose", W: w})
	}
	id := g.ex.WriterCanonID(w)
	off := []int64{0, 0, -1, int64(n)}[g.r.Intn(4)]
	if r := g.applyR(memsim.Op{Kind: "PushBlobChunkedResume", Repo: repo, ID: id, Off: off}); r.Kind == "writer" {
		c := []byte("EVIL-EVIL-EVIL-EVIL-EVIL-EVIL-EVIL-EVIL-EVIL-EVIL-EVIL-EVIL-EVIL")
		if len(c) > n {
			c = c[:n]
		}
		g.apply(memsim.Op{Kind: "WWrite", W: r.W, Content: c})
	}
	g.apply(memsim.Op{Kind: "GetBlob", Repo: repo, Digest: dig})
	g.apply(memsim.Op{Kind: "GetBlobRange", Repo: repo, Digest: dig, O0: 0, O1: int64(n)})
}

func genHistory(r *rand.Rand, stack int, imm bool, big bool, length int) history {
	g := newHgen(r, stack, imm, big)
	defer g.st.Close()
	uploads := map[int]*pendingUpload{}
	for len(g.ops) < length || ((len(g.pending) > 0 || len(g.queue) > 0) && len(g.ops) < length+30) {
		o := g.next()
		before := len(g.pending)
		g.apply(o)
		if len(g.pending) > before {
			p := g.pending[len(g.pending)-1]
			uploads[p.w] = p
		}
		if o.Kind == "WCommit" {
			if p := uploads[o.W]; p != nil && p.wrong == 0 {
				d := memsim.Sha(p.all)
				g.blobs[p.repo] = append(g.blobs[p.repo], d)
				g.data[d] = p.all
				// The upload session used again after its commit (on ocimem itself; a session over HTTP is an
				// exchange, and ociunify's composite sessions are C15's business): cancelled or closed as the BlobWriter documentation's
				// "defer w.Cancel()" does, opened again by id, written to - whatever the registry makes
				// of that, the committed blob must keep serving the bytes that were committed.
				if stack == stMem && len(p.all) > 0 && g.r.Intn(2) == 0 {
					g.reuseAfterCommit(o.W, p.repo, d, len(p.all))
				}
			}
		}
	}
	return history{Stack: stack, Immutable: imm, Ops: g.ops}
}

func genHistories(out *hx.Out, rnd *rand.Rand, scale int) {
	// ocimem itself, full operation vocabulary (resume, cancel, listings, ...) from the shared generator
	for i := 0; i < 120*scale; i++ {
		imm := rnd.Intn(2) == 0
		g := memsim.NewGen(rnd, i%5 == 4)
		reg := ocimem.NewWithConfig(&ocimem.Config{ImmutableTags: imm})
		ex := memsim.NewExec(reg, true)
		length := 5 + rnd.Intn(36)
		var ops []memsim.Op
		for j := 0; j < length || (g.Pending() && j < length+8); j++ {
			o := g.Next()
			r := ex.Run(o)
			g.Update(o, r, ex)
			ops = append(ops, o)
		}
		runHistory(out, history{Stack: stMem, Immutable: imm, Ops: ops}, "random-full")
	}
	// every stack, the integrity-directed generator
	per := []int{90, 70, 25, 25, 25, 25, 25}
	for stack := 0; stack < nStacks; stack++ {
		for i := 0; i < per[stack]*scale; i++ {
			imm := rnd.Intn(4) == 0
			big := i%6 == 5
			length := 8 + rnd.Intn(30)
			runHistory(out, genHistory(rnd, stack, imm, big, length), "random")
		}
	}
}
