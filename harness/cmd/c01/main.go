// Harness for C01 (content integrity).
//
// Three families of cases (coq/Obs/C01.v):
//
//	CHist   operation histories on a registry stack: ocimem itself, ocimem behind
//	        ociclient->ociserver over an httptest loopback server (one or two hops, with
//	        ocidebug), behind ocifilter.Select / Sub, behind ociunify;
//	CRead   one read through ociclient against a fault-injecting http.RoundTripper that
//	        replaces the response of a real server (body bytes, how the body is cut into
//	        Read results, Content-Length, Docker-Content-Digest, Content-Range, status);
//	CBig    a content of 64 KiB .. tens of MiB pushed through one path on one stack and read back
//	        (identified by length and SHA-256; see big.go);
//	CFault  one read of a content the real registry holds, through one or two client hops, with a
//	        fault injected into the response body on the innermost hop (fault.go);
//	CRange  one ranged blob GET on the wire: the Range header the client sent for (o0, o1),
//	        or a hand-written one, and the status / Content-Range / Content-Length / body the
//	        server answered.
//
// Every reader a history or a scripted read obtains is drained in a way chosen per read
// (io.ReadAll, small buffers, io.Copy, a Read prefix and io.Copy, CopyN, zero-length Reads,
// the reader's optional interfaces ...): drain.go.
package main

import (
	"encoding/json"
	"fmt"
	"os"

	"verif/harness/hx"
)

type caseInput struct {
	Kind  string     `json:"kind"` // hist | read | range | big | fault
	Hist  *history   `json:"hist,omitempty"`
	Read  *readCase  `json:"read,omitempty"`
	Range *rangeCase `json:"range,omitempty"`
	Big   *bigCase   `json:"big,omitempty"`
	Fault *faultCase `json:"fault,omitempty"`
}

func runInput(out *hx.Out, in caseInput, origin string) {
	switch in.Kind {
	case "hist":
		if in.Hist != nil {
			runHistory(out, *in.Hist, origin)
		}
	case "read":
		if in.Read != nil {
			runRead(out, *in.Read, origin)
		}
	case "range":
		if in.Range != nil {
			runRange(out, *in.Range, origin)
		}
	case "big":
		if in.Big != nil {
			runBig(out, *in.Big, origin)
		}
	case "fault":
		if in.Fault != nil {
			runFault(out, *in.Fault, origin)
		}
	}
}

func main() {
	cfg := hx.ParseFlags()
	out := hx.NewOut(cfg, "Obs.C01")
	out.ShardMax = 40
	if cfg.Replay != "" {
		b, err := os.ReadFile(cfg.Replay)
		if err != nil {
			panic(err)
		}
		var r struct {
			Input caseInput `json:"input"`
		}
		if err := json.Unmarshal(b, &r); err != nil {
			panic(err)
		}
		runInput(out, r.Input, "replay")
		if err := out.Flush(); err != nil {
			panic(err)
		}
		return
	}
	for _, raw := range hx.LoadCorpus(cfg.Corpus) {
		var r struct {
			Input caseInput `json:"input"`
		}
		if json.Unmarshal(raw, &r) == nil && r.Input.Kind != "" {
			runInput(out, r.Input, "corpus")
		}
	}
	rnd := cfg.Rand()
	setDrainSeed(cfg.Seed)
	scale := 1
	if cfg.Thorough() {
		scale = 10
	}
	genHistories(out, rnd, scale)
	genDisagree(out, rnd, scale)
	genDrains(out, rnd, scale)
	genReads(out, rnd, scale)
	genFaults(out, rnd, scale)
	genRanges(out, rnd, scale)
	genBig(out, rnd, scale)
	out.Extra["note"] = fmt.Sprintf("tier=%s seed=%d", cfg.Tier, cfg.Seed)
	if err := out.Flush(); err != nil {
		panic(err)
	}
}
