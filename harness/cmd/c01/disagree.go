package main

// Pushes whose declared digest or size disagrees with their content.
//
// The property: such a push is rejected and leaves nothing retrievable under the declared
// digest.  A descriptor can disagree with the content in two independent ways and on every
// push path:
//
//	size     the content is LONGER than declared (by one byte, by many, declared 0) or SHORTER
//	         (by one, by many, empty content under a positive size);
//	digest   the declared digest is the hash of the declared-size PREFIX of the content, of
//	         the WHOLE content, of the content PADDED to the declared size, of other content,
//	         and each of those under any of the registered algorithms (sha256, sha384,
//	         sha512) - a registry that stores under sha256 cannot verify another algorithm,
//	         so a sha384 / sha512 digest is a disagreement even when it is the hash of the
//	         content;
//	paths    PushBlob (every stack), Commit of a chunked upload (every stack; only a digest is
//	         declared), single-POST blob upload and manifest PUT by digest sent raw to the
//	         outermost server (HTTP stacks; the size declared is the Content-Length, which
//	         net/http holds the body to).
//
// Every such push is followed by reads of the DECLARED digest and of the content's own
// SHA-256 in the same repository (GetBlob / GetBlobRange / GetManifest and the Resolve
// forms), so that hist_ok (Model/IntegritySpec.v: a clean read returns the content of an
// earlier ACCEPTED push into that repository under that digest) sees whatever the push left
// behind.  The random generator (hist.go) draws from the same classes inside long histories;
// genDisagree below enumerates class x stack in short histories on every run.

import (
	"crypto/sha512"
	"encoding/hex"
	"fmt"
	"math/rand"

	"verif/harness/hx"
	"verif/harness/memsim"
)

var algNames = []string{"sha256", "sha384", "sha512"}

// digestOf: digest.NewDigestFromBytes(alg, hash(b)) for the three registered algorithms.
func digestOf(alg string, b []byte) string {
	switch alg {
	case "sha384":
		h := sha512.Sum384(b)
		return "sha384:" + hex.EncodeToString(h[:])
	case "sha512":
		h := sha512.Sum512(b)
		return "sha512:" + hex.EncodeToString(h[:])
	}
	return memsim.Sha(b)
}

func cat(a []byte, b ...byte) []byte { return append(append([]byte{}, a...), b...) }

// how the declared size relates to the content
const (
	szRight = iota
	szDeclaredLessBy1
	szDeclaredHalf
	szDeclaredOne
	szDeclaredZero
	szDeclaredMoreBy1
	szDeclaredMoreByMany
	szDeclaredDouble
	nSizeClasses
)

var sizeClassNames = []string{"size-right", "declared-less-by-1", "declared-half", "declared-1", "declared-0",
	"declared-more-by-1", "declared-more-by-many", "declared-double"}

// what the declared digest is the hash of
const (
	dgPrefixOrPadded = iota // the first <declared size> bytes of the content, zero-padded when it is shorter
	dgWhole
	dgOther
	nDigestBases
)

var digestBaseNames = []string{"digest-of-declared-size-bytes", "digest-of-whole", "digest-of-other"}

func declaredSize(class int, n int) int64 {
	switch class {
	case szDeclaredLessBy1:
		return int64(n - 1)
	case szDeclaredHalf:
		return int64(n / 2)
	case szDeclaredOne:
		return 1
	case szDeclaredZero:
		return 0
	case szDeclaredMoreBy1:
		return int64(n + 1)
	case szDeclaredMoreByMany:
		return int64(n + 4097)
	case szDeclaredDouble:
		return int64(2*n + 2)
	}
	return int64(n)
}

// disagreeing builds the descriptor (size, digest) of the given classes for content c.  ok is
// false when the combination does not disagree with c (or does not exist for this length).
func disagreeing(c []byte, sizeClass, base int, alg string) (size int64, dg string, ok bool) {
	n := len(c)
	size = declaredSize(sizeClass, n)
	if size < 0 || (sizeClass != szRight && size == int64(n)) {
		return 0, "", false
	}
	var of []byte
	switch base {
	case dgPrefixOrPadded:
		if size <= int64(n) {
			of = c[:size]
		} else {
			of = cat(c, make([]byte, size-int64(n))...)
		}
	case dgWhole:
		of = c
	default:
		of = cat([]byte("other:"), c...)
	}
	dg = digestOf(alg, of)
	if size == int64(n) && dg == memsim.Sha(c) {
		return 0, "", false // this descriptor describes the content
	}
	return size, dg, true
}

// followUps: reads of what a refused blob push declared, and of the content's own digest.
func blobFollowUps(r *rand.Rand, repo, declared string, c []byte) []memsim.Op {
	ops := []memsim.Op{{Kind: "GetBlob", Repo: repo, Digest: declared}}
	switch r.Intn(4) {
	case 0:
		ops = append(ops, memsim.Op{Kind: "ResolveBlob", Repo: repo, Digest: declared})
	case 1:
		ops = append(ops, memsim.Op{Kind: "GetBlobRange", Repo: repo, Digest: declared, O0: 0, O1: -1})
	case 2:
		ops = append(ops, memsim.Op{Kind: "GetBlobRange", Repo: repo, Digest: declared, O0: 0, O1: int64(len(c))})
	}
	if own := memsim.Sha(c); own != declared && r.Intn(2) == 0 {
		ops = append(ops, memsim.Op{Kind: "GetBlob", Repo: repo, Digest: own})
	}
	return ops
}

func manifestFollowUps(r *rand.Rand, repo, declared string, c []byte) []memsim.Op {
	ops := []memsim.Op{{Kind: "GetManifest", Repo: repo, Digest: declared}}
	if r.Intn(3) == 0 {
		ops = append(ops, memsim.Op{Kind: "ResolveManifest", Repo: repo, Digest: declared})
	}
	if own := memsim.Sha(c); own != declared && r.Intn(3) != 0 {
		ops = append(ops, memsim.Op{Kind: "GetManifest", Repo: repo, Digest: own})
	}
	return ops
}

// wrongDigest: a digest that a push of content c must not be accepted under; kind picks the
// class (see wrongDigestNames).
const nWrongDigests = 9

var wrongDigestNames = []string{"sha256-of-other", "sha512-of-content", "sha384-of-content", "sha512-of-other",
	"sha384-of-other", "sha256-of-prefix", "sha256-of-extension", "sha512-of-prefix", "sha256-of-empty"}

func wrongDigest(kind int, c []byte) (string, bool) {
	other := cat([]byte("x"), c...)
	switch kind {
	case 0:
		return memsim.Sha(other), true
	case 1:
		return digestOf("sha512", c), true
	case 2:
		return digestOf("sha384", c), true
	case 3:
		return digestOf("sha512", other), true
	case 4:
		return digestOf("sha384", other), true
	case 5:
		if len(c) == 0 {
			return "", false
		}
		return memsim.Sha(c[:len(c)-1]), true
	case 6:
		return memsim.Sha(cat(c, 0)), true
	case 7:
		if len(c) == 0 {
			return "", false
		}
		return digestOf("sha512", c[:len(c)/2]), true
	default:
		if len(c) == 0 {
			return "", false
		}
		return memsim.Sha(nil), true
	}
}

// genDisagree: one short history per (stack, path, class).  Each pushes something valid first
// (the repository exists and holds other content), makes the disagreeing push, reads what it
// declared, then pushes the content properly and reads it back (the refusal must not have
// poisoned the digest either).
func genDisagree(out *hx.Out, rnd *rand.Rand, scale int) {
	contents := [][]byte{[]byte("hello world"), []byte("a"), {0, 0}, []byte("h\xc3\xa9llo\xe2\x82"), randBytes(rnd, 300+rnd.Intn(300))}
	const repo = "r1"
	octet := "application/octet-stream"
	valid := func(c []byte) memsim.Op {
		return memsim.Op{Kind: "PushBlob", Repo: repo, Desc: &memsim.Desc{Media: octet, Digest: memsim.Sha(c), Size: int64(len(c))}, Content: c}
	}
	emit := func(stack int, ops []memsim.Op, path, class string) {
		runHistory(out, history{Stack: stack, Immutable: false, Ops: ops}, "disagree")
		out.Count("disagree:" + path + ":" + class)
	}
	for round := 0; round < scale; round++ {
		for stack := 0; stack < nStacks; stack++ {
			pick := func() []byte { return contents[rnd.Intn(len(contents))] }
			// PushBlob: size class x digest base, the algorithm drawn
			for sc := 0; sc < nSizeClasses; sc++ {
				for base := 0; base < nDigestBases; base++ {
					c := pick()
					alg := algNames[0]
					if sc == szRight || rnd.Intn(4) == 0 {
						alg = algNames[rnd.Intn(3)]
					}
					size, dg, ok := disagreeing(c, sc, base, alg)
					if !ok {
						c = contents[0]
						if size, dg, ok = disagreeing(c, sc, base, "sha512"); !ok {
							continue
						}
					}
					// the content arrives as a reader of known length (bytes.Reader) or of unknown length;
					// the self-consistent prefix (content longer than the declared size, digest of the
					// declared prefix: what a transport that stops at Content-Length delivers) both ways
					for _, opaque := range []bool{false, true} {
						if base != dgPrefixOrPadded && opaque != ((sc+base+stack+round)%2 == 0) {
							continue
						}
						ops := []memsim.Op{valid([]byte("present"))}
						ops = append(ops, memsim.Op{Kind: "PushBlob", Repo: repo, Desc: &memsim.Desc{Media: octet, Digest: dg, Size: size}, Content: c, Opaque: opaque})
						ops = append(ops, blobFollowUps(rnd, repo, dg, c)...)
						ops = append(ops, valid(c), memsim.Op{Kind: "GetBlob", Repo: repo, Digest: memsim.Sha(c)})
						emit(stack, ops, "PushBlob", sizeClassNames[sc]+"/"+digestBaseNames[base]+"/"+alg[:6])
						if opaque {
							out.Count("disagree:PushBlob:reader-of-unknown-length")
						}
					}
				}
			}
			// Commit, single POST, manifest PUT by digest: wrong-digest classes
			for k := 0; k < nWrongDigests; k++ {
				c := pick()
				if dg, ok := wrongDigest(k, c); ok {
					ops := []memsim.Op{valid([]byte("present")), {Kind: "PushBlobChunked", Repo: repo}}
					// the writer's index is the executor's: first writer of the history
					for _, piece := range split(rnd, c) {
						ops = append(ops, memsim.Op{Kind: "WWrite", W: 0, Content: piece})
					}
					ops = append(ops, memsim.Op{Kind: "WCommit", W: 0, Digest: dg})
					ops = append(ops, blobFollowUps(rnd, repo, dg, c)...)
					ops = append(ops, memsim.Op{Kind: "GetBlob", Repo: repo, Digest: memsim.Sha(c)})
					emit(stack, ops, "Commit", wrongDigestNames[k])
				}
				if !isHTTP(stack) {
					continue
				}
				c = pick()
				if dg, ok := wrongDigest(k, c); ok {
					ops := []memsim.Op{valid([]byte("present")), {Kind: "XPostBlob", Repo: repo, Digest: dg, Content: c}}
					ops = append(ops, blobFollowUps(rnd, repo, dg, c)...)
					ops = append(ops, memsim.Op{Kind: "XPostBlob", Repo: repo, Digest: memsim.Sha(c), Content: c},
						memsim.Op{Kind: "GetBlob", Repo: repo, Digest: memsim.Sha(c)})
					emit(stack, ops, "single-POST", wrongDigestNames[k])
				}
				c = []byte(fmt.Sprintf(`{"k": %d, "pad": "%x"}`, k, pick()))
				media := []string{"application/vnd.foo", "", "application/vnd.oci.image.manifest.v1+json"}[rnd.Intn(3)]
				if dg, ok := wrongDigest(k, c); ok {
					ops := []memsim.Op{valid([]byte("present")), {Kind: "XPutManifest", Repo: repo, Digest: dg, Content: c, Media: media}}
					ops = append(ops, manifestFollowUps(rnd, repo, dg, c)...)
					ops = append(ops, memsim.Op{Kind: "XPutManifest", Repo: repo, Digest: memsim.Sha(c), Content: c, Media: media},
						memsim.Op{Kind: "GetManifest", Repo: repo, Digest: memsim.Sha(c)})
					emit(stack, ops, "manifest-PUT", wrongDigestNames[k])
				}
			}
		}
	}
}
