package main

// CFault: a fault between the hops.
//
// The scripted reads (read.go) put a fault-injecting RoundTripper in front of ONE client and
// answer with a response the harness wrote itself; the two-hop stack of the histories has no
// fault anywhere.  Here the registry is the real one (ocimem behind ociserver over an httptest
// loopback server), the headers of the response are the real server's, and the fault is applied
// to the body of the GET response on the innermost hop:
//
//	hops 1:  ociclient -> [fault] -> ociserver -> ocimem
//	hops 2:  ociclient -> ociserver -> ociclient -> [fault] -> ociserver -> ocimem
//
// so that with two hops the proxying ociserver sees its backend reader fail (or deliver the
// wrong bytes) after the status line, the Content-Length and the first bytes have gone out.
//
// A body that ends before its Content-Length is reported the way net/http reports it
// (io.ErrUnexpectedEOF), with another error, or - only where a real transport stands between
// the reader and the consumer that would notice - with a clean io.EOF.

import (
	"context"
	"fmt"
	"io"
	"math/rand"
	"net/http"
	"net/http/httptest"

	"cuelabs.dev/go/oci/ociregistry"
	"cuelabs.dev/go/oci/ociregistry/ocimem"
	"cuelabs.dev/go/oci/ociregistry/ociserver"
	"verif/harness/hx"
	"verif/harness/memsim"
)

const (
	fNone        = iota
	fCutUEOF     // the body ends At bytes early with io.ErrUnexpectedEOF
	fCutInjected // ... with another error
	fCutEOF      // ... with a clean io.EOF (a transport that does not count)
	fKeepUEOF    // the body ends after At bytes with io.ErrUnexpectedEOF
	fPad         // At more bytes after the body
	fFlip        // the byte at At (mod length) changed; same length
	fOther       // other bytes of the same length
	nFaultKinds
)

var faultNames = []string{"none", "cut-unexpected-eof", "cut-injected-error", "cut-clean-eof", "keep-unexpected-eof", "pad", "flip", "other-bytes"}

type faultCase struct {
	Hops    int    `json:"hops"`
	Kind    int    `json:"kind"` // 0 GetBlob, 1 GetManifest, 2 GetTag, 3 GetBlobRange
	O0      int64  `json:"o0,omitempty"`
	O1      int64  `json:"o1,omitempty"`
	Content []byte `json:"content"`
	Fault   int    `json:"fault"`
	At      int64  `json:"at,omitempty"`
	// Together: the error of a cut comes with the last bytes (n > 0, err), not on a Read of its own
	Together bool       `json:"together,omitempty"`
	Drain    *drainSpec `json:"drain,omitempty"`
}

// faultBody applies the fault to the stream it wraps.
type faultBody struct {
	under io.ReadCloser
	fc    *faultCase
	limit int64 // bytes of the original to let through; < 0: all
	end   error // how the stream ends after limit bytes
	seen  int64
	tail  []byte // appended after the original ended
	done  bool
}

func (b *faultBody) Close() error { return b.under.Close() }

func (b *faultBody) Read(p []byte) (int, error) {
	if b.done {
		if len(b.tail) > 0 {
			n := copy(p, b.tail)
			b.tail = b.tail[n:]
			return n, nil
		}
		return 0, b.end
	}
	if len(p) == 0 {
		return 0, nil
	}
	if b.limit >= 0 {
		if b.seen >= b.limit {
			b.done = true
			return 0, b.end
		}
		if int64(len(p)) > b.limit-b.seen {
			p = p[:b.limit-b.seen]
		}
	}
	n, err := b.under.Read(p)
	for i := 0; i < n; i++ {
		switch b.fc.Fault {
		case fFlip:
			if b.seen+int64(i) == b.fc.At {
				p[i] ^= 0x41
			}
		case fOther:
			p[i] = byte(b.seen+int64(i))*7 + 3 ^ p[i]>>1
		}
	}
	b.seen += int64(n)
	if b.limit >= 0 && b.seen >= b.limit {
		b.done = true
		if b.fc.Together {
			return n, b.end
		}
		return n, nil
	}
	if err == io.EOF {
		b.done = true
		if len(b.tail) > 0 {
			return n, nil
		}
		b.end = io.EOF
		if n > 0 && !b.fc.Together {
			return n, nil
		}
		return n, io.EOF
	}
	return n, err
}

type faultTransport struct {
	fc *faultCase
}

func (t *faultTransport) RoundTrip(req *http.Request) (*http.Response, error) {
	resp, err := http.DefaultTransport.RoundTrip(req)
	if err != nil || req.Method != "GET" || resp.StatusCode/100 != 2 || t.fc.Fault == fNone {
		return resp, err
	}
	n := resp.ContentLength
	fb := &faultBody{under: resp.Body, fc: t.fc, limit: -1, end: io.EOF}
	at := t.fc.At
	switch t.fc.Fault {
	case fCutUEOF, fCutInjected, fCutEOF:
		if n >= 0 {
			fb.limit = n - at
			if fb.limit < 0 {
				fb.limit = 0
			}
		}
		fb.end = map[int]error{fCutUEOF: io.ErrUnexpectedEOF, fCutInjected: errInjected, fCutEOF: io.EOF}[t.fc.Fault]
	case fKeepUEOF:
		fb.limit = at
		if n >= 0 && fb.limit >= n {
			fb.limit = -1
		}
		fb.end = io.ErrUnexpectedEOF
	case fPad:
		fb.tail = make([]byte, at)
		for i := range fb.tail {
			fb.tail[i] = byte('a' + i%26)
		}
	case fFlip:
		if n > 0 {
			t.fc.At = ((at % n) + n) % n
		}
	}
	resp.Body = fb
	return resp, nil
}

func runFault(out *hx.Out, fc faultCase, origin string) {
	if fc.Hops != 2 {
		fc.Hops = 1
	}
	if fc.Fault < 0 || fc.Fault >= nFaultKinds {
		fc.Fault = fNone
	}
	in := fc // the replay input, before the transport normalises At
	const repo, tag = "foo/bar", "sometag"
	ctx := context.Background()
	mem := ocimem.New()
	dig := memsim.Sha(fc.Content)
	media := "application/octet-stream"
	if fc.Kind == 1 || fc.Kind == 2 {
		media = "application/vnd.foo"
		if _, err := mem.PushManifest(ctx, repo, tag, fc.Content, media); err != nil {
			panic(err)
		}
	} else {
		if _, err := mem.PushBlob(ctx, repo, ociregistry.Descriptor{MediaType: media, Digest: ociregistry.Digest(dig), Size: int64(len(fc.Content))},
			&plainReader{b: fc.Content}); err != nil {
			panic(err)
		}
	}
	up := httptest.NewServer(ociserver.New(mem, nil))
	defer up.Close()
	tr := &faultTransport{fc: &fc}
	reg := clientFor(up.URL, tr)
	if fc.Hops == 2 {
		proxy := httptest.NewServer(ociserver.New(reg, nil))
		defer proxy.Close()
		otr := &http.Transport{}
		defer otr.CloseIdleConnections()
		reg = clientFor(proxy.URL, otr)
	}
	var rd ociregistry.BlobReader
	var oerr error
	panicked, pv := hx.Recover(func() {
		switch fc.Kind {
		case 0:
			rd, oerr = reg.GetBlob(ctx, repo, ociregistry.Digest(dig))
		case 1:
			rd, oerr = reg.GetManifest(ctx, repo, ociregistry.Digest(dig))
		case 2:
			rd, oerr = reg.GetTag(ctx, repo, tag)
		default:
			rd, oerr = reg.GetBlobRange(ctx, repo, ociregistry.Digest(dig), fc.O0, fc.O1)
		}
	})
	obs := ""
	desc := map[string]any{}
	var data []byte
	var rerr error
	switch {
	case panicked:
		obs = "ROpenPanic"
		desc["outcome"] = "panic: " + pv
	case oerr != nil:
		obs = "ROpenErr"
		desc["outcome"] = "open error: " + oerr.Error()
	default:
		var d ociregistry.Descriptor
		p2, pv2 := hx.Recover(func() {
			d = rd.Descriptor()
			var ds drainSpec
			if fc.Drain != nil {
				ds = *fc.Drain
			}
			data, rerr = drainReader(rd, ds)
			rd.Close()
		})
		if p2 {
			obs = "ROpenPanic"
			desc["outcome"] = "panic while reading: " + pv2
		} else {
			obs = fmt.Sprintf("RDone %s %s %s", coqDescOf(d), hx.BB(data), hx.Bool(rerr == nil))
			desc["outcome"] = map[string]any{"desc": d, "read": len(data), "clean": rerr == nil, "err": fmt.Sprint(rerr)}
		}
	}
	kind := fc.Kind
	if kind < 0 || kind > 3 {
		kind = 3
	}
	coq := fmt.Sprintf("CFault %d %d %s %s %s %s %d %s %s (%s)", fc.Hops, kind, hx.Z(fc.O0), hx.Z(fc.O1), hx.B(dig), hx.BB(fc.Content),
		fc.Fault, hx.Z(in.At), hx.Bool(fc.Together), obs)
	desc["input"] = caseInput{Kind: "fault", Fault: &in}
	desc["origin"] = origin
	class := fmt.Sprintf("fault-%s-hops%d", faultNames[fc.Fault], fc.Hops)
	if out.Add(hx.Case{Coq: coq, Desc: desc, Tags: map[string]any{"class": class, "kind": kind}}) {
		out.Count(fmt.Sprintf("fault:hops:%d", fc.Hops))
		out.Count(fmt.Sprintf("fault:kind:%d", kind))
		out.Count("fault:class:" + faultNames[fc.Fault])
		switch {
		case obs == "ROpenErr":
			out.Count("fault:outcome:open-error")
		case obs == "ROpenPanic":
			out.Count("fault:outcome:panic")
		case rerr == nil:
			out.Count("fault:outcome:clean")
		default:
			out.Count("fault:outcome:read-error")
		}
	}
}

type plainReader struct {
	b []byte
}

func (p *plainReader) Read(q []byte) (int, error) {
	if len(p.b) == 0 {
		return 0, io.EOF
	}
	n := copy(q, p.b)
	p.b = p.b[n:]
	return n, nil
}

// faultAllowed: the classes that a consumer behind a REAL transport cannot be handed.  With one
// hop the fault-injecting RoundTripper is itself the transport of the client under test, and a
// range reader has nothing but the transport's count to go by: a body that ends early with a
// clean io.EOF, or carries more than its Content-Length, is something net/http never delivers.
// Bytes changed in place cannot be noticed by any range read (there is no digest of a slice).
func faultAllowed(hops, kind int, o0, o1 int64, fault int) bool {
	rng := kind == 3 && !(o0 == 0 && o1 < 0)
	if !rng {
		return true
	}
	switch fault {
	case fFlip, fOther:
		return false
	case fCutEOF, fPad:
		return hops == 2
	}
	return true
}

func genFaults(out *hx.Out, rnd *rand.Rand, scale int) {
	manifest := []byte(`{"schemaVersion":2,"mediaType":"application/vnd.foo","note":"` + string(hexOf(randBytes(rnd, 150))) + `"}`)
	blob := randBytes(rnd, 300+rnd.Intn(40))
	small := [][]byte{[]byte("a"), []byte("hello world"), randBytes(rnd, 61)}
	run := func(fc faultCase) {
		if !faultAllowed(fc.Hops, fc.Kind, fc.O0, fc.O1, fc.Fault) {
			return
		}
		ds := randDrainSpec(drainSeeds)
		fc.Drain = &ds
		runFault(out, fc, "fault")
	}
	contentFor := func(kind int) []byte {
		if kind == 1 || kind == 2 {
			return manifest
		}
		return blob
	}
	// the sweep: a range read of (nearly) the whole blob, cut short by every amount 1..200 on the
	// inner hop of the two-hop stack (what the proxying server writes after its backend reader
	// failed must not complete the announced length), every 7th amount with one hop
	for cut := int64(1); cut <= 200; cut++ {
		tog := cut%2 == 0
		run(faultCase{Hops: 2, Kind: 3, O0: 1, O1: int64(len(blob)), Content: blob, Fault: fCutUEOF, At: cut, Together: tog})
		if cut%7 == 0 {
			run(faultCase{Hops: 1, Kind: 3, O0: 1, O1: int64(len(blob)), Content: blob, Fault: fCutUEOF, At: cut, Together: tog})
		}
		if cut%2 == 1 || scale > 1 {
			run(faultCase{Hops: 2, Kind: 3, O0: 2, O1: -1, Content: blob, Fault: fCutInjected, At: cut, Together: cut%4 == 1})
		}
		if cut%5 == 3 || scale > 1 {
			k := int(cut) % 3 // whole reads: the outer client verifies, the tail must not pass
			run(faultCase{Hops: 2, Kind: k, Content: contentFor(k), Fault: []int{fCutUEOF, fCutInjected}[int(cut/5)%2], At: cut, Together: tog})
		}
	}
	// every class x read kind x hops, on a few cut points
	for hops := 1; hops <= 2; hops++ {
		for kind := 0; kind <= 4; kind++ {
			for fault := 0; fault < nFaultKinds; fault++ {
				for rep := 0; rep < 2*scale; rep++ {
					c := contentFor(kind)
					if rnd.Intn(3) == 0 && kind != 1 && kind != 2 {
						c = small[rnd.Intn(len(small))]
					}
					n := int64(len(c))
					fc := faultCase{Hops: hops, Kind: kind, Content: c, Fault: fault, Together: rnd.Intn(2) == 0}
					fc.At = []int64{1, 2, n / 2, n - 1, n, 58, 1 + rnd.Int63n(n)}[rnd.Intn(7)]
					switch kind {
					case 3:
						fc.O0 = rnd.Int63n(n)
						fc.O1 = fc.O0 + 1 + rnd.Int63n(n-fc.O0+1)
						if rnd.Intn(4) == 0 {
							fc.O1 = -1
						}
					case 4: // the whole-blob form of the range API
						fc.Kind = 3
						fc.O0, fc.O1 = 0, []int64{-1, -2, -1 << 62}[rnd.Intn(3)]
					}
					run(fc)
				}
			}
		}
	}
}

func hexOf(b []byte) []byte {
	const digits = "0123456789abcdef"
	out := make([]byte, 0, 2*len(b))
	for _, x := range b {
		out = append(out, digits[x>>4], digits[x&15])
	}
	return out
}
