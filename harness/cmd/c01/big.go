package main

// CBig cases: contents of sizes no case file could carry (64 KiB .. tens of MiB: around the
// client's chunk size, its in-memory threshold for manifests, and the sizes at which a body
// limit or a buffer could cut something off), pushed through every path on the HTTP and the
// direct stacks and read back.  The content is identified by (length, SHA-256); every read by
// the SHA-256 and length of what it delivered against the SHA-256 and length of what it should
// deliver (the whole content, or the slice a range read names).

import (
	"bytes"
	"context"
	"crypto/sha256"
	"encoding/hex"
	"fmt"
	"io"
	"math/rand"

	"cuelabs.dev/go/oci/ociregistry"
	"verif/harness/hx"
)

const (
	bpPushBlob = iota
	bpChunked
	bpManifestTag
	bpManifestDigest
	nBigPaths
)

var bigPathNames = []string{"PushBlob", "chunked", "PushManifest-by-tag", "PushManifest-by-digest"}

type bigCase struct {
	Stack int   `json:"stack"`
	Path  int   `json:"path"`
	Len   int64 `json:"len"`
	Seed  int64 `json:"seed"`
}

type bigRead struct {
	What    string `json:"what"`
	OK      bool   `json:"ok"`
	DDigest string `json:"desc_digest"`
	DSize   int64  `json:"desc_size"`
	Want    string `json:"want_sha256"`
	WantLen int64  `json:"want_len"`
	Got     string `json:"got_sha256"`
	GotLen  int64  `json:"got_len"`
	Err     string `json:"err,omitempty"`
}

// bigContent: n bytes that never repeat with a short period (a truncation, a shifted offset
// or a dropped chunk changes the hash) and do not parse as JSON.
func bigContent(n int64, seed int64) []byte {
	b := make([]byte, n)
	x := uint64(seed)*2654435761 + 88172645463325252
	for i := range b {
		if i%8 == 0 {
			x ^= x << 13
			x ^= x >> 7
			x ^= x << 17
		}
		b[i] = byte(x >> (8 * uint(i%8)))
	}
	return b
}

func shaHex(b []byte) string {
	h := sha256.Sum256(b)
	return "sha256:" + hex.EncodeToString(h[:])
}

func readAllCount(r io.Reader) (sha string, n int64, err error) {
	h := sha256.New()
	n, err = io.Copy(h, r)
	return "sha256:" + hex.EncodeToString(h.Sum(nil)), n, err
}

func runBig(out *hx.Out, bc bigCase, origin string) {
	s := newStack(bc.Stack, false)
	defer s.Close()
	ctx := context.Background()
	repo, tag := "big/repo", "t"
	content := bigContent(bc.Len, bc.Seed)
	dg := shaHex(content)
	n := int64(len(content))
	isBlob := bc.Path == bpPushBlob || bc.Path == bpChunked
	var perr error
	panicked, pv := hx.Recover(func() {
		switch bc.Path {
		case bpPushBlob:
			_, perr = s.reg.PushBlob(ctx, repo, ociregistry.Descriptor{MediaType: "application/octet-stream", Digest: ociregistry.Digest(dg), Size: n}, bytes.NewReader(content))
		case bpChunked:
			var w ociregistry.BlobWriter
			w, perr = s.reg.PushBlobChunked(ctx, repo, 0)
			if perr != nil {
				return
			}
			// writes of uneven sizes around the chunk size
			r := rand.New(rand.NewSource(bc.Seed))
			rest := content
			for len(rest) > 0 && perr == nil {
				k := []int{1, 4096, 65535, 65536, 65537, 1 << 20, 3<<20 + 1}[r.Intn(7)]
				if k > len(rest) {
					k = len(rest)
				}
				_, perr = w.Write(rest[:k])
				rest = rest[k:]
			}
			if perr == nil {
				_, perr = w.Commit(ociregistry.Digest(dg))
			} else {
				w.Close()
			}
		case bpManifestTag:
			buf := append([]byte(nil), content...)
			_, perr = s.reg.PushManifest(ctx, repo, tag, buf, "application/vnd.verif.opaque")
			clear(buf) // the caller owns its buffer again
		case bpManifestDigest:
			buf := append([]byte(nil), content...)
			_, perr = s.reg.PushManifest(ctx, repo, "", buf, "application/vnd.verif.opaque")
			clear(buf)
		}
	})
	if panicked {
		perr = fmt.Errorf("panic: %s", pv)
	}
	var reads []bigRead
	rd := func(what string, want []byte, get func() (ociregistry.BlobReader, error)) {
		br := bigRead{What: what, Want: shaHex(want), WantLen: int64(len(want))}
		p, pv := hx.Recover(func() {
			r, err := get()
			if err != nil {
				br.Err = err.Error()
				return
			}
			defer r.Close()
			d := r.Descriptor()
			br.DDigest, br.DSize = string(d.Digest), d.Size
			sha, k, err := readAllCount(r)
			br.Got, br.GotLen = sha, k
			if err != nil {
				br.Err = err.Error()
				return
			}
			br.OK = true
		})
		if p {
			br.Err = "panic: " + pv
		}
		reads = append(reads, br)
	}
	rs := func(what string, get func() (ociregistry.Descriptor, error)) {
		br := bigRead{What: what, Want: dg, WantLen: n, Got: dg, GotLen: n}
		p, pv := hx.Recover(func() {
			d, err := get()
			if err != nil {
				br.Err = err.Error()
				return
			}
			br.DDigest, br.DSize, br.OK = string(d.Digest), d.Size, true
		})
		if p {
			br.Err = "panic: " + pv
		}
		reads = append(reads, br)
	}
	D := ociregistry.Digest(dg)
	if isBlob {
		rd("GetBlob", content, func() (ociregistry.BlobReader, error) { return s.reg.GetBlob(ctx, repo, D) })
		rs("ResolveBlob", func() (ociregistry.Descriptor, error) { return s.reg.ResolveBlob(ctx, repo, D) })
		for _, pr := range [][2]int64{{0, 1}, {n - 1, n}, {1, -1}, {65535, 65537}, {n / 2, n/2 + 70000}, {0, n}} {
			o0, o1 := pr[0], pr[1]
			if o0 < 0 || o0 >= n {
				continue
			}
			e := o1
			if e < 0 || e > n {
				e = n
			}
			if e <= o0 {
				continue
			}
			rd(fmt.Sprintf("GetBlobRange(%d,%d)", o0, o1), content[o0:e], func() (ociregistry.BlobReader, error) { return s.reg.GetBlobRange(ctx, repo, D, o0, o1) })
		}
	} else {
		rd("GetManifest", content, func() (ociregistry.BlobReader, error) { return s.reg.GetManifest(ctx, repo, D) })
		rs("ResolveManifest", func() (ociregistry.Descriptor, error) { return s.reg.ResolveManifest(ctx, repo, D) })
		if bc.Path == bpManifestTag {
			rd("GetTag", content, func() (ociregistry.BlobReader, error) { return s.reg.GetTag(ctx, repo, tag) })
			rs("ResolveTag", func() (ociregistry.Descriptor, error) { return s.reg.ResolveTag(ctx, repo, tag) })
		}
	}
	var rcoq []string
	for _, r := range reads {
		rcoq = append(rcoq, fmt.Sprintf("{| br_ok := %s; br_ddigest := %s; br_dsize := %s; br_want := %s; br_wantlen := %s; br_got := %s; br_gotlen := %s |}",
			hx.Bool(r.OK), hx.B(r.DDigest), hx.Z(r.DSize), hx.B(r.Want), hx.Z(r.WantLen), hx.B(r.Got), hx.Z(r.GotLen)))
	}
	coq := fmt.Sprintf("CBig %d %d %s %s %s %s", bc.Stack, bc.Path, hx.Z(n), hx.B(dg), hx.Bool(perr == nil), hx.List(rcoq))
	pe := ""
	if perr != nil {
		pe = perr.Error()
	}
	if out.Add(hx.Case{Coq: coq,
		Desc: map[string]any{"input": caseInput{Kind: "big", Big: &bc}, "pushed_sha256": dg, "push_error": pe, "reads": reads, "origin": origin},
		Tags: map[string]any{"class": "big-" + bigPathNames[bc.Path] + "-" + stackNames[bc.Stack], "stack": stackNames[bc.Stack]}}) {
		out.Count("big:stack:" + stackNames[bc.Stack])
		out.Count("big:path:" + bigPathNames[bc.Path])
		out.Count("big:len:" + bigLenClass(n))
	}
}

func genBig(out *hx.Out, rnd *rand.Rand, scale int) {
	// every path on the direct, one-hop and two-hop stacks at the sizes around the client's chunk
	// size (64 KiB) and in-memory threshold (128 KiB); the larger sizes on fewer combinations
	small := []int64{65535, 65536, 65537, 131071, 131072, 131073}
	large := []int64{1<<20 + 1, 4<<20 - 1, 4 << 20, 4<<20 + 1, 5<<20 + 123, 8<<20 + 1, 16<<20 + 1}
	if scale > 1 {
		large = append(large, 32<<20+1, 64<<20+7)
	}
	seed := int64(0)
	for _, st := range []int{stMem, stHTTP, stTwoHops} {
		for p := 0; p < nBigPaths; p++ {
			for _, n := range small {
				seed++
				runBig(out, bigCase{Stack: st, Path: p, Len: n, Seed: seed}, "big-grid")
			}
		}
	}
	for _, st := range []int{stHTTP, stHTTPDbg, stTwoHops, stUnify} {
		for p := 0; p < nBigPaths; p++ {
			for _, n := range large {
				if st != stHTTP && rnd.Intn(3) != 0 {
					continue
				}
				seed++
				runBig(out, bigCase{Stack: st, Path: p, Len: n, Seed: seed}, "big-grid")
			}
		}
	}
	for i := 0; i < 6*scale; i++ {
		seed++
		n := int64(60000) + rnd.Int63n(6<<20)
		runBig(out, bigCase{Stack: []int{stMem, stHTTP, stHTTPDbg, stSelect, stSub, stUnify, stTwoHops}[rnd.Intn(7)], Path: rnd.Intn(nBigPaths), Len: n, Seed: seed}, "big-random")
	}
}

func bigLenClass(n int64) string {
	switch {
	case n < 65536:
		return "<64KiB"
	case n <= 131073:
		return "64KiB-128KiB+1"
	case n < 4<<20:
		return "<4MiB"
	case n <= 4<<20+1:
		return "4MiB..4MiB+1"
	case n <= 16<<20+1:
		return "<=16MiB+1"
	default:
		return ">16MiB+1"
	}
}
