package main

import (
	"bytes"
	"context"
	"fmt"
	"io"
	"math/rand"
	"net/http"
	"net/http/httptest"

	"cuelabs.dev/go/oci/ociregistry"
	"cuelabs.dev/go/oci/ociregistry/ocimem"
	"cuelabs.dev/go/oci/ociregistry/ociserver"
	"verif/harness/hx"
	"verif/harness/memsim"
)

// One ranged GET of a blob on the wire.  With Src set the request is made by
// ociclient.GetBlobRange(o0, o1) and the Range header is the one the client wrote;
// otherwise Hdr is sent as it is by a plain HTTP client.
type rangeCase struct {
	Content []byte    `json:"content"`
	Media   string    `json:"media"`
	Present bool      `json:"present"` // the blob is in the registry
	Src     *[2]int64 `json:"src,omitempty"`
	Hdr     string    `json:"hdr,omitempty"`
}

type recordingTransport struct {
	reqRange string
	sent     bool
	status   int
	resp     wireResp
	body     []byte
}

func (t *recordingTransport) RoundTrip(req *http.Request) (*http.Response, error) {
	t.reqRange = req.Header.Get("Range")
	_, t.sent = req.Header["Range"]
	resp, err := http.DefaultTransport.RoundTrip(req)
	if err != nil {
		return nil, err
	}
	body, _ := io.ReadAll(resp.Body)
	resp.Body.Close()
	t.status = resp.StatusCode
	t.resp = wireResp{Status: resp.StatusCode, CType: resp.Header.Get("Content-Type"), CLen: resp.ContentLength,
		CRange: resp.Header.Get("Content-Range"), Digest: resp.Header.Get("Docker-Content-Digest")}
	t.body = body
	resp.Body = io.NopCloser(bytes.NewReader(body))
	return resp, nil
}

func runRange(out *hx.Out, c rangeCase, origin string) {
	mem := ocimem.New()
	ctx := context.Background()
	const repo = "foo/bar"
	d := memsim.Sha(c.Content)
	media := c.Media
	if media == "" {
		media = "application/octet-stream"
	}
	if c.Present {
		if _, err := mem.PushBlob(ctx, repo, ociregistry.Descriptor{MediaType: media, Digest: ociregistry.Digest(d), Size: int64(len(c.Content))}, bytes.NewReader(c.Content)); err != nil {
			panic(err)
		}
	} else {
		mem.PushBlob(ctx, repo, ociregistry.Descriptor{MediaType: media, Digest: ociregistry.Digest(memsim.Sha([]byte("other"))), Size: 5}, bytes.NewReader([]byte("other")))
	}
	srv := httptest.NewServer(ociserver.New(mem, nil))
	defer srv.Close()
	rec := &recordingTransport{}
	src := "None"
	hdr := c.Hdr
	if c.Src != nil {
		cl := clientFor(srv.URL, rec)
		rd, err := cl.GetBlobRange(ctx, repo, ociregistry.Digest(d), c.Src[0], c.Src[1])
		if err == nil {
			io.Copy(io.Discard, rd)
			rd.Close()
		}
		hdr = rec.reqRange
		if rec.sent {
			src = fmt.Sprintf("(Some (%s, %s))", hx.Z(c.Src[0]), hx.Z(c.Src[1]))
		}
	} else {
		req, err := http.NewRequest("GET", srv.URL+"/v2/"+repo+"/blobs/"+d, nil)
		if err != nil {
			panic(err)
		}
		if c.Hdr != "" {
			req.Header.Set("Range", c.Hdr)
		}
		resp, err := rec.RoundTrip(req)
		if err != nil {
			panic(err)
		}
		resp.Body.Close()
	}
	obs := ""
	if rec.status == 200 || rec.status == 206 {
		obs = fmt.Sprintf("WResp %s %s", coqResp(rec.resp), hx.BB(rec.body))
	} else {
		obs = fmt.Sprintf("WStatus %s", hx.Z(int64(rec.status)))
	}
	blob := "None"
	if c.Present {
		blob = fmt.Sprintf("(Some ({| d_media := %s; d_digest := %s; d_size := %s; d_artifact := [] |}, %s))", hx.B(media), hx.B(d), hx.Z(int64(len(c.Content))), hx.BB(c.Content))
	}
	coq := fmt.Sprintf("CRange %s %s %s %s (%s)", src, hx.B(hdr), hx.B(d), blob, obs)
	class := "range-wire"
	if c.Src != nil {
		class = "range-client"
	}
	if out.Add(hx.Case{Coq: coq, Desc: map[string]any{"input": caseInput{Kind: "range", Range: &c}, "sent_range": hdr,
		"status": rec.status, "resp": rec.resp, "body_len": len(rec.body), "origin": origin},
		Tags: map[string]any{"class": class}}) {
		out.Count("range:" + class)
		out.Count(fmt.Sprintf("range:status:%d", rec.status))
	}
}

func genRanges(out *hx.Out, rnd *rand.Rand, scale int) {
	contents := [][]byte{{}, []byte("a"), []byte("ab"), {0, 255, 0, 128}, []byte("hello world"), randBytes(rnd, 100), randBytes(rnd, 1000)}
	medias := []string{"", "application/vnd.custom"}
	// the client's header for a boundary grid of (o0, o1) per blob, plus random pairs
	for _, c := range contents {
		n := int64(len(c))
		g0 := []int64{0, 1, n - 1, n, n + 1, -1, n / 2}
		g1 := []int64{-1, -7, 0, 1, n - 1, n, n + 1, n / 2, 1 << 40}
		for _, o0 := range g0 {
			for _, o1 := range g1 {
				runRange(out, rangeCase{Content: c, Media: medias[rnd.Intn(2)], Present: true, Src: &[2]int64{o0, o1}}, "grid")
			}
		}
		for i := 0; i < 6*scale; i++ {
			runRange(out, rangeCase{Content: c, Present: rnd.Intn(8) != 0, Src: &[2]int64{rnd.Int63n(n+3) - 1, rnd.Int63n(n+4) - 2}}, "random")
		}
	}
	// hand-written Range headers: the parser's corners
	hdrs := []string{"", "bytes=0-", "bytes=0-0", "bytes=1-1", "bytes= 1 - 3 ", "bytes=1-3,", ",bytes=1-3", "bytes=,1-3", "bytes=1-3,5-6", "bytes=-3",
		"bytes=--3", "bytes=3-1", "bytes=a-b", "bytes=1", "Bytes=1-3", "bytes=1-3 ", "bytes=\t2-\t", "bytes=+1-3", "bytes=1-+3", "bytes=01-003",
		"bytes=1-99999999999999999999", "bytes=9223372036854775807-", "bytes=0-9223372036854775807", "bytes=1_0-2", "bytes=-", "bytes=", "octets=1-2",
		"bytes=5-", "bytes=11-", "bytes=12-", "bytes=4-4", "bytes=10-10", "bytes=10-11", "bytes=11-11"}
	for _, h := range hdrs {
		runRange(out, rangeCase{Content: []byte("hello world"), Present: true, Hdr: h}, "wire")
		if rnd.Intn(3) == 0 {
			runRange(out, rangeCase{Content: []byte("hello world"), Present: false, Hdr: h}, "wire")
		}
	}
}
