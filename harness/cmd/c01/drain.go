package main

// How a reader is drained.
//
// The property speaks of "every complete read": whatever way a consumer takes the bytes out of
// the ociregistry.BlobReader it was handed - io.ReadAll, Read with a buffer of its own (1 byte,
// 3 bytes, 4096 bytes), io.Copy (which prefers the reader's io.WriterTo / the destination's
// io.ReaderFrom when there is one), a few leading bytes with Read (sniffing a magic number)
// and io.Copy for the rest, io.CopyN and then io.ReadAll, zero-length Reads in between, and
// whatever optional interfaces the reader offers besides Read (io.WriterTo, io.ReaderAt,
// io.Seeker: when offered they must agree with Read) - the bytes obtained, concatenated, are
// what the specification judges.
//
// A drainSpec says how ONE reader is drained; a history carries one per read operation
// (history.Drains, drawn from a seeded stream of its own or written out by the directed
// family genDrains), a scripted read carries one (readCase.Drain).  The executor
// (memsim.Exec) talks to the stack through drainReg, which drains every reader the stack
// hands out as its spec says and passes the executor a plain reader over the bytes obtained
// (followed by the error the draining ended with, if any).  The drain specification is not
// part of the Coq case: what a registry serves may not depend on how the bytes are taken.

import (
	"bytes"
	"context"
	"errors"
	"fmt"
	"io"
	"math/rand"

	"cuelabs.dev/go/oci/ociregistry"
	"verif/harness/hx"
	"verif/harness/memsim"
)

const (
	dmReadAll    = iota // io.ReadAll
	dmBuf1              // Read with a 1-byte buffer
	dmBuf3              // Read with a 3-byte buffer
	dmBuf4096           // Read with a 4096-byte buffer
	dmCopy              // io.Copy into a bytes.Buffer (WriterTo of the reader, else ReaderFrom of the buffer)
	dmCopyPlain         // io.Copy into a writer that is only a writer (WriterTo of the reader, else a 32 KiB buffer)
	dmPrefixCopy        // K leading bytes with Read, io.Copy for the rest
	dmCopyNAll          // io.CopyN of K bytes, io.ReadAll for the rest
	dmZeroReads         // Read with a buffer of 1+K bytes, a zero-length Read before each
	dmMixed             // a seeded sequence of Read / zero-length Read / prefix / CopyN steps ended by Copy, ReadAll or WriteTo
	dmWriterTo          // K leading bytes with Read, then the reader's own WriteTo (io.WriterTo offered; else as dmPrefixCopy)
	dmReaderAt          // ReadAt in pieces of 1+K bytes / Read after ReadAt calls (io.ReaderAt offered; else Read with 1+K bytes)
	dmSeeker            // K bytes, Seek back to the start, everything / Seek to K, rest (io.Seeker offered; else as dmCopyNAll)
	nDrainModes
)

var drainModeNames = []string{"readall", "buf1", "buf3", "buf4096", "copy", "copy-plain", "prefix-copy", "copyn-readall",
	"zero-reads", "mixed", "writer-to", "reader-at", "seeker"}

type drainSpec struct {
	Mode int   `json:"m"`
	K    int   `json:"k,omitempty"`
	Seed int64 `json:"s,omitempty"`
	// DescFirst: Descriptor() is asked before the first byte is read rather than after the last
	DescFirst bool `json:"df,omitempty"`
	// Again: once the reader has reported the end, one more Read; bytes it still delivers count
	Again bool `json:"again,omitempty"`
}

func (d drainSpec) String() string {
	s := drainModeNames[d.Mode%nDrainModes]
	if d.K != 0 {
		s += fmt.Sprintf("/k=%d", d.K)
	}
	if d.Seed != 0 {
		s += fmt.Sprintf("/s=%d", d.Seed)
	}
	if d.DescFirst {
		s += "/desc-first"
	}
	if d.Again {
		s += "/again"
	}
	return s
}

var drainKs = []int{0, 1, 2, 3, 4, 5, 8, 11, 17, 64, 511, 4096, 8192, 8193}

func randDrainSpec(r *rand.Rand) drainSpec {
	d := drainSpec{}
	if r.Intn(5) != 0 { // one read in five the way it has always been taken: io.ReadAll
		d.Mode = 1 + r.Intn(nDrainModes-1)
	}
	d.K = drainKs[r.Intn(len(drainKs))]
	d.Seed = 1 + r.Int63n(1<<40)
	d.DescFirst = r.Intn(2) == 0
	d.Again = r.Intn(4) == 0
	return d
}

const (
	drainMaxBytes = 256 << 20 // a reader that never ends is an error, not a hang
	drainMaxIdle  = 10000     // Reads in a row that deliver nothing and report nothing
)

var (
	errDrainTooMuch = errors.New("harness: the reader delivered more than 256 MiB")
	errDrainIdle    = errors.New("harness: the reader makes no progress (0, nil)")
)

// onlyWriter hides everything a destination offers besides Write.
type onlyWriter struct{ w io.Writer }

func (o onlyWriter) Write(p []byte) (int, error) { return o.w.Write(p) }

// spy remembers the first error the reader reported: io.ReadFull and io.CopyN drop an error
// that arrives together with the last byte they were asked for.
type spy struct {
	r   io.Reader
	err error
}

func (s *spy) Read(p []byte) (int, error) {
	n, err := s.r.Read(p)
	if err != nil && s.err == nil {
		s.err = err
	}
	return n, err
}

// drainer takes the bytes out of one reader.
type drainer struct {
	r    io.Reader
	out  bytes.Buffer
	done bool  // the reader has reported the end or an error
	err  error // the error, nil for a clean end
	idle int
	// viaAt: the content was taken with ReadAt, which leaves the position of Read where it was
	viaAt bool
}

func (d *drainer) finish(err error) {
	if d.done {
		return
	}
	d.done = true
	if err != nil && err != io.EOF {
		d.err = err
	}
}

func (d *drainer) guard() {
	if d.out.Len() > drainMaxBytes {
		d.finish(errDrainTooMuch)
	}
}

// read: one Read with a buffer of n bytes.
func (d *drainer) read(n int) {
	if d.done {
		return
	}
	buf := make([]byte, n)
	got, err := d.r.Read(buf)
	if got < 0 || got > n {
		d.finish(fmt.Errorf("harness: Read with a buffer of %d bytes returned n = %d", n, got))
		return
	}
	d.out.Write(buf[:got])
	if got == 0 && err == nil && n > 0 {
		if d.idle++; d.idle > drainMaxIdle {
			d.finish(errDrainIdle)
		}
	} else if got > 0 {
		d.idle = 0
	}
	if err != nil {
		d.finish(err)
	}
	d.guard()
}

// prefix: k bytes with io.ReadFull.
func (d *drainer) prefix(k int) {
	if d.done {
		return
	}
	sp := &spy{r: d.r}
	buf := make([]byte, k)
	n, _ := io.ReadFull(sp, buf)
	d.out.Write(buf[:n])
	if sp.err != nil {
		d.finish(sp.err)
	}
}

// copyN: k bytes with io.CopyN.
func (d *drainer) copyN(k int, plain bool) {
	if d.done {
		return
	}
	sp := &spy{r: d.r}
	var dst io.Writer = &d.out
	if plain {
		dst = onlyWriter{&d.out}
	}
	_, err := io.CopyN(dst, sp, int64(k))
	switch {
	case sp.err != nil:
		d.finish(sp.err)
	case err != nil && err != io.EOF:
		d.finish(err)
	}
	d.guard()
}

// limited stops an endless reader: io.Copy, io.ReadAll and WriteTo have no bound of their own.
type limited struct {
	w io.Writer
	n int
}

func (l *limited) Write(p []byte) (int, error) {
	if l.n += len(p); l.n > drainMaxBytes {
		return 0, errDrainTooMuch
	}
	return l.w.Write(p)
}

// bufferDst is a destination with ReadFrom, as bytes.Buffer is (io.Copy uses it when the
// source has no WriteTo), bounded.
type bufferDst struct{ l *limited }

func (b bufferDst) Write(p []byte) (int, error) { return b.l.Write(p) }
func (b bufferDst) ReadFrom(r io.Reader) (int64, error) {
	var total int64
	buf := make([]byte, 512)
	for {
		n, err := r.Read(buf)
		if n > 0 {
			if _, werr := b.l.Write(buf[:n]); werr != nil {
				return total, werr
			}
			total += int64(n)
			if len(buf) < 1<<16 {
				buf = make([]byte, 2*len(buf))
			}
		}
		if err == io.EOF {
			return total, nil
		}
		if err != nil {
			return total, err
		}
	}
}

// rest: everything that is left, with io.Copy (the reader as it is: its WriteTo is used when it has one).
func (d *drainer) copyRest(plain bool) {
	if d.done {
		return
	}
	l := &limited{w: &d.out}
	var err error
	if plain {
		_, err = io.Copy(onlyWriter{l}, d.r)
	} else {
		_, err = io.Copy(bufferDst{l}, d.r)
	}
	d.done = true
	d.err = err
}

type readerOnly struct{ r io.Reader }

func (o readerOnly) Read(p []byte) (int, error) { return o.r.Read(p) }

func (d *drainer) readAllRest() {
	if d.done {
		return
	}
	b, err := io.ReadAll(io.LimitReader(readerOnly{d.r}, drainMaxBytes+1))
	d.out.Write(b)
	d.done = true
	d.err = err
	d.guard()
}

// writeToRest: the reader's own WriteTo; false when it has none.
func (d *drainer) writeToRest() bool {
	wt, ok := d.r.(io.WriterTo)
	if !ok {
		return false
	}
	if d.done {
		return true
	}
	_, err := wt.WriteTo(onlyWriter{&limited{w: &d.out}})
	d.done = true
	d.err = err
	return true
}

func (d *drainer) loop(buf int, zeroFirst bool) {
	for !d.done {
		if zeroFirst {
			d.read(0)
		}
		d.read(buf)
	}
}

func (d *drainer) mixed(seed int64) {
	r := rand.New(rand.NewSource(seed))
	sizes := []int{0, 1, 2, 3, 7, 64, 4096}
	for i := 0; i < 10 && !d.done; i++ {
		switch r.Intn(8) {
		case 0, 1, 2:
			d.read(sizes[r.Intn(len(sizes))])
		case 3:
			d.read(0)
		case 4:
			d.prefix(1 + r.Intn(9))
		case 5:
			d.copyN(1+r.Intn(9), r.Intn(2) == 0)
		case 6:
			d.copyN(4096, r.Intn(2) == 0)
		default:
			i = 10
		}
	}
	switch r.Intn(5) {
	case 0:
		d.copyRest(false)
	case 1:
		d.copyRest(true)
	case 2:
		d.readAllRest()
	case 3:
		if !d.writeToRest() {
			d.copyRest(true)
		}
	default:
		d.loop(1+r.Intn(5000), r.Intn(3) == 0)
	}
}

// readerAt: the consumer takes the content with ReadAt, piece by piece (even Seed), or makes
// ReadAt calls and then reads on with Read, which they may not have moved (odd Seed).
func (d *drainer) readerAt(ra io.ReaderAt, piece int, seed int64) {
	if seed%2 == 0 {
		var off int64
		d.viaAt = true
		for !d.done {
			buf := make([]byte, piece)
			n, err := ra.ReadAt(buf, off)
			if n < 0 || n > piece {
				d.finish(fmt.Errorf("harness: ReadAt returned n = %d", n))
				return
			}
			d.out.Write(buf[:n])
			off += int64(n)
			if err != nil {
				d.finish(err)
			} else if n == 0 {
				d.finish(errDrainIdle)
			}
			d.guard()
		}
		return
	}
	d.read(piece)
	buf := make([]byte, piece)
	ra.ReadAt(buf, 0)
	ra.ReadAt(buf, int64(piece))
	d.readAllRest()
}

// seeker: K bytes, back to the start, everything (even Seed; the bytes after the Seek are the
// complete read); or K bytes, Seek to where the reader says it is (must be K), the rest (odd).
func (d *drainer) seeker(sk io.Seeker, k int, seed int64) {
	d.prefix(k)
	if d.err != nil {
		return
	}
	if seed%2 == 0 {
		pos, err := sk.Seek(0, io.SeekStart)
		if err != nil || pos != 0 {
			d.done, d.err = true, fmt.Errorf("harness: Seek(0, SeekStart) = %d, %v", pos, err)
			return
		}
		d.out.Reset()
		d.done = false
		d.readAllRest()
		return
	}
	got := int64(d.out.Len())
	pos, err := sk.Seek(0, io.SeekCurrent)
	if err != nil || pos != got {
		d.done, d.err = true, fmt.Errorf("harness: Seek(0, SeekCurrent) = %d, %v after %d bytes", pos, err, got)
		return
	}
	d.done = false
	d.readAllRest()
}

// drainReader takes the content out of r the way spec says: the bytes obtained and the error
// the reader ended with (nil: a clean end).
func drainReader(r io.Reader, spec drainSpec) ([]byte, error) {
	d := &drainer{r: r}
	k := spec.K
	if k < 0 {
		k = 0
	}
	switch spec.Mode % nDrainModes {
	case dmReadAll:
		d.readAllRest()
	case dmBuf1:
		d.loop(1, false)
	case dmBuf3:
		d.loop(3, false)
	case dmBuf4096:
		d.loop(4096, false)
	case dmCopy:
		d.copyRest(false)
	case dmCopyPlain:
		d.copyRest(true)
	case dmPrefixCopy:
		d.prefix(k)
		d.copyRest(spec.Seed%2 == 0)
	case dmCopyNAll:
		d.copyN(k, spec.Seed%2 == 0)
		d.readAllRest()
	case dmZeroReads:
		d.loop(1+k, true)
	case dmMixed:
		d.mixed(spec.Seed)
	case dmWriterTo:
		d.prefix(k)
		if !d.writeToRest() {
			d.copyRest(true)
		}
	case dmReaderAt:
		if ra, ok := r.(io.ReaderAt); ok {
			d.readerAt(ra, 1+k, spec.Seed)
		} else {
			d.loop(1+k, false)
		}
	case dmSeeker:
		if sk, ok := r.(io.Seeker); ok {
			d.seeker(sk, k, spec.Seed)
		} else {
			d.copyN(k, spec.Seed%2 == 0)
			d.readAllRest()
		}
	}
	if spec.Again && d.err == nil && !d.viaAt {
		// the end has been reported: a consumer that asks once more must not be given more
		buf := make([]byte, 16)
		if n, _ := r.Read(buf); n > 0 && n <= len(buf) {
			d.out.Write(buf[:n])
		}
	}
	return append([]byte{}, d.out.Bytes()...), d.err
}

// ---- the registry seen through a consumer that drains as told ----

// drainedReader is what the executor gets: the bytes the consumer obtained, then the
// consumer's error.
type drainedReader struct {
	under ociregistry.BlobReader
	desc  ociregistry.Descriptor
	rd    *bytes.Reader
	err   error
}

func (d *drainedReader) Read(p []byte) (int, error) {
	n, err := d.rd.Read(p)
	if err == io.EOF && d.err != nil {
		return n, d.err
	}
	return n, err
}
func (d *drainedReader) Close() error                       { return d.under.Close() }
func (d *drainedReader) Descriptor() ociregistry.Descriptor { return d.desc }

type drainReg struct {
	ociregistry.Interface
	specs []drainSpec // one per read operation, in order; past the end: io.ReadAll
	next  int
	used  []string
}

func (g *drainReg) spec() drainSpec {
	var s drainSpec
	if g.next < len(g.specs) {
		s = g.specs[g.next]
	}
	g.next++
	g.used = append(g.used, s.String())
	return s
}

func (g *drainReg) drained(r ociregistry.BlobReader, err error) (ociregistry.BlobReader, error) {
	s := g.spec()
	if err != nil {
		return r, err
	}
	return drainBlobReader(r, s), nil
}

func drainBlobReader(r ociregistry.BlobReader, s drainSpec) *drainedReader {
	out := &drainedReader{under: r}
	if s.DescFirst {
		out.desc = r.Descriptor()
	}
	data, derr := drainReader(r, s)
	if !s.DescFirst {
		out.desc = r.Descriptor()
	}
	out.rd, out.err = bytes.NewReader(data), derr
	return out
}

func (g *drainReg) GetBlob(ctx context.Context, repo string, dg ociregistry.Digest) (ociregistry.BlobReader, error) {
	return g.drained(g.Interface.GetBlob(ctx, repo, dg))
}

func (g *drainReg) GetBlobRange(ctx context.Context, repo string, dg ociregistry.Digest, o0, o1 int64) (ociregistry.BlobReader, error) {
	return g.drained(g.Interface.GetBlobRange(ctx, repo, dg, o0, o1))
}

func (g *drainReg) GetManifest(ctx context.Context, repo string, dg ociregistry.Digest) (ociregistry.BlobReader, error) {
	return g.drained(g.Interface.GetManifest(ctx, repo, dg))
}

func (g *drainReg) GetTag(ctx context.Context, repo string, tag string) (ociregistry.BlobReader, error) {
	return g.drained(g.Interface.GetTag(ctx, repo, tag))
}

func isReadOp(kind string) bool {
	switch kind {
	case "GetBlob", "GetBlobRange", "GetManifest", "GetTag":
		return true
	}
	return false
}

// drainSeeds: the stream the drain specifications of generated histories and scripted reads
// are drawn from; a stream of its own, so that the histories generated for a seed are the
// same whatever is drawn here.
var drainSeeds = rand.New(rand.NewSource(1))

func setDrainSeed(seed int64) { drainSeeds = rand.New(rand.NewSource(seed*1000003 + 17)) }

func drawDrains(ops []memsim.Op) []drainSpec {
	var ds []drainSpec
	for _, o := range ops {
		if isReadOp(o.Kind) {
			ds = append(ds, randDrainSpec(drainSeeds))
		}
	}
	return ds
}

// ---- the directed family: every stack x every way of draining ----

// One short history per stack and drain mode: a blob of 41 bytes and a tagged manifest are pushed
// and then read with GetBlob, GetBlobRange (a proper slice and the whole-blob form),
// GetManifest and GetTag, every reader drained in that mode with prefix lengths 0, 1, 3, 4,
// the content's length, one less and one more.  In the modes in which a buffer size or a
// CopyN length of 4096 plays a part, a blob of 4097 bytes as well (whole or as a slice).
// The contents name stack and mode so that the Coq terms differ.
func genDrains(out *hx.Out, rnd *rand.Rand, scale int) {
	for stack := 0; stack < nStacks; stack++ {
		for mode := 1; mode < nDrainModes; mode++ {
			tagc := fmt.Sprintf("%s/%s ", stackNames[stack], drainModeNames[mode])
			small := append([]byte("\x1f\x8b\x08\x00 drained "+tagc), randBytes(rnd, 8)...)
			man := []byte(`{"drained":"` + tagc + `"}`)
			push := func(c []byte) memsim.Op {
				return memsim.Op{Kind: "PushBlob", Repo: "r1", Content: c,
					Desc: &memsim.Desc{Media: "application/octet-stream", Digest: memsim.Sha(c), Size: int64(len(c))}}
			}
			ops := []memsim.Op{push(small),
				{Kind: "PushManifest", Repo: "r1", Tag: "t1", Content: man, Media: "application/vnd.foo"}}
			var ds []drainSpec
			rd := func(o memsim.Op, k int, again bool) {
				ops = append(ops, o)
				ds = append(ds, drainSpec{Mode: mode, K: k, Seed: 1 + rnd.Int63n(1<<40), DescFirst: len(ds)%2 == 0, Again: again})
			}
			sd, mand := memsim.Sha(small), memsim.Sha(man)
			rd(memsim.Op{Kind: "GetBlob", Repo: "r1", Digest: sd}, 4, false)
			rd(memsim.Op{Kind: "GetBlobRange", Repo: "r1", Digest: sd, O0: 2, O1: 20}, 3, false)
			rd(memsim.Op{Kind: "GetManifest", Repo: "r1", Digest: mand}, 1, false)
			rd(memsim.Op{Kind: "GetTag", Repo: "r1", Tag: "t1"}, len(man), false)
			switch mode {
			case dmBuf4096, dmCopy, dmCopyPlain, dmPrefixCopy, dmCopyNAll, dmMixed, dmWriterTo:
				mid := append([]byte(tagc), randBytes(rnd, 4097-len(tagc))...)
				ops = append(ops, push(mid))
				if (stack+mode)%2 == 0 {
					rd(memsim.Op{Kind: "GetBlob", Repo: "r1", Digest: memsim.Sha(mid)}, 4096, false)
				} else {
					rd(memsim.Op{Kind: "GetBlobRange", Repo: "r1", Digest: memsim.Sha(mid), O0: 1, O1: 4097}, 4095, true)
				}
			}
			rd(memsim.Op{Kind: "GetBlobRange", Repo: "r1", Digest: sd, O0: 0, O1: -1}, 0, false)
			rd(memsim.Op{Kind: "GetBlob", Repo: "r1", Digest: sd}, len(small)+1, true)
			rd(memsim.Op{Kind: "GetTag", Repo: "r1", Tag: "t1"}, 4, true)
			rd(memsim.Op{Kind: "GetManifest", Repo: "r1", Digest: mand}, len(man)-1, false)
			rd(memsim.Op{Kind: "GetBlobRange", Repo: "r1", Digest: sd, O0: 5, O1: 6}, 1, true)
			runHistory(out, history{Stack: stack, Immutable: false, Ops: ops, Drains: ds}, "drain")
		}
	}
}
