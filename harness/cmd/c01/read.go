package main

import (
	"context"
	"crypto/sha512"
	"encoding/hex"
	"fmt"
	"io"
	"math/rand"
	"net/http"
	"strconv"
	"strings"

	"cuelabs.dev/go/oci/ociregistry"
	"cuelabs.dev/go/oci/ociregistry/ociclient"
	"verif/harness/hx"
	"verif/harness/memsim"
)

// ---- scripted responses ----

type wireResp struct {
	Status int    `json:"status"`
	CType  string `json:"ctype,omitempty"`
	CLen   int64  `json:"clen"`
	CRange string `json:"crange,omitempty"`
	Digest string `json:"digest,omitempty"`
}

// one Read result of the response body: Err 0 = nil, 1 = io.EOF, 2 = another error,
// 3 = io.ErrUnexpectedEOF (what net/http's transport reports when the connection ends before
// Content-Length bytes have arrived: the only way a real transport hands over a short body)
type chunk struct {
	Data []byte `json:"data,omitempty"`
	Err  int    `json:"err,omitempty"`
}

type readCase struct {
	Kind  int       `json:"kind"` // 0 GetBlob, 1 GetManifest, 2 GetTag, 3 GetBlobRange
	O0    int64     `json:"o0,omitempty"`
	O1    int64     `json:"o1,omitempty"`
	Known string    `json:"known,omitempty"` // the digest asked for
	Resp  wireResp  `json:"resp"`
	Body  []chunk   `json:"body"`
	Head  *wireResp `json:"head,omitempty"`
	Fault string    `json:"fault"`
	// Drain: how the consumer takes the bytes out of the reader (drain.go); none: io.ReadAll.
	// The body records the Read results it delivered to the client's reader under that consumer.
	Drain *drainSpec `json:"drain,omitempty"`
}

var errInjected = fmt.Errorf("injected transport failure")

// scriptedBody delivers the chunks one Read at a time (a chunk larger than the caller's
// buffer is delivered in several reads, the error with its last piece) and records what it
// actually delivered.
type scriptedBody struct {
	chunks    []chunk
	delivered []chunk
}

func (s *scriptedBody) Read(p []byte) (int, error) {
	if len(s.chunks) == 0 {
		s.delivered = append(s.delivered, chunk{Err: 1})
		return 0, io.EOF
	}
	c := &s.chunks[0]
	if len(c.Data) > len(p) {
		n := copy(p, c.Data)
		s.delivered = append(s.delivered, chunk{Data: append([]byte{}, c.Data[:n]...)})
		c.Data = c.Data[n:]
		return n, nil
	}
	n := copy(p, c.Data)
	d := chunk{Data: append([]byte{}, c.Data...), Err: c.Err}
	s.delivered = append(s.delivered, d)
	s.chunks = s.chunks[1:]
	switch d.Err {
	case 1:
		return n, io.EOF
	case 2:
		return n, errInjected
	case 3:
		return n, io.ErrUnexpectedEOF
	}
	return n, nil
}

func (s *scriptedBody) Close() error { return nil }

type scriptedTransport struct {
	c    readCase
	body *scriptedBody
}

func mkResponse(req *http.Request, w wireResp, body io.ReadCloser) *http.Response {
	h := http.Header{}
	if w.CType != "" {
		h.Set("Content-Type", w.CType)
	}
	if w.CRange != "" {
		h.Set("Content-Range", w.CRange)
	}
	if w.Digest != "" {
		h.Set("Docker-Content-Digest", w.Digest)
	}
	if w.CLen >= 0 {
		h.Set("Content-Length", strconv.FormatInt(w.CLen, 10))
	}
	return &http.Response{StatusCode: w.Status, Status: fmt.Sprintf("%d %s", w.Status, http.StatusText(w.Status)),
		Proto: "HTTP/1.1", ProtoMajor: 1, ProtoMinor: 1, Header: h, Body: body, ContentLength: w.CLen, Request: req}
}

func (t *scriptedTransport) RoundTrip(req *http.Request) (*http.Response, error) {
	if req.Method == "HEAD" {
		if t.c.Head == nil {
			return mkResponse(req, wireResp{Status: 404, CLen: 0}, http.NoBody), nil
		}
		return mkResponse(req, *t.c.Head, http.NoBody), nil
	}
	return mkResponse(req, t.c.Resp, t.body), nil
}

func coqResp(w wireResp) string {
	return fmt.Sprintf("{| rs_status := %s; rs_ctype := %s; rs_clen := %s; rs_crange := %s; rs_digest := %s |}",
		hx.Z(int64(w.Status)), hx.B(w.CType), hx.Z(w.CLen), hx.B(w.CRange), hx.B(w.Digest))
}

func sha512Of(c []byte) string {
	h := sha512.Sum512(c)
	return "sha512:" + hex.EncodeToString(h[:])
}

func coqDescOf(d ociregistry.Descriptor) string {
	return fmt.Sprintf("{| d_media := %s; d_digest := %s; d_size := %s; d_artifact := [] |}", hx.B(d.MediaType), hx.B(string(d.Digest)), hx.Z(d.Size))
}

func runRead(out *hx.Out, c readCase, origin string) {
	body := &scriptedBody{}
	for _, ch := range c.Body {
		body.chunks = append(body.chunks, chunk{Data: append([]byte{}, ch.Data...), Err: ch.Err})
	}
	tr := &scriptedTransport{c: c, body: body}
	cl, err := ociclient.New("registry.test", &ociclient.Options{Transport: tr})
	if err != nil {
		panic(err)
	}
	ctx := context.Background()
	const repo = "foo/bar"
	var rd ociregistry.BlobReader
	var oerr error
	panicked, pv := hx.Recover(func() {
		switch c.Kind {
		case 0:
			rd, oerr = cl.GetBlob(ctx, repo, ociregistry.Digest(c.Known))
		case 1:
			rd, oerr = cl.GetManifest(ctx, repo, ociregistry.Digest(c.Known))
		case 2:
			rd, oerr = cl.GetTag(ctx, repo, "sometag")
		default:
			rd, oerr = cl.GetBlobRange(ctx, repo, ociregistry.Digest(c.Known), c.O0, c.O1)
		}
	})
	obs := ""
	desc := map[string]any{}
	var data []byte
	var rerr error
	switch {
	case panicked:
		obs = "ROpenPanic"
		desc["outcome"] = "panic: " + pv
	case oerr != nil:
		obs = "ROpenErr"
		desc["outcome"] = "open error: " + oerr.Error()
	default:
		var d ociregistry.Descriptor
		p2, pv2 := hx.Recover(func() {
			d = rd.Descriptor()
			var ds drainSpec
			if c.Drain != nil {
				ds = *c.Drain
				ds.Again = false // the script ends with the stream
			}
			data, rerr = drainReader(rd, ds)
			rd.Close()
		})
		if p2 {
			obs = "ROpenPanic"
			desc["outcome"] = "panic while reading: " + pv2
		} else {
			obs = fmt.Sprintf("RDone %s %s %s", coqDescOf(d), hx.BB(data), hx.Bool(rerr == nil))
			desc["outcome"] = map[string]any{"desc": d, "read": len(data), "clean": rerr == nil, "err": fmt.Sprint(rerr)}
		}
	}
	// oracles: digests seen, every prefix of the delivered body at a read boundary
	or := memsim.NewOracles()
	h512 := map[string]string{}
	or.Digest(c.Known)
	or.Digest(c.Resp.Digest)
	if c.Head != nil {
		or.Digest(c.Head.Digest)
	}
	var acc []byte
	var bodyCoq []string
	need512 := strings.HasPrefix(c.Known, "sha512:") || strings.HasPrefix(c.Resp.Digest, "sha512:") ||
		(c.Head != nil && strings.HasPrefix(c.Head.Digest, "sha512:"))
	reg := func(b []byte) {
		or.Content(b)
		if need512 {
			h512[string(b)] = sha512Of(b)
		}
	}
	reg(nil)
	for _, d := range body.delivered {
		acc = append(append([]byte{}, acc...), d.Data...)
		if d.Err != 0 { // the reader hashes what it has relayed only when the stream ends
			reg(acc)
		}
		bodyCoq = append(bodyCoq, fmt.Sprintf("(%s, %d%%N)", hx.BB(d.Data), d.Err))
	}
	reg(acc)
	reg(data)
	var h5 []string
	for k, v := range h512 {
		h5 = append(h5, fmt.Sprintf("(%s, %s)", hx.B(k), hx.B(v)))
		or.Digest(v)
	}
	sortStrings(h5)
	head := "None"
	if c.Head != nil {
		head = "(Some " + coqResp(*c.Head) + ")"
	}
	coq := fmt.Sprintf("CRead %d %s %s %s %s %s %s %s %s (%s)", c.Kind, hx.Z(c.O0), hx.Z(c.O1), hx.B(c.Known), coqResp(c.Resp),
		hx.List(bodyCoq), head, or.Coq(), hx.List(h5), obs)
	desc["input"] = caseInput{Kind: "read", Read: &c}
	desc["delivered"] = body.delivered
	desc["origin"] = origin
	if out.Add(hx.Case{Coq: coq, Desc: desc, Tags: map[string]any{"class": "read-" + c.Fault, "kind": c.Kind}}) {
		out.Count(fmt.Sprintf("read:kind:%d", c.Kind))
		out.Count("read:fault:" + c.Fault)
		if c.Drain != nil && obs != "ROpenErr" && obs != "ROpenPanic" {
			out.Count("read:drain:" + drainModeNames[c.Drain.Mode%nDrainModes])
		}
		switch {
		case obs == "ROpenErr":
			out.Count("read:outcome:open-error")
		case obs == "ROpenPanic":
			out.Count("read:outcome:panic")
		case rerr == nil:
			out.Count("read:outcome:clean")
		default:
			out.Count("read:outcome:read-error")
		}
	}
}

func sortStrings(ss []string) {
	for i := 1; i < len(ss); i++ {
		for j := i; j > 0 && ss[j] < ss[j-1]; j-- {
			ss[j], ss[j-1] = ss[j-1], ss[j]
		}
	}
}

// ---- generation ----

// cut a body into Read results; the final io.EOF comes with the last bytes or on its own,
// zero-length reads may be interspersed
func partition(r *rand.Rand, body []byte) []chunk {
	var out []chunk
	rest := body
	for len(rest) > 0 {
		var n int
		switch r.Intn(6) {
		case 0:
			n = 1
		case 1:
			n = len(rest)
		case 2:
			n = 1 + r.Intn(len(rest))
		case 3:
			n = 512
		case 4:
			n = 511
		default:
			n = 1 + len(rest)/2
		}
		if n > len(rest) {
			n = len(rest)
		}
		if r.Intn(12) == 0 {
			out = append(out, chunk{})
		}
		out = append(out, chunk{Data: rest[:n]})
		rest = rest[n:]
	}
	if len(out) > 0 && r.Intn(2) == 0 {
		out[len(out)-1].Err = 1
	} else {
		out = append(out, chunk{Err: 1})
	}
	return out
}

func flip(b []byte, i int) []byte {
	c := append([]byte{}, b...)
	if len(c) > 0 {
		c[i%len(c)] ^= 0x41
	}
	return c
}

func genReads(out *hx.Out, rnd *rand.Rand, scale int) {
	contents := [][]byte{{}, []byte("a"), {0}, []byte("ab"), {0, 255, 0, 128}, []byte("h\xc3\xa9llo\xe2\x82"), []byte("hello world"),
		randBytes(rnd, 37), randBytes(rnd, 511), randBytes(rnd, 512), randBytes(rnd, 513), randBytes(rnd, 1300)}
	type fault struct {
		name  string
		apply func(c *readCase, content []byte)
		// every: one case per read kind on every run (the rest drawn), not kinds by luck
		every bool
	}
	// the body stops n bytes early and the transport says so: io.ErrUnexpectedEOF, together with
	// the last bytes or on a Read of its own
	truncUEOF := func(n int, with int) func(c *readCase, content []byte) {
		return func(c *readCase, content []byte) {
			b := bodyOf(c)
			k := n
			if k < 0 {
				k = 1 + rnd.Intn(1+len(b))
			}
			if k > len(b) {
				k = len(b)
			}
			ch := partition(rnd, b[:len(b)-k])
			w := with
			if w < 0 {
				w = rnd.Intn(2)
			}
			// partition ends in io.EOF, with the last bytes or alone
			if last := len(ch) - 1; ch[last].Err == 1 && len(ch[last].Data) == 0 && last > 0 && w == 1 {
				ch = ch[:last]
				ch[last-1].Err = 3
			} else if w == 0 && len(ch[last].Data) > 0 {
				ch[last].Err = 0
				ch = append(ch, chunk{Err: 3})
			} else {
				ch[last].Err = 3
			}
			c.Body = ch
		}
	}
	pad := func(n int) func(c *readCase, content []byte) {
		return func(c *readCase, content []byte) {
			c.Body = partition(rnd, append(append([]byte{}, bodyOf(c)...), randBytes(rnd, n)...))
		}
	}
	trunc := func(n int) func(c *readCase, content []byte) {
		return func(c *readCase, content []byte) {
			b := bodyOf(c)
			if n > len(b) {
				n = len(b)
			}
			c.Body = partition(rnd, b[:len(b)-n])
		}
	}
	other := func() []byte { return contents[rnd.Intn(len(contents))] }
	faults := []fault{
		{name: "none", apply: func(c *readCase, content []byte) {}},
		{name: "none-eof-with-data", apply: func(c *readCase, content []byte) { c.Body = []chunk{{Data: bodyOf(c), Err: 1}} }},
		{name: "none-eof-alone", apply: func(c *readCase, content []byte) { c.Body = []chunk{{Data: bodyOf(c)}, {Err: 1}} }},
		{name: "body-flip", apply: func(c *readCase, content []byte) {
			c.Body = partition(rnd, flip(bodyOf(c), rnd.Intn(1+len(bodyOf(c)))))
		}},
		{name: "body-other", apply: func(c *readCase, content []byte) { c.Body = partition(rnd, other()) }},
		{name: "body-pad-1", apply: pad(1)},
		{name: "body-pad-many", apply: pad(2 + rnd.Intn(600))},
		{name: "body-pad-1-eof-with-data", apply: func(c *readCase, content []byte) {
			c.Body = []chunk{{Data: append(append([]byte{}, bodyOf(c)...), 'x'), Err: 1}}
		}},
		{name: "body-pad-1-eof-alone", apply: func(c *readCase, content []byte) {
			c.Body = []chunk{{Data: append(append([]byte{}, bodyOf(c)...), 'x')}, {Err: 1}}
		}},
		{name: "body-trunc-1", apply: trunc(1)},
		{name: "body-trunc-many", apply: trunc(2 + rnd.Intn(600))},
		{name: "body-trunc-1-unexpected-eof", apply: truncUEOF(1, -1), every: true},
		{name: "body-trunc-many-unexpected-eof", apply: truncUEOF(-1, -1), every: true},
		{name: "body-trunc-unexpected-eof-with-data", apply: truncUEOF(-1, 1), every: true},
		{name: "body-trunc-unexpected-eof-alone", apply: truncUEOF(-1, 0), every: true},
		{name: "body-whole-then-unexpected-eof", apply: truncUEOF(0, -1), every: true},
		{name: "body-empty", apply: func(c *readCase, content []byte) { c.Body = []chunk{{Err: 1}} }},
		{name: "body-error-midway", apply: func(c *readCase, content []byte) {
			b := bodyOf(c)
			c.Body = []chunk{{Data: b[:len(b)/2]}, {Data: b[len(b)/2:], Err: 2}}
		}},
		{name: "body-error-at-end", apply: func(c *readCase, content []byte) { c.Body = []chunk{{Data: bodyOf(c)}, {Err: 2}} }},
		{name: "clen-plus-1", apply: func(c *readCase, content []byte) { c.Resp.CLen++ }},
		{name: "clen-minus-1", apply: func(c *readCase, content []byte) {
			if c.Resp.CLen > 0 {
				c.Resp.CLen--
			}
		}},
		{name: "clen-zero", apply: func(c *readCase, content []byte) { c.Resp.CLen = 0 }},
		{name: "clen-unknown", apply: func(c *readCase, content []byte) { c.Resp.CLen = -1 }},
		{name: "digest-other", apply: func(c *readCase, content []byte) { c.Resp.Digest = memsim.Sha(append([]byte("x"), content...)) }},
		{name: "digest-sha512-of-content", apply: func(c *readCase, content []byte) { c.Resp.Digest = sha512Of(bodyOf(c)) }},
		{name: "digest-sha512-other", apply: func(c *readCase, content []byte) { c.Resp.Digest = sha512Of(append([]byte("x"), content...)) }},
		{name: "digest-malformed", apply: func(c *readCase, content []byte) {
			c.Resp.Digest = []string{"bogus", "sha256:abc", "sha256:" + fmt.Sprintf("%064d", 0)[:63] + "Z", "md5:d41d8cd98f00b204e9800998ecf8427e"}[rnd.Intn(4)]
		}},
		{name: "digest-absent", apply: func(c *readCase, content []byte) { c.Resp.Digest = "" }},
		{name: "digest-absent-body-flip", apply: func(c *readCase, content []byte) {
			c.Resp.Digest = ""
			c.Body = partition(rnd, flip(bodyOf(c), rnd.Intn(1+len(bodyOf(c)))))
		}},
		{name: "digest-absent-body-pad", apply: func(c *readCase, content []byte) {
			c.Resp.Digest = ""
			c.Body = partition(rnd, append(append([]byte{}, bodyOf(c)...), 'x'))
		}},
		{name: "digest-absent-body-trunc", apply: func(c *readCase, content []byte) {
			c.Resp.Digest = ""
			b := bodyOf(c)
			if len(b) > 0 {
				c.Body = partition(rnd, b[:len(b)-1])
			}
		}},
		{name: "ctype-absent", apply: func(c *readCase, content []byte) { c.Resp.CType = "" }},
		{name: "status", apply: func(c *readCase, content []byte) { c.Resp.Status = []int{404, 500, 206, 204, 201, 200}[rnd.Intn(6)] }},
		{name: "crange-total-small", apply: func(c *readCase, content []byte) {
			if c.Kind == 3 {
				c.Resp.CRange = fmt.Sprintf("bytes %d-%d/%d", c.O0, c.O0+int64(len(bodyOf(c)))-1, rnd.Intn(1+len(bodyOf(c))))
			}
		}},
		{name: "crange-malformed", apply: func(c *readCase, content []byte) {
			if c.Kind == 3 {
				c.Resp.CRange = []string{"", "bytes 0-4", "bytes 0-4/x", "bytes 0-4/", "0-4/-5", "bytes 0-4/5/6", "bytes 0-4/99999999999999999999"}[rnd.Intn(7)]
			}
		}},
	}
	perFault := 6 * scale
	for _, f := range faults {
		// perFault random cases, then one more per fault that is always the whole-blob form of the
		// range API, GetBlobRange(0, negative): the one range read the client has to verify like GetBlob
		// (drawn at random it turns up in one case out of five times the blob's length)
		for i := 0; i <= perFault; i++ {
			content := contents[rnd.Intn(len(contents))]
			kind := rnd.Intn(4)
			if f.every && i < 4 {
				kind = i
			}
			whole := i == perFault
			if whole {
				kind = 3
			}
			c := readCase{Kind: kind, Fault: f.name}
			d := memsim.Sha(content)
			switch kind {
			case 0:
				c.Known = d
				c.Resp = wireResp{Status: 200, CType: "application/octet-stream", CLen: int64(len(content)), Digest: d}
				c.Body = partition(rnd, content)
			case 1:
				c.Known = d
				c.Resp = wireResp{Status: 200, CType: "application/vnd.foo", CLen: int64(len(content)), Digest: d}
				c.Body = partition(rnd, content)
			case 2:
				c.Resp = wireResp{Status: 200, CType: "application/vnd.foo", CLen: int64(len(content)), Digest: d}
				c.Body = partition(rnd, content)
			default:
				n := int64(len(content))
				o0 := rnd.Int63n(n + 1)
				o1 := o0 + 1 + rnd.Int63n(n-o0+1)
				end := o1
				if end > n {
					end = n
				}
				if rnd.Intn(5) == 0 {
					o1 = -1
					end = n
				}
				if whole {
					o0, o1, end = 0, []int64{-1, -1, -2, -1 << 62}[rnd.Intn(4)], n
				}
				c.Known = d
				c.O0, c.O1 = o0, o1
				c.Resp = wireResp{Status: 206, CType: "application/octet-stream", CLen: end - o0,
					CRange: fmt.Sprintf("bytes %d-%d/%d", o0, end-1, n), Digest: d}
				if o0 == 0 && o1 < 0 { // the client asks for the whole blob without a Range header
					c.Resp = wireResp{Status: 200, CType: "application/octet-stream", CLen: n, Digest: d}
				}
				c.Body = partition(rnd, content[o0:end])
			}
			f.apply(&c, content)
			ds := randDrainSpec(drainSeeds)
			c.Drain = &ds
			runRead(out, c, "random")
		}
	}
	// the large-manifest fallback of GetTag: no digest in the answer, more than 128 KiB
	big := randBytes(rnd, 128*1024+1+rnd.Intn(5))
	bd := memsim.Sha(big)
	for i, head := range []*wireResp{
		{Status: 200, CType: "application/vnd.foo", CLen: int64(len(big)), Digest: bd},
		{Status: 200, CType: "application/vnd.foo", CLen: int64(len(big)), Digest: memsim.Sha([]byte("other"))},
		nil,
	} {
		if scale == 1 && i == 1 {
			continue // quick tier: the matching HEAD and the failing HEAD
		}
		runRead(out, readCase{Kind: 2, Fault: "tag-large-no-digest", Resp: wireResp{Status: 200, CType: "application/vnd.foo", CLen: int64(len(big))},
			Body: []chunk{{Data: big[:70000]}, {Data: big[70000:], Err: 1}}, Head: head}, "directed")
	}
}

func bodyOf(c *readCase) []byte {
	var b []byte
	for _, ch := range c.Body {
		b = append(b, ch.Data...)
	}
	return b
}
