// Harness for C19: credential lookup from Docker-style config files.
//
// Every case is one config document generated from the schema (auths with host keys, URL-form
// keys, colliding keys, //-keys; username/password, auth, identitytoken, registrytoken;
// credsStore; credHelpers) plus one helper-runner table.  The document is written to a scratch
// directory under -out, loaded 20 times with ociauth.LoadWithEnv (Go randomises the map
// iteration order per range statement, so the 20 decodes run decodeConfigFile's loop in
// different orders) with an injected HelperRunner, and every host of interest is looked up in
// three orders per load with ConfigFile.EntryForRegistry.  The case carries, per host, every
// DISTINCT observation (entry fields, error class, runner calls) - never error prose.
//
// A second family of cases uses the REAL helper runner (nil HelperRunner: ociauth runs
// docker-credential-NAME from PATH): the harness writes helper files into scratch directories
// under -out (shell scripts that answer per host with credentials, a token, "credentials not
// found", other messages, on stdout or stderr, with any exit status or dying from a signal;
// executable files that cannot be started; files without an execute bit; directories and
// dangling links of that name; nothing), makes those directories the whole of PATH for the
// duration of the case, and observes the lookups as before.  The case carries what was put on
// PATH; the model of ExecHelperWithEnv (Model/AuthExec.v) and the specification predict the
// classification found / not found / other error from it.
// Public API only; no hooks.
package main

import (
	"encoding/base64"
	"encoding/hex"
	"encoding/json"
	"errors"
	"fmt"
	"math/rand"
	"os"
	"path/filepath"
	"regexp"
	"sort"
	"strings"
	"unicode/utf8"

	"cuelabs.dev/go/oci/ociregistry/ociauth"
	"verif/harness/hx"
)

// S is a byte string that survives a JSON round trip: printable ASCII as is, anything else "hex:..".
type S string

func (s S) MarshalJSON() ([]byte, error) {
	plain := !strings.HasPrefix(string(s), "hex:")
	for i := 0; plain && i < len(s); i++ {
		if s[i] < 0x20 || s[i] > 0x7e {
			plain = false
		}
	}
	if plain {
		return json.Marshal(string(s))
	}
	return json.Marshal("hex:" + hex.EncodeToString([]byte(s)))
}

func (s *S) UnmarshalJSON(b []byte) error {
	var t string
	if err := json.Unmarshal(b, &t); err != nil {
		return err
	}
	if strings.HasPrefix(t, "hex:") {
		d, err := hex.DecodeString(t[4:])
		if err != nil {
			return err
		}
		*s = S(d)
		return nil
	}
	*s = S(t)
	return nil
}

type entryIn struct {
	Key           S     `json:"key"`
	Username      S     `json:"username,omitempty"`
	Password      S     `json:"password,omitempty"`
	Auth          S     `json:"auth,omitempty"`
	IdentityToken S     `json:"identitytoken,omitempty"`
	RegistryToken S     `json:"registrytoken,omitempty"`
	Plain         *[2]S `json:"plain,omitempty"` // the (user, password) encoded into Auth by the generator
	Extra         bool  `json:"extra,omitempty"` // also write an unrelated member ("email")
}

type kv struct {
	K S `json:"k"`
	V S `json:"v"`
}

type centry struct {
	Refresh S `json:"refresh,omitempty"`
	Access  S `json:"access,omitempty"`
	User    S `json:"user,omitempty"`
	Pass    S `json:"pass,omitempty"`
}

// runner result: Err 0 = nil, 1 = wraps ErrHelperNotFound, 2 = another error
type rres struct {
	Entry centry `json:"entry"`
	Err   int    `json:"err"`
}

type rent struct {
	Helper S    `json:"helper"`
	Host   S    `json:"host"`
	Res    rres `json:"res"`
}

// how a helper program ends for one standard input
type pendIn struct {
	Exit0 bool   `json:"exit0"`
	Out   S      `json:"out"`
	How   string `json:"how,omitempty"` // "" stdout, "stderr", "split" (half stdout, half stderr), "signal" (stdout, then SIGKILL)
	Kind  string `json:"kind,omitempty"` // the generator's name for it (statistics only)
}

type answerIn struct {
	Host S      `json:"host"`
	End  pendIn `json:"end"`
}

// one name in one PATH directory
type pfileIn struct {
	File    string     `json:"file"` // the file name
	Kind    string     `json:"kind"` // dir noexec dangling broken-format broken-empty broken-interp prog prog-link
	Answers []answerIn `json:"answers,omitempty"`
	Default pendIn     `json:"default"`
}

// the real helper runner: what PATH holds, and the entry point used.
// Mode: "nil" LoadWithEnv(nil, env); "load" Load(nil) with the process environment;
// "wrap" LoadWithEnv(recording wrapper around ExecHelperWithEnv(env), env); "wrap-default" the
// same around ExecHelper.
type execIn struct {
	Path [][]pfileIn `json:"path"`
	Mode string      `json:"mode"`
}

type input struct {
	Exec          *execIn   `json:"exec,omitempty"`
	Auths         []entryIn `json:"auths"`
	AuthsMode     string    `json:"auths_mode,omitempty"` // "", "absent", "null"
	CredsStore    S         `json:"credsStore,omitempty"`
	CredHelpers   []kv      `json:"credHelpers,omitempty"`
	Runner        []rent    `json:"runner,omitempty"`
	RunnerDefault rres      `json:"runner_default"`
	Hosts         []S       `json:"hosts"`
	Location      string    `json:"location,omitempty"` // "", "home", "xdg"
}

// ---------------------------------------------------------------- the document

func jstr(s S) string {
	b, err := json.Marshal(string(s))
	if err != nil {
		panic(err)
	}
	return string(b)
}

func document(in input) string {
	var sb strings.Builder
	sb.WriteString("{\n")
	var members []string
	switch in.AuthsMode {
	case "absent":
	case "null":
		members = append(members, `  "auths": null`)
	default:
		var es []string
		for _, e := range in.Auths {
			var fs []string
			add := func(name string, v S) {
				if v != "" {
					fs = append(fs, fmt.Sprintf("%s: %s", jstr(S(name)), jstr(v)))
				}
			}
			add("auth", e.Auth)
			add("username", e.Username)
			add("password", e.Password)
			add("identitytoken", e.IdentityToken)
			add("registrytoken", e.RegistryToken)
			if e.Extra {
				fs = append(fs, `"email": "someone@example.com"`)
			}
			es = append(es, fmt.Sprintf("    %s: {%s}", jstr(e.Key), strings.Join(fs, ", ")))
		}
		members = append(members, "  \"auths\": {\n"+strings.Join(es, ",\n")+"\n  }")
	}
	if in.CredsStore != "" {
		members = append(members, `  "credsStore": `+jstr(in.CredsStore))
	}
	if len(in.CredHelpers) > 0 {
		var hs []string
		for _, h := range in.CredHelpers {
			hs = append(hs, fmt.Sprintf("    %s: %s", jstr(h.K), jstr(h.V)))
		}
		members = append(members, "  \"credHelpers\": {\n"+strings.Join(hs, ",\n")+"\n  }")
	}
	sb.WriteString(strings.Join(members, ",\n"))
	sb.WriteString("\n}\n")
	return sb.String()
}

// ---------------------------------------------------------------- running one case

var errOther = errors.New("helper failed")

func (r rres) result() (ociauth.ConfigEntry, error) {
	e := ociauth.ConfigEntry{RefreshToken: string(r.Entry.Refresh), AccessToken: string(r.Entry.Access),
		Username: string(r.Entry.User), Password: string(r.Entry.Pass)}
	switch r.Err {
	case 0:
		return e, nil
	case 1:
		return e, fmt.Errorf("%w: exec: not found (simulated)", ociauth.ErrHelperNotFound)
	}
	return e, errOther
}

func coqCE(e centry) string {
	return fmt.Sprintf("(CE %s %s %s %s)", hx.B(string(e.Refresh)), hx.B(string(e.Access)), hx.B(string(e.User)), hx.B(string(e.Pass)))
}

func coqHerr(n int) string { return []string{"HNil", "HMissing", "HOther"}[n] }

func coqRes(r rres) string { return "(" + coqCE(r.Entry) + ", " + coqHerr(r.Err) + ")" }

type lookupObs struct {
	Host  S      `json:"host"`
	Coq   string `json:"-"`
	Show  string `json:"observed"`
	Count int    `json:"count"`
}

var scratchSeq int

// runCase executes the input on the real package and returns one hx.Case per distinct load
// outcome (normally exactly one).
func runCase(cfg *hx.Config, in input, origin string, tags map[string]any) []hx.Case {
	scratchSeq++
	dir := filepath.Join(cfg.Out, "scratch", fmt.Sprintf("doc%06d", scratchSeq))
	var file string
	var env []string
	switch in.Location {
	case "home":
		file = filepath.Join(dir, ".docker", "config.json")
		env = []string{"HOME=" + dir, "IRRELEVANT=1"}
	case "xdg":
		file = filepath.Join(dir, "containers", "auth.json")
		env = []string{"XDG_RUNTIME_DIR=" + dir}
	default:
		file = filepath.Join(dir, "config.json")
		env = []string{"DOCKER_CONFIG=" + dir}
	}
	if err := os.MkdirAll(filepath.Dir(file), 0o755); err != nil {
		panic(err)
	}
	doc := document(in)
	if err := os.WriteFile(file, []byte(doc), 0o644); err != nil {
		panic(err)
	}
	defer os.RemoveAll(dir)

	var binDirs []string
	if in.Exec != nil {
		binDirs = installPath(dir, in.Exec.Path)
		restore := setenvs(map[string]string{"PATH": strings.Join(binDirs, string(os.PathListSeparator))})
		defer restore()
		if in.Exec.Mode == "load" {
			if in.Location != "" {
				panic("mode load needs the DOCKER_CONFIG location")
			}
			defer setenvs(map[string]string{"DOCKER_CONFIG": dir})()
		}
	}

	table := map[[2]string]rres{}
	for _, r := range in.Runner {
		k := [2]string{string(r.Helper), string(r.Host)}
		if _, dup := table[k]; !dup { // first entry wins, as in Obs.C19.runner_find
			table[k] = r.Res
		}
	}
	var calls [][2]string
	runner := func(helperName, serverURL string) (ociauth.ConfigEntry, error) {
		calls = append(calls, [2]string{helperName, serverURL})
		if r, ok := table[[2]string{helperName, serverURL}]; ok {
			return r.result()
		}
		return in.RunnerDefault.result()
	}
	callsSeen := true
	load := func() (*ociauth.ConfigFile, error) { return ociauth.LoadWithEnv(runner, env) }
	if in.Exec != nil {
		record := func(real ociauth.HelperRunner) ociauth.HelperRunner {
			return func(helperName, serverURL string) (ociauth.ConfigEntry, error) {
				calls = append(calls, [2]string{helperName, serverURL})
				return real(helperName, serverURL)
			}
		}
		switch in.Exec.Mode {
		case "nil":
			callsSeen = false
			load = func() (*ociauth.ConfigFile, error) { return ociauth.LoadWithEnv(nil, env) }
		case "load":
			callsSeen = false
			load = func() (*ociauth.ConfigFile, error) { return ociauth.Load(nil) }
		case "wrap":
			load = func() (*ociauth.ConfigFile, error) {
				return ociauth.LoadWithEnv(record(ociauth.ExecHelperWithEnv(env)), env)
			}
		case "wrap-default":
			load = func() (*ociauth.ConfigFile, error) { return ociauth.LoadWithEnv(record(ociauth.ExecHelper), env) }
		default:
			panic("unknown exec mode " + in.Exec.Mode)
		}
	}

	loads := 20
	if in.Exec != nil {
		loads = 2 // every lookup starts a process; the map iteration order is the other streams' business
	}
	// deterministic per input, independent of the global stream (so that a replay repeats it)
	lr := rand.New(rand.NewSource(int64(len(doc))*7919 + int64(len(in.Hosts))))
	loadFailed, loadPanic, loadOk := 0, 0, 0
	var order []string // hosts in first-seen order
	obs := map[string]map[string]*lookupObs{}
	record := func(host S, coq, show string) {
		m := obs[string(host)]
		if m == nil {
			m = map[string]*lookupObs{}
			obs[string(host)] = m
			order = append(order, string(host))
		}
		if m[coq] == nil {
			m[coq] = &lookupObs{Host: host, Coq: coq, Show: show}
		}
		m[coq].Count++
	}
	for l := 0; l < loads; l++ {
		var cf *ociauth.ConfigFile
		var err error
		p, _ := hx.Recover(func() { cf, err = load() })
		switch {
		case p:
			loadPanic++
			continue
		case err != nil:
			loadFailed++
			continue
		}
		loadOk++
		n := len(in.Hosts)
		seqs := make([][]int, 3)
		for i := 0; i < n; i++ {
			seqs[0] = append(seqs[0], i)
			seqs[1] = append(seqs[1], n-1-i)
		}
		seqs[2] = lr.Perm(n)
		if n > 0 {
			seqs[2] = append(seqs[2], seqs[2][0]) // and one host twice in a row
		}
		for _, seq := range seqs {
			for _, i := range seq {
				h := in.Hosts[i]
				calls = nil
				var e ociauth.ConfigEntry
				var lerr error
				p, pv := hx.Recover(func() { e, lerr = cf.EntryForRegistry(string(h)) })
				if in.Exec != nil {
					logged := collectCallLogs(binDirs)
					if !callsSeen {
						calls = logged
					}
				}
				if p {
					record(h, "LPanic", "panic: "+pv)
					continue
				}
				cls, clsShow := "ENone", "ok"
				switch {
				case lerr == nil:
				case errors.Is(lerr, ociauth.ErrHelperNotFound):
					cls, clsShow = "EMissing", "error(helper not found)"
				default:
					cls, clsShow = "EOther", "error"
				}
				var cs, csShow []string
				for _, c := range calls {
					cs = append(cs, "("+hx.B(c[0])+", "+hx.B(c[1])+")")
					csShow = append(csShow, fmt.Sprintf("%q(%q)", c[0], c[1]))
				}
				ce := centry{S(e.RefreshToken), S(e.AccessToken), S(e.Username), S(e.Password)}
				js, _ := json.Marshal(ce)
				record(h, fmt.Sprintf("LO %s %s %s", coqCE(ce), cls, hx.List(cs)),
					fmt.Sprintf("%s entry=%s calls=[%s]", clsShow, js, strings.Join(csShow, " ")))
			}
		}
	}

	// the case term
	var es []string
	for _, e := range in.Auths {
		plain := "None"
		if e.Plain != nil {
			plain = fmt.Sprintf("(Some (%s, %s))", hx.B(string(e.Plain[0])), hx.B(string(e.Plain[1])))
		}
		es = append(es, fmt.Sprintf("EN %s %s %s %s %s %s %s", hx.B(string(e.Key)), hx.B(string(e.Username)), hx.B(string(e.Password)),
			hx.B(string(e.Auth)), hx.B(string(e.IdentityToken)), hx.B(string(e.RegistryToken)), plain))
	}
	if in.AuthsMode == "absent" || in.AuthsMode == "null" {
		es = nil
	}
	var hs []string
	for _, h := range in.CredHelpers {
		hs = append(hs, "("+hx.B(string(h.K))+", "+hx.B(string(h.V))+")")
	}
	var rs []string
	for _, r := range in.Runner {
		rs = append(rs, fmt.Sprintf("(%s, %s, %s)", hx.B(string(r.Helper)), hx.B(string(r.Host)), coqRes(r.Res)))
	}
	path := "None"
	if in.Exec != nil {
		path = "(Some " + coqPath(in.Exec.Path) + ")"
	}
	mk := func(load string, lookups []string) string {
		return fmt.Sprintf("{| c_auths := %s; c_store := %s; c_helpers := %s; c_runner := %s; c_rdefault := %s; c_path := %s; c_calls_seen := %s; c_load := %s; c_lookups := %s |}",
			hx.List(es), hx.B(string(in.CredsStore)), hx.List(hs), hx.List(rs), coqRes(in.RunnerDefault), path, hx.Bool(callsSeen), load, hx.List(lookups))
	}
	var out []hx.Case
	emit := func(load string, n int, lookups []string, shown []*lookupObs) {
		t := map[string]any{"origin": origin, "load": load}
		for k, v := range tags {
			t[k] = v
		}
		if _, ok := t["class"]; !ok {
			t["class"] = origin
		}
		if origin == "auth-leading-nul" {
			// The known finding is matched by this class.  It is given ONLY when the observation
			// differs from the property in nothing but the removal of the password's leading NULs
			// (checked here on the observation itself); anything else in such a document keeps a
			// class of its own and is reported as a violation.
			t["class"] = "auth-leading-nul-unexpected"
			if load == "LoadOk" && len(in.Auths) == 1 && in.Auths[0].Plain != nil && len(in.Hosts) == 1 && len(shown) == 1 {
				u, p := string(in.Auths[0].Plain[0]), string(in.Auths[0].Plain[1])
				want := centry{User: S(u), Pass: S(strings.TrimLeft(p, "\x00"))}
				js, _ := json.Marshal(want)
				if shown[0].Show == fmt.Sprintf("ok entry=%s calls=[]", js) && want.Pass != S(p) {
					t["class"] = "auth-leading-nul"
				}
			}
		}
		out = append(out, hx.Case{Coq: mk(load, lookups),
			Desc: map[string]any{"input": in, "origin": origin, "document": doc,
				"observed": map[string]any{"load": load, "loads_with_this_outcome": n, "lookups": shown}},
			Tags: t})
	}
	if loadPanic > 0 {
		emit("LoadPanic", loadPanic, nil, nil)
	}
	if loadFailed > 0 {
		emit("LoadFailed", loadFailed, nil, nil)
	}
	if loadOk > 0 {
		var lookups []string
		var shown []*lookupObs
		for _, h := range order {
			var ks []string
			for k := range obs[h] {
				ks = append(ks, k)
			}
			sort.Strings(ks)
			for _, k := range ks {
				lookups = append(lookups, "("+hx.B(h)+", "+k+")")
				shown = append(shown, obs[h][k])
			}
		}
		emit("LoadOk", loadOk, lookups, shown)
	}
	return out
}

// ---------------------------------------------------------------- real helper programs

// setenvs sets process environment variables and returns the function that puts the old values back.
func setenvs(kv map[string]string) func() {
	type old struct {
		v  string
		ok bool
	}
	olds := map[string]old{}
	for k, v := range kv {
		ov, ok := os.LookupEnv(k)
		olds[k] = old{ov, ok}
		if err := os.Setenv(k, v); err != nil {
			panic(err)
		}
	}
	return func() {
		for k, o := range olds {
			if o.ok {
				os.Setenv(k, o.v)
			} else {
				os.Unsetenv(k)
			}
		}
	}
}

func shq(s string) string { return "'" + strings.ReplaceAll(s, "'", `'\''`) + "'" }

func (e pendIn) script() string {
	out := string(e.Out)
	status := "0"
	if !e.Exit0 {
		status = []string{"1", "2", "255"}[len(out)%3]
	}
	switch e.How {
	case "stderr":
		return fmt.Sprintf("printf '%%s' %s >&2; exit %s", shq(out), status)
	case "split":
		h := len(out) / 2
		return fmt.Sprintf("printf '%%s' %s; printf '%%s' %s >&2; exit %s", shq(out[:h]), shq(out[h:]), status)
	case "signal":
		if e.Exit0 {
			panic("a process killed by a signal does not exit with status 0")
		}
		return fmt.Sprintf("printf '%%s' %s; kill -KILL $$; sleep 5; exit 0", shq(out))
	case "":
		return fmt.Sprintf("printf '%%s' %s; exit %s", shq(out), status)
	}
	panic("unknown how " + e.How)
}

// helperScript is a credential helper: it insists on the single argument get, reads the server
// URL from standard input, logs it next to itself and answers as told.  Shell builtins only (the
// process may be started with an environment that has no PATH).
func helperScript(f pfileIn) string {
	var sb strings.Builder
	sb.WriteString("#!/bin/sh\n")
	sb.WriteString("if [ \"$#\" -ne 1 ] || [ \"$1\" != get ]; then echo \"usage: $0 get\"; exit 64; fi\n")
	sb.WriteString("host=\nIFS= read -r host || :\n")
	sb.WriteString("printf '%s\\n' \"$host\" >> \"$0.calls\"\n")
	sb.WriteString("case \"$host\" in\n")
	seen := map[string]bool{}
	for _, a := range f.Answers {
		if seen[string(a.Host)] { // first entry wins, as map_get in the model
			continue
		}
		seen[string(a.Host)] = true
		fmt.Fprintf(&sb, "%s) %s ;;\n", shq(string(a.Host)), a.End.script())
	}
	fmt.Fprintf(&sb, "*) %s ;;\nesac\n", f.Default.script())
	return sb.String()
}

// installPath creates one directory per PATH element under dir and fills it.
func installPath(dir string, path [][]pfileIn) []string {
	must := func(err error) {
		if err != nil {
			panic(err)
		}
	}
	var dirs []string
	for i, d := range path {
		bin := filepath.Join(dir, fmt.Sprintf("bin%d", i))
		must(os.MkdirAll(bin, 0o755))
		dirs = append(dirs, bin)
		seen := map[string]bool{}
		for j, f := range d {
			if seen[f.File] || f.File == "" || strings.ContainsAny(f.File, "/\x00") {
				panic("bad helper file name in PATH directory: " + f.File)
			}
			seen[f.File] = true
			name := filepath.Join(bin, f.File)
			switch f.Kind {
			case "dir":
				must(os.Mkdir(name, 0o755))
			case "noexec":
				must(os.WriteFile(name, []byte(helperScript(f)), 0o644))
			case "dangling":
				must(os.Symlink(filepath.Join(dir, "nowhere", f.File), name))
			case "broken-format":
				must(os.WriteFile(name, []byte("\x00\x01\x02 this is not a program\n"), 0o755))
			case "broken-empty":
				must(os.WriteFile(name, nil, 0o755))
			case "broken-interp":
				must(os.WriteFile(name, []byte("#!"+filepath.Join(dir, "nowhere", "interpreter")+"\n"+helperScript(f)), 0o755))
			case "prog":
				must(os.WriteFile(name, []byte(helperScript(f)), 0o755))
			case "prog-link":
				tdir := filepath.Join(dir, fmt.Sprintf("target%d_%d", i, j))
				must(os.MkdirAll(tdir, 0o755))
				must(os.WriteFile(filepath.Join(tdir, "helper"), []byte(helperScript(f)), 0o755))
				must(os.Symlink(filepath.Join(tdir, "helper"), name))
			default:
				panic("unknown file kind " + f.Kind)
			}
		}
	}
	return dirs
}

// collectCallLogs returns (helper name, standard input) for every start of a helper script since
// the last call, and empties the logs.
func collectCallLogs(dirs []string) [][2]string {
	var calls [][2]string
	for _, d := range dirs {
		logs, _ := filepath.Glob(filepath.Join(d, "*.calls"))
		sort.Strings(logs)
		for _, l := range logs {
			b, err := os.ReadFile(l)
			os.Remove(l)
			if err != nil {
				continue
			}
			name := strings.TrimSuffix(filepath.Base(l), ".calls")
			helper, ok := strings.CutPrefix(name, "docker-credential-")
			if !ok {
				helper = "(file " + name + ")" // a program that is not a credential helper was started
			}
			for _, line := range strings.Split(strings.TrimSuffix(string(b), "\n"), "\n") {
				calls = append(calls, [2]string{helper, line})
			}
		}
	}
	return calls
}

func coqPend(e pendIn) string {
	return fmt.Sprintf("(PE %s %s)", hx.Bool(e.Exit0), hx.B(string(e.Out)))
}

func coqPath(path [][]pfileIn) string {
	var ds []string
	for _, d := range path {
		var fs []string
		for _, f := range d {
			var k string
			switch f.Kind {
			case "dir":
				k = "FDir"
			case "noexec":
				k = "FNoExec"
			case "dangling":
				k = "FDangling"
			case "broken-format", "broken-empty", "broken-interp":
				k = "FBroken"
			case "prog", "prog-link":
				var as []string
				for _, a := range f.Answers {
					as = append(as, "("+hx.B(string(a.Host))+", "+coqPend(a.End)+")")
				}
				k = "(FProg " + hx.List(as) + " " + coqPend(f.Default) + ")"
			default:
				panic("unknown file kind " + f.Kind)
			}
			fs = append(fs, "("+hx.B(f.File)+", "+k+")")
		}
		ds = append(ds, hx.List(fs))
	}
	return hx.List(ds)
}

// ---------------------------------------------------------------- generators

type gen struct {
	r   *rand.Rand
	seq int
}

func (g *gen) pick(xs []string) string { return xs[g.r.Intn(len(xs))] }

func (g *gen) n() int { g.seq++; return g.seq }

var hostPool = []string{"reg.example.com", "b.io", "localhost:5000", "r", "", "h-é.test", "10.0.0.1:443", "sub.reg.example.com"}

// key forms for a host; the first is the explicit (host) form
var keyForms = []func(h string) string{
	func(h string) string { return h },
	func(h string) string { return "https://" + h },
	func(h string) string { return "https://" + h + "/" },
	func(h string) string { return "https://" + h + "/v1/" },
	func(h string) string { return "http://" + h + "/v2" },
	func(h string) string { return "http://" + h },
	func(h string) string { return h + "//x" },
	func(h string) string { return "https://" + h + "//a//b" },
	func(h string) string { return "//" + h + "/p" },
	func(h string) string { return "ftp://" + h + "/x" },
	func(h string) string { return "HTTPS://" + h + "/" },
	func(h string) string { return "http://https://" + h },
	func(h string) string { return h + "/" },
	func(h string) string { return "https:/" + h },
	func(h string) string { return "https://" + h + "/v2/" },
	func(h string) string { return "http://" + h + "/" },
}

// forms 1..7, 14, 15 derive exactly h
var derivingForms = []int{1, 2, 3, 4, 5, 6, 7, 14, 15}

func (g *gen) key(h string) string {
	switch x := g.r.Intn(100); {
	case x < 35:
		return h
	case x < 80:
		return keyForms[derivingForms[g.r.Intn(len(derivingForms))]](h)
	default:
		return keyForms[g.r.Intn(len(keyForms))](h)
	}
}

func b64(u, p string) string { return base64.StdEncoding.EncodeToString([]byte(u + ":" + p)) }

var (
	plainUsers  = []string{"user", "testuser", "a b", "x@y.z", "ü", "\xff\xfe", "u\x00v", "U", " lead", "tab\t"}
	plainPasses = []string{"password", "", "p:w", "p\x00w", "\xffbin\x80", "pass word", ":", "::", "p\x00\x00w", "s3cr3t/+=", "\n", "0"}
	rawUsers    = []string{"foo", "baz", "u1", "a b", "üß", "x:y", "q\x00", " "}
	rawPasses   = []string{"bar", "arble", "p", "", "\x00lead", "trail\x00", "\x00", "wé", "a:b"}
	tokens      = []string{"idtok", "eyJhbGciOi", "t\x00k", "tok en"}
	oddAuths    = []string{"!!!", "dGVzdA", "dGVzdA=", "dGVzdDpw\n", "dGVz\r\ndDpw", "dGVzdDpwYQ=\n=", "dGVzdDpwYR==", "dGVzdDpwYW=",
		"dGVzdDpw====", "dGVzdA==", "=", "==", "Og==", "OnB3", " dGVzdDpw", "dGVzdDpw ", "dGVzdDp-", "dGVzdDp_", "dGVzdDpwYQ==dGVz",
		"dGVzdDpwYQ==\n\r\n", "\n", "dGVzdDpwYQ", "dGVzdDpwY", "dGVzdDpwYQ=", "dGVzdDpwYQ= =", "ZGF0YTo=", "dTpwAAA=", "dToAcAA=", "\r\ndTpw", "d\nT\np\nw",
		"dTpwé", "dTp", "dTp=", "d===", "dT==", "dQ==", "dTo=", "dTpw=", "dTpwdTpwdTpwdTpwdTpwdTpwdTpwdTpw", "dTpwdTpwdTpwdTpwdTpwdTpwdTpwdT==",
		"dTpwdTpwdTpwdTp\ndTpwdTpwdTpwdTpw", "dTpwdTpwdTpwdTp!dTpwdTpwdTpwdTpw", "dTpwdTpwdT=wdTpwdTpwdTpwdTpwdTpw"}
)

// creds fills the credential members of an entry; kind < 0 = random
func (g *gen) creds(e *entryIn, kind int) string {
	if kind < 0 {
		x := g.r.Intn(100)
		switch {
		case x < 28:
			kind = 0
		case x < 52:
			kind = 1
		case x < 60:
			kind = 2
		case x < 68:
			kind = 3
		case x < 73:
			kind = 4
		case x < 76:
			kind = 5
		case x < 81:
			kind = 6
		case x < 84:
			kind = 7
		case x < 88:
			kind = 8
		case x < 93:
			kind = 9
		default:
			kind = 10
		}
	}
	tag := fmt.Sprintf("%d", g.n())
	setPlain := func(u, p string) {
		e.Auth = S(b64(u, p))
		e.Plain = &[2]S{S(u), S(p)}
	}
	switch kind {
	case 0: // username + password
		e.Username = S(g.pick(rawUsers) + tag)
		e.Password = S(g.pick(rawPasses))
		return "userpass"
	case 1: // auth of the property's shape
		u, p := g.pick(plainUsers)+tag, g.pick(plainPasses)
		if g.r.Intn(4) == 0 {
			p += tag
		}
		setPlain(u, p)
		return "auth"
	case 2: // auth and username/password: auth takes their place
		setPlain(g.pick(plainUsers)+tag, g.pick(plainPasses))
		e.Username = S(g.pick(rawUsers))
		e.Password = S(g.pick(rawPasses))
		return "auth+userpass"
	case 3:
		e.IdentityToken = S(g.pick(tokens) + tag)
		return "identitytoken"
	case 4:
		e.RegistryToken = S(g.pick(tokens) + tag)
		return "registrytoken"
	case 5:
		e.IdentityToken = S(g.pick(tokens) + tag)
		e.RegistryToken = S(g.pick(tokens))
		if g.r.Intn(2) == 0 {
			e.Password = S(g.pick(rawPasses))
		}
		return "identitytoken+registrytoken"
	case 6: // ambiguous
		e.IdentityToken = S(g.pick(tokens))
		e.Username = S(g.pick(rawUsers) + tag)
		e.Password = S(g.pick(rawPasses))
		return "ambiguous-user"
	case 7: // ambiguous through the decoded auth
		e.IdentityToken = S(g.pick(tokens))
		setPlain(g.pick(plainUsers)+tag, g.pick(plainPasses))
		return "ambiguous-auth"
	case 8:
		if g.r.Intn(2) == 0 {
			e.Extra = true
		}
		return "empty"
	case 9: // annotated, but outside the property's shape (the decoder still has to agree)
		switch g.r.Intn(4) {
		case 0:
			setPlain("", g.pick(plainPasses))
		case 1:
			setPlain("a:b"+tag, g.pick(plainPasses))
		case 2:
			setPlain(g.pick(plainUsers)+tag, g.pick(plainPasses)+"\x00")
		default:
			setPlain(g.pick(plainUsers)+tag, "pw\x00\x00")
		}
		if g.r.Intn(3) == 0 {
			e.RegistryToken = S("rt" + tag)
		}
		return "auth-outside-shape"
	default: // raw odd auth strings
		e.Auth = S(g.pick(oddAuths))
		if g.r.Intn(3) == 0 {
			e.Username = S("fallback" + tag)
		}
		return "auth-odd"
	}
}

func (g *gen) runnerRes(kind int, helper, host string) rres {
	if kind < 0 {
		kind = g.r.Intn(8)
	}
	id := helper + "/" + host
	switch kind {
	case 0:
		return rres{Entry: centry{User: S("hu-" + id), Pass: S("hp-" + id)}}
	case 1:
		return rres{Entry: centry{Refresh: S("tok-" + id)}}
	case 2:
		return rres{}
	case 3:
		return rres{Err: 1}
	case 4:
		return rres{Err: 2}
	case 5:
		return rres{Entry: centry{User: S("ghost-" + id)}, Err: 1}
	case 6:
		return rres{Entry: centry{User: S("partial-" + id), Access: "acc"}, Err: 2}
	default:
		return rres{Entry: centry{Refresh: S("r-" + id), Access: S("a-" + id), User: S("u-" + id), Pass: "p"}}
	}
}

var runnerKindNames = []string{"credentials", "token", "not-found", "missing-binary", "other-error", "missing-binary+entry", "other-error+entry", "all-fields"}

// guessHost is used ONLY to choose which hosts to look up (never for expectations).
func guessHost(k string) string {
	t := k
	for _, p := range []string{"http://", "https://"} {
		if strings.HasPrefix(t, p) {
			t = t[len(p):]
			break
		}
	}
	if i := strings.Index(t, "/"); i >= 0 {
		t = t[:i]
	}
	return t
}

func (g *gen) hostsFor(in *input, extra ...string) {
	seen := map[string]bool{}
	add := func(h string) {
		if !seen[h] && utf8.ValidString(h) {
			seen[h] = true
			in.Hosts = append(in.Hosts, S(h))
		}
	}
	for _, e := range in.Auths {
		add(guessHost(string(e.Key)))
	}
	for _, e := range in.Auths {
		add(string(e.Key))
	}
	for _, h := range in.CredHelpers {
		add(string(h.K))
	}
	for _, h := range extra {
		add(h)
	}
	add("absent.example")
	add("")
	g.r.Shuffle(len(in.Hosts), func(i, j int) { in.Hosts[i], in.Hosts[j] = in.Hosts[j], in.Hosts[i] })
}

// fillRunner gives every (helper, host) pair that can be consulted a result.
func (g *gen) fillRunner(in *input, kind int) {
	helpers := map[string]bool{}
	if in.CredsStore != "" {
		helpers[string(in.CredsStore)] = true
	}
	for _, h := range in.CredHelpers {
		if h.V != "" {
			helpers[string(h.V)] = true
		}
	}
	var hl []string
	for h := range helpers {
		hl = append(hl, h)
	}
	sort.Strings(hl)
	for _, hp := range hl {
		for _, h := range in.Hosts {
			if g.r.Intn(10) == 0 {
				continue // left to the default
			}
			in.Runner = append(in.Runner, rent{Helper: S(hp), Host: h, Res: g.runnerRes(kind, hp, string(h))})
		}
	}
	in.RunnerDefault = g.runnerRes(-1, "default", "default")
}

func (g *gen) location(in *input) {
	switch x := g.r.Intn(10); x {
	case 0:
		in.Location = "home"
	case 1:
		in.Location = "xdg"
	}
}

var helperNames = []string{"osxkeychain", "desktop", "ecr-login", "pass", "x"}

// random document
func (g *gen) random(out *hx.Out) input {
	var in input
	nh := 1 + g.r.Intn(3)
	hosts := make([]string, nh)
	for i := range hosts {
		hosts[i] = g.pick(hostPool)
	}
	ne := g.r.Intn(7)
	if g.r.Intn(10) == 0 {
		ne = 7 + g.r.Intn(6)
	}
	used := map[string]bool{}
	for i := 0; i < ne; i++ {
		k := g.key(hosts[g.r.Intn(nh)])
		if used[k] || !utf8.ValidString(k) {
			continue
		}
		used[k] = true
		e := entryIn{Key: S(k)}
		out.Count("entry:" + g.creds(&e, -1))
		in.Auths = append(in.Auths, e)
	}
	if len(in.Auths) == 0 {
		switch g.r.Intn(4) {
		case 0:
			in.AuthsMode = "absent"
		case 1:
			in.AuthsMode = "null"
		}
	}
	if g.r.Intn(10) < 3 {
		in.CredsStore = S(g.pick(helperNames))
	}
	if g.r.Intn(10) < 4 {
		n := 1 + g.r.Intn(3)
		usedh := map[string]bool{}
		for i := 0; i < n; i++ {
			h := hosts[g.r.Intn(nh)]
			if g.r.Intn(5) == 0 {
				h = g.pick(hostPool)
			}
			if g.r.Intn(8) == 0 && len(in.Auths) > 0 {
				h = string(in.Auths[g.r.Intn(len(in.Auths))].Key) // a helper for a literal URL-form key
			}
			if usedh[h] {
				continue
			}
			usedh[h] = true
			v := g.pick(helperNames)
			if g.r.Intn(8) == 0 {
				v = ""
			}
			in.CredHelpers = append(in.CredHelpers, kv{S(h), S(v)})
		}
	}
	g.hostsFor(&in, hosts...)
	g.fillRunner(&in, -1)
	g.location(&in)
	return in
}

// ---------------------------------------------------------------- generators for the real runner

const (
	helperFilePrefix = "docker-credential-"
	notFoundMsg      = "credentials not found in native keychain"
)

func credsJSON(u, p string) string {
	return `{"ServerURL":"registry","Username":"` + u + `","Secret":"` + p + `"}`
}

var answerKindNames = []string{"credentials", "token", "not-found", "not-found-padded", "not-found-stderr", "not-found-split",
	"other-message", "not-found-with-suffix", "not-found-exit0", "credentials-exit1", "empty-exit0", "empty-exit1", "garbage-exit0",
	"killed", "not-found-then-killed", "credentials-no-newline", "credentials-punctuation", "not-found-capitalised", "not-found-prefix",
	"credentials-stderr"}

// answer builds how a helper program ends; id makes the credentials distinct.
func answer(kind int, id string) pendIn {
	e := answerOf(kind, id)
	e.Kind = answerKindNames[kind]
	return e
}

func answerOf(kind int, id string) pendIn {
	switch kind {
	case 0:
		return pendIn{Exit0: true, Out: S(credsJSON("hu-"+id, "hp-"+id) + "\n")}
	case 1:
		return pendIn{Exit0: true, Out: S(credsJSON("<token>", "tok-"+id) + "\n")}
	case 2:
		return pendIn{Out: notFoundMsg + "\n"}
	case 3:
		return pendIn{Out: " \t\n" + notFoundMsg + "\r\n\n \v\f"}
	case 4:
		return pendIn{Out: notFoundMsg + "\n", How: "stderr"}
	case 5:
		return pendIn{Out: notFoundMsg + "\n", How: "split"}
	case 6:
		return pendIn{Out: S("error: keychain is locked (" + id + ")\n")}
	case 7:
		return pendIn{Out: S(notFoundMsg + ": " + id + "\n")}
	case 8:
		return pendIn{Exit0: true, Out: notFoundMsg + "\n"}
	case 9:
		return pendIn{Out: S(credsJSON("hu-"+id, "hp-"+id) + "\n")}
	case 10:
		return pendIn{Exit0: true}
	case 11:
		return pendIn{}
	case 12:
		return pendIn{Exit0: true, Out: S("Error: no credentials for " + id + "\n")}
	case 13:
		return pendIn{Out: "partial output", How: "signal"}
	case 14:
		return pendIn{Out: notFoundMsg + "\n", How: "signal"}
	case 15:
		return pendIn{Exit0: true, Out: S(credsJSON("hu-"+id, "hp-"+id))}
	case 16:
		return pendIn{Exit0: true, Out: S(credsJSON("a b'c{}<token>,:"+id, "$HOME `x` %s ' ;#"+id) + "\n")}
	case 17:
		return pendIn{Out: "Credentials not found in native keychain\n"}
	case 18:
		return pendIn{Out: "credentials not found\n"}
	default:
		return pendIn{Exit0: true, Out: S(credsJSON("hu-"+id, "hp-"+id) + "\n"), How: "stderr"}
	}
}

var execModes = []string{"nil", "wrap", "load", "wrap-default"}

// what one PATH directory holds under the helper's name
var pathShapes = [][]string{
	nil,          // PATH has no directories at all
	{""},         // nothing of that name
	{"dir"},
	{"noexec"},
	{"dangling"},
	{"broken-format"},
	{"broken-empty"},
	{"broken-interp"},
	{"prog"},
	{"prog-link"},
	{"", "prog"},
	{"dir", "prog"},
	{"noexec", "prog"},
	{"dangling", "prog-link"},
	{"noexec", "broken-format"},
	{"dir", "broken-interp", "prog"},
	{"broken-empty", "prog"},
	{"prog", "broken-format"},
	{"dir", "noexec", "dangling"},
	{"prog:2", "prog"}, // the first program is the helper: it says not found, the second has credentials
	{"noexec:0", "dir", "prog:6"},
}

// shapePath builds the PATH directories for helper name from a shape; other names are noise.
func shapePath(shape []string, name string, hosts []S) [][]pfileIn {
	var path [][]pfileIn
	for i, k := range shape {
		var d []pfileIn
		// noise: a program under the bare helper name and one under a longer name
		d = append(d, pfileIn{File: name, Kind: "prog", Default: answer(0, "bare-name")},
			pfileIn{File: helperFilePrefix + name + "-x", Kind: "prog", Default: answer(0, "longer-name")})
		if k != "" {
			kind, ak := k, 0
			if j := strings.Index(k, ":"); j >= 0 {
				kind = k[:j]
				fmt.Sscanf(k[j+1:], "%d", &ak)
			}
			f := pfileIn{File: helperFilePrefix + name, Kind: kind, Default: answer(2, "")}
			for _, h := range hosts {
				f.Answers = append(f.Answers, answerIn{h, answer(ak, fmt.Sprintf("%s/%s@%d", name, h, i))})
			}
			d = append(d, f)
		}
		path = append(path, d)
	}
	return path
}

func execStreams(g *gen, add func(input, string, map[string]any), n int) {
	host, other := "reg.example.com", "other.example"
	hosts := []S{S(host), S(other), "absent.example"}
	tableFor := func(in *input, table int) {
		switch table {
		case 1:
			in.Auths = []entryIn{{Key: S(host), Username: "tu", Password: "tp"}, {Key: S(other), Username: "ou", Password: "op"}}
		case 2:
			in.Auths = []entryIn{{Key: S("https://" + host + "/v1/"), Username: "du", Password: "dp"}, {Key: S(other), IdentityToken: "oidt"}}
		}
	}
	// -- classification of what PATH holds x where the helper is named x table
	for si, shape := range pathShapes {
		for prec := 0; prec < 4; prec++ {
			var in input
			table := 1
			if prec == 3 {
				table = 0
			}
			tableFor(&in, table)
			var path [][]pfileIn
			switch prec {
			case 0, 3: // the default store
				in.CredsStore = "store"
				path = shapePath(shape, "store", hosts[:2])
			case 1: // a per-host helper, and a working default store behind it
				in.CredHelpers = []kv{{S(host), "perhost"}}
				in.CredsStore = "store"
				path = shapePath(shape, "perhost", hosts[:2])
				path = append(path, []pfileIn{{File: helperFilePrefix + "store", Kind: "prog", Default: answer(0, "store")}})
			case 2: // the default store, and a working per-host helper for the other host
				in.CredsStore = "store"
				in.CredHelpers = []kv{{S(other), "otherhelper"}}
				path = shapePath(shape, "store", hosts[:2])
				path = append(path, []pfileIn{{File: helperFilePrefix + "otherhelper", Kind: "prog", Default: answer(1, "otherhelper")}})
			}
			in.Exec = &execIn{Path: path, Mode: execModes[(si+prec)%len(execModes)]}
			in.Hosts = hosts
			add(in, "exec-classify", map[string]any{"shape": si, "prec": prec})
		}
	}
	// -- every way a helper program can end x where the helper is named
	for ak := range answerKindNames {
		for prec := 0; prec < 2; prec++ {
			var in input
			tableFor(&in, 1+ak%2)
			name := "store"
			if prec == 1 {
				name = "perhost"
				in.CredHelpers = []kv{{S(host), "perhost"}}
			} else {
				in.CredsStore = "store"
			}
			f := pfileIn{File: helperFilePrefix + name, Kind: "prog", Default: answer(0, "default")}
			f.Answers = []answerIn{{S(host), answer(ak, name+"/"+host)}}
			in.Exec = &execIn{Path: [][]pfileIn{{f}}, Mode: execModes[(ak+2*prec)%len(execModes)]}
			in.Hosts = hosts
			add(in, "exec-answers", map[string]any{"answer": answerKindNames[ak], "prec": prec})
		}
	}
	// -- random: documents with up to three helper names, one to three PATH directories
	kinds := []string{"", "", "dir", "noexec", "dangling", "broken-format", "broken-empty", "broken-interp", "prog", "prog", "prog", "prog-link"}
	for i := 0; i < n; i++ {
		var in input
		tableFor(&in, g.r.Intn(3))
		names := map[string]bool{}
		if g.r.Intn(10) < 7 {
			in.CredsStore = S(g.pick(helperNames))
			names[string(in.CredsStore)] = true
		}
		for _, h := range hosts {
			if g.r.Intn(10) < 3 {
				v := g.pick(helperNames)
				if g.r.Intn(8) == 0 {
					v = ""
				}
				in.CredHelpers = append(in.CredHelpers, kv{h, S(v)})
				if v != "" {
					names[v] = true
				}
			}
		}
		var nl []string
		for nm := range names {
			nl = append(nl, nm)
		}
		sort.Strings(nl)
		nd := 1 + g.r.Intn(3)
		path := make([][]pfileIn, nd)
		for d := 0; d < nd; d++ {
			for _, nm := range nl {
				k := g.pick(kinds)
				if k == "" {
					continue
				}
				f := pfileIn{File: helperFilePrefix + nm, Kind: k, Default: answer(g.r.Intn(len(answerKindNames)), fmt.Sprintf("%s@%d", nm, d))}
				for _, h := range hosts {
					if g.r.Intn(2) == 0 {
						f.Answers = append(f.Answers, answerIn{h, answer(g.r.Intn(len(answerKindNames)), fmt.Sprintf("%s/%s@%d", nm, h, d))})
					}
				}
				path[d] = append(path[d], f)
			}
		}
		in.Exec = &execIn{Path: path, Mode: execModes[g.r.Intn(len(execModes))]}
		in.Hosts = append([]S(nil), hosts...)
		g.r.Shuffle(len(in.Hosts), func(i, j int) { in.Hosts[i], in.Hosts[j] = in.Hosts[j], in.Hosts[i] })
		add(in, "exec-random", nil)
	}
}

func features(in input) []string {
	var f []string
	if in.Exec != nil {
		f = append(f, "exec:mode="+in.Exec.Mode, fmt.Sprintf("exec:path-dirs=%d", len(in.Exec.Path)))
		for _, d := range in.Exec.Path {
			for _, pf := range d {
				if !strings.HasPrefix(pf.File, helperFilePrefix) || strings.HasSuffix(pf.File, "-x") {
					continue
				}
				f = append(f, "exec:file="+pf.Kind)
				if pf.Kind == "prog" || pf.Kind == "prog-link" {
					for _, a := range pf.Answers {
						f = append(f, "exec:answer="+a.End.Kind)
					}
				}
			}
		}
	}
	byHost := map[string]int{}
	explicit := map[string]bool{}
	for _, e := range in.Auths {
		k := string(e.Key)
		if strings.Contains(k, "//") {
			byHost[guessHost(k)]++
		} else {
			explicit[k] = true
		}
	}
	coll, both, single := false, false, false
	for h, n := range byHost {
		if n >= 2 {
			coll = true
		}
		if n == 1 {
			single = true
		}
		if explicit[h] {
			both = true
		}
	}
	if coll {
		f = append(f, "doc:colliding-url-keys")
	}
	if single {
		f = append(f, "doc:single-url-key")
	}
	if both {
		f = append(f, "doc:explicit+derived")
	}
	if in.CredsStore != "" {
		f = append(f, "doc:credsStore")
	}
	if len(in.CredHelpers) > 0 {
		f = append(f, "doc:credHelpers")
	}
	if len(in.Auths) == 0 {
		f = append(f, "doc:no-auths")
	}
	f = append(f, fmt.Sprintf("doc:entries=%d", min(len(in.Auths), 8)))
	if in.Location != "" {
		f = append(f, "location:"+in.Location)
	}
	return f
}

func main() {
	cfg := hx.ParseFlags()
	out := hx.NewOut(cfg, "Obs.C19")
	out.ShardMax = 400
	type pend struct {
		c      hx.Case
		counts []string
	}
	var pending []pend
	add := func(in input, origin string, tags map[string]any) {
		for _, c := range runCase(cfg, in, origin, tags) {
			counts := []string{"origin:" + origin, "load:" + c.Tags["load"].(string)}
			counts = append(counts, features(in)...)
			for _, r := range in.Runner {
				k := 7
				switch {
				case r.Res.Err == 1 && r.Res.Entry == (centry{}):
					k = 3
				case r.Res.Err == 1:
					k = 5
				case r.Res.Err == 2 && r.Res.Entry == (centry{}):
					k = 4
				case r.Res.Err == 2:
					k = 6
				case r.Res.Entry == (centry{}):
					k = 2
				case r.Res.Entry.Refresh != "" && r.Res.Entry.User == "":
					k = 1
				case r.Res.Entry.Refresh == "":
					k = 0
				}
				counts = append(counts, "runner:"+runnerKindNames[k])
			}
			pending = append(pending, pend{c, counts})
		}
	}
	finish := func() {
		os.RemoveAll(filepath.Join(cfg.Out, "scratch"))
		// Coq spends its time elaborating string literals, and the same few hundred strings occur
		// tens of thousands of times: name every literal that occurs at least three times.
		lit := regexp.MustCompile(`\(p \d+ \[[^\]]*\]\)`)
		freq := map[string]int{}
		for _, p := range pending {
			for _, m := range lit.FindAllString(p.c.Coq, -1) {
				freq[m]++
			}
		}
		names := map[string]string{}
		var pre strings.Builder
		for i := range pending {
			pending[i].c.Coq = lit.ReplaceAllStringFunc(pending[i].c.Coq, func(m string) string {
				if freq[m] < 3 {
					return m
				}
				n, ok := names[m]
				if !ok {
					n = fmt.Sprintf("b%d", len(names))
					names[m] = n
					fmt.Fprintf(&pre, "Definition %s : bytes := %s.\n", n, m[1:len(m)-1])
				}
				return n
			})
		}
		out.Preamble = pre.String()
		for _, p := range pending {
			if out.Add(p.c) {
				for _, k := range p.counts {
					out.Count(k)
				}
			}
		}
		if err := out.Flush(); err != nil {
			panic(err)
		}
	}
	type wrapped struct {
		Input  *input `json:"input"`
		Origin string `json:"origin"`
	}
	if cfg.Replay != "" {
		b, err := os.ReadFile(cfg.Replay)
		if err != nil {
			panic(err)
		}
		var w wrapped
		if err := json.Unmarshal(b, &w); err != nil || w.Input == nil {
			panic(fmt.Sprint("bad replay file: ", err))
		}
		origin := "replay"
		if w.Origin == "auth-leading-nul" {
			origin = w.Origin // keeps the class decision of that stream
		}
		add(*w.Input, origin, nil)
		finish()
		return
	}
	for _, raw := range hx.LoadCorpus(cfg.Corpus) {
		var w wrapped
		if json.Unmarshal(raw, &w) == nil && w.Input != nil {
			origin := "corpus"
			if w.Origin == "auth-leading-nul" {
				origin = w.Origin
			}
			add(*w.Input, origin, nil)
		}
	}
	g := &gen{r: cfg.Rand()}
	enumerated(g, add)
	n, nx := 1000, 60
	if cfg.Thorough() {
		n, nx = 12000, 600
	}
	// the real-runner streams draw from a generator of their own (the other streams keep theirs)
	execStreams(&gen{r: rand.New(rand.NewSource(cfg.Seed*7919 + 19))}, add, nx)
	for i := 0; i < n; i++ {
		add(g.random(out), "random", nil)
	}
	finish()
}

// enumerated streams: the fixtures of authfile_test.go, the precedence matrix, the collision
// matrix, the auth-field matrix, the base64 oddities, the leading-NUL known finding.
func enumerated(g *gen, add func(input, string, map[string]any)) {
	// -- precedence matrix: per-host helper {absent, "", name} x store {"", name} x runner result x table entry
	host := "reg.example.com"
	for ph := 0; ph < 3; ph++ {
		for st := 0; st < 2; st++ {
			for rk := 0; rk < 8; rk++ {
				for te := 0; te < 4; te++ {
					var in input
					switch te {
					case 1:
						in.Auths = []entryIn{{Key: S(host), Username: "tu", Password: "tp"}}
					case 2:
						in.Auths = []entryIn{{Key: S("https://" + host + "/v1"), Username: "du", Password: "dp"}}
					case 3:
						in.Auths = []entryIn{{Key: S("https://" + host + "/v1"), Username: "du", Password: "dp"},
							{Key: S("http://" + host), Username: "du2", Password: "dp2"}}
					}
					switch ph {
					case 1:
						in.CredHelpers = []kv{{S(host), ""}}
					case 2:
						in.CredHelpers = []kv{{S(host), "perhost"}, {"other.example", "otherhelper"}}
					}
					if st == 1 {
						in.CredsStore = "store"
					}
					in.Hosts = []S{S(host), "other.example", "third.example"}
					for _, hp := range []string{"perhost", "store", "otherhelper"} {
						for _, h := range in.Hosts {
							in.Runner = append(in.Runner, rent{S(hp), h, g.runnerRes(rk, hp, string(h))})
						}
					}
					in.RunnerDefault = rres{Entry: centry{User: "unexpected-call"}}
					add(in, "precedence-matrix", nil)
				}
			}
		}
	}
	// -- collision matrix: n URL-form keys for one host x explicit entry or not x ambiguous members
	for _, h := range []string{"reg.example.com", "localhost:5000", ""} {
		for n := 0; n <= 4; n++ {
			for ex := 0; ex < 2; ex++ {
				for amb := 0; amb < 3; amb++ {
					var in input
					perm := g.r.Perm(len(derivingForms))
					for i := 0; i < n; i++ {
						e := entryIn{Key: S(keyForms[derivingForms[perm[i]]](h)), Username: S(fmt.Sprintf("url%d", i)), Password: "p"}
						if amb == 1 && i == 0 || amb == 2 {
							e.IdentityToken = "idt"
						}
						in.Auths = append(in.Auths, e)
					}
					if ex == 1 {
						in.Auths = append(in.Auths, entryIn{Key: S(h), Username: "explicit", Password: "ep"})
					}
					other := "b.io"
					in.Auths = append(in.Auths, entryIn{Key: S("https://" + other + "/"), RegistryToken: "rt"})
					g.r.Shuffle(len(in.Auths), func(i, j int) { in.Auths[i], in.Auths[j] = in.Auths[j], in.Auths[i] })
					g.hostsFor(&in, h, other)
					in.RunnerDefault = rres{Entry: centry{User: "unexpected-call"}}
					add(in, "collision-matrix", nil)
				}
			}
		}
	}
	// -- auth matrix: every user x every password of the property's shape
	for _, u := range plainUsers {
		for _, p := range plainPasses {
			var in input
			in.Auths = []entryIn{{Key: "reg.example.com", Auth: S(b64(u, p)), Plain: &[2]S{S(u), S(p)}},
				{Key: "https://b.io/v1/", Auth: S(b64(u+"2", p)), Plain: &[2]S{S(u + "2"), S(p)}, Username: "ignored", Password: "ignored"}}
			in.Hosts = []S{"reg.example.com", "b.io", "https://b.io/v1/"}
			add(in, "auth-matrix", nil)
		}
	}
	// arbitrary bytes
	for i := 0; i < 60; i++ {
		ub := make([]byte, 1+g.r.Intn(6))
		for j := range ub {
			ub[j] = byte(g.r.Intn(256))
			if ub[j] == ':' {
				ub[j] = 'c'
			}
		}
		pb := make([]byte, g.r.Intn(9))
		for j := range pb {
			pb[j] = byte(g.r.Intn(256))
		}
		if len(pb) > 0 && (pb[len(pb)-1] == 0 || pb[0] == 0) {
			pb[0], pb[len(pb)-1] = 1, 1
		}
		var in input
		in.Auths = []entryIn{{Key: "reg.example.com", Auth: S(b64(string(ub), string(pb))), Plain: &[2]S{S(ub), S(pb)}}}
		in.Hosts = []S{"reg.example.com"}
		add(in, "auth-matrix", nil)
	}
	// -- base64 oddities, alone (load outcome) and beside a good entry
	for _, a := range oddAuths {
		for k := 0; k < 2; k++ {
			var in input
			in.Auths = []entryIn{{Key: "odd.example", Auth: S(a)}}
			if k == 1 {
				in.Auths = append(in.Auths, entryIn{Key: "https://odd.example/x", Username: "u", Password: "p"},
					entryIn{Key: "good.example", Username: "gu", Password: "gp"})
			}
			in.Hosts = []S{"odd.example", "good.example"}
			add(in, "base64-oddities", nil)
		}
	}
	// -- the fixtures of authfile_test.go
	fx := []input{
		{Auths: []entryIn{{Key: "someregistry.example.com", Auth: "dGVzdHVzZXI6cGFzc3dvcmQ=", Plain: &[2]S{"testuser", "password"}}}},
		{Auths: []entryIn{{Key: "someregistry.example.com", Auth: "!!!"}}},
		{Auths: []entryIn{{Key: "someregistry.example.com", Auth: "dGVzdHVzZXI6cGFzc3dvcmQ=", Username: "foo", Password: "bar"}}},
		{Auths: []entryIn{{Key: "https://someregistry.example.com/v1", Username: "foo", Password: "bar"}}},
		{Auths: []entryIn{{Key: "https://someregistry.example.com/v1", Username: "foo", Password: "bar"},
			{Key: "someregistry.example.com", Username: "baz", Password: "arble"}}},
		{Auths: []entryIn{{Key: "https://someregistry.example.com/v1", Username: "u1", Password: "p"},
			{Key: "http://someregistry.example.com/v1", Username: "u2", Password: "p"},
			{Key: "http://someregistry.example.com/v2", Username: "u3", Password: "p"}}},
		{CredHelpers: []kv{{"someregistry.example.com", "test"}}, AuthsMode: "absent"},
		{CredsStore: "test", AuthsMode: "absent"},
		{CredsStore: "definitely-not-found-executable", Auths: []entryIn{{Key: "someregistry.example.com", Username: "u1", Password: "p"}}},
		{AuthsMode: "absent"},
	}
	for _, in := range fx {
		for rk := 0; rk < 5; rk++ {
			in := in
			in.Hosts = []S{"someregistry.example.com", "https://someregistry.example.com/v1", "other.com"}
			in.Runner = nil
			for _, hp := range []string{"test", "definitely-not-found-executable"} {
				k := rk
				if hp != "test" {
					k = 3
				}
				for _, h := range in.Hosts {
					in.Runner = append(in.Runner, rent{S(hp), h, g.runnerRes(k, hp, string(h))})
				}
			}
			add(in, "unit-test-fixtures", nil)
			if in.CredsStore == "" && len(in.CredHelpers) == 0 {
				break
			}
		}
	}
	// -- known finding: a password starting with NUL inside an auth field
	for _, p := range []string{"\x00p", "\x00", "\x00\x00pw", "\x00p\x00q", "\x00:"} {
		for _, k := range []string{"reg.example.com", "https://reg.example.com/v1/"} {
			var in input
			in.Auths = []entryIn{{Key: S(k), Auth: S(b64("u", p)), Plain: &[2]S{"u", S(p)}}}
			in.Hosts = []S{"reg.example.com"}
			add(in, "auth-leading-nul", nil)
		}
	}
}
