// Harness for C08: ocimem under concurrent use.
//
//  1. runs the lock-structure extractor (harness/extract) on $VERIF_REPO and emits the table as a
//     case (CStruct): Coq compares it with the declared structure of the sectioned model and
//     evaluates the lockset / lock-order / atomic-region checks on it;
//  2. drives the real *ocimem.Registry from 2..16 goroutines over a small key space and
//     records invocation / response events in real-time order (CHist): Coq searches for
//     linearisation points, validates them against Mem.step and replays the schedule on the
//     sectioned model.  Every call has a context of its own with the lifetime its caller owes it
//     and no longer (see recorder), and the windows contain paged walks of the listings racing
//     with deletes of the page ends (see step);
//  3. forced schedules for the narrow windows (a goroutine holds Registry.mu through a large
//     PushManifest that fails after hashing, so that a Commit waits exactly between its digest
//     check and its callback), and stress loops aimed at the methods whose extracted lock
//     structure differs from the expected one;
//  4. the same loads through ociserver + ociclient and everything above run in a child process
//     with the race detector's reports written to files (CRace: number of reports);
//  5. cold starts (cold.go): fresh -race processes whose very first library calls are issued by
//     several goroutines at once, directly on ocimem and through ociserver (CCold: the number
//     of reports of each).
package main

import (
	"bytes"
	"context"
	"crypto/sha256"
	_ "embed"
	"encoding/json"
	"fmt"
	"math/rand"
	"net/http/httptest"
	"os"
	"os/exec"
	"path/filepath"
	"runtime/debug"
	"sort"
	"strings"
	"sync"
	"sync/atomic"
	"time"

	"cuelabs.dev/go/oci/ociregistry"
	"cuelabs.dev/go/oci/ociregistry/ociclient"
	"cuelabs.dev/go/oci/ociregistry/ocimem"
	"cuelabs.dev/go/oci/ociregistry/ociserver"
	ocispec "github.com/opencontainers/image-spec/specs-go/v1"
	"verif/harness/hx"
	"verif/harness/memsim"
)

//go:embed expected_table.json
var expectedTable []byte

// ---------------------------------------------------------------- recorded histories

type event struct {
	Seq int64          `json:"seq"`
	T   int            `json:"t"`
	Inv bool           `json:"inv"`
	Op  *memsim.Op     `json:"op,omitempty"`
	Res *memsim.Result `json:"res,omitempty"`
}

type histCase struct {
	Kind     string  `json:"kind"` // "history"
	Origin   string  `json:"origin"`
	Scenario string  `json:"scenario,omitempty"`
	Imm      bool    `json:"immutable"`
	HTTP     bool    `json:"http,omitempty"` // the concurrent phase went through ociclient -> ociserver
	NThreads int     `json:"nthreads"`
	Events   []event `json:"events"`
	// contents whose digests the generator computed (Commit digests name some of them)
	Contents [][]byte `json:"contents,omitempty"`
}

type recorder struct {
	seq  atomic.Int64
	logs [][]event // per thread
	ex   *memsim.Exec
	exc  *memsim.Exec // when set: used by doHTTP (a client of a server over the same registry)
	// Contexts.  No call is made with context.Background(): every call that does not hand out a
	// BlobWriter has a context of its own that is cancelled as soon as the call has returned
	// (memsim.Exec.CallCtx - what net/http does to a request context when the handler returns).
	// A PushBlobChunkedResume is made with a context of the calling thread, which stays live as
	// long as the thread holds the BlobWriter it got ("the context remains active as long as the
	// BlobWriter is around"): until the thread resumes again (it drops the older handle), until
	// release(t) (the thread is done: its handler returns), or - for the handles pinned by the
	// sequential setup, which the other threads share - until closeAll.  So the holders of one
	// upload session have different contexts with different lifetimes, and whatever keeps a
	// context beyond the lifetime its caller gave it and consults it later answers wrongly.
	holder []context.CancelFunc // per thread: context of the handle the thread resumed last
	pinned []context.CancelFunc
}

func newRecorder(reg ociregistry.Interface, nthreads int) *recorder {
	ex := memsim.NewExec(reg, true)
	ex.CallCtx = true
	return &recorder{logs: make([][]event, nthreads), ex: ex, holder: make([]context.CancelFunc, nthreads)}
}

// run makes the call of op by thread t with the context discipline described at recorder.
func (r *recorder) run(ex *memsim.Exec, t int, op memsim.Op) memsim.Result {
	if op.Kind != "PushBlobChunked" && op.Kind != "PushBlobChunkedResume" {
		return ex.Run(op)
	}
	ctx, cancel := context.WithCancel(context.Background())
	res := ex.RunCtx(ctx, op)
	if res.Kind != "writer" {
		cancel()
		return res
	}
	if old := r.holder[t]; old != nil {
		old()
	}
	r.holder[t] = cancel
	return res
}

// release: thread t is done with the handle it resumed (its handler returns).
func (r *recorder) release(t int) {
	if c := r.holder[t]; c != nil {
		c()
		r.holder[t] = nil
	}
}

// pin: the handle thread t holds now stays live until closeAll (the setup's handle, which the
// goroutines of the concurrent phase share).
func (r *recorder) pin(t int) {
	if c := r.holder[t]; c != nil {
		r.pinned = append(r.pinned, c)
		r.holder[t] = nil
	}
}

func (r *recorder) closeAll() {
	for t := range r.holder {
		r.release(t)
	}
	for _, c := range r.pinned {
		c()
	}
	r.pinned = nil
}

// do runs op on behalf of thread t (each thread is used by one goroutine at a time).
func (r *recorder) do(t int, op memsim.Op) memsim.Result {
	o := op
	r.logs[t] = append(r.logs[t], event{Seq: r.seq.Add(1), T: t, Inv: true, Op: &o})
	res := r.run(r.ex, t, op)
	res.Msg = ""
	r.logs[t] = append(r.logs[t], event{Seq: r.seq.Add(1), T: t, Res: &res})
	return res
}

// doHTTP is do through the HTTP stack.
func (r *recorder) doHTTP(t int, op memsim.Op) memsim.Result {
	o := op
	r.logs[t] = append(r.logs[t], event{Seq: r.seq.Add(1), T: t, Inv: true, Op: &o})
	res := r.run(r.exc, t, op)
	res.Msg = ""
	if res.Kind == "err" {
		res.Code = "" // not compared over HTTP
	}
	r.logs[t] = append(r.logs[t], event{Seq: r.seq.Add(1), T: t, Res: &res})
	return res
}

func (r *recorder) events() []event {
	var all []event
	for _, l := range r.logs {
		all = append(all, l...)
	}
	sort.Slice(all, func(i, j int) bool { return all[i].Seq < all[j].Seq })
	return all
}

func sha(c []byte) string { return memsim.Sha(c) }

func emitHistory(out *hx.Out, h histCase) {
	or := memsim.NewOracles()
	var evs []string
	overl, open := false, 0
	for _, e := range h.Events {
		if e.Inv {
			or.Observe(*e.Op)
			if e.Op.Kind == "WCommit" {
				or.Digest(e.Op.Digest)
			}
			evs = append(evs, fmt.Sprintf("HInv %d (%s)", e.T, e.Op.Coq()))
			if open > 0 {
				overl = true
			}
			open++
			out.Count("op:" + e.Op.Kind)
		} else {
			if e.Res.Kind == "read" {
				or.Content(e.Res.Data)
			}
			evs = append(evs, fmt.Sprintf("HRes %d (%s)", e.T, e.Res.Coq()))
			open--
			out.Count("result:" + e.Res.Kind)
			if e.Res.Kind == "err" {
				out.Count("errcode:" + e.Res.Code)
			}
		}
	}
	for _, c := range h.Contents {
		or.Content(c)
	}
	coq := fmt.Sprintf("CHist %s %s %s %d %s", or.Coq(), hx.Bool(h.Imm), hx.Bool(h.HTTP), h.NThreads, hx.List(evs))
	class := h.Origin
	if h.HTTP {
		class += ":http"
	}
	if h.Scenario != "" {
		class += ":" + h.Scenario
	}
	if out.Add(hx.Case{Coq: coq, Desc: h, Tags: map[string]any{"class": class, "kind": "history"}}) {
		out.Count("origin:" + class)
		out.Count(fmt.Sprintf("threads:%d", h.NThreads))
		if overl {
			out.Count("overlapping")
		}
	}
}

// ---------------------------------------------------------------- universe

var (
	repos  = []string{"a/b", "c"}
	tags   = []string{"t1", "t2"}
	blobs  = [][]byte{[]byte("blob-one"), []byte("blob-two"), []byte("b3")}
	mans   [][]byte
	mmedia []string
)

func init() {
	mans = [][]byte{[]byte(`{"m":1}`), []byte(`{"m":2}`)}
	mmedia = []string{"application/x-c08", "application/x-c08"}
	d := func(c []byte, mt string) ocispec.Descriptor {
		h := sha256.Sum256(c)
		return ocispec.Descriptor{MediaType: mt, Digest: ociregistry.Digest(fmt.Sprintf("sha256:%x", h)), Size: int64(len(c))}
	}
	img, _ := json.Marshal(ocispec.Manifest{MediaType: ocispec.MediaTypeImageManifest,
		Config: d(blobs[0], "application/x-cfg"), Layers: []ocispec.Descriptor{d(blobs[1], "application/x-layer")}})
	mans = append(mans, img)
	mmedia = append(mmedia, ocispec.MediaTypeImageManifest)
}

func pushBlobOp(repo string, c []byte) memsim.Op {
	return memsim.Op{Kind: "PushBlob", Repo: repo, Content: c, Desc: &memsim.Desc{Media: "application/octet-stream", Digest: sha(c), Size: int64(len(c))}}
}

// Listing starts: the keys themselves and strings that are not keys (before, between and after
// them): a listing resumes after its start whether or not the start is (still) an element.
var (
	walkTags   = []string{"t1", "t2", "t3", "t4"} // the tags of a walk window
	tagStarts  = []string{"", "t0", "t1", "t1x", "t2", "t2~", "t3", "t3.5", "t4", "t9"}
	repoStarts = []string{"", "a", "a/b", "a/c", "b", "c", "d"}
)

type window struct {
	rnd    *rand.Rand
	chunkN int
	init   []byte
}

// A step of a goroutine's plan.  Dyn steps depend on the listing the goroutine received last
// (a paged walk: every page is one listing call that starts after the last item of the page
// before; the caller takes Page items of each listing):
//
//	"next"    the same listing again, starting after the end of the previous page
//	"dellast" DeleteTag of the tag the previous page ended with (walks of tags only)
//
// What is recorded in the history is the resolved operation.
type step struct {
	Op   memsim.Op
	Dyn  string
	Page int
}

// walker is the state of one goroutine's paged walk.
type walker struct {
	have bool
	op   memsim.Op // the listing made last
	list []string  // its result
}

func (wk *walker) observe(op memsim.Op, res memsim.Result) {
	if (op.Kind == "Tags" || op.Kind == "Repositories") && res.Kind == "list" {
		wk.have, wk.op, wk.list = true, op, res.List
	}
}

// pageEnd: the last item of the previous page ("" when the walk has reached the end: it starts again).
func (wk *walker) pageEnd(page int) string {
	if len(wk.list) == 0 {
		return ""
	}
	if page < 1 {
		page = 1
	}
	return wk.list[min(page, len(wk.list))-1]
}

// resolve turns a step into the operation to run now.
func (wk *walker) resolve(st step) memsim.Op {
	switch st.Dyn {
	case "next":
		if !wk.have {
			return st.Op
		}
		op := wk.op
		op.Start = wk.pageEnd(st.Page)
		return op
	case "dellast":
		if !wk.have || wk.op.Kind != "Tags" || len(wk.list) == 0 {
			return st.Op
		}
		return memsim.Op{Kind: "DeleteTag", Repo: wk.op.Repo, Tag: wk.pageEnd(st.Page)}
	}
	return st.Op
}

// runPlan runs the steps of one goroutine.
func runPlan(t int, plan []step, do func(int, memsim.Op) memsim.Result) {
	var wk walker
	for _, st := range plan {
		op := wk.resolve(st)
		wk.observe(op, do(t, op))
	}
}

// randomStep: a step of the concurrent phase - mostly randomOp, sometimes a step of a paged walk.
func (w *window) randomStep(written [][]byte, tagPool []string) step {
	r := w.rnd
	repo := repos[0]
	if r.Intn(4) == 0 {
		repo = repos[r.Intn(len(repos))]
	}
	switch r.Intn(12) {
	case 0:
		// a listing from an arbitrary start
		if r.Intn(3) == 0 {
			return step{Op: memsim.Op{Kind: "Repositories", Start: repoStarts[r.Intn(len(repoStarts))]}, Page: 1}
		}
		return step{Op: memsim.Op{Kind: "Tags", Repo: repo, Start: tagStarts[r.Intn(len(tagStarts))]}, Page: 1}
	case 1:
		return step{Op: memsim.Op{Kind: "Tags", Repo: repo}, Dyn: "next", Page: 1 + r.Intn(2)}
	case 2:
		if r.Intn(2) == 0 {
			return step{Op: memsim.Op{Kind: "DeleteTag", Repo: repo, Tag: tagPool[r.Intn(len(tagPool))]}, Dyn: "dellast", Page: 1 + r.Intn(2)}
		}
		return step{Op: memsim.Op{Kind: "DeleteTag", Repo: repo, Tag: tagPool[r.Intn(len(tagPool))]}}
	}
	return step{Op: w.randomOp(written)}
}

// walkPlans: the plans of the first two goroutines of a walk window.  Goroutine 0 walks the tags
// (or, now and then, the repositories) page by page; goroutine 1 deletes tags, mostly beginning
// with the one the walker's first page ends with, so that the walker's next start is a key that
// has just gone.
func (w *window) walkPlans(repo string, n int) (walk, del []step) {
	r := w.rnd
	page := 1 + r.Intn(2)
	first := memsim.Op{Kind: "Tags", Repo: repo}
	if r.Intn(8) == 0 {
		first = memsim.Op{Kind: "Repositories"}
	}
	walk = append(walk, step{Op: first, Page: page})
	for len(walk) < n {
		st := step{Op: first, Dyn: "next", Page: page}
		if first.Kind == "Tags" && r.Intn(6) == 0 {
			st = step{Op: memsim.Op{Kind: "DeleteTag", Repo: repo, Tag: walkTags[0]}, Dyn: "dellast", Page: page}
		}
		walk = append(walk, st)
	}
	order := r.Perm(len(walkTags))
	if r.Intn(3) > 0 {
		// the end of the walker's first page first, then upwards
		order = nil
		for i := range walkTags {
			order = append(order, (page-1+i)%len(walkTags))
		}
	}
	for _, i := range order[:min(n, len(order))] {
		if r.Intn(5) == 0 {
			// the tag comes back (bound to another manifest where tags are mutable)
			mi := r.Intn(2)
			del = append(del, step{Op: memsim.Op{Kind: "PushManifest", Repo: repo, Tag: walkTags[i], Content: mans[mi], Media: mmedia[mi]}})
			continue
		}
		del = append(del, step{Op: memsim.Op{Kind: "DeleteTag", Repo: repo, Tag: walkTags[i]}})
	}
	return walk, del
}

func (w *window) chunk() []byte {
	w.chunkN++
	return []byte(fmt.Sprintf("<%d>", w.chunkN))
}

// randomOp draws one operation of the concurrent phase.
func (w *window) randomOp(written [][]byte) memsim.Op {
	r := w.rnd
	repo := repos[r.Intn(len(repos))]
	if r.Intn(4) > 0 {
		repo = repos[0]
	}
	tag := tags[r.Intn(len(tags))]
	if r.Intn(3) > 0 {
		tag = tags[0]
	}
	mi := r.Intn(len(mans))
	bi := r.Intn(len(blobs))
	switch r.Intn(26) {
	case 0, 1, 2:
		t := tag
		if r.Intn(4) == 0 {
			t = ""
		}
		return memsim.Op{Kind: "PushManifest", Repo: repo, Tag: t, Content: mans[mi], Media: mmedia[mi]}
	case 3, 4:
		return memsim.Op{Kind: "DeleteManifest", Repo: repo, Digest: sha(mans[mi])}
	case 5:
		return memsim.Op{Kind: "DeleteTag", Repo: repo, Tag: tag}
	case 6, 7, 8:
		return memsim.Op{Kind: "GetTag", Repo: repo, Tag: tag}
	case 9:
		return memsim.Op{Kind: "ResolveTag", Repo: repo, Tag: tag}
	case 10:
		return memsim.Op{Kind: []string{"GetManifest", "ResolveManifest"}[r.Intn(2)], Repo: repo, Digest: sha(mans[mi])}
	case 11:
		return pushBlobOp(repo, blobs[bi])
	case 12:
		return memsim.Op{Kind: []string{"GetBlob", "ResolveBlob"}[r.Intn(2)], Repo: repo, Digest: sha(blobs[bi])}
	case 13:
		return memsim.Op{Kind: "DeleteBlob", Repo: repo, Digest: sha(blobs[bi])}
	case 14:
		return memsim.Op{Kind: "MountBlob", From: repos[r.Intn(2)], Repo: repos[r.Intn(2)], Digest: sha(blobs[bi])}
	case 15:
		return memsim.Op{Kind: "Tags", Repo: repo}
	case 16:
		if r.Intn(2) == 0 {
			return memsim.Op{Kind: "Repositories"}
		}
		return memsim.Op{Kind: "Referrers", Repo: repo, Digest: sha(mans[mi])}
	case 17, 18, 19:
		return memsim.Op{Kind: "WWrite", W: 0, Content: w.chunk()}
	case 20:
		return memsim.Op{Kind: []string{"WSize", "WSize", "WID", "WClose", "WChunkSize"}[r.Intn(5)], W: 0}
	case 21, 22, 23:
		// a digest of a content the buffer may have at that time
		cands := written
		c := cands[r.Intn(len(cands))]
		if r.Intn(8) == 0 {
			c = []byte("never")
		}
		return memsim.Op{Kind: "WCommit", W: 0, Digest: sha(c)}
	case 24:
		if r.Intn(3) == 0 {
			return memsim.Op{Kind: "WCancel", W: 0}
		}
		return memsim.Op{Kind: "GetBlob", Repo: repos[0], Digest: sha(written[r.Intn(len(written))])}
	default:
		off := int64(len(w.init))
		if r.Intn(2) == 0 {
			off = int64(r.Intn(12)) - 1
		}
		return memsim.Op{Kind: "PushBlobChunkedResume", Repo: repos[0], ID: "up0", Off: off}
	}
}

// runWindow: sequential setup by thread 0, a concurrent phase, sequential probes by thread 0.
//
// A walk window has more tags (walkTags, all bound by the setup), a goroutine that walks the
// listing page by page and one that deletes tags meanwhile (walkPlans).
func runWindow(rnd *rand.Rand, nthreads, perThread int, imm, walk bool) histCase {
	reg := ocimem.NewWithConfig(&ocimem.Config{ImmutableTags: imm})
	rec := newRecorder(reg, nthreads)
	defer rec.closeAll()
	w := &window{rnd: rnd, init: []byte("init-")}
	tagPool := tags
	if walk {
		tagPool = walkTags
	}
	// setup
	rec.do(0, pushBlobOp(repos[0], blobs[0]))
	if rnd.Intn(2) == 0 {
		rec.do(0, pushBlobOp(repos[0], blobs[1]))
	}
	for i := range mans {
		if rnd.Intn(3) > 0 {
			t := ""
			if rnd.Intn(2) == 0 {
				t = tags[rnd.Intn(2)]
			}
			rec.do(0, memsim.Op{Kind: "PushManifest", Repo: repos[0], Tag: t, Content: mans[i], Media: mmedia[i]})
		}
	}
	if walk {
		for _, t := range walkTags {
			if rnd.Intn(8) > 0 {
				mi := rnd.Intn(2)
				rec.do(0, memsim.Op{Kind: "PushManifest", Repo: repos[0], Tag: t, Content: mans[mi], Media: mmedia[mi]})
			}
		}
	}
	rec.do(0, memsim.Op{Kind: "PushBlobChunkedResume", Repo: repos[0], ID: "up0", Off: 0})
	rec.do(0, memsim.Op{Kind: "WWrite", W: 0, Content: w.init})
	rec.pin(0) // the goroutines of the concurrent phase share the handle of the setup
	// plan the concurrent phase; contents the buffer may reach: init + chunks in any order
	plans := make([][]step, nthreads)
	var writes [][]byte
	for t := 0; t < nthreads; t++ {
		for k := 0; k < perThread; k++ {
			// placeholder digest candidates are fixed up below
			plans[t] = append(plans[t], step{})
		}
	}
	if walk {
		plans[0], plans[1] = w.walkPlans(repos[0], 3+rnd.Intn(2))
	}
	// first decide where the writes go so that commit digests can name reachable contents
	cands := [][]byte{w.init}
	for t := 0; t < nthreads; t++ {
		for k := range plans[t] {
			if plans[t][k].Op.Kind != "" {
				continue
			}
			st := w.randomStep(cands, tagPool)
			op := st.Op
			if op.Kind == "WWrite" {
				writes = append(writes, op.Content)
				var more [][]byte
				for _, c := range cands {
					more = append(more, append(append([]byte{}, c...), op.Content...))
				}
				cands = append(cands, more...)
				if len(cands) > 16 {
					cands = cands[:16]
				}
			}
			plans[t][k] = st
		}
	}
	var start atomic.Bool
	var ready, wg sync.WaitGroup
	for t := 0; t < nthreads; t++ {
		wg.Add(1)
		ready.Add(1)
		go func(t int) {
			defer wg.Done()
			ready.Done()
			for !start.Load() {
			}
			runPlan(t, plans[t], rec.do)
			rec.release(t) // the goroutine is done: the context of the handle it resumed ends
		}(t)
	}
	ready.Wait()
	if rnd.Intn(2) == 0 {
		// keep Registry.mu busy for a moment so that the first operations all overlap
		// (a PushManifest that fails on its tag after hashing; not part of the history)
		go reg.PushManifest(context.Background(), repos[0], "!not a tag!", midData, "application/x-mid")
		time.Sleep(20 * time.Microsecond)
	}
	start.Store(true)
	wg.Wait()
	// probes (by the holder of the setup's handle, whose context is live)
	if rnd.Intn(2) == 0 {
		rec.do(0, memsim.Op{Kind: "WWrite", W: 0, Content: []byte("<probe>")})
	}
	rec.do(0, memsim.Op{Kind: "WSize", W: 0})
	for _, c := range cands {
		if rnd.Intn(3) == 0 {
			rec.do(0, memsim.Op{Kind: "GetBlob", Repo: repos[0], Digest: sha(c)})
		}
	}
	rec.do(0, memsim.Op{Kind: "GetTag", Repo: repos[0], Tag: tags[0]})
	rec.do(0, memsim.Op{Kind: "Tags", Repo: repos[0]})
	rec.do(0, memsim.Op{Kind: "Tags", Repo: repos[0], Start: tagStarts[rnd.Intn(len(tagStarts))]})
	if rnd.Intn(4) == 0 {
		rec.do(0, memsim.Op{Kind: "Repositories", Start: repoStarts[rnd.Intn(len(repoStarts))]})
	}
	sc := ""
	if walk {
		sc = "walk"
	}
	return histCase{Kind: "history", Origin: "random", Scenario: sc, Imm: imm, NThreads: nthreads, Events: rec.events(), Contents: cands}
}

// httpOp draws an operation whose HTTP form is exactly one backend call.
func (w *window) httpOp() memsim.Op {
	r := w.rnd
	repo := repos[0]
	tag := tags[r.Intn(len(tags))]
	if r.Intn(3) > 0 {
		tag = tags[0]
	}
	mi := r.Intn(len(mans))
	bi := r.Intn(len(blobs))
	switch r.Intn(14) {
	case 0, 1, 2:
		return memsim.Op{Kind: "PushManifest", Repo: repo, Tag: tag, Content: mans[mi], Media: mmedia[mi]}
	case 3, 4:
		return memsim.Op{Kind: "DeleteManifest", Repo: repo, Digest: sha(mans[mi])}
	case 5:
		return memsim.Op{Kind: "DeleteTag", Repo: repo, Tag: tag}
	case 6, 7, 8:
		return memsim.Op{Kind: "GetTag", Repo: repo, Tag: tag}
	case 9:
		return memsim.Op{Kind: "ResolveTag", Repo: repo, Tag: tag}
	case 10:
		return memsim.Op{Kind: []string{"GetManifest", "ResolveManifest"}[r.Intn(2)], Repo: repo, Digest: sha(mans[mi])}
	case 11:
		return memsim.Op{Kind: []string{"GetBlob", "ResolveBlob"}[r.Intn(2)], Repo: repo, Digest: sha(blobs[bi])}
	case 12:
		return memsim.Op{Kind: "DeleteBlob", Repo: repo, Digest: sha(blobs[bi])}
	default:
		return memsim.Op{Kind: "Tags", Repo: repo}
	}
}

// httpStep: httpOp, or a step of a paged walk (one request per page: tags/list?last=...).
func (w *window) httpStep(tagPool []string) step {
	r := w.rnd
	switch r.Intn(10) {
	case 0:
		if r.Intn(3) == 0 {
			return step{Op: memsim.Op{Kind: "Repositories", Start: repoStarts[r.Intn(len(repoStarts))]}, Page: 1}
		}
		return step{Op: memsim.Op{Kind: "Tags", Repo: repos[0], Start: tagStarts[r.Intn(len(tagStarts))]}, Page: 1}
	case 1:
		return step{Op: memsim.Op{Kind: "Tags", Repo: repos[0]}, Dyn: "next", Page: 1 + r.Intn(2)}
	case 2:
		return step{Op: memsim.Op{Kind: "DeleteTag", Repo: repos[0], Tag: tagPool[r.Intn(len(tagPool))]}, Dyn: "dellast", Page: 1 + r.Intn(2)}
	}
	return step{Op: w.httpOp()}
}

// runHTTPWindow: setup and probes directly on the registry (thread 0), the concurrent phase
// through ociclient -> ociserver over the same registry.
func runHTTPWindow(rnd *rand.Rand, nthreads, perThread int, walk bool) (h histCase, ok bool) {
	reg := ocimem.New()
	srv := httptest.NewServer(ociserver.New(reg, nil))
	defer srv.Close()
	cl, err := ociclient.New(strings.TrimPrefix(srv.URL, "http://"), &ociclient.Options{Insecure: true})
	if err != nil {
		return h, false
	}
	rec := newRecorder(reg, nthreads)
	defer rec.closeAll()
	rec.exc = memsim.NewExec(cl, false)
	rec.exc.CallCtx = true
	w := &window{rnd: rnd}
	tagPool := tags
	if walk {
		tagPool = walkTags
		for _, t := range walkTags {
			if rnd.Intn(8) > 0 {
				mi := rnd.Intn(2)
				rec.do(0, memsim.Op{Kind: "PushManifest", Repo: repos[0], Tag: t, Content: mans[mi], Media: mmedia[mi]})
			}
		}
	}
	rec.do(0, pushBlobOp(repos[0], blobs[0]))
	rec.do(0, pushBlobOp(repos[0], blobs[1]))
	for i := range mans {
		if rnd.Intn(3) > 0 {
			t := ""
			if rnd.Intn(2) == 0 {
				t = tags[rnd.Intn(2)]
			}
			rec.do(0, memsim.Op{Kind: "PushManifest", Repo: repos[0], Tag: t, Content: mans[i], Media: mmedia[i]})
		}
	}
	plans := make([][]step, nthreads)
	for t := range plans {
		for k := 0; k < perThread; k++ {
			plans[t] = append(plans[t], w.httpStep(tagPool))
		}
	}
	if walk {
		plans[0], plans[1] = w.walkPlans(repos[0], 3)
	}
	var start atomic.Bool
	var ready, wg sync.WaitGroup
	for t := 0; t < nthreads; t++ {
		wg.Add(1)
		ready.Add(1)
		go func(t int) {
			defer wg.Done()
			ready.Done()
			for !start.Load() {
			}
			runPlan(t, plans[t], rec.doHTTP)
		}(t)
	}
	ready.Wait()
	start.Store(true)
	wg.Wait()
	rec.do(0, memsim.Op{Kind: "GetTag", Repo: repos[0], Tag: tags[0]})
	rec.do(0, memsim.Op{Kind: "GetTag", Repo: repos[0], Tag: tags[1]})
	rec.do(0, memsim.Op{Kind: "Tags", Repo: repos[0]})
	for i := range mans {
		rec.do(0, memsim.Op{Kind: "ResolveManifest", Repo: repos[0], Digest: sha(mans[i])})
	}
	sc := ""
	if walk {
		sc = "walk"
	}
	return histCase{Kind: "history", Origin: "random", Scenario: sc, HTTP: true, NThreads: nthreads, Events: rec.events()}, true
}

// ---------------------------------------------------------------- forced schedules

var bigData []byte
var midData = make([]byte, 256<<10)

// holdRegistryLock starts a PushManifest that hashes a large buffer under Registry.mu and
// then fails on its invalid tag (nothing is stored; the repository exists already).
// It returns once the lock has (very likely) been taken; done is closed when it is released.
func holdRegistryLock(reg *ocimem.Registry, repo string) (done chan struct{}) {
	if bigData == nil {
		// size for roughly 400 ms of hashing
		probe := make([]byte, 16<<20)
		t0 := time.Now()
		sha256.Sum256(probe)
		per := time.Since(t0)
		n := int(float64(16<<20) * float64(400*time.Millisecond) / float64(per+1))
		if n > 768<<20 {
			n = 768 << 20
		}
		if n < 32<<20 {
			n = 32 << 20
		}
		bigData = make([]byte, n)
	}
	done = make(chan struct{})
	go func() {
		defer close(done)
		reg.PushManifest(context.Background(), repo, "!not a tag!", bigData, "application/x-big")
	}()
	time.Sleep(40 * time.Millisecond)
	return done
}

func runScenario(name string) histCase {
	reg := ocimem.New()
	rec := newRecorder(reg, 3)
	defer rec.closeAll()
	repo := repos[0]
	good := []byte("good")
	rec.do(0, memsim.Op{Kind: "PushBlobChunkedResume", Repo: repo, ID: "up0", Off: 0})
	rec.do(0, memsim.Op{Kind: "WWrite", W: 0, Content: good})
	rec.pin(0)
	var wg sync.WaitGroup
	async := func(t int, op memsim.Op) {
		wg.Add(1)
		go func() { defer wg.Done(); rec.do(t, op); rec.release(t) }()
		time.Sleep(60 * time.Millisecond)
	}
	switch name {
	case "commit_write":
		// a Write lands between Commit's digest check and its callback
		done := holdRegistryLock(reg, repo)
		async(1, memsim.Op{Kind: "WCommit", W: 0, Digest: sha(good)})
		rec.do(2, memsim.Op{Kind: "WWrite", W: 0, Content: []byte("EVIL")})
		<-done
	case "commit_cancel":
		done := holdRegistryLock(reg, repo)
		async(1, memsim.Op{Kind: "WCommit", W: 0, Digest: sha(good)})
		rec.do(2, memsim.Op{Kind: "WCancel", W: 0})
		<-done
	case "commit_commit":
		// a second Commit (of the grown buffer) arrives while the first is between its sections
		done := holdRegistryLock(reg, repo)
		async(1, memsim.Op{Kind: "WCommit", W: 0, Digest: sha(good)})
		rec.do(0, memsim.Op{Kind: "WWrite", W: 0, Content: []byte("+more")})
		async(2, memsim.Op{Kind: "WCommit", W: 0, Digest: sha([]byte("good+more"))})
		<-done
	case "commit_resume_write":
		done := holdRegistryLock(reg, repo)
		async(1, memsim.Op{Kind: "WCommit", W: 0, Digest: sha(good)})
		async(2, memsim.Op{Kind: "PushBlobChunkedResume", Repo: repo, ID: "up0", Off: 4})
		rec.do(0, memsim.Op{Kind: "WSize", W: 0})
		<-done
	}
	wg.Wait()
	rec.do(0, memsim.Op{Kind: "GetBlob", Repo: repo, Digest: sha(good)})
	rec.do(0, memsim.Op{Kind: "GetBlob", Repo: repo, Digest: sha([]byte("goodEVIL"))})
	rec.do(0, memsim.Op{Kind: "GetBlob", Repo: repo, Digest: sha([]byte("good+more"))})
	rec.do(0, memsim.Op{Kind: "WSize", W: 0})
	rec.do(0, memsim.Op{Kind: "WCommit", W: 0, Digest: sha(good)})
	return histCase{Kind: "history", Origin: "forced", Scenario: name, NThreads: 3, Events: rec.events(),
		Contents: [][]byte{good, []byte("goodEVIL"), []byte("good+more")}}
}

var scenarios = []string{"commit_write", "commit_cancel", "commit_commit", "commit_resume_write"}

// tagStress: the tag t1 points at an existing manifest at every instant while it is moved
// between m0 and m1 and the manifest it left is deleted; readers call GetTag / ResolveTag.
// Small fresh registries so that every iteration is a self-contained history.
func tagStress(iters int, keep func(histCase, bool) bool) {
	repo, tag := repos[0], tags[0]
	for i := 0; i < iters; i++ {
		reg := ocimem.New()
		rec := newRecorder(reg, 3)
		rec.do(0, memsim.Op{Kind: "PushManifest", Repo: repo, Tag: tag, Content: mans[0], Media: mmedia[0]})
		rec.do(0, memsim.Op{Kind: "PushManifest", Repo: repo, Content: mans[1], Media: mmedia[1]})
		start := make(chan struct{})
		var wg sync.WaitGroup
		var missing atomic.Bool
		wg.Add(3)
		go func() {
			defer wg.Done()
			<-start
			rec.do(0, memsim.Op{Kind: "PushManifest", Repo: repo, Tag: tag, Content: mans[1], Media: mmedia[1]})
			rec.do(0, memsim.Op{Kind: "DeleteManifest", Repo: repo, Digest: sha(mans[0])})
		}()
		for t := 1; t <= 2; t++ {
			go func(t int) {
				defer wg.Done()
				<-start
				for k := 0; k < 2; k++ {
					if r := rec.do(t, memsim.Op{Kind: "GetTag", Repo: repo, Tag: tag}); r.Kind != "read" {
						missing.Store(true)
					}
				}
			}(t)
		}
		close(start)
		wg.Wait()
		if !keep(histCase{Kind: "history", Origin: "stress", Scenario: "tag_move", NThreads: 3, Events: rec.events()}, missing.Load()) {
			return
		}
	}
}

// ---------------------------------------------------------------- lock structure

type seg struct {
	Locks []string `json:"locks"`
	Acc   []string `json:"acc"`
}
type entry struct {
	Name string `json:"name"`
	Segs []seg  `json:"segs"`
}

var lockCtor = map[string]string{"Registry.mu": "RegMu", "Buffer.mu": "BufMu", "Buffer.commitMu": "CommitMu"}
var classCtor = map[string]string{"Registry": "CReg", "repository": "CReg", "blob": "CReg", "Buffer": "CBuf"}

func tableCoq(es []entry) string {
	var ents []string
	for _, e := range es {
		var segs []string
		for _, sg := range e.Segs {
			var ls, as []string
			for _, l := range sg.Locks {
				if c, ok := lockCtor[l]; ok {
					ls = append(ls, c)
				} else {
					ls = append(ls, "LOther "+hx.B(l))
				}
			}
			seen := map[string]bool{}
			for _, a := range sg.Acc {
				c, ok := classCtor[a[2:]]
				if !ok {
					c = "(COther " + hx.B(a[2:]) + ")"
				}
				t := map[string]string{"R": "Rd", "W": "Wr"}[a[:1]] + " " + c
				if !seen[t] {
					seen[t] = true
					as = append(as, t)
				}
			}
			sort.Strings(as)
			segs = append(segs, fmt.Sprintf("seg %s %s", hx.List(ls), hx.List(as)))
		}
		ents = append(ents, fmt.Sprintf("(%s, %s)", hx.B(e.Name), hx.List(segs)))
	}
	return hx.List(ents)
}

func extractTable(outdir string) ([]entry, string, error) {
	root := os.Getenv("VERIF_ROOT")
	if root == "" {
		root = "/verif"
	}
	repo := os.Getenv("VERIF_REPO")
	if repo == "" {
		repo = "/repo"
	}
	js := filepath.Join(outdir, "table.json")
	cmd := exec.Command("go", "run", ".", "-dir", filepath.Join(repo, "ociregistry"), "-json", js)
	cmd.Dir = filepath.Join(root, "harness", "extract")
	cmd.Env = append(os.Environ(), "GOWORK=off", "GOFLAGS=-mod=mod", "GOPROXY=off", "GOSUMDB=off", "GOTOOLCHAIN=local", "CGO_ENABLED=0")
	if b, err := cmd.CombinedOutput(); err != nil {
		return nil, string(b), err
	}
	b, err := os.ReadFile(js)
	if err != nil {
		return nil, "", err
	}
	var es []entry
	if err := json.Unmarshal(b, &es); err != nil {
		return nil, "", err
	}
	return es, "", nil
}

// changedMethods compares with the table of the tree the model was written for.
func changedMethods(es []entry) []string {
	var exp []entry
	json.Unmarshal(expectedTable, &exp)
	m := map[string]string{}
	for _, e := range exp {
		b, _ := json.Marshal(e.Segs)
		m[e.Name] = string(b)
	}
	var out []string
	for _, e := range es {
		b, _ := json.Marshal(e.Segs)
		if m[e.Name] != string(b) {
			out = append(out, e.Name)
		}
		delete(m, e.Name)
	}
	for n := range m {
		out = append(out, n)
	}
	sort.Strings(out)
	return out
}

// ---------------------------------------------------------------- loads through ociserver (race detector only)

func httpLoad(rnd *rand.Rand, rounds int) (calls int) {
	for i := 0; i < rounds; i++ {
		reg := ocimem.New()
		srv := httptest.NewServer(ociserver.New(reg, nil))
		cl, err := ociclient.New(strings.TrimPrefix(srv.URL, "http://"), &ociclient.Options{Insecure: true})
		if err != nil {
			srv.Close()
			continue
		}
		ctx := context.Background()
		var wg sync.WaitGroup
		var n atomic.Int64
		// one upload session shared by several requests
		w0, _ := cl.PushBlobChunked(ctx, "a/b", 0)
		id := ""
		if w0 != nil {
			w0.Write([]byte("init-"))
			id = w0.ID()
		}
		for g := 0; g < 2+rnd.Intn(7); g++ {
			seed := rnd.Int63()
			wg.Add(1)
			go func() {
				defer wg.Done()
				r := rand.New(rand.NewSource(seed))
				for k := 0; k < 6; k++ {
					n.Add(1)
					hx.Recover(func() {
						mi := r.Intn(2)
						switch r.Intn(9) {
						case 0, 1:
							cl.PushManifest(ctx, "a/b", "t1", mans[mi], mmedia[mi])
						case 2:
							cl.DeleteManifest(ctx, "a/b", ociregistry.Digest(sha(mans[mi])))
						case 3, 4:
							if rd, err := cl.GetTag(ctx, "a/b", "t1"); err == nil {
								rd.Close()
							}
						case 5:
							cl.PushBlob(ctx, "a/b", ociregistry.Descriptor{MediaType: "application/octet-stream", Digest: ociregistry.Digest(sha(blobs[mi])), Size: int64(len(blobs[mi]))}, bytes.NewReader(blobs[mi]))
						case 6:
							cl.Tags(ctx, "a/b", "")(func(string, error) bool { return true })
						case 7:
							if id != "" {
								if w, err := cl.PushBlobChunkedResume(ctx, "a/b", id, -1, 0); err == nil {
									w.Write([]byte("x"))
									w.Close()
								}
							}
						default:
							if id != "" {
								if w, err := cl.PushBlobChunkedResume(ctx, "a/b", id, -1, 0); err == nil {
									w.Commit(ociregistry.Digest(sha([]byte("init-"))))
								}
							}
						}
					})
				}
			}()
		}
		wg.Wait()
		srv.Close()
		calls += int(n.Load())
	}
	return calls
}

// ---------------------------------------------------------------- main

type childOut struct {
	Histories []histCase     `json:"histories"`
	Stats     map[string]int `json:"stats"`
}

func child(cfg *hx.Config, changed []string) {
	rnd := cfg.Rand()
	co := childOut{Stats: map[string]int{}}
	t0 := time.Now()
	lap := func(k string) { co.Stats["ms_"+k] = int(time.Since(t0).Milliseconds()); t0 = time.Now() }
	// forced schedules
	reps := 1
	if cfg.Thorough() || len(changed) > 0 {
		reps = 3
	}
	for i := 0; i < reps; i++ {
		for _, sc := range scenarios {
			co.Histories = append(co.Histories, runScenario(sc))
		}
	}
	// the large buffer is only needed by the forced schedules: give it back, the machine is shared
	bigData = nil
	debug.FreeOSMemory()
	lap("forced")
	// random windows
	n := 700
	if cfg.Thorough() {
		n = 8000
	}
	for i := 0; i < n; i++ {
		nth, per := 2+rnd.Intn(3), 1+rnd.Intn(3)
		switch {
		case i%50 == 49:
			nth, per = 16, 1
		case i%10 == 9:
			nth, per = 5+rnd.Intn(4), 1
		}
		walk := i%4 == 2
		if walk && nth > 4 {
			walk = false
		}
		co.Histories = append(co.Histories, runWindow(rnd, nth, per, i%7 == 3, walk))
	}
	nh := 150
	if cfg.Thorough() {
		nh = 1200
	}
	for i := 0; i < nh; i++ {
		if h, ok := runHTTPWindow(rnd, 2+rnd.Intn(3), 1+rnd.Intn(2), i%3 == 1); ok {
			co.Histories = append(co.Histories, h)
		}
	}
	lap("random")
	// tag stress: a sample always, a long run when GetTag's structure changed
	iters := 3000
	for _, c := range changed {
		if c == "Registry.GetTag" || c == "Registry.ResolveTag" || c == "Registry.GetManifest" ||
			c == "Registry.PushManifest" || c == "Registry.DeleteManifest" {
			iters = 250000
		}
	}
	if cfg.Thorough() {
		iters *= 4
	}
	kept, bad := 0, 0
	tagStress(iters, func(h histCase, missing bool) bool {
		if missing && bad < 3 {
			bad++
			co.Histories = append(co.Histories, h)
		} else if kept < 60 && len(h.Events) > 0 && kept*(iters/60+1) <= co.Stats["tag_stress_iterations"] {
			kept++
			co.Histories = append(co.Histories, h)
		}
		co.Stats["tag_stress_iterations"]++
		if missing {
			co.Stats["tag_stress_missing"]++
		}
		return bad < 3
	})
	lap("tag_stress")
	rounds := 40
	if cfg.Thorough() {
		rounds = 400
	}
	co.Stats["http_calls"] = httpLoad(rnd, rounds)
	lap("http")
	b, _ := json.Marshal(co)
	if err := os.WriteFile(filepath.Join(cfg.Out, "child.json"), b, 0o644); err != nil {
		panic(err)
	}
}

func main() {
	if coldMain() {
		return
	}
	cfg := hx.ParseFlags()
	if os.Getenv("C08_CHILD") != "" {
		var changed []string
		json.Unmarshal([]byte(os.Getenv("C08_CHANGED")), &changed)
		child(cfg, changed)
		return
	}
	out := hx.NewOut(cfg, "Obs.C08")
	out.ShardMax = 100
	coldDir = cfg.Out
	if cfg.Replay != "" {
		b, err := os.ReadFile(cfg.Replay)
		if err != nil {
			panic(err)
		}
		replay(out, b, "replay")
		if err := out.Flush(); err != nil {
			panic(err)
		}
		return
	}
	// 1. lock structure
	es, msg, err := extractTable(cfg.Out)
	var changed []string
	if err != nil {
		fmt.Fprintln(os.Stderr, "c08: extractor failed:", err, msg)
		os.Exit(1)
	}
	changed = changedMethods(es)
	out.Add(hx.Case{Coq: "CStruct " + tableCoq(es), Desc: map[string]any{"kind": "structure", "table": es, "changed_vs_expected": changed},
		Tags: map[string]any{"class": "structure", "kind": "structure"}})
	out.Count("structure_entries")
	for _, c := range changed {
		out.Count("structure_changed:" + c)
	}
	// corpus
	for _, raw := range hx.LoadCorpus(cfg.Corpus) {
		replay(out, raw, "corpus")
	}
	// 2-4. loads in a child process so that race reports go to files
	chChanged, _ := json.Marshal(changed)
	racePrefix := filepath.Join(cfg.Out, "race")
	cmd := exec.Command(os.Args[0], os.Args[1:]...)
	cmd.Env = append(os.Environ(), "C08_CHILD=1", "C08_CHANGED="+string(chChanged),
		"GORACE=log_path="+racePrefix+" halt_on_error=0 exitcode=0 history_size=2")
	cmd.Stderr = os.Stderr
	if err := cmd.Run(); err != nil {
		fmt.Fprintln(os.Stderr, "c08: load process failed:", err)
		os.Exit(1)
	}
	b, err := os.ReadFile(filepath.Join(cfg.Out, "child.json"))
	if err != nil {
		panic(err)
	}
	var co childOut
	if err := json.Unmarshal(b, &co); err != nil {
		panic(err)
	}
	for _, h := range co.Histories {
		emitHistory(out, h)
	}
	for k, v := range co.Stats {
		out.Stats[k] += v
	}
	// race reports
	reports, sample := 0, ""
	files, _ := filepath.Glob(racePrefix + ".*")
	for _, f := range files {
		b, _ := os.ReadFile(f)
		reports += strings.Count(string(b), "WARNING: DATA RACE")
		if sample == "" && len(b) > 0 {
			sample = string(b)
			if len(sample) > 3000 {
				sample = sample[:3000]
			}
		}
	}
	out.Extra["race_detector"] = raceEnabled
	out.Add(hx.Case{Coq: fmt.Sprintf("CRace %d", reports),
		Desc: map[string]any{"kind": "race", "race_detector_enabled": raceEnabled, "reports": reports, "first_report": sample},
		Tags: map[string]any{"class": "race", "kind": "race"}})
	// 5. cold starts: fresh processes whose first library calls are concurrent
	tCold := time.Now()
	err = coldPhase(cfg, out)
	out.Stats["ms_cold"] = int(time.Since(tCold).Milliseconds())
	if err != nil {
		fmt.Fprintln(os.Stderr, "c08:", err)
		os.Exit(1)
	}
	if err := out.Flush(); err != nil {
		panic(err)
	}
}

// replay re-runs a corpus / replay input: a forced scenario is run again on the tree, a
// recorded history is evaluated again as recorded, the structure is extracted again.
func replay(out *hx.Out, raw []byte, origin string) {
	var d struct {
		Kind     string `json:"kind"`
		Scenario string `json:"scenario"`
		Origin   string `json:"origin"`
	}
	if json.Unmarshal(raw, &d) != nil {
		return
	}
	switch d.Kind {
	case "race":
		// a cold start is run again in a fresh process; the report count of the long-lived
		// load process has no input of its own to replay
		var c coldCase
		if json.Unmarshal(raw, &c) == nil && c.Phase == "cold" && c.Goroutines >= 1 && coldVariantIndex(c.Variant) >= 0 {
			coldSeq++
			emitCold(out, runCold(c, coldDir, 900+coldSeq))
		}
	case "history":
		if d.Scenario != "" && d.Origin == "forced" {
			h := runScenario(d.Scenario)
			emitHistory(out, h)
			return
		}
		var h histCase
		if json.Unmarshal(raw, &h) == nil {
			h.Origin = origin
			emitHistory(out, h)
		}
	case "structure":
		if es, _, err := extractTable(out2dir(out)); err == nil {
			out.Add(hx.Case{Coq: "CStruct " + tableCoq(es), Desc: map[string]any{"kind": "structure", "table": es},
				Tags: map[string]any{"class": "structure", "kind": "structure"}})
		}
	}
}

func out2dir(_ *hx.Out) string { return os.TempDir() }
