// Cold starts (C08, "executions contain no data races ... directly and through ociserver").
//
// Package-level state that is initialised on first use (compiled patterns, registration tables,
// sync.Once / OnceValue holders and their hand-rolled replacements) is touched without
// synchronisation only by the FIRST calls of a process: any sequential warm-up (the set-up phase
// of every window of the long-lived load process) initialises it for good and hides a missing
// synchronisation.  Each cold start is a fresh -race child process in which nothing of the
// library has run yet and whose very first library calls are issued by several goroutines at
// once, released together, with no synchronisation of the harness between them (no shared
// counter, recorder or lock: the goroutines are pairwise unordered for the race detector, so an
// unsynchronised first-use initialisation is reported whatever the actual timing; with a
// shared registry or server the only ordering is the one the library's own locks give).
//
// A cold start is determined by (variant, goroutines, seed):
//
//	sharing  own     every goroutine constructs and uses its own registry / handler / server
//	                 (no instance is shared: every report is about package-level state)
//	         shared  one registry / handler / server constructed by the main goroutine
//	layer    mem      calls on *ocimem.Registry
//	         handler  raw HTTP requests handed to ociserver's ServeHTTP (valid and malformed
//	                  names, tags, digests, routes, methods; upload sessions)
//	         client   ociclient over an in-process transport -> ociserver -> ocimem
//	         net      ociclient (even goroutines) and raw requests (odd ones) over a loopback
//	                  httptest server
//	         mixed    goroutine i uses layer mem / handler / client by i mod 3
//
//	order    free      every goroutine runs the whole vocabulary of its layer once in a seeded
//	                   order of its own after the common start: first actions differ
//	         lockstep  all goroutines run the same seeded order with a barrier before every
//	                   unit: every unit - every first use behind any entry point - is run by
//	                   all of them at once (a barrier orders only what came before it; pooled
//	                   buffers and network I/O order goroutines for the race detector, so
//	                   without it only the first few actions are reliably unordered)
package main

import (
	"bytes"
	"context"
	"encoding/json"
	"fmt"
	"io"
	"math/rand"
	"net/http"
	"net/http/httptest"
	"net/url"
	"os"
	"os/exec"
	"path/filepath"
	"runtime"
	"strings"
	"sync"
	"sync/atomic"
	"time"

	"cuelabs.dev/go/oci/ociregistry"
	"cuelabs.dev/go/oci/ociregistry/ociclient"
	"cuelabs.dev/go/oci/ociregistry/ocimem"
	"cuelabs.dev/go/oci/ociregistry/ociserver"
	"verif/harness/hx"
	"verif/harness/memsim"
)

var coldVariants = func() (vs []string) {
	for _, sharing := range []string{"own", "shared"} {
		for _, layer := range []string{"mem", "handler", "client", "net", "mixed"} {
			for _, order := range []string{"free", "lockstep"} {
				vs = append(vs, sharing+"/"+layer+"/"+order)
			}
		}
	}
	return vs
}()

func (c coldCase) sharing() string { return strings.Split(c.Variant, "/")[0] }
func (c coldCase) layer() string   { return strings.Split(c.Variant, "/")[1] }
func (c coldCase) order() string   { return strings.Split(c.Variant, "/")[2] }

func coldVariantIndex(v string) int {
	for i, x := range coldVariants {
		if x == v {
			return i
		}
	}
	return -1
}

// coldCase is both the specification of a cold start (Variant, Goroutines, Seed, Imm) and,
// with the remaining fields filled in, its observation; it is the Desc of the emitted case.
type coldCase struct {
	Kind       string `json:"kind"`  // "race"
	Phase      string `json:"phase"` // "cold"
	Variant    string `json:"variant"`
	Goroutines int    `json:"goroutines"`
	Seed       int64  `json:"seed"`
	Imm        bool   `json:"immutable"`

	RaceDetector bool     `json:"race_detector_enabled"`
	Reports      int      `json:"reports"`
	FirstReport  string   `json:"first_report,omitempty"`
	FirstActions []string `json:"first_actions,omitempty"`
	Actions      int      `json:"actions"`
	Panics       int      `json:"panics"`
	ChildError   string   `json:"child_error,omitempty"`
}

// ---------------------------------------------------------------- vocabulary

// rawReq is one HTTP request of the handler layer; Upload marks the start of an upload
// session (POST, then PATCH and PUT to the returned location).
type rawReq struct {
	Method, Target, CT string
	Body               []byte
	Upload             bool
}

func (r rawReq) String() string { return r.Method + " " + r.Target }

type coldUniverse struct {
	repos, badRepos, tags, badTags []string
	digests, badDigests            []string
}

func newColdUniverse() coldUniverse {
	return coldUniverse{
		repos:      []string{"a/b", "c", "x/y/z0"},
		badRepos:   []string{"A/B", "a//b", "-a", "a/b_"},
		tags:       []string{"t1", "t2", "v1.0-rc_1"},
		badTags:    []string{"-bad", ".x", strings.Repeat("t", 129)},
		digests:    []string{sha(blobs[0]), sha(blobs[1]), sha(mans[0]), sha(mans[2]), "sha512:" + strings.Repeat("0", 128)},
		badDigests: []string{"sha256:zz", "sha256:abc", "md5:d41d8cd98f00b204e9800998ecf8427e", "nocolon", "sha256+b64:" + strings.Repeat("a", 64)},
	}
}

// memUnits is the vocabulary of the mem / client layers: short sequences of operations (a
// writer operation with W = -1 addresses the writer this goroutine obtained last).
func (u coldUniverse) memUnits(r *rand.Rand) [][]memsim.Op {
	var us [][]memsim.Op
	add := func(ops ...memsim.Op) { us = append(us, ops) }
	subject := []byte(fmt.Sprintf(`{"schemaVersion":2,"mediaType":"application/vnd.oci.image.manifest.v1+json","artifactType":"application/x-c08","config":{"mediaType":"application/x-cfg","digest":%q,"size":%d},"layers":[],"subject":{"mediaType":"application/x-c08","digest":%q,"size":%d}}`,
		sha(blobs[0]), len(blobs[0]), sha(mans[0]), len(mans[0])))
	index := []byte(fmt.Sprintf(`{"schemaVersion":2,"mediaType":"application/vnd.oci.image.index.v1+json","manifests":[{"mediaType":"application/x-c08","digest":%q,"size":%d}]}`,
		sha(mans[0]), len(mans[0])))
	for _, repo := range append(append([]string{}, u.repos[:2]...), u.badRepos[r.Intn(len(u.badRepos))]) {
		tag := u.tags[r.Intn(len(u.tags))]
		for i := range blobs {
			add(pushBlobOp(repo, blobs[i]))
		}
		add(memsim.Op{Kind: "PushBlob", Repo: repo, Content: blobs[0], Desc: &memsim.Desc{Media: "application/octet-stream", Digest: sha(blobs[1]), Size: int64(len(blobs[0]))}})
		add(memsim.Op{Kind: "PushBlob", Repo: repo, Content: blobs[0], Desc: &memsim.Desc{Media: "application/octet-stream", Digest: u.badDigests[r.Intn(len(u.badDigests))], Size: int64(len(blobs[0]))}})
		for i := range mans {
			add(memsim.Op{Kind: "PushManifest", Repo: repo, Tag: tag, Content: mans[i], Media: mmedia[i]})
			add(memsim.Op{Kind: "PushManifest", Repo: repo, Content: mans[i], Media: mmedia[i]})
		}
		add(memsim.Op{Kind: "PushManifest", Repo: repo, Tag: u.badTags[r.Intn(len(u.badTags))], Content: mans[0], Media: mmedia[0]})
		add(memsim.Op{Kind: "PushManifest", Repo: repo, Tag: tag, Content: []byte(`{"layers":`), Media: mmedia[2]})
		add(memsim.Op{Kind: "PushManifest", Repo: repo, Content: subject, Media: mmedia[2]})
		add(memsim.Op{Kind: "PushManifest", Repo: repo, Tag: u.tags[2], Content: index, Media: "application/vnd.oci.image.index.v1+json"})
		for _, d := range []string{u.digests[r.Intn(len(u.digests))], u.badDigests[r.Intn(len(u.badDigests))], sha(blobs[0]), sha(mans[0])} {
			for _, k := range []string{"GetBlob", "GetManifest", "ResolveBlob", "ResolveManifest", "DeleteBlob", "DeleteManifest"} {
				if strings.HasPrefix(k, "Delete") && r.Intn(3) > 0 {
					continue
				}
				add(memsim.Op{Kind: k, Repo: repo, Digest: d})
			}
			add(memsim.Op{Kind: "Referrers", Repo: repo, Digest: d, Art: []string{"", "application/x-c08"}[r.Intn(2)]})
			add(memsim.Op{Kind: "MountBlob", From: u.repos[r.Intn(2)], Repo: repo, Digest: d})
		}
		add(memsim.Op{Kind: "GetBlobRange", Repo: repo, Digest: sha(blobs[0]), O0: 1, O1: 4})
		add(memsim.Op{Kind: "MountBlob", From: u.badRepos[r.Intn(len(u.badRepos))], Repo: repo, Digest: sha(blobs[0])})
		for _, t := range []string{tag, u.tags[0], u.badTags[r.Intn(len(u.badTags))]} {
			add(memsim.Op{Kind: "GetTag", Repo: repo, Tag: t})
			add(memsim.Op{Kind: "ResolveTag", Repo: repo, Tag: t})
			if r.Intn(3) == 0 {
				add(memsim.Op{Kind: "DeleteTag", Repo: repo, Tag: t})
			}
		}
		add(memsim.Op{Kind: "Tags", Repo: repo})
		add(memsim.Op{Kind: "Tags", Repo: repo, Start: "t1"})
		// upload sessions
		c := []byte("cold-" + repo)
		add(memsim.Op{Kind: "PushBlobChunked", Repo: repo},
			memsim.Op{Kind: "WWrite", W: -1, Content: c},
			memsim.Op{Kind: "WSize", W: -1}, memsim.Op{Kind: "WID", W: -1}, memsim.Op{Kind: "WChunkSize", W: -1},
			memsim.Op{Kind: "WCommit", W: -1, Digest: sha(c)})
		add(memsim.Op{Kind: "PushBlobChunked", Repo: repo, Hint: 3},
			memsim.Op{Kind: "WWrite", W: -1, Content: c},
			memsim.Op{Kind: "WCommit", W: -1, Digest: u.badDigests[r.Intn(len(u.badDigests))]},
			memsim.Op{Kind: "WCommit", W: -1, Digest: sha(blobs[0])},
			memsim.Op{Kind: "WClose", W: -1}, memsim.Op{Kind: "WCancel", W: -1})
		add(memsim.Op{Kind: "PushBlobChunkedResume", Repo: repo, ID: "no-such-session", Off: 0},
			memsim.Op{Kind: "WWrite", W: -1, Content: c}, memsim.Op{Kind: "WCancel", W: -1})
		add(memsim.Op{Kind: "PushBlobChunkedResume", Repo: repo, ID: "", Off: -1})
	}
	add(memsim.Op{Kind: "Repositories"})
	add(memsim.Op{Kind: "Repositories", Start: "b"})
	return us
}

// rawUnits is the vocabulary of the handler layer.
func (u coldUniverse) rawUnits(r *rand.Rand) []rawReq {
	var us []rawReq
	add := func(m, target, ct string, body []byte) {
		us = append(us, rawReq{Method: m, Target: target, CT: ct, Body: body})
	}
	add("GET", "/v2/", "", nil)
	add("GET", "/v2", "", nil)
	add("GET", "/v2/_catalog", "", nil)
	add("GET", "/v2/_catalog?n=1&last=a", "", nil)
	add("GET", "/v2/_catalog?n=x", "", nil)
	add("POST", "/v2/_catalog", "", nil)
	add("GET", "/v1/", "", nil)
	add("GET", "/v2/a", "", nil)
	add("GET", "/v2/a/b/unknown/x", "", nil)
	for _, repo := range append(append([]string{}, u.repos[:2]...), u.badRepos[r.Intn(len(u.badRepos))]) {
		p := "/v2/" + repo
		refs := []string{u.tags[r.Intn(len(u.tags))], u.tags[0], u.badTags[r.Intn(2)], sha(mans[0]), sha(mans[2]), u.badDigests[r.Intn(3)]}
		for i := range mans {
			add("PUT", p+"/manifests/"+u.tags[i%len(u.tags)], mmedia[i], mans[i])
			add("PUT", p+"/manifests/"+sha(mans[i]), mmedia[i], mans[i])
		}
		add("PUT", p+"/manifests/"+u.tags[0], "", mans[0])
		add("PUT", p+"/manifests/"+sha(mans[1]), mmedia[0], mans[0])
		add("PUT", p+"/manifests/"+u.tags[1], mmedia[2], []byte(`{"layers":`))
		for _, ref := range refs {
			add("GET", p+"/manifests/"+ref, "", nil)
			add("HEAD", p+"/manifests/"+ref, "", nil)
			if r.Intn(3) == 0 {
				add("DELETE", p+"/manifests/"+ref, "", nil)
			}
		}
		add("PATCH", p+"/manifests/"+u.tags[0], "", nil)
		for _, d := range []string{sha(blobs[0]), sha(blobs[1]), u.digests[4], u.badDigests[r.Intn(len(u.badDigests))]} {
			add("GET", p+"/blobs/"+d, "", nil)
			add("HEAD", p+"/blobs/"+d, "", nil)
			if r.Intn(3) == 0 {
				add("DELETE", p+"/blobs/"+d, "", nil)
			}
			add("GET", p+"/referrers/"+d, "", nil)
			add("GET", p+"/referrers/"+d+"?artifactType=application/x-c08", "", nil)
			add("POST", p+"/blobs/uploads/?mount="+d+"&from="+u.repos[r.Intn(2)], "", nil)
			add("POST", p+"/blobs/uploads/?digest="+d, "application/octet-stream", blobs[0])
		}
		add("PUT", p+"/blobs/"+sha(blobs[0]), "", nil)
		add("POST", p+"/blobs/uploads/?mount="+sha(blobs[0])+"&from="+u.badRepos[0], "", nil)
		add("POST", p+"/blobs/uploads/?mount="+sha(blobs[0]), "", nil)
		add("GET", p+"/blobs/uploads/", "", nil)
		add("GET", p+"/blobs/uploads/bm8tc3VjaA", "", nil)
		add("PATCH", p+"/blobs/uploads/bm8tc3VjaA", "application/octet-stream", []byte("x"))
		add("PUT", p+"/blobs/uploads/bm8tc3VjaA?digest="+sha(blobs[0]), "", nil)
		add("PUT", p+"/blobs/uploads/bm8tc3VjaA?digest=bad", "", nil)
		add("GET", p+"/blobs/uploads/!!", "", nil)
		add("GET", p+"/tags/list", "", nil)
		add("GET", p+"/tags/list?n=1&last=t1", "", nil)
		add("GET", p+"/tags/nolist", "", nil)
		add("DELETE", p+"/tags/list", "", nil)
		us = append(us, rawReq{Method: "POST", Target: p + "/blobs/uploads/", Upload: true, Body: []byte("cold-" + repo)})
		us = append(us, rawReq{Method: "POST", Target: p + "/blobs/uploads", Upload: true, Body: blobs[2]})
	}
	return us
}

// ---------------------------------------------------------------- one goroutine's stack

// inproc hands a client's request straight to a handler (no listener, no connection state
// shared between goroutines).
type inproc struct{ h http.Handler }

func (t inproc) RoundTrip(req *http.Request) (*http.Response, error) {
	r2 := req.Clone(req.Context())
	if r2.Body == nil {
		r2.Body = http.NoBody
	}
	r2.RequestURI = r2.URL.RequestURI()
	if r2.Host == "" {
		r2.Host = r2.URL.Host
	}
	rec := httptest.NewRecorder()
	t.h.ServeHTTP(rec, r2)
	resp := rec.Result()
	resp.Request = req
	return resp, nil
}

// ownCopy gives an HTTP client its own copy of the bytes a caller passes in: memsim.Exec
// overwrites the caller's buffer as soon as a call returns (a check that ocimem does not retain
// it), while net/http's transport may still be sending a request body after an early response.
type ownCopy struct{ ociregistry.Interface }

func (c ownCopy) PushBlob(ctx context.Context, repo string, desc ociregistry.Descriptor, r io.Reader) (ociregistry.Descriptor, error) {
	b, _ := io.ReadAll(r)
	return c.Interface.PushBlob(ctx, repo, desc, bytes.NewReader(b))
}

func (c ownCopy) PushManifest(ctx context.Context, repo, tag string, contents []byte, mediaType string) (ociregistry.Descriptor, error) {
	return c.Interface.PushManifest(ctx, repo, tag, bytes.Clone(contents), mediaType)
}

func (c ownCopy) PushBlobChunked(ctx context.Context, repo string, chunkSize int) (ociregistry.BlobWriter, error) {
	w, err := c.Interface.PushBlobChunked(ctx, repo, chunkSize)
	if err != nil {
		return nil, err
	}
	return ownCopyWriter{w}, nil
}

func (c ownCopy) PushBlobChunkedResume(ctx context.Context, repo, id string, offset int64, chunkSize int) (ociregistry.BlobWriter, error) {
	w, err := c.Interface.PushBlobChunkedResume(ctx, repo, id, offset, chunkSize)
	if err != nil {
		return nil, err
	}
	return ownCopyWriter{w}, nil
}

type ownCopyWriter struct{ ociregistry.BlobWriter }

func (w ownCopyWriter) Write(p []byte) (int, error) { return w.BlobWriter.Write(bytes.Clone(p)) }

// coldShared is what the goroutines of a "shared" cold start have in common.
type coldShared struct {
	reg *ocimem.Registry
	h   http.Handler
	srv *httptest.Server
}

type coldStack struct {
	layer string // mem handler client net-client net-raw
	ex    *memsim.Exec
	h     http.Handler
	base  string // net-raw: http://host:port
	hc    *http.Client
	done  []func()
}

func newColdReg(imm bool) *ocimem.Registry {
	if imm {
		return ocimem.NewWithConfig(&ocimem.Config{ImmutableTags: true})
	}
	return ocimem.New()
}

func layerOf(c coldCase, i int) string {
	layer := c.layer()
	switch layer {
	case "mixed":
		return []string{"mem", "handler", "client"}[i%3]
	case "net":
		return []string{"net-client", "net-raw"}[i%2]
	}
	return layer
}

// newColdStack runs in the goroutine that uses it, after the start signal: with sharing "own"
// the constructors are among the goroutine's first calls.
func newColdStack(c coldCase, i int, sh *coldShared) *coldStack {
	st := &coldStack{layer: layerOf(c, i)}
	var reg *ocimem.Registry
	var h http.Handler
	var srv *httptest.Server
	if sh != nil {
		reg, h, srv = sh.reg, sh.h, sh.srv
	} else {
		reg = newColdReg(c.Imm)
		if st.layer != "mem" {
			var opts *ociserver.Options
			if i%4 == 3 {
				opts = &ociserver.Options{DisableReferrersAPI: true}
			}
			h = ociserver.New(reg, opts)
		}
		if strings.HasPrefix(st.layer, "net") {
			srv = httptest.NewServer(h)
			st.done = append(st.done, srv.Close)
		}
	}
	switch st.layer {
	case "mem":
		st.ex = memsim.NewExec(reg, true)
	case "handler":
		st.h = h
	case "client":
		cl, err := ociclient.New("cold.example", &ociclient.Options{Insecure: true, Transport: inproc{h}})
		if err != nil {
			panic(err)
		}
		st.ex = memsim.NewExec(ownCopy{cl}, false)
	case "net-client":
		tr := &http.Transport{}
		st.done = append(st.done, tr.CloseIdleConnections)
		cl, err := ociclient.New(strings.TrimPrefix(srv.URL, "http://"), &ociclient.Options{Insecure: true, Transport: tr})
		if err != nil {
			panic(err)
		}
		st.ex = memsim.NewExec(ownCopy{cl}, false)
	case "net-raw":
		tr := &http.Transport{}
		st.done = append(st.done, tr.CloseIdleConnections)
		st.base, st.hc = srv.URL, &http.Client{Transport: tr}
	}
	return st
}

// do issues one raw request and returns the Location header of the response.
func (st *coldStack) do(q rawReq) (loc string) {
	var body io.Reader
	if q.Body != nil {
		body = bytes.NewReader(q.Body)
	}
	set := func(h http.Header) {
		if q.CT != "" {
			h.Set("Content-Type", q.CT)
		}
		if q.Method == "PATCH" && q.Body != nil {
			h.Set("Content-Range", fmt.Sprintf("0-%d", len(q.Body)-1))
		}
	}
	if st.h != nil {
		req := httptest.NewRequest(q.Method, q.Target, body)
		set(req.Header)
		rec := httptest.NewRecorder()
		st.h.ServeHTTP(rec, req)
		return rec.Header().Get("Location")
	}
	req, err := http.NewRequest(q.Method, st.base+q.Target, body)
	if err != nil {
		return ""
	}
	set(req.Header)
	resp, err := st.hc.Do(req)
	if err != nil {
		return ""
	}
	io.Copy(io.Discard, resp.Body)
	resp.Body.Close()
	return resp.Header.Get("Location")
}

func targetOf(loc string) string {
	u, err := url.Parse(loc)
	if err != nil || u.Path == "" {
		return ""
	}
	return u.RequestURI()
}

func (st *coldStack) raw(q rawReq) {
	loc := st.do(q.withBody(!q.Upload))
	if !q.Upload {
		return
	}
	t := targetOf(loc)
	if t == "" {
		return
	}
	st.do(rawReq{Method: "GET", Target: t})
	if t2 := targetOf(st.do(rawReq{Method: "PATCH", Target: t, CT: "application/octet-stream", Body: q.Body})); t2 != "" {
		t = t2
	}
	sep := "?"
	if strings.Contains(t, "?") {
		sep = "&"
	}
	st.do(rawReq{Method: "PUT", Target: t + sep + "digest=" + sha(q.Body)})
}

func (q rawReq) withBody(keep bool) rawReq {
	if !keep {
		q.Body = nil
	}
	return q
}

func (st *coldStack) close() {
	for _, f := range st.done {
		f()
	}
}

// ---------------------------------------------------------------- the cold child

type coldResult struct {
	First   string
	Actions int
	Panics  int
}

type coldChildOut struct {
	FirstActions []string `json:"first_actions"`
	Actions      int      `json:"actions"`
	Panics       int      `json:"panics"`
}

// coldChild is the whole life of a cold process: plans are pure data (nothing of the library is
// called to make them), then the goroutines are released together.
func coldChild(c coldCase, outFile string) {
	u := newColdUniverse()
	n := c.Goroutines
	lockstep := c.order() == "lockstep"
	memPlans := make([][][]memsim.Op, n)
	rawPlans := make([][]rawReq, n)
	master := rand.New(rand.NewSource(c.Seed))
	var memCommon [][]memsim.Op
	var rawCommon []rawReq
	steps := 0
	for i := 0; i < n; i++ {
		r := rand.New(rand.NewSource(master.Int63()))
		switch layerOf(c, i) {
		case "handler", "net-raw":
			p := rawCommon
			if p == nil {
				p = u.rawUnits(r)
				r.Shuffle(len(p), func(a, b int) { p[a], p[b] = p[b], p[a] })
			}
			if lockstep {
				rawCommon = p
			}
			rawPlans[i] = p
		default:
			p := memCommon
			if p == nil {
				p = u.memUnits(r)
				r.Shuffle(len(p), func(a, b int) { p[a], p[b] = p[b], p[a] })
			}
			if lockstep {
				memCommon = p
			}
			memPlans[i] = p
		}
		steps = max(steps, len(memPlans[i]), len(rawPlans[i]))
	}
	var sh *coldShared
	if c.sharing() == "shared" {
		sh = &coldShared{reg: newColdReg(c.Imm)}
		if c.layer() != "mem" {
			sh.h = ociserver.New(sh.reg, nil)
		}
		if c.layer() == "net" {
			sh.srv = httptest.NewServer(sh.h)
		}
	}
	res := make([]coldResult, n)
	start := make(chan struct{})
	// The goroutines meet at a spinning barrier so that their first actions really overlap (a
	// goroutine that ran alone to its end would hand its pooled buffers - sync.Pool is a
	// synchronisation for the race detector - to a late starter).  A barrier orders only what
	// came before it: for the first one that is nothing of the library.  Order "lockstep":
	// all goroutines run the same sequence with a barrier before every unit, so that each unit
	// - each first use behind it - is executed by all of them at once, unordered within the unit.
	if runtime.GOMAXPROCS(0) < n+1 {
		runtime.GOMAXPROCS(n + 1)
	}
	// one counter per barrier: a late goroutine still waiting at barrier k must not read what
	// an early one released on reaching barrier k+1 (that would order the early one's unit k
	// before the late one's)
	arrived := make([]atomic.Int64, steps+1)
	barrier := func(k int) {
		arrived[k].Add(1)
		for spins := 0; arrived[k].Load() < int64(n); spins++ {
			switch {
			case spins < 1<<12:
			case k == 0 || spins < 1<<12+64:
				// the start itself is never slept through: the first actions must overlap
				runtime.Gosched()
			default:
				// a peer has lost its processor (busy machine): give ours up
				time.Sleep(20 * time.Microsecond)
			}
		}
	}
	var wg sync.WaitGroup
	for i := 0; i < n; i++ {
		wg.Add(1)
		go func(i int) {
			defer wg.Done()
			out := &res[i]
			<-start
			barrier(0)
			var st *coldStack
			if p, _ := hx.Recover(func() { st = newColdStack(c, i, sh) }); p || st == nil {
				out.Panics++
				st = nil
			} else {
				defer st.close()
			}
			for k := 0; k < steps; k++ {
				if lockstep && k > 0 { // the first unit follows the start itself
					barrier(k)
				}
				if st == nil {
					continue
				}
				if k < len(memPlans[i]) {
					for _, op := range memPlans[i][k] {
						if out.Actions == 0 {
							out.First = op.Kind + " " + op.Repo
						}
						out.Actions++
						if op.W < 0 {
							op.W = len(st.ex.Writers) - 1
						}
						if st.ex.Run(op).Kind == "panic" {
							out.Panics++
						}
					}
				}
				if k < len(rawPlans[i]) {
					q := rawPlans[i][k]
					if out.Actions == 0 {
						out.First = q.String()
					}
					out.Actions++
					if p, _ := hx.Recover(func() { st.raw(q) }); p {
						out.Panics++
					}
				}
			}
		}(i)
	}
	close(start)
	wg.Wait()
	if sh != nil && sh.srv != nil {
		sh.srv.Close()
	}
	var co coldChildOut
	for _, r := range res {
		co.FirstActions = append(co.FirstActions, r.First)
		co.Actions += r.Actions
		co.Panics += r.Panics
	}
	b, _ := json.Marshal(co)
	if err := os.WriteFile(outFile, b, 0o644); err != nil {
		panic(err)
	}
}

// ---------------------------------------------------------------- the parent's side

// coldPlan lists the cold starts of a run: every variant at least once, seeded sizes.
func coldPlan(cfg *hx.Config) []coldCase {
	rnd := rand.New(rand.NewSource(cfg.Seed ^ 0x636f6c64))
	per := 1
	if cfg.Thorough() {
		per = 8
	}
	var cs []coldCase
	for k := 0; k < per; k++ {
		for _, v := range coldVariants {
			g := 2 + rnd.Intn(5)
			if k == 0 {
				g = 2 + rnd.Intn(2) // the smallest cold start: two or three first callers
			}
			if strings.HasSuffix(v, "/lockstep") && g > 4 {
				g = 4
			}
			if strings.Contains(v, "/net/") && g < 4 {
				// network reads and writes are synchronisation for the race detector: two
				// handlers are unordered only while their requests are in flight together
				g += 2
			}
			cs = append(cs, coldCase{Kind: "race", Phase: "cold", Variant: v, Goroutines: g,
				Seed: rnd.Int63n(1 << 30), Imm: rnd.Intn(4) == 0})
		}
	}
	return cs
}

func countReports(prefix string) (reports int, sample string) {
	files, _ := filepath.Glob(prefix + ".*")
	for _, f := range files {
		b, _ := os.ReadFile(f)
		reports += strings.Count(string(b), "WARNING: DATA RACE")
		if sample == "" && len(b) > 0 {
			sample = string(b)
			if len(sample) > 3000 {
				sample = sample[:3000]
			}
		}
	}
	return
}

// where replayed / corpus cold starts put their files (main sets it to the run's directory)
var (
	coldDir = os.TempDir()
	coldSeq int
)

// runCold starts one fresh process for the cold start c and fills in what it observed.
func runCold(c coldCase, dir string, idx int) coldCase {
	c.Kind, c.Phase = "race", "cold"
	c.RaceDetector = raceEnabled
	c.Reports, c.FirstReport, c.FirstActions, c.Actions, c.Panics, c.ChildError = 0, "", nil, 0, 0, ""
	spec, _ := json.Marshal(c)
	prefix := filepath.Join(dir, fmt.Sprintf("cold%03d_race", idx))
	outFile := filepath.Join(dir, fmt.Sprintf("cold%03d.json", idx))
	old, _ := filepath.Glob(prefix + ".*")
	for _, f := range append(old, outFile) {
		os.Remove(f)
	}
	cmd := exec.Command(os.Args[0])
	cmd.Env = append(os.Environ(), "C08_COLD="+string(spec), "C08_COLD_OUT="+outFile,
		"GORACE=log_path="+prefix+" halt_on_error=0 exitcode=0 history_size=2 atexit_sleep_ms=0")
	var stderr bytes.Buffer
	cmd.Stderr = &stderr
	err := cmd.Run()
	var co coldChildOut
	if b, e := os.ReadFile(outFile); e == nil {
		json.Unmarshal(b, &co)
	} else if err == nil {
		err = e
	}
	if err != nil {
		c.ChildError = err.Error() + ": " + tail(stderr.String(), 1500)
	}
	c.FirstActions, c.Actions, c.Panics = co.FirstActions, co.Actions, co.Panics
	c.Reports, c.FirstReport = countReports(prefix)
	return c
}

func tail(s string, n int) string {
	if len(s) > n {
		return s[len(s)-n:]
	}
	return s
}

func emitCold(out *hx.Out, c coldCase) {
	vi := coldVariantIndex(c.Variant)
	added := out.Add(hx.Case{
		Coq:  fmt.Sprintf("CCold %d %d %d %d", vi, c.Goroutines, c.Seed, c.Reports),
		Desc: c,
		Tags: map[string]any{"class": "race:cold:" + c.Variant, "kind": "race"}})
	if added {
		out.Count("cold_start:" + c.Variant)
		out.Count(fmt.Sprintf("cold_goroutines:%d", c.Goroutines))
		out.Stats["cold_actions"] += c.Actions
		out.Stats["cold_panics"] += c.Panics
		out.Stats["cold_race_reports"] += c.Reports
	}
}

// coldPhase runs the planned cold starts, a few processes at a time.
func coldPhase(cfg *hx.Config, out *hx.Out) error {
	plan := coldPlan(cfg)
	res := make([]coldCase, len(plan))
	sem := make(chan struct{}, 3)
	var wg sync.WaitGroup
	for i := range plan {
		wg.Add(1)
		sem <- struct{}{}
		go func(i int) {
			defer wg.Done()
			defer func() { <-sem }()
			res[i] = runCold(plan[i], cfg.Out, i)
		}(i)
	}
	wg.Wait()
	for _, c := range res {
		if c.ChildError != "" {
			return fmt.Errorf("cold start %s (seed %d) failed: %s", c.Variant, c.Seed, c.ChildError)
		}
		if c.Actions == 0 {
			return fmt.Errorf("cold start %s (seed %d) ran no action", c.Variant, c.Seed)
		}
		emitCold(out, c)
	}
	return nil
}

// coldMain is the entry of a cold child process (before any flag parsing).
func coldMain() bool {
	spec := os.Getenv("C08_COLD")
	if spec == "" {
		return false
	}
	var c coldCase
	if err := json.Unmarshal([]byte(spec), &c); err != nil {
		panic(err)
	}
	if c.Goroutines < 1 || coldVariantIndex(c.Variant) < 0 {
		panic("c08: bad cold start " + spec)
	}
	coldChild(c, os.Getenv("C08_COLD_OUT"))
	return true
}
