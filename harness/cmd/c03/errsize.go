package main

// CErr cases (coq/Obs/C03.v): ociclient reads at most errorBodySizeLimit = 8192 bytes of an error
// response.  One case = one carrier of an error answer (an Interface / BlobWriter call whose
// error travels in a response body - everything but the HEAD-based resolves) made to fail on
// both sides with an error whose wire body is 8190, 8191, 8192, 8193, 8194 bytes: directly on
// the failing registry, and through a stack over the same kind of registry.  The failing
// registry is either a wrapper that answers every call with ociregistry.NewError(message of a
// chosen length, code) (a BlobWriter of a real ocimem whose Commit fails so, for the carrier
// Commit), or ocimem itself: its digest-mismatch error of a chunked upload quotes the uploaded
// content.  The body sizes are MEASURED at the servers (stack.go sizeWriter); the message
// length is found by one trial run per case (the body grows by one byte per ASCII letter).

import (
	"bytes"
	"context"
	"errors"
	"fmt"
	"math/rand"

	"cuelabs.dev/go/oci/ociregistry"
	"cuelabs.dev/go/oci/ociregistry/ocimem"
	"verif/harness/hx"
	"verif/harness/memsim"
)

type errInput struct {
	Carrier string `json:"carrier"`
	Code    string `json:"code,omitempty"` // the wrapper's error code; "" with the native carriers
	Sizes   []int  `json:"sizes"`          // wire body sizes aimed at (outermost hop)
}

var errCarriers = []string{
	"GetBlob", "GetBlobRange", "GetManifest", "GetTag", "PushBlob", "PushBlobChunked", "PushBlobChunkedResume",
	"MountBlob", "PushManifest", "DeleteBlob", "DeleteManifest", "DeleteTag", "Repositories", "Tags", "Referrers",
	"Commit",
	// ocimem's own error, no wrapper
	"native:Commit-digest-mismatch", "native:PushBlob-digest-mismatch",
}

var errCodes = []string{"DENIED", "UNSUPPORTED", "TOOMANYREQUESTS", "BLOB_UNKNOWN", "MANIFEST_INVALID", "NAME_UNKNOWN",
	"MANIFEST_BLOB_UNKNOWN", "SIZE_INVALID", "X_VERIF_CUSTOM"}

func letters(n int) string {
	b := make([]byte, max(n, 0))
	for i := range b {
		b[i] = byte('a' + (i*7)%26)
	}
	return string(b)
}

// failWriter: a real writer whose Commit fails with the chosen error.
type failWriter struct {
	ociregistry.BlobWriter
	err error
}

func (w failWriter) Commit(ociregistry.Digest) (ociregistry.Descriptor, error) {
	return ociregistry.Descriptor{}, w.err
}

// errRegistry: the registry of one probe (a fresh one per side).
func errRegistry(carrier, code string, msgLen int) ociregistry.Interface {
	err := ociregistry.NewError(letters(msgLen), code, nil)
	switch {
	case carrier == "Commit":
		mem := ocimem.New()
		return &ociregistry.Funcs{
			NewError: func(context.Context, string, string) error { return err },
			PushBlobChunked_: func(ctx context.Context, repo string, chunkSize int) (ociregistry.BlobWriter, error) {
				w, e := mem.PushBlobChunked(ctx, repo, chunkSize)
				if e != nil {
					return nil, e
				}
				return failWriter{w, err}, nil
			},
			PushBlobChunkedResume_: func(ctx context.Context, repo, id string, off int64, chunkSize int) (ociregistry.BlobWriter, error) {
				w, e := mem.PushBlobChunkedResume(ctx, repo, id, off, chunkSize)
				if e != nil {
					return nil, e
				}
				return failWriter{w, err}, nil
			},
		}
	case carrier == "PushBlobChunkedResume":
		// the upload session exists (a resume with a foreign id is outside the interface)
		mem := ocimem.New()
		return &ociregistry.Funcs{
			NewError:         func(context.Context, string, string) error { return err },
			PushBlobChunked_: mem.PushBlobChunked,
		}
	case len(carrier) > 7 && carrier[:7] == "native:":
		return ocimem.New()
	}
	return &ociregistry.Funcs{NewError: func(context.Context, string, string) error { return err }}
}

type errAns struct {
	Kind string `json:"kind"` // ok | err | panic
	Code string `json:"code,omitempty"`
	Msg  string `json:"msg,omitempty"`
	Stat int    `json:"status,omitempty"`
}

func (a errAns) Coq() string {
	switch a.Kind {
	case "ok":
		return "EAok"
	case "err":
		return "EAerr " + memsim.CoqCode(a.Code)
	}
	return "EApanic"
}

const errDigest = "sha256:e3b0c44298fc1c149afbf4c8996fb92427ae41e4649b934ca495991b7852b855" // of the empty content

// errCall makes the carrier's call on one registry; n = the length of the content handed over
// by the native carriers.
func errCall(reg ociregistry.Interface, carrier string, n int) (ans errAns) {
	ctx := context.Background()
	const repo = "err/repo"
	rd := func(r ociregistry.BlobReader, err error) error {
		if err == nil {
			r.Close()
		}
		return err
	}
	ds := func(_ ociregistry.Descriptor, err error) error { return err }
	seq := func(s ociregistry.Seq[string]) error {
		var out error
		s(func(_ string, err error) bool {
			out = err
			return err == nil
		})
		return out
	}
	var err error
	if p, pv := hx.Recover(func() {
		switch carrier {
		case "GetBlob":
			err = rd(reg.GetBlob(ctx, repo, errDigest))
		case "GetBlobRange":
			err = rd(reg.GetBlobRange(ctx, repo, errDigest, 1, 3))
		case "GetManifest":
			err = rd(reg.GetManifest(ctx, repo, errDigest))
		case "GetTag":
			err = rd(reg.GetTag(ctx, repo, "latest"))
		case "PushBlob":
			err = ds(reg.PushBlob(ctx, repo, ociregistry.Descriptor{MediaType: octet, Digest: errDigest, Size: 0}, bytes.NewReader(nil)))
		case "PushBlobChunked":
			_, err = reg.PushBlobChunked(ctx, repo, 0)
		case "PushBlobChunkedResume":
			var w ociregistry.BlobWriter
			w, err = reg.PushBlobChunked(ctx, repo, 0)
			if err != nil {
				err = fmt.Errorf("set-up failed: %v", err)
				return
			}
			id := w.ID()
			w.Close()
			_, err = reg.PushBlobChunkedResume(ctx, repo, id, -1, 0)
		case "MountBlob":
			err = ds(reg.MountBlob(ctx, "err/from", repo, errDigest))
		case "PushManifest":
			err = ds(reg.PushManifest(ctx, repo, "latest", []byte(emptyIndex), "application/vnd.oci.image.index.v1+json"))
		case "DeleteBlob":
			err = reg.DeleteBlob(ctx, repo, errDigest)
		case "DeleteManifest":
			err = reg.DeleteManifest(ctx, repo, errDigest)
		case "DeleteTag":
			err = reg.DeleteTag(ctx, repo, "latest")
		case "Repositories":
			err = seq(reg.Repositories(ctx, ""))
		case "Tags":
			err = seq(reg.Tags(ctx, repo, ""))
		case "Referrers":
			reg.Referrers(ctx, repo, errDigest, "")(func(_ ociregistry.Descriptor, e error) bool {
				err = e
				return e == nil
			})
		case "Commit", "native:Commit-digest-mismatch":
			var w ociregistry.BlobWriter
			w, err = reg.PushBlobChunked(ctx, repo, 0)
			if err != nil {
				err = fmt.Errorf("set-up failed: %v", err)
				return
			}
			if _, err = w.Write([]byte(letters(n))); err != nil {
				err = fmt.Errorf("set-up failed: %v", err)
				return
			}
			// the digest of the empty content: wrong for what was written
			err = ds(w.Commit(errDigest))
			w.Close()
		case "native:PushBlob-digest-mismatch":
			err = ds(reg.PushBlob(ctx, repo, ociregistry.Descriptor{MediaType: octet, Digest: errDigest, Size: int64(n)}, bytes.NewReader([]byte(letters(n)))))
		default:
			panic("errsize: unknown carrier " + carrier)
		}
	}); p {
		return errAns{Kind: "panic", Msg: pv}
	}
	if err == nil {
		return errAns{Kind: "ok"}
	}
	ans = errAns{Kind: "err", Code: memsim.ErrCode(err), Msg: err.Error()}
	if len(ans.Msg) > 160 {
		ans.Msg = ans.Msg[:160] + "..."
	}
	var he ociregistry.HTTPError
	if errors.As(err, &he) {
		ans.Stat = he.StatusCode()
	}
	return ans
}

type errProbe struct {
	Aim    int     `json:"aimed_at"`
	MsgLen int     `json:"message_or_content_length"`
	Sizes  []int64 `json:"wire_body_sizes"`
	Direct errAns  `json:"direct"`
	Via    errAns  `json:"via"`
}

func (p errProbe) Coq() string {
	zs := make([]string, len(p.Sizes))
	for i, z := range p.Sizes {
		zs[i] = hx.Z(z)
	}
	return fmt.Sprintf("{| ep_sizes := %s; ep_direct := %s; ep_via := %s; ep_vstat := %s |}",
		hx.List(zs), p.Direct.Coq(), p.Via.Coq(), hx.Z(int64(p.Via.Stat)))
}

// errVia makes the call through a fresh stack over a fresh failing registry and measures the
// error bodies.
func errVia(stack Stack, in errInput, msgLen int) (errAns, []int64) {
	st := buildM(stack, errRegistry(in.Carrier, in.Code, msgLen), true)
	defer st.Close()
	a := errCall(st.reg, in.Carrier, msgLen)
	st.quiesce()
	return a, st.takeErrBodies()
}

func runErrSz(stack Stack, in errInput, origin string) bigOut {
	// trial: how long is the body for a message (content) of 7000 letters?
	const trial = 7000
	_, sz := errVia(stack, in, trial)
	var probes []errProbe
	for _, aim := range in.Sizes {
		l := trial
		if len(sz) > 0 {
			l = trial + aim - int(sz[0])
		}
		p := errProbe{Aim: aim, MsgLen: l}
		p.Direct = errCall(errRegistry(in.Carrier, in.Code, l), in.Carrier, l)
		p.Via, p.Sizes = errVia(stack, in, l)
		probes = append(probes, p)
	}
	pc := make([]string, len(probes))
	keys := []string{"errsz:carrier:" + in.Carrier, fmt.Sprintf("errsz:hops:%d", stack.Hops), "errsz:code:" + in.Code}
	for i, p := range probes {
		pc[i] = p.Coq()
		for h, z := range p.Sizes {
			if z >= 8190 && z <= 8194 {
				keys = append(keys, fmt.Sprintf("errsz:wire body of %d bytes at hop %d", z, h))
			}
		}
		if len(p.Sizes) > 0 && int(p.Sizes[0]) != p.Aim {
			keys = append(keys, "errsz:probe that missed the size aimed at")
		}
		keys = append(keys, "errsz:via:"+p.Via.Kind+":"+map[bool]string{true: "code kept", false: "code differs"}[p.Via.Code == p.Direct.Code])
	}
	coq := fmt.Sprintf("CErr %s %s %s", stack.Coq(), hx.B(in.Carrier), hx.List(pc))
	return bigOut{
		c: hx.Case{Coq: coq,
			Desc: map[string]any{"input": history{Stack: stack, Stream: "main", ErrSz: &in}, "probes": probes, "origin": origin},
			Tags: map[string]any{"class": "errsz-" + in.Carrier, "stack": stack.Name(), "origin": origin, "stream": "errsz"}},
		keys: keys,
	}
}

type errCase struct {
	st Stack
	in errInput
}

// genErrSz: every carrier on a one-hop and on a two-hop stack (options and ocidebug drawn),
// codes rotating; the thorough tier adds a second code and further stacks per carrier.
func genErrSz(r *rand.Rand, thorough bool) []errCase {
	var out []errCase
	sizes := []int{8190, 8191, 8192, 8193, 8194}
	k := r.Intn(len(errCodes))
	reps := 1
	if thorough {
		reps = 4
	}
	for rep := 0; rep < reps; rep++ {
		for ci, c := range errCarriers {
			for hops := 1; hops <= 2; hops++ {
				st := defaultStack()
				if (ci+hops+rep)%3 != 0 {
					st = genStack(r)
				}
				st.Hops = hops
				if c == "Tags" || c == "Repositories" {
					// a server limit below the page size answers before the backend is asked
					st.Opts1.MaxPage, st.Opts2.MaxPage = 0, 0
				}
				code := errCodes[k%len(errCodes)]
				k++
				if len(c) > 7 && c[:7] == "native:" {
					code = ""
				}
				out = append(out, errCase{st, errInput{Carrier: c, Code: code, Sizes: sizes}})
			}
		}
	}
	return out
}
