package main

import (
	"crypto/sha512"
	"encoding/hex"
	"encoding/json"
	"math/rand"

	"cuelabs.dev/go/oci/ociregistry/ocimem"
	"cuelabs.dev/go/oci/ociregistry/ociref"
	"github.com/opencontainers/go-digest"
	ocispec "github.com/opencontainers/image-spec/specs-go/v1"
	"verif/harness/memsim"
)

// Names made of the words the URL router cuts on.
var routingRepos = []string{
	"a/blobs/uploads", "x/manifests", "blobs", "tags/list", "v2", "referrers", "uploads", "manifests",
	"blobs/uploads", "uploads/blobs", "v2/blobs", "tags", "list", "a/tags/list", "b/referrers", "catalog",
	"v2/v2", "manifests/manifests", "a/blobs", "blobs/sha256", "x/uploads/y", "0/blobs/uploads/0",
}
var plainRepos = []string{"r1", "a/b", "proj/img", "lib.x/y-z_0"}
var routingTags = []string{"uploads", "list", "blobs", "manifests", "latest", "tags", "referrers", "v2", "_catalog", "sha256"}
var plainTags = []string{"t1", "v1.0", "A.b-c_d"}

var manifestMedia = []string{
	"application/vnd.docker.distribution.manifest.v2+json",
	"application/vnd.docker.distribution.manifest.list.v2+json",
	"application/vnd.custom.thing",
	"text/plain; charset=utf-8",
	"application/vnd.oci.artifact.manifest.v1+json",
}
var blobMedia = []string{
	"application/octet-stream", "application/octet-stream", "application/octet-stream",
	"application/vnd.oci.image.layer.v1.tar+gzip", "application/vnd.oci.image.config.v1+json", "application/vnd.custom",
}

const threshold = 128 * 1024

func sha384Digest(c []byte) string {
	h := sha512.Sum384(c)
	return "sha384:" + hex.EncodeToString(h[:])
}
func sha512Digest(c []byte) string {
	h := sha512.Sum512(c)
	return "sha512:" + hex.EncodeToString(h[:])
}

type sessInfo struct {
	repo    string
	id      string
	written int
	done    bool // committed or cancelled: no further use
	closed  bool
	failed  bool // a Commit failed: only another Commit or Cancel follows
	shut    bool // Close was called on the current writer: no Write before a resume
}

type genC03 struct {
	r        *rand.Rand
	g        *memsim.Gen
	ex       *memsim.Exec // scratch registry the history is generated against
	sess     []*sessInfo
	ill      bool // the ill-formed stream: anything memsim draws is kept
	bigs     [][]byte
	media    bool // may push blobs under non-default media types (known finding)
	mounted  [][3]string
	quota    int
	nBig     int
	queue    []memsim.Op // follow-ups of an operation just drawn (reads of a large manifest, ...)
	alg      bool        // the registry is algstore: blobs are pushed under sha256 / sha384 / sha512 digests
	listy    bool        // more tags, more listings
}

func pickN(r *rand.Rand, from []string, n int) []string {
	p := r.Perm(len(from))
	var out []string
	for i := 0; i < n && i < len(p); i++ {
		out = append(out, from[p[i]])
	}
	return out
}

func newGenC03(r *rand.Rand, ill bool, flavour string) *genC03 {
	g := memsim.NewGen(r, false)
	g.Repos = append(pickN(r, routingRepos, 2+r.Intn(2)), pickN(r, plainRepos, 1)...)
	g.Tags = append(pickN(r, routingTags, 2), pickN(r, plainTags, 1)...)
	c := &genC03{r: r, g: g, ill: ill, media: r.Intn(3) == 0}
	switch flavour {
	case "alg":
		c.alg, c.media = true, false
		c.ex = memsim.NewExec(newAlgStore(), true)
		// contents that do not fit one chunk of the backend (8 KiB) or of a small read buffer
		g.Contents = append(g.Contents, pad([]byte("alg-"), 9000+r.Intn(100), byte('a'+r.Intn(20))), pad([]byte("alg+"), 600+r.Intn(100), byte('a'+r.Intn(20))))
	case "listy":
		c.listy = true
		g.Tags = append(pickN(r, routingTags, 3+r.Intn(3)), pickN(r, plainTags, 1+r.Intn(2))...)
		g.Repos = append(pickN(r, routingRepos, 3+r.Intn(3)), pickN(r, plainRepos, 1+r.Intn(2))...)
		c.ex = memsim.NewExec(ocimem.New(), true)
	default:
		c.ex = memsim.NewExec(ocimem.New(), true)
	}
	return c
}

var algNames = []digest.Algorithm{digest.SHA256, digest.SHA384, digest.SHA512}

func (c *genC03) algDigest(content []byte) string {
	return string(algNames[c.r.Intn(len(algNames))].FromBytes(content))
}

// algOp draws a blob operation under one of the three digest algorithms: a push (right, or
// with the digest of another content / of another algorithm's length, or a wrong size), the
// start of an upload, or a read / resolve / range / delete / mount of a content under the
// digest of a random algorithm (so also: stored under one algorithm, asked for under another).
func (c *genC03) algOp() memsim.Op {
	repo := c.g.Repos[c.r.Intn(len(c.g.Repos))]
	content := c.g.Contents[c.r.Intn(len(c.g.Contents))]
	d := c.algDigest(content)
	p := c.r.Intn(20)
	if p >= 9 && c.r.Intn(4) != 0 {
		// mostly something that is there
		if br, bd, ok := c.liveBlob(); ok {
			repo, d = br, bd
			content = make([]byte, c.blobLen(br, bd))
		}
	}
	if p >= 9 && p < 14 && c.r.Intn(3) == 0 {
		// a manifest by the digest of its content under a random algorithm
		var ms []memsim.ManRef
		for _, i := range c.r.Perm(len(c.g.Repos)) {
			if r := c.g.Repos[i]; len(c.g.Manifests[r]) > 0 {
				repo, ms = r, c.g.Manifests[r]
				break
			}
		}
		if len(ms) > 0 {
			kind := "GetManifest"
			if p >= 12 {
				kind = "ResolveManifest"
			}
			return memsim.Op{Kind: kind, Repo: repo, Digest: c.algDigest(ms[c.r.Intn(len(ms))].Content)}
		}
	}
	switch {
	case p < 7:
		de := &memsim.Desc{Media: "application/octet-stream", Digest: d, Size: int64(len(content))}
		switch c.r.Intn(12) {
		case 0:
			de.Digest = c.algDigest(append([]byte("x"), content...))
		case 1:
			de.Size++
		}
		return memsim.Op{Kind: "PushBlob", Repo: repo, Desc: de, Content: content}
	case p < 9:
		return memsim.Op{Kind: "PushBlobChunked", Repo: repo, Hint: int64(c.r.Intn(2))}
	case p < 12:
		return memsim.Op{Kind: "GetBlob", Repo: repo, Digest: d}
	case p < 14:
		return memsim.Op{Kind: "ResolveBlob", Repo: repo, Digest: d}
	case p < 16:
		n := int64(len(content))
		g0 := []int64{0, 1, n / 2, n - 1, n}
		g1 := []int64{-1, 1, n/2 + 1, n - 1, n, n + 1}
		return memsim.Op{Kind: "GetBlobRange", Repo: repo, Digest: d, O0: g0[c.r.Intn(len(g0))], O1: g1[c.r.Intn(len(g1))]}
	case p < 18:
		return memsim.Op{Kind: "MountBlob", From: repo, Repo: c.g.Repos[c.r.Intn(len(c.g.Repos))], Digest: d}
	default:
		return memsim.Op{Kind: "DeleteBlob", Repo: repo, Digest: d}
	}
}

// listOp draws a listing (mostly from the beginning).
func (c *genC03) listOp() memsim.Op {
	start := ""
	if c.r.Intn(4) == 0 {
		start = []string{"a", "latest", "m", "t", c.g.Tags[0], c.g.Repos[0]}[c.r.Intn(6)]
	}
	if c.r.Intn(3) == 0 {
		return memsim.Op{Kind: "Repositories", Start: start}
	}
	repo := c.g.Repos[c.r.Intn(len(c.g.Repos))]
	var withTags []string
	for _, r := range c.g.Repos {
		if len(c.g.TagsSet[r]) > 0 {
			withTags = append(withTags, r)
		}
	}
	if len(withTags) > 0 && c.r.Intn(5) != 0 {
		repo = withTags[c.r.Intn(len(withTags))]
	}
	return memsim.Op{Kind: "Tags", Repo: repo, Start: start}
}

// tagOp pushes a small manifest under a tag the repository does not have yet (when there is one).
func (c *genC03) tagOp() memsim.Op {
	repo := c.g.Repos[c.r.Intn(len(c.g.Repos))]
	tag := c.g.Tags[c.r.Intn(len(c.g.Tags))]
	for _, t := range c.g.Tags {
		have := false
		for _, x := range c.g.TagsSet[repo] {
			have = have || x == t
		}
		if !have {
			tag = t
			break
		}
	}
	return memsim.Op{Kind: "PushManifest", Repo: repo, Tag: tag, Content: c.g.Contents[c.r.Intn(len(c.g.Contents))], Media: manifestMedia[c.r.Intn(len(manifestMedia))]}
}


func validDigest(d string) bool { return digest.Digest(d).Validate() == nil }

// namesOK: every repository name, tag and digest the operation mentions is well-formed.
func namesOK(o memsim.Op) bool {
	if o.Kind == "Repositories" {
		return true
	}
	if isWriterOp(o.Kind) {
		return o.Kind != "WCommit" || validDigest(o.Digest)
	}
	if !ociref.IsValidRepository(o.Repo) {
		return false
	}
	if o.Kind == "MountBlob" && !ociref.IsValidRepository(o.From) {
		return false
	}
	if o.Tag != "" && !ociref.IsValidTag(o.Tag) {
		return false
	}
	switch o.Kind {
	case "GetTag", "ResolveTag", "DeleteTag":
		return o.Tag != ""
	case "GetBlob", "GetBlobRange", "GetManifest", "ResolveBlob", "ResolveManifest", "DeleteBlob", "DeleteManifest", "MountBlob", "Referrers":
		return validDigest(o.Digest)
	case "PushBlob":
		return validDigest(o.Desc.Digest)
	}
	return true
}

// usable: the operation uses the interface the way interface.go says to - a blob descriptor
// has a media type; an upload is resumed with the ID of a writer of this history, in its
// repository, after Close (or before any Write), at offset Size or -1; nothing is written to a
// writer after its Close (the upload is resumed first); a writer that was committed or
// cancelled is not used again, one whose Commit failed only for another Commit or Cancel; an
// empty digest is not committed.
func (c *genC03) usable(o memsim.Op) bool {
	if isWriterOp(o.Kind) {
		if o.W < 0 || o.W >= len(c.sess) {
			return false
		}
		if c.sess[o.W].done {
			return false
		}
		if c.sess[o.W].failed && o.Kind != "WCommit" && o.Kind != "WCancel" {
			return false
		}
		if c.sess[o.W].shut && o.Kind == "WWrite" {
			return false
		}
		if o.Kind == "WCommit" && o.Digest == "" {
			return false
		}
		// ocimem quotes the whole upload in its digest-mismatch message: above 8 KiB the error
		// body is no longer parsed by the client (C07's known finding oversize-body, not ours)
		if o.Kind == "WCommit" && c.sess[o.W].written > 4000 && o.Digest != memsim.Sha(c.g.Writers[o.W].Written) {
			return false
		}
		return true
	}
	switch o.Kind {
	case "GetManifest", "ResolveManifest", "DeleteManifest":
		// outside the property (ill-formed name), and not even judged: a "digest" that is a
		// well-formed TAG is served as the tag operation by the client and the server
		if !validDigest(o.Digest) && ociref.IsValidTag(o.Digest) {
			return false
		}
	case "PushBlob":
		if o.Desc.Media == "" {
			return false
		}
		if o.Desc.Media != "application/octet-stream" && !c.media {
			return false
		}
	case "PushBlobChunkedResume":
		for _, s := range c.sess {
			if s.id == o.ID && s.repo == o.Repo && !s.done && !s.failed && s.closed && (o.Off == -1 || o.Off == int64(s.written)) {
				// "Range: 0-0" is the upload status of an empty upload and of one byte alike (known
				// finding resume-one-byte, kept as a corpus case): everything after such a resume
				// goes wrong, so it is not drawn
				return !(o.Off == -1 && s.written == 1)
			}
		}
		return false
	}
	return true
}

func (c *genC03) liveBlob() (repo, dig string, ok bool) {
	var cands [][2]string
	for r, ds := range c.g.Blobs {
		for _, d := range ds {
			cands = append(cands, [2]string{r, d})
		}
	}
	if len(cands) == 0 {
		return "", "", false
	}
	// map iteration order is random: sort for determinism
	sortPairs(cands)
	p := cands[c.r.Intn(len(cands))]
	return p[0], p[1], true
}

func sortPairs(ps [][2]string) {
	for i := 1; i < len(ps); i++ {
		for j := i; j > 0 && (ps[j][0] < ps[j-1][0] || ps[j][0] == ps[j-1][0] && ps[j][1] < ps[j-1][1]); j-- {
			ps[j], ps[j-1] = ps[j-1], ps[j]
		}
	}
}

func (c *genC03) blobLen(repo, dig string) int {
	r := memsim.NewExec(c.ex.Reg, true).Run(memsim.Op{Kind: "ResolveBlob", Repo: repo, Digest: dig})
	if r.Kind == "desc" {
		return int(r.Desc.Size)
	}
	return 0
}

func pad(prefix []byte, n int, b byte) []byte {
	out := make([]byte, n)
	copy(out, prefix)
	for i := len(prefix); i < n; i++ {
		out[i] = b
	}
	return out
}

// special draws the operations memsim's generator does not: the routing words are in the
// universe already; here are sizes around the client's in-memory threshold, other digest
// algorithms, media types, the range grid and delete-after-mount.
func (c *genC03) special() (memsim.Op, bool) {
	repo := c.g.Repos[c.r.Intn(len(c.g.Repos))]
	tag := c.g.Tags[c.r.Intn(len(c.g.Tags))]
	switch p := c.r.Intn(18); {
	case p < 2 && c.nBig < 2: // a manifest on either side of the threshold
		c.nBig++
		n := threshold + c.r.Intn(3) - 1
		if c.r.Intn(3) == 0 { // a well-formed image manifest padded with white space
			m := ocispec.Manifest{MediaType: ocispec.MediaTypeImageManifest}
			m.SchemaVersion = 2
			cfg := []byte("{}")
			if br, bd, ok := c.liveBlob(); ok {
				repo = br
				m.Config = ocispec.Descriptor{MediaType: ocispec.MediaTypeImageConfig, Digest: digest.Digest(bd), Size: int64(1 + c.blobLen(br, bd))}
			} else {
				m.Config = ocispec.Descriptor{MediaType: ocispec.MediaTypeImageConfig, Digest: digest.Digest(memsim.Sha(cfg)), Size: 2}
			}
			b, _ := json.Marshal(m)
			return c.bigPush(memsim.Op{Kind: "PushManifest", Repo: repo, Tag: tag, Content: pad(b, n, ' '), Media: ocispec.MediaTypeImageManifest}), true
		}
		media := manifestMedia[c.r.Intn(len(manifestMedia))]
		return c.bigPush(memsim.Op{Kind: "PushManifest", Repo: repo, Tag: tag, Content: pad([]byte{byte('a' + c.r.Intn(3))}, n, 'x'), Media: media}), true
	case p < 4: // small manifests of other media types
		media := manifestMedia[c.r.Intn(len(manifestMedia))]
		t := tag
		if c.r.Intn(3) == 0 {
			t = ""
		}
		return memsim.Op{Kind: "PushManifest", Repo: repo, Tag: t, Content: c.g.Contents[c.r.Intn(len(c.g.Contents))], Media: media}, true
	case p < 6: // other digest algorithms
		content := c.g.Contents[c.r.Intn(len(c.g.Contents))]
		d := sha512Digest(content)
		if c.r.Intn(2) == 0 {
			d = sha384Digest(content)
		}
		switch c.r.Intn(8) {
		case 0:
			return memsim.Op{Kind: "PushBlob", Repo: repo, Desc: &memsim.Desc{Media: "application/octet-stream", Digest: d, Size: int64(len(content))}, Content: content}, true
		case 1:
			return memsim.Op{Kind: "GetBlob", Repo: repo, Digest: d}, true
		case 2:
			return memsim.Op{Kind: "ResolveBlob", Repo: repo, Digest: d}, true
		case 3:
			return memsim.Op{Kind: "GetManifest", Repo: repo, Digest: d}, true
		case 4:
			return memsim.Op{Kind: "ResolveManifest", Repo: repo, Digest: d}, true
		case 5:
			return memsim.Op{Kind: "Referrers", Repo: repo, Digest: d}, true
		case 6:
			return memsim.Op{Kind: "MountBlob", From: repo, Repo: c.g.Repos[c.r.Intn(len(c.g.Repos))], Digest: d}, true
		default:
			return memsim.Op{Kind: "DeleteBlob", Repo: repo, Digest: d}, true
		}
	case p < 8 && c.media: // a blob pushed with another media type in its descriptor
		content := c.g.Contents[c.r.Intn(len(c.g.Contents))]
		return memsim.Op{Kind: "PushBlob", Repo: repo, Desc: &memsim.Desc{Media: blobMedia[c.r.Intn(len(blobMedia))], Digest: memsim.Sha(content), Size: int64(len(content))}, Content: content}, true
	case p < 11: // range grid on a stored blob
		br, bd, ok := c.liveBlob()
		if !ok {
			return memsim.Op{}, false
		}
		n := int64(c.blobLen(br, bd))
		g0 := []int64{0, 1, n - 1, n, n + 1}
		g1 := []int64{-1, 0, 1, n - 1, n, n + 1, -2}
		return memsim.Op{Kind: "GetBlobRange", Repo: br, Digest: bd, O0: g0[c.r.Intn(len(g0))], O1: g1[c.r.Intn(len(g1))]}, true
	case p < 13: // mount, to be followed by deletes and reads (12)
		br, bd, ok := c.liveBlob()
		if !ok {
			return memsim.Op{}, false
		}
		c.mounted = append(c.mounted, [3]string{br, repo, bd})
		return memsim.Op{Kind: "MountBlob", From: br, Repo: repo, Digest: bd}, true
	case p == 13 || p == 14: // listing from a start point that needs escaping in the query string
		start := []string{"a&n=1", "x y", "a+b", "%41", "b/c?d", "tags#frag", "é", "latest", c.g.Repos[0]}[c.r.Intn(9)]
		if c.r.Intn(2) == 0 {
			return memsim.Op{Kind: "Tags", Repo: repo, Start: start}, true
		}
		return memsim.Op{Kind: "Repositories", Start: start}, true
	case p < 18:
		if len(c.mounted) == 0 {
			return memsim.Op{}, false
		}
		m := c.mounted[c.r.Intn(len(c.mounted))]
		side := m[c.r.Intn(2)]
		kind := []string{"DeleteBlob", "DeleteBlob", "GetBlob", "ResolveBlob", "GetBlobRange"}[c.r.Intn(5)]
		o := memsim.Op{Kind: kind, Repo: side, Digest: m[2]}
		if kind == "GetBlobRange" {
			o.O0, o.O1 = 1, -1
		}
		return o, true
	}
	return memsim.Op{}, false
}

// bigPush queues reads of the large manifest being pushed.
func (c *genC03) bigPush(o memsim.Op) memsim.Op {
	c.queue = append(c.queue, memsim.Op{Kind: "GetTag", Repo: o.Repo, Tag: o.Tag})
	switch c.r.Intn(3) {
	case 0:
		c.queue = append(c.queue, memsim.Op{Kind: "ResolveTag", Repo: o.Repo, Tag: o.Tag})
	case 1:
		c.queue = append(c.queue, memsim.Op{Kind: "GetManifest", Repo: o.Repo, Digest: memsim.Sha(o.Content)})
	}
	return o
}

// sessionOp draws an operation of an upload in progress, following the protocol of
// interface.go: write, close, resume (with -1 or the size), commit, now and then cancel.
func (c *genC03) sessionOp() (memsim.Op, bool) {
	var live []int
	for i, s := range c.sess {
		if !s.done && !s.failed {
			live = append(live, i)
		}
	}
	if len(live) == 0 {
		return memsim.Op{}, false
	}
	i := live[c.r.Intn(len(live))]
	s := c.sess[i]
	w := c.g.Writers[i]
	switch p := c.r.Intn(12); {
	case p < 4:
		data := c.g.Contents[c.r.Intn(len(c.g.Contents))]
		if c.r.Intn(6) == 0 {
			data = pad([]byte("chunk"), 9000+c.r.Intn(3), byte('a'+c.r.Intn(3))) // more than the 8 KiB chunk the backend asks for
		}
		return memsim.Op{Kind: "WWrite", W: i, Content: data}, true
	case p < 6:
		return memsim.Op{Kind: "WClose", W: i}, true
	case p < 8:
		if !s.closed {
			return memsim.Op{Kind: "WClose", W: i}, true
		}
		off := int64(-1)
		if c.r.Intn(2) == 0 {
			off = int64(s.written)
		}
		return memsim.Op{Kind: "PushBlobChunkedResume", Repo: s.repo, ID: s.id, Off: off, Hint: int64(c.r.Intn(2))}, true
	case p < 9:
		return memsim.Op{Kind: "WSize", W: i}, true
	case p < 11:
		if c.alg {
			return memsim.Op{Kind: "WCommit", W: i, Digest: c.algDigest(w.Written)}, true
		}
		return memsim.Op{Kind: "WCommit", W: i, Digest: memsim.Sha(w.Written)}, true
	default:
		return memsim.Op{Kind: "WID", W: i}, true
	}
}

// next draws the next operation of the history and applies it to the scratch registry.
func (c *genC03) next() memsim.Op {
	for tries := 0; ; tries++ {
		var o memsim.Op
		if len(c.queue) > 0 && c.r.Intn(3) != 0 {
			o = c.queue[0]
			c.queue = c.queue[1:]
		} else if so, ok := c.sessionOp(); ok && c.r.Intn(4) == 0 {
			o = so
		} else if c.alg && c.r.Intn(5) < 2 {
			o = c.algOp()
		} else if c.listy && c.r.Intn(3) == 0 {
			if c.r.Intn(2) == 0 {
				o = c.tagOp()
			} else {
				o = c.listOp()
			}
		} else if c.r.Intn(4) == 0 {
			var ok bool
			if o, ok = c.special(); !ok {
				continue
			}
		} else {
			o = c.g.Next()
		}
		if !c.usable(o) {
			continue
		}
		if !namesOK(o) && c.r.Intn(4) != 0 { // a thin stream of ill-formed names
			continue
		}
		res := c.ex.Run(o)
		c.g.Update(o, res, c.ex)
		c.track(o, res)
		return o
	}
}

func (c *genC03) track(o memsim.Op, res memsim.Result) {
	switch o.Kind {
	case "PushBlobChunked", "PushBlobChunkedResume":
		if res.Kind == "writer" {
			for len(c.sess) <= res.W {
				c.sess = append(c.sess, &sessInfo{repo: o.Repo, id: c.ex.WriterCanonID(res.W), closed: true})
			}
			c.sess[res.W].shut = false
		}
	case "WWrite":
		if res.Kind == "n" && o.W < len(c.sess) {
			c.sess[o.W].written += int(res.N)
			c.sess[o.W].closed = false
		}
	case "WClose":
		if o.W < len(c.sess) {
			c.sess[o.W].closed = true
			c.sess[o.W].shut = true
		}
	case "WCommit":
		if o.W < len(c.sess) {
			if res.Kind == "desc" {
				c.sess[o.W].done = true
			} else {
				c.sess[o.W].failed = true
			}
		}
	case "WCancel":
		if o.W < len(c.sess) {
			c.sess[o.W].done = true
		}
	}
}

func genHistory(r *rand.Rand, st Stack, length int, flavour string) history {
	c := newGenC03(r, false, flavour)
	h := history{Stack: st, Stream: "main"}
	if flavour == "alg" {
		h.Backend = "algstore"
	}
	for i := 0; i < length; i++ {
		o := c.next()
		if !namesOK(o) {
			h.Stream = "mixed"
		}
		h.Ops = append(h.Ops, o)
	}
	h.Passes = genPasses(r, h.Ops, c.listy)
	return h
}

// genPasses decides how the iterators of the listing operations are iterated: about half of
// them once (as every caller did before), the others again after a complete pass, after a pass
// stopped at the k-th yield, or both.  Referrers (whose client-side iterator is a slice) is
// only ever stopped and then completed: its request belongs to the call, not to a pass.
func genPasses(r *rand.Rand, ops []memsim.Op, often bool) map[int][]int {
	out := map[int][]int{}
	for i, o := range ops {
		if !isIterOp(o.Kind) || (!often && r.Intn(2) == 0) || (often && r.Intn(5) == 0) {
			continue
		}
		k := 1 + r.Intn(4)
		if o.Kind == "Referrers" {
			out[i] = []int{k, 0}
			continue
		}
		switch r.Intn(4) {
		case 0:
			out[i] = []int{0, 0}
		case 1:
			out[i] = []int{k, 0}
		case 2:
			out[i] = []int{0, k, 0}
		default:
			out[i] = []int{k, 1 + r.Intn(4), 0, 0}
		}
	}
	if len(out) == 0 {
		return nil
	}
	return out
}

// listyStack: small pages, so that listings take several requests.
func listyStack(r *rand.Rand) Stack {
	st := genStack(r)
	st.Page = 1 + r.Intn(3)
	if st.Opts1.MaxPage > 0 && st.Opts1.MaxPage < st.Page && r.Intn(6) != 0 {
		st.Opts1.MaxPage = 0
	}
	if st.Hops == 2 {
		st.Page2 = 1 + r.Intn(3)
		if st.Opts2.MaxPage > 0 && st.Opts2.MaxPage < st.Page2 && r.Intn(6) != 0 {
			st.Opts2.MaxPage = 0
		}
	}
	return st
}

// genStack draws what stands between the caller and the registry.
func genStack(r *rand.Rand) Stack {
	opts := func() SOpts {
		o := SOpts{OmitDigest: r.Intn(2) == 0, OmitLink: r.Intn(2) == 0, NoSinglePost: r.Intn(2) == 0}
		if r.Intn(2) == 0 {
			o.MaxPage = 1 + r.Intn(3)
		}
		return o
	}
	page := func(o SOpts) int {
		p := r.Intn(4) // 0 = default
		if o.MaxPage > 0 && r.Intn(4) != 0 {
			p = 1 + r.Intn(o.MaxPage) // mostly a page size the server accepts
		}
		return p
	}
	st := Stack{Hops: 1, DbgBackend: r.Intn(3) == 0, DbgClient: r.Intn(3) == 0}
	if r.Intn(3) == 0 {
		st.Hops = 2
	}
	if r.Intn(5) != 0 {
		st.Opts1 = opts()
	}
	st.Page = page(st.Opts1)
	if st.Hops == 2 {
		if r.Intn(5) != 0 {
			st.Opts2 = opts()
		}
		st.Page2 = page(st.Opts2)
	}
	return st
}
