package main

import (
	"bytes"
	"fmt"
	"io"
	"net/http"
	"net/http/httptest"
	"net/url"
	"os"
	"sync"
	"sync/atomic"
	"time"

	"cuelabs.dev/go/oci/ociregistry"
	"cuelabs.dev/go/oci/ociregistry/ociclient"
	"cuelabs.dev/go/oci/ociregistry/ocidebug"
	"cuelabs.dev/go/oci/ociregistry/ociserver"
	"verif/harness/hx"
)

func bytesReader(b []byte) io.Reader { return bytes.NewReader(b) }

// SOpts is one ociserver option set (sopts of coq/Model/Transparent.v).
type SOpts struct {
	OmitDigest   bool `json:"omit_digest,omitempty"`
	OmitLink     bool `json:"omit_link,omitempty"`
	MaxPage      int  `json:"max_page,omitempty"`
	NoSinglePost bool `json:"no_single_post,omitempty"`
}

func (o SOpts) Coq() string {
	return fmt.Sprintf("{| so_omit_digest := %s; so_omit_link := %s; so_max_page := %s; so_no_single_post := %s |}",
		hx.Bool(o.OmitDigest), hx.Bool(o.OmitLink), hx.Z(int64(o.MaxPage)), hx.Bool(o.NoSinglePost))
}

func (o SOpts) isDefault() bool { return o == SOpts{} }

// Stack describes what stands between the caller and registry instance B.
//
//	one hop:   [ocidebug] client(Page) -> server(Opts1) -> [ocidebug] recorder -> B
//	two hops:  [ocidebug] client(Page) -> server(Opts1) -> client(Page2) -> server(Opts2) -> [ocidebug] recorder -> B
type Stack struct {
	Hops       int   `json:"hops"`
	Opts1      SOpts `json:"opts1"`
	Opts2      SOpts `json:"opts2"`
	DbgBackend bool  `json:"dbg_backend,omitempty"`
	DbgClient  bool  `json:"dbg_client,omitempty"`
	Page       int   `json:"page,omitempty"`  // client ListPageSize, 0 = default (1000)
	Page2      int   `json:"page2,omitempty"` // the inner client's, two hops only
}

func (s Stack) Coq() string {
	return fmt.Sprintf("{| k_hops := %d; k_opts1 := %s; k_opts2 := %s; k_dbg_backend := %s; k_dbg_client := %s; k_page := %s; k_page2 := %s |}",
		s.Hops, s.Opts1.Coq(), s.Opts2.Coq(), hx.Bool(s.DbgBackend), hx.Bool(s.DbgClient), hx.Z(int64(s.Page)), hx.Z(int64(s.Page2)))
}

func (s Stack) Name() string {
	n := fmt.Sprintf("hops%d", s.Hops)
	if s.DbgBackend {
		n += "+dbgB"
	}
	if s.DbgClient {
		n += "+dbgC"
	}
	return n
}

type built struct {
	reg      ociregistry.Interface // what the caller talks to
	spy      *spy                  // the same, remembering the last error it handed out
	rec      *recorder
	mem      ociregistry.Interface // instance B
	inflight int64            // handlers running in any of the servers
	sent     [2]int64         // requests each client (0 = the caller's) has handed to its transport
	served   [2]int64         // requests each server (0 = the outermost) has finished with
	lost     [2]int64         // requests given up on (they never reached their server)
	cleanup  []func()
	// measure: record the body size of every response with a status >= 400, per server
	// (0 = the outermost) - only the error-size probes (errsize.go) switch it on
	measure bool
	errMu   sync.Mutex
	errBody [2][]int64
}

// sizeWriter counts the bytes of a response body.
type sizeWriter struct {
	http.ResponseWriter
	status int
	n      int64
}

func (w *sizeWriter) WriteHeader(c int) {
	if w.status == 0 {
		w.status = c
	}
	w.ResponseWriter.WriteHeader(c)
}

func (w *sizeWriter) Write(p []byte) (int, error) {
	if w.status == 0 {
		w.status = http.StatusOK
	}
	n, err := w.ResponseWriter.Write(p)
	w.n += int64(n)
	return n, err
}

// takeErrBodies returns, per server that answered with an error since the last call, the
// largest error body it wrote (outermost server first).
func (b *built) takeErrBodies() []int64 {
	b.errMu.Lock()
	defer b.errMu.Unlock()
	var out []int64
	for hop := range b.errBody {
		if len(b.errBody[hop]) > 0 {
			m := int64(0)
			for _, n := range b.errBody[hop] {
				m = max(m, n)
			}
			out = append(out, m)
		}
		b.errBody[hop] = nil
	}
	return out
}

// countingTransport counts the requests of one client.
type countingTransport struct {
	b   *built
	hop int
}

func (t countingTransport) RoundTrip(req *http.Request) (*http.Response, error) {
	atomic.AddInt64(&t.b.sent[t.hop], 1)
	return http.DefaultTransport.RoundTrip(req)
}

func (b *built) Close() {
	for i := len(b.cleanup) - 1; i >= 0; i-- {
		b.cleanup[i]()
	}
}

// quiesce waits until no server handler is running, so that everything the backend was
// asked to do on behalf of the operation that just returned has been recorded (a handler
// may still be in its deferred calls when the client has the complete response).
// A request that failed in the transport (body refused by net/http, context cancelled because
// the caller's connection broke) may not even have reached its handler when the client
// returns: so also wait until every server has finished with as many requests as the client in
// front of it sent (for at most 100 ms: a request that never reached the server is never served).
func (b *built) quiesce() {
	start := time.Now()
	for i := 0; ; i++ {
		idle := atomic.LoadInt64(&b.inflight) == 0
		caughtUp := atomic.LoadInt64(&b.served[0])+b.lost[0] >= atomic.LoadInt64(&b.sent[0]) &&
			atomic.LoadInt64(&b.served[1])+b.lost[1] >= atomic.LoadInt64(&b.sent[1])
		if idle && (caughtUp || time.Since(start) > 100*time.Millisecond) {
			if !caughtUp {
				if os.Getenv("C03_DEBUG") != "" {
					fmt.Fprintf(os.Stderr, "quiesce: gave up: sent=%v served=%v\n", b.sent, b.served)
				}
				for i := range b.lost {
					if d := atomic.LoadInt64(&b.sent[i]) - atomic.LoadInt64(&b.served[i]); d > b.lost[i] {
						b.lost[i] = d
					}
				}
			}
			return
		}
		if time.Since(start) > 5*time.Second {
			panic("servers did not become idle")
		}
		time.Sleep(50 * time.Microsecond)
	}
}

func serverOptions(o SOpts) *ociserver.Options {
	return &ociserver.Options{
		OmitDigestFromTagGetResponse: o.OmitDigest,
		OmitLinkHeaderFromResponses:  o.OmitLink,
		MaxListPageSize:              o.MaxPage,
		DisableSinglePostUpload:      o.NoSinglePost,
	}
}

func clientFor(srvURL string, page int, tr http.RoundTripper) ociregistry.Interface {
	u, err := url.Parse(srvURL)
	if err != nil {
		panic(err)
	}
	c, err := ociclient.New(u.Host, &ociclient.Options{Insecure: true, ListPageSize: page, Transport: tr})
	if err != nil {
		panic(err)
	}
	return c
}

func nolog(string, ...any) {}

func build(s Stack, behind ociregistry.Interface) *built { return buildM(s, behind, false) }

func buildM(s Stack, behind ociregistry.Interface, measure bool) *built {
	b := &built{mem: behind, measure: measure}
	b.rec = newRecorder(b.mem)
	serve := func(backend ociregistry.Interface, o SOpts, hop int) string {
		h := ociserver.New(backend, serverOptions(o))
		srv := httptest.NewServer(http.HandlerFunc(func(w http.ResponseWriter, req *http.Request) {
			atomic.AddInt64(&b.inflight, 1)
			defer func() {
				atomic.AddInt64(&b.served[hop], 1)
				atomic.AddInt64(&b.inflight, -1)
			}()
			if b.measure {
				sw := &sizeWriter{ResponseWriter: w}
				h.ServeHTTP(sw, req)
				if sw.status >= 400 {
					b.errMu.Lock()
					b.errBody[hop] = append(b.errBody[hop], sw.n)
					b.errMu.Unlock()
				}
				return
			}
			h.ServeHTTP(w, req)
		}))
		b.cleanup = append(b.cleanup, srv.Close)
		return srv.URL
	}
	var backend ociregistry.Interface = b.rec
	if s.DbgBackend {
		backend = ocidebug.New(backend, nolog)
	}
	var reg ociregistry.Interface
	switch s.Hops {
	case 1:
		reg = clientFor(serve(backend, s.Opts1, 0), s.Page, countingTransport{b, 0})
	case 2:
		inner := clientFor(serve(backend, s.Opts2, 1), s.Page2, countingTransport{b, 1})
		reg = clientFor(serve(inner, s.Opts1, 0), s.Page, countingTransport{b, 0})
	default:
		panic("hops must be 1 or 2")
	}
	if s.DbgClient {
		reg = ocidebug.New(reg, nolog)
	}
	b.spy = newSpy(reg)
	b.reg = b.spy
	return b
}
