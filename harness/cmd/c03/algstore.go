package main

// algstore: a registry that holds blobs under digests of every algorithm go-digest knows
// (sha256, sha384, sha512), for histories the property quantifies over and ocimem cannot
// carry (ocimem accepts a content only under its sha256 digest).
//
// Manifests, tags, referrers, the catalogue and sha256 blobs are ocimem's (an embedded
// *ocimem.Registry); blobs under another algorithm are kept here, per repository, with
// ocimem's conventions (a repository exists once something was pushed or an upload was started
// in it; unknown repository = NAME_UNKNOWN, unknown blob = BLOB_UNKNOWN; an invalid range is an
// error without code).  Every upload session is algstore's own: the digest handed to Commit is
// checked with ITS algorithm, and the content goes to ocimem (sha256) or to the store here.
//
// A manifest ocimem holds (under its sha256 digest) is also served by GetManifest /
// ResolveManifest under the sha384 and sha512 digests of its content, with that digest in the
// descriptor.
//
// It is used on both sides of a CFree case (called directly, and behind the stack), so the
// comparison never depends on how close it is to ocimem.

import (
	"context"
	"errors"
	"fmt"
	"io"
	"sync"

	"cuelabs.dev/go/oci/ociregistry"
	"cuelabs.dev/go/oci/ociregistry/ocimem"
	"github.com/opencontainers/go-digest"
)

const emptySha256 = "sha256:e3b0c44298fc1c149afbf4c8996fb92427ae41e4649b934ca495991b7852b855"

type algStore struct {
	*ocimem.Registry
	mu      sync.Mutex
	blobs   map[string]map[ociregistry.Digest][]byte // repository -> digest -> content (not sha256)
	uploads map[string]*algUpload                    // repository + NUL + id
	alias   map[string]ociregistry.Digest            // repository + NUL + sha384 / sha512 digest of a manifest -> its sha256 digest
	n       int
}

func newAlgStore() *algStore {
	return &algStore{Registry: ocimem.New(), blobs: map[string]map[ociregistry.Digest][]byte{}, uploads: map[string]*algUpload{},
		alias: map[string]ociregistry.Digest{}}
}

// foreign: a well-formed digest of an algorithm that is not sha256.
func foreign(d ociregistry.Digest) bool {
	return d.Validate() == nil && d.Algorithm() != digest.SHA256
}

// repoKnown asks ocimem whether the repository exists (nil), or returns its NAME_UNKNOWN.
func (s *algStore) repoKnown(ctx context.Context, repo string) error {
	_, err := s.Registry.ResolveBlob(ctx, repo, emptySha256)
	if errors.Is(err, ociregistry.ErrNameUnknown) {
		return err
	}
	return nil
}

// makeRepo creates the repository in ocimem (as ocimem's makeRepo does for every push and
// every upload start); an invalid name is ocimem's NAME_INVALID.
func (s *algStore) makeRepo(ctx context.Context, repo string) error {
	w, err := s.Registry.PushBlobChunked(ctx, repo, 0)
	if err != nil {
		return err
	}
	w.Cancel()
	return nil
}

func blobDesc(d ociregistry.Digest, data []byte) ociregistry.Descriptor {
	return ociregistry.Descriptor{MediaType: "application/octet-stream", Digest: d, Size: int64(len(data))}
}

func (s *algStore) lookup(ctx context.Context, repo string, d ociregistry.Digest) ([]byte, error) {
	if err := s.repoKnown(ctx, repo); err != nil {
		return nil, err
	}
	s.mu.Lock()
	defer s.mu.Unlock()
	data, ok := s.blobs[repo][d]
	if !ok {
		return nil, ociregistry.ErrBlobUnknown
	}
	return data, nil
}

func (s *algStore) store(repo string, d ociregistry.Digest, data []byte) {
	s.mu.Lock()
	defer s.mu.Unlock()
	if s.blobs[repo] == nil {
		s.blobs[repo] = map[ociregistry.Digest][]byte{}
	}
	s.blobs[repo][d] = data
}

func (s *algStore) GetBlob(ctx context.Context, repo string, d ociregistry.Digest) (ociregistry.BlobReader, error) {
	if !foreign(d) {
		return s.Registry.GetBlob(ctx, repo, d)
	}
	data, err := s.lookup(ctx, repo, d)
	if err != nil {
		return nil, err
	}
	return ocimem.NewBytesReader(data, blobDesc(d, data)), nil
}

func (s *algStore) GetBlobRange(ctx context.Context, repo string, d ociregistry.Digest, o0, o1 int64) (ociregistry.BlobReader, error) {
	if !foreign(d) {
		return s.Registry.GetBlobRange(ctx, repo, d, o0, o1)
	}
	data, err := s.lookup(ctx, repo, d)
	if err != nil {
		return nil, err
	}
	if o1 < 0 || o1 > int64(len(data)) {
		o1 = int64(len(data))
	}
	if o0 < 0 || o0 > o1 {
		return nil, fmt.Errorf("invalid range [%d, %d]; have [%d, %d]", o0, o1, 0, len(data))
	}
	return ocimem.NewBytesReader(data[o0:o1], blobDesc(d, data)), nil
}

func (s *algStore) ResolveBlob(ctx context.Context, repo string, d ociregistry.Digest) (ociregistry.Descriptor, error) {
	if !foreign(d) {
		return s.Registry.ResolveBlob(ctx, repo, d)
	}
	data, err := s.lookup(ctx, repo, d)
	if err != nil {
		return ociregistry.Descriptor{}, err
	}
	return blobDesc(d, data), nil
}

func (s *algStore) DeleteBlob(ctx context.Context, repo string, d ociregistry.Digest) error {
	if !foreign(d) {
		return s.Registry.DeleteBlob(ctx, repo, d)
	}
	if _, err := s.lookup(ctx, repo, d); err != nil {
		return err
	}
	s.mu.Lock()
	delete(s.blobs[repo], d)
	s.mu.Unlock()
	return nil
}

func (s *algStore) MountBlob(ctx context.Context, from, to string, d ociregistry.Digest) (ociregistry.Descriptor, error) {
	if !foreign(d) {
		return s.Registry.MountBlob(ctx, from, to, d)
	}
	if err := s.makeRepo(ctx, to); err != nil {
		return ociregistry.Descriptor{}, err
	}
	data, err := s.lookup(ctx, from, d)
	if err != nil {
		return ociregistry.Descriptor{}, err
	}
	s.store(to, d, data)
	return blobDesc(d, data), nil
}

// checkContent is ocimem.CheckDescriptor with the digest's own algorithm.
func checkContent(desc ociregistry.Descriptor, data []byte) error {
	if err := desc.Digest.Validate(); err != nil {
		return fmt.Errorf("invalid digest: %v: %w", err, ociregistry.ErrDigestInvalid)
	}
	if desc.Digest.Algorithm().FromBytes(data) != desc.Digest {
		return fmt.Errorf("digest mismatch: %w", ociregistry.ErrDigestInvalid)
	}
	if desc.Size != int64(len(data)) {
		return fmt.Errorf("size mismatch: %w", ociregistry.ErrSizeInvalid)
	}
	if desc.MediaType == "" {
		return fmt.Errorf("no media type in descriptor")
	}
	return nil
}

func (s *algStore) PushBlob(ctx context.Context, repo string, desc ociregistry.Descriptor, content io.Reader) (ociregistry.Descriptor, error) {
	if !foreign(desc.Digest) {
		return s.Registry.PushBlob(ctx, repo, desc, content)
	}
	data, err := io.ReadAll(content)
	if err != nil {
		return ociregistry.Descriptor{}, fmt.Errorf("cannot read content: %v", err)
	}
	if err := checkContent(desc, data); err != nil {
		return ociregistry.Descriptor{}, fmt.Errorf("invalid descriptor: %w", err)
	}
	if err := s.makeRepo(ctx, repo); err != nil {
		return ociregistry.Descriptor{}, err
	}
	s.store(repo, desc.Digest, data)
	return desc, nil
}

func (s *algStore) PushBlobChunked(ctx context.Context, repo string, chunkSize int) (ociregistry.BlobWriter, error) {
	return s.PushBlobChunkedResume(ctx, repo, "", 0, chunkSize)
}

// PushBlobChunkedResume follows ocimem: an id nobody handed out starts an upload under that id.
func (s *algStore) PushBlobChunkedResume(ctx context.Context, repo, id string, offset int64, chunkSize int) (ociregistry.BlobWriter, error) {
	if err := s.makeRepo(ctx, repo); err != nil {
		return nil, err
	}
	s.mu.Lock()
	defer s.mu.Unlock()
	u := s.uploads[repo+"\x00"+id]
	if u == nil || id == "" {
		if id == "" {
			s.n++
			id = fmt.Sprintf("alg-upload-%d", s.n)
		}
		u = &algUpload{s: s, repo: repo, id: id}
		s.uploads[repo+"\x00"+id] = u
	}
	u.mu.Lock()
	u.checkOff = offset
	u.mu.Unlock()
	return u, nil
}

type algUpload struct {
	s         *algStore
	repo, id  string
	mu        sync.Mutex
	buf       []byte
	checkOff  int64
	commitErr error
}

func (u *algUpload) Write(p []byte) (int, error) {
	u.mu.Lock()
	defer u.mu.Unlock()
	if off := u.checkOff; off != -1 {
		if int64(len(u.buf)) != off {
			return 0, fmt.Errorf("invalid offset %d in resumed upload (actual offset %d): %w", off, len(u.buf), ociregistry.ErrRangeInvalid)
		}
		u.checkOff = -1
	}
	u.buf = append(u.buf, p...)
	return len(p), nil
}

func (u *algUpload) Close() error   { return nil }
func (u *algUpload) ChunkSize() int { return 8 * 1024 }
func (u *algUpload) ID() string     { return u.id }
func (u *algUpload) Size() int64 {
	u.mu.Lock()
	defer u.mu.Unlock()
	return int64(len(u.buf))
}

func (u *algUpload) Cancel() error {
	u.mu.Lock()
	defer u.mu.Unlock()
	u.commitErr = fmt.Errorf("upload canceled")
	return nil
}

func (u *algUpload) Commit(d ociregistry.Digest) (ociregistry.Descriptor, error) {
	u.mu.Lock()
	defer u.mu.Unlock()
	if u.commitErr != nil {
		return ociregistry.Descriptor{}, u.commitErr
	}
	fail := func(err error) (ociregistry.Descriptor, error) {
		u.commitErr = err
		return ociregistry.Descriptor{}, err
	}
	if err := d.Validate(); err != nil {
		return fail(fmt.Errorf("invalid digest: %w", ociregistry.ErrDigestInvalid))
	}
	if d.Algorithm().FromBytes(u.buf) != d {
		return fail(fmt.Errorf("digest mismatch (%d bytes are not %s): %w", len(u.buf), d, ociregistry.ErrDigestInvalid))
	}
	data := append([]byte(nil), u.buf...)
	desc := blobDesc(d, data)
	if d.Algorithm() == digest.SHA256 {
		if _, err := u.s.Registry.PushBlob(context.Background(), u.repo, desc, bytesReader(data)); err != nil {
			return fail(err)
		}
		return desc, nil
	}
	u.s.store(u.repo, d, data)
	return desc, nil
}

func (s *algStore) PushManifest(ctx context.Context, repo string, tag string, contents []byte, mediaType string) (ociregistry.Descriptor, error) {
	data := append([]byte(nil), contents...)
	desc, err := s.Registry.PushManifest(ctx, repo, tag, contents, mediaType)
	if err == nil {
		s.mu.Lock()
		for _, a := range []digest.Algorithm{digest.SHA384, digest.SHA512} {
			s.alias[repo+"\x00"+string(a.FromBytes(data))] = desc.Digest
		}
		s.mu.Unlock()
	}
	return desc, err
}

func (s *algStore) aliased(repo string, d ociregistry.Digest) (ociregistry.Digest, bool) {
	if !foreign(d) {
		return d, false
	}
	s.mu.Lock()
	defer s.mu.Unlock()
	a, ok := s.alias[repo+"\x00"+string(d)]
	if !ok {
		return d, false
	}
	return a, true
}

func (s *algStore) GetManifest(ctx context.Context, repo string, d ociregistry.Digest) (ociregistry.BlobReader, error) {
	a, ok := s.aliased(repo, d)
	r, err := s.Registry.GetManifest(ctx, repo, a)
	if err != nil || !ok {
		return r, err
	}
	defer r.Close()
	data, err := io.ReadAll(r)
	if err != nil {
		return nil, err
	}
	desc := r.Descriptor()
	desc.Digest = d
	return ocimem.NewBytesReader(data, desc), nil
}

func (s *algStore) ResolveManifest(ctx context.Context, repo string, d ociregistry.Digest) (ociregistry.Descriptor, error) {
	a, ok := s.aliased(repo, d)
	desc, err := s.Registry.ResolveManifest(ctx, repo, a)
	if err == nil && ok {
		desc.Digest = d
	}
	return desc, err
}

var _ ociregistry.Interface = (*algStore)(nil)
