package main

// CLong cases (coq/Obs/C03.v): one listing of more than ten thousand names - the only ones on
// which the server's built-in page cap (ociserver maxPageSize = 10000), the client's default
// page size (1000) and client page sizes above the cap show - made directly on a populated
// ocimem and through a stack over another one populated alike.  The iterator VALUE a call
// returns is iterated completely once or twice on both sides; per pass the case holds what was
// delivered directly and through the stack and what the recording backend received.  Neither
// the case file nor the replay file spells the names out: they come from a generated family
// (the vocabulary of harness/cmd/c05/long.go and coq/Obs/C05.v), and what an iterator delivered
// is written as runs of consecutive members of the family between literally written names.

import (
	"context"
	"fmt"
	"math/rand"
	"sort"
	"strconv"
	"strings"

	"cuelabs.dev/go/oci/ociregistry"
	"cuelabs.dev/go/oci/ociregistry/ocimem"
	"verif/harness/hx"
	"verif/harness/memsim"
)

// famDesc names a family: Pre followed by the decimal numeral of i padded to Width digits,
// i = Lo .. Lo+Count-1 (fam of coq/Obs/C03.v).
type famDesc struct {
	Pre   string `json:"pre"`
	Width int    `json:"width"`
	Lo    int    `json:"lo"`
	Count int    `json:"count"`
}

func (f famDesc) name(i int) string { return fmt.Sprintf("%s%0*d", f.Pre, f.Width, i) }

// index: is name a member of the family pattern (any index)?
func (f famDesc) index(name string) (int, bool) {
	if !strings.HasPrefix(name, f.Pre) || len(name) != len(f.Pre)+f.Width {
		return 0, false
	}
	i, err := strconv.Atoi(name[len(f.Pre):])
	if err != nil || i < 0 || f.name(i) != name {
		return 0, false
	}
	return i, true
}

type longInput struct {
	Q      string   `json:"q"`              // tags | repos
	Repo   string   `json:"repo,omitempty"` // tags: the repository listed
	Fam    famDesc  `json:"fam"`
	Extra  []string `json:"extra,omitempty"` // further tags of Repo / further repositories
	Start  string   `json:"start,omitempty"`
	Passes int      `json:"passes"` // complete passes over the iterator value (1 or 2)
}

// a segment of a delivered listing (seg of coq/Obs/C03.v)
type segJ struct {
	Lo    int    `json:"lo,omitempty"`
	Count int    `json:"count,omitempty"`
	Lit   string `json:"lit,omitempty"`
}

func toSegs(names []string, f famDesc) []segJ {
	var out []segJ
	for _, n := range names {
		if i, ok := f.index(n); ok {
			if k := len(out) - 1; k >= 0 && out[k].Count > 0 && out[k].Lo+out[k].Count == i {
				out[k].Count++
				continue
			}
			out = append(out, segJ{Lo: i, Count: 1})
			continue
		}
		out = append(out, segJ{Lit: n})
	}
	return out
}

func segsCoq(segs []segJ, f famDesc) string {
	ss := make([]string, len(segs))
	for i, g := range segs {
		if g.Count > 0 {
			ss[i] = fmt.Sprintf("SFam %s %d %d %d", hx.B(f.Pre), f.Width, g.Lo, g.Count)
		} else {
			ss[i] = "SLit " + hx.B(g.Lit)
		}
	}
	return hx.List(ss)
}

type longRes struct {
	Segs  []segJ  `json:"segs"`
	N     int     `json:"n"`
	Err   *string `json:"iter_err_code,omitempty"`
	Msg   string  `json:"msg,omitempty"`
	Panic string  `json:"panic,omitempty"`
}

func (r longRes) Coq(f famDesc) string {
	if r.Panic != "" {
		return "LPanic"
	}
	e := "None"
	if r.Err != nil {
		e = "(Some " + memsim.CoqCode(*r.Err) + ")"
	}
	return "LList " + segsCoq(r.Segs, f) + " " + e
}

type longPass struct {
	Direct longRes `json:"direct"`
	Via    longRes `json:"via"`
	Trace  []BCall `json:"backend_received"`
}

const emptyIndex = `{"schemaVersion":2,"mediaType":"application/vnd.oci.image.index.v1+json","manifests":[]}`

// longPopulate fills a fresh ocimem: tags: Repo holds one manifest under every tag of the family
// and of Extra (and another repository holds two tags of its own); repos: every name of the
// family and of Extra is a repository holding one manifest.
func longPopulate(in longInput) ociregistry.Interface {
	ctx := context.Background()
	r := ocimem.New()
	push := func(repo, tag string) {
		if _, err := r.PushManifest(ctx, repo, tag, []byte(emptyIndex), "application/vnd.oci.image.index.v1+json"); err != nil {
			panic(fmt.Errorf("long: populate %q:%q: %v", repo, tag, err))
		}
	}
	switch in.Q {
	case "tags":
		push("zz/other", "v1")
		push("zz/other", in.Fam.name(in.Fam.Lo+1))
		for i := 0; i < in.Fam.Count; i++ {
			push(in.Repo, in.Fam.name(in.Fam.Lo+i))
		}
		for _, t := range in.Extra {
			push(in.Repo, t)
		}
	case "repos":
		for i := 0; i < in.Fam.Count; i++ {
			push(in.Fam.name(in.Fam.Lo+i), "")
		}
		for _, n := range in.Extra {
			push(n, "")
		}
	default:
		panic("long: unknown query " + in.Q)
	}
	return r
}

func (in longInput) contents() []string {
	names := append([]string{}, in.Extra...)
	for i := 0; i < in.Fam.Count; i++ {
		names = append(names, in.Fam.name(in.Fam.Lo+i))
	}
	sort.Strings(names)
	return names
}

func (in longInput) op() memsim.Op {
	if in.Q == "tags" {
		return memsim.Op{Kind: "Tags", Repo: in.Repo, Start: in.Start}
	}
	return memsim.Op{Kind: "Repositories", Start: in.Start}
}

func longDrain(seq ociregistry.Seq[string], f famDesc) (res longRes) {
	var names []string
	if p, pv := hx.Recover(func() {
		seq(func(n string, err error) bool {
			if err != nil {
				c := memsim.ErrCode(err)
				res.Err = &c
				res.Msg = err.Error()
				if len(res.Msg) > 200 {
					res.Msg = res.Msg[:200]
				}
				return false
			}
			names = append(names, n)
			return true
		})
	}); p {
		return longRes{Panic: pv}
	}
	res.Segs = toSegs(names, f)
	res.N = len(names)
	return res
}

func runLong(stack Stack, in longInput, origin string) bigOut {
	a := longPopulate(in)
	st := build(stack, longPopulate(in))
	defer st.Close()
	ctx := context.Background()
	call := func(reg ociregistry.Interface) ociregistry.Seq[string] {
		if in.Q == "tags" {
			return reg.Tags(ctx, in.Repo, in.Start)
		}
		return reg.Repositories(ctx, in.Start)
	}
	var seqA, seqV ociregistry.Seq[string]
	hx.Recover(func() { seqA = call(a) })
	hx.Recover(func() { seqV = call(st.reg) })
	st.quiesce()
	first := st.rec.take() // calls made before any iteration belong to the first pass
	np := max(in.Passes, 1)
	var passes []longPass
	for i := 0; i < np; i++ {
		var p longPass
		if seqA == nil || seqV == nil {
			p = longPass{Direct: longRes{Panic: "the call panicked"}, Via: longRes{Panic: "the call panicked"}}
		} else {
			p.Direct = longDrain(seqA, in.Fam)
			p.Via = longDrain(seqV, in.Fam)
		}
		st.quiesce()
		p.Trace = append(first, st.rec.take()...)
		first = nil
		passes = append(passes, p)
	}
	op := in.op()
	pc := make([]string, len(passes))
	maxN, pages := 0, 0
	for i, p := range passes {
		tr := make([]string, len(p.Trace))
		for j, c := range p.Trace {
			tr[j] = c.Coq()
		}
		pc[i] = fmt.Sprintf("{| lp_direct := %s; lp_via := %s; lp_trace := %s |}", p.Direct.Coq(in.Fam), p.Via.Coq(in.Fam), hx.List(tr))
		maxN = max(maxN, p.Via.N)
		pages = max(pages, len(p.Trace))
	}
	coq := fmt.Sprintf("CLong {| lg_cfg := %s; lg_op := %s; lg_content := %s; lg_passes := %s |}",
		stack.Coq(), op.Coq(), segsCoq(toSegs(in.contents(), in.Fam), in.Fam), hx.List(pc))
	page := stack.Page
	if page == 0 {
		page = 1000
	}
	rel := func(a, b int) string {
		switch {
		case a < b:
			return "below"
		case a == b:
			return "equal to"
		}
		return "above"
	}
	link := "Link"
	if stack.Opts1.OmitLink {
		link = "no Link"
	}
	keys := []string{"long:query:" + in.Q, fmt.Sprintf("long:hops:%d", stack.Hops), "long:" + link,
		"long:client page size " + rel(page, 10000) + " the server's cap (10000)",
		"long:listing length " + rel(in.Fam.Count+len(in.Extra), 10000) + " 10000",
		fmt.Sprintf("long:passes:%d", np), fmt.Sprintf("long:backend page requests (most in a pass):%d", pages)}
	if page > 10000 && maxN > 10000 {
		keys = append(keys, "long:more than 10000 names delivered through a client page size above the cap")
	}
	if stack.Opts1.MaxPage > 0 {
		keys = append(keys, "long:MaxListPageSize "+rel(stack.Opts1.MaxPage, page)+" the client page size")
	}
	if in.Start != "" {
		keys = append(keys, "long:from a start point")
	}
	return bigOut{
		c: hx.Case{Coq: coq,
			Desc: map[string]any{"input": history{Stack: stack, Stream: "main", Long: &in}, "op": op, "passes": passes, "origin": origin},
			Tags: map[string]any{"class": "long-" + in.Q, "stack": stack.Name(), "origin": origin, "stream": "long"}},
		keys: keys,
	}
}

type longCase struct {
	st Stack
	in longInput
}

// genLong: the sweep.  Page sizes x listing lengths on both sides of the server's cap and of the
// client's default page size, Link on and off, tags and repositories, one and two hops, a
// server limit equal to / below / above the page size, start points that leave exactly a
// boundary number of names.  The quick tier takes a rotating half of the grid around the cap.
func genLong(r *rand.Rand, thorough bool) []longCase {
	var out []longCase
	n := r.Intn(2)
	fam := func(q string, count int) (famDesc, string, []string) {
		if q == "tags" {
			return famDesc{Pre: "t", Width: 6, Lo: 0, Count: count}, "demo/tags", []string{"latest"}
		}
		return famDesc{Pre: "r/n", Width: 5, Lo: 1, Count: count}, "", []string{"a/blobs/uploads"}
	}
	add := func(q string, count int, st Stack, startSkip int) {
		f, repo, extra := fam(q, count-1) // one further name: the listing holds count names
		in := longInput{Q: q, Repo: repo, Fam: f, Extra: extra, Passes: 1 + n%2}
		if startSkip > 0 {
			in.Start = f.name(f.Lo + startSkip - 1)
		}
		out = append(out, longCase{st, in})
		n++
	}
	qs := []string{"tags", "repos"}
	hop1 := func(page, mx int, link bool) Stack {
		return Stack{Hops: 1, Page: page, Opts1: SOpts{OmitLink: !link, MaxPage: mx}}
	}
	// one hop, page sizes x lengths around the cap
	for pi, p := range []int{9999, 10000, 10001, 20000} {
		for ci, c := range []int{9999, 10000, 10001, 12345} {
			for li, link := range []bool{true, false} {
				for qi, q := range qs {
					if !thorough && (pi+ci+li+qi+n)%4 != 0 {
						continue
					}
					add(q, c, hop1(p, 0, link), 0)
				}
			}
		}
	}
	// always: a page size above the cap over a listing above the cap, both queries, Link on / off
	add("tags", 10001, hop1(20000, 0, true), 0)
	add("repos", 10001, hop1(10001, 0, false), 0)
	add("tags", 20003, hop1(10001, 0, false), 0)
	add("repos", 20002, hop1(10000, 0, true), 0)
	// start points that leave exactly a boundary number of names after them
	for i, left := range []int{10000, 10001} {
		add(qs[(i+n)%2], left+50, hop1([]int{10001, 20000}[i], 0, i == 0), 50)
	}
	// the server's own limit around the page size (below: refused by design of the option)
	for i, pm := range [][2]int{{10001, 10001}, {20000, 10000}, {10001, 20000}, {0, 1000}, {0, 999}, {10000, 10000}} {
		if thorough || i%2 == n%2 {
			add(qs[i%2], 10001, hop1(pm[0], pm[1], i%4 < 2), 0)
		}
	}
	// the client's default page size
	for i, pc := range [][2]int{{0, 1000}, {0, 1001}, {0, 2001}, {1001, 2002}, {999, 1000}, {0, 10001}} {
		if thorough || i%2 == n%2 {
			add(qs[(i+1)%2], pc[1], hop1(pc[0], 0, i%3 != 0), 0)
		}
	}
	// two hops
	for i, pp := range [][2]int{{20000, 20000}, {10001, 1000}, {1000, 10001}, {20000, 10000}, {10000, 20000}, {0, 20000}, {20000, 0}} {
		if thorough || i%2 == n%2 || i == 0 {
			add(qs[i%2], []int{10001, 12345}[i%2], Stack{Hops: 2, Page: pp[0], Page2: pp[1],
				Opts1: SOpts{OmitLink: i%2 == 1}, Opts2: SOpts{OmitLink: i%4 >= 2}, DbgBackend: i%3 == 0, DbgClient: i%3 == 1}, 0)
		}
	}
	if thorough {
		pages := []int{0, 999, 1000, 1001, 5000, 9999, 10000, 10001, 12345, 20000}
		lens := []int{999, 1000, 1001, 2001, 9999, 10000, 10001, 12345, 20001}
		for i := 0; i < 60; i++ {
			st := Stack{Hops: 1 + r.Intn(2), Page: pages[r.Intn(len(pages))], Page2: pages[r.Intn(len(pages))],
				Opts1: SOpts{OmitLink: r.Intn(2) == 0}, Opts2: SOpts{OmitLink: r.Intn(2) == 0}, DbgBackend: r.Intn(4) == 0, DbgClient: r.Intn(4) == 0}
			c := lens[r.Intn(len(lens))]
			skip := 0
			if r.Intn(3) == 0 {
				skip = 1 + r.Intn(c/2)
			}
			add(qs[r.Intn(2)], c, st, skip)
		}
	}
	return out
}
