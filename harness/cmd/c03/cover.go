package main

// Which operations are compared with the composed model (coq/Obs/C03.v stack_model_covers; the
// two must say the same - Coq decides, this is the count for the evidence).

import "verif/harness/memsim"

// stackModelCovers reports whether the answer and the backend trace of the operation are
// compared with the composed model, and the reason when they are not.
func stackModelCovers(o memsim.Op) (bool, string) {
	// every operation is compared (a PushBlob whose size differs from the content length was left
	// out until ociclient.PushBlob was repaired to hold content of known length to that size itself)
	return true, ""
}
