package main

// Which operations are compared with the composed model (coq/Obs/C03.v stack_model_covers; the
// two must say the same - Coq decides, this is the count for the evidence).

import "verif/harness/memsim"

// stackModelCovers reports whether the answer and the backend trace of the operation are
// compared with the composed model, and the reason when they are not.
func stackModelCovers(o memsim.Op) (bool, string) {
	// push_size_mismatch of coq/Model/Transparent.v
	if o.Kind == "PushBlob" && o.Desc != nil && o.Desc.Size != int64(len(o.Content)) && o.Desc.Size > 0 && len(o.Content) > 0 {
		return false, "push-size race (net/http notices the wrong body length while sending)"
	}
	return true, ""
}
