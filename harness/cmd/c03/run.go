package main

import (
	"context"
	"encoding/json"
	"fmt"
	"os"
	"sort"
	"strconv"
	"strings"

	"cuelabs.dev/go/oci/ociregistry"
	"cuelabs.dev/go/oci/ociregistry/ocimem"
	"verif/harness/hx"
	"verif/harness/memsim"
)

// A history is run twice: directly on a fresh ocimem (instance A) and through the stack on
// another fresh ocimem (instance B).  Writer operations name an upload SESSION (the index
// the direct registry answers, where a resumed upload is the same writer again); on the
// stack side every PushBlobChunked / PushBlobChunkedResume yields a new client-side writer
// and the operation is applied to the latest writer of that session.
type history struct {
	Stack  Stack       `json:"stack"`
	Stream string      `json:"stream"` // main | illformed
	Ops    []memsim.Op `json:"ops"`
	// Backend: the registry behind the stack and the one called directly: "" = ocimem,
	// "algstore" = algstore.go (blobs under sha256 / sha384 / sha512 digests).
	Backend string `json:"backend,omitempty"`
	// Passes: for a Repositories / Tags / Referrers operation (by index in Ops), how the iterator
	// VALUE the call returns is iterated, on both sides: one number per pass, 0 = a complete
	// pass, k > 0 = the caller's yield function returns false at its k-th call.  The last pass
	// is complete.  No entry = one complete pass.
	Passes map[int][]int `json:"passes,omitempty"`
	// Big: not a history but one push of a large content (big.go).
	Big *bigCase `json:"big,omitempty"`
	// Long: not a history but one long listing, names by family (long.go).
	Long *longInput `json:"long,omitempty"`
	// ErrSz: not a history but one failing call probed at error-body sizes around the
	// client's limit (errsize.go).
	ErrSz *errInput `json:"errsz,omitempty"`
}

// prePass is a pass the caller stopped, recorded with the complete pass that follows it.
type prePass struct {
	K      int           `json:"k"`
	Direct memsim.Result `json:"direct"`
	Via    memsim.Result `json:"via"`
	Stat   int           `json:"via_status,omitempty"`
	Trace  []BCall       `json:"trace"`
}

func (p prePass) Coq() string {
	return fmt.Sprintf("{| pp_k := %d; pp_direct := %s; pp_via := %s; pp_vstat := %s; pp_trace := %s |}",
		p.K, p.Direct.Coq(), p.Via.Coq(), hx.Z(int64(p.Stat)), bcallsCoq(p.Trace))
}

// stepRec is one entry of the case's history: an operation, or a further complete pass over the
// iterator of the listing operation before it (Again).
type stepRec struct {
	Op     memsim.Op     `json:"op"`
	Direct memsim.Result `json:"direct"`
	Via    memsim.Result `json:"via"`
	Stat   int           `json:"via_status,omitempty"` // status of the HTTPError in the stack's error (0: none)
	Trace  []BCall       `json:"trace"`
	Again  bool          `json:"again,omitempty"`
	Pre    []prePass     `json:"stopped_passes,omitempty"`
}

type snapRec struct {
	Op memsim.Op     `json:"op"`
	A  memsim.Result `json:"a"`
	B  memsim.Result `json:"b"`
}

type runResult struct {
	steps []stepRec
	snap  []snapRec
	orc   *orcC03
	stack bool // the composed model (coq/Obs/C03Run.v) is evaluated on this case
}

// memsim drains every BlobReader with io.ReadAll, whose first Read has a 512-byte buffer (later
// ones are larger); the model's caller (coq/Model/Client.v drain) reads with one buffer size
// throughout: c_bufsz.  The size of the caller's buffer decides only in which Read an error is
// reported, and the harness reports a failed read as an error without the bytes read so far, so
// no answer depends on it.  The model's drain is quadratic in the number of Reads (131073 bytes
// in 512-byte Reads: 1.4 s of vm_compute per read instead of 0.2 s), so in the quick tier a
// history that holds a content above 4 KiB is evaluated with a buffer that takes any content in
// one Read; the thorough tier uses 512 everywhere.
const readBufSmall = 512
const readBufLarge = 1 << 18

var thoroughTier bool

func (r runResult) bufSize() int {
	if !thoroughTier && len(r.orc.BigContents()) > 0 {
		return readBufLarge
	}
	return readBufSmall
}

// moreCoq is the table of sha384 / sha512 values the composed model may need: for every content
// of the history whose digest under one of these algorithms is mentioned in the history.
func (o *orcC03) moreCoq() string {
	var out []string
	var cs []string
	for c := range o.Hash {
		cs = append(cs, c)
	}
	sort.Strings(cs)
	for _, c := range cs {
		for _, d := range []string{sha384Digest([]byte(c)), sha512Digest([]byte(c))} {
			if _, ok := o.Digests[d]; ok {
				alg, hex, _ := strings.Cut(d, ":")
				out = append(out, fmt.Sprintf("(%s, %s, %s)", hx.B(alg), hx.B(c), hx.B(hex)))
			}
		}
	}
	return hx.List(out)
}

// orcC03 is memsim's oracle table plus the list of large contents seen.
type orcC03 struct {
	*memsim.Oracles
}

func (o *orcC03) BigContents() []string {
	var out []string
	for c := range o.Hash {
		if len(c) > 4096 {
			out = append(out, c)
		}
	}
	sort.Strings(out)
	return out
}

func sessionOf(canon string, fallback int) int {
	if strings.HasPrefix(canon, "#") {
		if n, err := strconv.Atoi(canon[1:]); err == nil {
			return n
		}
	}
	return fallback
}

func isWriterOp(k string) bool {
	switch k {
	case "WWrite", "WClose", "WSize", "WChunkSize", "WID", "WCommit", "WCancel":
		return true
	}
	return false
}

func newBackend(kind string) ociregistry.Interface {
	switch kind {
	case "":
		return ocimem.New()
	case "algstore":
		return newAlgStore()
	}
	panic("unknown backend " + kind)
}

func isIterOp(k string) bool { return k == "Repositories" || k == "Tags" || k == "Referrers" }

// iterValue is the iterator a listing call returned, to be iterated any number of times.
type iterValue func(stopAt int) memsim.Result

// callIter makes the listing call and returns its iterator; stopAt > 0: the yield function
// returns false at its stopAt-th call (and goes on recording whatever it is handed after that).
func callIter(reg ociregistry.Interface, o memsim.Op) iterValue {
	ctx := context.Background()
	strs := func(seq ociregistry.Seq[string]) iterValue {
		return func(stopAt int) memsim.Result {
			res := memsim.Result{Kind: "list", List: []string{}}
			n := 0
			seq(func(s string, err error) bool {
				n++
				if err != nil {
					if res.IterErrCode == nil {
						c := memsim.ErrCode(err)
						res.IterErrCode = &c
						res.Msg = err.Error()
					}
					return false
				}
				res.List = append(res.List, s)
				return stopAt == 0 || n < stopAt
			})
			return res
		}
	}
	switch o.Kind {
	case "Repositories":
		return strs(reg.Repositories(ctx, o.Start))
	case "Tags":
		return strs(reg.Tags(ctx, o.Repo, o.Start))
	case "Referrers":
		seq := reg.Referrers(ctx, o.Repo, ociregistry.Digest(o.Digest), o.Art)
		return func(stopAt int) memsim.Result {
			res := memsim.Result{Kind: "descs", Descs: []memsim.Desc{}}
			n := 0
			seq(func(d ociregistry.Descriptor, err error) bool {
				n++
				if err != nil {
					if res.IterErrCode == nil {
						c := memsim.ErrCode(err)
						res.IterErrCode = &c
						res.Msg = err.Error()
					}
					return false
				}
				res.Descs = append(res.Descs, memsim.Desc{Media: d.MediaType, Digest: string(d.Digest), Size: d.Size})
				return stopAt == 0 || n < stopAt
			})
			return res
		}
	}
	panic("not a listing operation: " + o.Kind)
}

func guarded(f func() memsim.Result) (res memsim.Result) {
	if panicked, pv := hx.Recover(func() { res = f() }); panicked {
		return memsim.Result{Kind: "panic", Msg: pv}
	}
	return res
}

// passPlan: the passes of operation i, the last one complete.
func (h history) passPlan(i int) []int {
	p := h.Passes[i]
	if len(p) == 0 || p[len(p)-1] != 0 {
		p = append(append([]int{}, p...), 0)
	}
	return p
}

func execHistory(h history) runResult {
	a := newBackend(h.Backend)
	exA := memsim.NewExec(a, true)
	st := build(h.Stack, newBackend(h.Backend))
	defer st.Close()
	exB := memsim.NewExec(st.reg, false)
	or := memsim.NewOracles()
	cur := map[int]int{} // session -> latest via-side writer
	nsess := 0
	written := map[int][]byte{}
	var res runResult
	res.orc = &orcC03{or}
	res.stack = true
	for i, o := range h.Ops {
		or.Observe(o)
		if o.Kind == "WCommit" {
			or.Content(written[o.W])
		}
		if isIterOp(o.Kind) {
			// the call, then the passes over the iterator value it returned, on both sides
			var itA, itB iterValue
			if r := guarded(func() memsim.Result { itA = callIter(a, o); return memsim.Result{} }); r.Kind == "panic" {
				itA = func(int) memsim.Result { return r }
			}
			if r := guarded(func() memsim.Result { itB = callIter(st.reg, o); return memsim.Result{} }); r.Kind == "panic" {
				itB = func(int) memsim.Result { return r }
			}
			var pending []prePass
			again := false
			for _, k := range h.passPlan(i) {
				rA := guarded(func() memsim.Result { return itA(k) })
				rB := guarded(func() memsim.Result { return itB(k) })
				stat := st.spy.takeStatus()
				st.quiesce()
				var tr []BCall
				if o.Kind != "Referrers" || k == 0 {
					// client.Referrers sends its request when it is called: whatever the backend was
					// asked belongs to the operation, not to one of the passes
					tr = st.rec.take()
				}
				for _, c := range tr {
					if c.Kind == "op" {
						or.Observe(*c.Op)
					}
				}
				if k > 0 {
					pending = append(pending, prePass{K: k, Direct: rA, Via: rB, Stat: stat, Trace: tr})
					continue
				}
				res.steps = append(res.steps, stepRec{Op: o, Direct: rA, Via: rB, Stat: stat, Trace: tr, Again: again, Pre: pending})
				pending, again = nil, true
			}
			continue
		}
		rA := exA.Run(o)
		ob := o
		var rB memsim.Result
		if isWriterOp(o.Kind) {
			if k, ok := cur[o.W]; ok {
				ob.W = k
				rB = exB.Run(ob)
			} else {
				rB = memsim.Result{Kind: "err", Msg: "harness: no such writer"}
			}
		} else {
			rB = exB.Run(ob)
		}
		if rB.Kind == "writer" {
			sess := sessionOf(exB.WriterCanonID(rB.W), nsess)
			if sess >= nsess {
				nsess = sess + 1
			}
			cur[sess] = rB.W
			rB.W = sess
		}
		stat := st.spy.takeStatus()
		st.quiesce()
		tr := st.rec.take()
		if o.Kind == "WWrite" && rA.Kind == "n" {
			written[o.W] = append(append([]byte{}, written[o.W]...), o.Content[:rA.N]...)
		}
		for _, r := range []memsim.Result{rA, rB} {
			if r.Kind == "read" {
				or.Content(r.Data)
			}
		}
		for _, c := range tr {
			if c.Kind == "op" {
				or.Observe(*c.Op)
			}
		}
		res.steps = append(res.steps, stepRec{Op: o, Direct: rA, Via: rB, Stat: stat, Trace: tr})
	}
	// the state both registries end in
	for _, so := range snapshotOps(res.steps) {
		or.Observe(so)
		ra := memsim.NewExec(a, true).Run(so)
		rb := memsim.NewExec(st.mem, true).Run(so)
		for _, r := range []memsim.Result{ra, rb} {
			if r.Kind == "read" {
				or.Content(r.Data)
			}
		}
		res.snap = append(res.snap, snapRec{Op: so, A: ra, B: rb})
	}
	return res
}

// snapshotOps lists what is read off both registries after the history: the catalogue, the
// tags of every repository mentioned, every tag mentioned or listed, every blob and manifest
// digest mentioned (per repository it was mentioned with, and every repository for mounts).
func snapshotOps(steps []stepRec) []memsim.Op {
	repos := map[string]bool{}
	type rd struct{ r, d string }
	digs := map[rd]bool{}
	tags := map[rd]bool{}
	note := func(r, d string) {
		if d != "" {
			digs[rd{r, d}] = true
		}
	}
	for i := range steps {
		o := steps[i].Op
		for _, r := range []string{o.Repo, o.From} {
			if r != "" {
				repos[r] = true
			}
		}
		note(o.Repo, o.Digest)
		if o.From != "" {
			note(o.From, o.Digest)
		}
		if o.Desc != nil {
			note(o.Repo, o.Desc.Digest)
		}
		if o.Tag != "" {
			tags[rd{o.Repo, o.Tag}] = true
		}
		for _, r := range []memsim.Result{steps[i].Direct, steps[i].Via} {
			if r.Desc != nil && o.Repo != "" {
				note(o.Repo, r.Desc.Digest)
			}
		}
	}
	var out []memsim.Op
	out = append(out, memsim.Op{Kind: "Repositories"})
	var rs []string
	for r := range repos {
		rs = append(rs, r)
	}
	sort.Strings(rs)
	for _, r := range rs {
		out = append(out, memsim.Op{Kind: "Tags", Repo: r})
	}
	var ts []rd
	for t := range tags {
		ts = append(ts, t)
	}
	sort.Slice(ts, func(i, j int) bool { return ts[i].r+"\x00"+ts[i].d < ts[j].r+"\x00"+ts[j].d })
	for _, t := range ts {
		out = append(out, memsim.Op{Kind: "ResolveTag", Repo: t.r, Tag: t.d})
	}
	var ds []rd
	for d := range digs {
		ds = append(ds, d)
	}
	sort.Slice(ds, func(i, j int) bool { return ds[i].r+"\x00"+ds[i].d < ds[j].r+"\x00"+ds[j].d })
	for _, d := range ds {
		out = append(out, memsim.Op{Kind: "GetBlob", Repo: d.r, Digest: d.d})
		out = append(out, memsim.Op{Kind: "GetManifest", Repo: d.r, Digest: d.d})
	}
	return out
}

func bcallsCoq(cs []BCall) string {
	out := make([]string, len(cs))
	for i, c := range cs {
		out[i] = c.Coq()
	}
	return hx.List(out)
}

func (r runResult) coq(h history, strict bool) string {
	var ops, dir, via, trs, snaps, stats, pres []string
	for _, s := range r.steps {
		var pp []string
		for _, p := range s.Pre {
			pp = append(pp, p.Coq())
		}
		pres = append(pres, hx.List(pp))
		stats = append(stats, hx.Z(int64(s.Stat)))
		ops = append(ops, s.Op.Coq())
		dir = append(dir, s.Direct.Coq())
		via = append(via, s.Via.Coq())
		trs = append(trs, bcallsCoq(s.Trace))
	}
	for _, s := range r.snap {
		snaps = append(snaps, fmt.Sprintf("(%s, %s, %s)", s.Op.Coq(), s.A.Coq(), s.B.Coq()))
	}
	form := "CHist"
	if h.Backend != "" {
		form = "CFree"
	}
	return fmt.Sprintf("%s {| c_cfg := %s; c_main := %s; c_strict := %s; c_orc := %s; c_ops := %s; c_direct := %s; c_via := %s; c_trace := %s; c_snap := %s; c_more := %s; c_bufsz := %d; c_vstat := %s; c_stack := %s; c_pre := %s |}",
		form, h.Stack.Coq(), hx.Bool(h.Stream == "main"), hx.Bool(strict), r.orc.Coq(), hx.List(ops), hx.List(dir), hx.List(via), hx.List(trs), hx.List(snaps),
		r.orc.moreCoq(), r.bufSize(), hx.List(stats), hx.Bool(r.stack && h.Backend == ""), hx.List(pres))
}

// ---- exploration aid (C03_DEBUG=1): differences seen on the Go side, never the verdict ----

func resKey(r memsim.Result) string {
	r.Msg = ""
	b, _ := json.Marshal(r)
	return string(b)
}

func debugDiffs(h history, r runResult) {
	for i, s := range r.steps {
		if resKey(s.Direct) != resKey(s.Via) {
			tr, _ := json.Marshal(s.Trace)
			op := s.Op
			if len(op.Content) > 64 {
				op.Content = op.Content[:64]
			}
			oj, _ := json.Marshal(op)
			d, v := s.Direct, s.Via
			if len(d.Data) > 32 {
				d.Data = d.Data[:32]
			}
			if len(v.Data) > 32 {
				v.Data = v.Data[:32]
			}
			dj, _ := json.Marshal(d)
			vj, _ := json.Marshal(v)
			if len(tr) > 300 {
				tr = tr[:300]
			}
			fmt.Fprintf(os.Stderr, "DIFF %s step %d op=%s\n   direct=%s\n   via=%s\n   trace=%s\n", h.Stack.Name(), i, oj, dj, vj, tr)
		}
	}
	for _, s := range r.snap {
		if resKey(s.A) != resKey(s.B) {
			oj, _ := json.Marshal(s.Op)
			aj, _ := json.Marshal(s.A)
			bj, _ := json.Marshal(s.B)
			if len(aj) > 300 {
				aj = aj[:300]
			}
			if len(bj) > 300 {
				bj = bj[:300]
			}
			fmt.Fprintf(os.Stderr, "SNAPDIFF op=%s\n   A=%s\n   B=%s\n", oj, aj, bj)
		}
	}
}

var _ ociregistry.Interface = (*ocimem.Registry)(nil)
