package main

// CBig cases (coq/Obs/C03.v): one push of a content of a size no case file could carry - around
// the client's in-memory threshold for manifests (128 KiB), 1 MiB, 4 MiB (the size a registry
// must accept for a manifest), 16 MiB: the sizes at which a buffer, a chunk size or a body limit
// on the way could cut something off - made directly on a fresh ocimem and through a stack over
// another one, on every push path (PushBlob, chunked upload, PushManifest by tag and by digest),
// followed by reads of the content on both sides, and by direct reads of both registries.
// A content is identified by (length, SHA-256); what the recording backend was handed likewise.

import (
	"bytes"
	"context"
	"crypto/sha256"
	"encoding/hex"
	"fmt"
	"io"
	"math/rand"
	"sync"

	"cuelabs.dev/go/oci/ociregistry"
	"cuelabs.dev/go/oci/ociregistry/ocimem"
	"verif/harness/hx"
	"verif/harness/memsim"
)

const (
	bpPushBlob = iota
	bpChunked
	bpManifestTag
	bpManifestDigest
	nBigPaths
)

var bigPathNames = []string{"PushBlob", "chunked", "PushManifest-by-tag", "PushManifest-by-digest"}

// media types of large manifests: two ocimem stores without looking inside, and an OCI index
// (a JSON document ocimem decodes: an empty index followed by white space)
var bigMedia = []string{
	"application/vnd.verif.opaque",
	"application/vnd.docker.distribution.manifest.list.v2+json",
	"application/vnd.oci.image.index.v1+json",
}

type bigCase struct {
	Stack Stack  `json:"stack"`
	Path  int    `json:"path"`
	Len   int64  `json:"len"`
	Seed  int64  `json:"seed"`
	Repo  string `json:"repo"`
	Tag   string `json:"tag,omitempty"`
	Media string `json:"media,omitempty"`
}

// bigRes is the answer of one call (bigres of coq/Obs/C03.v).
type bigRes struct {
	OK   bool         `json:"ok"`
	Code string       `json:"code,omitempty"`
	Desc *memsim.Desc `json:"desc,omitempty"`
	Sha  string       `json:"sha256,omitempty"`
	Len  int64        `json:"len"`
	Err  string       `json:"err,omitempty"`
}

func (r bigRes) Coq() string {
	d := memsim.Desc{}
	if r.Desc != nil {
		d = *r.Desc
	}
	return fmt.Sprintf("{| bg_ok := %s; bg_code := %s; bg_desc := {| d_media := %s; d_digest := %s; d_size := %s; d_artifact := [] |}; bg_sha := %s; bg_len := %s |}",
		hx.Bool(r.OK), memsim.CoqCode(r.Code), hx.B(d.Media), hx.B(d.Digest), hx.Z(d.Size), hx.B(r.Sha), hx.Z(r.Len))
}

type bigCall struct {
	What   string `json:"what"`
	Head   bool   `json:"head,omitempty"`
	Direct bigRes `json:"direct"`
	Via    bigRes `json:"via"`
}

func (c bigCall) Coq() string {
	return fmt.Sprintf("{| bc_head := %s; bc_direct := %s; bc_via := %s |}", hx.Bool(c.Head), c.Direct.Coq(), c.Via.Coq())
}

// bigPush: a content handed over for storing (bigpush of coq/Obs/C03.v).
type bigPush struct {
	Kind   int    `json:"kind"` // 0 PushManifest, 1 upload session committed
	Repo   string `json:"repo"`
	Tag    string `json:"tag,omitempty"`
	Media  string `json:"media,omitempty"`
	Digest string `json:"digest,omitempty"`
	Len    int64  `json:"len"`
	Sha    string `json:"sha256"`
}

func (p bigPush) Coq() string {
	return fmt.Sprintf("{| bp_kind := %d; bp_repo := %s; bp_tag := %s; bp_media := %s; bp_digest := %s; bp_len := %s; bp_sha := %s |}",
		p.Kind, hx.B(p.Repo), hx.B(p.Tag), hx.B(p.Media), hx.B(p.Digest), hx.Z(p.Len), hx.B(p.Sha))
}

// bigContent: n bytes that never repeat with a short period (a truncation, a shifted offset or
// a dropped chunk changes the hash) and do not parse as JSON; for the OCI index media type an
// empty index followed by white space.
func bigContent(n int64, seed int64, media string) []byte {
	b := make([]byte, n)
	if media == "application/vnd.oci.image.index.v1+json" {
		doc := fmt.Sprintf(`{"schemaVersion":2,"mediaType":"application/vnd.oci.image.index.v1+json","manifests":[],"annotations":{"seed":"%d"}}`, seed)
		for i := range b {
			b[i] = ' '
		}
		copy(b, doc)
		if n > 0 {
			b[n-1] = '\n'
		}
		return b
	}
	x := uint64(seed)*2654435761 + 88172645463325252
	for i := range b {
		if i%8 == 0 {
			x ^= x << 13
			x ^= x >> 7
			x ^= x << 17
		}
		b[i] = byte(x >> (8 * uint(i%8)))
	}
	return b
}

func shaHex(b []byte) string {
	h := sha256.Sum256(b)
	return "sha256:" + hex.EncodeToString(h[:])
}

func bigErr(err error) bigRes {
	return bigRes{Code: memsim.ErrCode(err), Err: err.Error()}
}

func bigGuard(f func() bigRes) (r bigRes) {
	if p, pv := hx.Recover(func() { r = f() }); p {
		return bigRes{Code: "PANIC", Err: "panic: " + pv}
	}
	return r
}

func bigDesc(d ociregistry.Descriptor) *memsim.Desc {
	return &memsim.Desc{Media: d.MediaType, Digest: string(d.Digest), Size: d.Size}
}

func bigRead(get func() (ociregistry.BlobReader, error)) bigRes {
	return bigGuard(func() bigRes {
		r, err := get()
		if err != nil {
			return bigErr(err)
		}
		defer r.Close()
		h := sha256.New()
		n, err := io.Copy(h, r)
		if err != nil {
			res := bigErr(err)
			res.Len = n
			return res
		}
		return bigRes{OK: true, Desc: bigDesc(r.Descriptor()), Sha: "sha256:" + hex.EncodeToString(h.Sum(nil)), Len: n}
	})
}

func bigResolve(get func() (ociregistry.Descriptor, error)) bigRes {
	return bigGuard(func() bigRes {
		d, err := get()
		if err != nil {
			return bigErr(err)
		}
		return bigRes{OK: true, Desc: bigDesc(d)}
	})
}

// bigPushOn makes the push of the case on one registry.
func bigPushOn(reg ociregistry.Interface, bc bigCase, content []byte, dg string) bigRes {
	ctx := context.Background()
	return bigResolve(func() (ociregistry.Descriptor, error) {
		switch bc.Path {
		case bpPushBlob:
			return reg.PushBlob(ctx, bc.Repo, ociregistry.Descriptor{MediaType: "application/octet-stream", Digest: ociregistry.Digest(dg), Size: int64(len(content))}, bytes.NewReader(content))
		case bpChunked:
			w, err := reg.PushBlobChunked(ctx, bc.Repo, 0)
			if err != nil {
				return ociregistry.Descriptor{}, err
			}
			// writes of uneven sizes around the chunk sizes in use
			r := rand.New(rand.NewSource(bc.Seed))
			rest := content
			for len(rest) > 0 {
				k := []int{1, 4096, 8191, 8192, 65535, 65536, 65537, 1 << 20, 3<<20 + 1}[r.Intn(9)]
				if k > len(rest) {
					k = len(rest)
				}
				buf := append([]byte(nil), rest[:k]...)
				if _, err := w.Write(buf); err != nil {
					w.Close()
					return ociregistry.Descriptor{}, err
				}
				clear(buf) // the caller owns its buffer again
				rest = rest[k:]
			}
			return w.Commit(ociregistry.Digest(dg))
		default:
			buf := append([]byte(nil), content...)
			d, err := reg.PushManifest(ctx, bc.Repo, bc.Tag, buf, bc.Media)
			clear(buf)
			return d, err
		}
	})
}

// summarise turns what the recording backend received into the contents it was handed.
func summarise(tr []BCall) []bigPush {
	var out []bigPush
	repo := ""
	written := map[string][]byte{}
	for _, c := range tr {
		switch c.Kind {
		case "op":
			switch c.Op.Kind {
			case "PushManifest":
				out = append(out, bigPush{Kind: 0, Repo: c.Op.Repo, Tag: c.Op.Tag, Media: c.Op.Media, Len: int64(len(c.Op.Content)), Sha: shaHex(c.Op.Content)})
			case "PushBlobChunked", "PushBlobChunkedResume":
				repo = c.Op.Repo
			case "PushBlob":
				out = append(out, bigPush{Kind: 2, Repo: c.Op.Repo, Digest: c.Op.Desc.Digest, Len: int64(len(c.Op.Content)), Sha: shaHex(c.Op.Content)})
			}
		case "write":
			written[c.ID] = append(written[c.ID], c.Data...)
		case "commit":
			out = append(out, bigPush{Kind: 1, Repo: repo, Digest: c.Dig, Len: int64(len(written[c.ID])), Sha: shaHex(written[c.ID])})
		}
	}
	return out
}

type bigOut struct {
	c    hx.Case
	keys []string
}

func runBig(bc bigCase, origin string) bigOut {
	a := ocimem.New()
	st := build(bc.Stack, ocimem.New())
	defer st.Close()
	ctx := context.Background()
	content := bigContent(bc.Len, bc.Seed, bc.Media)
	dg := shaHex(content)
	n := int64(len(content))
	isBlob := bc.Path == bpPushBlob || bc.Path == bpChunked
	want := bigPush{Kind: 1, Repo: bc.Repo, Digest: dg, Len: n, Sha: dg}
	if !isBlob {
		want = bigPush{Kind: 0, Repo: bc.Repo, Tag: bc.Tag, Media: bc.Media, Len: n, Sha: dg}
	}
	push := bigCall{What: bigPathNames[bc.Path], Direct: bigPushOn(a, bc, content, dg), Via: bigPushOn(st.reg, bc, content, dg)}
	st.quiesce()
	got := summarise(st.rec.take())
	D := ociregistry.Digest(dg)
	var reads []bigCall
	rd := func(what string, get func(reg ociregistry.Interface) (ociregistry.BlobReader, error)) {
		reads = append(reads, bigCall{What: what,
			Direct: bigRead(func() (ociregistry.BlobReader, error) { return get(a) }),
			Via:    bigRead(func() (ociregistry.BlobReader, error) { return get(st.reg) })})
	}
	rs := func(what string, get func(reg ociregistry.Interface) (ociregistry.Descriptor, error)) {
		reads = append(reads, bigCall{What: what, Head: true,
			Direct: bigResolve(func() (ociregistry.Descriptor, error) { return get(a) }),
			Via:    bigResolve(func() (ociregistry.Descriptor, error) { return get(st.reg) })})
	}
	var snapGets []func(reg ociregistry.Interface) bigRes
	if isBlob {
		rd("GetBlob", func(reg ociregistry.Interface) (ociregistry.BlobReader, error) { return reg.GetBlob(ctx, bc.Repo, D) })
		rs("ResolveBlob", func(reg ociregistry.Interface) (ociregistry.Descriptor, error) { return reg.ResolveBlob(ctx, bc.Repo, D) })
		for _, pr := range [][2]int64{{0, 1}, {n - 1, n}, {1, -1}, {n / 2, n/2 + 70000}} {
			o0, o1 := pr[0], pr[1]
			if o0 < 0 || o0 >= n || (o1 >= 0 && o1 <= o0) {
				continue
			}
			rd(fmt.Sprintf("GetBlobRange(%d,%d)", o0, o1), func(reg ociregistry.Interface) (ociregistry.BlobReader, error) {
				return reg.GetBlobRange(ctx, bc.Repo, D, o0, o1)
			})
		}
		snapGets = append(snapGets, func(reg ociregistry.Interface) bigRes {
			return bigRead(func() (ociregistry.BlobReader, error) { return reg.GetBlob(ctx, bc.Repo, D) })
		})
	} else {
		if bc.Tag != "" {
			rd("GetTag", func(reg ociregistry.Interface) (ociregistry.BlobReader, error) { return reg.GetTag(ctx, bc.Repo, bc.Tag) })
			rs("ResolveTag", func(reg ociregistry.Interface) (ociregistry.Descriptor, error) { return reg.ResolveTag(ctx, bc.Repo, bc.Tag) })
			snapGets = append(snapGets, func(reg ociregistry.Interface) bigRes {
				return bigRead(func() (ociregistry.BlobReader, error) { return reg.GetTag(ctx, bc.Repo, bc.Tag) })
			}, func(reg ociregistry.Interface) bigRes {
				return bigResolve(func() (ociregistry.Descriptor, error) { return reg.ResolveTag(ctx, bc.Repo, bc.Tag) })
			})
		}
		rd("GetManifest", func(reg ociregistry.Interface) (ociregistry.BlobReader, error) { return reg.GetManifest(ctx, bc.Repo, D) })
		rs("ResolveManifest", func(reg ociregistry.Interface) (ociregistry.Descriptor, error) { return reg.ResolveManifest(ctx, bc.Repo, D) })
		snapGets = append(snapGets, func(reg ociregistry.Interface) bigRes {
			return bigRead(func() (ociregistry.BlobReader, error) { return reg.GetManifest(ctx, bc.Repo, D) })
		})
	}
	st.quiesce()
	st.rec.take()
	type snapPair struct {
		A bigRes `json:"a"`
		B bigRes `json:"b"`
	}
	var snap []snapPair
	for _, g := range snapGets {
		snap = append(snap, snapPair{g(a), g(st.mem)})
	}
	var rc, sc, gc []string
	for _, r := range reads {
		rc = append(rc, r.Coq())
	}
	for _, s := range snap {
		sc = append(sc, fmt.Sprintf("(%s, %s)", s.A.Coq(), s.B.Coq()))
	}
	for _, g := range got {
		gc = append(gc, g.Coq())
	}
	coq := fmt.Sprintf("CBig %s %s %s %s %s %s", bc.Stack.Coq(), want.Coq(), push.Coq(), hx.List(gc), hx.List(rc), hx.List(sc))
	class := "big-" + bigPathNames[bc.Path]
	return bigOut{
		c: hx.Case{Coq: coq,
			Desc: map[string]any{"input": history{Stack: bc.Stack, Stream: "main", Big: &bc}, "content_sha256": dg, "want": want, "push": push, "backend_received": got, "reads": reads, "snapshot": snap, "origin": origin},
			Tags: map[string]any{"class": class, "stack": bc.Stack.Name(), "origin": origin, "stream": "big"}},
		keys: []string{"big:path:" + bigPathNames[bc.Path], "big:len:" + bigLenClass(n), "big:stack:" + bc.Stack.Name(), fmt.Sprintf("big:hops:%d", bc.Stack.Hops),
			"big:media:" + bc.Media},
	}
}

func bigLenClass(n int64) string {
	switch {
	case n <= 131073:
		return "<=128KiB+1"
	case n < 1<<20-1:
		return "<1MiB-1"
	case n <= 1<<20+1:
		return "1MiB-1..1MiB+1"
	case n < 4<<20-1:
		return "<4MiB-1"
	case n <= 4<<20+1:
		return "4MiB-1..4MiB+1"
	case n <= 16<<20+1:
		return "<=16MiB+1"
	default:
		return ">16MiB+1"
	}
}

// genBig lists the big cases of a run: every path at one size of every class on drawn stacks
// (one hop with default options, one hop with drawn options, two hops), the exact boundaries on
// a rotating subset; the thorough tier takes every (path, size) on three stacks and adds 32 MiB.
func genBig(rnd *rand.Rand, thorough bool) []bigCase {
	above := []int64{131073, 1<<20 + 1, 4<<20 + 1, 16<<20 + 1}
	edges := []int64{131071, 131072, 1<<20 - 1, 1 << 20, 4<<20 - 1, 4 << 20}
	if thorough {
		edges = append(edges, 16<<20-1, 16<<20)
	}
	var out []bigCase
	seed := int64(0)
	stacks := func(i int) Stack {
		switch i % 3 {
		case 0:
			return defaultStack()
		case 1:
			st := genStack(rnd)
			st.Hops = 1
			return st
		default:
			st := genStack(rnd)
			st.Hops = 2
			return st
		}
	}
	mk := func(p int, n int64, st Stack) {
		seed++
		bc := bigCase{Stack: st, Path: p, Len: n, Seed: seed, Repo: []string{"big/repo", "a/blobs/uploads", "x/manifests"}[rnd.Intn(3)]}
		if p == bpManifestTag || p == bpManifestDigest {
			bc.Media = bigMedia[rnd.Intn(len(bigMedia))]
			if p == bpManifestTag {
				bc.Tag = []string{"t", "latest", "uploads"}[rnd.Intn(3)]
			}
		}
		out = append(out, bc)
	}
	k := rnd.Intn(3)
	k0 := k
	for p := 0; p < nBigPaths; p++ {
		for _, n := range above {
			k++
			mk(p, n, stacks(k))
			if thorough {
				mk(p, n, stacks(k+1))
				mk(p, n, stacks(k+2))
			}
		}
		for i, n := range edges {
			if thorough || (i+p)%3 == k0 {
				k++
				mk(p, n, stacks(k))
			}
		}
	}
	nr := 4
	if thorough {
		nr = 24
		for p := 0; p < nBigPaths; p++ {
			mk(p, 32<<20+1, stacks(p))
		}
	}
	for i := 0; i < nr; i++ {
		k++
		mk(rnd.Intn(nBigPaths), int64(100000)+rnd.Int63n(6<<20), stacks(k))
	}
	return out
}

// runBigs runs the cases on a few goroutines (each has its own registries and servers) and
// returns the results in the order of the cases.
func runBigs(cases []bigCase, origin string) []bigOut {
	out := make([]bigOut, len(cases))
	sem := make(chan struct{}, 4)
	var wg sync.WaitGroup
	for i := range cases {
		wg.Add(1)
		sem <- struct{}{}
		go func(i int) {
			defer wg.Done()
			defer func() { <-sem }()
			out[i] = runBig(cases[i], origin)
		}(i)
	}
	wg.Wait()
	return out
}

func addBig(out *hx.Out, b bigOut) {
	if out.Add(b.c) {
		for _, k := range b.keys {
			out.Count(k)
		}
	}
}
