package main

// The status spy: an ociregistry.Interface on top of the caller's client (on top of ocidebug when
// the stack has one there) that forwards every call untouched and remembers the last error the
// caller was given - by a method, by a Read of a BlobReader, by an iterator, by a BlobWriter
// method - so that the harness can record the status of the HTTPError errors.As finds in it
// (0 when there is none).  memsim's executor keeps only the OCI code of an error.

import (
	"context"
	"errors"
	"io"
	"sync"

	"cuelabs.dev/go/oci/ociregistry"
)

type spy struct {
	*ociregistry.Funcs // only for the unexported marker method; every method is overridden
	inner              ociregistry.Interface
	mu                 sync.Mutex
	last               error
}

func newSpy(inner ociregistry.Interface) *spy { return &spy{inner: inner} }

func (s *spy) note(err error) error {
	if err != nil && err != io.EOF {
		s.mu.Lock()
		s.last = err
		s.mu.Unlock()
	}
	return err
}

// takeStatus returns the status of the HTTPError in the last error noted since the previous
// call (0: no error, or an error without an HTTPError in its tree).
func (s *spy) takeStatus() int {
	s.mu.Lock()
	err := s.last
	s.last = nil
	s.mu.Unlock()
	if err == nil {
		return 0
	}
	var he ociregistry.HTTPError
	if errors.As(err, &he) {
		return he.StatusCode()
	}
	return 0
}

type spyReader struct {
	ociregistry.BlobReader
	s *spy
}

func (r spyReader) Read(p []byte) (int, error) {
	n, err := r.BlobReader.Read(p)
	return n, r.s.note(err)
}

func (s *spy) reader(r ociregistry.BlobReader, err error) (ociregistry.BlobReader, error) {
	if err != nil {
		return nil, s.note(err)
	}
	return spyReader{r, s}, nil
}

func (s *spy) GetBlob(ctx context.Context, repo string, digest ociregistry.Digest) (ociregistry.BlobReader, error) {
	return s.reader(s.inner.GetBlob(ctx, repo, digest))
}
func (s *spy) GetBlobRange(ctx context.Context, repo string, digest ociregistry.Digest, o0, o1 int64) (ociregistry.BlobReader, error) {
	return s.reader(s.inner.GetBlobRange(ctx, repo, digest, o0, o1))
}
func (s *spy) GetManifest(ctx context.Context, repo string, digest ociregistry.Digest) (ociregistry.BlobReader, error) {
	return s.reader(s.inner.GetManifest(ctx, repo, digest))
}
func (s *spy) GetTag(ctx context.Context, repo string, tag string) (ociregistry.BlobReader, error) {
	return s.reader(s.inner.GetTag(ctx, repo, tag))
}
func (s *spy) ResolveBlob(ctx context.Context, repo string, digest ociregistry.Digest) (ociregistry.Descriptor, error) {
	d, err := s.inner.ResolveBlob(ctx, repo, digest)
	return d, s.note(err)
}
func (s *spy) ResolveManifest(ctx context.Context, repo string, digest ociregistry.Digest) (ociregistry.Descriptor, error) {
	d, err := s.inner.ResolveManifest(ctx, repo, digest)
	return d, s.note(err)
}
func (s *spy) ResolveTag(ctx context.Context, repo string, tag string) (ociregistry.Descriptor, error) {
	d, err := s.inner.ResolveTag(ctx, repo, tag)
	return d, s.note(err)
}
func (s *spy) PushBlob(ctx context.Context, repo string, desc ociregistry.Descriptor, content io.Reader) (ociregistry.Descriptor, error) {
	d, err := s.inner.PushBlob(ctx, repo, desc, content)
	return d, s.note(err)
}
func (s *spy) PushManifest(ctx context.Context, repo string, tag string, contents []byte, mediaType string) (ociregistry.Descriptor, error) {
	d, err := s.inner.PushManifest(ctx, repo, tag, contents, mediaType)
	return d, s.note(err)
}
func (s *spy) MountBlob(ctx context.Context, fromRepo, toRepo string, digest ociregistry.Digest) (ociregistry.Descriptor, error) {
	d, err := s.inner.MountBlob(ctx, fromRepo, toRepo, digest)
	return d, s.note(err)
}
func (s *spy) DeleteBlob(ctx context.Context, repo string, digest ociregistry.Digest) error {
	return s.note(s.inner.DeleteBlob(ctx, repo, digest))
}
func (s *spy) DeleteManifest(ctx context.Context, repo string, digest ociregistry.Digest) error {
	return s.note(s.inner.DeleteManifest(ctx, repo, digest))
}
func (s *spy) DeleteTag(ctx context.Context, repo string, name string) error {
	return s.note(s.inner.DeleteTag(ctx, repo, name))
}

func spySeq[T any](s *spy, seq ociregistry.Seq[T]) ociregistry.Seq[T] {
	return func(yield func(T, error) bool) {
		seq(func(v T, err error) bool {
			s.note(err)
			return yield(v, err)
		})
	}
}

func (s *spy) Repositories(ctx context.Context, startAfter string) ociregistry.Seq[string] {
	return spySeq(s, s.inner.Repositories(ctx, startAfter))
}
func (s *spy) Tags(ctx context.Context, repo string, startAfter string) ociregistry.Seq[string] {
	return spySeq(s, s.inner.Tags(ctx, repo, startAfter))
}
func (s *spy) Referrers(ctx context.Context, repo string, digest ociregistry.Digest, artifactType string) ociregistry.Seq[ociregistry.Descriptor] {
	return spySeq(s, s.inner.Referrers(ctx, repo, digest, artifactType))
}

type spyWriter struct {
	ociregistry.BlobWriter
	s *spy
}

func (w spyWriter) Write(p []byte) (int, error) {
	n, err := w.BlobWriter.Write(p)
	return n, w.s.note(err)
}
func (w spyWriter) Close() error  { return w.s.note(w.BlobWriter.Close()) }
func (w spyWriter) Cancel() error { return w.s.note(w.BlobWriter.Cancel()) }
func (w spyWriter) Commit(d ociregistry.Digest) (ociregistry.Descriptor, error) {
	desc, err := w.BlobWriter.Commit(d)
	return desc, w.s.note(err)
}

func (s *spy) PushBlobChunked(ctx context.Context, repo string, chunkSize int) (ociregistry.BlobWriter, error) {
	w, err := s.inner.PushBlobChunked(ctx, repo, chunkSize)
	if err != nil {
		return nil, s.note(err)
	}
	return spyWriter{w, s}, nil
}
func (s *spy) PushBlobChunkedResume(ctx context.Context, repo, id string, offset int64, chunkSize int) (ociregistry.BlobWriter, error) {
	w, err := s.inner.PushBlobChunkedResume(ctx, repo, id, offset, chunkSize)
	if err != nil {
		return nil, s.note(err)
	}
	return spyWriter{w, s}, nil
}

var _ ociregistry.Interface = (*spy)(nil)
