package main

// The recording backend: an ociregistry.Interface that forwards every call untouched to the
// registry behind it (results, readers, writers and error values are passed through as they
// are) and records which Interface / BlobWriter operation it received with which arguments.
// Upload IDs are recorded in canonical form (#0, #1, ... by order of creation at the backend).

import (
	"context"
	"fmt"
	"io"
	"sync"

	"cuelabs.dev/go/oci/ociregistry"
	"verif/harness/hx"
	"verif/harness/memsim"
)

// BCall is one call the backend received (bcall of coq/Model/Transparent.v).
type BCall struct {
	Kind string     `json:"kind"` // op | write | close | commit | cancel
	Op   *memsim.Op `json:"op,omitempty"`
	ID   string     `json:"id,omitempty"` // canonical upload id (writer calls)
	Data []byte     `json:"data,omitempty"`
	Dig  string     `json:"digest,omitempty"`
}

func (c BCall) Coq() string {
	switch c.Kind {
	case "op":
		return "BOp (" + c.Op.Coq() + ")"
	case "write":
		return "BWrite " + hx.B(c.ID) + " " + hx.BB(c.Data)
	case "close":
		return "BClose " + hx.B(c.ID)
	case "commit":
		return "BCommit " + hx.B(c.ID) + " " + hx.B(c.Dig)
	case "cancel":
		return "BCancel " + hx.B(c.ID)
	}
	panic("bad bcall kind " + c.Kind)
}

type recorder struct {
	*ociregistry.Funcs // only for the unexported marker method; every method is overridden
	inner              ociregistry.Interface
	mu                 sync.Mutex
	calls              []BCall
	canon              map[string]string // real upload id -> canonical
	real               map[string]string
	fresh              int
}

func newRecorder(inner ociregistry.Interface) *recorder {
	return &recorder{inner: inner, canon: map[string]string{}, real: map[string]string{}}
}

func (r *recorder) add(c BCall) {
	r.mu.Lock()
	r.calls = append(r.calls, c)
	r.mu.Unlock()
}

func (r *recorder) op(o memsim.Op) { r.add(BCall{Kind: "op", Op: &o}) }

// take returns the calls recorded since the last take.
func (r *recorder) take() []BCall {
	r.mu.Lock()
	defer r.mu.Unlock()
	c := r.calls
	r.calls = nil
	return c
}

func (r *recorder) canonID(real string, fresh bool) string {
	r.mu.Lock()
	defer r.mu.Unlock()
	if c, ok := r.canon[real]; ok {
		return c
	}
	if !fresh {
		return real
	}
	c := fmt.Sprintf("#%d", r.fresh)
	r.fresh++
	r.canon[real] = c
	r.real[c] = real
	return c
}

func (r *recorder) GetBlob(ctx context.Context, repo string, digest ociregistry.Digest) (ociregistry.BlobReader, error) {
	r.op(memsim.Op{Kind: "GetBlob", Repo: repo, Digest: string(digest)})
	return r.inner.GetBlob(ctx, repo, digest)
}
func (r *recorder) GetBlobRange(ctx context.Context, repo string, digest ociregistry.Digest, o0, o1 int64) (ociregistry.BlobReader, error) {
	r.op(memsim.Op{Kind: "GetBlobRange", Repo: repo, Digest: string(digest), O0: o0, O1: o1})
	return r.inner.GetBlobRange(ctx, repo, digest, o0, o1)
}
func (r *recorder) GetManifest(ctx context.Context, repo string, digest ociregistry.Digest) (ociregistry.BlobReader, error) {
	r.op(memsim.Op{Kind: "GetManifest", Repo: repo, Digest: string(digest)})
	return r.inner.GetManifest(ctx, repo, digest)
}
func (r *recorder) GetTag(ctx context.Context, repo string, tag string) (ociregistry.BlobReader, error) {
	r.op(memsim.Op{Kind: "GetTag", Repo: repo, Tag: tag})
	return r.inner.GetTag(ctx, repo, tag)
}
func (r *recorder) ResolveBlob(ctx context.Context, repo string, digest ociregistry.Digest) (ociregistry.Descriptor, error) {
	r.op(memsim.Op{Kind: "ResolveBlob", Repo: repo, Digest: string(digest)})
	return r.inner.ResolveBlob(ctx, repo, digest)
}
func (r *recorder) ResolveManifest(ctx context.Context, repo string, digest ociregistry.Digest) (ociregistry.Descriptor, error) {
	r.op(memsim.Op{Kind: "ResolveManifest", Repo: repo, Digest: string(digest)})
	return r.inner.ResolveManifest(ctx, repo, digest)
}
func (r *recorder) ResolveTag(ctx context.Context, repo string, tag string) (ociregistry.Descriptor, error) {
	r.op(memsim.Op{Kind: "ResolveTag", Repo: repo, Tag: tag})
	return r.inner.ResolveTag(ctx, repo, tag)
}
func (r *recorder) PushBlob(ctx context.Context, repo string, desc ociregistry.Descriptor, content io.Reader) (ociregistry.Descriptor, error) {
	data, rerr := io.ReadAll(content)
	r.op(memsim.Op{Kind: "PushBlob", Repo: repo, Desc: &memsim.Desc{Media: desc.MediaType, Digest: string(desc.Digest), Size: desc.Size}, Content: data})
	if rerr != nil {
		return ociregistry.Descriptor{}, rerr
	}
	return r.inner.PushBlob(ctx, repo, desc, bytesReader(data))
}
func (r *recorder) PushManifest(ctx context.Context, repo string, tag string, contents []byte, mediaType string) (ociregistry.Descriptor, error) {
	r.op(memsim.Op{Kind: "PushManifest", Repo: repo, Tag: tag, Content: append([]byte{}, contents...), Media: mediaType})
	return r.inner.PushManifest(ctx, repo, tag, contents, mediaType)
}
func (r *recorder) MountBlob(ctx context.Context, fromRepo, toRepo string, digest ociregistry.Digest) (ociregistry.Descriptor, error) {
	r.op(memsim.Op{Kind: "MountBlob", From: fromRepo, Repo: toRepo, Digest: string(digest)})
	return r.inner.MountBlob(ctx, fromRepo, toRepo, digest)
}
func (r *recorder) DeleteBlob(ctx context.Context, repo string, digest ociregistry.Digest) error {
	r.op(memsim.Op{Kind: "DeleteBlob", Repo: repo, Digest: string(digest)})
	return r.inner.DeleteBlob(ctx, repo, digest)
}
func (r *recorder) DeleteManifest(ctx context.Context, repo string, digest ociregistry.Digest) error {
	r.op(memsim.Op{Kind: "DeleteManifest", Repo: repo, Digest: string(digest)})
	return r.inner.DeleteManifest(ctx, repo, digest)
}
func (r *recorder) DeleteTag(ctx context.Context, repo string, name string) error {
	r.op(memsim.Op{Kind: "DeleteTag", Repo: repo, Tag: name})
	return r.inner.DeleteTag(ctx, repo, name)
}
func (r *recorder) Repositories(ctx context.Context, startAfter string) ociregistry.Seq[string] {
	r.op(memsim.Op{Kind: "Repositories", Start: startAfter})
	return r.inner.Repositories(ctx, startAfter)
}
func (r *recorder) Tags(ctx context.Context, repo string, startAfter string) ociregistry.Seq[string] {
	r.op(memsim.Op{Kind: "Tags", Repo: repo, Start: startAfter})
	return r.inner.Tags(ctx, repo, startAfter)
}
func (r *recorder) Referrers(ctx context.Context, repo string, digest ociregistry.Digest, artifactType string) ociregistry.Seq[ociregistry.Descriptor] {
	r.op(memsim.Op{Kind: "Referrers", Repo: repo, Digest: string(digest), Art: artifactType})
	return r.inner.Referrers(ctx, repo, digest, artifactType)
}

func (r *recorder) PushBlobChunked(ctx context.Context, repo string, chunkSize int) (ociregistry.BlobWriter, error) {
	r.op(memsim.Op{Kind: "PushBlobChunked", Repo: repo, Hint: int64(chunkSize)})
	w, err := r.inner.PushBlobChunked(ctx, repo, chunkSize)
	if err != nil {
		return nil, err
	}
	return &recWriter{r: r, w: w, id: r.canonID(w.ID(), true)}, nil
}

func (r *recorder) PushBlobChunkedResume(ctx context.Context, repo, id string, offset int64, chunkSize int) (ociregistry.BlobWriter, error) {
	r.op(memsim.Op{Kind: "PushBlobChunkedResume", Repo: repo, ID: r.canonID(id, false), Off: offset, Hint: int64(chunkSize)})
	w, err := r.inner.PushBlobChunkedResume(ctx, repo, id, offset, chunkSize)
	if err != nil {
		return nil, err
	}
	return &recWriter{r: r, w: w, id: r.canonID(w.ID(), true)}, nil
}

// recWriter forwards to the backend's writer; Size / ChunkSize / ID are accessors and are
// not recorded.
type recWriter struct {
	r  *recorder
	w  ociregistry.BlobWriter
	id string
}

func (w *recWriter) Write(p []byte) (int, error) {
	w.r.add(BCall{Kind: "write", ID: w.id, Data: append([]byte{}, p...)})
	return w.w.Write(p)
}
func (w *recWriter) Close() error {
	w.r.add(BCall{Kind: "close", ID: w.id})
	return w.w.Close()
}
func (w *recWriter) Size() int64    { return w.w.Size() }
func (w *recWriter) ChunkSize() int { return w.w.ChunkSize() }
func (w *recWriter) ID() string     { return w.w.ID() }
func (w *recWriter) Commit(d ociregistry.Digest) (ociregistry.Descriptor, error) {
	w.r.add(BCall{Kind: "commit", ID: w.id, Dig: string(d)})
	return w.w.Commit(d)
}
func (w *recWriter) Cancel() error {
	w.r.add(BCall{Kind: "cancel", ID: w.id})
	return w.w.Cancel()
}

var _ ociregistry.Interface = (*recorder)(nil)
