package main

// Go-side recognition of the recorded deviations, used only to label and count cases (the
// verdict is Coq's): which of the known shapes a step shows, and - for labelling a violation -
// the kind of the first operation whose answers differ otherwise.

import (
	"encoding/json"
	"os"
	"path/filepath"
	"sort"
	"strings"

	"verif/harness/memsim"
)

const octet = "application/octet-stream"

func rangeUnsendable(o0, o1 int64) bool { return o0 < 0 || (o1 >= 0 && o1 <= o0) }

func sameDescBut(a, b *memsim.Desc, media, size bool) bool {
	if a == nil || b == nil {
		return false
	}
	return a.Digest == b.Digest && (media || a.Media == b.Media) && (size || a.Size == b.Size)
}

func stepFinding(op memsim.Op, d, v memsim.Result, trace []BCall, haveTrace bool) string {
	switch op.Kind {
	case "MountBlob":
		if d.Kind == "desc" && v.Kind == "desc" && v.Desc.Size == 0 && v.Desc.Media == octet &&
			sameDescBut(d.Desc, v.Desc, true, true) && (d.Desc.Size != 0 || d.Desc.Media != octet) {
			return "mount-size"
		}
	case "GetBlob", "GetBlobRange", "ResolveBlob":
		if op.Kind == "GetBlobRange" && rangeUnsendable(op.O0, op.O1) && v.Kind == "err" && v.Code == "UNKNOWN" {
			return "range"
		}
		if d.Kind == v.Kind && (d.Kind == "read" || d.Kind == "desc") && string(d.Data) == string(v.Data) &&
			sameDescBut(d.Desc, v.Desc, true, false) && d.Desc.Media != octet && v.Desc.Media == octet {
			return "blob-media"
		}
	case "PushBlob":
		if d.Kind == "err" && v.Kind == "err" && op.Desc.Size != int64(len(op.Content)) && op.Desc.Size > 0 && len(op.Content) > 0 &&
			v.Code == "SIZE_INVALID" && d.Code != v.Code && d.Code != "" {
			return "push-size"
		}
	case "Referrers":
		if haveTrace && op.Art != "" && len(trace) == 1 && trace[0].Kind == "op" && trace[0].Op.Kind == "Referrers" && trace[0].Op.Art == "" {
			return "referrers-art"
		}
	case "GetTag":
		if d.Kind == "read" && v.Kind == "read" && string(d.Data) == string(v.Data) && len(d.Data) > threshold &&
			d.Desc.Digest == v.Desc.Digest && (d.Desc.Media != v.Desc.Media || d.Desc.Size != v.Desc.Size) {
			return "tag-head-desc"
		}
	case "WCommit":
		if d.Kind == "err" && v.Kind == "err" && d.Code == "DIGEST_INVALID" && v.Code == "RANGE_INVALID" {
			return "commit-retry"
		}
	case "WSize":
		if d.Kind == "n" && v.Kind == "n" && d.N == 1 && v.N == 0 {
			return "resume-one-byte"
		}
	case "WCancel":
		if haveTrace && len(trace) == 0 {
			return "cancel"
		}
	}
	return ""
}

// findings lists the distinct recorded deviations a run shows.
func (r runResult) findings() []string {
	set := map[string]bool{}
	for _, s := range r.steps {
		if f := stepFinding(s.Op, s.Direct, s.Via, s.Trace, true); f != "" {
			set[f] = true
		}
	}
	for _, s := range r.snap {
		if f := stepFinding(s.Op, s.A, s.B, nil, false); f != "" {
			set[f] = true
		}
	}
	var out []string
	for f := range set {
		out = append(out, f)
	}
	sort.Strings(out)
	return out
}

// firstOtherDiff names the first operation whose answers differ in something that is not a
// recorded deviation (a label for grouping violations, nothing more).
func (r runResult) firstOtherDiff() string {
	for _, s := range r.steps {
		if stepFinding(s.Op, s.Direct, s.Via, s.Trace, true) != "" {
			continue
		}
		if s.Direct.Kind != s.Via.Kind {
			return s.Op.Kind + ":outcome"
		}
		if usesSlack(s) {
			continue
		}
		if s.Direct.Kind == "err" {
			if s.Direct.Code != "" && s.Direct.Code != s.Via.Code && !isHead(s.Op.Kind) {
				return s.Op.Kind + ":code"
			}
			continue
		}
		if resKey(s.Direct) != resKey(s.Via) {
			return s.Op.Kind + ":result"
		}
	}
	for _, s := range r.snap {
		if stepFinding(s.Op, s.A, s.B, nil, false) == "" && s.A.Kind != s.B.Kind {
			return "snapshot:" + s.Op.Kind
		}
	}
	return "trace-or-none"
}

// registeredFindings reads which C03 findings the read-only known_findings.json lists: only
// for those does a corpus case of a finding run in strict mode (so that the driver prints
// KNOWN-FINDING for it); a finding not (yet) listed is still checked in every case through
// known_case, it is just not re-announced.
func registeredFindings() map[string]bool {
	out := map[string]bool{}
	root := os.Getenv("VERIF_ROOT")
	if root == "" {
		return out
	}
	b, err := os.ReadFile(filepath.Join(root, "known_findings.json"))
	if err != nil {
		return out
	}
	var kf struct {
		Known []struct {
			Property string            `json:"property"`
			Match    map[string]string `json:"match"`
		} `json:"known"`
	}
	if json.Unmarshal(b, &kf) != nil {
		return out
	}
	for _, k := range kf.Known {
		if k.Property == "C03" && k.Match["finding"] != "" {
			out[k.Match["finding"]] = true
		}
	}
	return out
}

func joinFindings(fs []string) string { return strings.Join(fs, "+") }

func isHead(kind string) bool {
	return kind == "ResolveBlob" || kind == "ResolveManifest" || kind == "ResolveTag"
}

func unknownCode(c string) bool {
	return c == "NAME_UNKNOWN" || c == "BLOB_UNKNOWN" || c == "MANIFEST_UNKNOWN"
}

// usesSlack: the two answers differ only as "unknown repository" differs from the empty /
// X_UNKNOWN answer (identification (b) of the comparison; whether the repository really holds
// no content is Coq's business, this is the count for the evidence).
func usesSlack(s stepRec) bool {
	d, v := s.Direct, s.Via
	switch {
	case d.Kind == "err" && v.Kind == "err":
		return !isHead(s.Op.Kind) && d.Code != v.Code && unknownCode(d.Code) && unknownCode(v.Code)
	case d.Kind == "list" && v.Kind == "list" && s.Op.Kind == "Repositories":
		return strings.Join(d.List, "\x00") != strings.Join(v.List, "\x00") && (v.IterErrCode == nil)
	case d.Kind == v.Kind && (d.Kind == "list" || d.Kind == "descs"):
		dn, vn := d.IterErrCode != nil && *d.IterErrCode == "NAME_UNKNOWN", v.IterErrCode != nil && *v.IterErrCode == "NAME_UNKNOWN"
		return len(d.List)+len(d.Descs)+len(v.List)+len(v.Descs) == 0 && dn != vn && (d.IterErrCode == nil || dn) && (v.IterErrCode == nil || vn)
	}
	return false
}
