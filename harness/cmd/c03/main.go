// Harness for C03 (client + server transparency): differential execution of generated
// histories of Interface calls directly on ocimem and through ociclient -> ociserver
// (options, one or two hops, ocidebug) over another ocimem, with a recording backend in
// front of the second one.  See coq/Obs/C03.v for what is judged.
package main

import (
	"encoding/json"
	"fmt"
	"math/rand"
	"os"
	"strings"

	"verif/harness/hx"
)

var registered map[string]bool

func runHistory(out *hx.Out, h history, origin string) {
	if h.Big != nil {
		bc := *h.Big
		bc.Stack = h.Stack
		addBig(out, runBig(bc, origin))
		return
	}
	if h.Long != nil {
		addBig(out, runLong(h.Stack, *h.Long, origin))
		return
	}
	if h.ErrSz != nil {
		addBig(out, runErrSz(h.Stack, *h.ErrSz, origin))
		return
	}
	res := execHistory(h)
	if os.Getenv("C03_DEBUG") != "" {
		debugDiffs(h, res)
	}
	fs := res.findings()
	tags := map[string]any{"class": res.firstOtherDiff(), "stream": h.Stream, "stack": h.Stack.Name(), "origin": origin}
	desc := map[string]any{"input": h, "steps": trimSteps(res.steps), "snapshot": trimSnap(res.snap), "origin": origin}
	if out.Add(hx.Case{Coq: bigs.compress(out, res.coq(h, false), res.orc), Desc: desc, Tags: tags}) {
		out.Count("stream:" + h.Stream)
		out.Count("stack:" + h.Stack.Name())
		out.Count("origin:" + origin)
		out.Count(fmt.Sprintf("hops:%d", h.Stack.Hops))
		if !h.Stack.Opts1.isDefault() || (h.Stack.Hops == 2 && !h.Stack.Opts2.isDefault()) {
			out.Count("options:non-default")
		} else {
			out.Count("options:default")
		}
		if len(fs) == 0 {
			out.Count("findings:none (strictly transparent on the Go side)")
		}
		for _, f := range fs {
			out.Count("finding:" + f)
		}
		if res.stack {
			out.Count("stack-model:histories evaluated")
		} else {
			out.Count("stack-model:histories not evaluated")
		}
		for _, s := range res.steps {
			if res.stack {
				if ok, why := stackModelCovers(s.Op); ok {
					out.Count("stack-model:operations compared (answer, status, backend trace)")
					if !namesOK(s.Op) {
						out.Count("stack-model:operations compared that mention an ill-formed name")
					}
				} else {
					out.Count("stack-model:operations excluded: " + why)
				}
			}
			if s.Stat != 0 {
				out.Count(fmt.Sprintf("via-status:%d", s.Stat))
			}
			if usesSlack(s) {
				out.Count("identification-b-used (unknown repository vs empty answer):" + s.Op.Kind)
			}
			out.Count("op:" + s.Op.Kind)
			out.Count("direct:" + s.Direct.Kind)
			out.Count("via:" + s.Via.Kind)
			if !namesOK(s.Op) {
				out.Count("op:ill-formed-name")
			}
		}
		countFeatures(out, h, res)
		if h.Backend != "" {
			out.Count("backend:" + h.Backend)
		}
		for _, s := range res.steps {
			if s.Again {
				out.Count("iterator:complete pass made again over the same value:" + s.Op.Kind)
			}
			for _, p := range s.Pre {
				out.Count(fmt.Sprintf("iterator:pass stopped at yield %d:%s", p.K, s.Op.Kind))
			}
			if h.Backend != "" && s.Via.Kind == "read" && !strings.HasPrefix(s.Op.Digest, "sha256:") && (s.Op.Kind == "GetBlob" || s.Op.Kind == "GetBlobRange") {
				out.Count("algstore:read through the stack of a blob under " + strings.SplitN(s.Op.Digest, ":", 2)[0])
			}
			if h.Backend != "" && s.Via.Kind == "read" && !strings.HasPrefix(s.Op.Digest, "sha256:") && s.Op.Kind == "GetManifest" {
				out.Count("algstore:read through the stack of a manifest under " + strings.SplitN(s.Op.Digest, ":", 2)[0])
			}
			if h.Backend != "" && s.Via.Kind == "desc" && (s.Op.Kind == "PushBlob" && !strings.HasPrefix(s.Op.Desc.Digest, "sha256:") || s.Op.Kind == "WCommit" && !strings.HasPrefix(s.Op.Digest, "sha256:")) {
				out.Count("algstore:push through the stack under another algorithm:" + s.Op.Kind)
			}
		}
	}
	// the corpus case of a recorded finding also runs in strict mode, where every failure of
	// obs_ok is reported: the driver then matches it with known_findings.json
	if origin == "corpus" && len(fs) == 1 && registered[fs[0]] {
		stags := map[string]any{"class": "known:" + fs[0], "finding": fs[0], "stream": h.Stream, "stack": h.Stack.Name(), "origin": origin}
		sdesc := map[string]any{"input": h, "steps": trimSteps(res.steps), "snapshot": trimSnap(res.snap), "origin": origin, "strict": true}
		if out.Add(hx.Case{Coq: bigs.compress(out, res.coq(h, true), res.orc), Desc: sdesc, Tags: stags}) {
			out.Count("strict-twin:" + fs[0])
		}
	}
}

var routingWords = map[string]bool{"blobs": true, "manifests": true, "uploads": true, "tags": true, "referrers": true, "list": true, "v2": true, "_catalog": true}

func hasRoutingWord(name string) bool {
	for _, seg := range strings.Split(name, "/") {
		if routingWords[seg] {
			return true
		}
	}
	return false
}

// countFeatures reports what the history exercises (the distribution in the evidence).
func countFeatures(out *hx.Out, h history, res runResult) {
	seen := map[string]bool{}
	mounted := map[string]bool{}
	for _, s := range res.steps {
		o := s.Op
		for _, n := range []string{o.Repo, o.From} {
			if n != "" && hasRoutingWord(n) {
				seen["name:routing-word-repository"] = true
			}
		}
		if o.Tag != "" && routingWords[o.Tag] {
			seen["name:routing-word-tag"] = true
		}
		for _, d := range []string{o.Digest} {
			switch {
			case strings.HasPrefix(d, "sha384:"):
				seen["digest:sha384"] = true
			case strings.HasPrefix(d, "sha512:"):
				seen["digest:sha512"] = true
			}
		}
		if o.Kind == "PushManifest" {
			switch {
			case len(o.Content) > threshold:
				seen["manifest:above-threshold"] = true
			case len(o.Content) >= threshold-1:
				seen["manifest:at-threshold"] = true
			}
			seen["manifest-media:"+o.Media] = true
		}
		if o.Kind == "GetTag" && s.Via.Kind == "read" && len(s.Via.Data) > threshold {
			n := 0
			for _, c := range s.Trace {
				if c.Kind == "op" && c.Op.Kind == "ResolveTag" {
					n++
				}
			}
			seen[fmt.Sprintf("gettag-above-threshold:%d-extra-resolves", n)] = true
		}
		if o.Kind == "PushBlob" && o.Desc.Media != octet {
			seen["blob-media:non-default"] = true
		}
		if o.Kind == "MountBlob" && s.Direct.Kind == "desc" {
			mounted[o.Digest] = true
		}
		if o.Kind == "DeleteBlob" && s.Direct.Kind == "unit" && mounted[o.Digest] {
			seen["delete-after-mount"] = true
		}
		if o.Kind == "PushBlobChunkedResume" && s.Via.Kind == "writer" {
			seen["upload:resumed"] = true
		}
		if (o.Kind == "Tags" || o.Kind == "Repositories") && s.Via.Kind == "list" {
			if len(s.Trace) > 1 {
				seen["listing:several-pages"] = true
			}
			if s.Via.IterErrCode != nil && *s.Via.IterErrCode == "UNSUPPORTED" {
				seen["listing:refused-by-MaxListPageSize"] = true
			}
		}
		if o.Kind == "GetBlobRange" {
			seen["range"] = true
		}
	}
	for k := range seen {
		out.Count("history-with:" + k)
	}
}

// trimSteps shortens large contents in the readable side-car (the input and the Coq case
// have them in full).
func trimSteps(steps []stepRec) []stepRec {
	cut := func(b []byte) []byte {
		if len(b) > 256 {
			return append(append([]byte{}, b[:64]...), []byte(fmt.Sprintf("...(%d bytes)", len(b)))...)
		}
		return b
	}
	out := make([]stepRec, len(steps))
	for i, s := range steps {
		s.Op.Content = cut(s.Op.Content)
		s.Direct.Data = cut(s.Direct.Data)
		s.Via.Data = cut(s.Via.Data)
		tr := make([]BCall, len(s.Trace))
		for j, c := range s.Trace {
			c.Data = cut(c.Data)
			if c.Op != nil {
				o := *c.Op
				o.Content = cut(o.Content)
				c.Op = &o
			}
			tr[j] = c
		}
		s.Trace = tr
		out[i] = s
	}
	return out
}

func trimSnap(snap []snapRec) []snapRec {
	out := make([]snapRec, len(snap))
	for i, s := range snap {
		if len(s.A.Data) > 256 {
			s.A.Data = append(append([]byte{}, s.A.Data[:64]...), []byte(fmt.Sprintf("...(%d bytes)", len(s.A.Data)))...)
		}
		if len(s.B.Data) > 256 {
			s.B.Data = append(append([]byte{}, s.B.Data[:64]...), []byte(fmt.Sprintf("...(%d bytes)", len(s.B.Data)))...)
		}
		out[i] = s
	}
	return out
}

// ---- large contents ----
//
// A content of more than 4 KiB is written once, in the preamble of the case files, as a named
// constant (prefix ++ rep n b when it ends in a run of one byte, as the generated large
// manifests do) and referred to by name wherever it occurs in a case.
type bigTable struct {
	names map[string]string
}

var bigs = &bigTable{names: map[string]string{}}

func (t *bigTable) compress(out *hx.Out, coq string, or interface{ BigContents() []string }) string {
	for _, c := range or.BigContents() {
		name, ok := t.names[c]
		if !ok {
			name = fmt.Sprintf("big_%d", len(t.names))
			t.names[c] = name
			i := len(c)
			for i > 0 && c[i-1] == c[len(c)-1] {
				i--
			}
			var term string
			if len(c)-i > 1024 {
				term = fmt.Sprintf("(%s ++ rep %d %d)", hx.B(c[:i]), len(c)-i, c[len(c)-1])
			} else {
				term = hx.B(c)
			}
			out.Preamble += fmt.Sprintf("Definition %s : bytes := %s.\n", name, term)
		}
		coq = strings.ReplaceAll(coq, hx.B(c), name)
	}
	return coq
}

func defaultStack() Stack { return Stack{Hops: 1} }

func main() {
	cfg := hx.ParseFlags()
	out := hx.NewOut(cfg, "Obs.C03")
	out.ShardMax = 14
	thoroughTier = cfg.Thorough()
	type input struct {
		Input history `json:"input"`
	}
	if cfg.Replay != "" {
		b, err := os.ReadFile(cfg.Replay)
		if err != nil {
			panic(err)
		}
		var r input
		if err := json.Unmarshal(b, &r); err != nil {
			panic(err)
		}
		runHistory(out, r.Input, "replay")
		if err := out.Flush(); err != nil {
			panic(err)
		}
		return
	}
	registered = registeredFindings()
	for _, raw := range hx.LoadCorpus(cfg.Corpus) {
		var r input
		if json.Unmarshal(raw, &r) == nil && (len(r.Input.Ops) > 0 || r.Input.Big != nil || r.Input.Long != nil || r.Input.ErrSz != nil) {
			runHistory(out, r.Input, "corpus")
		}
	}
	rnd := cfg.Rand()
	n := 400
	if cfg.Thorough() {
		n = 4000
	}
	// the large contents run beside the histories (their own registries and servers)
	bigCases := genBig(rand.New(rand.NewSource(cfg.Seed+1)), cfg.Thorough())
	bigDone := make(chan []bigOut, 1)
	go func() { bigDone <- runBigs(bigCases, "big-grid") }()
	// so do the long listings and the error-size probes
	longCases := genLong(rand.New(rand.NewSource(cfg.Seed+2)), cfg.Thorough())
	errCases := genErrSz(rand.New(rand.NewSource(cfg.Seed+3)), cfg.Thorough())
	sideDone := make(chan []bigOut, 1)
	go func() {
		var jobs []func() bigOut
		for _, lc := range longCases {
			jobs = append(jobs, func() bigOut { return runLong(lc.st, lc.in, "long-grid") })
		}
		for _, ec := range errCases {
			jobs = append(jobs, func() bigOut { return runErrSz(ec.st, ec.in, "errsz-grid") })
		}
		sideDone <- runJobs(jobs, 3)
	}()
	generate(out, rnd, n)
	for _, b := range <-bigDone {
		addBig(out, b)
	}
	for _, b := range <-sideDone {
		addBig(out, b)
	}
	out.Extra["note"] = fmt.Sprintf("tier=%s seed=%d", cfg.Tier, cfg.Seed)
	if err := out.Flush(); err != nil {
		panic(err)
	}
}

// runJobs runs the jobs on k goroutines and returns the results in the order of the jobs.
func runJobs(jobs []func() bigOut, k int) []bigOut {
	out := make([]bigOut, len(jobs))
	sem := make(chan struct{}, k)
	done := make(chan struct{}, len(jobs))
	for i := range jobs {
		sem <- struct{}{}
		go func(i int) {
			out[i] = jobs[i]()
			<-sem
			done <- struct{}{}
		}(i)
	}
	for range jobs {
		<-done
	}
	return out
}

func generate(out *hx.Out, rnd *rand.Rand, n int) {
	for i := 0; i < n; i++ {
		st := defaultStack()
		if i%4 != 0 {
			st = genStack(rnd)
		}
		flavour := ""
		switch i % 8 {
		case 3:
			flavour = "alg" // blobs under sha256 / sha384 / sha512 digests, over algstore
		case 5, 6:
			flavour = "listy" // many tags, small pages, iterators iterated again
			st = listyStack(rnd)
		}
		h := genHistory(rnd, st, 8+rnd.Intn(25), flavour)
		runHistory(out, h, "random")
	}
}
