// Harness for C20: drives *ociregistry.Funcs by reflection over its field set.
package main

import (
	"context"
	"encoding/json"
	"errors"
	"fmt"
	"io"
	"os"
	"reflect"
	"sort"
	"strings"

	"cuelabs.dev/go/oci/ociregistry"
	"verif/harness/hx"
)

var methods = []string{"GetBlob", "GetBlobRange", "GetManifest", "GetTag", "ResolveBlob", "ResolveManifest", "ResolveTag",
	"PushBlob", "PushBlobChunked", "PushBlobChunkedResume", "MountBlob", "PushManifest",
	"DeleteBlob", "DeleteManifest", "DeleteTag", "Repositories", "Tags", "Referrers"}

type input struct {
	Nil    bool     `json:"nil"`
	Ctor   bool     `json:"ctor"`
	Set    []string `json:"set"`
	Method string   `json:"method"`
	// Variant selects the argument values: 0 = all distinct tagged values (a permutation is
	// visible); 1.. = boundary values (empty strings, zero / negative / equal integers, zero
	// descriptor), so that a method that treats some argument value specially is visible.
	Variant int `json:"variant,omitempty"`
}

type ctorErr struct{ name, repo string }

func (e *ctorErr) Error() string { return "ctor:" + e.name + ":" + e.repo }

type sentinelReader struct {
	ociregistry.BlobReader
	tag string
}
type sentinelWriter struct {
	ociregistry.BlobWriter
	tag string
}

var (
	ctxType    = reflect.TypeOf((*context.Context)(nil)).Elem()
	errType    = reflect.TypeOf((*error)(nil)).Elem()
	readerType = reflect.TypeOf((*ociregistry.BlobReader)(nil)).Elem()
	writerType = reflect.TypeOf((*ociregistry.BlobWriter)(nil)).Elem()
	ioReadType = reflect.TypeOf((*io.Reader)(nil)).Elem()
	descType   = reflect.TypeOf(ociregistry.Descriptor{})
	seqStrType = reflect.TypeOf(ociregistry.Seq[string](nil))
	seqDesType = reflect.TypeOf(ociregistry.Seq[ociregistry.Descriptor](nil))
)

// argument values by position, all distinct so that a permutation is visible
var intVariants = [][]int64{nil, {0, -1}, {0, 0}, {-1, -1}, {1, 0}, {0, 1}, {-1, 0}, {7, 7}}

func makeArg(t reflect.Type, i int, variant int, intIdx *int) reflect.Value {
	if variant > 0 {
		switch {
		case t == descType:
			if variant%2 == 1 {
				return reflect.ValueOf(ociregistry.Descriptor{})
			}
			return reflect.ValueOf(ociregistry.Descriptor{MediaType: "m", Digest: "sha256:x", Size: -1})
		case t.Kind() == reflect.String:
			vals := []string{"", "a", "*", "arg", ""}
			return reflect.ValueOf(vals[(variant+i)%len(vals)]).Convert(t)
		case t.Kind() == reflect.Int64 || t.Kind() == reflect.Int:
			iv := intVariants[variant%len(intVariants)]
			if iv == nil {
				iv = []int64{0, -1}
			}
			v := iv[*intIdx%len(iv)]
			*intIdx++
			return reflect.ValueOf(v).Convert(t)
		}
	}
	switch {
	case t == ctxType:
		return reflect.ValueOf(context.Background())
	case t == ioReadType:
		return reflect.ValueOf(io.Reader(strings.NewReader(fmt.Sprintf("reader%d", i)))).Convert(t)
	case t == descType:
		return reflect.ValueOf(ociregistry.Descriptor{MediaType: fmt.Sprintf("media%d", i), Size: int64(100 + i)})
	case t.Kind() == reflect.String:
		return reflect.ValueOf(fmt.Sprintf("arg%d", i)).Convert(t)
	case t.Kind() == reflect.Int64 || t.Kind() == reflect.Int:
		return reflect.ValueOf(1000 + i).Convert(t)
	case t.Kind() == reflect.Slice:
		return reflect.ValueOf([]byte(fmt.Sprintf("bytes%d", i)))
	}
	panic("unhandled arg type " + t.String())
}

func show(v reflect.Value) string {
	switch v.Type() {
	case ioReadType:
		if v.IsNil() {
			return "reader:nil"
		}
		return fmt.Sprintf("reader:%p", v.Interface())
	case descType:
		b, _ := json.Marshal(v.Interface())
		return string(b)
	}
	if v.Kind() == reflect.Interface && !v.IsNil() {
		if _, ok := v.Interface().(io.Reader); ok {
			return fmt.Sprintf("reader:%p", v.Interface())
		}
	}
	if v.Kind() == reflect.Slice {
		return string(v.Bytes())
	}
	return fmt.Sprint(v.Interface())
}

type recorder struct {
	calledField string
	args        []string
	results     []reflect.Value
}

func fieldFunc(name string, t reflect.Type, rec *recorder) reflect.Value {
	return reflect.MakeFunc(t, func(args []reflect.Value) []reflect.Value {
		rec.calledField = name
		rec.args = nil
		for _, a := range args[1:] {
			rec.args = append(rec.args, show(a))
		}
		var res []reflect.Value
		for i := 0; i < t.NumOut(); i++ {
			ot := t.Out(i)
			switch ot {
			case errType:
				res = append(res, reflect.ValueOf(fmt.Errorf("result-error-%s", name)).Convert(errType))
			case readerType:
				res = append(res, reflect.ValueOf(&sentinelReader{tag: name}).Convert(readerType))
			case writerType:
				res = append(res, reflect.ValueOf(&sentinelWriter{tag: name}).Convert(writerType))
			case descType:
				res = append(res, reflect.ValueOf(ociregistry.Descriptor{MediaType: "result-" + name, Size: 42}))
			case seqStrType:
				res = append(res, reflect.ValueOf(ociregistry.Seq[string](func(y func(string, error) bool) {
					if y("item1-"+name, nil) {
						y("item2-"+name, nil)
					}
				})))
			case seqDesType:
				res = append(res, reflect.ValueOf(ociregistry.Seq[ociregistry.Descriptor](func(y func(ociregistry.Descriptor, error) bool) {
					y(ociregistry.Descriptor{MediaType: "item-" + name}, nil)
				})))
			default:
				panic("unhandled result type " + ot.String())
			}
		}
		rec.results = res
		return res
	})
}

// runSeq drains a Seq with an always-continue consumer.
func runSeq(v reflect.Value) (items []string, errs []error, yields int) {
	switch s := v.Interface().(type) {
	case ociregistry.Seq[string]:
		s(func(x string, err error) bool {
			yields++
			items = append(items, x)
			errs = append(errs, err)
			return true
		})
	case ociregistry.Seq[ociregistry.Descriptor]:
		s(func(x ociregistry.Descriptor, err error) bool {
			yields++
			b, _ := json.Marshal(x)
			items = append(items, string(b))
			errs = append(errs, err)
			return true
		})
	}
	return
}

func classifyErr(err error, yields int) string {
	var ce *ctorErr
	if errors.As(err, &ce) {
		return fmt.Sprintf("O (CCtorError %s %s %d)", hx.B(ce.name), hx.B(ce.repo), yields)
	}
	suffix := ": " + ociregistry.ErrUnsupported.Error()
	if errors.Is(err, ociregistry.ErrUnsupported) && strings.HasSuffix(err.Error(), suffix) {
		return fmt.Sprintf("O (CUnsupported %s %d)", hx.B(strings.TrimSuffix(err.Error(), suffix)), yields)
	}
	return "OOther " + hx.B("unexpected error: "+err.Error())
}

func isZero(v reflect.Value) bool { return v.IsZero() }

func runCase(in input) (coq string, obsDesc string, passed []string) {
	rec := &recorder{}
	var fv reflect.Value
	if in.Nil {
		fv = reflect.ValueOf((*ociregistry.Funcs)(nil))
	} else {
		f := &ociregistry.Funcs{}
		rv := reflect.ValueOf(f).Elem()
		for _, name := range in.Set {
			fld := rv.FieldByName(name + "_")
			fld.Set(fieldFunc(name, fld.Type(), rec))
		}
		if in.Ctor {
			f.NewError = func(ctx context.Context, methodName, repo string) error {
				return &ctorErr{methodName, repo}
			}
		}
		fv = reflect.ValueOf(f)
	}
	m := fv.MethodByName(in.Method)
	mt := m.Type()
	args := make([]reflect.Value, mt.NumIn())
	intIdx := 0
	for i := range args {
		args[i] = makeArg(mt.In(i), i, in.Variant, &intIdx)
		if i > 0 {
			passed = append(passed, show(args[i]))
		}
	}
	var out []reflect.Value
	panicked, pv := hx.Recover(func() { out = m.Call(args) })
	var obs string
	switch {
	case panicked:
		obs = "O CPanic"
		obsDesc = "panic: " + pv
	case rec.calledField != "":
		// delegated: results must be the field's results
		ok := len(out) == len(rec.results)
		for i := 0; ok && i < len(out); i++ {
			if out[i].Type() == seqStrType || out[i].Type() == seqDesType {
				a, _, _ := runSeq(out[i])
				b, _, _ := runSeq(rec.results[i])
				ok = reflect.DeepEqual(a, b)
			} else {
				ok = reflect.DeepEqual(out[i].Interface(), rec.results[i].Interface())
			}
		}
		if !ok {
			obs = "OOther " + hx.B("results altered")
		} else {
			obs = fmt.Sprintf("O (CDelegated M%s %s)", rec.calledField, hx.Bs(rec.args))
		}
		obsDesc = "delegated to " + rec.calledField + " args " + strings.Join(rec.args, ",")
	default:
		last := out[len(out)-1]
		if last.Type() == seqStrType || last.Type() == seqDesType {
			items, errs, yields := runSeq(last)
			if yields == 0 {
				obs = "OOther " + hx.B("iterator made no yield")
				obsDesc = "empty iterator"
				break
			}
			e := errs[len(errs)-1]
			allErr := true
			for i, x := range errs {
				if x == nil || (items[i] != "" && !strings.Contains(items[i], `"mediaType":""`)) {
					allErr = false
				}
			}
			if !allErr || e == nil {
				obs = "OOther " + hx.B("iterator yielded an item instead of an error")
				obsDesc = "iterator items"
				break
			}
			obs = classifyErr(e, yields)
			obsDesc = fmt.Sprintf("iterator error %v after %d yields", e, yields)
		} else {
			var err error
			if !last.IsNil() {
				err = last.Interface().(error)
			}
			nonzero := false
			for _, o := range out[:len(out)-1] {
				if !isZero(o) {
					nonzero = true
				}
			}
			switch {
			case err == nil:
				obs = "OOther " + hx.B("no error and no delegation")
			case nonzero:
				obs = "OOther " + hx.B("non-zero result with error")
			default:
				obs = classifyErr(err, 0)
			}
			obsDesc = fmt.Sprintf("error %v", err)
		}
	}
	set := make([]string, len(in.Set))
	for i, s := range in.Set {
		set[i] = "M" + s
	}
	coq = fmt.Sprintf("{| c_nil := %s; c_ctor := %s; c_set := %s; c_m := M%s; c_args := %s; c_obs := %s |}",
		hx.Bool(in.Nil), hx.Bool(in.Ctor), hx.List(set), in.Method, hx.Bs(passed), obs)
	return
}

func main() {
	cfg := hx.ParseFlags()
	out := hx.NewOut(cfg, "Obs.C20")
	add := func(in input, origin string) {
		sort.Strings(in.Set)
		coq, od, _ := runCase(in)
		kind := "error"
		switch {
		case strings.HasPrefix(od, "panic"):
			kind = "panic"
		case strings.HasPrefix(od, "delegated"):
			kind = "delegated"
		}
		if out.Add(hx.Case{Coq: coq, Desc: map[string]any{"input": in, "observed": od, "origin": origin},
			Tags: map[string]any{"class": in.Method + "/" + kind, "method": in.Method, "observed_kind": kind}}) {
			out.Count("method:" + in.Method)
			out.Count(fmt.Sprintf("setsize:%d", len(in.Set)))
			out.Count("origin:" + origin)
		}
	}
	if cfg.Replay != "" {
		b, err := os.ReadFile(cfg.Replay)
		if err != nil {
			panic(err)
		}
		var r struct {
			Input input `json:"input"`
		}
		if err := json.Unmarshal(b, &r); err != nil {
			panic(err)
		}
		add(r.Input, "replay")
		if err := out.Flush(); err != nil {
			panic(err)
		}
		return
	}
	for _, raw := range hx.LoadCorpus(cfg.Corpus) {
		var r struct {
			Input input `json:"input"`
		}
		if json.Unmarshal(raw, &r) == nil && r.Input.Method != "" {
			add(r.Input, "corpus")
		}
	}
	without := func(x string) []string {
		var r []string
		for _, m := range methods {
			if m != x {
				r = append(r, m)
			}
		}
		return r
	}
	for _, ctor := range []bool{false, true} {
		for _, m := range methods {
			add(input{Nil: true, Ctor: ctor, Method: m}, "nil")
			add(input{Ctor: ctor, Method: m}, "none")
			add(input{Ctor: ctor, Set: append([]string{}, methods...), Method: m}, "all")
			for _, f := range methods {
				add(input{Ctor: ctor, Set: []string{f}, Method: m}, "single")
				add(input{Ctor: ctor, Set: without(f), Method: m}, "allbutone")
				if f != m {
					add(input{Ctor: ctor, Set: []string{f, m}, Method: m}, "pair")
				}
			}
		}
	}
	// boundary argument values: the outcome may depend on the method's own field only,
	// whatever the arguments are
	for v := 1; v < len(intVariants); v++ {
		for _, ctor := range []bool{false, true} {
			for i, m := range methods {
				nb := methods[(i+len(methods)-1)%len(methods)]
				add(input{Nil: true, Ctor: ctor, Method: m, Variant: v}, "args-nil")
				add(input{Ctor: ctor, Method: m, Variant: v}, "args-none")
				add(input{Ctor: ctor, Set: []string{m}, Method: m, Variant: v}, "args-own")
				add(input{Ctor: ctor, Set: without(m), Method: m, Variant: v}, "args-allbutown")
				add(input{Ctor: ctor, Set: []string{nb}, Method: m, Variant: v}, "args-neighbour")
				add(input{Ctor: ctor, Set: append([]string{}, methods...), Method: m, Variant: v}, "args-all")
			}
		}
	}
	// random subsets
	rnd := cfg.Rand()
	n := 400
	if cfg.Thorough() {
		n = 20000
	}
	for i := 0; i < n; i++ {
		var set []string
		p := rnd.Float64()
		for _, f := range methods {
			if rnd.Float64() < p {
				set = append(set, f)
			}
		}
		add(input{Ctor: rnd.Intn(2) == 0, Set: set, Method: methods[rnd.Intn(len(methods))], Variant: rnd.Intn(len(intVariants))}, "random")
	}
	if err := out.Flush(); err != nil {
		panic(err)
	}
}
