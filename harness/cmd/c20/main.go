// Harness for C20: drives *ociregistry.Funcs by reflection over its field set.
//
// A case is a history: one table value (nil, or a set of fields with or without an error
// constructor) and a list of calls made on it one after the other.  Every call has its own
// context value (live, carrying values, cancelled, past its deadline, cancelled with a cause, a
// foreign implementation, cancelled after the call returned), its own argument values, its own
// kind of results from the field functions (value and error, value only, error only, all zero),
// and is followed by the caller's traversals of the returned iterator (any number, each by a
// consumer that goes on, that stops at the first yield, or by ociregistry.All).
package main

import (
	"context"
	"encoding/json"
	"errors"
	"fmt"
	"io"
	"os"
	"reflect"
	"sort"
	"strings"
	"sync"
	"sync/atomic"
	"time"

	"cuelabs.dev/go/oci/ociregistry"
	"verif/harness/hx"
)

var methods = []string{"GetBlob", "GetBlobRange", "GetManifest", "GetTag", "ResolveBlob", "ResolveManifest", "ResolveTag",
	"PushBlob", "PushBlobChunked", "PushBlobChunkedResume", "MountBlob", "PushManifest",
	"DeleteBlob", "DeleteManifest", "DeleteTag", "Repositories", "Tags", "Referrers"}

var iterMethods = []string{"Repositories", "Tags", "Referrers"}

func isIter(m string) bool { return m == "Repositories" || m == "Tags" || m == "Referrers" }

// one call of a history
type call struct {
	Method string `json:"method"`
	// Variant selects the argument values: 0 = all distinct tagged values (a permutation is
	// visible); 1.. = boundary values (empty strings, zero / negative / equal integers, zero
	// descriptor), so that a method that treats some argument value specially is visible.
	Variant int `json:"variant,omitempty"`
	// Ctx is the kind of context handed to the call: "" (live, carrying a value), "background",
	// "value", "deadline" (live, with a deadline), "cancelled", "expired", "cause", "custom", "late" (cancelled after the call has
	// returned, before the iterator is traversed).
	Ctx string `json:"ctx,omitempty"`
	// Results selects what the field functions return during this call: 0 = non-zero value and
	// non-nil error together, 1 = value and nil error, 2 = zero value and error, 3 = all zero
	// (nil reader / writer / iterator, zero descriptor, nil error).
	Results int `json:"results,omitempty"`
	// Trav lists the traversals made of the returned iterator, one letter each: c = the consumer
	// answers true to every yield, s = it answers false to the first, a = ociregistry.All.
	// "" = "c".  Ignored for the methods that return no iterator.
	Trav string `json:"trav,omitempty"`
}

type input struct {
	Nil  bool `json:"nil"`
	Ctor bool `json:"ctor"`
	// CtorKind selects what the error constructor returns: 0 = a fresh error value, 1 = nil,
	// 2 = a fresh error value that also wraps ErrUnsupported, 3 = the shared value context.Canceled.
	CtorKind int      `json:"ctor_kind,omitempty"`
	Set      []string `json:"set"`
	// one-call form (older corpus files): Method, Variant
	Method  string `json:"method,omitempty"`
	Variant int    `json:"variant,omitempty"`
	Calls   []call `json:"calls,omitempty"`
	// Conc != nil: the calls are those of one goroutine among several that were released together
	// in a fresh process (conc.go); nil: the calls are made one after the other in this process.
	Conc *concSpec `json:"conc,omitempty"`
}

func (in *input) normalise() {
	if len(in.Calls) == 0 && in.Method != "" {
		in.Calls = []call{{Method: in.Method, Variant: in.Variant}}
	}
	in.Method, in.Variant = "", 0
	for i := range in.Calls {
		c := &in.Calls[i]
		if !isIter(c.Method) {
			c.Trav = ""
		} else if c.Trav == "" {
			c.Trav = "c"
		}
	}
	if !in.Ctor || in.Nil {
		in.CtorKind = 0
	}
	if in.Nil {
		in.Set = nil
	}
	sort.Strings(in.Set)
}

// ---- error constructor results ----

type ctorErr struct{ ctx, name, repo string }

func (e *ctorErr) Error() string { return "ctor:" + e.name + ":" + e.repo }

// an error value from the constructor that errors.Is(_, ErrUnsupported) also accepts
type ctorErrU struct{ ctorErr }

func (e *ctorErrU) Unwrap() error { return ociregistry.ErrUnsupported }

type ctorCall struct {
	ctx, name, repo string
	ret             error
}

// ---- contexts ----

type ctxKey struct{}
type otherKey struct{}

// a foreign context implementation that is done, with its own error
type customCtx struct {
	label string
	done  chan struct{}
}

var errCustomCtx = errors.New("custom context is done")

func (c *customCtx) Deadline() (time.Time, bool) { return time.Time{}, false }
func (c *customCtx) Done() <-chan struct{}       { return c.done }
func (c *customCtx) Err() error                  { return errCustomCtx }
func (c *customCtx) Value(k any) any {
	if k == (ctxKey{}) {
		return c.label
	}
	return nil
}

var ctxKinds = []string{"", "background", "value", "deadline", "cancelled", "expired", "cause", "custom", "late"}

// makeCtx returns the context for one call, and what to do once the call has returned.
func makeCtx(kind, label string) (context.Context, func()) {
	base := context.WithValue(context.Background(), ctxKey{}, label)
	nop := func() {}
	switch kind {
	case "":
		return base, nop
	case "background":
		return context.Background(), nop
	case "value":
		return context.WithValue(base, otherKey{}, "v"), nop
	case "deadline":
		// live, with a deadline far away (the timer is left to the end of the process)
		c, cancel := context.WithDeadline(base, time.Now().Add(time.Hour))
		_ = cancel
		return c, nop
	case "cancelled":
		c, cancel := context.WithCancel(base)
		cancel()
		return c, nop
	case "expired":
		c, cancel := context.WithDeadline(base, time.Unix(1, 0))
		_ = cancel
		return c, nop
	case "cause":
		c, cancel := context.WithCancelCause(base)
		cancel(errors.New("the cause"))
		return c, nop
	case "custom":
		d := make(chan struct{})
		close(d)
		return &customCtx{label: label, done: d}, nop
	case "late":
		c, cancel := context.WithCancel(base)
		return c, cancel
	}
	panic("unknown context kind " + kind)
}

// ---- argument values ----

type sentinelReader struct {
	ociregistry.BlobReader
	tag string
}
type sentinelWriter struct {
	ociregistry.BlobWriter
	tag string
}

var (
	ctxType    = reflect.TypeOf((*context.Context)(nil)).Elem()
	errType    = reflect.TypeOf((*error)(nil)).Elem()
	readerType = reflect.TypeOf((*ociregistry.BlobReader)(nil)).Elem()
	writerType = reflect.TypeOf((*ociregistry.BlobWriter)(nil)).Elem()
	ioReadType = reflect.TypeOf((*io.Reader)(nil)).Elem()
	descType   = reflect.TypeOf(ociregistry.Descriptor{})
	seqStrType = reflect.TypeOf(ociregistry.Seq[string](nil))
	seqDesType = reflect.TypeOf(ociregistry.Seq[ociregistry.Descriptor](nil))
)

// argument values by position, all distinct so that a permutation is visible
var intVariants = [][]int64{nil, {0, -1}, {0, 0}, {-1, -1}, {1, 0}, {0, 1}, {-1, 0}, {7, 7}}

// Cross-shaped argument values: values of one parameter kind that look like another kind (a tag
// that is a complete digest, a repository that is a digest or a URL, a digest that is a tag, an
// upload id that is a URL or a digest, a media type, a method name ...).  Funcs validates
// nothing, so whatever the strings look like the outcome depends on the method's own field only
// and a set field receives them unchanged.
const (
	hex64       = "e3b0c44298fc1c149afbf4c8996fb92427ae41e4649b934ca495991b7852b855"
	shapedBase  = 100 // variants shapedBase+k: string parameter i takes shapes[(k+i) mod n] (all positions differ)
	shapedEqual = 200 // variants shapedEqual+k: every string parameter takes shapes[k] (tag == repo == digest ...)
)

var shapes = []string{
	"sha256:" + hex64,                  // a complete digest
	"sha512:" + hex64 + hex64,          // a complete digest of the other algorithm
	"sha256:abc",                       // digest-like, too short
	"SHA256:" + strings.ToUpper(hex64), // digest-like, wrong case
	"foo/bar",                          // a repository name
	"localhost:5000/foo/bar",           // a repository with a host
	"latest",                           // a tag
	"v1.2.3-rc.1_x",                    // a tag with every legal punctuation
	"foo/bar:latest",                   // a tagged reference
	"foo/bar@sha256:" + hex64,          // a digest reference
	"https://reg.example/v2/foo/bar/blobs/uploads/6b3c?_state=abc&digest=sha256:" + hex64, // an upload URL
	"/v2/foo/bar/blobs/uploads/6b3c",             // a relative upload location
	"3fa85f64-5717-4562-b3fc-2c963f66afa6",       // an upload id (uuid)
	"application/vnd.oci.image.manifest.v1+json", // a media type
	"DeleteManifest",                             // a method name
	"DeleteTag",                                  // another
	"_catalog",                                   // a path element of the API
	"../..",                                      // path traversal
	"UPPER/Case",                                 // not a legal repository
	"a b\t%2F\x00\xff",                           // blanks, an escape, NUL, not UTF-8
	"{\"schemaVersion\":2}",                      // manifest contents
	"18446744073709551616",                       // a number beyond 64 bits
	"-1",                                         // a negative number
	strings.Repeat("a/", 128) + "a",              // a repository longer than the 255 limit
}

// variants shapedCross+code: the parameter at position i takes cores[digit i-1 of code in base
// len(cores)]: every combination of the main kinds over the parameters of a method (a legal
// repository together with a tag that is a digest, ...)
const shapedCross = 1000

var cores = []string{"foo/bar", "sha256:" + hex64, "latest", "3fa85f64-5717-4562-b3fc-2c963f66afa6",
	"https://reg.example/v2/foo/bar/blobs/uploads/6b3c?digest=sha256:" + hex64}

func crossShape(variant, i int) string {
	code := variant - shapedCross
	for j := 1; j < i; j++ {
		code /= len(cores)
	}
	return cores[code%len(cores)]
}

// crossCodes lists the codes that differ in the string-like parameters of method m only.
func crossCodes(m string) []int {
	mt, _ := reflect.TypeOf((*ociregistry.Funcs)(nil)).MethodByName(m)
	codes := []int{0}
	weight := 1
	for i := 1; i+1 < mt.Type.NumIn(); i++ { // In(0) receiver, In(1) context, In(i+1) = argument i
		t := mt.Type.In(i + 1)
		if t == descType || t.Kind() == reflect.String {
			var next []int
			for _, c := range codes {
				for d := range cores {
					next = append(next, c+d*weight)
				}
			}
			codes = next
		}
		weight *= len(cores)
	}
	return codes
}

func shaped(variant int) bool { return variant >= shapedBase && variant < shapedEqual+len(shapes) }

func shapeFor(variant, i int) string {
	if variant >= shapedEqual {
		return shapes[(variant-shapedEqual)%len(shapes)]
	}
	return shapes[(variant-shapedBase+i)%len(shapes)]
}

func makeArg(t reflect.Type, i int, variant int, intIdx *int) reflect.Value {
	if variant >= shapedCross {
		switch {
		case t == descType:
			return reflect.ValueOf(ociregistry.Descriptor{MediaType: fmt.Sprintf("media%d", i),
				Digest: ociregistry.Digest(crossShape(variant, i)), Size: int64(100 + i)})
		case t.Kind() == reflect.String:
			return reflect.ValueOf(crossShape(variant, i)).Convert(t)
		}
		variant = 0
	}
	if shaped(variant) {
		switch {
		case t == descType:
			return reflect.ValueOf(ociregistry.Descriptor{MediaType: shapeFor(variant, i+1),
				Digest: ociregistry.Digest(shapeFor(variant, i)), Size: int64(100 + i)})
		case t.Kind() == reflect.String:
			return reflect.ValueOf(shapeFor(variant, i)).Convert(t)
		case t.Kind() == reflect.Slice:
			return reflect.ValueOf([]byte(shapeFor(variant, i)))
		}
		variant = 0
	}
	if variant > 0 {
		switch {
		case t == descType:
			if variant%2 == 1 {
				return reflect.ValueOf(ociregistry.Descriptor{})
			}
			return reflect.ValueOf(ociregistry.Descriptor{MediaType: "m", Digest: "sha256:x", Size: -1})
		case t.Kind() == reflect.String:
			vals := []string{"", "a", "*", "arg", ""}
			return reflect.ValueOf(vals[(variant+i)%len(vals)]).Convert(t)
		case t.Kind() == reflect.Int64 || t.Kind() == reflect.Int:
			iv := intVariants[variant%len(intVariants)]
			if iv == nil {
				iv = []int64{0, -1}
			}
			v := iv[*intIdx%len(iv)]
			*intIdx++
			return reflect.ValueOf(v).Convert(t)
		}
	}
	switch {
	case t == ioReadType:
		return reflect.ValueOf(io.Reader(strings.NewReader(fmt.Sprintf("reader%d", i)))).Convert(t)
	case t == descType:
		return reflect.ValueOf(ociregistry.Descriptor{MediaType: fmt.Sprintf("media%d", i), Size: int64(100 + i)})
	case t.Kind() == reflect.String:
		return reflect.ValueOf(fmt.Sprintf("arg%d", i)).Convert(t)
	case t.Kind() == reflect.Int64 || t.Kind() == reflect.Int:
		return reflect.ValueOf(1000 + i).Convert(t)
	case t.Kind() == reflect.Slice:
		return reflect.ValueOf([]byte(fmt.Sprintf("bytes%d", i)))
	}
	panic("unhandled arg type " + t.String())
}

func show(v reflect.Value) string {
	switch v.Type() {
	case ioReadType:
		if v.IsNil() {
			return "reader:nil"
		}
		return fmt.Sprintf("reader:%p", v.Interface())
	case descType:
		b, _ := json.Marshal(v.Interface())
		return string(b)
	}
	if v.Kind() == reflect.Interface && !v.IsNil() {
		if _, ok := v.Interface().(io.Reader); ok {
			return fmt.Sprintf("reader:%p", v.Interface())
		}
	}
	if v.Kind() == reflect.Slice {
		return string(v.Bytes())
	}
	return fmt.Sprint(v.Interface())
}

// ---- iterators returned by the field functions ----

// one yield as the producer or the consumer saw it
type yieldRec struct {
	item   string
	err    error
	answer bool
}

// seqLog is what a stub iterator saw: one entry per traversal of it
type seqLog struct {
	travs [][]yieldRec
}

func jsonOf(x any) string {
	b, _ := json.Marshal(x)
	return string(b)
}

// stubSeq makes an iterator that yields the items, then (when err is non-nil) one more yield
// carrying err, stops as soon as the consumer answers false, and logs every traversal.
func stubSeq[T any](items []T, err error) (ociregistry.Seq[T], *seqLog) {
	lg := &seqLog{}
	return func(yield func(T, error) bool) {
		lg.travs = append(lg.travs, nil)
		n := len(lg.travs) - 1
		for _, it := range items {
			ans := yield(it, nil)
			lg.travs[n] = append(lg.travs[n], yieldRec{jsonOf(it), nil, ans})
			if !ans {
				return
			}
		}
		if err != nil {
			var zero T
			ans := yield(zero, err)
			lg.travs[n] = append(lg.travs[n], yieldRec{jsonOf(zero), err, ans})
		}
	}, lg
}

const maxYields = 16

type runaway struct{}

// traverse runs the iterator once with consumer kind k ('c' or 's') and returns the yields seen.
// A consumer that has seen maxYields yields gives up by panicking with runaway{}.
func traverse[T any](s ociregistry.Seq[T], k byte) (recs []yieldRec, ran bool, panicked bool, pv string) {
	defer func() {
		if r := recover(); r != nil {
			if _, ok := r.(runaway); ok {
				ran = true
				return
			}
			panicked, pv = true, fmt.Sprint(r)
		}
	}()
	s(func(x T, err error) bool {
		if len(recs) >= maxYields {
			panic(runaway{})
		}
		ans := k == 'c'
		recs = append(recs, yieldRec{jsonOf(x), err, ans})
		return ans
	})
	return
}

// allOf hands the iterator to ociregistry.All (through a relay that gives up, as above, after
// maxYields yields, so that an iterator that never ends cannot hang the run).
func allOf[T any](s ociregistry.Seq[T]) (items []string, err error, ran bool, panicked bool, pv string) {
	defer func() {
		if r := recover(); r != nil {
			if _, ok := r.(runaway); ok {
				ran = true
				return
			}
			panicked, pv = true, fmt.Sprint(r)
		}
	}()
	n := 0
	relay := ociregistry.Seq[T](func(yield func(T, error) bool) {
		s(func(x T, e error) bool {
			if n >= maxYields {
				panic(runaway{})
			}
			n++
			return yield(x, e)
		})
	})
	xs, err := ociregistry.All(relay)
	for _, x := range xs {
		items = append(items, jsonOf(x))
	}
	return
}

// seqValue hides the element type of an iterator value
type seqValue struct {
	str ociregistry.Seq[string]
	des ociregistry.Seq[ociregistry.Descriptor]
}

func seqOf(v reflect.Value) (seqValue, bool) {
	switch s := v.Interface().(type) {
	case ociregistry.Seq[string]:
		return seqValue{str: s}, s == nil
	case ociregistry.Seq[ociregistry.Descriptor]:
		return seqValue{des: s}, s == nil
	}
	panic("not an iterator: " + v.Type().String())
}

func (s seqValue) traverse(k byte) ([]yieldRec, bool, bool, string) {
	if s.str != nil {
		return traverse(s.str, k)
	}
	return traverse(s.des, k)
}

func (s seqValue) all() ([]string, error, bool, bool, string) {
	if s.str != nil {
		return allOf(s.str)
	}
	return allOf(s.des)
}

// ---- the table under test and what its functions record ----

type fieldCall struct {
	field   string
	ctx     string
	args    []string
	results []reflect.Value
	seqLog  *seqLog // the log of the iterator among the results, if any
}

// an actor is one caller of the table: the only one (sequential histories), or one goroutine of a
// concurrent run.  What the table's functions see during a call is recorded with the actor whose
// call it is, and only that actor's goroutine touches it.
type actor struct {
	curCtx     context.Context
	curLabel   string
	curResults int
	fieldCalls []fieldCall
	ctorCalls  []ctorCall
}

// world is one table value and its callers.
type world struct {
	in input
	// seq is the only caller of a sequential history; nil in a concurrent run, where the caller is
	// found through the label its context carries (actors: label -> *actor).
	seq    *actor
	actors sync.Map
	stray  atomic.Int64 // calls of the table's functions that no caller could be found for
}

// actorFor finds the caller a function of the table was reached from.
func (w *world) actorFor(c context.Context) *actor {
	if w.seq != nil {
		return w.seq
	}
	if c != nil {
		var v any
		hx.Recover(func() { v = c.Value(ctxKey{}) })
		if l, ok := v.(string); ok {
			if a, ok := w.actors.Load(l); ok {
				return a.(*actor)
			}
		}
	}
	w.stray.Add(1)
	return &actor{}
}

func same(a, b any) (eq bool) {
	hx.Recover(func() { eq = a == b })
	return
}

// labelOf names the context a function of the table received: the label of the context of the
// call in progress when it is that very value.
func (w *actor) labelOf(c context.Context) string {
	if same(c, w.curCtx) {
		return w.curLabel
	}
	if c == nil {
		return "other:nil"
	}
	var v any
	hx.Recover(func() { v = c.Value(ctxKey{}) })
	if v == w.curLabel {
		return "other:derived-from:" + w.curLabel
	}
	return "other:foreign"
}

func richDescriptor(tag string) ociregistry.Descriptor {
	return ociregistry.Descriptor{
		MediaType: "result-" + tag, Digest: "sha256:result", Size: 42,
		URLs:         []string{"u1-" + tag, "u2"},
		Annotations:  map[string]string{"k": tag},
		Data:         []byte("data-" + tag),
		ArtifactType: "artifact-" + tag,
	}
}

func (w *world) fieldFunc(name string, t reflect.Type) reflect.Value {
	return reflect.MakeFunc(t, func(args []reflect.Value) []reflect.Value {
		fc := fieldCall{field: name}
		c, _ := args[0].Interface().(context.Context)
		a := w.actorFor(c)
		if c != nil {
			fc.ctx = a.labelOf(c)
		} else {
			fc.ctx = "other:nil"
		}
		for _, a := range args[1:] {
			fc.args = append(fc.args, show(a))
		}
		kind := a.curResults
		withValue := kind == 0 || kind == 1
		withErr := kind == 0 || kind == 2
		tag := fmt.Sprintf("%s#%d", name, len(a.fieldCalls))
		for i := 0; i < t.NumOut(); i++ {
			ot := t.Out(i)
			var r reflect.Value
			switch ot {
			case errType:
				if withErr {
					r = reflect.ValueOf(fmt.Errorf("result-error-%s", tag)).Convert(errType)
				}
			case readerType:
				if withValue {
					r = reflect.ValueOf(&sentinelReader{tag: tag}).Convert(readerType)
				}
			case writerType:
				if withValue {
					r = reflect.ValueOf(&sentinelWriter{tag: tag}).Convert(writerType)
				}
			case descType:
				if withValue {
					r = reflect.ValueOf(richDescriptor(tag))
				}
			case seqStrType:
				var items []string
				var err error
				if withValue {
					items = []string{"item1-" + tag, "item2-" + tag, ""}
				}
				if withErr {
					err = fmt.Errorf("seq-error-%s", tag)
				}
				if kind != 3 {
					s, lg := stubSeq(items, err)
					fc.seqLog = lg
					r = reflect.ValueOf(s)
				}
			case seqDesType:
				var items []ociregistry.Descriptor
				var err error
				if withValue {
					items = []ociregistry.Descriptor{richDescriptor(tag), {}}
				}
				if withErr {
					err = fmt.Errorf("seq-error-%s", tag)
				}
				if kind != 3 {
					s, lg := stubSeq(items, err)
					fc.seqLog = lg
					r = reflect.ValueOf(s)
				}
			default:
				panic("unhandled result type " + ot.String())
			}
			if !r.IsValid() {
				r = reflect.Zero(ot)
			}
			fc.results = append(fc.results, r)
		}
		a.fieldCalls = append(a.fieldCalls, fc)
		return fc.results
	})
}

func (w *world) newError(ctx context.Context, methodName, repo string) error {
	a := w.actorFor(ctx)
	cc := ctorCall{ctx: a.labelOf(ctx), name: methodName, repo: repo}
	switch w.in.CtorKind {
	case 0:
		cc.ret = &ctorErr{cc.ctx, methodName, repo}
	case 1:
		cc.ret = nil
	case 2:
		cc.ret = &ctorErrU{ctorErr{cc.ctx, methodName, repo}}
	case 3:
		cc.ret = context.Canceled
	}
	a.ctorCalls = append(a.ctorCalls, cc)
	return cc.ret
}

// classify names an error a method reported: the very value the constructor returned during
// this call, or the default unsupported-operation error.  ok = false: neither.
func (w *actor) classify(err error) (coq string, ok bool, why string) {
	for i := len(w.ctorCalls) - 1; i >= 0; i-- {
		cc := w.ctorCalls[i]
		if same(cc.ret, err) {
			return fmt.Sprintf("(ECtorErr %s %s %s)", hx.B(cc.ctx), hx.B(cc.name), hx.B(cc.repo)), true, ""
		}
	}
	if err == nil {
		return "", false, "nil error"
	}
	suffix := ": " + ociregistry.ErrUnsupported.Error()
	if len(w.ctorCalls) == 0 && errors.Is(err, ociregistry.ErrUnsupported) && strings.HasSuffix(err.Error(), suffix) {
		return fmt.Sprintf("(EUnsup %s)", hx.B(strings.TrimSuffix(err.Error(), suffix))), true, ""
	}
	return "", false, "unexpected error: " + err.Error()
}

func zeroItem(item string) bool {
	return item == `""` || item == jsonOf(ociregistry.Descriptor{})
}

// faithful checks that the results the caller got are the results of the one field call:
// interface values identical, descriptors deeply equal, and an iterator that behaves, traversal
// after traversal and for each kind of consumer, as the field's own iterator: every yield the
// field's iterator makes reaches the consumer unchanged, every answer reaches the iterator, and
// the iterator is run exactly once per traversal (and not before).
func (w *actor) faithful(out []reflect.Value, fc fieldCall, trav string, after func()) string {
	if len(out) != len(fc.results) {
		return "number of results altered"
	}
	for i := range out {
		ot := out[i].Type()
		switch {
		case ot == seqStrType || ot == seqDesType:
			s, isNil := seqOf(out[i])
			if fc.seqLog == nil {
				if !isNil {
					return "nil iterator replaced"
				}
				continue
			}
			if isNil {
				return "iterator dropped"
			}
			if len(fc.seqLog.travs) != 0 {
				return "iterator traversed by the method itself"
			}
			after()
			for j := 0; j < len(trav); j++ {
				before := len(fc.seqLog.travs)
				var bad string
				if trav[j] == 'a' {
					items, err, ran, panicked, _ := s.all()
					if panicked {
						return "panic in a traversal of the delegated iterator"
					}
					if ran {
						return "delegated iterator does not end"
					}
					if len(fc.seqLog.travs) != before+1 {
						return "delegated iterator not run once per traversal"
					}
					var wantItems []string
					var wantErr error
					for _, r := range fc.seqLog.travs[before] {
						if r.err != nil {
							wantErr = r.err
							break
						}
						wantItems = append(wantItems, r.item)
					}
					if !reflect.DeepEqual(items, wantItems) || !same(err, wantErr) {
						bad = "delegated iterator altered (All)"
					}
				} else {
					recs, ran, panicked, _ := s.traverse(trav[j])
					if panicked {
						return "panic in a traversal of the delegated iterator"
					}
					if ran {
						return "delegated iterator does not end"
					}
					if len(fc.seqLog.travs) != before+1 {
						return "delegated iterator not run once per traversal"
					}
					prod := fc.seqLog.travs[before]
					if len(recs) != len(prod) {
						bad = "delegated iterator altered"
					}
					for k := 0; bad == "" && k < len(recs); k++ {
						if recs[k].item != prod[k].item || !same(recs[k].err, prod[k].err) || recs[k].answer != prod[k].answer {
							bad = "delegated iterator altered"
						}
					}
				}
				if bad != "" {
					return fmt.Sprintf("%s in traversal %d", bad, j+1)
				}
			}
		case ot.Kind() == reflect.Interface:
			if out[i].IsNil() != fc.results[i].IsNil() {
				return "results altered"
			}
			if !out[i].IsNil() && !same(out[i].Interface(), fc.results[i].Interface()) {
				return "results altered"
			}
		default:
			if !reflect.DeepEqual(out[i].Interface(), fc.results[i].Interface()) {
				return "results altered"
			}
		}
	}
	return ""
}

func travCoq(trav string) string {
	var ks []string
	for i := 0; i < len(trav); i++ {
		switch trav[i] {
		case 'c':
			ks = append(ks, "KGoOn")
		case 's':
			ks = append(ks, "KStop")
		case 'a':
			ks = append(ks, "KAll")
		default:
			panic("unknown consumer " + trav)
		}
	}
	return hx.List(ks)
}

func ctxLabel(who string, idx int, c call) string {
	return fmt.Sprintf("%sctx%d:%s", who, idx, c.Ctx)
}

// prepStep builds the argument values of one call and the Coq term of the step.
func prepStep(fv reflect.Value, label string, ctx context.Context, c call) (m reflect.Value, args []reflect.Value, stepCoq string) {
	m = fv.MethodByName(c.Method)
	mt := m.Type()
	args = make([]reflect.Value, mt.NumIn())
	var passed []string
	intIdx := 0
	args[0] = reflect.ValueOf(ctx)
	for i := 1; i < len(args); i++ {
		args[i] = makeArg(mt.In(i), i, c.Variant, &intIdx)
		passed = append(passed, show(args[i]))
	}
	stepCoq = fmt.Sprintf("{| s_m := M%s; s_ctx := %s; s_args := %s; s_results := %d; s_trav := %s |}",
		c.Method, hx.B(label), hx.Bs(passed), c.Results, travCoq(c.Trav))
	return
}

// runStep makes one call of the history and returns the Coq terms of the step and of what was
// seen, plus a readable form.
// uneven is set when a traversal of an unset iterator did not make exactly one yield; it is used,
// like [odd], only to choose the call a case is filed under.
// label is the name of the call's context (the value it carries); who is the prefix naming the
// caller ("" for the only caller of a sequential history).
func (w *actor) runStep(fv reflect.Value, who string, idx int, c call) (stepCoq, obs, obsDesc string, uneven bool) {
	return w.execStep(prepare(fv, who, idx, c), nil)
}

// a call ready to be made: its context, its argument values, the Coq term of the step
type prepared struct {
	c       call
	label   string
	ctx     context.Context
	after   func()
	m       reflect.Value
	args    []reflect.Value
	stepCoq string
}

func prepare(fv reflect.Value, who string, idx int, c call) *prepared {
	p := &prepared{c: c, label: ctxLabel(who, idx, c)}
	p.ctx, p.after = makeCtx(c.Ctx, p.label)
	p.m, p.args, p.stepCoq = prepStep(fv, p.label, p.ctx, c)
	return p
}

// execStep makes a prepared call (after gate(), when given: the barrier of a concurrent run) and
// works out what was seen.
func (w *actor) execStep(p *prepared, gate func()) (stepCoq, obs, obsDesc string, uneven bool) {
	c, ctx, label, after, m, args, stepCoq := p.c, p.ctx, p.label, p.after, p.m, p.args, p.stepCoq
	w.curCtx, w.curLabel, w.curResults = ctx, label, c.Results
	w.fieldCalls, w.ctorCalls = nil, nil
	defer after()
	if gate != nil {
		gate()
	}

	other := func(what string) { obs = "SOther " + hx.B(what); obsDesc = what }
	var out []reflect.Value
	panicked, pv := hx.Recover(func() { out = m.Call(args) })
	switch {
	case panicked:
		obs = "SPanic"
		obsDesc = "panic: " + pv
	case len(w.fieldCalls) > 1:
		other(fmt.Sprintf("%d calls of field functions in one method call", len(w.fieldCalls)))
	case len(w.fieldCalls) == 1:
		fc := w.fieldCalls[0]
		if what := w.faithful(out, fc, c.Trav, after); what != "" {
			other(what)
			obsDesc = "delegated to " + fc.field + ": " + what
		} else {
			obs = fmt.Sprintf("SDelegated M%s %s %s", fc.field, hx.B(fc.ctx), hx.Bs(fc.args))
			obsDesc = "delegated to " + fc.field + " ctx " + fc.ctx + " args " + strings.Join(fc.args, ",")
		}
	default:
		last := out[len(out)-1]
		if last.Type() == seqStrType || last.Type() == seqDesType {
			s, isNil := seqOf(last)
			if isNil {
				other("nil iterator and no delegation")
				break
			}
			after()
			var travs, descs []string
			for j := 0; j < len(c.Trav) && obs == ""; j++ {
				var ys []string
				yerr := func(item string, err error) {
					if !zeroItem(item) {
						ys = append(ys, "YOther "+hx.B("item "+item))
						return
					}
					if e, ok, why := w.classify(err); ok {
						ys = append(ys, "YErr "+e)
					} else {
						ys = append(ys, "YOther "+hx.B(why))
					}
				}
				if c.Trav[j] == 'a' {
					items, err, ran, p, v := s.all()
					// All's answer read back as yields: every item it returned was a yield with a
					// nil error, a non-nil error was one more yield
					if p {
						obs, obsDesc = "SPanic", "panic in traversal: "+v
					}
					for _, it := range items {
						yerr(it, nil)
					}
					if err != nil {
						yerr(`""`, err)
					}
					if ran {
						ys = append(ys, "YOther "+hx.B("more yields than the consumer accepts"))
					}
					descs = append(descs, fmt.Sprintf("All: %d items, error %v", len(items), err))
				} else {
					recs, ran, p, v := s.traverse(c.Trav[j])
					if p {
						obs, obsDesc = "SPanic", "panic in traversal: "+v
					}
					for _, r := range recs {
						yerr(r.item, r.err)
					}
					if ran {
						ys = append(ys, "YOther "+hx.B("more yields than the consumer accepts"))
					}
					descs = append(descs, fmt.Sprintf("%c: %d yields", c.Trav[j], len(recs)))
					for _, r := range recs {
						descs[len(descs)-1] += fmt.Sprintf(" (%s, %v)", r.item, r.err)
					}
				}
				travs = append(travs, hx.List(ys))
				if len(ys) != 1 {
					uneven = true
				}
			}
			if obs == "" {
				obs = "SSeq " + hx.List(travs)
				obsDesc = "iterator; traversals: " + strings.Join(descs, "; ")
			}
		} else {
			var err error
			if !last.IsNil() {
				err = last.Interface().(error)
			}
			nonzero := false
			for _, o := range out[:len(out)-1] {
				if !o.IsZero() {
					nonzero = true
				}
			}
			e, ok, why := w.classify(err)
			switch {
			case nonzero:
				other("non-zero result and no delegation")
			case !ok:
				other(why)
			default:
				obs = "SError " + e
			}
			obsDesc = fmt.Sprintf("error %v", err)
		}
	}
	return
}

func kindOf(obsDesc string) string {
	switch {
	case strings.HasPrefix(obsDesc, "panic"):
		return "panic"
	case strings.HasPrefix(obsDesc, "delegated"):
		return "delegated"
	}
	return "error"
}

// runCase runs a history.  subject is the call the case is filed under (Tags["class"]): the
// first one whose observation is of a shape this table cannot explain (a panic, results altered,
// an iterator not yielding the error once, a delegation without the field, an error with it),
// else the last one.  This only names the group a failure is reported in; the judgement is Coq's.
// makeTable builds the table value the input describes.
func makeTable(w *world) reflect.Value {
	in := w.in
	if in.Nil {
		return reflect.ValueOf((*ociregistry.Funcs)(nil))
	}
	f := &ociregistry.Funcs{}
	rv := reflect.ValueOf(f).Elem()
	for _, name := range in.Set {
		fld := rv.FieldByName(name + "_")
		fld.Set(w.fieldFunc(name, fld.Type()))
	}
	if in.Ctor {
		f.NewError = w.newError
	}
	return reflect.ValueOf(f)
}

func runCase(in input) (coq string, observed []string, subject int) {
	a := &actor{}
	w := &world{in: in, seq: a}
	steps, obs, observed, subject := a.runHistory(makeTable(w), "", in)
	return caseCoq(in, steps, obs), observed, subject
}

// runHistory makes the calls of in.Calls one after the other as the caller a.
func (a *actor) runHistory(fv reflect.Value, who string, in input) (steps, obs, observed []string, subject int) {
	return a.runPrepared(fv, who, in, nil, nil)
}

// runPrepared is runHistory with the calls prepared beforehand (ps; nil = each just before it is
// made) and a gate passed through immediately before every call (nil = none).
func (a *actor) runPrepared(fv reflect.Value, who string, in input, ps []*prepared, gate func(i int)) (steps, obs, observed []string, subject int) {
	var strange []bool
	for i, c := range in.Calls {
		var p *prepared
		if ps != nil {
			p = ps[i]
		} else {
			p = prepare(fv, who, i, c)
		}
		var g func()
		if gate != nil {
			g = func() { gate(i) }
		}
		s, o, od, uneven := a.execStep(p, g)
		isSet := false
		for _, f := range in.Set {
			isSet = isSet || f == c.Method
		}
		strange = append(strange, uneven || odd(o) || strings.HasPrefix(o, "SDelegated") != isSet)
		steps = append(steps, s)
		obs = append(obs, "("+o+")")
		observed = append(observed, od)
		if subject == i-1 && i > 0 && !strange[i-1] {
			subject = i
		}
	}
	return
}

func caseCoq(in input, steps, obs []string) string {
	set := make([]string, len(in.Set))
	for i, s := range in.Set {
		set[i] = "M" + s
	}
	return fmt.Sprintf("{| c_nil := %s; c_ctor := %s; c_ctor_kind := %d; c_set := %s; c_steps := %s; c_obs := %s |}",
		hx.Bool(in.Nil), hx.Bool(in.Ctor), in.CtorKind, hx.List(set), hx.List(steps), hx.List(obs))
}

func odd(obs string) bool {
	return strings.Contains(obs, "SOther") || strings.Contains(obs, "SPanic") || strings.Contains(obs, "YOther")
}

func without(x string) []string {
	var r []string
	for _, m := range methods {
		if m != x {
			r = append(r, m)
		}
	}
	return r
}

func all() []string { return append([]string{}, methods...) }

func neighbour(m string) string {
	for i, x := range methods {
		if x == m {
			return methods[(i+len(methods)-1)%len(methods)]
		}
	}
	panic(m)
}

// tables a method is looked at on: nil, no field, its own field alone, all but its own, all,
// a neighbour's alone
func tablesFor(m string) []input {
	return []input{
		{Nil: true},
		{},
		{Set: []string{m}},
		{Set: without(m)},
		{Set: all()},
		{Set: []string{neighbour(m)}},
	}
}

func main() {
	if concMain() {
		return
	}
	cfg := hx.ParseFlags()
	out := hx.NewOut(cfg, "Obs.C20")
	out.Extra["race_detector"] = raceEnabled
	if !cfg.Thorough() {
		out.ShardMax = 1400 // one wave of at most 16 coqc processes in the quick tier
	}
	record := func(in input, coq string, od []string, subj int, origin string, desc map[string]any, class string) {
		last := in.Calls[subj]
		kind := kindOf(od[subj])
		if class == "" {
			class = last.Method + "/" + kind
		}
		desc["input"], desc["observed"], desc["origin"] = in, od, origin
		if out.Add(hx.Case{Coq: coq, Desc: desc,
			Tags: map[string]any{"class": class, "method": last.Method, "observed_kind": kind}}) {
			out.Count("method:" + last.Method)
			out.Count(fmt.Sprintf("setsize:%d", len(in.Set)))
			out.Count("origin:" + origin)
			out.Count(fmt.Sprintf("history:%d", len(in.Calls)))
			for _, c := range in.Calls {
				out.Count("ctx:" + c.Ctx)
				out.Count(fmt.Sprintf("results:%d", c.Results))
				if c.Trav != "" {
					out.Count(fmt.Sprintf("traversals:%d", len(c.Trav)))
					for _, k := range []string{"c", "s", "a"} {
						if strings.Contains(c.Trav, k) {
							out.Count("consumer:" + k)
						}
					}
				}
			}
			if in.Ctor && !in.Nil {
				out.Count(fmt.Sprintf("ctor_kind:%d", in.CtorKind))
			}
			if in.Conc != nil {
				out.Count(fmt.Sprintf("concurrent_goroutines:%d", in.Conc.Goroutines))
				out.Count(fmt.Sprintf("concurrent_tables:%d", len(in.Conc.Tables)))
				out.Count("concurrent_order:" + in.Conc.Order)
			}
		}
	}
	// a goroutine's case of a concurrent run
	emitConc := func(r *concRun, g int, origin string) {
		in, coq, od, subj := r.caseOf(g)
		desc := map[string]any{"process": map[string]any{"died": r.died, "how": r.why, "race_detector": r.out.Race || (r.died && raceEnabled),
			"stray_calls": r.out.Stray}}
		class := ""
		if r.died {
			class = "concurrent/process-died"
		}
		record(in, coq, od, subj, origin, desc, class)
	}
	// (The sequential histories are run by this one goroutine on purpose, although the
	// race-detector build makes them several times slower: overlapping calls belong in the child
	// processes of conc.go, where a process that dies is an observation and not the end of the run.)
	add := func(in input, origin string) {
		if in.Conc != nil {
			// a goroutine of a concurrent run (replay, corpus): the whole run is made again
			spec := *in.Conc
			if !spec.valid() {
				return
			}
			tries := 3
			if origin == "replay" {
				tries = 20
			}
			emitConc(replayConc(spec, cfg.Out, tries), spec.Index, origin)
			return
		}
		in.Set = append([]string{}, in.Set...)
		in.Calls = append([]call{}, in.Calls...)
		in.normalise()
		if len(in.Calls) == 0 {
			return
		}
		coq, od, subj := runCase(in)
		record(in, coq, od, subj, origin, map[string]any{}, "")
	}
	if cfg.Replay != "" {
		b, err := os.ReadFile(cfg.Replay)
		if err != nil {
			panic(err)
		}
		var r struct {
			Input input `json:"input"`
		}
		if err := json.Unmarshal(b, &r); err != nil {
			panic(err)
		}
		add(r.Input, "replay")
		if err := out.Flush(); err != nil {
			panic(err)
		}
		return
	}
	for _, raw := range hx.LoadCorpus(cfg.Corpus) {
		var r struct {
			Input input `json:"input"`
		}
		if json.Unmarshal(raw, &r) == nil && (r.Input.Method != "" || len(r.Input.Calls) > 0) {
			add(r.Input, "corpus")
		}
	}
	one := func(t input, c call) input { t.Calls = []call{c}; return t }

	// 1. the property's configuration set, one call each
	for _, ctor := range []bool{false, true} {
		for _, m := range methods {
			add(input{Nil: true, Ctor: ctor, Method: m}, "nil")
			add(input{Ctor: ctor, Method: m}, "none")
			add(input{Ctor: ctor, Set: all(), Method: m}, "all")
			for _, f := range methods {
				add(input{Ctor: ctor, Set: []string{f}, Method: m}, "single")
				add(input{Ctor: ctor, Set: without(f), Method: m}, "allbutone")
				if f != m {
					add(input{Ctor: ctor, Set: []string{f, m}, Method: m}, "pair")
				}
			}
		}
	}
	// 2. boundary argument values: the outcome may depend on the method's own field only,
	// whatever the arguments are
	for v := 1; v < len(intVariants); v++ {
		for _, ctor := range []bool{false, true} {
			for _, m := range methods {
				for _, t := range tablesFor(m) {
					t.Ctor = ctor
					add(one(t, call{Method: m, Variant: v}), "args")
				}
			}
		}
	}
	// 2b. cross-shaped argument values: every string / digest / descriptor / contents parameter of
	// every method takes every shape (a digest where a tag is expected, a URL where an upload id is,
	// ...), the other parameters other shapes (rotation) or the very same value
	for _, base := range []int{shapedBase, shapedEqual} {
		for k := range shapes {
			for _, m := range methods {
				for ti, t := range tablesFor(m) {
					if base == shapedEqual && ti == 5 {
						continue
					}
					t.Ctor = ti%2 == 1 || ti == 0
					if ti == 3 { // all but its own: with and without the constructor
						add(one(t, call{Method: m, Variant: base + k, Trav: "cs"}), "shaped-args")
						t.Ctor = false
					}
					add(one(t, call{Method: m, Variant: base + k, Trav: "cs"}), "shaped-args")
				}
			}
		}
	}
	// 2c. every combination of the main shapes over the parameters of a method
	for _, m := range methods {
		for _, code := range crossCodes(m) {
			c := call{Method: m, Variant: shapedCross + code, Trav: "cs"}
			add(one(input{Ctor: true}, c), "crossed-args")
			add(one(input{Set: without(m)}, c), "crossed-args")
			add(one(input{Ctor: true, Set: []string{m}}, c), "crossed-args")
		}
	}
	// 3. every kind of context: it is handed on untouched and never looked at
	for _, k := range ctxKinds[1:] {
		for _, ctor := range []bool{false, true} {
			for _, m := range methods {
				for _, t := range tablesFor(m) {
					t.Ctor = ctor
					add(one(t, call{Method: m, Ctx: k, Trav: "cs"}), "ctx")
				}
			}
		}
	}
	// 4. every kind of results from the field functions, under a live and a done context
	for res := 1; res <= 3; res++ {
		for _, k := range []string{"", "cancelled"} {
			for _, ctor := range []bool{false, true} {
				for _, m := range methods {
					for _, set := range [][]string{{m}, all(), {m, neighbour(m)}} {
						add(input{Ctor: ctor, Set: set, Calls: []call{{Method: m, Results: res, Ctx: k, Trav: "cs"}}}, "results")
					}
				}
			}
		}
	}
	// 5. the returned iterator traversed again and again, by every kind of consumer
	patterns := []string{"s", "a", "cc", "ccc", "cs", "sc", "ss", "ca", "ac", "aa", "csa", "sssc", "cccc"}
	for _, p := range patterns {
		for _, k := range []string{"", "cancelled", "late"} {
			for _, ctor := range []bool{false, true} {
				for _, m := range iterMethods {
					for ti, t := range tablesFor(m) {
						t.Ctor = ctor
						nres := 1
						if ti == 2 || ti == 4 {
							nres = 3 // the method's own field is set: vary what its iterator does
						}
						for res := 0; res < nres; res++ {
							add(one(t, call{Method: m, Ctx: k, Trav: p, Results: res}), "traversals")
						}
					}
				}
			}
		}
	}
	// 6. every kind of constructor result
	for ck := 1; ck <= 3; ck++ {
		for _, k := range []string{"", "cancelled"} {
			for _, m := range methods {
				for ti, t := range tablesFor(m) {
					if ti == 0 {
						continue
					}
					t.Ctor, t.CtorKind = true, ck
					add(one(t, call{Method: m, Ctx: k, Trav: "cc"}), "ctor-kinds")
				}
			}
		}
	}
	// 7. histories: the same table value called again and again
	rotCtx := []string{"", "cancelled", "value"}
	for _, ctor := range []bool{false, true} {
		for _, m := range methods {
			for _, t := range tablesFor(m) {
				t.Ctor = ctor
				for n := 2; n <= 3; n++ {
					var cs []call
					for i := 0; i < n; i++ {
						cs = append(cs, call{Method: m, Ctx: rotCtx[i%len(rotCtx)], Variant: i, Results: i, Trav: "cc"})
					}
					t.Calls = cs
					add(t, "repeat")
				}
			}
		}
	}
	// one method after another: what a call answers does not depend on the call before
	for _, a := range methods {
		for _, b := range methods {
			if a == b {
				continue
			}
			cs := []call{{Method: a, Trav: "c"}, {Method: b, Trav: "cs"}}
			for _, t := range []input{{Nil: true}, {}, {Ctor: true}, {Set: []string{a}}, {Ctor: true, Set: []string{b}}, {Set: without(b)}} {
				t.Calls = cs
				add(t, "after-another")
			}
		}
	}
	// all methods in a row, both ways round
	for _, ctor := range []bool{false, true} {
		var fw, bw []call
		for i := range methods {
			fw = append(fw, call{Method: methods[i], Trav: "cs"})
			bw = append(bw, call{Method: methods[len(methods)-1-i], Trav: "sc", Ctx: "cancelled"})
		}
		for _, t := range []input{{Nil: true}, {}, {Set: all()}, {Set: methods[:9]}, {Set: methods[9:]}} {
			t.Ctor = ctor
			t.Calls = fw
			add(t, "all-in-a-row")
			t.Calls = bw
			add(t, "all-in-a-row")
		}
	}
	// 8. random tables and random histories
	rnd := cfg.Rand()
	n := 1500
	if cfg.Thorough() {
		n = 40000
	}
	for i := 0; i < n; i++ {
		var set []string
		p := rnd.Float64()
		for _, f := range methods {
			if rnd.Float64() < p {
				set = append(set, f)
			}
		}
		in := input{Nil: rnd.Intn(12) == 0, Ctor: rnd.Intn(2) == 0, Set: set}
		if rnd.Intn(4) == 0 {
			in.CtorKind = rnd.Intn(4)
		}
		for j, nc := 0, 1+rnd.Intn(4); j < nc; j++ {
			c := call{Method: methods[rnd.Intn(len(methods))], Variant: rnd.Intn(len(intVariants))}
			if rnd.Intn(3) == 0 {
				c.Method = iterMethods[rnd.Intn(len(iterMethods))]
			}
			if rnd.Intn(2) == 0 {
				c.Ctx = ctxKinds[rnd.Intn(len(ctxKinds))]
			}
			if rnd.Intn(2) == 0 {
				c.Results = rnd.Intn(4)
			}
			for k, nt := 0, 1+rnd.Intn(4); k < nt; k++ {
				c.Trav += string("csa"[rnd.Intn(3)])
			}
			in.Calls = append(in.Calls, c)
		}
		add(in, "random")
	}
	// 8b. random tables x random histories over the cross-shaped argument values (a loop of its
	// own so that the draws of the loop above stay what they were)
	n = 500
	if cfg.Thorough() {
		n = 20000
	}
	for i := 0; i < n; i++ {
		var set []string
		p := rnd.Float64()
		for _, f := range methods {
			if rnd.Float64() < p {
				set = append(set, f)
			}
		}
		in := input{Nil: rnd.Intn(12) == 0, Ctor: rnd.Intn(2) == 0, Set: set}
		for j, nc := 0, 1+rnd.Intn(4); j < nc; j++ {
			c := call{Method: methods[rnd.Intn(len(methods))], Variant: shapedBase + rnd.Intn(len(shapes)), Trav: "c"}
			if rnd.Intn(3) == 0 {
				c.Variant += shapedEqual - shapedBase
			}
			if rnd.Intn(2) == 0 {
				c.Ctx = ctxKinds[rnd.Intn(len(ctxKinds))]
			}
			c.Results = rnd.Intn(4)
			in.Calls = append(in.Calls, c)
		}
		add(in, "random-shaped")
	}
	// 9. the tables called from several goroutines at once, in fresh processes (conc.go)
	concPhase(cfg, out, emitConc)
	if err := out.Flush(); err != nil {
		panic(err)
	}
}
