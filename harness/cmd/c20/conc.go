// Concurrent runs for C20: the same table values called from several goroutines at once, in a
// FRESH process each time.
//
// The property says a table never panics and that what a call answers depends on the method's own
// field only.  The sequential histories of main.go cannot see state the library keeps outside the
// table value (package-level variables, lazily filled caches, pools) or inside it without
// synchronisation: such state answers correctly call after call, and fails only when callers
// overlap, and then often only on the FIRST use in a process, while it is being filled in.  So
// every concurrent run is a child process (this binary, started with C20_CONC set) in which
// nothing of the library has run before the goroutines are released together at a barrier.  The
// driver builds this harness with -race (props/C20.json "race": true): an unsynchronised access
// the detector reports ends the child (halt_on_error), as does a fatal error of the runtime
// ("concurrent map writes"), a panic outside a call, a deadlock (timeout).  A child that does not
// hand back its observations is a failing input: every call of every goroutine of that run is
// recorded as a panic.
//
// A child that survives hands back, per goroutine, exactly what a sequential history gives (the
// same runHistory): the goroutine's calls with their context labels ("g<i>.ctx<j>:<kind>") and
// what it observed.  What the table's functions saw is attributed to the goroutine whose context
// label they received, so an answer built from another goroutine's call (its context, its
// constructor error, its results) is visible as such.
package main

import (
	"bytes"
	"context"
	"encoding/json"
	"fmt"
	"math/rand"
	"os"
	"os/exec"
	"path/filepath"
	"reflect"
	"runtime"
	"sort"
	"strings"
	"sync"
	"sync/atomic"
	"time"

	"cuelabs.dev/go/oci/ociregistry"
	"verif/harness/hx"
)

type tableSpec struct {
	Nil      bool     `json:"nil,omitempty"`
	Ctor     bool     `json:"ctor,omitempty"`
	CtorKind int      `json:"ctor_kind,omitempty"`
	Set      []string `json:"set,omitempty"`
}

// concSpec describes one concurrent run.  Goroutine g calls table Tables[g mod len] with the
// history history(g).
type concSpec struct {
	Tables []tableSpec `json:"tables"`
	// Base is the list of calls the histories are made from; Order says how: "same" = every
	// goroutine makes the calls of Base in order (the same method is first used by all of them at
	// once); "rotate" = goroutine g starts at call g*len(Base)/Goroutines of Base and wraps round
	// (different methods are first used at once); "random" = 1..len(Base) calls drawn from Base by a generator seeded
	// with Seed and g.
	Base       []call `json:"base"`
	Order      string `json:"order"`
	Seed       int64  `json:"seed,omitempty"`
	Goroutines int    `json:"goroutines"`
	// Index is the goroutine whose calls the case records.
	Index int `json:"index"`
}

func (s *concSpec) valid() bool {
	if len(s.Tables) == 0 || len(s.Base) == 0 || s.Goroutines < 1 || s.Goroutines > 256 || s.Index < 0 || s.Index >= s.Goroutines {
		return false
	}
	switch s.Order {
	case "same", "rotate", "random":
	default:
		return false
	}
	known := map[string]bool{}
	for _, m := range methods {
		known[m] = true
	}
	for _, c := range s.Base {
		if !known[c.Method] || c.Ctx == "background" {
			return false
		}
		ok := false
		for _, k := range ctxKinds {
			ok = ok || k == c.Ctx
		}
		if !ok {
			return false
		}
	}
	for _, t := range s.Tables {
		for _, f := range t.Set {
			if !known[f] {
				return false
			}
		}
	}
	return true
}

func (s *concSpec) history(g int) []call {
	n := len(s.Base)
	var cs []call
	switch s.Order {
	case "rotate":
		for i := 0; i < n; i++ {
			cs = append(cs, s.Base[(g*n/s.Goroutines+i)%n])
		}
	case "random":
		r := rand.New(rand.NewSource(s.Seed*1009 + int64(g)))
		for i, k := 0, 1+r.Intn(n); i < k; i++ {
			cs = append(cs, s.Base[r.Intn(n)])
		}
	default:
		cs = append(cs, s.Base...)
	}
	return cs
}

// inputOf is the case input of goroutine g: its table, its calls, and the run it was part of.
func (s *concSpec) inputOf(g int) input {
	t := s.Tables[g%len(s.Tables)]
	cp := *s
	cp.Index = g
	in := input{Nil: t.Nil, Ctor: t.Ctor, CtorKind: t.CtorKind, Set: append([]string{}, t.Set...), Calls: s.history(g), Conc: &cp}
	in.normalise()
	return in
}

func who(g int) string { return fmt.Sprintf("g%d.", g) }

type concResult struct {
	Steps    []string `json:"steps"`
	Obs      []string `json:"obs"`
	Observed []string `json:"observed"`
	Subject  int      `json:"subject"`
}

type concChildOut struct {
	Goroutines []concResult `json:"goroutines"`
	Stray      int64        `json:"stray"`
	Race       bool         `json:"race_detector"`
}

const (
	concEnv    = "C20_CONC"
	concOutEnv = "C20_CONC_OUT"
)

// concMain is the entry of a child process (before any flag parsing, before anything of the
// library has run).
func concMain() bool {
	js := os.Getenv(concEnv)
	if js == "" {
		return false
	}
	var spec concSpec
	if err := json.Unmarshal([]byte(js), &spec); err != nil || !spec.valid() {
		fmt.Fprintln(os.Stderr, "c20: bad concurrent run "+js)
		os.Exit(3)
	}
	worlds := make([]*world, len(spec.Tables))
	fvs := make([]reflect.Value, len(spec.Tables))
	for i := range spec.Tables {
		in := spec.inputOf(i)
		in.Calls, in.Conc = nil, nil
		worlds[i] = &world{in: in}
		fvs[i] = makeTable(worlds[i])
	}
	G := spec.Goroutines
	res := make([]concResult, G)
	// Everything a call needs is prepared before the goroutines start, so that between the
	// barrier and the call the goroutines do nothing that would order them.  With the orders
	// "same" and "rotate" all histories have the same length and the goroutines go in lockstep:
	// they meet at the barrier again before every call, so that the j-th calls overlap for every
	// j (with "same": every method is first used by all goroutines at once).  Random histories
	// meet before the first call only.
	bar := newBarrier(G)
	lockstep := spec.Order != "random"
	var done sync.WaitGroup
	for g := 0; g < G; g++ {
		in := spec.inputOf(g)
		a := &actor{}
		w, fv := worlds[g%len(worlds)], fvs[g%len(worlds)]
		ps := make([]*prepared, len(in.Calls))
		for i, c := range in.Calls {
			ps[i] = prepare(fv, who(g), i, c)
			w.actors.Store(ps[i].label, a)
		}
		done.Add(1)
		go func(g int) {
			defer done.Done()
			gate := func(i int) {
				if i == 0 || lockstep {
					bar.wait()
				}
			}
			var r concResult
			r.Steps, r.Obs, r.Observed, r.Subject = a.runPrepared(fv, who(g), in, ps, gate)
			res[g] = r
		}(g)
	}
	done.Wait()
	co := concChildOut{Goroutines: res, Race: raceEnabled}
	for _, w := range worlds {
		co.Stray += w.stray.Load()
	}
	b, _ := json.Marshal(co)
	if err := os.WriteFile(os.Getenv(concOutEnv), b, 0o644); err != nil {
		fmt.Fprintln(os.Stderr, "c20:", err)
		os.Exit(3)
	}
	return true
}

// barrier is a meeting point of n goroutines that can be used again and again.  The goroutines
// spin at first (then yield, then doze) rather than sleep, so that they mostly leave within
// nanoseconds of each other and the calls that follow really overlap: the library's own use of
// pools (fmt, reflect) orders calls that merely follow each other closely, and the race detector
// sees only calls that nothing orders.
type barrier struct {
	n     int32
	count atomic.Int32
	gen   atomic.Int32
}

func newBarrier(n int) *barrier { return &barrier{n: int32(n)} }

func (b *barrier) wait() {
	gen := b.gen.Load()
	if b.count.Add(1) == b.n {
		b.count.Store(0)
		b.gen.Add(1)
		return
	}
	for i := 0; b.gen.Load() == gen; i++ {
		switch {
		case i < 300:
		case i < 1500:
			runtime.Gosched()
		default:
			// somebody is late (the machine is busy): do not burn the processor it is waiting for
			time.Sleep(20 * time.Microsecond)
		}
	}
}

// one concurrent run as the parent saw it
type concRun struct {
	spec   concSpec
	died   bool
	why    string // how the child ended, with the end of what it wrote to stderr
	out    concChildOut
	millis int64
}

func tail(s string, n int) string {
	if len(s) > n {
		return "..." + s[len(s)-n:]
	}
	return s
}

// head keeps the start of a runtime report (the kind of failure and the first stack)
func head(s string, n int) string {
	if len(s) > n {
		return s[:n] + "..."
	}
	return s
}

var concSeq struct {
	sync.Mutex
	n int
}

// runConc makes the concurrent run in a fresh process.
func runConc(spec concSpec, dir string) concRun {
	concSeq.Lock()
	concSeq.n++
	n := concSeq.n
	concSeq.Unlock()
	r := concRun{spec: spec}
	spec.Index = 0
	js, _ := json.Marshal(spec)
	outFile := filepath.Join(dir, fmt.Sprintf("conc%04d_%d.json", n, os.Getpid()))
	os.Remove(outFile)
	defer os.Remove(outFile)
	exe, err := os.Executable()
	if err != nil {
		exe = os.Args[0]
	}
	ctx, cancel := context.WithTimeout(context.Background(), 90*time.Second)
	defer cancel()
	cmd := exec.CommandContext(ctx, exe)
	cmd.Env = append(os.Environ(), concEnv+"="+string(js), concOutEnv+"="+outFile,
		"GORACE=halt_on_error=1 exitcode=66 atexit_sleep_ms=0", "GOTRACEBACK=single")
	var stderr bytes.Buffer
	cmd.Stderr = &stderr
	t0 := time.Now()
	err = cmd.Run()
	r.millis = time.Since(t0).Milliseconds()
	if err == nil {
		var b []byte
		if b, err = os.ReadFile(outFile); err == nil {
			err = json.Unmarshal(b, &r.out)
		}
		if err == nil && len(r.out.Goroutines) != spec.Goroutines {
			err = fmt.Errorf("%d of %d goroutines reported", len(r.out.Goroutines), spec.Goroutines)
		}
	}
	if err != nil {
		r.died = true
		if ctx.Err() != nil {
			r.why = "the process did not finish (killed after 90 s): "
		}
		r.why += err.Error() + ": " + head(strings.TrimSpace(stderr.String()), 1200)
	}
	return r
}

// caseOf is the case of goroutine g of the run.  When the child died no observation came back:
// every call is recorded as a panic (the steps are rebuilt here, nothing of the library is called).
func (r *concRun) caseOf(g int) (in input, coq string, observed []string, subject int) {
	in = r.spec.inputOf(g)
	if !r.died {
		cr := r.out.Goroutines[g]
		return in, caseCoq(in, cr.Steps, cr.Obs), cr.Observed, cr.Subject
	}
	fv := reflect.ValueOf((*ociregistry.Funcs)(nil))
	var steps, obs []string
	for i, c := range in.Calls {
		label := ctxLabel(who(g), i, c)
		ctx, after := makeCtx(c.Ctx, label)
		_, _, s := prepStep(fv, label, ctx, c)
		after()
		steps = append(steps, s)
		obs = append(obs, "(SPanic)")
		observed = append(observed, "panic: the process of the concurrent run died")
	}
	return in, caseCoq(in, steps, obs), observed, 0
}

// ---- the plan ----

var labelledCtx = []string{"", "value", "deadline", "cancelled", "expired", "cause", "custom", "late"}

func baseAll() []call {
	var cs []call
	for _, m := range methods {
		cs = append(cs, call{Method: m, Trav: "cs"})
	}
	return cs
}

// every method, with the kinds of context, of results and of arguments going round
func baseMixed() []call {
	var cs []call
	for i, m := range methods {
		cs = append(cs, call{Method: m, Ctx: labelledCtx[i%len(labelledCtx)], Results: i % 4, Variant: i % len(intVariants),
			Trav: []string{"c", "sc", "a", "cca"}[i%4]})
	}
	return cs
}

func pick(ms []string, f func(i int) bool) []string {
	var r []string
	for i, m := range ms {
		if f(i) {
			r = append(r, m)
		}
	}
	return r
}

func concTableSets() [][]tableSpec {
	odd := pick(methods, func(i int) bool { return i%2 == 1 })
	even := pick(methods, func(i int) bool { return i%2 == 0 })
	return [][]tableSpec{
		{{Nil: true}},
		{{}},
		{{Nil: true}, {}},
		{{Ctor: true}},
		{{Nil: true, Ctor: true}, {Ctor: true}, {}},
		{{Set: methods[:9]}},
		{{Set: methods[9:], Ctor: true}},
		{{Set: odd}, {Set: even}},
		{{Nil: true}, {}, {Set: odd}, {Ctor: true, Set: even}},
		{{Set: all()}},
		{{Set: all(), Ctor: true}, {Set: all()}},
		{{Ctor: true, CtorKind: 1}, {Ctor: true, CtorKind: 2}, {Ctor: true, CtorKind: 3}},
		{{Set: []string{"GetBlob"}}, {Set: []string{"Referrers"}, Ctor: true}, {Set: without("Tags")}},
	}
}

type concPlanned struct {
	spec concSpec
	runs int
	kind string
}

func concPlan(cfg *hx.Config) []concPlanned {
	rnd := rand.New(rand.NewSource(cfg.Seed + 20))
	runs, gs := 2, []int{10, 9, 8}
	if cfg.Thorough() {
		runs, gs = 6, []int{64, 36, 32}
	}
	var plan []concPlanned
	for _, ts := range concTableSets() {
		plan = append(plan,
			concPlanned{concSpec{Tables: ts, Base: baseAll(), Order: "same", Goroutines: gs[0]}, runs, "all-same-order"},
			concPlanned{concSpec{Tables: ts, Base: baseAll(), Order: "rotate", Goroutines: gs[1]}, runs, "all-rotated"},
			concPlanned{concSpec{Tables: ts, Base: baseMixed(), Order: "random", Seed: 1 + rnd.Int63n(1 << 30), Goroutines: gs[2]}, runs, "random"})
	}
	// one method alone, first used by every goroutine at once: what the method keeps for itself
	// (a per-method variable filled in on first use) is only raced for in such a process
	// (every method on nil and empty tables; on the other tables a sample of the methods in the
	// quick tier)
	ms := all()
	rnd.Shuffle(len(ms), func(i, j int) { ms[i], ms[j] = ms[j], ms[i] })
	sampled := map[string]bool{}
	for i, m := range ms {
		sampled[m] = cfg.Thorough() || i < 5
	}
	sort.Strings(ms)
	for _, m := range ms {
		for ti, ts := range [][]tableSpec{{{Nil: true}, {}}, {{Ctor: true}, {Set: []string{neighbour(m)}}}, {{Set: []string{m}}, {Set: all(), Ctor: true}}} {
			if ti > 0 && !sampled[m] {
				continue
			}
			plan = append(plan, concPlanned{concSpec{Tables: ts, Base: []call{{Method: m, Trav: "cs"}, {Method: m, Ctx: "cancelled", Trav: "a"}},
				Order: "same", Goroutines: gs[0]}, runs, "one-method"})
		}
	}
	return plan
}

// concPhase makes the planned concurrent runs, a few processes at a time, and hands every
// goroutine's case to emit.
func concPhase(cfg *hx.Config, out *hx.Out, emit func(r *concRun, g int, origin string)) {
	plan := concPlan(cfg)
	type job struct {
		p   concPlanned
		res []concRun
	}
	jobs := make([]job, len(plan))
	sem := make(chan struct{}, 4)
	var wg sync.WaitGroup
	for i := range plan {
		jobs[i] = job{p: plan[i], res: make([]concRun, plan[i].runs)}
		for k := 0; k < plan[i].runs; k++ {
			wg.Add(1)
			sem <- struct{}{}
			go func(i, k int) {
				defer wg.Done()
				defer func() { <-sem }()
				jobs[i].res[k] = runConc(plan[i].spec, cfg.Out)
			}(i, k)
		}
	}
	wg.Wait()
	for _, j := range jobs {
		for k := range j.res {
			r := &j.res[k]
			out.Stats["concurrent_processes"]++
			out.Stats["concurrent_process_ms"] += int(r.millis)
			if r.died {
				out.Stats["concurrent_processes_died"]++
			} else if !r.out.Race {
				out.Stats["concurrent_processes_without_race_detector"]++
			}
			out.Stats["concurrent_stray_calls"] += int(r.out.Stray)
			for g := 0; g < r.spec.Goroutines; g++ {
				emit(r, g, "concurrent:"+j.p.kind)
			}
		}
	}
}

// replayConc re-runs the concurrent run a case came from, in fresh processes, until one of them
// shows the failure again (a run that overlaps differently may not), at most tries times.
func replayConc(spec concSpec, dir string, tries int) *concRun {
	var r concRun
	for i := 0; i < tries; i++ {
		r = runConc(spec, dir)
		if r.died {
			break
		}
		cr := r.out.Goroutines[spec.Index]
		bad := false
		for _, o := range cr.Obs {
			bad = bad || odd(o)
		}
		if bad {
			break
		}
	}
	return &r
}
