// Harness for C18: runs every method of the real ociclient against a scripted
// http.RoundTripper (arbitrary statuses, absent / empty / malformed / contradictory headers,
// empty / truncated / garbage / oversized bodies, sequences for the multi-request operations,
// page sizes <= 0) under recover with a watchdog, in a worker process whose death on a case is a
// panic of that case (see "isolation"), and writes what it saw together with the
// values the Go library functions the model treats as oracles take on the strings of the case.
package main

import (
	"bufio"
	"bytes"
	"context"
	"encoding/json"
	"errors"
	"fmt"
	"io"
	"math"
	"math/rand"
	"mime"
	"net/http"
	"net/url"
	"os"
	"os/exec"
	"sort"
	"strings"
	"sync"
	"time"

	"github.com/opencontainers/go-digest"
	ocispec "github.com/opencontainers/image-spec/specs-go/v1"

	"cuelabs.dev/go/oci/ociregistry"
	"cuelabs.dev/go/oci/ociregistry/ociclient"
	"cuelabs.dev/go/oci/ociregistry/ociref"
	"verif/harness/hx"
)

// ---------------------------------------------------------------- inputs

type Item struct {
	Fail     bool        `json:"fail,omitempty"`
	Status   int         `json:"status,omitempty"`
	Header   [][2]string `json:"header,omitempty"`
	CLen     int64       `json:"clen"`
	Body     []byte      `json:"body,omitempty"`
	Pad      int         `json:"pad,omitempty"` // that many bytes follow Body: 'x', or PadUnit over and over (cut at Pad bytes)
	PadUnit  []byte      `json:"pad_unit,omitempty"`
	BodyFail bool        `json:"body_fail,omitempty"`
}

func (it Item) data() []byte {
	if it.Pad == 0 {
		return it.Body
	}
	unit := it.PadUnit
	if len(unit) == 0 {
		unit = []byte{'x'}
	}
	return append(append([]byte{}, it.Body...), bytes.Repeat(unit, it.Pad/len(unit)+1)[:it.Pad]...)
}

type Wop struct {
	Op     string `json:"op"` // write close commit size chunksize cancel
	Data   []byte `json:"data,omitempty"`
	Digest string `json:"digest,omitempty"`
}

type Call struct {
	Op         string `json:"op"`
	Repo       string `json:"repo,omitempty"`
	Digest     string `json:"digest,omitempty"`
	Tag        string `json:"tag,omitempty"`
	From       string `json:"from,omitempty"`
	ID         string `json:"id,omitempty"`
	Media      string `json:"media,omitempty"`
	Start      string `json:"start,omitempty"`
	Art        string `json:"art,omitempty"`
	Contents   []byte `json:"contents,omitempty"`
	O0         int64  `json:"o0,omitempty"`
	O1         int64  `json:"o1,omitempty"`
	Offset     int64  `json:"offset,omitempty"`
	ChunkSize  int64  `json:"chunk_size,omitempty"`
	BufSz      int    `json:"bufsz,omitempty"`
	Budget     int    `json:"budget"` // -1 = the consumer never stops
	DescSize   int64  `json:"desc_size,omitempty"`
	Present    bool   `json:"present,omitempty"`
	Rewindable bool   `json:"rewindable,omitempty"`
	Data       []byte `json:"data,omitempty"`
	Wops       []Wop  `json:"wops,omitempty"`
	// Passes: a listing's sequence value is iterated again, once per entry, with that budget
	// (-1 = the consumer never stops), whatever the way the pass before ended (normal end, early
	// stop, an error yielded, items then an error)
	Passes []int `json:"passes,omitempty"`
}

type Input struct {
	Page   int    `json:"page"`
	Call   Call   `json:"call"`
	Script []Item `json:"script"`
}

// ---------------------------------------------------------------- observations

type D struct {
	Media, Digest string
	Size          int64
	Art           string
}

type Tok struct {
	K     string  `json:"k"` // panic hang ok eof err desc bytes int
	HTTP  *int    `json:"http,omitempty"`
	Code  *string `json:"code,omitempty"`
	Desc  *D      `json:"desc,omitempty"`
	Bytes []byte  `json:"bytes,omitempty"`
	Int   int64   `json:"int,omitempty"`
}

type ReqObs struct {
	Method string `json:"method"`
	Hdr    string `json:"hdr,omitempty"`
	CLen   int64  `json:"clen"`
	URL    string `json:"url"`
}

type Observed struct {
	Toks     []Tok    `json:"toks"`
	Reqs     []ReqObs `json:"reqs"`
	Reads    []int64  `json:"reads"`
	PanicVal string   `json:"panic,omitempty"`
	// More: what the later passes over the same sequence value gave (requests and reads are
	// the ones made during that pass)
	More []Observed `json:"more,omitempty"`
}

// ---------------------------------------------------------------- scripted transport

type body struct {
	data   []byte
	off    int
	fail   bool
	read   int64
	closed bool
}

func (b *body) Read(p []byte) (int, error) {
	if len(p) == 0 {
		return 0, nil
	}
	if b.off >= len(b.data) {
		if b.fail {
			return 0, io.ErrUnexpectedEOF
		}
		return 0, io.EOF
	}
	n := copy(p, b.data[b.off:])
	b.off += n
	b.read += int64(n)
	return n, nil
}

func (b *body) Close() error { b.closed = true; return nil }

type transport struct {
	script []Item
	i      int
	reqs   []ReqObs
	bodies []*body
}

func (t *transport) RoundTrip(req *http.Request) (*http.Response, error) {
	hdr := req.Header.Get("Content-Range")
	if hdr == "" {
		hdr = req.Header.Get("Range")
	}
	t.reqs = append(t.reqs, ReqObs{Method: req.Method, Hdr: hdr, CLen: req.ContentLength, URL: req.URL.String()})
	if t.i >= len(t.script) {
		t.bodies = append(t.bodies, nil)
		return nil, errors.New("script exhausted")
	}
	it := t.script[t.i]
	t.i++
	if it.Fail {
		t.bodies = append(t.bodies, nil)
		return nil, errors.New("scripted transport failure")
	}
	h := http.Header{}
	for _, kv := range it.Header {
		h[kv[0]] = append(h[kv[0]], kv[1])
	}
	b := &body{data: it.data(), fail: it.BodyFail}
	t.bodies = append(t.bodies, b)
	return &http.Response{
		Status:        fmt.Sprintf("%d %s", it.Status, http.StatusText(it.Status)),
		StatusCode:    it.Status,
		Proto:         "HTTP/1.1",
		ProtoMajor:    1,
		ProtoMinor:    1,
		Header:        h,
		Body:          b,
		ContentLength: it.CLen,
		Request:       req, // as http.Transport does
	}, nil
}

type opaqueReader struct{ r io.Reader }

func (o opaqueReader) Read(p []byte) (int, error) { return o.r.Read(p) }

// ---------------------------------------------------------------- running one case

func errTok(err error) Tok {
	t := Tok{K: "err"}
	var he ociregistry.HTTPError
	if errors.As(err, &he) {
		st := he.StatusCode()
		t.HTTP = &st
	}
	var oe ociregistry.Error
	if errors.As(err, &oe) {
		c := oe.Code()
		t.Code = &c
	}
	return t
}

func descTok(d ociregistry.Descriptor) Tok {
	return Tok{K: "desc", Desc: &D{Media: d.MediaType, Digest: string(d.Digest), Size: d.Size, Art: d.ArtifactType}}
}

func isListing(op string) bool { return op == "Repositories" || op == "Tags" || op == "Referrers" }

// execute runs the call; mark is called between two passes over a sequence value
func execute(c ociregistry.Interface, cl Call, toks *[]Tok, mark func()) {
	ctx := context.Background()
	add := func(t Tok) { *toks = append(*toks, t) }
	readAll := func(rd ociregistry.BlobReader, err error) {
		if err != nil {
			add(errTok(err))
			return
		}
		add(descTok(rd.Descriptor()))
		buf := make([]byte, cl.BufSz)
		var data []byte
		var end Tok
		for i := 0; ; i++ {
			if i > 1<<22 {
				end = Tok{K: "hang"}
				break
			}
			n, err := rd.Read(buf)
			data = append(data, buf[:n]...)
			if err == io.EOF {
				end = Tok{K: "eof"}
				break
			}
			if err != nil {
				end = errTok(err)
				break
			}
		}
		rd.Close()
		add(Tok{K: "bytes", Bytes: data})
		add(end)
	}
	descRes := func(d ociregistry.Descriptor, err error) {
		if err != nil {
			add(errTok(err))
		} else {
			add(descTok(d))
		}
	}
	unitRes := func(err error) {
		if err != nil {
			add(errTok(err))
		} else {
			add(Tok{K: "ok"})
		}
	}
	writerRes := func(w ociregistry.BlobWriter, err error) {
		if err != nil {
			add(errTok(err))
			return
		}
		for _, o := range cl.Wops {
			switch o.Op {
			case "write":
				n, err := w.Write(o.Data)
				if err != nil {
					add(errTok(err))
				} else {
					add(Tok{K: "int", Int: int64(n)})
				}
			case "close":
				if err := w.Close(); err != nil {
					add(errTok(err))
				} else {
					add(Tok{K: "int"})
				}
			case "commit":
				d, err := w.Commit(ociregistry.Digest(o.Digest))
				descRes(d, err)
			case "size":
				add(Tok{K: "int", Int: w.Size()})
			case "chunksize":
				add(Tok{K: "int", Int: int64(w.ChunkSize())})
			case "cancel":
				if err := w.Cancel(); err != nil {
					add(errTok(err))
				} else {
					add(Tok{K: "int"})
				}
			}
		}
		add(Tok{K: "int", Int: w.Size()})
		add(Tok{K: "int", Int: int64(w.ChunkSize())})
	}
	calls, budget := 0, cl.Budget
	more := func() bool {
		calls++
		return budget < 0 || calls <= budget
	}
	// passes iterates the sequence value, then again once per entry of cl.Passes
	passes := func(one func()) {
		one()
		add(Tok{K: "ok"})
		for _, b := range cl.Passes {
			mark()
			calls, budget = 0, b
			one()
			add(Tok{K: "ok"})
		}
	}
	switch cl.Op {
	case "GetBlob":
		readAll(c.GetBlob(ctx, cl.Repo, ociregistry.Digest(cl.Digest)))
	case "GetBlobRange":
		readAll(c.GetBlobRange(ctx, cl.Repo, ociregistry.Digest(cl.Digest), cl.O0, cl.O1))
	case "GetManifest":
		readAll(c.GetManifest(ctx, cl.Repo, ociregistry.Digest(cl.Digest)))
	case "GetTag":
		readAll(c.GetTag(ctx, cl.Repo, cl.Tag))
	case "ResolveBlob":
		descRes(c.ResolveBlob(ctx, cl.Repo, ociregistry.Digest(cl.Digest)))
	case "ResolveManifest":
		descRes(c.ResolveManifest(ctx, cl.Repo, ociregistry.Digest(cl.Digest)))
	case "ResolveTag":
		descRes(c.ResolveTag(ctx, cl.Repo, cl.Tag))
	case "PushBlob":
		var r io.Reader
		if cl.Present {
			if cl.Rewindable {
				r = bytes.NewReader(cl.Data)
			} else {
				r = opaqueReader{bytes.NewReader(cl.Data)}
			}
		}
		descRes(c.PushBlob(ctx, cl.Repo, ociregistry.Descriptor{MediaType: cl.Media, Digest: ociregistry.Digest(cl.Digest), Size: cl.DescSize}, r))
	case "PushBlobChunked":
		writerRes(c.PushBlobChunked(ctx, cl.Repo, int(cl.ChunkSize)))
	case "PushBlobChunkedResume":
		writerRes(c.PushBlobChunkedResume(ctx, cl.Repo, cl.ID, cl.Offset, int(cl.ChunkSize)))
	case "MountBlob":
		descRes(c.MountBlob(ctx, cl.From, cl.Repo, ociregistry.Digest(cl.Digest)))
	case "PushManifest":
		descRes(c.PushManifest(ctx, cl.Repo, cl.Tag, cl.Contents, cl.Media))
	case "DeleteBlob":
		unitRes(c.DeleteBlob(ctx, cl.Repo, ociregistry.Digest(cl.Digest)))
	case "DeleteManifest":
		unitRes(c.DeleteManifest(ctx, cl.Repo, ociregistry.Digest(cl.Digest)))
	case "DeleteTag":
		unitRes(c.DeleteTag(ctx, cl.Repo, cl.Tag))
	case "Repositories", "Tags":
		var seq ociregistry.Seq[string]
		if cl.Op == "Repositories" {
			seq = c.Repositories(ctx, cl.Start)
		} else {
			seq = c.Tags(ctx, cl.Repo, cl.Start)
		}
		passes(func() {
			seq(func(x string, err error) bool {
				if err != nil {
					add(errTok(err))
					return true
				}
				add(Tok{K: "bytes", Bytes: []byte(x)})
				return more()
			})
		})
	case "Referrers":
		seq := c.Referrers(ctx, cl.Repo, ociregistry.Digest(cl.Digest), cl.Art)
		passes(func() {
			seq(func(d ociregistry.Descriptor, err error) bool {
				if err != nil {
					add(errTok(err))
					return true
				}
				add(descTok(d))
				return more()
			})
		})
	default:
		panic("harness: unknown op " + cl.Op)
	}
}

const host = "registry.example"

func runCaseLocal(in Input) Observed {
	tr := &transport{script: in.Script}
	c, err := ociclient.New(host, &ociclient.Options{Transport: tr, ListPageSize: in.Page})
	if err != nil {
		panic(err)
	}
	var toks []Tok
	var pval string
	// where each later pass starts: index into toks, into the request log
	type cut struct{ tok, req int }
	var cuts []cut
	mark := func() { cuts = append(cuts, cut{len(toks), len(tr.reqs)}) }
	done := make(chan struct{})
	go func() {
		defer close(done)
		panicked, val := hx.Recover(func() { execute(c, in.Call, &toks, mark) })
		if panicked {
			pval = val
			if !isListing(in.Call.Op) {
				toks = nil
			}
			toks = append(toks, Tok{K: "panic"})
		}
	}()
	select {
	case <-done:
	case <-time.After(10 * time.Second):
		return Observed{Toks: []Tok{{K: "hang"}}, Reqs: append([]ReqObs{}, tr.reqs...), Reads: make([]int64, len(tr.reqs))}
	}
	reads := make([]int64, len(tr.bodies))
	for i, b := range tr.bodies {
		if b != nil {
			reads[i] = b.read
		}
	}
	if len(cuts) == 0 {
		return Observed{Toks: toks, Reqs: tr.reqs, Reads: reads, PanicVal: pval}
	}
	cuts = append(cuts, cut{len(toks), len(tr.reqs)})
	ob := Observed{Toks: toks[:cuts[0].tok], Reqs: tr.reqs[:cuts[0].req], Reads: reads[:cuts[0].req], PanicVal: pval}
	for i := 0; i+1 < len(cuts); i++ {
		a, b := cuts[i], cuts[i+1]
		ob.More = append(ob.More, Observed{Toks: toks[a.tok:b.tok], Reqs: tr.reqs[a.req:b.req], Reads: reads[a.req:b.req]})
	}
	return ob
}

// ---------------------------------------------------------------- isolation
//
// recover() does not catch everything a client operation can do to the process: an absurd
// allocation ("fatal error: runtime: out of memory"), unbounded recursion (stack overflow),
// a concurrent map write or a deadlock kill the whole program.  The cases are therefore run in
// a worker process (this binary again, with workerEnv set) that answers one case per line; when
// the worker dies on a case, that case is recorded as a panic with what the runtime wrote, the
// worker is started again and the exploration goes on.

const workerEnv = "C18_WORKER"

func workerMain() {
	rd := bufio.NewReaderSize(os.Stdin, 1<<20)
	wr := bufio.NewWriter(os.Stdout)
	for {
		line, err := rd.ReadBytes('\n')
		if len(bytes.TrimSpace(line)) > 0 {
			var in Input
			if e := json.Unmarshal(line, &in); e != nil {
				fmt.Fprintln(os.Stderr, "worker: bad input:", e)
				os.Exit(3)
			}
			js, e := json.Marshal(runCaseLocal(in))
			if e != nil {
				fmt.Fprintln(os.Stderr, "worker: cannot encode:", e)
				os.Exit(3)
			}
			wr.Write(js)
			wr.WriteByte('\n')
			wr.Flush()
		}
		if err != nil {
			return
		}
	}
}

// tail keeps the first 2 KiB of what the worker writes to stderr (the runtime's
// "fatal error: ..." line comes first)
type tail struct {
	mu  sync.Mutex
	buf []byte
}

func (t *tail) Write(p []byte) (int, error) {
	t.mu.Lock()
	if room := 2048 - len(t.buf); room > 0 {
		if len(p) < room {
			room = len(p)
		}
		t.buf = append(t.buf, p[:room]...)
	}
	t.mu.Unlock()
	return len(p), nil
}

func (t *tail) String() string {
	t.mu.Lock()
	defer t.mu.Unlock()
	return string(t.buf)
}

type worker struct {
	cmd   *exec.Cmd
	in    io.WriteCloser
	lines chan []byte
	errs  *tail
}

var (
	theWorker    *worker
	workerDeaths int
)

func startWorker() *worker {
	exe, err := os.Executable()
	if err != nil {
		panic(err)
	}
	cmd := exec.Command(exe)
	cmd.Env = append(os.Environ(), workerEnv+"=1")
	in, err := cmd.StdinPipe()
	if err != nil {
		panic(err)
	}
	out, err := cmd.StdoutPipe()
	if err != nil {
		panic(err)
	}
	w := &worker{cmd: cmd, in: in, lines: make(chan []byte, 1), errs: &tail{}}
	cmd.Stderr = w.errs
	if err := cmd.Start(); err != nil {
		panic(err)
	}
	go func() {
		rd := bufio.NewReaderSize(out, 1<<20)
		for {
			line, err := rd.ReadBytes('\n')
			if err != nil {
				close(w.lines)
				return
			}
			w.lines <- line
		}
	}()
	return w
}

func (w *worker) stop() {
	w.in.Close()
	w.cmd.Process.Kill()
	w.cmd.Wait()
}

func stopWorker() {
	if theWorker != nil {
		theWorker.stop()
		theWorker = nil
	}
}

func runCase(in Input) Observed {
	if theWorker == nil {
		theWorker = startWorker()
	}
	w := theWorker
	js, err := json.Marshal(in)
	if err != nil {
		panic(err)
	}
	w.in.Write(append(js, '\n'))
	select {
	case line, ok := <-w.lines:
		if ok {
			var ob Observed
			if err := json.Unmarshal(line, &ob); err != nil {
				panic(err)
			}
			for _, t := range ob.Toks {
				if t.K == "hang" {
					stopWorker() // a goroutine is still spinning in there
					break
				}
			}
			return ob
		}
		// the worker died on this case
		werr := w.cmd.Wait()
		theWorker = nil
		workerDeaths++
		msg := strings.TrimSpace(w.errs.String())
		if i := strings.Index(msg, "\n\n"); i >= 0 {
			msg = msg[:i]
		}
		return Observed{Toks: []Tok{{K: "panic"}}, PanicVal: fmt.Sprintf("process died (%v): %s", werr, msg)}
	case <-time.After(40 * time.Second):
		stopWorker()
		return Observed{Toks: []Tok{{K: "hang"}}, PanicVal: "worker did not answer"}
	}
}

// ---------------------------------------------------------------- oracles and the Coq term

var kindIndex = map[string]int{
	"GetBlob": 1, "GetBlobRange": 1, "ResolveBlob": 2, "DeleteBlob": 3,
	"PushBlob": 4, "PushBlobChunked": 4, "MountBlob": 6,
	"GetManifest": 10, "GetTag": 10, "ResolveManifest": 11, "ResolveTag": 11, "PushManifest": 12,
	"DeleteManifest": 13, "DeleteTag": 13, "Tags": 14, "Referrers": 15, "Repositories": 16,
}

func argsOK(in Input) bool {
	cl := in.Call
	k, ok := kindIndex[cl.Op]
	if !ok {
		return true // PushBlobChunkedResume constructs no ocirequest
	}
	dig := cl.Digest
	switch cl.Op {
	case "PushBlob", "PushBlobChunked", "GetTag", "ResolveTag", "DeleteTag", "Tags", "Repositories":
		dig = ""
	case "PushManifest":
		dig = string(digest.FromBytes(cl.Contents))
	}
	repo := cl.Repo
	if cl.Op == "Repositories" {
		repo = ""
	}
	return ociclient.VerifConstructOK(k, repo, dig, cl.Tag, cl.From, in.Page, cl.Start)
}

func meth(m string) string {
	switch m {
	case "GET":
		return "MGet"
	case "HEAD":
		return "MHead"
	case "POST":
		return "MPost"
	case "PUT":
		return "MPut"
	case "PATCH":
		return "MPatch"
	case "DELETE":
		return "MDelete"
	}
	return "MGet (* " + m + " *)"
}

// Strings that occur in many cases are written once, as top-level definitions in the
// preamble of every shard; bs renders a string through that dictionary.
var (
	counting bool
	freq     = map[string]int{}
	dict     = map[string]string{}
)

func bs(s string) string {
	if counting {
		freq[s]++
		return ""
	}
	if n, ok := dict[s]; ok {
		return n
	}
	return hx.B(s)
}

func bsb(b []byte) string { return bs(string(b)) }

func bss(ss []string) string {
	out := make([]string, len(ss))
	for i, s := range ss {
		out[i] = bs(s)
	}
	return hx.List(out)
}

func natS(n int) string { return fmt.Sprintf("%d%%nat", n) }

func descCoq(d D) string {
	return "(mkd " + bs(d.Media) + " " + bs(d.Digest) + " " + hx.Z(d.Size) + " " + bs(d.Art) + ")"
}

func optZ(p *int) string {
	if p == nil {
		return "None"
	}
	return "(Some " + hx.Z(int64(*p)) + ")"
}

func optB(p *string) string {
	if p == nil {
		return "None"
	}
	return "(Some " + bs(*p) + ")"
}

func firstHeader(it Item, key string) string {
	for _, kv := range it.Header {
		if kv[0] == key {
			return kv[1]
		}
	}
	return ""
}

func algOf(d string) string {
	i := strings.Index(d, ":")
	if i < 0 {
		return ""
	}
	return d[:i]
}

type builder struct {
	lets  []string
	names map[string]string
}

// share gives a name to a (possibly large) byte string so that it is written once
func (b *builder) share(data []byte, body string, pad int, unit []byte) string {
	key := string(data)
	if n, ok := b.names[key]; ok {
		return n
	}
	if len(data) < 24 {
		return bsb(data)
	}
	n := fmt.Sprintf("b%d", len(b.names))
	term := bs(body)
	if pad > 0 {
		switch len(unit) {
		case 0:
			term = "(" + term + " ++ rep " + fmt.Sprint(pad) + "%N 120%N)"
		case 1:
			term = "(" + term + " ++ rep " + fmt.Sprint(pad) + "%N " + fmt.Sprint(int(unit[0])) + "%N)"
		default:
			term = "(" + term + " ++ repu " + fmt.Sprint(pad) + "%N " + bsb(unit) + ")"
		}
	}
	b.lets = append(b.lets, "let "+n+" := "+term+" in ")
	b.names[key] = n
	return n
}

func (b *builder) bytes(data []byte) string {
	if n, ok := b.names[string(data)]; ok {
		return n
	}
	return bsb(data)
}

func coqCase(in Input, ob Observed) string {
	b := &builder{names: map[string]string{}}
	cl := in.Call
	// oracles
	var badURLs, unrooted, valid []string
	seenU := map[string]bool{}
	tryURL := func(s string) {
		if s == "" || seenU[s] {
			return
		}
		seenU[s] = true
		u, err := url.Parse(s)
		if err != nil {
			badURLs = append(badURLs, s)
		} else if !strings.HasPrefix(u.Path, "/") {
			unrooted = append(unrooted, s)
		}
	}
	seenD := map[string]bool{}
	algs := map[string]bool{"sha256": true}
	tryDigest := func(d string) {
		if d == "" || seenD[d] {
			return
		}
		seenD[d] = true
		if ociref.IsValidDigest(d) {
			valid = append(valid, d)
			algs[algOf(d)] = true
		}
	}
	tryURL(cl.ID)
	tryDigest(cl.Digest)
	for _, o := range cl.Wops {
		tryDigest(o.Digest)
	}
	var srs []string
	type hashEnt struct{ alg, data, hex string }
	var hashes []string
	hashed := map[string]bool{}
	addHash := func(data []byte, name string) {
		for _, alg := range []string{"sha256", "sha384", "sha512"} {
			if !algs[alg] || hashed[alg+"\x00"+string(data)] {
				continue
			}
			hashed[alg+"\x00"+string(data)] = true
			hexd := digest.Algorithm(alg).FromBytes(data).Encoded()
			hashes = append(hashes, "("+bs(alg)+", "+name+", "+bs(hexd)+")")
		}
	}
	for _, it := range in.Script {
		if it.Fail {
			continue
		}
		tryDigest(firstHeader(it, "Docker-Content-Digest"))
		loc := firstHeader(it, "Location")
		tryURL(loc)
		if link := firstHeader(it, "Link"); strings.HasPrefix(link, "<") {
			if inner, _, ok := strings.Cut(link[1:], ">"); ok {
				tryURL(inner)
			}
		}
	}
	for _, it := range in.Script {
		if it.Fail {
			srs = append(srs, "(Build_sresp None [] None None None)")
			continue
		}
		data := it.data()
		name := b.share(data, string(it.Body), it.Pad, it.PadUnit)
		addHash(data, name)
		var hs []string
		for _, kv := range it.Header {
			hs = append(hs, "("+bs(kv[0])+", "+bs(kv[1])+")")
		}
		media, _, _ := mime.ParseMediaType(firstHeader(it, "Content-Type"))
		jerr := "None"
		var we ociregistry.WireErrors
		if json.Unmarshal(data, &we) == nil {
			var es []string
			for _, e := range we.Errors {
				es = append(es, "(mkw "+bs(e.Code_)+" "+bs(e.Message)+")")
			}
			jerr = "(Some " + hx.List(es) + ")"
		}
		jnames := "None"
		switch cl.Op {
		case "Repositories":
			var v struct {
				Repos []string `json:"repositories"`
			}
			if json.Unmarshal(data, &v) == nil {
				jnames = "(Some " + bss(v.Repos) + ")"
			}
		case "Tags":
			var v struct {
				Repo string   `json:"name"`
				Tags []string `json:"tags"`
			}
			if json.Unmarshal(data, &v) == nil {
				jnames = "(Some " + bss(v.Tags) + ")"
			}
		}
		jindex := "None"
		if cl.Op == "Referrers" {
			var v ocispec.Index
			if json.Unmarshal(data, &v) == nil {
				var ds []string
				for _, m := range v.Manifests {
					ds = append(ds, descCoq(D{m.MediaType, string(m.Digest), m.Size, m.ArtifactType}))
				}
				jindex = "(Some " + hx.List(ds) + ")"
			}
		}
		srs = append(srs, "(Build_sresp (Some (mkresp "+hx.Z(int64(it.Status))+" "+hx.List(hs)+" "+hx.Z(it.CLen)+" "+name+" "+hx.Bool(it.BodyFail)+")) "+
			bs(media)+" "+jerr+" "+jnames+" "+jindex+")")
	}
	if cl.Op == "PushManifest" {
		name := b.share(cl.Contents, string(cl.Contents), 0, nil)
		addHash(cl.Contents, name)
	}
	// call
	var wops []string
	for _, o := range cl.Wops {
		switch o.Op {
		case "write":
			wops = append(wops, "(WoWrite "+bsb(o.Data)+")")
		case "close":
			wops = append(wops, "WoClose")
		case "commit":
			wops = append(wops, "(WoCommit "+bs(o.Digest)+")")
		case "size":
			wops = append(wops, "WoSize")
		case "chunksize":
			wops = append(wops, "WoChunkSize")
		case "cancel":
			wops = append(wops, "WoCancel")
		}
	}
	budget := "None"
	if cl.Budget >= 0 {
		budget = "(Some " + natS(cl.Budget) + ")"
	}
	var call string
	switch cl.Op {
	case "GetBlob":
		call = "(CGetBlob " + bs(cl.Repo) + " " + bs(cl.Digest) + " " + natS(cl.BufSz) + ")"
	case "GetBlobRange":
		call = "(CGetBlobRange " + bs(cl.Repo) + " " + bs(cl.Digest) + " " + hx.Z(cl.O0) + " " + hx.Z(cl.O1) + " " + natS(cl.BufSz) + ")"
	case "GetManifest":
		call = "(CGetManifest " + bs(cl.Repo) + " " + bs(cl.Digest) + " " + natS(cl.BufSz) + ")"
	case "GetTag":
		call = "(CGetTag " + bs(cl.Repo) + " " + bs(cl.Tag) + " " + natS(cl.BufSz) + ")"
	case "ResolveBlob":
		call = "(CResolveBlob " + bs(cl.Repo) + " " + bs(cl.Digest) + ")"
	case "ResolveManifest":
		call = "(CResolveManifest " + bs(cl.Repo) + " " + bs(cl.Digest) + ")"
	case "ResolveTag":
		call = "(CResolveTag " + bs(cl.Repo) + " " + bs(cl.Tag) + ")"
	case "PushBlob":
		call = "(CPushBlob " + bs(cl.Repo) + " " + descCoq(D{cl.Media, cl.Digest, cl.DescSize, ""}) + " " + hx.Bool(cl.Present) + " " + hx.Bool(cl.Rewindable) + " " + bsb(cl.Data) + ")"
	case "PushBlobChunked":
		call = "(CPushBlobChunked " + bs(cl.Repo) + " " + hx.Z(cl.ChunkSize) + " " + hx.List(wops) + ")"
	case "PushBlobChunkedResume":
		call = "(CPushBlobChunkedResume " + bs(cl.Repo) + " " + bs(cl.ID) + " " + hx.Z(cl.Offset) + " " + hx.Z(cl.ChunkSize) + " " + hx.List(wops) + ")"
	case "MountBlob":
		call = "(CMountBlob " + bs(cl.From) + " " + bs(cl.Repo) + " " + bs(cl.Digest) + ")"
	case "PushManifest":
		call = "(CPushManifest " + bs(cl.Repo) + " " + bs(cl.Tag) + " " + b.bytes(cl.Contents) + " " + bs(cl.Media) + ")"
	case "DeleteBlob":
		call = "(CDeleteBlob " + bs(cl.Repo) + " " + bs(cl.Digest) + ")"
	case "DeleteManifest":
		call = "(CDeleteManifest " + bs(cl.Repo) + " " + bs(cl.Digest) + ")"
	case "DeleteTag":
		call = "(CDeleteTag " + bs(cl.Repo) + " " + bs(cl.Tag) + ")"
	case "Repositories":
		call = "(CRepositories " + bs(cl.Start) + " " + budget + ")"
	case "Tags":
		call = "(CTags " + bs(cl.Repo) + " " + bs(cl.Start) + " " + budget + ")"
	case "Referrers":
		call = "(CReferrers " + bs(cl.Repo) + " " + bs(cl.Digest) + " " + bs(cl.Art) + " " + budget + ")"
	}
	// observed
	var toks []string
	for _, t := range ob.Toks {
		switch t.K {
		case "panic":
			toks = append(toks, "TPanic")
		case "hang":
			toks = append(toks, "THang")
		case "ok":
			toks = append(toks, "TOk")
		case "eof":
			toks = append(toks, "TEOF")
		case "err":
			toks = append(toks, "(TErr "+optZ(t.HTTP)+" "+optB(t.Code)+")")
		case "desc":
			toks = append(toks, "(TDesc "+descCoq(*t.Desc)+")")
		case "bytes":
			toks = append(toks, "(TBytes "+b.bytes(t.Bytes)+")")
		case "int":
			toks = append(toks, "(TInt "+hx.Z(t.Int)+")")
		}
	}
	var reqs []string
	for _, r := range ob.Reqs {
		reqs = append(reqs, "("+meth(r.Method)+", "+bs(r.Hdr)+", "+hx.Z(r.CLen)+")")
	}
	var reads []string
	for _, n := range ob.Reads {
		reads = append(reads, hx.Z(n))
	}
	return "(" + strings.Join(b.lets, "") + "Build_case " + hx.Z(int64(in.Page)) + " " + call + " " + hx.List(srs) + " " + hx.Bool(argsOK(in)) + " " +
		bss(badURLs) + " " + bss(unrooted) + " " + bss(valid) + " " + hx.List(hashes) +
		" (Build_observed " + hx.List(toks) + " " + hx.List(reqs) + " " + hx.List(reads) + "))"
}

// ---------------------------------------------------------------- generation

const (
	repoOK = "foo/bar"
	tagOK  = "v1.2"
	locOK  = "/v2/foo/bar/blobs/uploads/abc123"
)

var hexA = strings.Repeat("a", 64)
var digOK = "sha256:" + hexA

func dig256(b []byte) string { return string(digest.FromBytes(b)) }

func hdr(kv ...string) [][2]string {
	var h [][2]string
	for i := 0; i+1 < len(kv); i += 2 {
		h = append(h, [2]string{kv[i], kv[i+1]})
	}
	return h
}

// with returns a copy of h where key has the given values (none = absent)
func with(h [][2]string, key string, vals ...string) [][2]string {
	var out [][2]string
	for _, kv := range h {
		if kv[0] != key {
			out = append(out, kv)
		}
	}
	for _, v := range vals {
		out = append(out, [2]string{key, v})
	}
	return out
}

var statuses = []int{200, 201, 202, 204, 206, 301, 302, 303, 307, 308, 400, 401, 403, 404, 405, 416, 429, 500, 503, 0, -200, 99, 199, 299, 600, 2000}

var errorBodies = []Item{
	{Status: 404, Header: hdr("Content-Type", "application/json"), CLen: -1, Body: []byte(`{"errors":[{"code":"NAME_UNKNOWN","message":"repository name not known to registry"}]}`)},
	{Status: 404, Header: hdr("Content-Type", "application/json; charset=utf-8"), CLen: -1, Body: []byte(`{"errors":[{"code":"BLOB_UNKNOWN","message":"x","detail":{"a":1}},{"code":"DENIED","message":"y"}]}`)},
	{Status: 401, Header: hdr("Content-Type", "application/vnd.x+json"), CLen: -1, Body: []byte(`{"errors":[{"code":"UNAUTHORIZED","message":"authentication required"}]}`)},
	{Status: 400, Header: hdr("Content-Type", "application/json"), CLen: -1, Body: []byte(`{"errors":[]}`)},
	{Status: 400, Header: hdr("Content-Type", "application/json"), CLen: -1, Body: []byte(`{"errors":null}`)},
	{Status: 500, Header: hdr("Content-Type", "application/json"), CLen: -1, Body: []byte(`{"errors":[{"code":"UNK`)},
	{Status: 500, Header: hdr("Content-Type", "application/json"), CLen: -1, Body: []byte(`{"errors":[{"code":"UNK`), BodyFail: true},
	{Status: 500, Header: hdr("Content-Type", "text/html"), CLen: -1, Body: []byte(`<html>oops</html>`)},
	{Status: 500, CLen: -1, Body: nil},
	{Status: 416, Header: hdr("Content-Type", "application/json"), CLen: -1, Body: []byte(`{"errors":[{"code":"RANGE_INVALID","message":"bad range"}]}`)},
	{Status: 416, Header: hdr("Content-Type", "garbage;;;"), CLen: 0, Body: nil},
	{Status: 429, Header: hdr("Content-Type", "application/json"), CLen: -1, Body: []byte(`{"errors":[{"code":"TOOMANYREQUESTS","message":"slow down"}]}`), Pad: 0},
	{Status: 403, Header: hdr("Content-Type", "application/json"), CLen: 8300, Body: []byte(`{"errors":[{"code":"DENIED","message":"`), Pad: 8200},
	{Status: 403, Header: hdr("Content-Type", "application/json"), CLen: -1, Body: []byte(`{"errors":[{"code":"DENIED","message":"`), Pad: 8153},
	{Status: 403, Header: hdr("Content-Type", "application/json"), CLen: -1, Body: []byte(`{"errors":[{"code":"DENIED","message":"`), Pad: 8154, BodyFail: true},
	{Status: 403, Header: hdr("Content-Type", "application/json"), CLen: -1, Body: []byte(`{"errors":[{"code":"DENIED","message":"`), Pad: 20000},
	{Status: 502, Header: hdr("Content-Type", "application/json"), CLen: -1, Body: []byte("\x00\x01\x02{]")},
	{Status: 404, Header: hdr("Content-Type", "application/json"), CLen: -1, Body: []byte(`null`)},
	{Status: 404, Header: hdr("Content-Type", "application/json"), CLen: -1, Body: []byte(`{"errors":[{"code":5}]}`)},
	{Status: 404, Header: hdr("Content-Type", "application/json", "Content-Type", "text/plain"), CLen: -1, Body: []byte(`{"errors":[{"code":"MANIFEST_UNKNOWN","message":"m"}]}`)},
	{Status: 404, Header: hdr("Content-Type", "application/x+json+y"), CLen: -1, Body: []byte(`{"errors":[{"code":"CUSTOM_CODE","message":"m"}]}`)},
	{Status: 404, Header: hdr("Content-Type", "application/json"), CLen: math.MaxInt64, Body: []byte(`{"errors":[{"code":"NAME_UNKNOWN","message":"m"}]}`)},
	{Status: 500, Header: hdr("Content-Type", "text/plain"), CLen: 1 << 40, Body: []byte(`oops`)},
	{Status: 403, Header: hdr("Content-Type", "application/json"), CLen: math.MinInt64, Body: []byte(`{"errors":[{"code":"DENIED","message":"m"}]}`)},
	{Status: 503, CLen: 1 << 62, Body: nil},
}

var locations = []string{"", locOK, "https://other.example/up?x=1", "relative/path", "?q=1", "%zz", "http://[::1", ":bad", "mailto:x", "/a b", "//host/p?", "/p?digest=x", " ", "\t"}
var ranges = []string{"", "0-9", "0-0", "5-9", "0-", "-5", "0--5", "bytes=0-9", "0-9223372036854775807", "0-9223372036854775806", "0-99999999999999999999", "a-b", "0-9-3", "+0-+9", "0-1_0", "00-09", " 0-9", " ", "\t"}
var links = []string{"", `</v2/_catalog?n=2&last=b>; rel="next"`, "<next", "nobracket", "<>", "<%zz>", "<http://[::1>", "</v2/x>", "<?n=1>", "< >", " ", "\t", " <", "<\t>; rel=\"next\""}
var chunkMins = []string{"", "10", "0", "-5", "abc", "9223372036854775807", "9223372036854775808", "99999999999999999999", "1_000", "+7", " 7", "7 ", "0x10", "100000", " ", "\t"}
var contentTypes = []string{"", "application/json", "application/vnd.oci.image.manifest.v1+json", "text/plain", "garbage;;;", "application/", "a/b; x=\"", "APPLICATION/JSON", " ", "\t", " application/json ", ";", "/"}
var contentRanges = []string{"", "bytes 0-4/5", "0-4/5", "bytes 0-4", "bytes 0-4/", "bytes 0-4/x", "bytes 0-4/-5", "bytes 0-4/99999999999999999999", "/", "bytes */5", "bytes 0-4/5/6", "bytes 0-4/+5", "bytes 0-4/ 5", "bytes 0-4/9223372036854775807", " ", "\t", "bytes ", "bytes -/"}

func digests(body []byte) []string {
	return []string{"", dig256(body), digOK, string(digest.SHA512.FromBytes(body)), string(digest.SHA384.FromBytes(body)),
		"sha256:abc", "md5:d41d8cd98f00b204e9800998ecf8427e", "nocolon", ":abc", "sha256:" + strings.Repeat("g", 64), "sha256:" + strings.ToUpper(hexA), "sha999:" + hexA, " ", "\t", ":", " :" + hexA, "sha256: "}
}

func clens(n int) []int64 {
	return []int64{int64(n), -1, 0, int64(n) + 10, int64(n) - 1, 131072, 131073, 1 << 40, math.MaxInt64, -2,
		math.MaxInt64 - 1, 1 << 62, math.MinInt64, math.MaxInt32, math.MaxInt32 + 1}
}

// the declared lengths no honest server sends: what a client that trusts Content-Length
// (allocates, slices or loops by it) trips over
var absurdCLens = []int64{1 << 40, math.MaxInt64, math.MaxInt64 - 1, 1 << 62, math.MinInt64, -2}

// bodies that are nothing but white space, or white space and then something: every decoder
// that trims before it looks (TrimSpace(b)[0], Fields(b)[0], b[len(b)-1]) meets its empty case here
var blankPrefixes = []string{"\n", "\r\n", " ", "\t", " \r\n\t \n", "\u00a0\u0085", "\v\f"}

// Content-Type absent, not JSON, JSON
var blankCTypes = []string{"", "text/plain", "application/json"}

func blankBodies(doc []byte) [][]byte {
	var out [][]byte
	for _, p := range blankPrefixes {
		out = append(out, []byte(p))
	}
	return append(out, []byte("\n\x00garbage\xff"), []byte(" \t{"), []byte("{ \n"),
		append([]byte(" \r\n"), doc...), append(append([]byte("\n"), doc...), " \n"...))
}


// Long bodies made of ONE class of bytes, at lengths around the powers of two where a client
// that quotes, truncates, sniffs or buffers a body has its limits.  A loop that looks for a rune
// start, a terminator, a printable byte or a quote and has only one bound runs off the end (or
// off the start) of such a body; mixed garbage always stops it early.
var byteClasses = [][]byte{
	{0x80}, {0xBF}, // UTF-8 continuation bytes
	{0xFF}, {0x00}, // never valid in UTF-8; NUL
	{0xC3}, {0xF0}, // lead bytes without continuation
	{0xED, 0xA0, 0x80},       // a surrogate half
	{0xC0, 0x80},             // over-long NUL
	{0xE2, 0x82, 0xAC},       // a valid 3-byte rune over and over: every limit that is not a multiple of 3 cuts one
	{0xF0, 0x9F, 0x98, 0x80}, // a valid 4-byte rune
	{'"'}, {'\\'}, {'\n'}, {'%'}, {' '},
}

var classLengths = []int{255, 256, 257, 511, 512, 513, 1023, 1024, 1025, 2047, 2048, 2049, 4095, 4096, 4097, 8191, 8192, 8193}

var classCTypes = []string{"", "text/plain", "application/json", "text/html; charset=utf-8", "application/octet-stream"}

// Standard and registry headers a client does not read today but might start reading (to log,
// to retry, to authenticate, to decode): their well-formed values; the pool of a key also has
// the truncated spellings of these, unbalanced quotes, blank, over-long and repeated values.
var extraWellFormed = [][]string{
	{"Warning", `299 - "deprecated API, use v2"`, `199 registry.example "miscellaneous warning" "Wed, 21 Oct 2015 07:28:00 GMT"`},
	{"Retry-After", "120", "Wed, 21 Oct 2015 07:28:00 GMT"},
	{"WWW-Authenticate", `Bearer realm="https://auth.example/token",service="registry.example",scope="repository:foo/bar:pull"`, `Basic realm="registry"`},
	{"Content-Encoding", "gzip", "identity"},
	{"Transfer-Encoding", "chunked"},
	{"ETag", `"abc123"`, `W/"abc"`},
	{"Date", "Wed, 21 Oct 2015 07:28:00 GMT"},
	{"Last-Modified", "Wed, 21 Oct 2015 07:28:00 GMT"},
	{"Location", locOK, "https://other.example/up?x=1"},
	{"OCI-Subject", digOK},
	{"OCI-Filters-Applied", "artifactType"},
	{"Docker-Distribution-API-Version", "registry/2.0"},
	{"Docker-Upload-UUID", "0f8fad5b-d9cb-469f-a165-70867728950e"},
	{"Accept-Ranges", "bytes"},
	{"Content-Disposition", `attachment; filename="blob.bin"`},
	{"Content-Length", "11", "-1"},
	{"Cache-Control", `max-age=60, private="x"`},
	{"RateLimit-Remaining", "100;w=21600"},
	{"Connection", "close"},
	{"Trailer", "Docker-Content-Digest"},
	{"Set-Cookie", `a="b"; Path=/; HttpOnly`},
	{"Content-Type", "application/json; charset=utf-8"},
	{"Docker-Content-Digest", digOK},
	{"Content-Range", "bytes 0-4/5"},
	{"Range", "0-9"},
	{"OCI-Chunk-Min-Length", "10"},
	{"Link", `</v2/_catalog?n=2&last=b>; rel="next"`},
}

var longTail = strings.Repeat("a", 4200)

type extraPool struct {
	key  string
	vals []string
}

var extraPools = func() []extraPool {
	var out []extraPool
	for _, e := range extraWellFormed {
		p := extraPool{key: http.CanonicalHeaderKey(e[0])}
		seen := map[string]bool{}
		add := func(v string) {
			if !seen[v] {
				seen[v] = true
				p.vals = append(p.vals, v)
			}
		}
		for _, v := range e[1:] {
			add(v)
		}
		for _, v := range e[1:] {
			for _, t := range truncations(v) {
				add(t)
			}
			// unbalanced quotes, brackets, separators doubled
			add(v + `"`)
			add(`"` + v)
			add(strings.ReplaceAll(v, `"`, ""))
			add(v + ",")
			add("," + v)
			add(v + ";")
			add(" " + v + " ")
		}
		add("")
		add(" ")
		add(`"`)
		add("\x00\xff")
		add(e[1] + longTail)
		if i := strings.IndexAny(e[1], `"=/ `); i >= 0 {
			add(e[1][:i+1] + longTail) // over-long right after the first separator, never closed
		}
		add(longTail)
		out = append(out, p)
	}
	return out
}()

func isRelevant(op, key string) bool {
	for _, k := range relevantHeaders(op) {
		if http.CanonicalHeaderKey(k) == key {
			return true
		}
	}
	return false
}

// extraHeaders adds, for every key the call does not look at, the k-th value of its pool
func extraHeaders(h [][2]string, op string, k int) [][2]string {
	out := append([][2]string{}, h...)
	for _, p := range extraPools {
		if isRelevant(op, p.key) {
			continue
		}
		out = with(out, p.key, p.vals[k%len(p.vals)])
	}
	return out
}

func maxExtraPool() int {
	n := 0
	for _, p := range extraPools {
		if len(p.vals) > n {
			n = len(p.vals)
		}
	}
	return n
}

var stdError = []byte(`{"errors":[{"code":"DENIED","message":"m"}]}`)

var blankStatuses = []int{502, 404, 400, 500, 301, 0, 99, 600, 307, 416, 401, 299 + 1}

func withCType(h [][2]string, ct string) [][2]string {
	if ct == "" {
		return with(h, "Content-Type")
	}
	return with(h, "Content-Type", ct)
}

type gen struct {
	out   *hx.Out
	rnd   *rand.Rand
	seen  map[string]bool
	pend  []pending
	hangs int
	nlist int
}

type pending struct {
	in     Input    // what goes to Coq: for a later pass, that pass as a call of its own
	ob     Observed // (see passCases)
	origin string
	kind   string
	full   Input    // what was run (and what a replay runs again)
	fullOb Observed
	pass   int
}

// defaultPasses: how the sequence value of a generated listing case is iterated again; the
// patterns rotate over the cases
var defaultPasses = [][]int{{-1}, {0, -1}, {1, -1, -1}, {-1, 2}}

// passCases splits a run into one case per pass.  A pass over the sequence value that
// Repositories / Tags returned is an operation of its own: it starts from the first request
// again, and the server goes on with the answers it has left, so it is the same call against
// the rest of the script.  The sequence value of Referrers holds what the one request made by
// the call gave: a pass sends nothing and yields what a call against the same answers yields.
func passCases(in Input, ob Observed) (ins []Input, obs []Observed) {
	first := ob
	first.More = nil
	one := in
	one.Call.Passes = nil
	ins, obs = append(ins, one), append(obs, first)
	used := len(ob.Reqs)
	for i, m := range ob.More {
		if i >= len(in.Call.Passes) {
			break
		}
		sub := one
		sub.Call.Budget = in.Call.Passes[i]
		if in.Call.Op == "Referrers" {
			m.Reqs = append(append([]ReqObs{}, ob.Reqs...), m.Reqs...)
			m.Reads = append(append([]int64{}, ob.Reads...), m.Reads...)
		} else {
			if used > len(in.Script) {
				used = len(in.Script)
			}
			sub.Script = in.Script[used:]
			used += len(m.Reqs)
		}
		ins, obs = append(ins, sub), append(obs, m)
	}
	return ins, obs
}

func (g *gen) add(in Input, origin string) {
	// a hung call leaves a spinning goroutine behind and costs a watchdog period: after three of
	// them the run stops exploring and reports what it has (each hang is a violating case)
	// (the same for cases that kill the worker process: each is a violating case)
	if g.hangs >= 3 || workerDeaths >= 20 {
		return
	}
	if in.Call.BufSz == 0 {
		in.Call.BufSz = 7
	}
	if isListing(in.Call.Op) && in.Call.Passes == nil && origin != "replay" && origin != "corpus" {
		in.Call.Passes = defaultPasses[g.nlist%len(defaultPasses)]
		g.nlist++
	}
	js, _ := json.Marshal(in)
	if g.seen[string(js)] {
		return
	}
	g.seen[string(js)] = true
	// the generators reuse and edit their slices: keep a private copy
	var own Input
	if err := json.Unmarshal(js, &own); err != nil {
		panic(err)
	}
	in = own
	fullOb := runCase(in)
	ins, obs := passCases(in, fullOb)
	for i := range ins {
		ob := obs[i]
		kind := "value"
		for _, t := range ob.Toks {
			if t.K == "err" {
				kind = "error"
			}
		}
		for _, t := range ob.Toks {
			if t.K == "panic" || t.K == "hang" {
				kind = t.K
			}
		}
		if kind == "hang" {
			g.hangs++
		}
		g.pend = append(g.pend, pending{ins[i], ob, origin, kind, in, fullOb, i + 1})
	}
}

// flush writes the pending cases: a first pass counts the strings, the frequent ones go to
// the preamble, the second pass writes the terms.
func (g *gen) flush() error {
	counting = true
	for _, p := range g.pend {
		coqCase(p.in, p.ob)
	}
	counting = false
	type kv struct {
		s string
		n int
	}
	var ks []kv
	for s, n := range freq {
		if n >= 3 && len(s) >= 6 {
			ks = append(ks, kv{s, n})
		}
	}
	sort.Slice(ks, func(i, j int) bool {
		if ks[i].n != ks[j].n {
			return ks[i].n > ks[j].n
		}
		return ks[i].s < ks[j].s
	})
	var pre strings.Builder
	for i, k := range ks {
		name := fmt.Sprintf("K%d", i)
		dict[k.s] = name
		pre.WriteString("Definition " + name + " : bytes := " + hx.B(k.s) + ".\n")
	}
	g.out.Preamble = pre.String()
	g.out.Extra["shared_strings"] = len(ks)
	for _, p := range g.pend {
		in, ob := p.in, p.ob
		class := in.Call.Op + "/" + p.kind
		if p.pass > 1 {
			class += "/iterated-again"
		}
		if g.out.Add(hx.Case{Coq: coqCase(in, ob), Desc: map[string]any{"input": p.full, "observed": p.fullOb, "pass": p.pass, "origin": p.origin},
			Tags: map[string]any{"class": class, "op": in.Call.Op, "observed_kind": p.kind}}) {
			if p.pass > 1 {
				g.out.Count("pass>1")
				g.out.Count("pass>1:outcome:" + p.kind)
				if len(ob.Toks) > 1 {
					g.out.Count("pass>1:yields")
				}
				prev := p.fullOb.Toks
				if p.pass > 2 && p.pass-3 < len(p.fullOb.More) {
					prev = p.fullOb.More[p.pass-3].Toks
				}
				if len(prev) >= 2 && prev[len(prev)-2].K == "err" {
					g.out.Count("pass>1:after-error")
				}
			}
			g.out.Count("op:" + in.Call.Op)
			g.out.Count("origin:" + p.origin)
			g.out.Count("outcome:" + p.kind)
			g.out.Count(fmt.Sprintf("requests:%d", len(ob.Reqs)))
			g.out.Count(fmt.Sprintf("script_len:%d", len(in.Script)))
			if in.Page <= 0 {
				g.out.Count("page_size<=0")
			}
		}
	}
	n := len(g.pend)
	g.out.ShardMax = (n + 15) / 16
	if g.out.ShardMax < 50 {
		g.out.ShardMax = 50
	}
	return g.out.Flush()
}

// the answers a well-behaved registry gives to each call, step by step
func goodScript(cl Call) []Item {
	blob := []byte("hello, blob")
	man := []byte(`{"schemaVersion":2}`)
	manType := "application/vnd.oci.image.manifest.v1+json"
	switch cl.Op {
	case "GetBlob":
		return []Item{{Status: 200, Header: hdr("Content-Type", "application/octet-stream", "Docker-Content-Digest", dig256(blob)), CLen: int64(len(blob)), Body: blob}}
	case "GetBlobRange":
		return []Item{{Status: 206, Header: hdr("Content-Type", "application/octet-stream", "Content-Range", "bytes 1-4/11", "Docker-Content-Digest", dig256(blob)), CLen: 4, Body: blob[1:5]}}
	case "GetManifest":
		return []Item{{Status: 200, Header: hdr("Content-Type", manType, "Docker-Content-Digest", dig256(man)), CLen: int64(len(man)), Body: man}}
	case "GetTag":
		return []Item{{Status: 200, Header: hdr("Content-Type", manType), CLen: int64(len(man)), Body: man}}
	case "ResolveBlob":
		return []Item{{Status: 200, Header: hdr("Content-Type", "application/octet-stream", "Docker-Content-Digest", digOK), CLen: 11}}
	case "ResolveManifest", "ResolveTag":
		return []Item{{Status: 200, Header: hdr("Content-Type", manType, "Docker-Content-Digest", digOK), CLen: 19}}
	case "PushBlob":
		return []Item{{Status: 202, Header: hdr("Location", locOK), CLen: 0}, {Status: 201, Header: hdr("Location", "/v2/foo/bar/blobs/"+digOK), CLen: 0}}
	case "PushBlobChunked":
		s := []Item{{Status: 202, Header: hdr("Location", locOK, "Range", "0-0"), CLen: 0}}
		for range cl.Wops {
			s = append(s, Item{Status: 202, Header: hdr("Location", locOK+"?state=1", "Range", "0-3"), CLen: 0})
		}
		return fixWriterStatuses(cl, s, 1)
	case "PushBlobChunkedResume":
		var s []Item
		if cl.Offset == -1 {
			s = append(s, Item{Status: 204, Header: hdr("Location", locOK, "Range", "0-9"), CLen: 0})
		}
		n := len(s)
		for range cl.Wops {
			s = append(s, Item{Status: 202, Header: hdr("Location", locOK+"?state=1", "Range", "0-3"), CLen: 0})
		}
		return fixWriterStatuses(cl, s, n)
	case "MountBlob":
		return []Item{{Status: 201, Header: hdr("Location", "/v2/foo/bar/blobs/"+digOK, "Docker-Content-Digest", digOK), CLen: 0}}
	case "PushManifest":
		return []Item{{Status: 201, Header: hdr("Location", "/v2/foo/bar/manifests/"+digOK), CLen: 0}}
	case "DeleteBlob", "DeleteManifest", "DeleteTag":
		return []Item{{Status: 202, CLen: 0}}
	case "Repositories":
		return []Item{{Status: 200, Header: hdr("Content-Type", "application/json"), CLen: -1, Body: []byte(`{"repositories":["a","b/c"]}`)}}
	case "Tags":
		return []Item{{Status: 200, Header: hdr("Content-Type", "application/json"), CLen: -1, Body: []byte(`{"name":"foo/bar","tags":["t1","t2"]}`)}}
	case "Referrers":
		return []Item{{Status: 200, Header: hdr("Content-Type", "application/vnd.oci.image.index.v1+json"), CLen: -1,
			Body: []byte(`{"schemaVersion":2,"manifests":[{"mediaType":"application/vnd.oci.image.manifest.v1+json","digest":"` + digOK + `","size":7,"artifactType":"x/y"}]}`)}}
	}
	return nil
}

// the flush of a Commit is a PUT answered 201; flushes happen only for some operations, so
// the statuses are set by replaying the writer's decisions approximately: every answer after
// the first `from` is 202 except that a commit consumes a 201.
func fixWriterStatuses(cl Call, s []Item, from int) []Item {
	// A simple approximation that is right for the generated sequences: find which ops flush.
	cs := cl.ChunkSize
	if cs <= 0 {
		cs = 64 * 1024
	}
	chunk := int64(0)
	i := from
	for _, o := range cl.Wops {
		if i >= len(s) {
			break
		}
		switch o.Op {
		case "write":
			if chunk+int64(len(o.Data)) > cs {
				s[i].Status = 202
				i++
				chunk = 0
			} else {
				chunk += int64(len(o.Data))
			}
		case "close":
			if chunk > 0 {
				s[i].Status = 202
				i++
				chunk = 0
			}
		case "commit":
			if o.Digest != "" {
				s[i].Status = 201
				i++
				chunk = 0
			}
		}
	}
	return s[:i]
}

var baseCalls = []Call{
	{Op: "GetBlob", Repo: repoOK, Digest: dig256([]byte("hello, blob"))},
	{Op: "GetBlobRange", Repo: repoOK, Digest: dig256([]byte("hello, blob")), O0: 1, O1: 5},
	{Op: "GetManifest", Repo: repoOK, Digest: dig256([]byte(`{"schemaVersion":2}`))},
	{Op: "GetTag", Repo: repoOK, Tag: tagOK},
	{Op: "ResolveBlob", Repo: repoOK, Digest: digOK},
	{Op: "ResolveManifest", Repo: repoOK, Digest: digOK},
	{Op: "ResolveTag", Repo: repoOK, Tag: tagOK},
	{Op: "PushBlob", Repo: repoOK, Digest: dig256([]byte("hello, blob")), Media: "application/octet-stream", DescSize: 11, Present: true, Rewindable: true, Data: []byte("hello, blob")},
	{Op: "PushBlob", Repo: repoOK, Digest: dig256([]byte("hello, blob")), Media: "application/octet-stream", DescSize: 11, Present: true, Rewindable: false, Data: []byte("hello, blob")},
	{Op: "PushBlobChunked", Repo: repoOK, ChunkSize: 4, Wops: []Wop{{Op: "write", Data: []byte("abc")}, {Op: "write", Data: []byte("defgh")}, {Op: "size"}, {Op: "commit", Digest: digOK}}},
	{Op: "PushBlobChunked", Repo: repoOK, ChunkSize: 0, Wops: []Wop{{Op: "write", Data: []byte("abc")}, {Op: "close"}, {Op: "close"}, {Op: "chunksize"}, {Op: "commit", Digest: digOK}}},
	{Op: "PushBlobChunkedResume", Repo: repoOK, ID: "https://registry.example" + locOK, Offset: -1, ChunkSize: 4, Wops: []Wop{{Op: "write", Data: []byte("ab")}, {Op: "write", Data: []byte("cdefg")}, {Op: "commit", Digest: digOK}}},
	{Op: "PushBlobChunkedResume", Repo: repoOK, ID: locOK, Offset: 10, ChunkSize: 0, Wops: []Wop{{Op: "write", Data: []byte("ab")}, {Op: "cancel"}, {Op: "commit", Digest: digOK}}},
	{Op: "MountBlob", Repo: repoOK, From: "other/repo", Digest: digOK},
	{Op: "PushManifest", Repo: repoOK, Tag: tagOK, Contents: []byte(`{"schemaVersion":2}`), Media: "application/vnd.oci.image.manifest.v1+json"},
	{Op: "DeleteBlob", Repo: repoOK, Digest: digOK},
	{Op: "DeleteManifest", Repo: repoOK, Digest: digOK},
	{Op: "DeleteTag", Repo: repoOK, Tag: tagOK},
	{Op: "Repositories", Budget: -1},
	{Op: "Tags", Repo: repoOK, Budget: -1},
	{Op: "Referrers", Repo: repoOK, Digest: digOK, Budget: -1},
}

func cloneScript(s []Item) []Item {
	out := make([]Item, len(s))
	copy(out, s)
	return out
}

// which headers a method looks at, per call
func relevantHeaders(op string) []string {
	switch op {
	case "GetBlob", "GetManifest", "GetTag", "ResolveBlob", "ResolveManifest", "ResolveTag":
		return []string{"Content-Type", "Docker-Content-Digest", "Content-Range"}
	case "GetBlobRange":
		return []string{"Content-Type", "Docker-Content-Digest", "Content-Range"}
	case "PushBlob", "PushManifest":
		return []string{"Location"}
	case "PushBlobChunked", "PushBlobChunkedResume":
		return []string{"Location", "Range", "Oci-Chunk-Min-Length"}
	case "MountBlob":
		return []string{"Location", "Docker-Content-Digest", "Content-Type"}
	case "Repositories", "Tags", "Referrers":
		return []string{"Link", "Content-Type"}
	}
	return nil
}

func headerValues(key string, body []byte) []string {
	switch key {
	case "Content-Type":
		return contentTypes
	case "Docker-Content-Digest":
		return digests(body)
	case "Content-Range":
		return contentRanges
	case "Location":
		return locations
	case "Range":
		return ranges
	case "Oci-Chunk-Min-Length":
		return chunkMins
	case "Link":
		return links
	}
	return nil
}

// Truncated spellings: what is left of a well-formed value when the server (or a proxy) cut
// it short or sent only its tail.  A parser that tests for a prefix, a unit, a bracket or a
// separator and then slices past it meets the value that ends right there.
func isAlnum(c byte) bool {
	return c >= '0' && c <= '9' || c >= 'a' && c <= 'z' || c >= 'A' && c <= 'Z'
}

// truncations gives proper prefixes of v (all the short ones, every one that ends at or just
// before a separator, the longest two) and proper suffixes (those that start at or just after a
// separator, the shortest three)
func truncations(v string) []string {
	n := len(v)
	var out []string
	edge := func(p int) bool { return !isAlnum(v[p-1]) || !isAlnum(v[p]) }
	for p := 1; p < n; p++ {
		if p <= 8 || p >= n-2 || edge(p) {
			out = append(out, v[:p])
		}
	}
	for p := 1; p < n; p++ {
		if n-p <= 3 || edge(p) {
			out = append(out, v[p:])
		}
	}
	return out
}

// the well-formed values whose truncated spellings are tried for a header, besides the value
// the well-behaved answer carries
func wellFormed(key string, body []byte) []string {
	switch key {
	case "Content-Type":
		return []string{"application/json; charset=utf-8"}
	case "Docker-Content-Digest":
		return []string{dig256(body), string(digest.SHA512.FromBytes(body))}
	case "Content-Range":
		return []string{"bytes 0-4/5", "bytes 10-14/150", "bytes */5"}
	case "Location":
		return []string{locOK, "https://other.example/up?x=1"}
	case "Range":
		return []string{"0-9", "10-19", "bytes=0-9", "bytes 0-9"}
	case "Oci-Chunk-Min-Length":
		return []string{"10", "9223372036854775807"}
	case "Link":
		return []string{`</v2/_catalog?n=2&last=b>; rel="next"`, `<https://registry.example/v2/foo/bar/tags/list?last=t2&n=2>; rel="next"`}
	}
	return nil
}

func truncatedValues(key, goodValue string, body []byte) []string {
	seen := map[string]bool{"": true}
	for _, v := range headerValues(key, body) {
		seen[v] = true
	}
	var out []string
	for _, v := range append([]string{goodValue}, wellFormed(key, body)...) {
		for _, t := range truncations(v) {
			if !seen[t] {
				seen[t] = true
				out = append(out, t)
			}
		}
	}
	return out
}

var listBodies = [][]byte{
	nil, []byte(`{}`), []byte(`{"repositories":[]}`), []byte(`{"repositories":["a"]}`), []byte(`{"repositories":["a","b"]}`), []byte(`{"repositories":["a","b","c"]}`),
	[]byte(`{"tags":[]}`), []byte(`{"name":"n","tags":["t1"]}`), []byte(`{"name":"n","tags":["t1","t2"]}`), []byte(`{"tags":["t1","t2","t3"]}`), []byte(`{"tags":null}`),
	[]byte(`{"repositories":"x"}`), []byte(`{"repositories":[1,2]}`), []byte(`{"tags":{"a":1}}`), []byte(`null`), []byte(`[]`), []byte(`{"repositories":["a"`), []byte("\xff\xfe garbage"),
	[]byte(`{"repositories":["a","b"],"tags":["x","y"]}`), []byte(`{"repositories":["` + "é" + `",""]}`),
	[]byte(`{"manifests":[]}`), []byte(`{"manifests":[{"mediaType":"m","digest":"nocolon","size":-1}]}`), []byte(`{"manifests":"x"}`),
	[]byte(`{"manifests":[{"digest":"` + digOK + `","size":1},{"digest":"` + digOK + `","size":2,"artifactType":"a"}]}`),
}

func pageDoc(op string, items []string) []byte {
	js, _ := json.Marshal(items)
	if op == "Tags" {
		return []byte(`{"name":"foo/bar","tags":` + string(js) + `}`)
	}
	return []byte(`{"repositories":` + string(js) + `}`)
}

func (g *gen) enumerate() {
	// 0. the good scripts, for every page size
	for _, cl := range baseCalls {
		for _, page := range []int{0, -1, 1, 2, 1000} {
			g.add(Input{Page: page, Call: cl, Script: goodScript(cl)}, "good")
		}
		g.add(Input{Call: cl, Script: nil}, "empty-script")
	}
	// 1. every status at every step
	for _, cl := range baseCalls {
		good := goodScript(cl)
		for step := range good {
			for _, st := range statuses {
				for _, loc := range []string{"", locOK, "%zz"} {
					if loc != "" && !(st >= 300 && st < 400) && st != 201 && st != 202 {
						continue
					}
					s := cloneScript(good)
					s[step].Status = st
					if loc != "" || st >= 300 && st < 400 {
						s[step].Header = with(s[step].Header, "Location")
						if loc != "" {
							s[step].Header = with(s[step].Header, "Location", loc)
						}
					}
					// after a redirect the client comes back for more: give it the good answers again
					s = append(s, good[step:]...)
					g.add(Input{Call: cl, Script: s}, "status")
				}
			}
			// error answers with their bodies
			for _, e := range errorBodies {
				s := cloneScript(good)
				s[step] = e
				g.add(Input{Call: cl, Script: s}, "error-body")
			}
			// transport failure
			s := cloneScript(good)
			s[step] = Item{Fail: true}
			g.add(Input{Call: cl, Script: s}, "transport")
		}
	}
	// 2. header faults at every step: absent, each value of the pool, contradictory pairs
	for _, cl := range baseCalls {
		good := goodScript(cl)
		for step := range good {
			for _, key := range relevantHeaders(cl.Op) {
				vals := headerValues(key, good[step].data())
				s := cloneScript(good)
				s[step].Header = with(good[step].Header, key)
				g.add(Input{Call: cl, Script: s}, "header-absent")
				for i, v := range vals {
					s := cloneScript(good)
					s[step].Header = with(good[step].Header, key, v)
					g.add(Input{Call: cl, Script: s}, "header-value")
					if i+1 < len(vals) && i%2 == 0 {
						s := cloneScript(good)
						s[step].Header = with(good[step].Header, key, v, vals[i+1])
						g.add(Input{Call: cl, Script: s}, "header-contradictory")
					}
				}
				for _, v := range truncatedValues(key, firstHeader(good[step], key), good[step].data()) {
					s := cloneScript(good)
					s[step].Header = with(good[step].Header, key, v)
					g.add(Input{Call: cl, Script: s}, "header-truncated")
				}
				// the same header under a non-canonical key is not seen by Header.Get
				s = cloneScript(good)
				s[step].Header = append(with(good[step].Header, key), [2]string{strings.ToLower(key), "lower"})
				g.add(Input{Call: cl, Script: s}, "header-noncanonical")
			}
			// Content-Length faults and body faults
			for _, n := range clens(len(good[step].data())) {
				s := cloneScript(good)
				s[step].CLen = n
				g.add(Input{Call: cl, Script: s}, "content-length")
			}
			for _, bf := range []struct {
				body []byte
				pad  int
				fail bool
			}{{nil, 0, false}, {nil, 0, true}, {good[step].Body, 0, true}, {[]byte("\x00garbage\xff"), 0, false}, {good[step].Body, 9000, false}, {append([]byte{}, good[step].Body...)[:len(good[step].Body)/2], 0, false}} {
				s := cloneScript(good)
				s[step].Body, s[step].Pad, s[step].BodyFail = bf.body, bf.pad, bf.fail
				g.add(Input{Call: cl, Script: s}, "body")
			}
		}
	}
	// 2b. blank and blank-prefixed bodies under every Content-Type: as the error answer at every
	// step (statuses rotate over the non-2xx kinds, declared lengths over right / unknown / absurd),
	// and as the body of the successful answer of every step
	for _, cl := range baseCalls {
		good := goodScript(cl)
		for step := range good {
			k := 0
			for _, ct := range blankCTypes {
				for _, b := range blankBodies(stdError) {
					st := blankStatuses[k%len(blankStatuses)]
					e := Item{Status: st, Header: withCType(nil, ct), CLen: []int64{-1, int64(len(b)), math.MaxInt64, 0}[k%4], Body: b}
					if st >= 300 && st < 400 && k%2 == 0 {
						e.Header = with(e.Header, "Location", "/elsewhere")
					}
					k++
					s := cloneScript(good)
					s[step] = e
					s = append(s, good[step:]...)
					g.add(Input{Call: cl, Script: s}, "blank-error-body")
				}
			}
			doc := good[step].Body
			if len(doc) == 0 {
				doc = []byte(`{}`)
			}
			for _, ct := range blankCTypes {
				for i, b := range blankBodies(doc) {
					s := cloneScript(good)
					s[step].Header = withCType(good[step].Header, ct)
					s[step].Body, s[step].Pad = b, 0
					s[step].CLen = int64(len(b))
					if isListing(cl.Op) && i%2 == 1 {
						s[step].CLen = -1
					}
					g.add(Input{Call: cl, Script: s}, "blank-body")
				}
			}
		}
	}
	// 2d. long bodies of one byte class around the powers of two.  All of them as the error answer
	// of a GET and of a PUT under every Content-Type kind; at every step of every call each length
	// (classes, Content-Types, statuses and declared lengths rotating), as the error answer and as
	// the body of the successful answer; a text prefix and then the class bytes across a boundary
	classItem := func(st int, ct string, n int, cls []byte, k int) Item {
		e := Item{Status: st, Header: withCType(nil, ct), CLen: []int64{-1, int64(n), -1, 0, math.MaxInt64}[k%5], Pad: n, PadUnit: cls}
		if st >= 300 && st < 400 && k%2 == 0 {
			e.Header = with(e.Header, "Location", "/elsewhere")
		}
		return e
	}
	for _, cl := range baseCalls {
		if !(cl.Op == "GetBlob" || cl.Op == "PushManifest") {
			continue
		}
		good := goodScript(cl)
		k := 0
		for _, cls := range byteClasses {
			for _, n := range classLengths {
				for ci, ct := range classCTypes {
					if ci >= 3 || cl.Op == "PushManifest" && ci != k%3 {
						k++
						continue
					}
					s := cloneScript(good)
					s[0] = classItem([]int{404, 500, 400, 503, 403}[k%5], ct, n, cls, 0)
					k++
					g.add(Input{Call: cl, Script: s}, "class-error-body")
				}
			}
			for ni, n := range []int{256, 512, 1024} {
				for ti, ct := range []string{"", "text/html"} {
					if cl.Op == "PushManifest" && ti != ni%2 {
						continue
					}
					for _, extra := range []int{1, 3} {
						s := cloneScript(good)
						s[0] = Item{Status: 502, Header: withCType(nil, ct), CLen: -1, Body: bytes.Repeat([]byte("a"), n-1), Pad: 1 + extra, PadUnit: cls}
						g.add(Input{Call: cl, Script: s}, "class-error-body")
					}
				}
			}
		}
	}
	{
		k := 0
		for _, cl := range baseCalls {
			good := goodScript(cl)
			for step := range good {
				for _, n := range classLengths {
					cls := byteClasses[k%len(byteClasses)]
					ct := classCTypes[(k/2)%len(classCTypes)]
					st := blankStatuses[(k/3)%len(blankStatuses)]
					s := cloneScript(good)
					s[step] = classItem(st, ct, n, cls, k)
					s = append(s, good[step:]...)
					g.add(Input{Call: cl, Script: s}, "class-error-body")
					if k%3 == 0 {
						s := cloneScript(good)
						s[step].Header = withCType(good[step].Header, classCTypes[(k/3)%len(classCTypes)])
						s[step].Body, s[step].Pad, s[step].PadUnit = nil, n, cls
						s[step].CLen = int64(n)
						if k%2 == 1 {
							s[step].CLen = -1
						}
						g.add(Input{Call: cl, Script: s}, "class-body")
					}
					k++
				}
			}
		}
	}
	// 2e. headers the client does not read today, at every step of every call: the k-th value of
	// every pool at once (on the successful answer, on an error answer in its place, on a
	// redirect before it); and each value of each pool alone on a blob read, a listing and a push
	{
		m := maxExtraPool()
		per := 36 // values of each pool per step; the window moves from step to step so that long pools are covered over the steps
		if m < per {
			per = m
		}
		w := 0
		for ci, cl := range baseCalls {
			good := goodScript(cl)
			for step := range good {
				w++
				for k := w * per; k < (w+1)*per; k++ {
					s := cloneScript(good)
					switch (k + step + ci) % 3 {
					case 0:
						s[step].Header = extraHeaders(good[step].Header, cl.Op, k)
					case 1:
						st := blankStatuses[k%len(blankStatuses)]
						e := Item{Status: st, Header: extraHeaders(hdr("Content-Type", "application/json"), cl.Op, k), CLen: -1, Body: stdError}
						s[step] = e
						s = append(s, good[step:]...)
					case 2:
						e := Item{Status: []int{307, 301, 308, 302}[k%4], Header: extraHeaders(hdr("Location", "/hop"), cl.Op, k), CLen: 0}
						if isRelevant(cl.Op, "Location") {
							e.Header = with(e.Header, "Location", "/hop")
						}
						s = append(append(cloneScript(good[:step]), e), good[step:]...)
						s[step+1].Header = extraHeaders(good[step].Header, cl.Op, k+1)
					}
					g.add(Input{Call: cl, Script: s}, "header-extra")
				}
			}
		}
		for _, cl := range baseCalls {
			if cl.Op != "GetBlob" {
				continue
			}
			good := goodScript(cl)
			for _, p := range extraPools {
				if isRelevant(cl.Op, p.key) {
					continue
				}
				for i, v := range p.vals {
					s := cloneScript(good)
					s[0].Header = with(good[0].Header, p.key, v)
					if i%3 == 1 {
						s[0] = Item{Status: 429, Header: with(hdr("Content-Type", "application/json"), p.key, v), CLen: -1, Body: stdError}
					}
					g.add(Input{Call: cl, Script: s}, "header-extra-single")
					if i%8 == 0 && i+1 < len(p.vals) {
						s := cloneScript(good)
						s[0].Header = with(good[0].Header, p.key, v, p.vals[i+1])
						g.add(Input{Call: cl, Script: s}, "header-extra-single")
					}
				}
			}
		}
	}
	// 2c. absurd declared lengths on the later successful answers of multi-answer operations:
	// each page of a listing, the HEAD answer of a large tag read
	for _, op := range []string{"Repositories", "Tags"} {
		for at := 0; at < 3; at++ {
			for _, n := range absurdCLens {
				s := []Item{
					{Status: 200, Header: hdr("Content-Type", "application/json"), CLen: -1, Body: pageDoc(op, []string{"a", "b"})},
					{Status: 200, Header: hdr("Content-Type", "application/json"), CLen: -1, Body: pageDoc(op, []string{"c", "d"})},
					{Status: 200, Header: hdr("Content-Type", "application/json"), CLen: -1, Body: pageDoc(op, []string{"e"})},
				}
				s[at].CLen = n
				g.add(Input{Page: 2, Call: Call{Op: op, Repo: repoOK, Budget: -1}, Script: s}, "content-length-later")
			}
		}
	}
	for _, n := range absurdCLens {
		big := Item{Status: 200, CLen: 131073, Body: []byte(`{"big":"`), Pad: 131073 - 8}
		g.add(Input{Call: Call{Op: "GetTag", Repo: repoOK, Tag: tagOK, BufSz: 32768}, Script: []Item{big, {Status: 200, Header: hdr("Docker-Content-Digest", dig256(big.data())), CLen: n}}}, "content-length-later")
		small := Item{Status: 200, CLen: n, Body: []byte(`{"schemaVersion":2}`)}
		g.add(Input{Call: Call{Op: "GetTag", Repo: repoOK, Tag: tagOK}, Script: []Item{small, {Status: 200, Header: hdr("Docker-Content-Digest", dig256(small.Body)), CLen: n}}}, "content-length-later")
	}
	// 3. partial content
	for _, cr := range contentRanges {
		for _, st := range []int{200, 206} {
			for _, o1 := range []int64{5, -1} {
				cl := Call{Op: "GetBlobRange", Repo: repoOK, Digest: digOK, O0: 1, O1: o1}
				g.add(Input{Call: cl, Script: []Item{{Status: st, Header: hdr("Content-Range", cr), CLen: 4, Body: []byte("ello")}}}, "partial")
			}
		}
	}
	g.add(Input{Call: Call{Op: "GetBlobRange", Repo: repoOK, Digest: digOK, O0: 0, O1: -1}, Script: goodScript(Call{Op: "GetBlob"})}, "partial")
	g.add(Input{Call: Call{Op: "GetBlobRange", Repo: repoOK, Digest: digOK, O0: 0, O1: 0}, Script: []Item{{Status: 206, Header: hdr("Content-Range", "bytes 0-0/11"), CLen: 0}}}, "partial")
	g.add(Input{Call: Call{Op: "GetBlobRange", Repo: repoOK, Digest: digOK, O0: -3, O1: 2}, Script: []Item{{Status: 416, CLen: 0}}}, "partial")
	// 4. readers: sizes against bodies, buffer sizes, digests of other algorithms
	blob := []byte("0123456789abcdef")
	for _, bufsz := range []int{1, 7, 16, 4096} {
		for _, cl := range []int64{16, 15, 17, 0, 3} {
			for _, dg := range []string{dig256(blob), digOK, string(digest.SHA512.FromBytes(blob)), string(digest.SHA384.FromBytes(blob)), ""} {
				for _, fail := range []bool{false, true} {
					it := Item{Status: 200, CLen: cl, Body: blob, BodyFail: fail}
					if dg != "" {
						it.Header = hdr("Docker-Content-Digest", dg)
					}
					g.add(Input{Call: Call{Op: "GetBlob", Repo: repoOK, Digest: dig256(blob), BufSz: bufsz}, Script: []Item{it}}, "reader")
					if bufsz == 7 {
						g.add(Input{Call: Call{Op: "GetTag", Repo: repoOK, Tag: tagOK, BufSz: bufsz}, Script: []Item{it}}, "reader")
						g.add(Input{Call: Call{Op: "GetBlobRange", Repo: repoOK, Digest: dig256(blob), O0: 2, O1: 9, BufSz: bufsz}, Script: []Item{it}}, "reader")
					}
				}
			}
		}
	}
	// 5. a tag read without a digest: in memory up to 128 KiB, HEAD beyond
	man := []byte(`{"schemaVersion":2,"config":{}}`)
	for _, cl := range clens(len(man)) {
		for _, head := range []Item{
			{Status: 200, Header: hdr("Docker-Content-Digest", dig256(man)), CLen: int64(len(man))},
			{Status: 200, Header: hdr("Docker-Content-Digest", dig256(man)), CLen: 131073},
			{Status: 200, CLen: 131073},
			{Status: 200, Header: hdr("Docker-Content-Digest", "nocolon"), CLen: 131073},
			{Status: 200, Header: hdr("Docker-Content-Digest", dig256(man)), CLen: -1},
			{Status: 404, CLen: 0},
			{Status: 404, Header: hdr("Content-Type", "application/json"), CLen: -1, Body: []byte(`{"errors":[{"code":"MANIFEST_UNKNOWN","message":"m"}]}`)},
			{Status: 301, Header: hdr("Location", "/elsewhere"), CLen: 0},
			{Fail: true},
		} {
			g.add(Input{Call: Call{Op: "GetTag", Repo: repoOK, Tag: tagOK}, Script: []Item{{Status: 200, Header: hdr("Content-Type", "application/vnd.oci.image.manifest.v1+json"), CLen: cl, Body: man}, head}}, "tag-no-digest")
		}
	}
	{
		// really large manifests, read to the end
		big := Item{Status: 200, CLen: 131073, Body: []byte(`{"big":"`), Pad: 131073 - 8}
		d := dig256(big.data())
		g.add(Input{Call: Call{Op: "GetTag", Repo: repoOK, Tag: tagOK, BufSz: 32768}, Script: []Item{big, {Status: 200, Header: hdr("Docker-Content-Digest", d), CLen: 131073}}}, "tag-large")
		g.add(Input{Call: Call{Op: "GetTag", Repo: repoOK, Tag: tagOK, BufSz: 32768}, Script: []Item{big, {Status: 200, Header: hdr("Docker-Content-Digest", digOK), CLen: 131073}}}, "tag-large")
		g.add(Input{Call: Call{Op: "GetTag", Repo: repoOK, Tag: tagOK, BufSz: 32768}, Script: []Item{big, {Status: 200, Header: hdr("Docker-Content-Digest", d), CLen: 131074}}}, "tag-large")
		edge := Item{Status: 200, CLen: 131072, Body: []byte(`{"big":"`), Pad: 131072 - 8}
		g.add(Input{Call: Call{Op: "GetTag", Repo: repoOK, Tag: tagOK, BufSz: 32768}, Script: []Item{edge}}, "tag-large")
		g.add(Input{Call: Call{Op: "GetManifest", Repo: repoOK, Digest: dig256(edge.data()), BufSz: 65536}, Script: []Item{edge}}, "tag-large")
	}
	// 6. caller arguments the request constructor refuses or lets through in a decoded form
	for _, a := range []struct{ repo, dig, tag string }{
		{"Foo", digOK, tagOK}, {"", digOK, tagOK}, {repoOK, "sha256:abc", ""}, {repoOK, "", ""}, {repoOK, "sha256%3A" + hexA, "a?b"},
		{repoOK, "sha256:" + hexA + "?x", "a%zz"}, {repoOK, "sha512:" + hexA, "-bad"}, {repoOK, "nocolon", "a b"}, {"foo/bar?x", digOK, tagOK}, {repoOK, digOK + "#f", "v1#f"},
	} {
		for _, cl := range baseCalls {
			c := cl
			c.Repo = a.repo
			if c.Digest != "" {
				c.Digest = a.dig
			}
			if c.Tag != "" {
				c.Tag = a.tag
			}
			s := goodScript(cl)
			g.add(Input{Call: c, Script: s}, "arguments")
			for i := range s {
				s[i].Header = with(s[i].Header, "Docker-Content-Digest")
			}
			g.add(Input{Call: c, Script: s}, "arguments")
		}
	}
	// 6b. truncated caller arguments: a digest cut short, given to every call that takes one
	// (with the answer's own digest header and without it), an upload ID cut short
	for _, dg := range truncations(digOK) {
		for _, cl := range baseCalls {
			if cl.Digest == "" || cl.Op == "PushBlobChunked" || cl.Op == "PushBlobChunkedResume" {
				continue
			}
			c := cl
			c.Digest = dg
			s := goodScript(cl)
			g.add(Input{Call: c, Script: s}, "arguments-truncated")
			for i := range s {
				s[i].Header = with(s[i].Header, "Docker-Content-Digest")
			}
			g.add(Input{Call: c, Script: s}, "arguments-truncated")
		}
		cl := Call{Op: "PushBlobChunked", Repo: repoOK, ChunkSize: 4, Wops: []Wop{{Op: "write", Data: []byte("abcdef")}, {Op: "commit", Digest: dg}, {Op: "size"}}}
		g.add(Input{Call: cl, Script: goodScript(cl)}, "arguments-truncated")
	}
	for _, id := range truncations("https://registry.example" + locOK + "?state=1") {
		for _, off := range []int64{-1, 3} {
			cl := Call{Op: "PushBlobChunkedResume", Repo: repoOK, ID: id, Offset: off, ChunkSize: 3, Wops: []Wop{{Op: "write", Data: []byte("abcd")}, {Op: "commit", Digest: digOK}}}
			g.add(Input{Call: cl, Script: goodScript(cl)}, "arguments-truncated")
		}
	}
	g.add(Input{Call: Call{Op: "PushManifest", Repo: repoOK, Tag: tagOK, Contents: []byte("{}"), Media: ""}, Script: goodScript(Call{Op: "PushManifest"})}, "arguments")
	g.add(Input{Call: Call{Op: "PushManifest", Repo: repoOK, Tag: "", Contents: nil, Media: "m"}, Script: goodScript(Call{Op: "PushManifest"})}, "arguments")
	// 7. redirect chains
	for _, st := range []int{301, 302, 303, 307, 308} {
		for _, n := range []int{1, 2, 9, 10, 11} {
			for _, cl := range baseCalls {
				if cl.Op != "GetBlob" && cl.Op != "PushBlob" && cl.Op != "DeleteTag" && cl.Op != "PushManifest" && cl.Op != "ResolveTag" && cl.Op != "Repositories" && cl.Op != "PushBlobChunked" {
					continue
				}
				good := goodScript(cl)
				for step := range good {
					var s []Item
					s = append(s, good[:step]...)
					for i := 0; i < n; i++ {
						it := Item{Status: st, Header: hdr("Location", fmt.Sprintf("/hop%d", i)), CLen: -1, Body: []byte("moved"), Pad: 0}
						if i == 1 {
							it.Pad, it.CLen = 3000, 3005 // too long to be slurped
						}
						if i == 2 {
							it.Pad = 3000 // unknown length: slurped up to 2 KiB
						}
						s = append(s, it)
					}
					s = append(s, good[step:]...)
					g.add(Input{Call: cl, Script: s}, "redirect")
				}
			}
		}
	}
	// 8. listings: page sizes against page lengths, Link forms, early stop
	pageBody := func(op string, items []string) []byte {
		js, _ := json.Marshal(items)
		if op == "Tags" {
			return []byte(`{"name":"foo/bar","tags":` + string(js) + `}`)
		}
		return []byte(`{"repositories":` + string(js) + `}`)
	}
	names := []string{"a", "b", "c", "d", "e", "f", "g", "h"}
	for _, op := range []string{"Repositories", "Tags"} {
		for _, page := range []int{-1, 0, 1, 2, 3} {
			for _, lens := range [][]int{{0}, {1}, {2}, {3}, {1, 0}, {2, 2, 0}, {2, 2, 1}, {1, 1, 1, 1, 0}, {3, 3}, {2, 2, 2, 2, 2, 2}} {
				for _, link := range []string{"", `</v2/_catalog?n=2&last=zz>; rel="next"`, "<%zz>", "nobracket"} {
					for _, budget := range []int{-1, 0, 1, 3} {
						if budget >= 0 && (link != "" || len(lens) > 3) {
							continue
						}
						var s []Item
						k := 0
						for _, n := range lens {
							var its []string
							for j := 0; j < n; j++ {
								its = append(its, names[k%len(names)])
								k++
							}
							it := Item{Status: 200, Header: hdr("Content-Type", "application/json"), CLen: -1, Body: pageBody(op, its)}
							if link != "" {
								it.Header = with(it.Header, "Link", link)
							}
							s = append(s, it)
						}
						g.add(Input{Page: page, Call: Call{Op: op, Repo: repoOK, Start: "", Budget: budget}, Script: s}, "paging")
					}
				}
			}
		}
		for _, b := range listBodies {
			for _, page := range []int{-1, 0, 1, 2} {
				g.add(Input{Page: page, Call: Call{Op: op, Repo: repoOK, Start: "s t/a&rt", Budget: -1}, Script: []Item{{Status: 200, CLen: -1, Body: b}, {Status: 200, CLen: -1, Body: b}, {Status: 200, CLen: -1, Body: []byte(`{}`)}}}, "list-body")
				g.add(Input{Page: page, Call: Call{Op: op, Repo: repoOK, Budget: -1}, Script: []Item{{Status: 200, CLen: -1, Body: b, BodyFail: true}}}, "list-body")
			}
		}
	}
	for _, b := range listBodies {
		for _, budget := range []int{-1, 0, 1} {
			g.add(Input{Call: Call{Op: "Referrers", Repo: repoOK, Digest: digOK, Art: "x/y", Budget: budget}, Script: []Item{{Status: 200, CLen: -1, Body: b}}}, "list-body")
		}
	}
	// 9. chunked uploads: writes around the chunk size, faults on each flush
	seqs := [][]Wop{
		{{Op: "write", Data: []byte("abcd")}, {Op: "write", Data: []byte("e")}, {Op: "close"}, {Op: "commit", Digest: digOK}},
		{{Op: "write", Data: []byte("abcdefghij")}, {Op: "write", Data: nil}, {Op: "size"}, {Op: "commit", Digest: digOK}, {Op: "commit", Digest: digOK}},
		{{Op: "commit", Digest: ""}, {Op: "commit", Digest: "nocolon"}, {Op: "close"}, {Op: "write", Data: []byte("late")}, {Op: "close"}},
		{{Op: "write", Data: []byte("ab")}, {Op: "close"}, {Op: "write", Data: []byte("cd")}, {Op: "close"}, {Op: "chunksize"}, {Op: "cancel"}},
		{{Op: "close"}, {Op: "close"}, {Op: "size"}},
	}
	for _, ws := range seqs {
		for _, cs := range []int64{4, 0, -1, 1} {
			for _, mk := range []func() Call{
				func() Call { return Call{Op: "PushBlobChunked", Repo: repoOK, ChunkSize: cs, Wops: ws} },
				func() Call {
					return Call{Op: "PushBlobChunkedResume", Repo: repoOK, ID: locOK, Offset: -1, ChunkSize: cs, Wops: ws}
				},
				func() Call {
					return Call{Op: "PushBlobChunkedResume", Repo: repoOK, ID: locOK, Offset: 7, ChunkSize: cs, Wops: ws}
				},
			} {
				cl := mk()
				good := goodScript(cl)
				g.add(Input{Call: cl, Script: good}, "upload")
				if cs != 4 && cs != 0 {
					continue
				}
				for step := range good {
					for _, f := range []Item{
						{Status: 202, CLen: 0}, {Status: 201, CLen: 0}, {Status: 202, Header: hdr("Location", "%zz"), CLen: 0},
						{Status: 416, Header: hdr("Content-Type", "application/json"), CLen: -1, Body: []byte(`{"errors":[{"code":"RANGE_INVALID","message":"r"}]}`)},
						{Status: 404, Header: hdr("Content-Type", "application/json"), CLen: -1, Body: []byte(`{"errors":[{"code":"BLOB_UPLOAD_UNKNOWN","message":"u"}]}`)},
						{Status: 307, Header: hdr("Location", "/again"), CLen: 0}, {Fail: true}, {Status: 204, Header: hdr("Location", locOK, "Range", "0-3"), CLen: 0},
					} {
						s := cloneScript(good)
						s[step] = f
						s = append(s, good[step:]...)
						g.add(Input{Call: cl, Script: s}, "upload-fault")
					}
				}
			}
		}
	}
	// the status answer of a resume: Range and OCI-Chunk-Min-Length in every form
	for _, r := range append(append([]string{}, ranges...), truncatedValues("Range", "", nil)...) {
		for _, m := range []string{"", "3", "9223372036854775807"} {
			cl := Call{Op: "PushBlobChunkedResume", Repo: repoOK, ID: locOK, Offset: -1, ChunkSize: 4,
				Wops: []Wop{{Op: "size"}, {Op: "write", Data: []byte("xy")}, {Op: "write", Data: []byte("0123456789")}, {Op: "commit", Digest: digOK}}}
			h := hdr("Location", locOK, "Range", r)
			if m != "" {
				h = with(h, "Oci-Chunk-Min-Length", m)
			}
			g.add(Input{Call: cl, Script: []Item{{Status: 204, Header: h, CLen: 0}, {Status: 202, Header: hdr("Location", locOK), CLen: 0}, {Status: 201, Header: hdr("Location", locOK), CLen: 0}}}, "resume-status")
		}
	}
	for _, id := range []string{"", locOK, "relative/id", "%zz", "https://other.example/u/1", "?x", "http://[::1"} {
		for _, off := range []int64{-1, -2, 0, 5, math.MaxInt64} {
			cl := Call{Op: "PushBlobChunkedResume", Repo: repoOK, ID: id, Offset: off, ChunkSize: 3, Wops: []Wop{{Op: "write", Data: []byte("abcd")}, {Op: "size"}, {Op: "commit", Digest: digOK}}}
			g.add(Input{Call: cl, Script: goodScript(cl)}, "resume-id")
		}
	}
	// PushBlob: reader kinds and sizes (what a 307 does depends on them)
	for _, present := range []bool{false, true} {
		for _, rew := range []bool{false, true} {
			for _, data := range [][]byte{nil, []byte("x"), []byte("hello, blob")} {
				for _, size := range []int64{0, int64(len(data)), 99, -1} {
					for _, st := range []int{201, 307, 308, 301} {
						cl := Call{Op: "PushBlob", Repo: repoOK, Digest: digOK, Media: "application/octet-stream", DescSize: size, Present: present, Rewindable: rew, Data: data}
						s := []Item{{Status: 202, Header: hdr("Location", locOK), CLen: 0}, {Status: st, Header: hdr("Location", "/again"), CLen: 0}, {Status: 201, CLen: 0}}
						g.add(Input{Call: cl, Script: s}, "push-blob")
					}
				}
			}
		}
	}
}

func (g *gen) pick(ss []string) string { return ss[g.rnd.Intn(len(ss))] }

func (g *gen) randomItem(cl Call) Item {
	r := g.rnd
	if r.Intn(25) == 0 {
		return Item{Fail: true}
	}
	if r.Intn(6) == 0 {
		e := errorBodies[r.Intn(len(errorBodies))]
		if r.Intn(3) == 0 {
			e.Status = statuses[r.Intn(len(statuses))]
		}
		return e
	}
	var it Item
	good := goodScript(cl)
	if len(good) > 0 {
		it = good[r.Intn(len(good))]
		it.Header = append([][2]string{}, it.Header...)
	} else {
		it = Item{Status: 200}
	}
	if r.Intn(4) == 0 {
		it.Status = statuses[r.Intn(len(statuses))]
	}
	for _, key := range []string{"Content-Type", "Docker-Content-Digest", "Content-Range", "Location", "Range", "Oci-Chunk-Min-Length", "Link"} {
		switch r.Intn(12) {
		case 0:
			it.Header = with(it.Header, key)
		case 1, 2:
			it.Header = with(it.Header, key, g.pick(headerValues(key, it.data())))
		case 4:
			if vs := truncatedValues(key, firstHeader(it, key), it.data()); len(vs) > 0 {
				it.Header = with(it.Header, key, g.pick(vs))
			}
		case 3:
			vs := headerValues(key, it.data())
			it.Header = with(it.Header, key, g.pick(vs), g.pick(vs))
		}
	}
	if isListing(cl.Op) && r.Intn(3) == 0 {
		it.Body = listBodies[r.Intn(len(listBodies))]
	}
	if r.Intn(5) == 0 {
		for j, m := 0, 1+r.Intn(3); j < m; j++ {
			p := extraPools[r.Intn(len(extraPools))]
			it.Header = with(it.Header, p.key, g.pick(p.vals))
		}
	}
	switch r.Intn(11) {
	case 10:
		it.Body, it.Pad, it.PadUnit = nil, classLengths[r.Intn(len(classLengths))], byteClasses[r.Intn(len(byteClasses))]
		if r.Intn(2) == 0 {
			it.Status = blankStatuses[r.Intn(len(blankStatuses))]
			it.Header = withCType(it.Header, classCTypes[r.Intn(len(classCTypes))])
		}
	case 0:
		cs := clens(len(it.data()))
		it.CLen = cs[r.Intn(len(cs))]
	case 1:
		it.BodyFail = true
	case 2:
		it.Body = nil
	case 3:
		it.Pad = []int{1, 2040, 2048, 2049, 8192, 8193, 9000}[r.Intn(7)]
	case 4:
		doc := it.Body
		if r.Intn(2) == 0 {
			doc = stdError
		}
		bs := blankBodies(doc)
		it.Body, it.Pad = bs[r.Intn(len(bs))], 0
		if r.Intn(2) == 0 {
			it.Header = withCType(it.Header, blankCTypes[r.Intn(len(blankCTypes))])
		}
		if r.Intn(2) == 0 {
			it.Status = blankStatuses[r.Intn(len(blankStatuses))]
		}
	}
	return it
}

func (g *gen) random(n int) {
	for i := 0; i < n; i++ {
		cl := baseCalls[g.rnd.Intn(len(baseCalls))]
		cl.BufSz = []int{1, 3, 7, 64, 4096}[g.rnd.Intn(5)]
		if isListing(cl.Op) {
			cl.Budget = []int{-1, -1, -1, 0, 1, 2, 5}[g.rnd.Intn(7)]
		}
		if cl.Op == "PushBlobChunked" || cl.Op == "PushBlobChunkedResume" {
			var ws []Wop
			for j, m := 0, g.rnd.Intn(6); j < m; j++ {
				switch g.rnd.Intn(8) {
				case 0:
					ws = append(ws, Wop{Op: "close"})
				case 1:
					ws = append(ws, Wop{Op: "commit", Digest: g.pick([]string{digOK, "", "nocolon"})})
				case 2:
					ws = append(ws, Wop{Op: "size"})
				case 3:
					ws = append(ws, Wop{Op: "chunksize"})
				default:
					ws = append(ws, Wop{Op: "write", Data: bytes.Repeat([]byte("w"), g.rnd.Intn(9))})
				}
			}
			cl.Wops = ws
			cl.ChunkSize = []int64{0, 1, 4, 5, -3}[g.rnd.Intn(5)]
			if cl.Op == "PushBlobChunkedResume" {
				cl.Offset = []int64{-1, -1, 0, 4, -2}[g.rnd.Intn(5)]
			}
		}
		n := g.rnd.Intn(5)
		if isListing(cl.Op) || len(cl.Wops) > 0 {
			n += g.rnd.Intn(4)
		}
		var s []Item
		for j := 0; j < n; j++ {
			s = append(s, g.randomItem(cl))
		}
		page := []int{0, 0, -1, 1, 2, 3, -7, 1000}[g.rnd.Intn(8)]
		g.add(Input{Page: page, Call: cl, Script: s}, "random")
	}
}

func main() {
	if os.Getenv(workerEnv) != "" {
		workerMain()
		return
	}
	defer stopWorker()
	cfg := hx.ParseFlags()
	out := hx.NewOut(cfg, "Obs.C18")
	g := &gen{out: out, rnd: cfg.Rand(), seen: map[string]bool{}}
	if cfg.Replay != "" {
		b, err := os.ReadFile(cfg.Replay)
		if err != nil {
			panic(err)
		}
		var r struct {
			Input Input `json:"input"`
		}
		if err := json.Unmarshal(b, &r); err != nil {
			panic(err)
		}
		g.add(r.Input, "replay")
		if err := g.flush(); err != nil {
			panic(err)
		}
		return
	}
	for _, raw := range hx.LoadCorpus(cfg.Corpus) {
		var r struct {
			Input Input `json:"input"`
		}
		if json.Unmarshal(raw, &r) == nil && r.Input.Call.Op != "" {
			g.add(r.Input, "corpus")
		}
	}
	g.enumerate()
	n := 900
	if cfg.Thorough() {
		n = 30000
	}
	g.random(n)
	if err := g.flush(); err != nil {
		panic(err)
	}
}
